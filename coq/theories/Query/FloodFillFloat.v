(* Query/FloodFillFloat.v -- the metrics of src/flood_fill_iterator.rs (RectangleMetric, CircleMetric) and the helpers they call
   (Point2 arithmetic of point.rs; project_point, nearest_point, distance_2, PointProjection::{is_on_edge, relative_position} of
   delaunay_core/math.rs; get_edge_intersections) in IEEE arithmetic, operation for operation: every +, -, *, / of the Rust code is one
   correctly rounded (round to nearest even) Flocq operation in the same order, for binary64 and binary32.  `math::side_query`
   (robust::orient2d) is the sign of the exact determinant of the stored values (the oracle hypothesis of Props/C06.v).
   The metrics instantiate the iterator of Query/FloodFill.v; with them the correspondence (Check/RunModel.v) needs no restriction on
   the coordinates.  Definitions only. *)
From Coq Require Import ZArith List Bool Arith.
From Flocq Require Import Core.Core IEEE754.BinarySingleNaN.
From SpadeV Require Import Num.F64 Num.Decode Geom.Pred Obs.State Dcel.Raw Query.FloodFill.
Import ListNotations.

Lemma Hprec32 : FLX.Prec_gt_0 24. Proof. reflexivity. Qed.
Lemma Hmax32 : Prec_lt_emax 24 128. Proof. reflexivity. Qed.

Section FM.
Variables prec emax : Z.
Variable Hp : FLX.Prec_gt_0 prec.
Variable Hm : Prec_lt_emax prec emax.
Notation fl := (binary_float prec emax).

Definition fadd (a b : fl) : fl := Bplus (prec_gt_0_:=Hp) (prec_lt_emax_:=Hm) mode_NE a b.
Definition fsub (a b : fl) : fl := Bminus (prec_gt_0_:=Hp) (prec_lt_emax_:=Hm) mode_NE a b.
Definition fmul (a b : fl) : fl := Bmult (prec_gt_0_:=Hp) (prec_lt_emax_:=Hm) mode_NE a b.
Definition fdiv (a b : fl) : fl := Bdiv (prec_gt_0_:=Hp) (prec_lt_emax_:=Hm) mode_NE a b.
Definition flt (a b : fl) : bool := Bltb a b.
Definition fle (a b : fl) : bool := Bleb a b.
Definition feq (a b : fl) : bool := Beqb a b.
Definition fzero : fl := B754_zero false.
Definition finf : fl := B754_infinity false.
Definition fone : fl := binary_normalize prec emax Hp Hm mode_NE 1 0 false.
Definition fhalf : fl := binary_normalize prec emax Hp Hm mode_NE 1 (-1) false.
Definition f_is_infinite (a : fl) : bool := match a with B754_infinity _ => true | _ => false end.
(* f64::min / f32::min: the other operand when one is NaN *)
Definition fmin (a b : fl) : fl :=
  match a, b with
  | B754_nan, _ => b
  | _, B754_nan => a
  | _, _ => if flt b a then b else a
  end.
(* conversion of a binary64 value to the scalar type (`as f32` rounds to nearest; the identity on binary64) *)
Definition of_f64 (x : F) : fl :=
  match x with
  | B754_zero s => B754_zero s
  | B754_infinity s => B754_infinity s
  | B754_nan => B754_nan
  | B754_finite s m e _ => binary_normalize prec emax Hp Hm mode_NE (if s then Z.neg m else Z.pos m) e s
  end.
(* exact value of a finite number as a dyadic *)
Definition dy_of (x : fl) : dy :=
  match x with
  | B754_finite s m e _ => ((if s then Z.neg m else Z.pos m), e)
  | _ => (0, 0)%Z
  end.

Record fpt := mkfpt { fx : fl; fy : fl }.
Definition p_sub (a b : fpt) : fpt := mkfpt (fsub (fx a) (fx b)) (fsub (fy a) (fy b)).
Definition p_add (a b : fpt) : fpt := mkfpt (fadd (fx a) (fx b)) (fadd (fy a) (fy b)).
Definition p_mul (a : fpt) (s : fl) : fpt := mkfpt (fmul (fx a) s) (fmul (fy a) s).
Definition p_dot (a b : fpt) : fl := fadd (fmul (fx a) (fx b)) (fmul (fy a) (fy b)).
Definition p_length2 (a : fpt) : fl := fadd (fmul (fx a) (fx a)) (fmul (fy a) (fy a)).
Definition p_distance_2 (a b : fpt) : fl := p_length2 (p_sub a b).
Definition p_eq (a b : fpt) : bool := feq (fx a) (fx b) && feq (fy a) (fy b).

(* math::side_query(p1, p2, q).is_on_line(): the exact determinant of the stored values is zero *)
Definition exact_pnts (l : list fpt) : list pnt :=
  let ds := flat_map (fun p => [normalize (dy_of (fx p)); normalize (dy_of (fy p))]) l in
  pair_up (map (scale (emin_of ds)) ds).
Definition side_is_on_line (p1 p2 q : fpt) : bool :=
  match exact_pnts [p1; p2; q] with
  | [a; b; c] => (orient a b c =? 0)%Z
  | _ => false
  end.

(* math::project_point: PointProjection { factor, length_2 } *)
Definition f_project (p1 p2 q : fpt) : fl * fl :=
  let dir := p_sub p2 p1 in (p_dot (p_sub q p1) dir, p_length2 dir).
Definition pj_is_before (s : fl * fl) : bool := flt (fst s) fzero.
Definition pj_is_behind (s : fl * fl) : bool := flt (snd s) (fst s).
Definition pj_is_on_edge (s : fl * fl) : bool := negb (pj_is_before s) && negb (pj_is_behind s).
Definition pj_relative_position (s : fl * fl) : fl :=
  if fle fzero (snd s) then fdiv (fst s) (snd s)
  else let l := Bopp (snd s) in let f := Bopp (fst s) in fdiv (fsub l f) l.
(* math::nearest_point, math::distance_2 *)
Definition f_nearest_point (p1 p2 q : fpt) : fpt :=
  let dir := p_sub p2 p1 in
  let s := f_project p1 p2 q in
  if pj_is_on_edge s then p_add p1 (p_mul dir (pj_relative_position s))
  else if pj_is_before s then p1 else p2.
Definition f_distance_2 (p1 p2 q : fpt) : fl := p_length2 (p_sub q (f_nearest_point p1 p2 q)).

(* ---- CircleMetric ---- *)
Definition fcircle_is_edge_inside (c : fpt) (r2 : fl) (p0 p1 : fpt) : bool := fle (f_distance_2 p0 p1 c) r2.
Definition fcircle_is_point_inside (c : fpt) (r2 : fl) (p : fpt) : bool := fle (fsub (p_distance_2 c p) r2) fzero.

(* ---- RectangleMetric ---- *)
Definition frect_is_inverted (lo hi : fpt) : bool := flt (fx hi) (fx lo) || flt (fy hi) (fy lo).
Definition frect_contains (lo hi p : fpt) : bool :=
  (fle (fx lo) (fx p) && fle (fy lo) (fy p)) && (fle (fx p) (fx hi) && fle (fy p) (fy hi)).
Definition frect_edges (lo hi : fpt) : list (fpt * fpt) :=
  let v0 := lo in let v1 := mkfpt (fx lo) (fy hi) in let v2 := hi in let v3 := mkfpt (fx hi) (fy lo) in
  [(v0, v1); (v1, v2); (v2, v3); (v3, v0)].
(* RectangleMetric::is_edge_inside after fix "rectangle queries decide edge / rectangle intersection with exact side queries":
   exact side queries (robust::orient2d on the stored values) against the rectangle clipped to the range of valid coordinates;
   only the collinear case still uses the floating-point projection. *)
Definition side_sign (p1 p2 q : fpt) : Z :=
  match exact_pnts [p1; p2; q] with
  | [a; b; c] => Z.sgn (orient a b c)
  | _ => 0%Z
  end.
Definition strictly_on_same_side (s0 s1 : Z) : bool := ((0 <? s0) && (0 <? s1))%Z || ((s0 <? 0) && (s1 <? 0))%Z.
Definition frect_side_hit (from to v0 v1 : fpt) : bool :=
  let q0 := side_sign from to v0 in
  let q1 := side_sign from to v1 in
  if (q0 =? 0)%Z && (q1 =? 0)%Z then pj_is_on_edge (f_project from to v0) || pj_is_on_edge (f_project from to v1)
  else negb (strictly_on_same_side q0 q1) && negb (strictly_on_same_side (side_sign v0 v1 from) (side_sign v0 v1 to)).
(* num_traits::cast::<f64, S>(MAX_ALLOWED_VALUE = 2^201) if finite in S, else S::max_value() *)
Definition flimit : fl :=
  if (201 <? emax)%Z then binary_normalize prec emax Hp Hm mode_NE 1 201 false
  else binary_normalize prec emax Hp Hm mode_NE (2 ^ prec - 1) (emax - prec) false.
Definition fneg (a : fl) : fl := Bopp a.
Definition fmaxf (a b : fl) : fl := if flt a b then b else a.
Definition fminf (a b : fl) : fl := if flt b a then b else a.
Definition frect_is_edge_inside (lo hi from to : fpt) : bool :=
  if frect_is_inverted lo hi then false
  else if frect_contains lo hi from || frect_contains lo hi to then true
  else if p_eq lo hi then side_is_on_line from to lo && pj_is_on_edge (f_project from to lo)
  else if flt flimit (fx lo) || flt flimit (fy lo) || flt (fx hi) (fneg flimit) || flt (fy hi) (fneg flimit) then false
  else
    let clo := mkfpt (fmaxf (fx lo) (fneg flimit)) (fmaxf (fy lo) (fneg flimit)) in
    let chi := mkfpt (fminf (fx hi) flimit) (fminf (fy hi) flimit) in
    existsb (fun s => frect_side_hit from to (fst s) (snd s)) (frect_edges clo chi).
Definition frect_distance_to_point (lo hi p : fpt) : fl :=
  if frect_is_inverted lo hi then finf
  else if p_eq lo hi then p_distance_2 p lo
  else if frect_contains lo hi p then fzero
  else match map (fun s => f_distance_2 (fst s) (snd s) p) (frect_edges lo hi) with
       | [d0; d1; d2; d3] => fmin (fmin (fmin d0 d1) d2) d3
       | _ => B754_nan
       end.
Definition frect_is_point_inside (lo hi p : fpt) : bool := fle (frect_distance_to_point lo hi p) fzero.
(* RectangleMetric::center: the midpoint of the rectangle clipped to the range of valid coordinates *)
Definition frect_center (lo hi : fpt) : fpt :=
  let clo := mkfpt (fmaxf (fx lo) (fneg flimit)) (fmaxf (fy lo) (fneg flimit)) in
  let chi := mkfpt (fminf (fx hi) flimit) (fminf (fy hi) flimit) in
  p_mul (p_add clo chi) fhalf.

(* ---- metrics over a DCEL whose vertex records carry binary64 bit patterns ---- *)
Variable d : dcel.
Definition fpos (v : nat) : fpt :=
  let r := nth v (d_verts d) dflt_v in mkfpt (of_f64 (f_of_bits (v_x r))) (of_f64 (f_of_bits (v_y r))).
Definition fepos (k : nat) : fpt * fpt := (fpos (e_origin d (normalized k)), fpos (e_to d (normalized k))).
Definition fpoint (xbits ybits : Z) : fpt := mkfpt (of_f64 (f_of_bits xbits)) (of_f64 (f_of_bits ybits)).

Definition frect_metric (lo hi : fpt) : metric :=
  mkmetric (fun k => let '(a, b) := fepos k in frect_is_edge_inside lo hi a b)
           (fun v => frect_is_point_inside lo hi (fpos v))
           (frect_is_point_inside lo hi (frect_center lo hi)).
Definition fcircle_metric (c : fpt) (r2 : fl) : metric :=
  mkmetric (fun k => let '(a, b) := fepos k in fcircle_is_edge_inside c r2 a b)
           (fun v => fcircle_is_point_inside c r2 (fpos v))
           (fcircle_is_point_inside c r2 c).
(* CircleMetric::new: assert!(radius_2 >= zero()) *)
Definition fcircle_radius_ok (r2 : fl) : bool := fle fzero r2.
End FM.
