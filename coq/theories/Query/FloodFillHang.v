(* Query/FloodFillHang.v -- the flood fill does not terminate for every metric: a machine-checked witness.
   The DCEL below is a state the library produced (bulk_load of six valid points, known finding C16-flood-fill-rounding-hang);
   the metric is RectangleMetric in binary64 arithmetic (Query/FloodFillFloat.v) for the rectangle
   (-2.746e57, 1.794e-43) - (-1.614e-42, 3.531e57).  Rounding makes is_edge_inside accept edges that do not meet the rectangle; after nine
   steps the loop consists of the single half-edge 23, whose apex is already visited and whose two successors are both "inside": the
   `(true, true) => { push_back(next); continue }` branch re-queues it forever.  Hence the model returns None for EVERY fuel
   (hang_model_never_terminates) -- as the real iterator, which does not return on this input.  With the exact metric the same start
   terminates with the specified answer (hang_exact_answer).  This is why fuel sufficiency in two-dimensional states cannot be proved for
   arbitrary metrics (Query/FloodFillProofs.v). *)
From Coq Require Import ZArith List Bool Arith Lia.
From SpadeV Require Import Num.F64 Num.Decode Num.Decode2 Geom.Pred Obs.State Obs.Spec Dcel.Raw Dcel.WfCore Dcel.ProofsFlip Tri.Locate
  Query.FloodFill Query.FloodFillFloat.
Import ListNotations.

Definition hang_dcel : dcel := mkdcel
  [mkv (13841813454723219456)%Z (13839561654909534208)%Z (8)%Z (Some 0); mkv (4618441417868443648)%Z (4613937818241073152)%Z (5)%Z (Some 2); mkv (4611686018427387904)%Z (4613937818241073152)%Z (4)%Z (Some 4); mkv (13205117057403715584)%Z (3967671271713406976)%Z (2)%Z (Some 20); mkv (14690741984482557952)%Z (5469621747441467392)%Z (9)%Z (Some 14); mkv (3977804370874990592)%Z (13200050507822923776)%Z (1)%Z (Some 19)]
  [mkh 18 23 1 0; mkh 15 17 0 1; mkh 7 19 2 1; mkh 16 13 5 2; mkh 10 9 3 2; mkh 12 14 4 0; mkh 8 20 6 5; mkh 19 2 2 2; mkh 20 6 6 2; mkh 4 10 3 3; mkh 9 4 3 0; mkh 22 21 7 3; mkh 14 5 4 2; mkh 3 16 5 4; mkh 5 12 4 4; mkh 17 1 0 0; mkh 13 3 5 1; mkh 1 15 0 4; mkh 23 0 1 1; mkh 2 7 2 5; mkh 6 8 6 3; mkh 11 22 7 5; mkh 21 11 7 0; mkh 0 18 1 5]
  [(Some 17); (Some 0); (Some 7); (Some 4); (Some 5); (Some 16); (Some 6); (Some 11)]
  [false; false; false; false; false; false; false; false; false; false; false; false].

Definition hang_lo := fpoint 53 1024 Hprec64 Hmax64 14689616084575715328 3967671271713406976.
Definition hang_hi := fpoint 53 1024 Hprec64 Hmax64 13205117057403715586 5467932897581203456.
Definition hang_metric : metric := frect_metric 53 1024 Hprec64 Hmax64 hang_dcel hang_lo hang_hi.

Lemma hang_dcel_wf : DW hang_dcel.
Proof. apply DWf_DW. apply wfcore_b_spec. vm_compute. reflexivity. Qed.

(* one step of the iteration, forgetting what it yields *)
Definition advance (d : dcel) (m : metric) (st : ffstate) : option ffstate :=
  match ff_pending st with
  | Some _ => Some (mkff (ff_loop st) None (ff_visited st))
  | None => match ff_pop d m st with FYield _ _ st' => Some st' | FContinue st' => Some st' | FDone => None end
  end.
Fixpoint advances (d : dcel) (m : metric) (j : nat) (st : ffstate) : option ffstate :=
  match j with O => Some st | S j' => match advance d m st with Some st' => advances d m j' st' | None => None end end.

Section Cycle.
Variable d : dcel.
Variable m : metric.

Lemma advance_none : forall st st' k, advance d m st = Some st' -> ff_run d m k st' = None -> ff_run d m (S k) st = None.
Proof.
  intros st st' k A R. unfold advance in A. cbn [ff_run].
  destruct (ff_pending st) as [p|].
  - injection A as <-. rewrite R. destruct (ine m p); reflexivity.
  - destruct (ff_pop d m st) as [e v s1|s1|]; [| |discriminate]; injection A as <-; rewrite R; reflexivity.
Qed.

Lemma advances_none : forall j st st' k, advances d m j st = Some st' -> ff_run d m k st' = None -> ff_run d m (j + k) st = None.
Proof.
  induction j as [|j IH]; intros st st' k A R; cbn [advances] in A.
  - injection A as <-. exact R.
  - destruct (advance d m st) as [s1|] eqn:A1; [|discriminate].
    change (S j + k) with (S (j + k)). apply (advance_none st s1 _ A1). exact (IH s1 st' k A R).
Qed.

Lemma advances_short : forall j st st' k, advances d m j st = Some st' -> k <= j -> ff_run d m k st = None.
Proof.
  induction j as [|j IH]; intros st st' k A Hk.
  - assert (k = 0) by lia. subst. reflexivity.
  - destruct k as [|k]; [reflexivity|]. cbn [advances] in A.
    destruct (advance d m st) as [s1|] eqn:A1; [|discriminate].
    apply (advance_none st s1 k A1). apply (IH s1 st' k A). lia.
Qed.

(* a state that comes back to itself never finishes *)
Lemma cycle_never_terminates : forall c st, 0 < c -> advances d m c st = Some st -> forall k, ff_run d m k st = None.
Proof.
  intros c st Hc A k. induction k as [k IH] using (well_founded_induction lt_wf).
  destruct (Nat.le_gt_cases k c) as [Hle|Hgt].
  - exact (advances_short c st st k A Hle).
  - replace k with (c + (k - c)) by lia. apply (advances_none c st st (k - c) A). apply IH. lia.
Qed.
End Cycle.

Definition hang_start : ffstate := mkff [12; 17; 2] None [2; 4; 1].

Lemma hang_new : ff_new hang_dcel hang_metric (ROutside 15) = Some hang_start.
Proof. vm_compute. reflexivity. Qed.

Theorem hang_model_never_terminates : forall fuel,
  edges_in_shape hang_dcel hang_metric fuel (ROutside 15) = None /\
  vertices_in_shape hang_dcel hang_metric fuel (ROutside 15) = None.
Proof.
  intros fuel.
  assert (R : forall k, ff_run hang_dcel hang_metric k hang_start = None).
  { assert (C : forall k, ff_run hang_dcel hang_metric k (mkff [23] None [5; 0; 2; 4; 1]) = None).
    { apply (cycle_never_terminates hang_dcel hang_metric 1); [lia|]. vm_compute. reflexivity. }
    intros k. destruct (Nat.le_gt_cases k 9) as [Hle|Hgt].
    - apply (advances_short hang_dcel hang_metric 9 hang_start (mkff [23] None [5; 0; 2; 4; 1]) k); [vm_compute; reflexivity|exact Hle].
    - replace k with (9 + (k - 9)) by lia.
      apply (advances_none hang_dcel hang_metric 9 hang_start (mkff [23] None [5; 0; 2; 4; 1])); [vm_compute; reflexivity|apply C]. }
  unfold edges_in_shape, vertices_in_shape. rewrite hang_new, R. split; reflexivity.
Qed.

(* the same state and rectangle with exact arithmetic: positions and corners on one integer scale, doubled (Query/FloodFill.v) *)
Definition hang_exact_input : option (list pnt * pnt * pnt) :=
  match decode_points (flat_map (fun v => [v_x v; v_y v]) (d_verts hang_dcel) ++
                       [14689616084575715328; 3967671271713406976; 13205117057403715586; 5467932897581203456]%Z) with
  | Some all =>
      let dbl := map (fun q : pnt => (2 * fst q, 2 * snd q)%Z) all in
      match skipn 6 dbl with [lo; hi] => Some (firstn 6 dbl, lo, hi) | _ => None end
  | None => None
  end.

Theorem hang_exact_answer :
  match hang_exact_input with
  | Some (pts, lo, hi) => get_edges_in_rectangle pts hang_dcel (ff_fuel hang_dcel) lo hi (ROutside 15) = Some [6; 8; 2; 7]
  | None => False
  end.
Proof. vm_compute. reflexivity. Qed.

Print Assumptions hang_model_never_terminates.
Print Assumptions hang_exact_answer.
