(* Query/FloodFillMetricProofs.v -- the code-shaped exact metrics of Query/FloodFill.v (CircleMetric / RectangleMetric, following the
   control flow of the library) equal the declarative shape predicates of Obs/Query.v (section "C16: shapes"). *)
From Coq Require Import ZArith List Bool Arith Lia.
From SpadeV Require Import Num.Decode Num.Decode2 Geom.Pred Obs.State Obs.Spec Obs.Query Dcel.Raw Query.FloodFill.
From SpadeV Require Import Geom.Lemmas Obs.QueryProp Obs.QueryProofs.
Import ListNotations.
Local Open Scope Z_scope.

(* ------------------------------------------------------------------ generic helpers *)

Lemma bool_eq_iff : forall a b : bool, (a = true <-> b = true) -> a = b.
Proof. intros a b H. apply eq_true_iff_eq. exact H. Qed.

Lemma shiftl_mul_pow2_nonneg : forall x n, 0 <= n -> Z.shiftl x n = x * 2 ^ n.
Proof. intros x n H. apply Z.shiftl_mul_pow2. exact H. Qed.

(* a common positive factor of the two mantissas is irrelevant *)
Lemma dy_leb_scale : forall x m e k, 0 < k -> dy_leb (x * k, 0) (m * k, e) = dy_leb (x, 0) (m, e).
Proof.
  intros x m e k Hk. apply bool_eq_iff.
  rewrite (dy_leb_spec_Z (x * k) 0 (m * k) e (Z.min 0 e)) by lia.
  rewrite (dy_leb_spec_Z x 0 m e (Z.min 0 e)) by lia.
  assert (Hp : 0 < 2 ^ (0 - Z.min 0 e)) by (apply Z.pow_pos_nonneg; lia).
  assert (Hq : 0 < 2 ^ (e - Z.min 0 e)) by (apply Z.pow_pos_nonneg; lia).
  revert Hp Hq. generalize (2 ^ (0 - Z.min 0 e)) (2 ^ (e - Z.min 0 e)). intros p q Hp Hq.
  split; intros H; nia.
Qed.

Lemma dy_leb_zero : forall x, dy_leb (x, 0) (0, 0) = (x <=? 0).
Proof. intros x. unfold dy_leb. cbn [fst snd Z.min Z.compare Z.sub Z.add Z.opp]. rewrite Z.shiftl_0_r. reflexivity. Qed.

(* Lagrange's identity *)
Lemma lagrange : forall a b c, orient a b c * orient a b c + dot a b c * dot a b c = dist2 a b * dist2 a c.
Proof. intros a b c. unfold orient, dot, dist2. ring. Qed.

Lemma orient_rev_sq : forall a b c, orient b a c * orient b a c = orient a b c * orient a b c.
Proof. intros a b c. unfold orient. ring. Qed.

Lemma dot_rev : forall a b c, dot b a c = dist2 a b - dot a b c.
Proof. intros a b c. unfold dot, dist2. ring. Qed.

(* ------------------------------------------------------------------ (1) circle, point *)

Theorem circle_is_point_inside_spec : forall c r2 p, circle_is_point_inside c r2 p = in_circle c r2 p.
Proof. intros c r2 p. reflexivity. Qed.

(* ------------------------------------------------------------------ (2) rectangle, point *)

Lemma rect_contains_in_rect : forall lo hi p, rect_contains lo hi p = in_rect lo hi p.
Proof.
  intros lo hi p. unfold rect_contains, in_rect.
  destruct (fst lo <=? fst p), (snd lo <=? snd p), (fst p <=? fst hi), (snd p <=? snd hi); reflexivity.
Qed.

(* distance 0 to a side means lying on that side *)
Lemma seg_dist2_le_zero_on_seg : forall v0 v1 p, seg_dist2_le v0 v1 p (0, 0) = true -> on_seg v0 v1 p = true.
Proof.
  intros v0 v1 p. unfold seg_dist2_le, proj_is_on_edge. cbv zeta. cbn [fst snd].
  destruct (Z.ltb_spec (dot v0 v1 p) 0) as [H1 | H1]; cbn [negb andb].
  - rewrite dy_leb_zero. intros H. apply Z.leb_le in H.
    pose proof (dist2_nonneg p v0) as Hn.
    assert (E : p = v0) by (apply dist2_zero_iff; lia). subst p.
    exfalso. revert H1. unfold dot. nia.
  - destruct (Z.ltb_spec (dist2 v0 v1) (dot v0 v1 p)) as [H2 | H2]; cbn [negb].
    + rewrite dy_leb_zero. intros H. apply Z.leb_le in H.
      pose proof (dist2_nonneg p v1) as Hn.
      assert (E : p = v1) by (apply dist2_zero_iff; lia). subst p.
      exfalso. revert H2. unfold dot, dist2. nia.
    + destruct (Z.eqb_spec (dist2 v0 v1) 0) as [H3 | H3]; [discriminate |].
      cbn [Z.mul]. rewrite dy_leb_zero. intros H. apply Z.leb_le in H.
      unfold on_seg. destruct (pnt_eqb v0 v1) eqn:E.
      * apply pnt_eqb_spec in E. apply dist2_zero_iff in E. contradiction.
      * apply on_segment_spec. split; [nia | lia].
Qed.

Lemma OnSeg_horizontal_inv : forall y x0 x1 p,
  OnSeg (x0, y) (x1, y) p -> snd p = y /\ (x0 <= fst p <= x1 \/ x1 <= fst p <= x0).
Proof.
  intros y x0 x1 [px py] [Ho [Hd He]]. unfold orient, dot, dist2 in Ho, Hd. cbn [fst snd] in *.
  destruct (Z.eq_dec x0 x1) as [E | E].
  - subst x1. specialize (He eq_refl). inversion He. lia.
  - clear He. assert (py = y) by nia. subst py. split; [reflexivity |]. nia.
Qed.

Lemma OnSeg_vertical_inv : forall x y0 y1 p,
  OnSeg (x, y0) (x, y1) p -> fst p = x /\ (y0 <= snd p <= y1 \/ y1 <= snd p <= y0).
Proof.
  intros x y0 y1 [px py] [Ho [Hd He]]. unfold orient, dot, dist2 in Ho, Hd. cbn [fst snd] in *.
  destruct (Z.eq_dec y0 y1) as [E | E].
  - subst y1. specialize (He eq_refl). inversion He. lia.
  - clear He. assert (px = x) by nia. subst px. split; [reflexivity |]. nia.
Qed.

(* the sides of a non-inverted rectangle lie in the rectangle *)
Lemma on_side_in_rect : forall lo hi s p,
  rect_is_inverted lo hi = false -> In s (rect_edges lo hi) -> on_seg (fst s) (snd s) p = true -> in_rect lo hi p = true.
Proof.
  intros [lx ly] [hx hy] s p Hinv Hin Hon.
  unfold rect_is_inverted in Hinv. cbn [fst snd] in Hinv.
  apply orb_false_iff in Hinv. destruct Hinv as [Hx Hy]. apply Z.ltb_ge in Hx, Hy.
  apply in_rect_spec. unfold InRect. cbn [fst snd].
  apply on_seg_spec in Hon.
  unfold rect_edges in Hin. cbv zeta in Hin. cbn [fst snd] in Hin.
  destruct Hin as [E | [E | [E | [E | []]]]]; subst s; cbn [fst snd] in Hon.
  - apply OnSeg_vertical_inv in Hon. lia.
  - apply OnSeg_horizontal_inv in Hon. lia.
  - apply OnSeg_vertical_inv in Hon. lia.
  - apply OnSeg_horizontal_inv in Hon. lia.
Qed.

Theorem rect_is_point_inside_spec : forall lo hi p, rect_is_point_inside lo hi p = in_rect lo hi p.
Proof.
  intros lo hi p. unfold rect_is_point_inside. rewrite rect_contains_in_rect.
  destruct (rect_is_inverted lo hi) eqn:Hinv.
  - symmetry. destruct (in_rect lo hi p) eqn:E; [| reflexivity]. exfalso.
    apply in_rect_spec in E. unfold InRect in E. unfold rect_is_inverted in Hinv.
    apply orb_true_iff in Hinv. rewrite !Z.ltb_lt in Hinv. lia.
  - destruct (pnt_eqb lo hi) eqn:Heq.
    + apply pnt_eqb_spec in Heq. subst hi. apply bool_eq_iff. rewrite Z.leb_le, in_rect_spec.
      unfold InRect. pose proof (dist2_nonneg p lo) as Hn. split.
      * intros H. assert (E : p = lo) by (apply dist2_zero_iff; lia). subst p. lia.
      * intros H. assert (E : p = lo) by (destruct p, lo; cbn [fst snd] in H; f_equal; lia).
        apply dist2_zero_iff in E. lia.
    + destruct (in_rect lo hi p) eqn:E; [reflexivity |].
      destruct (existsb _ (rect_edges lo hi)) eqn:Hex; [| reflexivity]. exfalso.
      apply existsb_exists in Hex. destruct Hex as [s [Hin Hs]].
      apply seg_dist2_le_zero_on_seg in Hs.
      rewrite (on_side_in_rect lo hi s p Hinv Hin Hs) in E. discriminate E.
Qed.

(* ------------------------------------------------------------------ (3) circle, edge *)

Theorem circle_is_edge_inside_spec : forall c r2 a b,
  pnt_eqb a b = false -> circle_is_edge_inside c r2 a b = edge_meets_circle c r2 a b.
Proof.
  intros c [rm re] a b Hab. apply pnt_eqb_neq in Hab. pose proof (dist2_pos a b Hab) as HL.
  unfold circle_is_edge_inside, seg_dist2_le, edge_meets_circle, in_circle, proj_is_on_edge. cbv zeta. cbn [fst snd].
  destruct (Z.ltb_spec (dot a b c) 0) as [H1 | H1]; cbn [negb andb].
  - destruct (Z.leb_spec (dot a b c) 0) as [H2 | H2]; [| lia]. rewrite (dist2_sym c a). reflexivity.
  - destruct (Z.ltb_spec (dist2 a b) (dot a b c)) as [H2 | H2]; cbn [negb].
    + destruct (Z.leb_spec (dot a b c) 0) as [H3 | H3]; [lia |].
      destruct (Z.leb_spec (dist2 a b) (dot a b c)) as [H4 | H4]; [| lia]. rewrite (dist2_sym c b). reflexivity.
    + destruct (Z.eqb_spec (dist2 a b) 0) as [H3 | H3]; [lia |].
      destruct (Z.leb_spec (dot a b c) 0) as [H4 | H4].
      * (* the foot of the perpendicular is a *)
        assert (E : orient a b c * orient a b c = dist2 c a * dist2 a b).
        { pose proof (lagrange a b c) as HLg. rewrite (dist2_sym c a).
          replace (dot a b c) with 0 in HLg by lia. lia. }
        rewrite E. apply dy_leb_scale. exact HL.
      * destruct (Z.leb_spec (dist2 a b) (dot a b c)) as [H5 | H5]; [| reflexivity].
        (* the foot of the perpendicular is b *)
        assert (E : orient a b c * orient a b c = dist2 c b * dist2 a b).
        { pose proof (lagrange b a c) as HLg. rewrite orient_rev_sq, dot_rev in HLg.
          rewrite (dist2_sym c b), (dist2_sym a b).
          replace (dist2 a b - dot a b c) with 0 in HLg by lia. lia. }
        rewrite E. apply dy_leb_scale. exact HL.
Qed.


(* ------------------------------------------------------------------ (4) rectangle, edge *)

(* the divisor and the numerators of get_edge_intersections are orientation determinants *)
Lemma edge_intersections_orient : forall v0 v1 a b,
  edge_intersections v0 v1 a b = (orient a b v1 - orient a b v0, - orient a b v0, orient v0 v1 a).
Proof. intros v0 v1 a b. unfold edge_intersections, orient. cbv zeta. apply f_equal2; [apply f_equal2 |]; ring. Qed.

Lemma SegMeet_swap : forall a b c d, SegMeet a b c d -> SegMeet a b d c.
Proof.
  intros a b c d [n [t [u [Hn [Ht [Hu [Ex Ey]]]]]]]. exists n, t, (n - u).
  split; [exact Hn |]. split; [exact Ht |]. split; [lia |]. split.
  - rewrite Ex. ring.
  - rewrite Ey. ring.
Qed.

Lemma seg_meet_swap : forall a b c d, seg_meet a b c d = seg_meet a b d c.
Proof. intros a b c d. apply bool_eq_iff. rewrite !seg_meet_spec. split; apply SegMeet_swap. Qed.

(* non-parallel case: both parameters in [0,1] <-> the segments meet *)
Lemma side_hit_nonparallel : forall a b v0 v1 dv n0 n1,
  edge_intersections v0 v1 a b = (dv, n0, n1) -> dv <> 0 ->
  (unit_contains n0 dv && unit_contains n1 dv = true <-> SegMeet a b v0 v1).
Proof.
  intros [ax ay] [bx by_] [x3 y3] [x4 y4] dv n0 n1 E Hdv.
  unfold edge_intersections in E. cbv zeta in E. cbn [fst snd] in E.
  injection E as Edv En0 En1. unfold SegMeet. cbn [fst snd]. split.
  - intros H. apply andb_true_iff in H. destruct H as [H0 H1]. unfold unit_contains in H0, H1.
    destruct (Z.ltb_spec 0 dv) as [Hp | Hp].
    + apply andb_true_iff in H0, H1. rewrite !Z.leb_le in H0, H1.
      exists dv, n1, n0. split; [lia |]. split; [lia |]. split; [lia |]. subst dv n0 n1. split; ring.
    + apply andb_true_iff in H0, H1. rewrite !Z.leb_le in H0, H1.
      exists (- dv), (- n1), (- n0). split; [lia |]. split; [lia |]. split; [lia |]. subst dv n0 n1. split; ring.
  - intros [n [t [u [Hn [Ht [Hu [Ex Ey]]]]]]].
    assert (Fx : n * ax - n * x3 = u * (x4 - x3) - t * (bx - ax)) by lia.
    assert (Fy : n * ay - n * y3 = u * (y4 - y3) - t * (by_ - ay)) by lia.
    assert (G0 : n * n0 = u * dv).
    { subst n0 dv. replace (n * ((bx - ax) * (ay - y3) - (by_ - ay) * (ax - x3)))
        with ((bx - ax) * (n * ay - n * y3) - (by_ - ay) * (n * ax - n * x3)) by ring.
      rewrite Fx, Fy. ring. }
    assert (G1 : n * n1 = t * dv).
    { subst n1 dv. replace (n * ((x4 - x3) * (ay - y3) - (y4 - y3) * (ax - x3)))
        with ((x4 - x3) * (n * ay - n * y3) - (y4 - y3) * (n * ax - n * x3)) by ring.
      rewrite Fx, Fy. ring. }
    clear Edv En0 En1 Ex Ey Fx Fy.
    apply andb_true_iff. unfold unit_contains.
    destruct (Z.ltb_spec 0 dv) as [Hp | Hp]; rewrite !andb_true_iff, !Z.leb_le; nia.
Qed.

(* the body of the loop over the sides, for a side none of whose points is an end point of the edge *)
Lemma rect_side_hit_seg_meet : forall a b v0 v1,
  pnt_eqb a b = false -> on_seg v0 v1 a = false -> on_seg v0 v1 b = false ->
  rect_side_hit a b v0 v1 = seg_meet a b v0 v1.
Proof.
  intros a b v0 v1 Hab Ha Hb. unfold rect_side_hit.
  destruct (edge_intersections v0 v1 a b) as [[dv n0] n1] eqn:E.
  destruct (Z.eqb_spec dv 0) as [Hdv | Hdv].
  - rewrite edge_intersections_orient in E. injection E as Edv _ _.
    assert (EQ : orient a b v1 = orient a b v0) by lia.
    unfold seg_meet. rewrite Ha, Hb, !orb_false_r. unfold on_seg. rewrite Hab.
    unfold proper_cross, on_segment, proj_is_on_edge. cbv zeta. rewrite EQ.
    rewrite <- !Z.leb_antisym.
    destruct (Z.eqb_spec (orient a b v0) 0) as [Ho | Ho]; cbn [negb andb].
    + rewrite Ho. cbn [Z.ltb Z.compare andb orb]. reflexivity.
    + destruct (Z.ltb_spec 0 (orient a b v0)), (Z.ltb_spec (orient a b v0) 0); cbn [andb orb]; try reflexivity; lia.
  - apply bool_eq_iff. rewrite seg_meet_spec. apply side_hit_nonparallel with (1 := E). exact Hdv.
Qed.

Theorem rect_is_edge_inside_spec : forall lo hi a b,
  pnt_eqb a b = false -> rect_is_edge_inside lo hi a b = edge_meets_rect lo hi a b.
Proof.
  intros lo hi a b Hab. unfold rect_is_edge_inside, edge_meets_rect. cbv zeta.
  rewrite !rect_contains_in_rect.
  destruct (rect_is_inverted lo hi) eqn:Hinv.
  - unfold rect_is_inverted in Hinv. apply orb_true_iff in Hinv. rewrite !Z.ltb_lt in Hinv.
    destruct (Z.leb_spec (fst lo) (fst hi)), (Z.leb_spec (snd lo) (snd hi)); cbn [andb]; try reflexivity; lia.
  - assert (Hle : (fst lo <=? fst hi) && (snd lo <=? snd hi) = true).
    { unfold rect_is_inverted in Hinv. apply orb_false_iff in Hinv. rewrite !Z.ltb_ge in Hinv.
      apply andb_true_iff. rewrite !Z.leb_le. exact Hinv. }
    rewrite Hle. cbn [andb].
    destruct (in_rect lo hi a) eqn:Ia; [reflexivity |].
    destruct (in_rect lo hi b) eqn:Ib; [reflexivity |]. cbn [orb].
    assert (Hside : forall s, In s (rect_edges lo hi) ->
                      rect_side_hit a b (fst s) (snd s) = seg_meet a b (fst s) (snd s)).
    { intros s Hs. apply rect_side_hit_seg_meet; [exact Hab | |].
      - destruct (on_seg (fst s) (snd s) a) eqn:F; [| reflexivity].
        rewrite (on_side_in_rect lo hi s a Hinv Hs F) in Ia. discriminate Ia.
      - destruct (on_seg (fst s) (snd s) b) eqn:F; [| reflexivity].
        rewrite (on_side_in_rect lo hi s b Hinv Hs F) in Ib. discriminate Ib. }
    destruct (pnt_eqb lo hi) eqn:Heq.
    + apply pnt_eqb_spec in Heq. subst hi.
      assert (E : (fst lo, snd lo) = lo) by (destruct lo; reflexivity). rewrite !E.
      specialize (Hside (lo, lo)). cbn [fst snd] in Hside.
      rewrite <- Hside by (unfold rect_edges; cbv zeta; rewrite E; left; reflexivity).
      unfold rect_side_hit.
      destruct (edge_intersections lo lo a b) as [[dv n0] n1] eqn:EI.
      rewrite edge_intersections_orient in EI. injection EI as Edv _ _.
      replace dv with 0 by lia. cbn [Z.eqb].
      destruct (orient a b lo =? 0); cbn [negb andb orb]; [| reflexivity].
      destruct (proj_is_on_edge a b lo); reflexivity.
    + unfold rect_edges in *. cbv zeta in *. cbn [existsb fst snd].
      pose proof (Hside (lo, (fst lo, snd hi)) ltac:(cbn [In]; tauto)) as S1.
      pose proof (Hside ((fst lo, snd hi), hi) ltac:(cbn [In]; tauto)) as S2.
      pose proof (Hside (hi, (fst hi, snd lo)) ltac:(cbn [In]; tauto)) as S3.
      pose proof (Hside ((fst hi, snd lo), lo) ltac:(cbn [In]; tauto)) as S4.
      cbn [fst snd] in S1, S2, S3, S4. rewrite S1, S2, S3, S4.
      rewrite (seg_meet_swap a b lo (fst hi, snd lo)), (seg_meet_swap a b (fst hi, snd lo) hi),
              (seg_meet_swap a b hi (fst lo, snd hi)), (seg_meet_swap a b (fst lo, snd hi) lo).
      destruct (seg_meet a b lo (fst lo, snd hi)), (seg_meet a b (fst lo, snd hi) hi),
               (seg_meet a b hi (fst hi, snd lo)), (seg_meet a b (fst hi, snd lo) lo); reflexivity.
Qed.

Print Assumptions circle_is_point_inside_spec.
Print Assumptions rect_is_point_inside_spec.
Print Assumptions circle_is_edge_inside_spec.
Print Assumptions rect_is_edge_inside_spec.
