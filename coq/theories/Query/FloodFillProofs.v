(* Query/FloodFillProofs.v -- theorems about the flood-fill model of Query/FloodFill.v.

   For every DCEL and every metric (no hypothesis):
     ff_run_inside, edges_in_shape_sound, vertices_in_shape_sound   every yielded element passed the metric's test
     ff_run_mono, edges_in_shape_mono, vertices_in_shape_mono       more fuel never changes an answer
     edges_start_outside, vertices_start_outside                    start point outside the shape: nothing but the single-vertex case
   For link-level well-formed DCELs (DW, Dcel/ProofsFlip.v; DWf_DW: DW d <-> DWf d):
     edges_in_shape_in_range, vertices_in_shape_in_range            every yielded handle is a handle of the DCEL
   Degenerate states (all vertices on a line: one face), every metric:
     edges_in_shape_line       the answer with fuel ff_fuel IS the list of the undirected edges inside, in index order
                               (sound, complete, duplicate-free, terminating: line_edges_nodup, line_edges_complete)
     vertices_in_shape_line    the answer IS the set of end points of those edges that are inside (duplicate-free)
   Two-dimensional states (PART 4): the covering invariant.  If the run terminates, the triangles it expanded (`Cov`) contain the start
   triangle and are closed under crossing every edge that is inside the shape; every edge of a covered triangle that is inside the shape has
   been yielded, every corner of a covered triangle that is inside has been yielded:
     flood_closure                     the invariant at termination
     edges_in_shape_complete_partial   every inside edge of a triangle reachable from the start triangle through inside edges is yielded
     vertices_in_shape_complete_partial  every inside corner of such a triangle is yielded
     edges_in_shape_complete_connected   hence: if every inside edge bounds such a triangle (connectivity of the faces meeting a convex shape
                                         -- a hypothesis here), the answer contains every inside edge
   The exact metrics and the declarative specification of Obs/QueryProp.v (PART 5; the metric equalities are in Query/FloodFillMetricProofs.v):
     model_edges_in_rectangle_sound, model_vertices_in_rectangle_sound, model_edges_in_circle_sound, model_vertices_in_circle_sound
                               on a well-formed state with distinct edge end points every yielded handle is in range and satisfies
                               EdgeMeetsRect / InRect / EdgeMeetsCircle / InCircle
     model_edges_in_rectangle_line_spec, model_edges_in_circle_line_spec, model_vertices_in_rectangle_line_spec, model_vertices_in_circle_line_spec
                               degenerate states: the model terminates within ff_fuel and its answer satisfies the WHOLE specification
                               EdgesInRectOk / EdgesInCircleOk / VerticesInRectOk / VerticesInCircleOk (sound, complete, duplicate-free);
                               for the vertices this uses rect_vertex_edge / circle_vertex_edge: an edge with an end point inside is inside
   Not proved: absence of duplicates and termination within ff_fuel in two-dimensional states.  Both are FALSE for arbitrary metrics (the
   `(true, true)` branch re-queues its edge; see the known finding C16-flood-fill-rounding-hang for an IEEE metric on which the real iterator
   does not terminate) and need the planar geometry of a convex shape; they are decided per answer by Check/Run.v (nodup) and by the
   correspondence run (fuel ff_fuel on every case). *)
From Coq Require Import ZArith List Bool Arith Lia.
From SpadeV Require Import Num.Decode Num.Decode2 Geom.Pred Obs.State Dcel.Raw Dcel.WfCore Dcel.ProofsFlip
  Query.Hull Tri.Legalize Tri.Insert Tri.Locate Query.FloodFill.
From SpadeV Require Import Geom.Lemmas Obs.Spec Obs.Query Obs.QueryProp Obs.QueryProofs Query.FloodFillMetricProofs.
Import ListNotations.

(* ================================================================================================ *)
(* PART 0.  lists, handles                                                                           *)
(* ================================================================================================ *)

Lemma div2_double : forall k, Nat.div2 (2 * k) = k.
Proof. intros k. rewrite Nat.div2_double. reflexivity. Qed.
Lemma div2_double1 : forall k, Nat.div2 (2 * k + 1) = k.
Proof. intros k. replace (2 * k + 1) with (S (2 * k)) by lia. apply Nat.div2_succ_double. Qed.

Lemma div2_rev : forall e, Nat.div2 (rev e) = Nat.div2 e.
Proof.
  intros e. destruct (rev_cases e) as [k [[-> ->]|[-> ->]]]; rewrite ?div2_double, ?div2_double1; reflexivity.
Qed.

Lemma div2_eq_cases : forall x y, Nat.div2 x = Nat.div2 y -> y = x \/ y = rev x.
Proof.
  intros x y H.
  destruct (rev_cases x) as [k [[-> R]|[-> R]]]; rewrite R;
    destruct (rev_cases y) as [j [[-> _]|[-> _]]]; rewrite ?div2_double, ?div2_double1 in H; subst; auto.
Qed.

Lemma memb_In : forall x l, memb x l = true <-> In x l.
Proof.
  intros x l. unfold memb. rewrite existsb_exists. split.
  - intros [y [I E]]. apply Nat.eqb_eq in E. subst. exact I.
  - intros I. exists x. split; [exact I|apply Nat.eqb_refl].
Qed.

Lemma opt_is_true : forall o x, opt_is o x = true -> o = Some x.
Proof. intros [y|] x H; cbn in H; [apply Nat.eqb_eq in H; subst; reflexivity|discriminate]. Qed.

Lemma front_cons : forall l x, front l = Some x -> l = x :: tl l.
Proof. intros [|y t] x H; cbn in *; [discriminate|injection H as ->; reflexivity]. Qed.

Lemma back_app : forall l x, back l = Some x -> l = pop_back l ++ [x].
Proof.
  induction l as [|y t IH]; intros x H; [discriminate|].
  destruct t as [|z t'].
  - cbn in H. injection H as ->. reflexivity.
  - change (back (y :: z :: t')) with (back (z :: t')) in H.
    unfold pop_back in *. change (removelast (y :: z :: t')) with (y :: removelast (z :: t')).
    cbn [app]. f_equal. apply IH. exact H.
Qed.

Lemma In_tl : forall (l : list nat) y, In y (tl l) -> In y l.
Proof. intros [|x t] y H; cbn in *; auto. Qed.
Lemma In_pop_back : forall (l : list nat) y, In y (pop_back l) -> In y l.
Proof.
  intros l y H. destruct (back l) as [z|] eqn:B.
  - rewrite (back_app l z B). apply in_or_app. left. exact H.
  - destruct l as [|a t]; [exact H|]. exfalso. clear H. revert a B.
    induction t as [|b t IH]; intros a B; [discriminate|]. exact (IH b B).
Qed.
Lemma In_front_split : forall (l : list nat) x y, front l = Some x -> In y l -> y = x \/ In y (tl l).
Proof. intros l x y F I. rewrite (front_cons l x F) in I. destruct I as [<-|I]; auto. Qed.
Lemma In_back_split : forall (l : list nat) x y, back l = Some x -> In y l -> y = x \/ In y (pop_back l).
Proof.
  intros l x y B I. rewrite (back_app l x B) in I. apply in_app_or in I. destruct I as [I|[<-|[]]]; auto.
Qed.
Lemma front_In : forall (l : list nat) x, front l = Some x -> In x l.
Proof. intros l x F. rewrite (front_cons l x F). left. reflexivity. Qed.
Lemma back_In : forall (l : list nat) x, back l = Some x -> In x l.
Proof. intros l x B. rewrite (back_app l x B). apply in_or_app. right. left. reflexivity. Qed.

Lemma set_remove_In : forall x y l, In y (set_remove x l) -> In y l.
Proof. intros x y l H. unfold set_remove in H. apply filter_In in H. tauto. Qed.

Lemma dedup_In : forall x l, In x (dedup l) <-> In x l.
Proof.
  intros x l. induction l as [|y t IH]; cbn [dedup]; [tauto|].
  destruct (memb y t) eqn:M.
  - rewrite IH. apply memb_In in M. split; [auto with datatypes|]. intros [<-|I]; auto.
  - cbn [In]. rewrite IH. tauto.
Qed.
Lemma dedup_NoDup : forall l, NoDup (dedup l).
Proof.
  induction l as [|y t IH]; cbn [dedup]; [constructor|].
  destruct (memb y t) eqn:M; [exact IH|].
  constructor; [|exact IH]. rewrite dedup_In. intros I. apply memb_In in I. congruence.
Qed.

Lemma filter_length : forall (f : nat -> bool) l, length (filter f l) <= length l.
Proof. intros f l. induction l as [|x t IH]; cbn; [lia|]. destruct (f x); cbn; lia. Qed.

(* ================================================================================================ *)
(* PART 1.  every DCEL, every metric: soundness w.r.t. the metric, fuel monotonicity                 *)
(* ================================================================================================ *)

Section Generic.
Variable d : dcel.
Variable m : metric.
Notation ine := (ine m).
Notation ff_pop := (ff_pop d m).
Notation ff_run := (ff_run d m).

Lemma ine_rev : forall e, ine (e_rev e) = ine e.
Proof. intros e. unfold FloodFill.ine, as_undirected, e_rev. rewrite div2_rev. reflexivity. Qed.

(* case analysis of one pop: every branch of FloodFillIterator::next's loop body *)
Ltac pop_cases H :=
  unfold FloodFill.ff_pop in H;
  repeat match type of H with
         | context [match ?x with _ => _ end] =>
             match x with
             | ff_loop _ => destruct x as [|?e ?rest] eqn:?L
             | _ => destruct x eqn:?
             end
         end.

Lemma ff_pop_yield_inside : forall st e v st', ff_pop st = FYield e v st' -> ine e = true.
Proof.
  intros st e v st' H. pop_cases H; try discriminate; injection H as <- _ _;
    match goal with Hn : negb _ = false |- _ => apply negb_false_iff in Hn; exact Hn end.
Qed.

Theorem ff_run_inside : forall fuel st items, ff_run fuel st = Some items ->
  forall it, In it items -> ine (fst it) = true.
Proof.
  induction fuel as [|k IH]; intros st items R it I; cbn [FloodFill.ff_run] in R; [discriminate|].
  destruct (ff_pending st) as [p|].
  - destruct (ine p) eqn:Ip.
    + destruct (ff_run k _) as [l|] eqn:R'; [|discriminate]. injection R as <-.
      destruct I as [<-|I]; [exact Ip|]. exact (IH _ _ R' it I).
    + exact (IH _ _ R it I).
  - destruct (ff_pop st) as [e v st'|st'|] eqn:P.
    + destruct (ff_run k st') as [l|] eqn:R'; [|discriminate]. injection R as <-.
      destruct I as [<-|I]; [exact (ff_pop_yield_inside _ _ _ _ P)|]. exact (IH _ _ R' it I).
    + exact (IH _ _ R it I).
    + injection R as <-. destruct I.
Qed.

Theorem edges_in_shape_sound : forall fuel loc l, edges_in_shape d m fuel loc = Some l ->
  forall k, In k l -> m_edge m k = true.
Proof.
  intros fuel loc l E k I. unfold edges_in_shape in E.
  destruct (ff_new d m loc) as [st|]; [|discriminate].
  destruct (ff_run fuel st) as [items|] eqn:R; [|discriminate]. injection E as <-.
  apply in_map_iff in I. destruct I as [it [<- I]]. exact (ff_run_inside _ _ _ R it I).
Qed.

Lemma new_vertices_inside : forall items v, In v (new_vertices m items) -> m_vert m v = true.
Proof.
  intros items v I. unfold new_vertices in I. apply in_flat_map in I. destruct I as [it [_ I]].
  destruct (snd it) as [w|]; [|destruct I]. destruct (m_vert m w) eqn:M; [|destruct I].
  destruct I as [<-|[]]. exact M.
Qed.

Theorem vertices_in_shape_sound : forall fuel loc l, vertices_in_shape d m fuel loc = Some l ->
  forall v, In v l -> m_vert m v = true.
Proof.
  intros fuel loc l E v I. unfold vertices_in_shape in E.
  destruct (ff_new d m loc) as [st|]; [|discriminate].
  destruct (ff_run fuel st) as [items|]; [|discriminate]. injection E as <-.
  apply in_app_or in I. destruct I as [I|I].
  - apply filter_In in I. tauto.
  - exact (new_vertices_inside _ _ I).
Qed.

Theorem ff_run_mono : forall fuel st items, ff_run fuel st = Some items ->
  forall fuel', fuel <= fuel' -> ff_run fuel' st = Some items.
Proof.
  induction fuel as [|k IH]; intros st items R fuel' Hle; cbn [FloodFill.ff_run] in R; [discriminate|].
  destruct fuel' as [|k']; [lia|]. cbn [FloodFill.ff_run]. assert (Hk : k <= k') by lia.
  destruct (ff_pending st) as [p|].
  - destruct (ine p).
    + destruct (ff_run k _) as [l|] eqn:R'; [|discriminate]. rewrite (IH _ _ R' k' Hk). exact R.
    + exact (IH _ _ R k' Hk).
  - destruct (ff_pop st) as [e v st'|st'|].
    + destruct (ff_run k st') as [l|] eqn:R'; [|discriminate]. rewrite (IH _ _ R' k' Hk). exact R.
    + exact (IH _ _ R k' Hk).
    + exact R.
Qed.

Theorem edges_in_shape_mono : forall fuel loc l, edges_in_shape d m fuel loc = Some l ->
  forall fuel', fuel <= fuel' -> edges_in_shape d m fuel' loc = Some l.
Proof.
  intros fuel loc l E fuel' Hle. unfold edges_in_shape in *.
  destruct (ff_new d m loc) as [st|]; [|discriminate].
  destruct (ff_run fuel st) as [items|] eqn:R; [|discriminate].
  rewrite (ff_run_mono _ _ _ R fuel' Hle). exact E.
Qed.

Theorem vertices_in_shape_mono : forall fuel loc l, vertices_in_shape d m fuel loc = Some l ->
  forall fuel', fuel <= fuel' -> vertices_in_shape d m fuel' loc = Some l.
Proof.
  intros fuel loc l E fuel' Hle. unfold vertices_in_shape in *.
  destruct (ff_new d m loc) as [st|]; [|discriminate].
  destruct (ff_run fuel st) as [items|] eqn:R; [|discriminate].
  rewrite (ff_run_mono _ _ _ R fuel' Hle). exact E.
Qed.

(* ---- the start point is outside the shape (e.g. an inverted rectangle) ---- *)
Theorem edges_start_outside : forall fuel loc, m_start m = false -> edges_in_shape d m (S fuel) loc = Some [].
Proof.
  intros fuel loc S0. unfold edges_in_shape, ff_new, start_edges. rewrite S0. reflexivity.
Qed.

Theorem vertices_start_outside : forall fuel loc, m_start m = false ->
  vertices_in_shape d m (S fuel) loc = Some (if num_vertices d =? 1 then filter (m_vert m) [0] else []).
Proof.
  intros fuel loc S0. unfold vertices_in_shape, ff_new, start_edges. rewrite S0. cbn [negb map dedup].
  cbn [FloodFill.ff_run ff_pending FloodFill.ff_pop ff_loop]. unfold initial_elements. cbn [ff_visited new_vertices flat_map].
  rewrite app_nil_r. destruct (num_vertices d =? 1); reflexivity.
Qed.

(* ---- degenerate states: the loop is a sequence of pairs [e, e.rev()] of edges inside the shape ---- *)
Definition pairs (ks : list nat) : list nat := flat_map (fun k => [normalized k; e_rev (normalized k)]) ks.

Lemma ine_normalized : forall k, ine (normalized k) = m_edge m k.
Proof. intros k. unfold FloodFill.ine, as_undirected, normalized. rewrite div2_double. reflexivity. Qed.

Lemma ff_run_S : forall k st, ff_run (S k) st =
  match ff_pending st with
  | Some p =>
      let st' := mkff (ff_loop st) None (ff_visited st) in
      if ine p then option_map (cons (p, None)) (ff_run k st') else ff_run k st'
  | None =>
      match ff_pop st with
      | FDone => Some []
      | FContinue st' => ff_run k st'
      | FYield e v st' => option_map (cons (e, v)) (ff_run k st')
      end
  end.
Proof. reflexivity. Qed.

Lemma ff_pop_pair : forall k rest vis, m_edge m k = true ->
  ff_pop (mkff (normalized k :: e_rev (normalized k) :: rest) None vis) = FYield (normalized k) None (mkff rest None vis).
Proof.
  intros k rest vis H. unfold FloodFill.ff_pop. cbn [ff_loop ff_visited].
  rewrite ine_normalized, H. cbn [negb front opt_is tl]. rewrite Nat.eqb_refl. reflexivity.
Qed.

Lemma ff_run_pairs : forall ks vis, (forall k, In k ks -> m_edge m k = true) ->
  ff_run (S (length ks)) (mkff (pairs ks) None vis) = Some (map (fun k => (normalized k, None)) ks).
Proof.
  induction ks as [|k ks IH]; intros vis H.
  - reflexivity.
  - change (S (length (k :: ks))) with (S (S (length ks))).
    rewrite ff_run_S. cbn [ff_pending].
    change (pairs (k :: ks)) with (normalized k :: e_rev (normalized k) :: pairs ks).
    rewrite (ff_pop_pair k (pairs ks) vis (H k (or_introl eq_refl))).
    rewrite IH by (intros j Ij; apply H; right; exact Ij). reflexivity.
Qed.

Definition inside_edges : list nat := filter (m_edge m) (seq 0 (num_undirected_edges d)).

Lemma line_start_edges_pairs : line_start_edges d m = pairs inside_edges.
Proof. reflexivity. Qed.

(* all vertices on a line: the answer is the list of the undirected edges inside, in index order *)
Theorem edges_in_shape_line : forall loc,
  num_faces d = 1 -> m_start m = true -> num_undirected_edges d <= num_directed_edges d ->
  edges_in_shape d m (ff_fuel d) loc = Some inside_edges.
Proof.
  intros loc F1 S1 Hne. unfold edges_in_shape, ff_new, start_edges. rewrite S1, F1. cbn [negb Nat.eqb].
  rewrite line_start_edges_pairs.
  assert (R := ff_run_pairs inside_edges (dedup (map (e_origin d) (pairs inside_edges)))
                 (fun k I => proj2 (proj1 (filter_In _ _ _) I))).
  assert (Hlen : S (length inside_edges) <= ff_fuel d).
  { unfold ff_fuel, inside_edges.
    pose proof (filter_length (m_edge m) (seq 0 (num_undirected_edges d))) as L.
    rewrite seq_length in L. lia. }
  rewrite (ff_run_mono _ _ _ R _ Hlen). cbn [option_map]. f_equal.
  rewrite map_map. cbn [fst]. clear. induction inside_edges as [|k t IH]; cbn [map]; [reflexivity|].
  rewrite IH. f_equal. unfold as_undirected, normalized. apply div2_double.
Qed.

Corollary line_edges_nodup : NoDup inside_edges.
Proof. apply NoDup_filter. apply seq_NoDup. Qed.
Corollary line_edges_complete : forall k, In k inside_edges <-> k < num_undirected_edges d /\ m_edge m k = true.
Proof.
  intros k. unfold inside_edges. rewrite filter_In, in_seq. split; intros [A B]; split; auto; lia.
Qed.

(* the vertices: the end points of those edges, as a set, filtered by the metric; no new vertex is ever produced *)
Theorem vertices_in_shape_line : forall loc,
  num_faces d = 1 -> m_start m = true -> num_undirected_edges d <= num_directed_edges d ->
  vertices_in_shape d m (ff_fuel d) loc =
  Some (filter (m_vert m) (if num_vertices d =? 1 then [0] else dedup (map (e_origin d) (pairs inside_edges)))).
Proof.
  intros loc F1 S1 Hne. unfold vertices_in_shape, ff_new, start_edges. rewrite S1, F1. cbn [negb Nat.eqb].
  rewrite line_start_edges_pairs.
  assert (R := ff_run_pairs inside_edges (dedup (map (e_origin d) (pairs inside_edges)))
                 (fun k I => proj2 (proj1 (filter_In _ _ _) I))).
  assert (Hlen : S (length inside_edges) <= ff_fuel d).
  { unfold ff_fuel, inside_edges.
    pose proof (filter_length (m_edge m) (seq 0 (num_undirected_edges d))) as L.
    rewrite seq_length in L. lia. }
  rewrite (ff_run_mono _ _ _ R _ Hlen). unfold initial_elements. cbn [ff_visited].
  assert (N : new_vertices m (map (fun k => (normalized k, @None nat)) inside_edges) = []).
  { clear. unfold new_vertices. induction inside_edges as [|k t IH]; cbn; [reflexivity|exact IH]. }
  rewrite N, app_nil_r. reflexivity.
Qed.

Corollary line_vertices_nodup : NoDup (filter (m_vert m) (if num_vertices d =? 1 then [0] else dedup (map (e_origin d) (pairs inside_edges)))).
Proof.
  apply NoDup_filter. destruct (num_vertices d =? 1); [repeat constructor; intros []|apply dedup_NoDup].
Qed.
End Generic.

(* ================================================================================================ *)
(* PART 2.  the branches of one pop, as an inductive view                                            *)
(* ================================================================================================ *)

Section PopView.
Variable d : dcel.
Variable m : metric.
Notation ine := (ine m).

Definition apex_of (e : nat) : nat := e_to d (e_rev (e_prev d e)).
Definition new1 (e : nat) : nat := e_rev (e_prev d e).
Definition new2 (e : nat) : nat := e_rev (e_next d e).

Inductive pop_view (st : ffstate) : ffstep -> Prop :=
| PV_done : ff_loop st = [] -> pop_view st FDone
| PV_drop : forall e rest, ff_loop st = e :: rest -> ine e = false ->
    pop_view st (FContinue (mkff rest None (ff_visited st)))
| PV_front_rev : forall e rest, ff_loop st = e :: rest -> ine e = true -> front rest = Some (e_rev e) ->
    pop_view st (FYield e None (mkff (tl rest) None (ff_visited st)))
| PV_back_rev : forall e rest, ff_loop st = e :: rest -> ine e = true -> back rest = Some (e_rev e) ->
    pop_view st (FYield e None (mkff (pop_back rest) None (ff_visited st)))
| PV_outer : forall e rest, ff_loop st = e :: rest -> ine e = true -> is_outer d e = true ->
    pop_view st (FYield e None (mkff rest None (ff_visited st)))
| PV_front_next : forall e rest, ff_loop st = e :: rest -> ine e = true -> is_outer d e = false ->
    front rest = Some (e_next d e) ->
    pop_view st (FYield e None (mkff (new1 e :: tl rest) (Some (e_next d e)) (set_remove (e_to d e) (ff_visited st))))
| PV_back_prev : forall e rest, ff_loop st = e :: rest -> ine e = true -> is_outer d e = false ->
    back rest = Some (e_prev d e) ->
    pop_view st (FYield e None (mkff (pop_back rest ++ [new2 e]) (Some (e_prev d e)) (set_remove (e_origin d e) (ff_visited st))))
| PV_seen_tt : forall e rest, ff_loop st = e :: rest -> ine e = true -> is_outer d e = false ->
    memb (apex_of e) (ff_visited st) = true -> ine (new1 e) = true -> ine (new2 e) = true ->
    pop_view st (FContinue (mkff (rest ++ [e]) None (ff_visited st)))
| PV_seen_tf : forall e rest, ff_loop st = e :: rest -> ine e = true -> is_outer d e = false ->
    memb (apex_of e) (ff_visited st) = true -> ine (new1 e) = true -> ine (new2 e) = false ->
    pop_view st (FYield e None (mkff (rest ++ [new1 e]) None (ff_visited st)))
| PV_seen_ft : forall e rest, ff_loop st = e :: rest -> ine e = true -> is_outer d e = false ->
    memb (apex_of e) (ff_visited st) = true -> ine (new1 e) = false -> ine (new2 e) = true ->
    pop_view st (FYield e None (mkff (rest ++ [new2 e]) None (ff_visited st)))
| PV_seen_ff : forall e rest, ff_loop st = e :: rest -> ine e = true -> is_outer d e = false ->
    memb (apex_of e) (ff_visited st) = true -> ine (new1 e) = false -> ine (new2 e) = false ->
    pop_view st (FYield e None (mkff rest None (ff_visited st)))
| PV_fresh : forall e rest, ff_loop st = e :: rest -> ine e = true -> is_outer d e = false ->
    memb (apex_of e) (ff_visited st) = false ->
    pop_view st (FYield e (Some (apex_of e)) (mkff (rest ++ [new1 e; new2 e]) None (apex_of e :: ff_visited st))).

Lemma ff_pop_view : forall st, pop_view st (ff_pop d m st).
Proof.
  intros st. unfold ff_pop. destruct (ff_loop st) as [|e rest] eqn:L; [apply PV_done; exact L|].
  destruct (ine e) eqn:Ie; cbn [negb]; [|eapply PV_drop; eauto].
  destruct (opt_is (front rest) (e_rev e)) eqn:A1; [apply opt_is_true in A1; eapply PV_front_rev; eauto|].
  destruct (opt_is (back rest) (e_rev e)) eqn:A2; [apply opt_is_true in A2; eapply PV_back_rev; eauto|].
  destruct (is_outer d e) eqn:O; [eapply PV_outer; eauto|].
  destruct (opt_is (front rest) (e_next d e)) eqn:A3.
  { apply opt_is_true in A3. rewrite A3. eapply PV_front_next; eauto. }
  destruct (opt_is (back rest) (e_prev d e)) eqn:A4.
  { apply opt_is_true in A4. rewrite A4. eapply PV_back_prev; eauto. }
  fold (new1 e). fold (new2 e). change (e_to d (new1 e)) with (apex_of e).
  destruct (memb (apex_of e) (ff_visited st)) eqn:M.
  - destruct (ine (new1 e)) eqn:I1; destruct (ine (new2 e)) eqn:I2.
    + eapply PV_seen_tt; eauto.
    + eapply PV_seen_tf; eauto.
    + eapply PV_seen_ft; eauto.
    + eapply PV_seen_ff; eauto.
  - eapply PV_fresh; eauto.
Qed.
End PopView.

(* ================================================================================================ *)
(* PART 3.  well-formed DCELs: every yielded handle is a handle of the DCEL                          *)
(* ================================================================================================ *)

Section Range.
Variable d : dcel.
Variable m : metric.
Hypothesis W : DW d.
Notation n := (length (d_hedges d)).
Notation nv := (length (d_verts d)).

Definition LoopOk (st : ffstate) : Prop :=
  (forall y, In y (ff_loop st) -> y < n) /\ (forall p, ff_pending st = Some p -> p < n).

Lemma new1_lt : forall e, e < n -> new1 d e < n.
Proof. intros e H. unfold new1, e_rev. apply (dw_rev_lt d W). apply (dw_prev_lt d W). exact H. Qed.
Lemma new2_lt : forall e, e < n -> new2 d e < n.
Proof. intros e H. unfold new2, e_rev. apply (dw_rev_lt d W). apply (dw_next_lt d W). exact H. Qed.
Lemma apex_of_eq : forall e, apex_of d e = e_origin d (e_prev d e).
Proof. intros e. unfold apex_of, e_to, e_rev. rewrite rev_rev. reflexivity. Qed.
Lemma apex_of_lt : forall e, e < n -> apex_of d e < nv.
Proof. intros e H. rewrite apex_of_eq. apply (dw_org_lt d W). apply (dw_prev_lt d W). exact H. Qed.

Ltac in_cases :=
  repeat match goal with
  | H : In _ (_ ++ _) |- _ => apply in_app_or in H; destruct H as [H|H]
  | H : In _ (_ :: _) |- _ => destruct H as [<-|H]
  | H : In _ [] |- _ => destruct H
  | H : In _ (tl _) |- _ => apply In_tl in H
  | H : In _ (pop_back _) |- _ => apply In_pop_back in H
  end.

Lemma ff_pop_range : forall st, LoopOk st ->
  match ff_pop d m st with
  | FYield e v st' => e < n /\ LoopOk st' /\ (forall w, v = Some w -> w < nv)
  | FContinue st' => LoopOk st'
  | FDone => True
  end.
Proof.
  intros st [Hl _].
  destruct (ff_pop_view d m st) as [L|e rest L I|e rest L I F|e rest L I F|e rest L I O|e rest L I O F|e rest L I O F
                                    |e rest L I O M I1 I2|e rest L I O M I1 I2|e rest L I O M I1 I2|e rest L I O M I1 I2|e rest L I O M];
    try exact Logic.I; rewrite L in Hl;
    assert (He : e < n) by (apply Hl; left; reflexivity);
    assert (Hr : forall y, In y rest -> y < n) by (intros y Iy; apply Hl; right; exact Iy);
    pose proof (new1_lt e He) as H1; pose proof (new2_lt e He) as H2;
    unfold LoopOk; cbn [ff_loop ff_pending];
    repeat split; try exact He; try (intros p Hp; discriminate Hp); try (intros w Hw; discriminate Hw);
    try (intros y Iy; in_cases; first [assumption | apply Hr; assumption]).
  - intros p Hp. injection Hp as <-. apply (dw_next_lt d W). exact He.
  - intros p Hp. injection Hp as <-. apply (dw_prev_lt d W). exact He.
  - intros w Hw. injection Hw as <-. apply apex_of_lt. exact He.
Qed.

Lemma ff_run_range : forall fuel st items, LoopOk st -> ff_run d m fuel st = Some items ->
  forall it, In it items -> fst it < n /\ (forall w, snd it = Some w -> w < nv).
Proof.
  induction fuel as [|k IH]; intros st items Ok R it I; cbn [ff_run] in R; [discriminate|].
  destruct (ff_pending st) as [p|] eqn:P.
  - assert (Ok' : LoopOk (mkff (ff_loop st) None (ff_visited st))).
    { destruct Ok as [A _]. split; [exact A|intros q Hq; discriminate Hq]. }
    destruct (ine m p).
    + destruct (ff_run d m k _) as [l|] eqn:R'; [|discriminate]. injection R as <-.
      destruct I as [<-|I]; [|exact (IH _ _ Ok' R' it I)].
      cbn [fst snd]. split; [apply (proj2 Ok); exact P|intros w Hw; discriminate Hw].
    + exact (IH _ _ Ok' R it I).
  - pose proof (ff_pop_range st Ok) as PR.
    destruct (ff_pop d m st) as [e v st'|st'|].
    + destruct PR as (He & Ok' & Hv).
      destruct (ff_run d m k st') as [l|] eqn:R'; [|discriminate]. injection R as <-.
      destruct I as [<-|I]; [cbn [fst snd]; split; assumption|exact (IH _ _ Ok' R' it I)].
    + exact (IH _ _ PR R it I).
    + injection R as <-. destruct I.
Qed.

Lemma f_adjacent_lt : forall f a, f_adjacent d f = Some a -> a < n.
Proof.
  intros f a H. destruct (Nat.lt_ge_cases f (length (d_faces d))) as [Hf|Hf].
  - exact (dw_adj_rng d W f Hf a H).
  - unfold f_adjacent in H. rewrite nth_overflow in H by exact Hf. discriminate.
Qed.

Lemma start_edges_range : forall loc es, start_edges d m loc = Some es -> forall y, In y es -> y < n.
Proof.
  intros loc es H y Iy. unfold start_edges in H.
  destruct (negb (m_start m)); [injection H as <-; destruct Iy|].
  destruct (num_faces d =? 1).
  - injection H as <-. unfold line_start_edges in Iy. apply in_flat_map in Iy. destruct Iy as [k [Ik Iy]].
    apply filter_In in Ik. destruct Ik as [Ik _]. apply in_seq in Ik.
    assert (Hk : k < num_undirected_edges d) by lia.
    destruct (dw_double_lt d W k Hk) as [A B]. unfold normalized, e_rev in Iy. rewrite rev_even in Iy.
    destruct Iy as [<-|[<-|[]]]; assumption.
  - destruct (start_face d m loc) as [[f|]|]; [|injection H as <-; destruct Iy|discriminate].
    injection H as <-. unfold face_start_edges in Iy. destruct (f_adjacent d f) as [a|] eqn:A; [|destruct Iy].
    pose proof (f_adjacent_lt f a A) as Ha. unfold e_rev in Iy.
    destruct Iy as [<-|[<-|[<-|[]]]]; apply (dw_rev_lt d W);
      [apply (dw_next_lt d W)| |apply (dw_prev_lt d W)]; exact Ha.
Qed.

Lemma ff_new_ok : forall loc st, ff_new d m loc = Some st ->
  LoopOk st /\ (forall v, In v (ff_visited st) -> v < nv).
Proof.
  intros loc st H. unfold ff_new in H. destruct (start_edges d m loc) as [es|] eqn:E; [|discriminate].
  injection H as <-. pose proof (start_edges_range loc es E) as R. split.
  - split; [exact R|intros p Hp; discriminate Hp].
  - cbn [ff_visited]. intros v Iv. apply (proj1 (dedup_In _ _)) in Iv. apply in_map_iff in Iv. destruct Iv as [y [<- Iy]].
    apply (dw_org_lt d W). apply R. exact Iy.
Qed.

Theorem edges_in_shape_in_range : forall fuel loc l, edges_in_shape d m fuel loc = Some l ->
  forall k, In k l -> k < num_undirected_edges d.
Proof.
  intros fuel loc l E k I. unfold edges_in_shape in E.
  destruct (ff_new d m loc) as [st|] eqn:N; [|discriminate].
  destruct (ff_run d m fuel st) as [items|] eqn:R; [|discriminate]. injection E as <-.
  apply in_map_iff in I. destruct I as [it [<- I]].
  destruct (ff_run_range fuel st items (proj1 (ff_new_ok loc st N)) R it I) as [A _].
  unfold as_undirected, num_undirected_edges. pose proof (dw_even d W) as Ev.
  destruct (rev_cases (fst it)) as [j [[E1 _]|[E1 _]]]; rewrite E1 in *; rewrite ?div2_double, ?div2_double1; lia.
Qed.

Theorem vertices_in_shape_in_range : forall fuel loc l, vertices_in_shape d m fuel loc = Some l ->
  forall v, In v l -> v < num_vertices d.
Proof.
  intros fuel loc l E v I. unfold vertices_in_shape in E.
  destruct (ff_new d m loc) as [st|] eqn:N; [|discriminate].
  destruct (ff_run d m fuel st) as [items|] eqn:R; [|discriminate]. injection E as <-.
  destruct (ff_new_ok loc st N) as [Ok Vis]. unfold num_vertices.
  apply in_app_or in I. destruct I as [I|I].
  - apply filter_In in I. destruct I as [I _]. unfold initial_elements in I.
    destruct (num_vertices d =? 1) eqn:N1.
    + apply Nat.eqb_eq in N1. unfold num_vertices in N1. destruct I as [<-|[]]. lia.
    + apply Vis. exact I.
  - unfold new_vertices in I. apply in_flat_map in I. destruct I as [it [Iit I]].
    destruct (snd it) as [w|] eqn:Sw; [|destruct I]. destruct (m_vert m w); [|destruct I]. destruct I as [<-|[]].
    exact (proj2 (ff_run_range fuel st items Ok R it Iit) w Sw).
Qed.
End Range.

(* ================================================================================================ *)
(* PART 4.  two-dimensional states: the covering invariant                                           *)
(* ================================================================================================ *)

Section Closure.
Variable d : dcel.
Variable m : metric.
Hypothesis W : DW d.
Notation n := (length (d_hedges d)).
Notation nv := (length (d_verts d)).
Notation ine := (ine m).
Notation und := as_undirected.

(* the three half-edges of the triangle left of e *)
Definition tri (e x : nat) : Prop := x = e \/ x = e_next d e \/ x = e_prev d e.

(* a set of half-edges made of whole inner triangles *)
Definition Closed (Cov : nat -> Prop) : Prop :=
  forall x, Cov x -> x < n /\ inner d x /\ Cov (e_next d x) /\ Cov (e_prev d x).

Definition inLP (st : ffstate) (y : nat) : Prop := In y (ff_loop st) \/ ff_pending st = Some y.
(* the undirected edge k still has a representative in the loop or pending *)
Definition Avail (st : ffstate) (k : nat) : Prop := exists y, und y = k /\ inLP st y.

(* ini: the initial elements; Cov: half-edges of the triangles expanded so far (and the start triangle); YE: undirected edges yielded so far;
   YV: vertices yielded so far as new vertices *)
Record Inv (ini : list nat) (Cov YE YV : nat -> Prop) (st : ffstate) : Prop := mkInv {
  inv_closed : Closed Cov;
  inv_loop : forall y, In y (ff_loop st) -> y < n /\ Cov (e_rev y);
  inv_pend : forall p, ff_pending st = Some p -> p < n /\ Cov p /\ Cov (e_rev p);
  inv_todo : forall x, Cov x -> ine x = true -> YE (und x) \/ Avail st (und x);
  inv_yield : forall x, x < n -> YE (und x) -> Cov x \/ outer d x;
  inv_vis : forall v, In v (ff_visited st) -> In v ini \/ YV v;
  inv_corner : forall x, Cov x -> In (e_origin d x) ini \/ YV (e_origin d x)
}.

Lemma und_rev : forall e, und (e_rev e) = und e.
Proof. intros e. unfold as_undirected, e_rev. apply div2_rev. Qed.
Lemma ine_und : forall x y, und x = und y -> ine x = ine y.
Proof. intros x y H. unfold FloodFill.ine. rewrite H. reflexivity. Qed.
Lemma und_cases : forall x y, und x = und y -> y = x \/ y = e_rev x.
Proof. intros x y H. apply div2_eq_cases. exact H. Qed.
Lemma e_rev_rev : forall e, e_rev (e_rev e) = e.
Proof. intros e. apply rev_rev. Qed.

Lemma is_outer_inner : forall e, is_outer d e = false -> inner d e.
Proof. intros e H. unfold is_outer in H. apply Nat.eqb_neq in H. exact H. Qed.
Lemma is_outer_outer : forall e, is_outer d e = true -> outer d e.
Proof. intros e H. unfold is_outer in H. apply Nat.eqb_eq in H. exact H. Qed.

Lemma tri_closed : forall Cov e, Closed Cov -> e < n -> inner d e -> Closed (fun x => Cov x \/ tri e x).
Proof.
  intros Cov e C He Ie x [Cx|T].
  - destruct (C x Cx) as (A & B & C1 & C2). auto.
  - pose proof (dw_next_lt d W e He) as Hn. pose proof (dw_prev_lt d W e He) as Hp.
    pose proof (dw_inner_next d W e He Ie) as In_. pose proof (dw_inner_prev d W e He Ie) as Ip.
    unfold tri. destruct T as [->|[->| ->]].
    + repeat split; auto.
    + repeat split; auto.
      * right. right. right. apply (dw_next_next d W e He Ie).
      * right. left. apply (dw_prev_next d W e He).
    + repeat split; auto.
      * right. left. apply (dw_next_prev d W e He).
      * right. right. left. apply (dw_prev_prev d W e He Ie).
Qed.

(* corners of the triangle of e, through triangles already covered *)
Lemma corner_org : forall ini Cov YV e, Closed Cov -> (forall x, Cov x -> In (e_origin d x) ini \/ YV (e_origin d x)) ->
  e < n -> Cov (e_rev e) -> In (e_origin d e) ini \/ YV (e_origin d e).
Proof.
  intros ini Cov YV e C K He Cr.
  destruct (C _ Cr) as (Hr & _ & Cn & _).
  pose proof (K _ Cn) as H. rewrite (dw_org_next d W (e_rev e) Hr) in H. unfold e_rev in H. rewrite rev_rev in H. exact H.
Qed.
Lemma corner_dest : forall ini Cov YV e, (forall x, Cov x -> In (e_origin d x) ini \/ YV (e_origin d x)) ->
  e < n -> Cov (e_rev e) -> In (e_origin d (e_next d e)) ini \/ YV (e_origin d (e_next d e)).
Proof.
  intros ini Cov YV e K He Cr. rewrite (dw_org_next d W e He). exact (K _ Cr).
Qed.

(* ---- steps that do not expand a triangle: drop, the two collapses, an outer edge, the re-queued edge ---- *)
Lemma shrink_inv : forall ini Cov YE YV st e rest st' (YE' : nat -> Prop),
  Inv ini Cov YE YV st -> ff_loop st = e :: rest -> ff_pending st = None ->
  (forall k, YE k -> YE' k) ->
  (forall y, In y (ff_loop st') -> In y (e :: rest)) -> ff_pending st' = None ->
  (forall y, In y (e :: rest) -> ine y = true -> In y (ff_loop st') \/ YE' (und y)) ->
  (forall x, x < n -> YE' (und x) -> YE (und x) \/ Cov x \/ outer d x) ->
  (forall w, In w (ff_visited st') -> In w (ff_visited st)) ->
  Inv ini Cov YE' YV st'.
Proof.
  intros ini Cov YE YV st e rest st' YE' I L P Hsub Hl Hp Htr Hy Hv.
  destruct I as [C IL IP IT IY IV IK]. rewrite L in IL.
  split.
  - exact C.
  - intros y Iy. apply IL. apply Hl. exact Iy.
  - intros p Hp'. rewrite Hp in Hp'. discriminate.
  - intros x Cx Ix. destruct (IT x Cx Ix) as [Y|[y [Uy [Iy|Py]]]].
    + left. apply Hsub. exact Y.
    + rewrite L in Iy. assert (Iy' : ine y = true) by (rewrite (ine_und y x Uy); exact Ix).
      destruct (Htr y Iy Iy') as [A|A].
      * right. exists y. split; [exact Uy|left; exact A].
      * left. rewrite <- Uy. exact A.
    + rewrite P in Py. discriminate.
  - intros x Hx Y. destruct (Hy x Hx Y) as [A|A]; [exact (IY x Hx A)|exact A].
  - intros v Iv. apply IV. apply Hv. exact Iv.
  - exact IK.
Qed.

(* ---- steps that expand the triangle of e ---- *)
Lemma expand_inv : forall ini Cov YE YV st e rest st' (v : option nat),
  Inv ini Cov YE YV st -> ff_loop st = e :: rest -> ff_pending st = None ->
  ine e = true -> is_outer d e = false ->
  (forall y, In y (ff_loop st') -> In y rest \/ y = new1 d e \/ y = new2 d e) ->
  (forall p, ff_pending st' = Some p -> In p rest /\ (p = e_next d e \/ p = e_prev d e)) ->
  (forall y, In y rest -> inLP st' y) ->
  (ine (e_next d e) = true -> inLP st' (e_next d e) \/ inLP st' (new2 d e)) ->
  (ine (e_prev d e) = true -> inLP st' (e_prev d e) \/ inLP st' (new1 d e)) ->
  (forall w, In w (ff_visited st') -> In w (ff_visited st) \/ v = Some w) ->
  (In (apex_of d e) ini \/ YV (apex_of d e) \/ v = Some (apex_of d e)) ->
  Inv ini (fun x => Cov x \/ tri e x) (fun k => YE k \/ k = und e) (fun w => YV w \/ v = Some w) st'.
Proof.
  intros ini Cov YE YV st e rest st' v I L P Ie Oe Hl Hp Hrest Hn Hpv Hv Hap.
  destruct I as [C IL IP IT IY IV IK]. rewrite L in IL.
  destruct (IL e (or_introl eq_refl)) as [He Cre].
  pose proof (is_outer_inner e Oe) as Inn.
  assert (Rr : forall y, In y rest -> y < n /\ Cov (e_rev y)) by (intros y Iy; apply IL; right; exact Iy).
  split.
  - apply tri_closed; assumption.
  - intros y Iy. destruct (Hl y Iy) as [A|[->| ->]].
    + destruct (Rr y A) as [A1 A2]. auto.
    + split; [apply (new1_lt d W); exact He|]. right. unfold new1. rewrite e_rev_rev. right. right. reflexivity.
    + split; [apply (new2_lt d W); exact He|]. right. unfold new2. rewrite e_rev_rev. right. left. reflexivity.
  - intros p Hp'. destruct (Hp p Hp') as [A B]. destruct (Rr p A) as [A1 A2].
    split; [exact A1|]. split; [|left; exact A2]. right. destruct B as [->| ->]; [right; left|right; right]; reflexivity.
  - intros x [Cx|T] Ix.
    + destruct (IT x Cx Ix) as [Y|[y [Uy [Iy|Py]]]].
      * left. left. exact Y.
      * rewrite L in Iy. destruct Iy as [<-|Iy].
        -- left. right. symmetry. exact Uy.
        -- right. exists y. split; [exact Uy|apply Hrest; exact Iy].
      * rewrite P in Py. discriminate.
    + destruct T as [->|[->| ->]].
      * left. right. reflexivity.
      * destruct (Hn Ix) as [A|A]; right.
        -- exists (e_next d e). split; [reflexivity|exact A].
        -- exists (new2 d e). split; [unfold new2; apply und_rev|exact A].
      * destruct (Hpv Ix) as [A|A]; right.
        -- exists (e_prev d e). split; [reflexivity|exact A].
        -- exists (new1 d e). split; [unfold new1; apply und_rev|exact A].
  - intros x Hx [Y|E].
    + destruct (IY x Hx Y) as [A|A]; [left; left; exact A|right; exact A].
    + destruct (und_cases e x (eq_sym E)) as [->| ->].
      * left. right. left. reflexivity.
      * left. left. exact Cre.
  - intros w Iw. destruct (Hv w Iw) as [A|A]; [destruct (IV w A) as [B|B]; [left; exact B|right; left; exact B]|right; right; exact A].
  - intros x [Cx|T].
    + destruct (IK x Cx) as [A|A]; [left; exact A|right; left; exact A].
    + assert (K' : forall z, Cov z -> In (e_origin d z) ini \/ YV (e_origin d z)) by exact IK.
      destruct T as [->|[->| ->]].
      * destruct (corner_org ini Cov YV e C K' He Cre) as [A|A]; [left; exact A|right; left; exact A].
      * destruct (corner_dest ini Cov YV e K' He Cre) as [A|A]; [left; exact A|right; left; exact A].
      * rewrite <- (apex_of_eq d e). destruct Hap as [A|[A|A]]; [left; exact A|right; left; exact A|right; right; exact A].
Qed.

(* the apex of e is a corner of the covered triangle behind next e / prev e when that edge is in the loop *)
Lemma apex_via_next : forall ini Cov YE YV st e rest, Inv ini Cov YE YV st -> ff_loop st = e :: rest ->
  is_outer d e = false -> In (e_next d e) rest -> In (apex_of d e) ini \/ YV (apex_of d e).
Proof.
  intros ini Cov YE YV st e rest I L Oe Inx. destruct I as [C IL _ _ _ _ IK]. rewrite L in IL.
  destruct (IL e (or_introl eq_refl)) as [He _]. destruct (IL _ (or_intror Inx)) as [Hn Cn].
  pose proof (IK _ Cn) as K. rewrite apex_of_eq.
  rewrite <- (dw_next_next d W e He (is_outer_inner e Oe)).
  rewrite (dw_org_next d W (e_next d e) Hn). exact K.
Qed.
Lemma apex_via_prev : forall ini Cov YE YV st e rest, Inv ini Cov YE YV st -> ff_loop st = e :: rest ->
  In (e_prev d e) rest -> In (apex_of d e) ini \/ YV (apex_of d e).
Proof.
  intros ini Cov YE YV st e rest I L Ipv. destruct I as [C IL _ _ _ _ IK]. rewrite L in IL.
  destruct (IL e (or_introl eq_refl)) as [He _]. destruct (IL _ (or_intror Ipv)) as [Hp Cp].
  rewrite apex_of_eq. exact (corner_org ini Cov YV (e_prev d e) C IK Hp Cp).
Qed.

Ltac in_cases :=
  repeat match goal with
  | H : In _ (_ ++ _) |- _ => apply in_app_or in H; destruct H as [H|H]
  | H : In _ (_ :: _) |- _ => destruct H as [<-|H]
  | H : In _ [] |- _ => destruct H
  end.

(* one pop preserves the invariant *)
Lemma ff_pop_inv : forall ini Cov YE YV st, Inv ini Cov YE YV st -> ff_pending st = None ->
  match ff_pop d m st with
  | FDone => ff_loop st = []
  | FContinue st' => Inv ini Cov YE YV st'
  | FYield e v st' => exists Cov' : nat -> Prop, (forall x, Cov x -> Cov' x) /\
      Inv ini Cov' (fun k => YE k \/ k = und e) (fun w => YV w \/ v = Some w) st'
  end.
Proof.
  intros ini Cov YE YV st I P.
  destruct (ff_pop_view d m st) as [L|e rest L Ie|e rest L Ie F|e rest L Ie F|e rest L Ie O|e rest L Ie O F|e rest L Ie O F
                                    |e rest L Ie O M I1 I2|e rest L Ie O M I1 I2|e rest L Ie O M I1 I2|e rest L Ie O M I1 I2|e rest L Ie O M].
  - exact L.
  - (* not inside: dropped *)
    apply (shrink_inv ini Cov YE YV st e rest _ YE I L P); cbn [ff_loop ff_pending ff_visited]; auto.
    + intros y Iy. right. exact Iy.
    + intros y [<-|Iy] Hy; [congruence|left; exact Iy].
  - (* next to its reverse at the front *)
    exists Cov. split; [auto|].
    assert (YVeq : forall w, YV w -> YV w \/ @None nat = Some w) by auto.
    assert (I' : Inv ini Cov (fun k => YE k \/ k = und e) YV (mkff (tl rest) None (ff_visited st))).
    { apply (shrink_inv ini Cov YE YV st e rest _ _ I L P); cbn [ff_loop ff_pending ff_visited]; auto.
      - intros y Iy. right. apply In_tl. exact Iy.
      - intros y [<-|Iy] Hy; [right; right; reflexivity|].
        destruct (In_front_split rest _ y F Iy) as [->|A]; [right; right; apply und_rev|left; exact A].
      - intros x Hx [Y|E]; [left; exact Y|right].
        destruct I as [_ IL _ _ _ _ _]. rewrite L in IL.
        destruct (und_cases e x (eq_sym E)) as [->| ->].
        + left. destruct (IL (e_rev e) (or_intror (front_In rest _ F))) as [_ A]. rewrite e_rev_rev in A. exact A.
        + left. apply (IL e (or_introl eq_refl)). }
    destruct I' as [A1 A2 A3 A4 A5 A6 A7]. split; auto.
    + intros w Iw. destruct (A6 w Iw); auto.
    + intros x Cx. destruct (A7 x Cx); auto.
  - (* next to its reverse at the back *)
    exists Cov. split; [auto|].
    assert (I' : Inv ini Cov (fun k => YE k \/ k = und e) YV (mkff (pop_back rest) None (ff_visited st))).
    { apply (shrink_inv ini Cov YE YV st e rest _ _ I L P); cbn [ff_loop ff_pending ff_visited]; auto.
      - intros y Iy. right. apply In_pop_back. exact Iy.
      - intros y [<-|Iy] Hy; [right; right; reflexivity|].
        destruct (In_back_split rest _ y F Iy) as [->|A]; [right; right; apply und_rev|left; exact A].
      - intros x Hx [Y|E]; [left; exact Y|right].
        destruct I as [_ IL _ _ _ _ _]. rewrite L in IL.
        destruct (und_cases e x (eq_sym E)) as [->| ->].
        + left. destruct (IL (e_rev e) (or_intror (back_In rest _ F))) as [_ A]. rewrite e_rev_rev in A. exact A.
        + left. apply (IL e (or_introl eq_refl)). }
    destruct I' as [A1 A2 A3 A4 A5 A6 A7]. split; auto.
    + intros w Iw. destruct (A6 w Iw); auto.
    + intros x Cx. destruct (A7 x Cx); auto.
  - (* an edge of the outer face *)
    exists Cov. split; [auto|].
    assert (I' : Inv ini Cov (fun k => YE k \/ k = und e) YV (mkff rest None (ff_visited st))).
    { apply (shrink_inv ini Cov YE YV st e rest _ _ I L P); cbn [ff_loop ff_pending ff_visited]; auto.
      - intros y Iy. right. exact Iy.
      - intros y [<-|Iy] Hy; [right; right; reflexivity|left; exact Iy].
      - intros x Hx [Y|E]; [left; exact Y|right].
        destruct I as [_ IL _ _ _ _ _]. rewrite L in IL.
        destruct (und_cases e x (eq_sym E)) as [->| ->].
        + right. apply is_outer_outer. exact O.
        + left. apply (IL e (or_introl eq_refl)). }
    destruct I' as [A1 A2 A3 A4 A5 A6 A7]. split; auto.
    + intros w Iw. destruct (A6 w Iw); auto.
    + intros x Cx. destruct (A7 x Cx); auto.
  - (* the first loop edge is next: it becomes pending *)
    exists (fun x => Cov x \/ tri e x). split; [auto|].
    pose proof (front_In rest _ F) as Inx.
    apply (expand_inv ini Cov YE YV st e rest _ None I L P Ie O); cbn [ff_loop ff_pending ff_visited].
    + intros y [<-|Iy]; [right; left; reflexivity|left; apply In_tl; exact Iy].
    + intros p Hp. injection Hp as <-. split; [exact Inx|left; reflexivity].
    + intros y Iy. destruct (In_front_split rest _ y F Iy) as [->|A]; [right; reflexivity|left; right; exact A].
    + intros _. left. right. reflexivity.
    + intros _. right. left. left. reflexivity.
    + intros w Iw. left. exact (set_remove_In _ _ _ Iw).
    + destruct (apex_via_next ini Cov YE YV st e rest I L O Inx) as [A|A]; auto.
  - (* the last loop edge is prev: it becomes pending *)
    exists (fun x => Cov x \/ tri e x). split; [auto|].
    pose proof (back_In rest _ F) as Ipv.
    apply (expand_inv ini Cov YE YV st e rest _ None I L P Ie O); cbn [ff_loop ff_pending ff_visited].
    + intros y Iy. in_cases; [left; apply In_pop_back; exact Iy|right; right; reflexivity].
    + intros p Hp. injection Hp as <-. split; [exact Ipv|right; reflexivity].
    + intros y Iy. destruct (In_back_split rest _ y F Iy) as [->|A]; [right; reflexivity|left; apply in_or_app; left; exact A].
    + intros _. right. left. apply in_or_app. right. left. reflexivity.
    + intros _. left. right. reflexivity.
    + intros w Iw. left. exact (set_remove_In _ _ _ Iw).
    + destruct (apex_via_prev ini Cov YE YV st e rest I L Ipv) as [A|A]; auto.
  - (* apex already visited, both new edges inside: re-queued *)
    apply (shrink_inv ini Cov YE YV st e rest _ YE I L P); cbn [ff_loop ff_pending ff_visited]; auto.
    + intros y Iy. in_cases; [right; exact Iy|left; reflexivity].
    + intros y [<-|Iy] Hy; left; apply in_or_app; [right; left; reflexivity|left; exact Iy].
  - (* apex already visited, only new_edge_1 inside *)
    exists (fun x => Cov x \/ tri e x). split; [auto|].
    apply (expand_inv ini Cov YE YV st e rest _ None I L P Ie O); cbn [ff_loop ff_pending ff_visited].
    + intros y Iy. in_cases; [left; exact Iy|right; left; reflexivity].
    + intros p Hp. discriminate Hp.
    + intros y Iy. left. apply in_or_app. left. exact Iy.
    + intros Hn. exfalso. rewrite <- (ine_rev m (e_next d e)) in Hn. unfold new2 in I2. congruence.
    + intros _. right. left. apply in_or_app. right. left. reflexivity.
    + intros w Iw. left. exact Iw.
    + apply memb_In in M. destruct I as [_ _ _ _ _ IV _]. destruct (IV _ M); auto.
  - (* apex already visited, only new_edge_2 inside *)
    exists (fun x => Cov x \/ tri e x). split; [auto|].
    apply (expand_inv ini Cov YE YV st e rest _ None I L P Ie O); cbn [ff_loop ff_pending ff_visited].
    + intros y Iy. in_cases; [left; exact Iy|right; right; reflexivity].
    + intros p Hp. discriminate Hp.
    + intros y Iy. left. apply in_or_app. left. exact Iy.
    + intros _. right. left. apply in_or_app. right. left. reflexivity.
    + intros Hn. exfalso. rewrite <- (ine_rev m (e_prev d e)) in Hn. unfold new1 in I1. congruence.
    + intros w Iw. left. exact Iw.
    + apply memb_In in M. destruct I as [_ _ _ _ _ IV _]. destruct (IV _ M); auto.
  - (* apex already visited, neither new edge inside *)
    exists (fun x => Cov x \/ tri e x). split; [auto|].
    apply (expand_inv ini Cov YE YV st e rest _ None I L P Ie O); cbn [ff_loop ff_pending ff_visited].
    + intros y Iy. left. exact Iy.
    + intros p Hp. discriminate Hp.
    + intros y Iy. left. exact Iy.
    + intros Hn. exfalso. rewrite <- (ine_rev m (e_next d e)) in Hn. unfold new2 in I2. congruence.
    + intros Hn. exfalso. rewrite <- (ine_rev m (e_prev d e)) in Hn. unfold new1 in I1. congruence.
    + intros w Iw. left. exact Iw.
    + apply memb_In in M. destruct I as [_ _ _ _ _ IV _]. destruct (IV _ M); auto.
  - (* a new vertex *)
    exists (fun x => Cov x \/ tri e x). split; [auto|].
    apply (expand_inv ini Cov YE YV st e rest _ (Some (apex_of d e)) I L P Ie O); cbn [ff_loop ff_pending ff_visited].
    + intros y Iy. in_cases; [left; exact Iy|right; left; reflexivity|right; right; reflexivity].
    + intros p Hp. discriminate Hp.
    + intros y Iy. left. apply in_or_app. left. exact Iy.
    + intros _. right. left. apply in_or_app. right. right. left. reflexivity.
    + intros _. right. left. apply in_or_app. right. left. reflexivity.
    + intros w [<-|Iw]; [right; reflexivity|left; exact Iw].
    + right. right. reflexivity.
Qed.
End Closure.

Section Closure2.
Variable d : dcel.
Variable m : metric.
Hypothesis W : DW d.
Notation n := (length (d_hedges d)).
Notation nv := (length (d_verts d)).
Notation ine := (ine m).
Notation und := as_undirected.

(* taking the pending edge *)
Lemma pending_inv : forall ini Cov YE YV st p, Inv d m ini Cov YE YV st -> ff_pending st = Some p ->
  (ine p = true -> Inv d m ini Cov (fun k => YE k \/ k = und p) YV (mkff (ff_loop st) None (ff_visited st))) /\
  (ine p = false -> Inv d m ini Cov YE YV (mkff (ff_loop st) None (ff_visited st))).
Proof.
  intros ini Cov YE YV st p [C IL IP IT IY IV IK] P. destruct (IP p P) as (Hp & Cp & Crp).
  split; intros Ip; split; cbn [ff_loop ff_pending ff_visited]; auto; try (intros q Hq; discriminate Hq).
  - intros x Cx Ix. destruct (IT x Cx Ix) as [Y|[y [Uy [Iy|Py]]]].
    + left. left. exact Y.
    + right. exists y. split; [exact Uy|left; exact Iy].
    + rewrite P in Py. injection Py as <-. left. right. symmetry. exact Uy.
  - intros x Hx [Y|E]; [exact (IY x Hx Y)|].
    destruct (und_cases p x (eq_sym E)) as [->| ->]; left; assumption.
  - intros x Cx Ix. destruct (IT x Cx Ix) as [Y|[y [Uy [Iy|Py]]]].
    + left. exact Y.
    + right. exists y. split; [exact Uy|left; exact Iy].
    + rewrite P in Py. injection Py as <-. rewrite (ine_und m p x Uy) in Ip. congruence.
Qed.

Definition edges_of (items : list (nat * option nat)) : list nat := map (fun it => und (fst it)) items.

(* the invariant at termination *)
Lemma ff_run_inv : forall fuel ini Cov YE YV st items, Inv d m ini Cov YE YV st -> ff_run d m fuel st = Some items ->
  exists Cov' : nat -> Prop, (forall x, Cov x -> Cov' x) /\ Closed d Cov' /\
    (forall x, Cov' x -> ine x = true -> YE (und x) \/ In (und x) (edges_of items)) /\
    (forall x, x < n -> YE (und x) \/ In (und x) (edges_of items) -> Cov' x \/ outer d x) /\
    (forall x, Cov' x -> In (e_origin d x) ini \/ YV (e_origin d x) \/ In (Some (e_origin d x)) (map snd items)).
Proof.
  induction fuel as [|k IH]; intros ini Cov YE YV st items I R; cbn [ff_run] in R; [discriminate|].
  destruct (ff_pending st) as [p|] eqn:P.
  - destruct (pending_inv ini Cov YE YV st p I P) as [It If].
    destruct (ine p) eqn:Ip.
    + destruct (ff_run d m k _) as [l|] eqn:R'; [|discriminate]. injection R as <-.
      destruct (IH _ _ _ _ _ _ (It eq_refl) R') as (Cov' & S & C & T & Y & K).
      exists Cov'. split; [exact S|]. split; [exact C|]. split; [|split].
      * intros x Cx Ix. destruct (T x Cx Ix) as [[A|A]|A]; [left; exact A|right; left; symmetry; exact A|right; right; exact A].
      * intros x Hx [A|[A|A]]; apply (Y x Hx); [left; left; exact A|left; right; symmetry; exact A|right; exact A].
      * intros x Cx. destruct (K x Cx) as [A|[A|A]]; [left; exact A|right; left; exact A|right; right; right; exact A].
    + exact (IH _ _ _ _ _ _ (If eq_refl) R).
  - pose proof (ff_pop_inv d m W ini Cov YE YV st I P) as PI.
    destruct (ff_pop d m st) as [e v st'|st'|].
    + destruct PI as (Cov1 & S1 & I1).
      destruct (ff_run d m k st') as [l|] eqn:R'; [|discriminate]. injection R as <-.
      destruct (IH _ _ _ _ _ _ I1 R') as (Cov' & S & C & T & Y & K).
      exists Cov'. split; [intros x Cx; apply S; apply S1; exact Cx|]. split; [exact C|]. split; [|split].
      * intros x Cx Ix. destruct (T x Cx Ix) as [[A|A]|A]; [left; exact A|right; left; symmetry; exact A|right; right; exact A].
      * intros x Hx [A|[A|A]]; apply (Y x Hx); [left; left; exact A|left; right; symmetry; exact A|right; exact A].
      * intros x Cx. destruct (K x Cx) as [A|[[A|A]|A]];
          [left; exact A|right; left; exact A|right; right; left; exact A|right; right; right; exact A].
    + exact (IH _ _ _ _ _ _ PI R).
    + injection R as <-. destruct I as [C IL IP IT IY IV IK].
      exists Cov. split; [auto|]. split; [exact C|]. split; [|split].
      * intros x Cx Ix. destruct (IT x Cx Ix) as [A|[y [_ [Iy|Py]]]]; [left; exact A| |].
        -- rewrite PI in Iy. destruct Iy.
        -- rewrite P in Py. discriminate.
      * intros x Hx [A|[]]. exact (IY x Hx A).
      * intros x Cx. destruct (IK x Cx) as [A|A]; [left; exact A|right; left; exact A].
Qed.

(* the state built by FloodFillIterator::new from the inner start face with representative edge a *)
Definition start_loop (a : nat) : list nat := [e_rev (e_next d a); e_rev a; e_rev (e_prev d a)].
Definition start_ini (a : nat) : list nat := dedup (map (e_origin d) (start_loop a)).

Lemma start_inv : forall a, a < n -> inner d a ->
  Inv d m (start_ini a) (fun x => False \/ tri d a x) (fun _ => False) (fun _ => False)
      (mkff (start_loop a) None (start_ini a)).
Proof.
  intros a Ha Ia.
  pose proof (dw_next_lt d W a Ha) as Hn. pose proof (dw_prev_lt d W a Ha) as Hp.
  split; cbn [ff_loop ff_pending ff_visited].
  - apply (tri_closed d W); [|exact Ha|exact Ia]. intros x [].
  - intros y Iy. unfold start_loop in Iy. destruct Iy as [<-|[<-|[<-|[]]]]; rewrite e_rev_rev; unfold e_rev;
      (split; [apply (dw_rev_lt d W); assumption|right]); [right; left|left|right; right]; reflexivity.
  - intros p Hp'. discriminate Hp'.
  - intros x [[]|T] Ix. right. exists (e_rev x). split; [apply und_rev|]. left.
    unfold start_loop. destruct T as [->|[->| ->]]; cbn [In ff_loop]; auto.
  - intros x _ [].
  - intros v Iv. left. exact Iv.
  - intros x [[]|T]. left. unfold start_ini. apply dedup_In. apply in_map_iff.
    destruct T as [->|[->| ->]].
    + exists (e_rev (e_prev d a)). split; [|unfold start_loop; cbn [In]; auto].
      unfold e_rev. rewrite <- (dw_org_next d W (e_prev d a) Hp). rewrite (dw_next_prev d W a Ha). reflexivity.
    + exists (e_rev a). split; [|unfold start_loop; cbn [In]; auto].
      symmetry. apply (dw_org_next d W a Ha).
    + exists (e_rev (e_next d a)). split; [|unfold start_loop; cbn [In]; auto].
      unfold e_rev. rewrite <- (dw_org_next d W (e_next d a) Hn). rewrite (dw_next_next d W a Ha Ia). reflexivity.
Qed.

(* the triangles reachable from the start triangle by crossing edges that are inside the shape *)
Inductive reach (a : nat) : nat -> Prop :=
| reach_start : reach a a
| reach_next : forall x, reach a x -> reach a (e_next d x)
| reach_prev : forall x, reach a x -> reach a (e_prev d x)
| reach_cross : forall x, reach a x -> ine x = true -> inner d (e_rev x) -> reach a (e_rev x).

Theorem flood_closure : forall fuel a items, a < n -> inner d a ->
  ff_run d m fuel (mkff (start_loop a) None (start_ini a)) = Some items ->
  exists Cov : nat -> Prop, Cov a /\ Closed d Cov /\
    (forall x, Cov x -> ine x = true -> In (und x) (edges_of items) /\ (Cov (e_rev x) \/ outer d (e_rev x))) /\
    (forall x, Cov x -> In (e_origin d x) (start_ini a) \/ In (Some (e_origin d x)) (map snd items)).
Proof.
  intros fuel a items Ha Ia R.
  destruct (ff_run_inv fuel _ _ _ _ _ items (start_inv a Ha Ia) R) as (Cov & S & C & T & Y & K).
  exists Cov. split; [apply S; right; left; reflexivity|]. split; [exact C|]. split.
  - intros x Cx Ix. destruct (T x Cx Ix) as [[]|A]. split; [exact A|].
    destruct (C x Cx) as (Hx & _). apply Y; [unfold e_rev; apply (dw_rev_lt d W); exact Hx|].
    right. rewrite und_rev. exact A.
  - intros x Cx. destruct (K x Cx) as [A|[[]|A]]; auto.
Qed.

Lemma reach_cov : forall (Cov : nat -> Prop) a, Cov a -> Closed d Cov ->
  (forall x, Cov x -> ine x = true -> Cov (e_rev x) \/ outer d (e_rev x)) ->
  forall x, reach a x -> Cov x.
Proof.
  intros Cov a Ca C X x Rx. induction Rx as [|x _ IH|x _ IH|x _ IH Ix Inn].
  - exact Ca.
  - apply (C x IH).
  - apply (C x IH).
  - destruct (X x IH Ix) as [A|A]; [exact A|]. exfalso. apply Inn. exact A.
Qed.

(* get_start_edges in a two-dimensional state with an inner start face *)
Lemma ff_new_2d : forall loc f a, (num_faces d =? 1) = false -> m_start m = true ->
  start_face d m loc = Some (Some f) -> f_adjacent d f = Some a ->
  ff_new d m loc = Some (mkff (start_loop a) None (start_ini a)).
Proof.
  intros loc f a F2 S1 SF A. unfold ff_new, start_edges. rewrite S1, F2, SF. cbn [negb].
  unfold face_start_edges. rewrite A. reflexivity.
Qed.

Theorem edges_in_shape_complete_partial : forall fuel loc f a l,
  (num_faces d =? 1) = false -> m_start m = true ->
  start_face d m loc = Some (Some f) -> f_adjacent d f = Some a -> a < n -> inner d a ->
  edges_in_shape d m fuel loc = Some l ->
  forall x, reach a x -> ine x = true -> In (und x) l.
Proof.
  intros fuel loc f a l F2 S1 SF A Ha Ia E x Rx Ix. unfold edges_in_shape in E.
  rewrite (ff_new_2d loc f a F2 S1 SF A) in E.
  destruct (ff_run d m fuel _) as [items|] eqn:R; [|discriminate]. injection E as <-.
  destruct (flood_closure fuel a items Ha Ia R) as (Cov & Ca & C & T & _).
  assert (Cx : Cov x) by (apply (reach_cov Cov a Ca C (fun y Cy Iy => proj2 (T y Cy Iy)) x Rx)).
  exact (proj1 (T x Cx Ix)).
Qed.

Lemma new_vertices_In : forall items w, In (Some w) (map snd items) -> m_vert m w = true -> In w (new_vertices m items).
Proof.
  intros items w I M. apply in_map_iff in I. destruct I as [it [S I]]. unfold new_vertices. apply in_flat_map.
  exists it. split; [exact I|]. rewrite S, M. left. reflexivity.
Qed.

Theorem vertices_in_shape_complete_partial : forall fuel loc f a l,
  (num_faces d =? 1) = false -> m_start m = true ->
  start_face d m loc = Some (Some f) -> f_adjacent d f = Some a -> a < n -> inner d a ->
  vertices_in_shape d m fuel loc = Some l ->
  forall x, reach a x -> m_vert m (e_origin d x) = true -> In (e_origin d x) l.
Proof.
  intros fuel loc f a l F2 S1 SF A Ha Ia E x Rx Mx. unfold vertices_in_shape in E.
  rewrite (ff_new_2d loc f a F2 S1 SF A) in E.
  destruct (ff_run d m fuel _) as [items|] eqn:R; [|discriminate]. injection E as <-.
  destruct (flood_closure fuel a items Ha Ia R) as (Cov & Ca & C & T & K).
  assert (Cx : Cov x) by (apply (reach_cov Cov a Ca C (fun y Cy Iy => proj2 (T y Cy Iy)) x Rx)).
  assert (N1 : (num_vertices d =? 1) = false).
  { apply Nat.eqb_neq. unfold num_vertices.
    pose proof (dw_org_lt d W a Ha) as A1. pose proof (dw_org_lt d W (rev a) (dw_rev_lt d W a Ha)) as A2.
    pose proof (dw_org_neq d W a Ha) as A3. lia. }
  apply in_or_app. destruct (K x Cx) as [I|I].
  - left. apply filter_In. split; [|exact Mx]. unfold initial_elements. rewrite N1. exact I.
  - right. apply new_vertices_In; assumption.
Qed.

(* with the connectivity of the set of triangles meeting the shape as a hypothesis: every edge inside is in the answer *)
Theorem edges_in_shape_complete_connected : forall fuel loc f a l,
  (num_faces d =? 1) = false -> m_start m = true ->
  start_face d m loc = Some (Some f) -> f_adjacent d f = Some a -> a < n -> inner d a ->
  edges_in_shape d m fuel loc = Some l ->
  (forall k, k < num_undirected_edges d -> m_edge m k = true -> reach a (normalized k) \/ reach a (e_rev (normalized k))) ->
  forall k, k < num_undirected_edges d -> m_edge m k = true -> In k l.
Proof.
  intros fuel loc f a l F2 S1 SF A Ha Ia E Conn k Hk Mk.
  assert (U : und (normalized k) = k) by (unfold as_undirected, normalized; apply div2_double).
  assert (Ik : ine (normalized k) = true) by (unfold FloodFill.ine; rewrite U; exact Mk).
  destruct (Conn k Hk Mk) as [Rk|Rk].
  - rewrite <- U. exact (edges_in_shape_complete_partial fuel loc f a l F2 S1 SF A Ha Ia E _ Rk Ik).
  - rewrite <- U, <- und_rev.
    apply (edges_in_shape_complete_partial fuel loc f a l F2 S1 SF A Ha Ia E _ Rk). rewrite ine_rev. exact Ik.
Qed.
End Closure2.

(* ================================================================================================ *)
(* PART 5.  the exact metrics against the declarative specification of the queries                   *)
(* ================================================================================================ *)

Section ModelSpec.
Variable s : obs.
Variable pts : list pnt.
Notation d := (dcel_of_obs s).
Hypothesis W : DW d.
(* the two end points of every edge have different positions *)
Hypothesis Dist : forall e, e < nH s -> pnt_eqb (eorg s pts e) (edst s pts e) = false.

Lemma epos_obs : forall k, epos pts d k = (eorg s pts (2 * k), edst s pts (2 * k)).
Proof. reflexivity. Qed.

Lemma und_lt_double : forall k, k < num_undirected_edges d -> 2 * k < nH s.
Proof. intros k H. exact (proj1 (dw_double_lt d W k H)). Qed.

Theorem model_edges_in_rectangle_sound : forall fuel lo hi loc l,
  get_edges_in_rectangle pts d fuel lo hi loc = Some l ->
  forall k, In k l -> k < num_undirected_edges d /\ EdgeMeetsRect lo hi (eorg s pts (2 * k)) (edst s pts (2 * k)).
Proof.
  intros fuel lo hi loc l E k I. unfold get_edges_in_rectangle in E.
  pose proof (edges_in_shape_in_range d _ W fuel loc l E k I) as Hk. split; [exact Hk|].
  pose proof (edges_in_shape_sound d _ fuel loc l E k I) as M. cbn [m_edge rect_metric] in M. rewrite epos_obs in M.
  rewrite rect_is_edge_inside_spec in M by (apply Dist; apply und_lt_double; exact Hk).
  apply edge_meets_rect_spec. exact M.
Qed.

Theorem model_vertices_in_rectangle_sound : forall fuel lo hi loc l,
  get_vertices_in_rectangle pts d fuel lo hi loc = Some l ->
  forall v, In v l -> v < nV s /\ InRect lo hi (pos pts v).
Proof.
  intros fuel lo hi loc l E v I. unfold get_vertices_in_rectangle in E.
  split; [exact (vertices_in_shape_in_range d _ W fuel loc l E v I)|].
  pose proof (vertices_in_shape_sound d _ fuel loc l E v I) as M. cbn [m_vert rect_metric] in M.
  rewrite rect_is_point_inside_spec in M. apply in_rect_spec. exact M.
Qed.

Theorem model_edges_in_circle_sound : forall fuel c r2 loc l,
  get_edges_in_circle pts d fuel c r2 loc = Some l ->
  forall k, In k l -> k < num_undirected_edges d /\ EdgeMeetsCircle c r2 (eorg s pts (2 * k)) (edst s pts (2 * k)).
Proof.
  intros fuel c r2 loc l E k I. unfold get_edges_in_circle in E. destruct (fst r2 <? 0)%Z; [discriminate|].
  pose proof (edges_in_shape_in_range d _ W fuel loc l E k I) as Hk. split; [exact Hk|].
  pose proof (edges_in_shape_sound d _ fuel loc l E k I) as M. cbn [m_edge circle_metric] in M. rewrite epos_obs in M.
  rewrite circle_is_edge_inside_spec in M by (apply Dist; apply und_lt_double; exact Hk).
  apply edge_meets_circle_spec. exact M.
Qed.

Theorem model_vertices_in_circle_sound : forall fuel c r2 loc l,
  get_vertices_in_circle pts d fuel c r2 loc = Some l ->
  forall v, In v l -> v < nV s /\ InCircle c r2 (pos pts v).
Proof.
  intros fuel c r2 loc l E v I. unfold get_vertices_in_circle in E. destruct (fst r2 <? 0)%Z; [discriminate|].
  split; [exact (vertices_in_shape_in_range d _ W fuel loc l E v I)|].
  pose proof (vertices_in_shape_sound d _ fuel loc l E v I) as M. cbn [m_vert circle_metric] in M.
  rewrite circle_is_point_inside_spec in M. apply in_circle_spec. exact M.
Qed.

(* ---- degenerate states: the whole specification ---- *)
Lemma rect_center_inside : forall lo hi, rect_is_inverted lo hi = false ->
  rect_is_point_inside lo hi (rect_center lo hi) = true.
Proof.
  intros lo hi Inv. rewrite rect_is_point_inside_spec. unfold rect_is_inverted in Inv. apply orb_false_iff in Inv.
  destruct Inv as [A B]. apply Z.ltb_ge in A. apply Z.ltb_ge in B.
  unfold in_rect, rect_center. cbn [fst snd].
  pose proof (Z.div2_odd (fst lo + fst hi)) as X. pose proof (Z.div2_odd (snd lo + snd hi)) as Y.
  destruct (Z.odd (fst lo + fst hi)); destruct (Z.odd (snd lo + snd hi)); cbn [Z.b2z] in X, Y;
    rewrite !andb_true_iff, !Z.leb_le; lia.
Qed.

Lemma rect_inverted_no_edge : forall lo hi a b, rect_is_inverted lo hi = true -> rect_is_edge_inside lo hi a b = false.
Proof. intros lo hi a b H. unfold rect_is_edge_inside. rewrite H. reflexivity. Qed.

Theorem model_edges_in_rectangle_line_spec : forall lo hi loc,
  num_faces d = 1 -> o_ne s = num_undirected_edges d ->
  exists l, get_edges_in_rectangle pts d (ff_fuel d) lo hi loc = Some l /\ EdgesInRectOk s pts lo hi l.
Proof.
  intros lo hi loc F1 Ne. unfold get_edges_in_rectangle.
  set (m := rect_metric pts d lo hi (rect_center lo hi)).
  assert (Hle : num_undirected_edges d <= num_directed_edges d).
  { pose proof (dw_even d W) as Ev. unfold num_undirected_edges, num_directed_edges. lia. }
  assert (Spec : forall k, k < num_undirected_edges d ->
            (m_edge m k = true <-> EdgeMeetsRect lo hi (eorg s pts (2 * k)) (edst s pts (2 * k)))).
  { intros k Hk. unfold m. cbn [m_edge rect_metric]. rewrite epos_obs.
    rewrite rect_is_edge_inside_spec by (apply Dist; apply und_lt_double; exact Hk). apply edge_meets_rect_spec. }
  destruct (m_start m) eqn:S1.
  - exists (inside_edges d m). split; [apply edges_in_shape_line; assumption|].
    split; [apply line_edges_nodup|]. intros k. rewrite line_edges_complete, Ne. split.
    + intros [Hk M]. split; [exact Hk|]. apply Spec; assumption.
    + intros [Hk M]. split; [exact Hk|]. apply Spec; assumption.
  - exists []. split.
    { replace (ff_fuel d) with (S (num_directed_edges d + num_vertices d)) by (unfold ff_fuel; lia).
      apply (edges_start_outside d m _ loc S1). }
    split; [constructor|]. intros k. split; [intros []|]. intros [Hk M]. exfalso. rewrite Ne in Hk.
    apply (Spec k Hk) in M. unfold m in M, S1. cbn [m_edge m_start rect_metric] in M, S1. rewrite epos_obs in M.
    destruct (rect_is_inverted lo hi) eqn:Inv.
    + rewrite rect_inverted_no_edge in M by exact Inv. discriminate.
    + rewrite rect_center_inside in S1 by exact Inv. discriminate.
Qed.

Theorem model_edges_in_circle_line_spec : forall c r2 loc,
  num_faces d = 1 -> o_ne s = num_undirected_edges d -> (0 <= fst r2)%Z ->
  exists l, get_edges_in_circle pts d (ff_fuel d) c r2 loc = Some l /\ EdgesInCircleOk s pts c r2 l.
Proof.
  intros c r2 loc F1 Ne R0. unfold get_edges_in_circle.
  destruct (fst r2 <? 0)%Z eqn:Neg; [apply Z.ltb_lt in Neg; lia|].
  set (m := circle_metric pts d c r2).
  assert (Hle : num_undirected_edges d <= num_directed_edges d).
  { pose proof (dw_even d W) as Ev. unfold num_undirected_edges, num_directed_edges. lia. }
  assert (Spec : forall k, k < num_undirected_edges d ->
            (m_edge m k = true <-> EdgeMeetsCircle c r2 (eorg s pts (2 * k)) (edst s pts (2 * k)))).
  { intros k Hk. unfold m. cbn [m_edge circle_metric]. rewrite epos_obs.
    rewrite circle_is_edge_inside_spec by (apply Dist; apply und_lt_double; exact Hk). apply edge_meets_circle_spec. }
  assert (S1 : m_start m = true).
  { unfold m. cbn [m_start circle_metric]. rewrite circle_is_point_inside_spec. apply in_circle_spec.
    unfold InCircle. exists (Z.min 0 (snd r2)). cbn [fst snd].
    assert (D0 : dist2 c c = 0%Z) by (unfold dist2; ring). rewrite D0.
    split; [lia|]. split; [lia|]. rewrite Z.mul_0_l. apply Z.mul_nonneg_nonneg; [exact R0|]. apply Z.pow_nonneg. lia. }
  exists (inside_edges d m). split; [apply edges_in_shape_line; assumption|].
  split; [apply line_edges_nodup|]. split.
  - intros k Ik. apply line_edges_complete in Ik. destruct Ik as [Hk M]. rewrite Ne. split; [exact Hk|]. left. apply Spec; assumption.
  - intros k Hk M. right. apply line_edges_complete. rewrite Ne in Hk. split; [exact Hk|]. apply Spec; assumption.
Qed.
End ModelSpec.

(* ================================================================================================ *)
(* PART 6.  degenerate states: the vertex queries                                                    *)
(* ================================================================================================ *)

(* ---- degenerate states, vertices: completeness needs "a vertex inside has its edges inside" ---- *)
Section LineVertices.
Variable d : dcel.
Variable m : metric.
Hypothesis W : DW d.
Hypothesis Hedges : 2 <= num_vertices d -> num_directed_edges d <> 0.
Hypothesis Hve : forall e, e < num_directed_edges d -> m_vert m (e_origin d e) = true -> m_edge m (as_undirected e) = true.

Lemma In_pairs : forall e ks, In (as_undirected e) ks -> In e (pairs ks).
Proof.
  intros e ks I. unfold pairs. apply in_flat_map. exists (as_undirected e). split; [exact I|].
  unfold as_undirected, normalized, e_rev.
  destruct (rev_cases e) as [k [[E R]|[E R]]]; rewrite E; rewrite ?div2_double, ?div2_double1.
  - left. reflexivity.
  - right. left. rewrite rev_even. reflexivity.
Qed.

Lemma pairs_lt : forall e, In e (pairs (inside_edges d m)) -> e < num_directed_edges d.
Proof.
  intros e I. unfold pairs in I. apply in_flat_map in I. destruct I as [k [Ik I]].
  apply line_edges_complete in Ik. destruct Ik as [Hk _]. destruct (dw_double_lt d W k Hk) as [A B].
  unfold normalized, e_rev in I. rewrite rev_even in I. unfold num_directed_edges. destruct I as [<-|[<-|[]]]; assumption.
Qed.

Theorem line_vertices_complete : forall v,
  In v (filter (m_vert m) (if num_vertices d =? 1 then [0] else dedup (map (e_origin d) (pairs (inside_edges d m)))))
  <-> v < num_vertices d /\ m_vert m v = true.
Proof.
  intros v. rewrite filter_In. destruct (num_vertices d =? 1) eqn:N1.
  - apply Nat.eqb_eq in N1. cbn [In]. split; [intros [[<-|[]] M]; split; [lia|exact M]|].
    intros [Hv M]. split; [left; lia|exact M].
  - apply Nat.eqb_neq in N1. rewrite dedup_In, in_map_iff. split.
    + intros [[e [<- Ie]] M]. split; [|exact M]. apply (dw_org_lt d W). apply pairs_lt. exact Ie.
    + intros [Hv M]. split; [|exact M].
      assert (H2 : 2 <= num_vertices d) by lia.
      pose proof (Hedges H2) as Hn. pose proof (dw_vptr d W v Hv) as VP.
      destruct (v_out_edge d v) as [e|] eqn:Vo; [|unfold num_directed_edges in Hn; contradiction].
      pose proof (dw_vout_rng d W v Hv e Vo) as He.
      exists e. split; [exact VP|]. apply In_pairs. apply line_edges_complete. split.
      * unfold as_undirected, num_undirected_edges. pose proof (dw_even d W) as Ev.
        destruct (rev_cases e) as [j [[E1 _]|[E1 _]]]; rewrite E1 in *; rewrite ?div2_double, ?div2_double1; lia.
      * apply Hve; [exact He|]. rewrite VP. exact M.
Qed.
End LineVertices.

(* ---- a vertex inside the shape has its edges inside: the exact metrics ---- *)
Lemma rect_vertex_edge : forall lo hi a b,
  rect_is_point_inside lo hi a = true \/ rect_is_point_inside lo hi b = true -> rect_is_edge_inside lo hi a b = true.
Proof.
  intros lo hi a b H. unfold rect_is_edge_inside.
  assert (Inv : rect_is_inverted lo hi = false).
  { destruct (rect_is_inverted lo hi) eqn:I; [|reflexivity]. unfold rect_is_point_inside in H. rewrite I in H. destruct H; discriminate. }
  rewrite Inv. rewrite !rect_is_point_inside_spec, <- !rect_contains_in_rect in H.
  destruct H as [H|H]; rewrite H; [reflexivity|rewrite orb_true_r; reflexivity].
Qed.

Local Open Scope Z_scope.
Lemma dy_leb_mono : forall x y r, y <= x -> dy_leb (x, 0) r = true -> dy_leb (y, 0) r = true.
Proof.
  intros x y [rm re] H. rewrite (dy_leb_spec_Z x 0 rm re (Z.min 0 re)) by lia.
  rewrite (dy_leb_spec_Z y 0 rm re (Z.min 0 re)) by lia.
  assert (Hp : 0 < 2 ^ (0 - Z.min 0 re)) by (apply Z.pow_pos_nonneg; lia).
  revert Hp. generalize (2 ^ (0 - Z.min 0 re)) (rm * 2 ^ (re - Z.min 0 re)). intros p q Hp Hx. nia.
Qed.

Lemma dist2_via_dot : forall a b c, dist2 c b = dist2 c a - 2 * dot a b c + dist2 a b.
Proof. intros a b c. unfold dist2, dot. ring. Qed.

Lemma circle_vertex_edge : forall c r2 a b, pnt_eqb a b = false ->
  circle_is_point_inside c r2 a = true \/ circle_is_point_inside c r2 b = true -> circle_is_edge_inside c r2 a b = true.
Proof.
  intros c r2 a b Hab H. rewrite circle_is_edge_inside_spec by exact Hab.
  unfold circle_is_point_inside in H.
  apply pnt_eqb_neq in Hab. pose proof (dist2_pos a b Hab) as HL.
  pose proof (dist2_via_dot a b c) as D. pose proof (lagrange a b c) as LG.
  unfold edge_meets_circle, in_circle. cbv zeta.
  destruct (Z.leb_spec (dot a b c) 0) as [H1|H1].
  - destruct H as [H|H]; [exact H|]. apply (dy_leb_mono (dist2 c b)); [lia|exact H].
  - destruct (Z.leb_spec (dist2 a b) (dot a b c)) as [H2|H2].
    + destruct H as [H|H]; [|exact H]. apply (dy_leb_mono (dist2 c a)); [lia|exact H].
    + destruct r2 as [rm re]. cbn [fst snd].
      assert (Sq : 0 <= dot a b c * dot a b c) by nia.
      destruct H as [H|H].
      * rewrite <- (dy_leb_scale (dist2 c a) rm re (dist2 a b) HL) in H.
        apply (dy_leb_mono (dist2 c a * dist2 a b)); [|exact H]. rewrite (dist2_sym c a). nia.
      * rewrite <- (dy_leb_scale (dist2 c b) rm re (dist2 a b) HL) in H.
        apply (dy_leb_mono (dist2 c b * dist2 a b)); [|exact H].
        assert (E : orient a b c * orient a b c = dist2 a b * dist2 a c - dot a b c * dot a b c) by lia.
        rewrite E, D, (dist2_sym c a).
        assert (0 <= (dist2 a b - dot a b c) * (dist2 a b - dot a b c)) by nia. nia.
Qed.
Local Close Scope Z_scope.

Section ModelSpecVertices.
Variable s : obs.
Variable pts : list pnt.
Notation d := (dcel_of_obs s).
Hypothesis W : DW d.
Hypothesis Dist : forall e, e < nH s -> pnt_eqb (eorg s pts e) (edst s pts e) = false.
(* a triangulation with two or more vertices has an edge *)
Hypothesis Hedges : 2 <= nV s -> nH s <> 0.

Lemma und_double_cases : forall e, e < nH s ->
  (e_origin d e = e_origin d (normalized (as_undirected e)) \/ e_origin d e = e_to d (normalized (as_undirected e))) /\
  2 * as_undirected e < nH s.
Proof.
  intros e He. unfold as_undirected, normalized, e_to, e_rev.
  destruct (rev_cases e) as [k [[E R]|[E R]]]; rewrite E in *; rewrite ?div2_double, ?div2_double1.
  - split; [left; reflexivity|exact He].
  - split; [right; rewrite rev_even; reflexivity|]. unfold nH in *. lia.
Qed.

Theorem model_vertices_in_rectangle_line_spec : forall lo hi loc,
  num_faces d = 1 ->
  exists l, get_vertices_in_rectangle pts d (ff_fuel d) lo hi loc = Some l /\ VerticesInRectOk s pts lo hi l.
Proof.
  intros lo hi loc F1. unfold get_vertices_in_rectangle.
  set (m := rect_metric pts d lo hi (rect_center lo hi)).
  assert (Hle : num_undirected_edges d <= num_directed_edges d).
  { pose proof (dw_even d W) as Ev. unfold num_undirected_edges, num_directed_edges. lia. }
  assert (SpecV : forall v, m_vert m v = true <-> InRect lo hi (pos pts v)).
  { intros v. unfold m. cbn [m_vert rect_metric]. rewrite rect_is_point_inside_spec. apply in_rect_spec. }
  destruct (m_start m) eqn:S1.
  - eexists. split; [apply vertices_in_shape_line; assumption|].
    split; [apply line_vertices_nodup|]. intros v.
    rewrite (line_vertices_complete d m W); [rewrite SpecV; reflexivity|exact Hedges|].
    intros e He Mv. destruct (und_double_cases e He) as [Org H2]. unfold m in *. cbn [m_edge m_vert rect_metric] in *.
    rewrite epos_obs. apply rect_vertex_edge.
    destruct Org as [O|O]; [left|right]; rewrite O in Mv; exact Mv.
  - eexists. split.
    { replace (ff_fuel d) with (S (num_directed_edges d + num_vertices d)) by (unfold ff_fuel; lia).
      apply (vertices_start_outside d m _ loc S1). }
    assert (NoV : forall v, m_vert m v = false).
    { intros v. unfold m in *. cbn [m_vert m_start rect_metric] in *. destruct (rect_is_inverted lo hi) eqn:Inv.
      - unfold rect_is_point_inside. rewrite Inv. reflexivity.
      - rewrite rect_center_inside in S1 by exact Inv. discriminate. }
    assert (E : (if num_vertices d =? 1 then filter (m_vert m) [0] else []) = []).
    { destruct (num_vertices d =? 1); [|reflexivity]. cbn [filter]. rewrite NoV. reflexivity. }
    rewrite E. split; [constructor|]. intros v. split; [intros []|]. intros [_ M]. apply SpecV in M. rewrite NoV in M. discriminate.
Qed.

Theorem model_vertices_in_circle_line_spec : forall c r2 loc,
  num_faces d = 1 -> (0 <= fst r2)%Z ->
  exists l, get_vertices_in_circle pts d (ff_fuel d) c r2 loc = Some l /\ VerticesInCircleOk s pts c r2 l.
Proof.
  intros c r2 loc F1 R0. unfold get_vertices_in_circle.
  destruct (fst r2 <? 0)%Z eqn:Neg; [apply Z.ltb_lt in Neg; lia|].
  set (m := circle_metric pts d c r2).
  assert (Hle : num_undirected_edges d <= num_directed_edges d).
  { pose proof (dw_even d W) as Ev. unfold num_undirected_edges, num_directed_edges. lia. }
  assert (SpecV : forall v, m_vert m v = true <-> InCircle c r2 (pos pts v)).
  { intros v. unfold m. cbn [m_vert circle_metric]. rewrite circle_is_point_inside_spec. apply in_circle_spec. }
  assert (S1 : m_start m = true).
  { unfold m. cbn [m_start circle_metric]. rewrite circle_is_point_inside_spec. apply in_circle_spec.
    unfold InCircle. exists (Z.min 0 (snd r2)). cbn [fst snd].
    assert (D0 : dist2 c c = 0%Z) by (unfold dist2; ring). rewrite D0.
    split; [lia|]. split; [lia|]. rewrite Z.mul_0_l. apply Z.mul_nonneg_nonneg; [exact R0|]. apply Z.pow_nonneg. lia. }
  eexists. split; [apply vertices_in_shape_line; assumption|].
  split; [apply line_vertices_nodup|]. intros v.
  rewrite (line_vertices_complete d m W); [rewrite SpecV; reflexivity|exact Hedges|].
  intros e He Mv. destruct (und_double_cases e He) as [Org H2]. unfold m in *. cbn [m_edge m_vert circle_metric] in *.
  rewrite epos_obs. apply circle_vertex_edge; [apply Dist; exact H2|].
  destruct Org as [O|O]; [left|right]; rewrite O in Mv; exact Mv.
Qed.
End ModelSpecVertices.

Print Assumptions edges_in_shape_line.
Print Assumptions flood_closure.
Print Assumptions edges_in_shape_complete_connected.
Print Assumptions vertices_in_shape_complete_partial.
Print Assumptions model_edges_in_rectangle_sound.
Print Assumptions model_edges_in_rectangle_line_spec.
Print Assumptions model_edges_in_circle_line_spec.
Print Assumptions model_vertices_in_rectangle_line_spec.
Print Assumptions model_vertices_in_circle_line_spec.
