(* Query/Hull.v -- executable model of spade's CircularIterator / HullIterator
   (handles/iterators/circular_iterator.rs, hull_iterator.rs) over an observed DCEL.
   Definitions only; the theorems are in Query/HullProofs.v. *)
From Coq Require Import List Arith Bool.
From SpadeV Require Import Obs.State Gen.Prelude Gen.Sizes.
Import ListNotations.

(* CircularIterator::next, unrolled: yields `cur`, advances, stops when the advanced handle equals `final`.
   Fuel exhaustion is reported as None (the real iterator would not terminate). *)
Fixpoint circ_iter (f : nat -> nat) (fuel : nat) (cur final : nat) : option (list nat) :=
  match fuel with
  | O => None
  | S k =>
      let nxt := f cur in
      if nxt =? final then Some [cur]
      else match circ_iter f k nxt final with Some l => Some (cur :: l) | None => None end
  end.

(* HullIterator::new + iteration: start at the outer face's adjacent edge, step with `next` *)
Definition hull_iter (s : obs) : option (list nat) :=
  match adj s 0 with
  | None => Some []
  | Some a => circ_iter (next s) (nH s) a a
  end.

(* CircularIterator::next_back, unrolled (DoubleEndedIterator; `convex_hull().rev()`): moves `final` one step back with `b` (= prev for the
   hull), yields it, stops when it has reached `cur`.  `cur` never moves when only next_back is called. *)
Fixpoint circ_iter_back (b : nat -> nat) (fuel : nat) (cur final : nat) : option (list nat) :=
  match fuel with
  | O => None
  | S k =>
      let fin := b final in
      if cur =? fin then Some [fin]
      else match circ_iter_back b k cur fin with Some l => Some (fin :: l) | None => None end
  end.

(* HullIterator::new + .rev() *)
Definition hull_iter_rev (s : obs) : option (list nat) :=
  match adj s 0 with
  | None => Some []
  | Some a => circ_iter_back (prev s) (nH s) a a
  end.

(* VertexHandle::out_edges (CCW iterator) -- also VoronoiFace::adjacent_edges *)
Definition out_edges_iter (s : obs) (v : nat) : option (list nat) :=
  match vout s v with
  | None => Some []
  | Some a => circ_iter (ccw s) (nH s) a a
  end.

Definition sizes_of (s : obs) : dcel_sizes := mksizes (nV s) (o_ne s) (nF s).
