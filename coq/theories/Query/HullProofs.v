(* Query/HullProofs.v -- the circular iterators of spade (HullIterator, out_edges) terminate on a
   well-formed DCEL and enumerate exactly one orbit, without duplicates (C14, C07, C18). *)
From Coq Require Import List Arith Bool Lia PeanoNat.
From SpadeV Require Import Obs.State Obs.Spec Obs.SpecProp Query.Hull Gen.Prelude Gen.Sizes.
Import ListNotations.

(* ------------------------------------------------------------------ generic list facts *)

Lemma dup_or_nodup : forall l : list nat,
  NoDup l \/ exists i j, i < j /\ j < length l /\ nth i l 0 = nth j l 0.
Proof.
  induction l as [|x l IH].
  - left. constructor.
  - destruct (in_dec Nat.eq_dec x l) as [Hin|Hnin].
    + right. destruct (In_nth l x 0 Hin) as (j & Hj & Hnth).
      exists 0, (S j). cbn [length nth]. split; [lia|]. split; [lia|]. symmetry; exact Hnth.
    + destruct IH as [Hnd|(i & j & Hij & Hj & Heq)].
      * left. constructor; assumption.
      * right. exists (S i), (S j). cbn [length nth]. split; [lia|]. split; [lia|]. exact Heq.
Qed.

Lemma NoDup_map_inj_in : forall (A B : Type) (g : A -> B) (l : list A),
  NoDup l -> (forall x y, In x l -> In y l -> g x = g y -> x = y) -> NoDup (map g l).
Proof.
  intros A B g l Hnd. induction Hnd as [|x l Hnin Hnd IH]; intros Hinj; cbn [map].
  - constructor.
  - constructor.
    + intros Hin. apply in_map_iff in Hin. destruct Hin as (y & Hy & Hyl).
      assert (y = x) as ->.
      { apply Hinj; [right; exact Hyl | left; reflexivity | exact Hy]. }
      contradiction.
    + apply IH. intros a b Ha Hb. apply Hinj; right; assumption.
Qed.

Lemma nth_map_seq : forall (g : nat -> nat) p i d, i < p -> nth i (map g (seq 0 p)) d = g i.
Proof.
  intros g p i d Hi.
  rewrite (nth_indep _ d (g 0)) by (rewrite map_length, seq_length; exact Hi).
  rewrite map_nth. rewrite seq_nth by exact Hi. reflexivity.
Qed.

Lemma filter_all : forall (A : Type) (p : A -> bool) (l : list A),
  (forall x, In x l -> p x = true) -> filter p l = l.
Proof.
  intros A p l. induction l as [|x l IH]; intros H; cbn [filter].
  - reflexivity.
  - rewrite (H x) by (left; reflexivity). f_equal. apply IH. intros y Hy. apply H. right; exact Hy.
Qed.

Lemma NoDup_same_length : forall l l' : list nat,
  NoDup l -> NoDup l' -> (forall e, In e l <-> In e l') -> length l = length l'.
Proof.
  intros l l' H1 H2 H.
  apply Nat.le_antisymm; apply NoDup_incl_length; try assumption; intros e He; apply H; exact He.
Qed.

(* ------------------------------------------------------------------ iteration facts (no hypotheses) *)

Section Iter.
Variable f : nat -> nat.

Lemma iter_S : forall k a, Nat.iter (S k) f a = f (Nat.iter k f a).
Proof. reflexivity. Qed.

Lemma iter_plus : forall m k a, Nat.iter (m + k) f a = Nat.iter m f (Nat.iter k f a).
Proof.
  induction m as [|m IH]; intros k a.
  - reflexivity.
  - change (S m + k) with (S (m + k)). rewrite !iter_S. rewrite IH. reflexivity.
Qed.

Lemma iter_mul_period : forall p a, Nat.iter p f a = a -> forall q, Nat.iter (q * p) f a = a.
Proof.
  intros p a Hp q. induction q as [|q IH].
  - reflexivity.
  - change (S q * p) with (p + q * p). rewrite iter_plus, IH. exact Hp.
Qed.

Lemma iter_mod_period : forall p a, 1 <= p -> Nat.iter p f a = a ->
  forall k, Nat.iter k f a = Nat.iter (k mod p) f a.
Proof.
  intros p a Hp1 Hp k.
  assert (Hk : k = k mod p + (k / p) * p).
  { pose proof (Nat.div_mod k p ltac:(lia)). lia. }
  replace (Nat.iter k f a) with (Nat.iter (k mod p + (k / p) * p) f a) by (rewrite <- Hk; reflexivity).
  rewrite iter_plus. rewrite iter_mul_period by exact Hp. reflexivity.
Qed.

(* the run of the circular iterator from the k-th iterate up to the first return to a *)
Lemma circ_run : forall a p,
  Nat.iter p f a = a -> (forall q, 1 <= q < p -> Nat.iter q f a <> a) ->
  forall d k fuel, k + d = p -> 1 <= d -> d <= fuel ->
    circ_iter f fuel (Nat.iter k f a) a = Some (map (fun i => Nat.iter i f a) (seq k d)).
Proof.
  intros a p Hp Hmin. induction d as [|d IH]; intros k fuel Hkd Hd Hfuel.
  - lia.
  - destruct fuel as [|fuel]; [lia|].
    cbn [circ_iter].
    change (f (Nat.iter k f a)) with (Nat.iter (S k) f a).
    destruct (Nat.eqb_spec (Nat.iter (S k) f a) a) as [Heq|Hne].
    + destruct d as [|d].
      * reflexivity.
      * exfalso. apply (Hmin (S k)); [lia | exact Heq].
    + destruct d as [|d].
      * exfalso. apply Hne. replace (S k) with p by lia. exact Hp.
      * rewrite (IH (S k) fuel) by lia. reflexivity.
Qed.
End Iter.

(* ------------------------------------------------------------------ 1. the general orbit lemma *)

Section Orbit.
Variables (f : nat -> nat) (n : nat).
Hypothesis Hclosed : forall e, e < n -> f e < n.
Hypothesis Hinj : forall x y, x < n -> y < n -> f x = f y -> x = y.

Lemma iter_below : forall k a, a < n -> Nat.iter k f a < n.
Proof.
  induction k as [|k IH]; intros a Ha.
  - exact Ha.
  - rewrite iter_S. apply Hclosed. apply IH. exact Ha.
Qed.

Lemma iter_cancel : forall i j a, a < n -> i <= j ->
  Nat.iter i f a = Nat.iter j f a -> Nat.iter (j - i) f a = a.
Proof.
  induction i as [|i IH]; intros j a Ha Hij Heq.
  - rewrite Nat.sub_0_r. symmetry. exact Heq.
  - destruct j as [|j]; [lia|].
    change (S j - S i) with (j - i). apply IH; [exact Ha | lia |].
    rewrite !iter_S in Heq. apply Hinj in Heq; [exact Heq | |]; apply iter_below; exact Ha.
Qed.

(* pigeonhole: some iterate returns to a within n steps *)
Lemma orbit_returns : forall a, a < n -> exists m, 1 <= m <= n /\ Nat.iter m f a = a.
Proof.
  intros a Ha.
  set (L := map (fun k => Nat.iter k f a) (seq 0 (S n))).
  assert (HlenL : length L = S n) by (unfold L; rewrite map_length, seq_length; reflexivity).
  destruct (dup_or_nodup L) as [Hnd|(i & j & Hij & Hj & Heq)].
  - exfalso.
    assert (Hincl : incl L (seq 0 n)).
    { intros x Hx. unfold L in Hx. apply in_map_iff in Hx. destruct Hx as (k & Hk & _).
      apply in_seq. subst x. pose proof (iter_below k a Ha). lia. }
    pose proof (NoDup_incl_length Hnd Hincl) as Hle. rewrite HlenL, seq_length in Hle. lia.
  - rewrite HlenL in Hj. unfold L in Heq.
    rewrite !nth_map_seq in Heq by lia.
    exists (j - i). split; [lia|]. apply iter_cancel; [exact Ha | lia | exact Heq].
Qed.

Lemma least_return : forall a m,
  (forall q, 1 <= q < m -> Nat.iter q f a <> a) \/
  (exists p, 1 <= p < m /\ Nat.iter p f a = a /\ forall q, 1 <= q < p -> Nat.iter q f a <> a).
Proof.
  intros a. induction m as [|m IH].
  - left. intros q Hq. lia.
  - destruct IH as [Hnone|(p & Hp & Hpa & Hmin)].
    + destruct (Nat.eq_dec (Nat.iter m f a) a) as [Heq|Hne].
      * destruct (Nat.eq_dec m 0) as [Hm0|Hm0].
        -- left. intros q Hq. lia.
        -- right. exists m. split; [lia|]. split; [exact Heq | exact Hnone].
      * left. intros q Hq. destruct (Nat.eq_dec q m) as [->|Hqm]; [exact Hne|].
        apply Hnone. lia.
    + right. exists p. split; [lia|]. split; assumption.
Qed.

Lemma orbit_period : forall a, a < n ->
  exists p, 1 <= p <= n /\ Nat.iter p f a = a /\ (forall q, 1 <= q < p -> Nat.iter q f a <> a).
Proof.
  intros a Ha. destruct (orbit_returns a Ha) as (m & Hm & Hma).
  destruct (least_return a m) as [Hnone|(p & Hp & Hpa & Hmin)].
  - exists m. split; [exact Hm|]. split; assumption.
  - exists p. split; [lia|]. split; assumption.
Qed.

Theorem orbit_lemma : forall a, a < n ->
  exists p, 1 <= p <= n /\ Nat.iter p f a = a
    /\ (forall i j, i < p -> j < p -> Nat.iter i f a = Nat.iter j f a -> i = j)
    /\ circ_iter f n a a = Some (map (fun k => Nat.iter k f a) (seq 0 p)).
Proof.
  intros a Ha. destruct (orbit_period a Ha) as (p & Hp & Hpa & Hmin).
  exists p. split; [exact Hp|]. split; [exact Hpa|]. split.
  - assert (Hlt : forall i j, i < j -> j < p -> Nat.iter i f a = Nat.iter j f a -> False).
    { intros i j Hij Hj Heq. apply (Hmin (j - i)); [lia|].
      apply iter_cancel; [exact Ha | lia | exact Heq]. }
    intros i j Hi Hj Heq.
    destruct (Nat.lt_trichotomy i j) as [Hlt'|[Heq'|Hgt']]; [|exact Heq'|].
    + exfalso. exact (Hlt i j Hlt' Hj Heq).
    + exfalso. symmetry in Heq. exact (Hlt j i Hgt' Hi Heq).
  - apply (circ_run f a p Hpa Hmin p 0 n); lia.
Qed.

(* packaged form used for the DCEL iterators *)
Lemma orbit_enum : forall a, a < n ->
  exists p l, 1 <= p <= n /\ Nat.iter p f a = a
    /\ l = map (fun k => Nat.iter k f a) (seq 0 p)
    /\ circ_iter f n a a = Some l
    /\ length l = p
    /\ NoDup l
    /\ (forall e, In e l <-> exists k, Nat.iter k f a = e)
    /\ (forall i, i < p -> nth i l 0 = Nat.iter i f a).
Proof.
  intros a Ha. destruct (orbit_lemma a Ha) as (p & Hp & Hpa & Hdist & Hcirc).
  exists p, (map (fun k => Nat.iter k f a) (seq 0 p)).
  split; [exact Hp|]. split; [exact Hpa|]. split; [reflexivity|]. split; [exact Hcirc|].
  split; [rewrite map_length, seq_length; reflexivity|]. split; [|split].
  - apply NoDup_map_inj_in; [apply seq_NoDup|].
    intros x y Hx Hy. apply in_seq in Hx. apply in_seq in Hy. apply Hdist; lia.
  - intros e. split.
    + intros Hin. apply in_map_iff in Hin. destruct Hin as (k & Hk & _). exists k. exact Hk.
    + intros (k & Hk). apply in_map_iff. exists (k mod p). split.
      * rewrite <- Hk. symmetry. apply iter_mod_period; [lia | exact Hpa].
      * apply in_seq. pose proof (Nat.mod_upper_bound k p ltac:(lia)). lia.
  - intros i Hi. apply (nth_map_seq (fun k => Nat.iter k f a)). exact Hi.
Qed.
End Orbit.

(* the same with injectivity given by a left inverse *)
Corollary orbit_lemma_linv : forall (f g : nat -> nat) (n : nat),
  (forall e, e < n -> f e < n) -> (forall e, e < n -> g (f e) = e) ->
  forall a, a < n ->
  exists p, 1 <= p <= n /\ Nat.iter p f a = a
    /\ (forall i j, i < p -> j < p -> Nat.iter i f a = Nat.iter j f a -> i = j)
    /\ circ_iter f n a a = Some (map (fun k => Nat.iter k f a) (seq 0 p)).
Proof.
  intros f g n Hcl Hg a Ha. apply orbit_lemma; [exact Hcl | | exact Ha].
  intros x y Hx Hy Heq. rewrite <- (Hg x Hx), <- (Hg y Hy), Heq. reflexivity.
Qed.

(* ------------------------------------------------------------------ outer_edges / out_edges_of *)

Lemma outer_edges_spec : forall s e, In e (outer_edges s) <-> (e < nH s /\ face s e = 0).
Proof.
  intros s e. unfold outer_edges. rewrite filter_In, in_seq, Nat.eqb_eq. split; intros [H1 H2]; split; try assumption; lia.
Qed.

Lemma outer_edges_NoDup : forall s, NoDup (outer_edges s).
Proof. intros s. unfold outer_edges. apply NoDup_filter. apply seq_NoDup. Qed.

(* ------------------------------------------------------------------ rev *)

Lemma rev_invol : forall x, rev (rev x) = x.
Proof.
  intros x. unfold rev. destruct (Nat.even x) eqn:E.
  - rewrite Nat.even_succ, <- Nat.negb_even, E. reflexivity.
  - destruct x as [|x]; [discriminate E|].
    cbn [Nat.pred]. rewrite Nat.even_succ, <- Nat.negb_even in E.
    destruct (Nat.even x); [reflexivity | discriminate E].
Qed.

Lemma rev_below : forall m x, x < m * 2 -> rev x < m * 2.
Proof.
  intros m x Hx. unfold rev. destruct (Nat.even x) eqn:E.
  - apply Nat.even_spec in E. destruct E as (k & Hk). lia.
  - lia.
Qed.

(* ------------------------------------------------------------------ 2. the hull iterator *)

Theorem hull_iter_spec : forall s, Wf s -> exists l, hull_iter s = Some l
  /\ NoDup l
  /\ (forall e, In e l <-> (e < nH s /\ face s e = 0))
  /\ length l = length (outer_edges s)
  /\ length l = convex_hull_size (sizes_of s)
  /\ (forall i, S i < length l -> dest s (nth i l 0) = org s (nth (S i) l 0))
  /\ (l <> [] -> dest s (last l 0) = org s (hd 0 l)).
Proof.
  intros s Hwf.
  destruct Hwf as (HC & HR & HL & HFP & HVP & HT & HOO & HVO & HSi & HEu).
  destruct HC as (HCv & HCe & HCf & HCfl & HCF1).
  destruct HR as (HRe & HRv & HRf).
  destruct HEu as (HE1 & HE2 & HE3 & HE4 & HE5).
  assert (HF0 : 0 < nF s) by lia.
  (* the size formula agrees with the number of outer half-edges *)
  assert (Hout1 : nF s = 1 -> length (outer_edges s) = nH s).
  { intros HF1. unfold outer_edges. rewrite filter_all; [apply seq_length|].
    intros x Hx. apply in_seq in Hx. apply Nat.eqb_eq.
    destruct (HRe x) as (_ & _ & Hfx & _); [unfold HE; lia|]. lia. }
  assert (Hout2 : nF s <> 1 -> length (outer_edges s) + 3 * (nF s - 1) = nH s).
  { intros HF1. destruct (HE5 HF1) as (_ & Hsum & _). lia. }
  (* stated against whatever closed form the source currently uses: only the two facts above are needed *)
  assert (Hsize : length (outer_edges s) = convex_hull_size (sizes_of s)).
  { unfold convex_hull_size, all_vertices_on_line, num_all_faces, num_inner_faces,
      num_directed_edges, sizes_of. cbn [num_faces num_undirected_edges]. cbv zeta.
    destruct (Nat.eqb_spec (nF s) 1) as [HF1|HF1];
      [specialize (Hout1 HF1) | specialize (Hout2 HF1)]; lia. }
  unfold hull_iter. unfold WfOuterOrbit in HOO. specialize (HFP 0 HF0).
  destruct (adj s 0) as [a|] eqn:Ea.
  - assert (Ha : a < nH s) by (apply (HRf 0 HF0 a); exact Ea).
    assert (Hcl : forall e, e < nH s -> next s e < nH s).
    { intros e He. destruct (HRe e He) as (Hn & _). exact Hn. }
    assert (Hinj : forall x y, x < nH s -> y < nH s -> next s x = next s y -> x = y).
    { intros x y Hx Hy Heq. destruct (HL x Hx) as (Hpx & _). destruct (HL y Hy) as (Hpy & _).
      rewrite <- Hpx, <- Hpy, Heq. reflexivity. }
    destruct (orbit_enum (next s) (nH s) Hcl Hinj a Ha)
      as (p & l & Hp & Hpa & Hl & Hcirc & Hlen & Hnd & Hin & Hnth).
    assert (Horb : forall k, Nat.iter k (next s) a < nH s /\ face s (Nat.iter k (next s) a) = 0).
    { induction k as [|k (IH1 & IH2)].
      - split; [exact Ha | exact HFP].
      - rewrite iter_S. split; [apply Hcl; exact IH1|].
        destruct (HL _ IH1) as (_ & _ & Hf & _). rewrite Hf. exact IH2. }
    assert (Hiff : forall e, In e l <-> (e < nH s /\ face s e = 0)).
    { intros e. rewrite Hin. split.
      - intros (k & Hk). rewrite <- Hk. apply Horb.
      - intros (He & Hfe). destruct (HOO e He Hfe) as (k & _ & Hk). exists k. exact Hk. }
    assert (Hlen2 : length l = length (outer_edges s)).
    { apply NoDup_same_length; [exact Hnd | apply outer_edges_NoDup|].
      intros e. rewrite Hiff, outer_edges_spec. reflexivity. }
    exists l. split; [exact Hcirc|]. split; [exact Hnd|]. split; [exact Hiff|].
    split; [exact Hlen2|]. split; [rewrite Hlen2; exact Hsize|]. split.
    + intros i Hi. rewrite Hlen in Hi. rewrite !Hnth by lia. rewrite iter_S.
      destruct (HL _ (proj1 (Horb i))) as (_ & _ & _ & Ho & _). symmetry. exact Ho.
    + intros _.
      assert (Hlast : last l 0 = Nat.iter (p - 1) (next s) a).
      { rewrite Hl. replace p with (S (p - 1)) at 1 by lia.
        rewrite seq_S, map_app. cbn [map]. rewrite last_last. reflexivity. }
      assert (Hhd : hd 0 l = a).
      { rewrite Hl. replace p with (S (p - 1)) by lia. reflexivity. }
      rewrite Hlast, Hhd.
      destruct (HL _ (proj1 (Horb (p - 1)))) as (_ & _ & _ & Ho & _). rewrite <- Ho.
      rewrite <- iter_S. replace (S (p - 1)) with p by lia. rewrite Hpa. reflexivity.
  - destruct HFP as (_ & HnH0).
    exists []. split; [reflexivity|]. split; [constructor|].
    assert (Hoe : outer_edges s = []) by (unfold outer_edges; rewrite HnH0; reflexivity).
    split; [|split; [|split; [|split]]].
    + intros e. split; [intros []| intros (He & _); lia].
    + rewrite Hoe. reflexivity.
    + rewrite <- Hsize, Hoe. reflexivity.
    + intros i Hi. cbn [length] in Hi. lia.
    + intros Hne. contradiction Hne. reflexivity.
Qed.

(* ------------------------------------------------------------------ 3. the out-edge iterator *)

Theorem out_edges_iter_spec : forall s v, Wf s -> v < nV s ->
  exists l, out_edges_iter s v = Some l /\ NoDup l
    /\ (forall e, In e l <-> (e < nH s /\ org s e = v)).
Proof.
  intros s v Hwf Hv.
  destruct Hwf as (HC & HR & HL & HFP & HVP & HT & HOO & HVO & HSi & HEu).
  destruct HC as (HCv & HCe & HCf & HCfl & HCF1).
  destruct HR as (HRe & HRv & HRf).
  unfold out_edges_iter. specialize (HVP v Hv). specialize (HVO v Hv).
  destruct (vout s v) as [a|] eqn:Ea.
  - assert (Ha : a < nH s) by (apply (HRv v Hv a); exact Ea).
    assert (Hrevb : forall x, x < nH s -> rev x < nH s).
    { intros x Hx. rewrite <- HCe in *. apply rev_below. exact Hx. }
    assert (Hcl : forall e, e < nH s -> ccw s e < nH s).
    { intros e He. unfold ccw. apply Hrevb. destruct (HRe e He) as (_ & Hpv & _). exact Hpv. }
    assert (Hlinv : forall e, e < nH s -> next s (rev (ccw s e)) = e).
    { intros e He. unfold ccw. rewrite rev_invol. destruct (HL e He) as (_ & Hnp & _). exact Hnp. }
    assert (Hinj : forall x y, x < nH s -> y < nH s -> ccw s x = ccw s y -> x = y).
    { intros x y Hx Hy Heq. rewrite <- (Hlinv x Hx), <- (Hlinv y Hy), Heq. reflexivity. }
    assert (Horg : forall e, e < nH s -> org s (ccw s e) = org s e).
    { intros e He. destruct (HRe e He) as (_ & Hpv & _).
      destruct (HL _ Hpv) as (_ & _ & _ & Ho & _). destruct (HL e He) as (_ & Hnp & _).
      unfold ccw. change (org s (rev (prev s e))) with (dest s (prev s e)).
      rewrite <- Ho, Hnp. reflexivity. }
    destruct (orbit_enum (ccw s) (nH s) Hcl Hinj a Ha)
      as (p & l & Hp & Hpa & Hl & Hcirc & Hlen & Hnd & Hin & Hnth).
    assert (Horb : forall k, Nat.iter k (ccw s) a < nH s /\ org s (Nat.iter k (ccw s) a) = v).
    { induction k as [|k (IH1 & IH2)].
      - split; [exact Ha | exact HVP].
      - rewrite iter_S. split; [apply Hcl; exact IH1|]. rewrite Horg by exact IH1. exact IH2. }
    exists l. split; [exact Hcirc|]. split; [exact Hnd|].
    intros e. rewrite Hin. split.
    + intros (k & Hk). rewrite <- Hk. apply Horb.
    + intros (He & Hoe). destruct (HVO a eq_refl e He Hoe) as (k & _ & Hk). exists k. exact Hk.
  - exists []. split; [reflexivity|]. split; [constructor|].
    intros e. split; [intros [] | intros (He & _); lia].
Qed.

Print Assumptions orbit_lemma.
Print Assumptions orbit_lemma_linv.
Print Assumptions hull_iter_spec.
Print Assumptions out_edges_iter_spec.
