(* Query/NatNeighbor.v -- hand-written executable model of natural-neighbour identification and of the selection (and ORDER) of the
   vertices reported by the two interpolation front ends of src/delaunay_core/interpolation.rs:
     get_natural_neighbor_edges + inspect_flips            -> natural_neighbor_edges
     NaturalNeighbor::get_weights (get_natural_neighbor_weights, vertex part)   -> nn_weight_vertices
     Barycentric::get_weights (vertex part)                -> bary_weight_vertices
   Point location (`triangulation.locate(position)`) is a parameter `loc` (PositionInTriangulation, type `lstart` of Tri/LineIter.v).
   Predicates: math::contained_in_circumference / math::is_ordered_ccw are the signs of the exact determinants (C06).
   The floating-point weights themselves (circumcentres, polygon areas, normalisation) are NOT modelled; only the control flow that decides
   which vertices are pushed, in which order, and the panics on that path (assert!, debug_assert!, unwrap) -- a panic is `None`, as is
   running out of fuel.

   Representation of the two Vecs of inspect_flips: a Coq list whose HEAD is the BACK of the Vec (push = cons, pop = head).  Hence the
   final `result.reverse()` of get_natural_neighbor_edges yields, read front to back, exactly the accumulated list.

   Tie to the code (Check/RunModel.v, tag corr): for every `nnw` / `bary` operation the sequence of vertex indices in the result vector
   must be the model's sequence for one of the answers of the locate model (Tri/Locate.v from some start vertex; the deterministic
   degenerate locate of Tri/LineIter.v on empty / single-vertex / collinear states).  Definitions only. *)
From Coq Require Import ZArith List Bool Arith.
From SpadeV Require Import Geom.Pred Obs.State Dcel.Raw Tri.Legalize Tri.Insert Tri.LineIter.
Import ListNotations.

Section NN.
Variable pts : list pnt.            (* exact vertex positions, by vertex index *)
Variable fuel : nat.
Variable d : dcel.
Variable q : pnt.                   (* the query position *)

(* inspect_flips: v2 = edge.opposite_vertex() (= prev.from), v1 = edge.from, v0 = edge.to;
   should_flip = math::contained_in_circumference(v2, v1, v0, position), i.e. robust::incircle(v0, v1, v2, position) < 0,
   i.e. position strictly inside the circle through the counter-clockwise v2, v1, v0 *)
Definition nn_should_flip (e : nat) : bool :=
  (0 <? incircle (vpos pts (apex d e)) (vpos pts (e_origin d e)) (vpos pts (e_to d e)) q)%Z.
(* debug_assert!(math::is_ordered_ccw(v2, v1, v0)): side_query(v2, v1, v0).is_on_left_side_or_on_line() *)
Definition nn_ccw_assert (e : nat) : bool :=
  (0 <=? orient (vpos pts (apex d e)) (vpos pts (e_origin d e)) (vpos pts (e_to d e)))%Z.

(* the `while let Some(edge) = buffer.pop()` loop of inspect_flips; `buffer`, `result`: head = back of the Vec *)
Fixpoint inspect_loop (k : nat) (buffer result : list nat) : option (list nat) :=
  match buffer with
  | [] => Some result
  | e :: rest =>
    match k with
    | O => None
    | S k' =>
      if is_outer d e then inspect_loop k' rest (e_rev e :: result)          (* opposite_vertex() = None: should_flip stays false *)
      else if negb (nn_ccw_assert e) then None                               (* debug assertion fails *)
      else if nn_should_flip e then
        (* buffer.push(e1 = next.rev); buffer.push(e2 = prev.rev): e2 is popped first *)
        inspect_loop k' (e_rev (e_prev d e) :: e_rev (e_next d e) :: rest) result
      else inspect_loop k' rest (e_rev e :: result)
    end
  end.

(* inspect_flips(triangulation, result, buffer, edge_to_validate, position): buffer.clear(); buffer.push(edge_to_validate); loop *)
Definition inspect_flips (result : list nat) (e : nat) : option (list nat) := inspect_loop fuel [e] result.

(* get_natural_neighbor_edges: the ring of directed edges, front to back as handed to get_natural_neighbor_weights *)
Definition natural_neighbor_edges (loc : lstart) : option (list nat) :=
  match loc with
  | LsFace f =>
      match f_adjacent d f with
      | None => None                                                          (* FaceHandle::adjacent_edge unwraps *)
      | Some e1 =>
          let e0 := e_prev d e1 in
          let e2 := e_next d e1 in
          (* face.adjacent_edges() = [e0, e1, e2]; .into_iter().rev().map(|e| e.rev()) = e2.rev, e1.rev, e0.rev *)
          match inspect_flips [] (e_rev e2) with
          | None => None
          | Some r1 =>
            match inspect_flips r1 (e_rev e1) with
            | None => None
            | Some r2 => inspect_flips r2 (e_rev e0)
            end
          end
      end
  | LsEdge e =>
      if is_outer d e || is_outer d (e_rev e)                                 (* edge.is_part_of_convex_hull() *)
      then Some [e; e_rev e]                                                  (* result.extend([edge, edge.rev()]); return -- NOT reversed *)
      else
        match inspect_flips [] e with
        | None => None
        | Some r1 => inspect_flips r1 (e_rev e)
        end
  | LsVertex v => Some [match v_out_edge d v with Some e => e | None => 0 end]   (* out_edge().unwrap_or(handle 0) *)
  | LsOutside _ | LsNoTri => Some []
  end.

(* ---- get_natural_neighbor_weights: which vertices are pushed, and the panics / loops on the way ---- *)
(* the inner `loop`: rotate `last_edge = last_edge.next().rev()` about stop_edge.from() until stop_edge.rev() is reached;
   every visited edge must have an inner face (`face().as_inner().unwrap()`) *)
Fixpoint nn_polygon_loop (k : nat) (last_edge stop : nat) : bool :=
  match k with
  | O => false
  | S k' =>
    if is_outer d last_edge then false
    else
      let le := e_rev (e_next d last_edge) in
      if le =? e_rev stop then true else nn_polygon_loop k' le stop
  end.

(* the outer `for (stop_edge, first) in zip(nns, insertion_cell)` loop; afterwards last_edge = stop_edge *)
Fixpoint nn_outer_loop (nns : list nat) (last_edge : nat) : option (list nat) :=
  match nns with
  | [] => Some []
  | stop :: t =>
    if is_outer d stop then None                                              (* assert!(!stop_edge.is_outer_edge()) *)
    else if nn_polygon_loop fuel last_edge stop then
      match nn_outer_loop t stop with
      | Some r => Some (e_origin d stop :: r)                                 (* result.push((stop_edge.from().fix(), polygon_area)) *)
      | None => None
      end
    else None
  end.

Definition nn_vertices_of_edges (nns : list nat) : option (list nat) :=
  match nns with
  | [] => Some []
  | [e] => if num_directed_edges d =? 0 then Some [0] else Some [e_origin d e]
  | [e0; e1] => Some [e_origin d e0; e_origin d e1]
  | _ => nn_outer_loop nns (last nns 0)
  end.

(* NaturalNeighbor::get_weights: the vertex handles of the result vector, in order *)
Definition nn_weight_vertices (loc : lstart) : option (list nat) :=
  match natural_neighbor_edges loc with
  | Some nns => nn_vertices_of_edges nns
  | None => None
  end.

(* Barycentric::get_weights: the vertex handles of the result vector, in order *)
Definition bary_weight_vertices (loc : lstart) : option (list nat) :=
  match loc with
  | LsVertex v => Some [v]
  | LsEdge e => Some [e_origin d e; e_to d e]                                 (* directed_edge(edge).vertices() = [from, to] *)
  | LsFace f =>
      match f_adjacent d f with
      | None => None
      | Some e1 => Some [e_origin d (e_prev d e1); e_origin d e1; e_origin d (e_next d e1)]   (* [e0.from, e1.from, e2.from] *)
      end
  | LsOutside _ | LsNoTri => Some []
  end.
End NN.
