(* Query/NatNeighborProofs.v -- theorems about the natural-neighbour model of Query/NatNeighbor.v (property C19, task M7).
   For a link-level well-formed DCEL (`DW`) whose inner faces are strictly counter-clockwise (`EdgesCcw`) and a location that
   satisfies the exact location specification:

   PART 1  geometry: a point strictly inside a ccw triangle, or in the relative interior of one of its sides, lies strictly inside
           its circumcircle; the chord lemma (inside the circle of the left triangle, not inside the circle of the right one,
           locally Delaunay edge => strictly left of the edge)
   PART 2  the loop inspect_flips: the emitted edges form a PATH with the end points of the inspected edge reversed; every emitted
           edge has a conflict face on its left and no conflict face on its right
   PART 3  natural_neighbor_edges: the result is a CLOSED ring (to(e_i) = from(e_{i+1}), the last leads back to the first), never
           empty; in a Delaunay triangulation with q strictly inside the hull every ring edge has q strictly on its left (the ring is
           counter-clockwise around q)
   PART 4  link with Query/Voronoi.v: the left faces of the ring are in `conflict_faces`, the right faces are not, every ring vertex
           is in `natural_neighbours q` (..._partial: the converse inclusion needs the connectedness of the conflict region, which is
           not proved here)
   PART 5  the vertex lists: nn_weight_vertices = origins of the ring in order; bary_weight_vertices = the vertices of the face / edge
   PART 6  through the locate model: the statements for the answers of Tri/Locate.v *)
From Coq Require Import ZArith List Bool Arith Lia.
From SpadeV Require Import Geom.Pred Geom.Lemmas Obs.State Obs.Spec Obs.SpecProp Obs.Query Query.Voronoi Query.ViewProp Query.ViewProofs
  Dcel.Raw Dcel.WfCore Dcel.ProofsFlip Query.Hull Tri.Legalize Tri.Insert Tri.LegalizeProofs Tri.Locate Tri.LocateProofs Tri.LineIter
  Query.NatNeighbor.
Import ListNotations.

(* ================================================================================================ *)
(* PART 1.  geometry                                                                                 *)
(* ================================================================================================ *)
Local Open Scope Z_scope.

(* expansion of the in-circle determinant along the lifted column *)
Lemma incircle_lift : forall a b c q : pnt,
  incircle a b c q = dist2 a q * orient b c q + dist2 b q * orient c a q + dist2 c q * orient a b q.
Proof. geom_ring. Qed.

Lemma orient_pos_neq3 : forall a b c : pnt, 0 < orient a b c -> a <> c.
Proof.
  intros a b c H E. subst c. destruct (orient_degenerate a b a) as (_ & D & _). lia.
Qed.

(* q strictly inside the counter-clockwise triangle a b c: strictly inside its circumcircle *)
Lemma inside_triangle_incircle : forall a b c q : pnt,
  0 < orient a b q -> 0 < orient b c q -> 0 < orient c a q -> 0 < incircle a b c q.
Proof.
  intros a b c q H1 H2 H3. rewrite incircle_lift.
  pose proof (dist2_pos a q (orient_pos_neq3 a b q H1)) as Da.
  pose proof (dist2_nonneg b q) as Db. pose proof (dist2_nonneg c q) as Dc.
  assert (0 < dist2 a q * orient b c q) by (apply Z.mul_pos_pos; assumption).
  assert (0 <= dist2 b q * orient c a q) by (apply Z.mul_nonneg_nonneg; lia).
  assert (0 <= dist2 c q * orient a b q) by (apply Z.mul_nonneg_nonneg; lia).
  lia.
Qed.

(* q in the relative interior of side ab of the counter-clockwise triangle a b c: strictly left of the two other sides *)
Lemma on_side_left_others : forall a b c q : pnt,
  0 < orient a b c -> strictly_between a b q = true -> 0 < orient b c q /\ 0 < orient c a q.
Proof.
  intros a b c q T SB. apply strictly_between_spec in SB. destruct SB as (C & B1 & B2).
  pose proof (cone_id1 a b c q) as I1. pose proof (cone_id2 a b c q) as I2.
  rewrite C in I1, I2.
  assert (N : 0 < dist2 a b) by lia.
  assert (P1 : 0 < dot a b q * orient a b c) by (apply Z.mul_pos_pos; lia).
  assert (P2 : 0 < (dist2 a b - dot a b q) * orient a b c) by (apply Z.mul_pos_pos; lia).
  split.
  - destruct (Z_lt_le_dec 0 (orient b c q)) as [G|G]; [exact G|].
    assert (dist2 a b * orient b c q <= 0) by (apply Z.mul_nonneg_nonpos; lia). lia.
  - destruct (Z_lt_le_dec 0 (orient c a q)) as [G|G]; [exact G|].
    assert (dist2 a b * orient c a q <= 0) by (apply Z.mul_nonneg_nonpos; lia). lia.
Qed.

Lemma on_side_incircle : forall a b c q : pnt,
  0 < orient a b c -> strictly_between a b q = true -> 0 < incircle a b c q.
Proof.
  intros a b c q T SB. destruct (on_side_left_others a b c q T SB) as (L1 & L2).
  apply strictly_between_spec in SB. destruct SB as (C & B1 & B2).
  rewrite incircle_lift, C.
  assert (Na : a <> q).
  { intros E. subst q. assert (dot a b a = 0) by geom_ring. lia. }
  pose proof (dist2_pos a q Na) as Da. pose proof (dist2_nonneg b q) as Db.
  assert (0 < dist2 a q * orient b c q) by (apply Z.mul_pos_pos; assumption).
  assert (0 <= dist2 b q * orient c a q) by (apply Z.mul_nonneg_nonneg; lia).
  lia.
Qed.

(* the chord lemma: edge u -> v with the ccw triangle (u, v, c) on its left and the apex g on its right; the edge is locally
   Delaunay (g not strictly inside the circle of u v c); q strictly inside the circle of (u, v, c) and not strictly inside the circle
   of the right triangle (v, u, g): then q is strictly left of u -> v *)
Lemma chord_left : forall u v c g q : pnt,
  0 < orient u v c -> orient u v g < 0 ->
  incircle u v c g <= 0 -> 0 < incircle u v c q -> incircle v u g q <= 0 ->
  0 < orient u v q.
Proof.
  intros u v c g q Oc Og Dl Iq Ig.
  pose proof (plucker u v c g q) as PL.
  assert (E : incircle u v g q = - incircle v u g q) by (rewrite <- incircle_swap; reflexivity).
  rewrite E in PL.
  assert (A : incircle u v c q * orient u v g < 0) by (apply Z.mul_pos_neg; assumption).
  assert (B : 0 <= orient u v c * - incircle v u g q) by (apply Z.mul_nonneg_nonneg; lia).
  assert (C : incircle u v c g * orient u v q < 0) by lia.
  destruct (Z_lt_le_dec 0 (orient u v q)) as [G|G]; [exact G|].
  assert (0 <= incircle u v c g * orient u v q) by (apply Z.mul_nonpos_nonpos; assumption). lia.
Qed.

Local Close Scope Z_scope.

(* ================================================================================================ *)
(* PART 2.  the loop of inspect_flips                                                                *)
(* ================================================================================================ *)

Section Loop.
Variable pts : list pnt.
Variable d : dcel.
Variable q : pnt.
Notation P := (vpos pts).
Notation n := (length (d_hedges d)).

(* the in-circle determinant of q against the triangle on the left of half-edge x, as inspect_flips evaluates it *)
Definition circ (x : nat) : Z := incircle (P (apex d x)) (P (e_origin d x)) (P (e_to d x)) q.

(* x has an inner face on its left whose circumcircle strictly contains q *)
Definition Inside (x : nat) : Prop := x < n /\ inner d x /\ (0 < circ x)%Z.
(* the face on the right of x is the outer face, or an inner face whose circumcircle does not strictly contain q *)
Definition Outside (x : nat) : Prop :=
  e_rev x < n /\ (outer d (e_rev x) \/ (inner d (e_rev x) /\ (circ (e_rev x) <= 0)%Z)).

(* l is a path of half-edges from vertex a to vertex b (head to tail) *)
Fixpoint is_path (l : list nat) (a b : nat) : Prop :=
  match l with
  | [] => a = b
  | e :: t => e_origin d e = a /\ is_path t (e_to d e) b
  end.

Lemma is_path_app : forall l1 l2 a m b, is_path l1 a m -> is_path l2 m b -> is_path (l1 ++ l2) a b.
Proof.
  induction l1 as [|e t IH]; intros l2 a m b H1 H2; cbn [is_path app] in *.
  - subst m. exact H2.
  - destruct H1 as (E & H1). split; [exact E|]. exact (IH l2 _ m b H1 H2).
Qed.

Lemma is_path_single : forall e, is_path [e] (e_origin d e) (e_to d e).
Proof. intros e. cbn [is_path]. split; reflexivity. Qed.

(* consecutive edges of a path: to(e_i) = from(e_{i+1}) *)
Fixpoint chained (l : list nat) : Prop :=
  match l with
  | e :: ((e' :: _) as t) => e_to d e = e_origin d e' /\ chained t
  | _ => True
  end.
Lemma is_path_chained : forall l a b, is_path l a b -> chained l.
Proof.
  induction l as [|e t IH]; intros a b H; [exact I|].
  destruct t as [|e' t']; [exact I|].
  cbn [is_path] in H. destruct H as (_ & E' & H). cbn [chained]. split; [symmetry; exact E'|].
  apply (IH (e_to d e) b). cbn [is_path]. split; [exact E'|exact H].
Qed.
Lemma is_path_ends : forall l a b, l <> [] -> is_path l a b ->
  e_origin d (hd 0 l) = a /\ e_to d (last l 0) = b.
Proof.
  induction l as [|e t IH]; intros a b NE H; [congruence|].
  cbn [is_path] in H. destruct H as (E & H). split; [exact E|].
  destruct t as [|e' t']; [cbn [is_path last] in *; exact H|].
  change (last (e :: e' :: t') 0) with (last (e' :: t') 0).
  apply (IH (e_to d e) b); [discriminate|exact H].
Qed.

Lemma nn_should_flip_circ : forall e, nn_should_flip pts d q e = true <-> (0 < circ e)%Z.
Proof. intros e. unfold nn_should_flip, circ. apply Z.ltb_lt. Qed.

Lemma e_to_rev : forall e, e_to d (e_rev e) = e_origin d e.
Proof. intros e. unfold e_to, e_rev. rewrite rev_rev. reflexivity. Qed.
Lemma e_origin_rev : forall e, e_origin d (e_rev e) = e_to d e.
Proof. reflexivity. Qed.

Hypothesis W : DW d.

Lemma circ_prev : forall x, x < n -> inner d x -> circ (e_prev d x) = circ x.
Proof.
  intros x Hx Ix. unfold circ, apex, e_to, e_rev.
  destruct (dw_tri_facts d x W Hx Ix) as (_ & _ & _ & _ & _ & A4 & _ & _ & _ & _ & _ & B1 & _ & B3).
  rewrite A4, B3, <- B1. apply incircle_cyclic'.
Qed.
Lemma circ_next : forall x, x < n -> inner d x -> circ (e_next d x) = circ x.
Proof.
  intros x Hx Ix. unfold circ, apex, e_to, e_rev.
  destruct (dw_tri_facts d x W Hx Ix) as (_ & _ & _ & _ & A3 & _ & _ & _ & _ & _ & _ & B1 & B2 & _).
  rewrite A3, B2, <- B1. apply incircle_cyclic.
Qed.

Hypothesis EC : EdgesCcw pts d.

(* the debug assertion of inspect_flips holds on every inner half-edge *)
Lemma nn_ccw_assert_true : forall e, e < n -> inner d e -> nn_ccw_assert pts d e = true.
Proof.
  intros e He Ie. unfold nn_ccw_assert. apply Z.leb_le.
  pose proof (EC e He Ie) as T. unfold tri_orient in T.
  unfold apex, e_to, e_rev. rewrite <- (dw_org_next d W e He). rewrite orient_cyclic'. lia.
Qed.

Lemma is_outer_true_iff : forall e, is_outer d e = true <-> outer d e.
Proof. intros e. unfold is_outer, outer. apply Nat.eqb_eq. Qed.
Lemma is_outer_false_iff : forall e, is_outer d e = false <-> inner d e.
Proof. intros e. unfold is_outer, inner. apply Nat.eqb_neq. Qed.

(* the buffer, read from its top, is a path A ~> B of half-edges whose reversed edges look into the conflict region; then the
   edges pushed onto `result` form, in the order of the final (reversed) vector, a path B ~> A, and each of them has a conflict
   face on its left and none on its right *)
Lemma inspect_loop_spec : forall k buffer result r A B,
  (forall b, In b buffer -> b < n /\ Inside (e_rev b)) ->
  is_path buffer A B ->
  inspect_loop pts d q k buffer result = Some r ->
  exists new, r = new ++ result /\ is_path new B A /\ length buffer <= length new /\
              (forall e rest, buffer = e :: rest -> Inside e -> 2 + length rest <= length new) /\
              forall x, In x new -> x < n /\ Inside x /\ Outside x.
Proof.
  induction k as [|k IH]; intros buffer result r A B HB HP HR.
  - destruct buffer as [|e rest]; [|discriminate].
    cbn [inspect_loop] in HR. injection HR as <-. exists []. cbn [is_path] in HP.
    split; [reflexivity|]. split; [cbn [is_path]; symmetry; exact HP|]. split; [apply Nat.le_refl|].
    split; [intros e rest X; discriminate|intros x []].
  - destruct buffer as [|e rest].
    { cbn [inspect_loop] in HR. injection HR as <-. exists []. cbn [is_path] in HP.
      split; [reflexivity|]. split; [cbn [is_path]; symmetry; exact HP|]. split; [apply Nat.le_refl|].
      split; [intros e rest X; discriminate|intros x []]. }
    cbn [inspect_loop] in HR. cbn [is_path] in HP. destruct HP as (EA & HP).
    destruct (HB e (or_introl eq_refl)) as (He & Ire).
    assert (HB' : forall b, In b rest -> b < n /\ Inside (e_rev b)) by (intros b Hb; apply HB; right; exact Hb).
    (* what emitting rev e means *)
    assert (EMIT : forall r', inspect_loop pts d q k rest (e_rev e :: result) = Some r' ->
                   (outer d e \/ (inner d e /\ (circ e <= 0)%Z)) ->
                   exists new, r' = new ++ result /\ is_path new B A /\ length (e :: rest) <= length new /\
                               (forall e0 rest0, e :: rest = e0 :: rest0 -> Inside e0 -> 2 + length rest0 <= length new) /\
                               forall x, In x new -> x < n /\ Inside x /\ Outside x).
    { intros r' HR' OUT.
      destruct (IH rest (e_rev e :: result) r' (e_to d e) B HB' HP HR') as (new & -> & PN & LN & _ & AN).
      exists (new ++ [e_rev e]). split; [rewrite <- app_assoc; reflexivity|]. split.
      - apply (is_path_app new [e_rev e] B (e_to d e) A PN). cbn [is_path]. split; [reflexivity|].
        rewrite e_to_rev. exact EA.
      - split; [rewrite app_length; cbn [length]; lia|]. split.
        + intros e0 rest0 X (_ & I0 & C0). injection X as <- <-.
          destruct OUT as [O|(_ & C)]; [unfold inner, outer in *; contradiction|lia].
        + intros x Hx. apply in_app_or in Hx. destruct Hx as [Hx|[<-|[]]]; [apply AN; exact Hx|].
          split; [apply (dw_rev_lt d W e He)|]. split; [exact Ire|].
          unfold Outside, e_rev. rewrite rev_rev. split; [exact He|exact OUT]. }
    destruct (is_outer d e) eqn:Oe.
    { apply (EMIT r HR). left. apply is_outer_true_iff. exact Oe. }
    apply is_outer_false_iff in Oe.
    rewrite (nn_ccw_assert_true e He Oe) in HR. cbn [negb] in HR.
    destruct (nn_should_flip pts d q e) eqn:SF.
    + (* flip: prev.rev and next.rev replace e *)
      apply nn_should_flip_circ in SF.
      destruct (dw_tri_facts d e W He Oe) as (Ln & Lp & A1 & A2 & A3 & A4 & F1 & F2 & _ & _ & _ & B1 & B2 & B3).
      assert (HB2 : forall b, In b (e_rev (e_prev d e) :: e_rev (e_next d e) :: rest) -> b < n /\ Inside (e_rev b)).
      { intros b [<-|[<-|Hb]]; [| |apply HB'; exact Hb].
        - split; [apply (dw_rev_lt d W _ Lp)|]. unfold e_rev. rewrite rev_rev.
          split; [exact Lp|]. split; [apply (dw_inner_prev d W e He Oe)|]. rewrite (circ_prev e He Oe). exact SF.
        - split; [apply (dw_rev_lt d W _ Ln)|]. unfold e_rev. rewrite rev_rev.
          split; [exact Ln|]. split; [apply (dw_inner_next d W e He Oe)|]. rewrite (circ_next e He Oe). exact SF. }
      assert (HP2 : is_path (e_rev (e_prev d e) :: e_rev (e_next d e) :: rest) A B).
      { cbn [is_path]. rewrite !e_origin_rev, !e_to_rev. unfold e_to, e_rev.
        split; [rewrite B3; exact EA|]. split; [rewrite B2; reflexivity|].
        rewrite B1. exact HP. }
      destruct (IH _ result r A B HB2 HP2 HR) as (new & -> & PN & LN & _ & AN).
      cbn [length] in LN.
      exists new. split; [reflexivity|]. split; [exact PN|]. split; [cbn [length]; lia|].
      split; [intros e0 rest0 X _; injection X as <- <-; lia|exact AN].
    + apply (EMIT r HR). right. split; [exact Oe|].
      destruct (Z_lt_le_dec 0 (circ e)) as [G|G]; [|exact G].
      apply nn_should_flip_circ in G. congruence.
Qed.
End Loop.

(* ================================================================================================ *)
(* PART 3.  natural_neighbor_edges: the ring                                                         *)
(* ================================================================================================ *)

Lemma strictly_between_sym : forall a b c : pnt, strictly_between a b c = true -> strictly_between b a c = true.
Proof.
  intros a b c H. apply strictly_between_spec in H. apply strictly_between_spec.
  destruct H as (C & B1 & B2).
  assert (E1 : orient b a c = (- orient a b c)%Z) by apply orient_swap.
  assert (E2 : dot b a c = (dist2 a b - dot a b c)%Z) by geom_ring.
  assert (E3 : dist2 b a = dist2 a b) by apply dist2_sym.
  rewrite E1, E2, E3. lia.
Qed.

(* every inner face has no vertex strictly inside its circumcircle, read through any of its half-edges *)
Definition EdgeDelaunay (pts : list pnt) (d : dcel) : Prop :=
  forall x v, x < length (d_hedges d) -> inner d x -> v < length (d_verts d) ->
    (incircle (vpos pts (apex d x)) (vpos pts (e_origin d x)) (vpos pts (e_to d x)) (vpos pts v) <= 0)%Z.

Lemma face_tri_adj_incircle : forall pts d f a z, f_adjacent d f = Some a ->
  incircle (tri_a (obs_of_dcel d) pts f) (tri_b (obs_of_dcel d) pts f) (tri_c (obs_of_dcel d) pts f) z =
  incircle (vpos pts (e_origin d a)) (vpos pts (e_origin d (e_next d a)))
           (vpos pts (e_origin d (e_next d (e_next d a)))) z.
Proof.
  intros pts d f a z Ha. unfold tri_a, tri_b, tri_c, face_tri.
  rewrite obs_adj, Ha. reflexivity.
Qed.

(* the in-circle determinant of the face of x, as Query/Voronoi.v reads it from the face's adjacent edge, is the one read through x *)
Lemma face_tri_edge_incircle : forall pts d x z, DW d -> x < length (d_hedges d) -> inner d x ->
  incircle (tri_a (obs_of_dcel d) pts (e_face d x)) (tri_b (obs_of_dcel d) pts (e_face d x))
           (tri_c (obs_of_dcel d) pts (e_face d x)) z =
  incircle (vpos pts (apex d x)) (vpos pts (e_origin d x)) (vpos pts (e_to d x)) z.
Proof.
  intros pts d x z W Hx Ix.
  destruct (dw_tri d W x Hx Ix) as (_ & a & Ha & Ea).
  pose proof (dw_face_lt d W x Hx) as Lf.
  assert (La : a < length (d_hedges d)) by (apply (dw_adj_rng d W (e_face d x) Lf a Ha)).
  assert (Fa : e_face d a = e_face d x).
  { pose proof (dw_fptr d W (e_face d x) Lf) as Q. rewrite Ha in Q. exact Q. }
  assert (Ia : inner d a) by (unfold inner; rewrite Fa; exact Ix).
  rewrite (face_tri_adj_incircle pts d _ a z Ha).
  destruct (dw_tri_facts d a W La Ia) as (_ & _ & A1 & A2 & A3 & A4 & _ & _ & _ & _ & _ & B1 & B2 & B3).
  unfold apex, e_to, e_rev. rewrite A1.
  destruct Ea as [-> | [-> | ->]].
  - rewrite <- B1. symmetry. apply incircle_cyclic'.
  - rewrite A3, B2. reflexivity.
  - rewrite A1, A4, B3. symmetry. apply incircle_cyclic.
Qed.

Lemma delaunay_edge : forall pts d, DW d -> Delaunay (obs_of_dcel d) pts -> EdgeDelaunay pts d.
Proof.
  intros pts d W HD x v Hx Ix Hv.
  rewrite <- (face_tri_edge_incircle pts d x (vpos pts v) W Hx Ix).
  apply HD.
  - unfold inner_face. rewrite obs_nF. pose proof (dw_face_lt d W x Hx). unfold inner in Ix. lia.
  - unfold vertex. rewrite obs_nV. exact Hv.
Qed.

Section Ring.
Variable pts : list pnt.
Variable fuel : nat.
Variable d : dcel.
Variable q : pnt.
Notation P := (vpos pts).
Notation n := (length (d_hedges d)).
Notation osd := (osd pts d q).
Notation Inside := (Inside pts d q).
Notation Outside := (Outside pts d q).
Notation circ := (circ pts d q).

Hypothesis W : DW d.
Hypothesis EC : EdgesCcw pts d.

(* the exact location specification, through the DCEL: q strictly inside inner face f / in the relative interior of half-edge e *)
Definition LocFace (f : nat) : Prop :=
  exists a, f_adjacent d f = Some a /\ a < n /\ inner d a /\
            (0 < osd a)%Z /\ (0 < osd (e_next d a))%Z /\ (0 < osd (e_prev d a))%Z.
Definition LocEdge (e : nat) : Prop :=
  e < n /\ strictly_between (P (e_origin d e)) (P (e_to d e)) q = true.

(* a non-empty closed path of half-edges *)
Definition closed_ring (l : list nat) : Prop := l <> [] /\ exists v, is_path d l v v.

(* consecutive ring edges are chained, and the last leads back to the first *)
Lemma closed_ring_chained : forall l, closed_ring l ->
  chained d l /\ e_to d (last l 0) = e_origin d (hd 0 l).
Proof.
  intros l (NE & v & HP). split; [exact (is_path_chained d l v v HP)|].
  destruct (is_path_ends d l v v NE HP) as (E1 & E2). congruence.
Qed.

Lemma inside_face_circ : forall a, a < n -> inner d a ->
  (0 < osd a)%Z -> (0 < osd (e_next d a))%Z -> (0 < osd (e_prev d a))%Z -> (0 < circ a)%Z.
Proof.
  intros a Ha Ia L0 L1 L2. unfold NatNeighborProofs.circ.
  destruct (dw_tri_facts d a W Ha Ia) as (_ & _ & _ & _ & _ & _ & _ & _ & _ & _ & _ & B1 & B2 & B3).
  unfold LocateProofs.osd in L0, L1, L2. unfold e_to, e_rev in *. rewrite B2 in L1. rewrite B3 in L2. rewrite B1 in L1.
  unfold apex. apply inside_triangle_incircle; assumption.
Qed.

Lemma on_edge_circ : forall e, e < n -> inner d e ->
  strictly_between (P (e_origin d e)) (P (e_to d e)) q = true -> (0 < circ e)%Z.
Proof.
  intros e He Ie SB. unfold NatNeighborProofs.circ.
  pose proof (EC e He Ie) as T. unfold tri_orient in T. rewrite (dw_org_next d W e He) in T.
  unfold apex, e_to, e_rev in *.
  rewrite incircle_cyclic'. apply on_side_incircle; assumption.
Qed.

Theorem nn_edges_face_ring : forall f l,
  LocFace f -> natural_neighbor_edges pts fuel d q (LsFace f) = Some l ->
  closed_ring l /\ 3 <= length l /\ forall x, In x l -> x < n /\ Inside x /\ Outside x.
Proof.
  intros f l (a & Ha & La & Ia & L0 & L1 & L2) HR.
  unfold natural_neighbor_edges in HR. rewrite Ha in HR. unfold inspect_flips in HR.
  destruct (dw_tri_facts d a W La Ia) as (Ln & Lp & A1 & A2 & A3 & A4 & F1 & F2 & _ & _ & _ & B1 & B2 & B3).
  pose proof (inside_face_circ a La Ia L0 L1 L2) as C0.
  assert (In0 : Inside a) by (split; [exact La|split; [exact Ia|exact C0]]).
  assert (In1 : Inside (e_next d a)).
  { split; [exact Ln|]. split; [apply (dw_inner_next d W a La Ia)|]. rewrite (circ_next pts d q W a La Ia). exact C0. }
  assert (In2 : Inside (e_prev d a)).
  { split; [exact Lp|]. split; [apply (dw_inner_prev d W a La Ia)|]. rewrite (circ_prev pts d q W a La Ia). exact C0. }
  assert (BUF : forall x, x < n -> Inside x -> forall b, In b [e_rev x] -> b < n /\ Inside (e_rev b)).
  { intros x Hx Ix b [<-|[]]. split; [apply (dw_rev_lt d W x Hx)|]. unfold e_rev. rewrite rev_rev. exact Ix. }
  assert (PTH : forall x, is_path d [e_rev x] (e_to d x) (e_origin d x)).
  { intros x. cbn [is_path]. split; [reflexivity|]. apply e_to_rev. }
  destruct (inspect_loop pts d q fuel [e_rev (e_next d a)] []) as [r1|] eqn:R1; [|discriminate].
  destruct (inspect_loop pts d q fuel [e_rev a] r1) as [r2|] eqn:R2; [|discriminate].
  destruct (inspect_loop_spec pts d q W EC fuel _ _ _ _ _ (BUF _ Ln In1) (PTH _) R1) as (n1 & -> & P1 & NE1 & NF1 & Q1).
  destruct (inspect_loop_spec pts d q W EC fuel _ _ _ _ _ (BUF _ La In0) (PTH _) R2) as (n2 & -> & P2 & NE2 & NF2 & Q2).
  destruct (inspect_loop_spec pts d q W EC fuel _ _ _ _ _ (BUF _ Lp In2) (PTH _) HR) as (n3 & -> & P3 & NE3 & NF3 & Q3).
  rewrite app_nil_r in *.
  cbn [length] in NE1, NE2, NE3.
  split; [|split].
  - split.
    + intros X. apply app_eq_nil in X. destruct X as (X & _). subst n3. cbn [length] in NE3. lia.
    + exists (e_origin d (e_prev d a)).
      apply (is_path_app d n3 (n2 ++ n1) _ (e_to d (e_prev d a)) _ P3).
      unfold e_to, e_rev in *. rewrite B3. rewrite B3 in P3.
      apply (is_path_app d n2 n1 _ (e_origin d (rev a)) _ P2).
      rewrite <- B1. rewrite B2 in P1. exact P1.
  - rewrite !app_length. lia.
  - intros x Hx. apply in_app_or in Hx. destruct Hx as [Hx|Hx]; [apply Q3; exact Hx|].
    apply in_app_or in Hx. destruct Hx as [Hx|Hx]; [apply Q2; exact Hx|apply Q1; exact Hx].
Qed.

Theorem nn_edges_inner_edge_ring : forall e l,
  LocEdge e -> inner d e -> inner d (e_rev e) ->
  natural_neighbor_edges pts fuel d q (LsEdge e) = Some l ->
  closed_ring l /\ 4 <= length l /\ forall x, In x l -> x < n /\ Inside x /\ Outside x.
Proof.
  intros e l (He & SB) Ie Ir HR.
  unfold natural_neighbor_edges in HR.
  apply (is_outer_false_iff d) in Ie. apply (is_outer_false_iff d) in Ir. rewrite Ie, Ir in HR. cbn [orb] in HR.
  apply (is_outer_false_iff d) in Ie. apply (is_outer_false_iff d) in Ir.
  unfold inspect_flips in HR.
  pose proof (dw_rev_lt d W e He) as Hr.
  assert (In0 : Inside e) by (split; [exact He|split; [exact Ie|apply (on_edge_circ e He Ie SB)]]).
  assert (In1 : Inside (e_rev e)).
  { split; [exact Hr|]. split; [exact Ir|]. apply (on_edge_circ _ Hr Ir).
    rewrite e_to_rev, e_origin_rev. apply strictly_between_sym. exact SB. }
  destruct (inspect_loop pts d q fuel [e] []) as [r1|] eqn:R1; [|discriminate].
  assert (B1 : forall b, In b [e] -> b < n /\ Inside (e_rev b)) by (intros b [<-|[]]; split; assumption).
  assert (B2 : forall b, In b [e_rev e] -> b < n /\ Inside (e_rev b)).
  { intros b [<-|[]]. split; [exact Hr|]. unfold e_rev. rewrite rev_rev. exact In0. }
  destruct (inspect_loop_spec pts d q W EC fuel _ _ _ _ _ B1 (is_path_single d e) R1) as (n1 & -> & P1 & NE1 & NF1 & Q1).
  destruct (inspect_loop_spec pts d q W EC fuel _ _ _ _ _ B2 (is_path_single d (e_rev e)) HR) as (n2 & -> & P2 & NE2 & NF2 & Q2).
  rewrite app_nil_r in *. rewrite e_to_rev, e_origin_rev in P2.
  pose proof (NF1 e [] eq_refl In0) as G1. pose proof (NF2 (e_rev e) [] eq_refl In1) as G2. cbn [length] in G1, G2.
  split; [|split].
  - split.
    + intros X. apply app_eq_nil in X. destruct X as (X & _). subst n2. cbn [length] in G2. lia.
    + exists (e_origin d e). apply (is_path_app d n2 n1 _ (e_to d e) _ P2 P1).
  - rewrite app_length. lia.
  - intros x Hx. apply in_app_or in Hx. destruct Hx as [Hx|Hx]; [apply Q2; exact Hx|apply Q1; exact Hx].
Qed.

(* on a hull edge the "ring" is the edge and its twin, in this order *)
Theorem nn_edges_hull_edge : forall e l,
  (outer d e \/ outer d (e_rev e)) ->
  natural_neighbor_edges pts fuel d q (LsEdge e) = Some l -> l = [e; e_rev e] /\ closed_ring l.
Proof.
  intros e l HO HR. unfold natural_neighbor_edges in HR.
  assert (E : is_outer d e || is_outer d (e_rev e) = true).
  { apply orb_true_iff. destruct HO as [H|H]; [left|right]; apply is_outer_true_iff; exact H. }
  rewrite E in HR. injection HR as <-. split; [reflexivity|]. split; [discriminate|].
  exists (e_origin d e). cbn [is_path]. rewrite e_to_rev. repeat split; reflexivity.
Qed.

(* vertices, and positions off the triangulation: one placeholder edge / nothing *)
Theorem nn_edges_vertex : forall v l,
  natural_neighbor_edges pts fuel d q (LsVertex v) = Some l ->
  exists e, l = [e] /\ (v < length (d_verts d) -> n <> 0 -> e < n /\ e_origin d e = v).
Proof.
  intros v l HR. cbn [natural_neighbor_edges] in HR. injection HR as <-.
  eexists. split; [reflexivity|]. intros Hv Hn.
  pose proof (dw_vptr d W v Hv) as VP. destruct (v_out_edge d v) as [e|] eqn:E; [|contradiction].
  split; [exact (dw_vout_rng d W v Hv e E)|exact VP].
Qed.
Theorem nn_edges_off : forall loc l,
  (match loc with LsOutside _ | LsNoTri => True | _ => False end) ->
  natural_neighbor_edges pts fuel d q loc = Some l -> l = [].
Proof. intros [v|e|f|e|] l H HR; try contradiction; cbn [natural_neighbor_edges] in HR; congruence. Qed.

(* ---- the ring is counter-clockwise around q ---- *)
Hypothesis ED : EdgeDelaunay pts d.
(* q strictly inside the convex hull: strictly right of every half-edge of the outer face *)
Hypothesis QH : forall e, e < n -> outer d e -> (osd e < 0)%Z.

Lemma ring_edge_left : forall x, x < n -> Inside x -> Outside x -> (0 < osd x)%Z.
Proof.
  intros x Hx (_ & Ix & Cx) (Hr & [Ox | (Ir & Cr)]).
  - pose proof (QH _ Hr Ox) as Q. unfold e_rev in Q. rewrite (osd_rev pts d q x) in Q. lia.
  - unfold LocateProofs.osd.
    pose proof (EC x Hx Ix) as T1. unfold tri_orient in T1. rewrite (dw_org_next d W x Hx) in T1.
    pose proof (EC _ Hr Ir) as T2. unfold tri_orient in T2. rewrite (dw_org_next d W _ Hr) in T2.
    unfold e_rev in T2. rewrite rev_rev in T2.
    pose proof (ED x (apex d (e_rev x)) Hx Ix) as DL.
    assert (Hap : apex d (e_rev x) < length (d_verts d)).
    { unfold apex. apply (dw_org_lt d W). apply (dw_prev_lt d W). exact Hr. }
    specialize (DL Hap).
    unfold NatNeighborProofs.circ in Cx, Cr. unfold e_to, e_rev in *. rewrite rev_rev in Cr.
    unfold apex in *.
    apply (chord_left _ _ (P (e_origin d (e_prev d x))) (P (e_origin d (e_prev d (rev x)))) q).
    + exact T1.
    + rewrite orient_swap. lia.
    + rewrite <- incircle_cyclic'. exact DL.
    + rewrite <- incircle_cyclic'. exact Cx.
    + rewrite <- incircle_cyclic'. exact Cr.
Qed.

Theorem nn_ring_ccw_around_q : forall loc l,
  (match loc with
   | LsFace f => LocFace f
   | LsEdge e => LocEdge e /\ inner d e /\ inner d (e_rev e)
   | _ => False end) ->
  natural_neighbor_edges pts fuel d q loc = Some l ->
  closed_ring l /\ forall x, In x l -> (0 < osd x)%Z.
Proof.
  intros [v|e|f|e|] l HL HR; try contradiction.
  - destruct HL as (LE & Ie & Ir).
    destruct (nn_edges_inner_edge_ring e l LE Ie Ir HR) as (CR & _ & Q). split; [exact CR|].
    intros x Hx. destruct (Q x Hx) as (A & B & C). apply ring_edge_left; assumption.
  - destruct (nn_edges_face_ring f l HL HR) as (CR & _ & Q). split; [exact CR|].
    intros x Hx. destruct (Q x Hx) as (A & B & C). apply ring_edge_left; assumption.
Qed.
End Ring.

(* ================================================================================================ *)
(* PART 4.  link with the specification of Query/Voronoi.v                                           *)
(* ================================================================================================ *)
Section Link.
Variable pts : list pnt.
Variable d : dcel.
Variable q : pnt.
Notation n := (length (d_hedges d)).
Notation s := (obs_of_dcel d).
Hypothesis W : DW d.

Lemma inside_conflict : forall x, Inside pts d q x -> In (e_face d x) (conflict_faces s pts q).
Proof.
  intros x (Hx & Ix & Cx). apply conflict_faces_spec. split.
  - unfold inner_face. rewrite obs_nF. pose proof (dw_face_lt d W x Hx). unfold inner in Ix. lia.
  - rewrite (face_tri_edge_incircle pts d x q W Hx Ix). exact Cx.
Qed.

Lemma outside_not_conflict : forall x, Outside pts d q x -> ~ In (e_face d (e_rev x)) (conflict_faces s pts q).
Proof.
  intros x (Hr & [Ox | (Ir & Cr)]) HI; apply conflict_faces_spec in HI; destruct HI as (IF & HC).
  - unfold outer in Ox. unfold inner_face in IF. lia.
  - rewrite (face_tri_edge_incircle pts d _ q W Hr Ir) in HC. unfold circ in Cr. lia.
Qed.

Lemma origin_in_face_vertices : forall x, x < n -> inner d x -> In (e_origin d x) (face_vertices s (e_face d x)).
Proof.
  intros x Hx Ix. destruct (dw_tri d W x Hx Ix) as (_ & a & Ha & Ea).
  unfold face_vertices. rewrite obs_adj, Ha. rewrite !obs_org, !obs_next.
  destruct Ea as [-> | [-> | ->]]; cbn [In]; auto.
Qed.

Lemma inside_origin_natural : forall x, Inside pts d q x -> In (e_origin d x) (natural_neighbours s pts q).
Proof.
  intros x HI. pose proof (inside_conflict x HI) as HC. destruct HI as (Hx & Ix & _).
  unfold natural_neighbours. apply nodup_In. apply in_flat_map.
  exists (e_face d x). split; [exact HC|apply origin_in_face_vertices; assumption].
Qed.
End Link.

(* the main statement about the ring, for a location that satisfies the exact specification (inner face / inner edge) *)
Theorem nn_ring_main_partial : forall pts fuel d q loc l,
  DW d -> EdgesCcw pts d ->
  (match loc with
   | LsFace f => LocFace pts d q f
   | LsEdge e => LocEdge pts d q e /\ inner d e /\ inner d (e_rev e)
   | _ => False end) ->
  natural_neighbor_edges pts fuel d q loc = Some l ->
  (* a closed ring of at least three directed edges: to(e_i) = from(e_{i+1}), the last leads back to the first *)
  closed_ring d l /\ chained d l /\ e_to d (last l 0) = e_origin d (hd 0 l) /\ 3 <= length l /\
  forall x, In x l ->
    x < length (d_hedges d) /\
    (* the face on the left of a ring edge is in conflict with q, the face on its right is the outer face or not in conflict *)
    In (e_face d x) (conflict_faces (obs_of_dcel d) pts q) /\
    ~ In (e_face d (e_rev x)) (conflict_faces (obs_of_dcel d) pts q) /\
    (* every ring vertex is a natural neighbour in the sense of the specification *)
    In (e_origin d x) (natural_neighbours (obs_of_dcel d) pts q).
Proof.
  intros pts fuel d q loc l W EC HL HR.
  assert (X : closed_ring d l /\ 3 <= length l /\
              forall x, In x l -> x < length (d_hedges d) /\ Inside pts d q x /\ Outside pts d q x).
  { destruct loc as [v|e|f|e|]; try contradiction.
    - destruct HL as (LE & Ie & Ir).
      destruct (nn_edges_inner_edge_ring pts fuel d q W EC e l LE Ie Ir HR) as (CR & L4 & Q).
      split; [exact CR|]. split; [lia|exact Q].
    - exact (nn_edges_face_ring pts fuel d q W EC f l HL HR). }
  destruct X as (CR & L3 & Q).
  destruct (closed_ring_chained d l CR) as (CH & CL).
  split; [exact CR|]. split; [exact CH|]. split; [exact CL|]. split; [exact L3|].
  intros x Hx. destruct (Q x Hx) as (A & B & C).
  split; [exact A|]. split; [apply inside_conflict; assumption|].
  split; [apply outside_not_conflict; assumption|apply inside_origin_natural; assumption].
Qed.

(* ================================================================================================ *)
(* PART 5.  the vertex lists of the two front ends                                                   *)
(* ================================================================================================ *)
Lemma nn_outer_loop_map : forall fuel d nns last_edge vs,
  nn_outer_loop fuel d nns last_edge = Some vs -> vs = map (e_origin d) nns.
Proof.
  intros fuel d. induction nns as [|x t IH]; intros last_edge vs H; cbn [nn_outer_loop] in H.
  - injection H as <-. reflexivity.
  - destruct (is_outer d x); [discriminate|].
    destruct (nn_polygon_loop d fuel last_edge x); [|discriminate].
    destruct (nn_outer_loop fuel d t x) as [r|] eqn:E; [|discriminate].
    injection H as <-. cbn [map]. f_equal. exact (IH x r E).
Qed.

(* whenever NaturalNeighbor::get_weights returns (no panic, fuel left), its vertices are the origins of the ring edges, in ring order;
   the only exception is the single vertex of a triangulation without edges *)
Theorem nn_weight_vertices_origins : forall pts fuel d q loc vs,
  nn_weight_vertices pts fuel d q loc = Some vs ->
  exists l, natural_neighbor_edges pts fuel d q loc = Some l /\
            (vs = map (e_origin d) l \/ (length l = 1 /\ num_directed_edges d = 0 /\ vs = [0])).
Proof.
  intros pts fuel d q loc vs H. unfold nn_weight_vertices in H.
  destruct (natural_neighbor_edges pts fuel d q loc) as [l|]; [|discriminate].
  exists l. split; [reflexivity|].
  destruct l as [|e0 [|e1 [|e2 t]]]; cbn [nn_vertices_of_edges] in H.
  - injection H as <-. left. reflexivity.
  - destruct (num_directed_edges d =? 0) eqn:E; injection H as <-.
    + right. apply Nat.eqb_eq in E. auto.
    + left. reflexivity.
  - injection H as <-. left. reflexivity.
  - left. exact (nn_outer_loop_map fuel d _ _ vs H).
Qed.

(* Barycentric::get_weights: the vertices of the located element, in the order of the handle API *)
Theorem bary_weight_vertices_spec : forall d loc vs,
  DW d -> bary_weight_vertices d loc = Some vs ->
  match loc with
  | LsVertex v => vs = [v]
  | LsEdge e => vs = [org (obs_of_dcel d) e; dest (obs_of_dcel d) e]
  | LsFace f => f < length (d_faces d) -> f <> 0 ->
                length vs = 3 /\ forall v, In v vs <-> In v (face_vertices (obs_of_dcel d) f)
  | _ => vs = []
  end.
Proof.
  intros d [v|e|f|e|] vs W H; cbn [bary_weight_vertices] in H; try (injection H as <-; reflexivity).
  intros Hf Nf. pose proof (dw_fptr d W f Hf) as FP.
  destruct (f_adjacent d f) as [a|] eqn:Ha; [|discriminate]. injection H as <-.
  pose proof (dw_adj_rng d W f Hf a Ha) as La.
  assert (Ia : inner d a) by (unfold inner; rewrite FP; exact Nf).
  split; [reflexivity|]. intros v. unfold face_vertices. rewrite obs_adj, Ha, !obs_org, !obs_next.
  rewrite (dw_next_next d W a La Ia). cbn [In]. tauto.
Qed.

(* ================================================================================================ *)
(* PART 6.  through the locate model (Tri/Locate.v)                                                  *)
(* ================================================================================================ *)
Lemma sound_face_LocFace : forall pts d q f, DW d -> EdgesCcw pts d ->
  Sound pts d q (ROnFace f) -> LocFace pts d q f.
Proof.
  intros pts d q f W EC (Nf & e & He & Fe & L0 & L1 & L2). subst f.
  assert (Ie : inner d e) by exact Nf.
  pose proof (dw_face_lt d W e He) as Lf.
  pose proof (dw_fptr d W (e_face d e) Lf) as Q.
  destruct (f_adjacent d (e_face d e)) as [a|] eqn:Ha; [|unfold inner in Ie; lia].
  destruct (tri_view pts d W EC e He Ie) as (T1 & T2 & T3 & _).
  assert (M0 : (0 < osd pts d q e)%Z) by exact L0.
  assert (M1 : (0 < osd pts d q (e_next d e))%Z) by (unfold osd; rewrite T2, <- T1; exact L1).
  assert (M2 : (0 < osd pts d q (e_prev d e))%Z) by (unfold osd; rewrite T3; exact L2).
  destruct (tri_all pts d q W e a He Ie M0 M1 M2 Ha) as (La & Ia & K0 & K1 & K2).
  exists a. repeat split; assumption.
Qed.

Lemma sound_edge_LocEdge : forall pts d q e, Sound pts d q (ROnEdge e) -> LocEdge pts d q e.
Proof. intros pts d q e (He & _ & _ & _ & SB). split; assumption. Qed.

(* the ring computed for an answer of the locate model, in a well-formed counter-clockwise triangulation *)
Theorem nn_ring_of_locate_partial : forall pts fuel d q closest loc l,
  DWf d -> FacesCcw (obs_of_dcel d) pts ->
  lstart_of_lres (locate_from_closest pts d q closest) = Some loc ->
  natural_neighbor_edges pts fuel d q loc = Some l ->
  match loc with
  | LsVertex v => exists e, l = [e] /\ vpos pts v = q
  | LsEdge e =>
      if is_outer d e || is_outer d (e_rev e) then l = [e; e_rev e]
      else closed_ring d l /\ 4 <= length l /\
           forall x, In x l ->
             In (e_face d x) (conflict_faces (obs_of_dcel d) pts q) /\
             ~ In (e_face d (e_rev x)) (conflict_faces (obs_of_dcel d) pts q) /\
             In (e_origin d x) (natural_neighbours (obs_of_dcel d) pts q)
  | LsFace f =>
      closed_ring d l /\ 3 <= length l /\
      forall x, In x l ->
        In (e_face d x) (conflict_faces (obs_of_dcel d) pts q) /\
        ~ In (e_face d (e_rev x)) (conflict_faces (obs_of_dcel d) pts q) /\
        In (e_origin d x) (natural_neighbours (obs_of_dcel d) pts q)
  | _ => l = []
  end.
Proof.
  intros pts fuel d q closest loc l Wf FC HL HR.
  pose proof (locate_from_closest_sound pts d q closest _ Wf FC eq_refl) as S.
  apply DWf_DW in Wf. pose proof (faces_ccw_edges pts d Wf FC) as EC.
  destruct (locate_from_closest pts d q closest) as [v|e|f|e|] eqn:E; cbn [lstart_of_lres] in HL;
    try discriminate; injection HL as <-.
  - destruct (nn_edges_vertex pts fuel d q Wf v l HR) as (e & -> & _). exists e. split; [reflexivity|]. apply S.
  - destruct (is_outer d e || is_outer d (e_rev e)) eqn:HO.
    + unfold natural_neighbor_edges in HR. rewrite HO in HR. congruence.
    + apply orb_false_iff in HO. destruct HO as (O1 & O2).
      apply (is_outer_false_iff d) in O1. apply (is_outer_false_iff d) in O2.
      pose proof (sound_edge_LocEdge pts d q e S) as LE.
      destruct (nn_edges_inner_edge_ring pts fuel d q Wf EC e l LE O1 O2 HR) as (CR & L4 & Q).
      split; [exact CR|]. split; [exact L4|]. intros x Hx. destruct (Q x Hx) as (A & B & C).
      split; [apply inside_conflict; assumption|].
      split; [apply outside_not_conflict; assumption|apply inside_origin_natural; assumption].
  - pose proof (sound_face_LocFace pts d q f Wf EC S) as LF.
    destruct (nn_edges_face_ring pts fuel d q Wf EC f l LF HR) as (CR & L3 & Q).
    split; [exact CR|]. split; [exact L3|]. intros x Hx. destruct (Q x Hx) as (A & B & C).
    split; [apply inside_conflict; assumption|].
    split; [apply outside_not_conflict; assumption|apply inside_origin_natural; assumption].
  - cbn [natural_neighbor_edges] in HR. congruence.
Qed.

(* in a Delaunay triangulation, for a query strictly inside the convex hull, the ring is counter-clockwise around the query:
   the query lies strictly to the left of every ring edge *)
Theorem nn_ring_ccw_of_locate : forall pts fuel d q closest loc l,
  DWf d -> FacesCcw (obs_of_dcel d) pts -> Delaunay (obs_of_dcel d) pts ->
  (forall e, e < length (d_hedges d) -> outer d e -> (osd pts d q e < 0)%Z) ->
  lstart_of_lres (locate_from_closest pts d q closest) = Some loc ->
  (match loc with LsFace _ => True | LsEdge e => inner d e /\ inner d (e_rev e) | _ => False end) ->
  natural_neighbor_edges pts fuel d q loc = Some l ->
  closed_ring d l /\
  forall x, In x l -> (0 < orient (vpos pts (e_origin d x)) (vpos pts (e_to d x)) q)%Z.
Proof.
  intros pts fuel d q closest loc l Wf FC HD QH HL HK HR.
  pose proof (locate_from_closest_sound pts d q closest _ Wf FC eq_refl) as S.
  apply DWf_DW in Wf. pose proof (faces_ccw_edges pts d Wf FC) as EC.
  pose proof (delaunay_edge pts d Wf HD) as ED.
  apply (nn_ring_ccw_around_q pts fuel d q Wf EC ED QH loc l); [|exact HR].
  destruct (locate_from_closest pts d q closest) as [v|e|f|e|] eqn:E; cbn [lstart_of_lres] in HL;
    try discriminate; injection HL as <-; try contradiction.
  - split; [exact (sound_edge_LocEdge pts d q e S)|exact HK].
  - exact (sound_face_LocFace pts d q f Wf EC S).
Qed.
