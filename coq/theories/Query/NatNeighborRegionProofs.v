(* Query/NatNeighborRegionProofs.v -- the region explored by the simulated insertion of Query/NatNeighbor.v (property C19, task M7;
   continuation of Query/NatNeighborProofs.v).

   PART 1  the loop, with the list of FLIPPED half-edges made explicit (one per explored face, the edge through which the face was
           entered): every explored face is in conflict with q; each of its two other sides is a ring edge or leads into another
           explored face; every vertex of an explored face is an end point of a ring edge
   PART 2  the explored region of natural_neighbor_edges (location in a face / on an inner edge): it contains the located face(s), is
           closed under crossing a non-ring side, consists of conflict faces only, and every conflict face that can be reached from the
           located face(s) through conflict faces belongs to it
   PART 3  the converse inclusion, conditionally: IF every conflict face is reachable from the located face through conflict faces
           (connectedness of the conflict region: true for Delaunay triangulations, NOT proved here), THEN the set of ring vertices is
           exactly `natural_neighbours q` of Query/Voronoi.v (..._partial) *)
From Coq Require Import ZArith List Bool Arith Lia.
From SpadeV Require Import Geom.Pred Geom.Lemmas Obs.State Obs.Spec Obs.SpecProp Obs.Query Query.Voronoi Query.ViewProp Query.ViewProofs
  Dcel.Raw Dcel.WfCore Dcel.ProofsFlip Query.Hull Tri.Legalize Tri.Insert Tri.LegalizeProofs Tri.Locate Tri.LocateProofs Tri.LineIter
  Query.NatNeighbor Query.NatNeighborProofs.
Import ListNotations.

Section Region.
Variable pts : list pnt.
Variable d : dcel.
Variable q : pnt.
Notation P := (vpos pts).
Notation n := (length (d_hedges d)).
Notation s := (obs_of_dcel d).
Notation Inside := (Inside pts d q).
Notation Outside := (Outside pts d q).
Notation circ := (circ pts d q).
Hypothesis W : DW d.
Hypothesis EC : EdgesCcw pts d.

(* v is an end point of one of the edges of l *)
Definition PV (l : list nat) (v : nat) : Prop := In v (map (e_origin d) l) \/ In v (map (e_to d) l).

Lemma PV_app_l : forall l1 l2 v, PV l1 v -> PV (l1 ++ l2) v.
Proof. intros l1 l2 v [H|H]; [left|right]; rewrite map_app; apply in_or_app; left; exact H. Qed.
Lemma PV_app_r : forall l1 l2 v, PV l2 v -> PV (l1 ++ l2) v.
Proof. intros l1 l2 v [H|H]; [left|right]; rewrite map_app; apply in_or_app; right; exact H. Qed.

(* the clauses that describe one run of the loop: `new` = emitted edges, `fl` = flipped edges, for the buffer `buf` *)
Record Explored (buf new fl : list nat) : Prop := mkExplored {
  ex_buf : forall b, In b buf -> In (e_rev b) new \/ In b fl;
  ex_inside : forall e, In e fl -> e < n /\ Inside e;
  ex_sides : forall e, In e fl ->
      (In (e_prev d e) new \/ In (e_rev (e_prev d e)) fl) /\ (In (e_next d e) new \/ In (e_rev (e_next d e)) fl);
  ex_parent : forall e, In e fl -> In e buf \/ exists e', In e' fl /\ e_face d (e_rev e) = e_face d e';
  ex_buf_pv : forall b, In b buf -> PV new (e_origin d b) /\ PV new (e_to d b);
  ex_fl_pv : forall e, In e fl -> PV new (e_origin d e) /\ PV new (e_to d e) /\ PV new (apex d e)
}.

Lemma inspect_loop_region : forall k buffer result r,
  (forall b, In b buffer -> b < n) ->
  inspect_loop pts d q k buffer result = Some r ->
  exists new fl, r = new ++ result /\ Explored buffer new fl.
Proof.
  induction k as [|k IH]; intros buffer result r HB HR.
  - destruct buffer as [|e rest]; [|discriminate].
    cbn [inspect_loop] in HR. injection HR as <-. exists [], []. split; [reflexivity|].
    constructor; intros x [].
  - destruct buffer as [|e rest].
    { cbn [inspect_loop] in HR. injection HR as <-. exists [], []. split; [reflexivity|].
      constructor; intros x []. }
    cbn [inspect_loop] in HR.
    pose proof (HB e (or_introl eq_refl)) as He.
    assert (HB' : forall b, In b rest -> b < n) by (intros b Hb; apply HB; right; exact Hb).
    assert (EMIT : forall r', inspect_loop pts d q k rest (e_rev e :: result) = Some r' ->
                   exists new fl, r' = new ++ result /\ Explored (e :: rest) new fl).
    { intros r' HR'. destruct (IH rest (e_rev e :: result) r' HB' HR') as (new & fl & -> & X).
      exists (new ++ [e_rev e]), fl. split; [rewrite <- app_assoc; reflexivity|].
      destruct X as [X1 X2 X3 X4 X5 X6]. constructor.
      - intros b [<-|Hb]; [left; apply in_or_app; right; left; reflexivity|].
        destruct (X1 b Hb) as [H|H]; [left; apply in_or_app; left; exact H|right; exact H].
      - exact X2.
      - intros x Hx. destruct (X3 x Hx) as ([A|A] & [B|B]); split;
          try (left; apply in_or_app; left; assumption); try (right; assumption).
      - intros x Hx. destruct (X4 x Hx) as [A|A]; [left; right; exact A|right; exact A].
      - intros b [<-|Hb].
        + split; apply PV_app_r; [right|left]; cbn [map In]; left; [apply e_to_rev|reflexivity].
        + destruct (X5 b Hb) as (A & B). split; apply PV_app_l; assumption.
      - intros x Hx. destruct (X6 x Hx) as (A & B & C). repeat split; apply PV_app_l; assumption. }
    destruct (is_outer d e) eqn:Oe; [exact (EMIT r HR)|].
    apply (is_outer_false_iff d) in Oe.
    rewrite (nn_ccw_assert_true pts d W EC e He Oe) in HR. cbn [negb] in HR.
    destruct (nn_should_flip pts d q e) eqn:SF; [|exact (EMIT r HR)].
    apply nn_should_flip_circ in SF.
    destruct (dw_tri_facts d e W He Oe) as (Ln & Lp & A1 & A2 & A3 & A4 & F1 & F2 & _ & _ & _ & B1 & B2 & B3).
    assert (HB2 : forall b, In b (e_rev (e_prev d e) :: e_rev (e_next d e) :: rest) -> b < n).
    { intros b [<-|[<-|Hb]]; [apply (dw_rev_lt d W _ Lp)|apply (dw_rev_lt d W _ Ln)|apply HB'; exact Hb]. }
    destruct (IH _ result r HB2 HR) as (new & fl & -> & X).
    exists new, (e :: fl). split; [reflexivity|].
    destruct X as [X1 X2 X3 X4 X5 X6].
    assert (C1 : In (e_rev (e_prev d e)) (e_rev (e_prev d e) :: e_rev (e_next d e) :: rest)) by (left; reflexivity).
    assert (C2 : In (e_rev (e_next d e)) (e_rev (e_prev d e) :: e_rev (e_next d e) :: rest)) by (right; left; reflexivity).
    assert (PVe : PV new (e_origin d e) /\ PV new (e_to d e) /\ PV new (apex d e)).
    { destruct (X5 _ C1) as (P1 & P2). destruct (X5 _ C2) as (P3 & P4).
      rewrite e_origin_rev in P1, P3. rewrite e_to_rev in P2, P4. unfold e_to, e_rev in *. rewrite B3 in P1.
      split; [exact P1|]. split; [rewrite <- B1; exact P4|exact P2]. }
    constructor.
    + intros b [<-|Hb]; [right; left; reflexivity|].
      destruct (X1 b (or_intror (or_intror Hb))) as [H|H]; [left; exact H|right; right; exact H].
    + intros x [<-|Hx]; [|apply X2; exact Hx]. split; [exact He|]. split; [exact He|split; [exact Oe|exact SF]].
    + intros x [<-|Hx].
      * destruct (X1 _ C1) as [H1|H1]; destruct (X1 _ C2) as [H2|H2];
          unfold e_rev in H1, H2; rewrite ?rev_rev in H1; rewrite ?rev_rev in H2; split;
          try (left; assumption); try (right; right; assumption).
      * destruct (X3 x Hx) as ([A|A] & [B|B]); split; try (left; assumption); try (right; right; assumption).
    + intros x [<-|Hx]; [left; left; reflexivity|].
      destruct (X4 x Hx) as [[<-|[<-|A]]|(e' & A & B)].
      * right. exists e. split; [left; reflexivity|]. unfold e_rev. rewrite rev_rev. exact F2.
      * right. exists e. split; [left; reflexivity|]. unfold e_rev. rewrite rev_rev. exact F1.
      * left. right. exact A.
      * right. exists e'. split; [right; exact A|exact B].
    + intros b [<-|Hb]; [destruct PVe as (A & B & _); split; assumption|].
      apply X5. right. right. exact Hb.
    + intros x [<-|Hx]; [exact PVe|apply X6; exact Hx].
Qed.

(* monotonicity of the clauses in the emitted / flipped lists *)
Lemma Explored_weaken : forall buf new fl new' fl',
  Explored buf new fl -> (forall x, In x new -> In x new') -> (forall x, In x fl -> In x fl') ->
  (forall v, PV new v -> PV new' v) ->
  (forall b, In b buf -> In (e_rev b) new' \/ In b fl') /\
  (forall e, In e fl -> e < n /\ Inside e) /\
  (forall e, In e fl -> (In (e_prev d e) new' \/ In (e_rev (e_prev d e)) fl') /\ (In (e_next d e) new' \/ In (e_rev (e_next d e)) fl')) /\
  (forall e, In e fl -> In e buf \/ exists e', In e' fl' /\ e_face d (e_rev e) = e_face d e') /\
  (forall b, In b buf -> PV new' (e_origin d b) /\ PV new' (e_to d b)) /\
  (forall e, In e fl -> PV new' (e_origin d e) /\ PV new' (e_to d e) /\ PV new' (apex d e)).
Proof.
  intros buf new fl new' fl' [X1 X2 X3 X4 X5 X6] HN HF HP.
  split; [|split; [|split; [|split; [|split]]]].
  - intros b Hb. destruct (X1 b Hb) as [A|A]; [left; apply HN; exact A|right; apply HF; exact A].
  - exact X2.
  - intros e He. destruct (X3 e He) as (A & B). split.
    + destruct A as [A|A]; [left; apply HN; exact A|right; apply HF; exact A].
    + destruct B as [B|B]; [left; apply HN; exact B|right; apply HF; exact B].
  - intros e He. destruct (X4 e He) as [A|(e' & A & B)]; [left; exact A|right; exists e'; split; [apply HF; exact A|exact B]].
  - intros b Hb. destruct (X5 b Hb) as (A & B). split; apply HP; assumption.
  - intros e He. destruct (X6 e He) as (A & B & C). split; [|split]; apply HP; assumption.
Qed.

(* in a closed path every end point is an origin *)
Lemma is_path_to_origin : forall l a b v, is_path d l a b -> In v (map (e_to d) l) -> In v (map (e_origin d) l) \/ v = b.
Proof.
  induction l as [|e t IH]; intros a b v HP HI; [contradiction|].
  cbn [is_path] in HP. destruct HP as (_ & HP). cbn [map In] in HI |- *.
  destruct HI as [<-|HI].
  - destruct t as [|e' t']; [cbn [is_path] in HP; right; exact HP|].
    cbn [is_path] in HP. destruct HP as (E & _). left. right. left. exact E.
  - destruct (IH _ b v HP HI) as [A|A]; [left; right; exact A|right; exact A].
Qed.
Lemma closed_ring_PV_origin : forall l v, closed_ring d l -> PV l v -> In v (map (e_origin d) l).
Proof.
  intros l v (NE & a & HP) [H|H]; [exact H|].
  destruct (is_path_to_origin l a a v HP H) as [A|A]; [exact A|].
  subst v. destruct l as [|e t]; [congruence|]. cbn [is_path] in HP. left. apply HP.
Qed.

(* ---------------------------------------------------------------------------------------------- *)
(* PART 2.  the explored region                                                                    *)
(* ---------------------------------------------------------------------------------------------- *)
(* the properties of a ring `l` with the flipped edges `fl`, for start faces `start` *)
Record RegionOf (start : nat -> Prop) (l fl : list nat) : Prop := mkRegion {
  rg_inside : forall e, In e fl -> e < n /\ Inside e;
  rg_sides : forall e, In e fl ->
      (In (e_prev d e) l \/ In (e_rev (e_prev d e)) fl) /\ (In (e_next d e) l \/ In (e_rev (e_next d e)) fl);
  rg_parent : forall e, In e fl -> start (e_face d (e_rev e)) \/ exists e', In e' fl /\ e_face d (e_rev e) = e_face d e';
  rg_start_sides : forall x, x < n -> start (e_face d x) -> In x l \/ In (e_rev x) fl;
  rg_ring : forall x, In x l -> x < n /\ Inside x /\ Outside x;
  rg_fl_pv : forall e, In e fl -> PV l (e_origin d e) /\ PV l (e_to d e) /\ PV l (apex d e);
  rg_start_pv : forall x, x < n -> start (e_face d x) -> PV l (e_origin d x)
}.

(* faces of the region: the start faces and the faces entered by a flip *)
Definition in_region (start : nat -> Prop) (fl : list nat) (F : nat) : Prop :=
  start F \/ exists e, In e fl /\ e_face d e = F.

(* F can be reached from a start face by crossing half-edges into conflict faces *)
Inductive conflict_reach (start : nat -> Prop) : nat -> Prop :=
| cr_start : forall F, start F -> conflict_reach start F
| cr_step : forall x, x < n -> conflict_reach start (e_face d x) ->
    In (e_face d (e_rev x)) (conflict_faces s pts q) -> conflict_reach start (e_face d (e_rev x)).

Lemma region_complete : forall start l fl, RegionOf start l fl ->
  forall seed : nat -> Prop, (forall F, seed F -> in_region start fl F) ->
  forall F, conflict_reach seed F -> in_region start fl F.
Proof.
  intros start l fl [R1 R2 R3 R4 R5 R6 R7] seed HSeed F H. induction H as [F HS|x Hx H IH HC].
  - apply HSeed. exact HS.
  - (* crossing x out of a face of the region into a conflict face *)
    assert (NR : ~ In x l).
    { intros HI. destruct (R5 x HI) as (_ & _ & O). exact (outside_not_conflict pts d q W x O HC). }
    destruct IH as [HS|(e & He & Fe)].
    + destruct (R4 x Hx HS) as [A|A]; [contradiction|]. right. exists (e_rev x). split; [exact A|reflexivity].
    + destruct (R1 e He) as (Le & _ & Ie & _).
      destruct (dw_same_face d W e x Le Hx Ie (eq_sym Fe)) as [-> | [-> | ->]].
      * destruct (R3 e He) as [A|(e' & A & B)]; [left; exact A|right; exists e'; split; [exact A|symmetry; exact B]].
      * destruct (R2 e He) as (_ & [A|A]); [contradiction|]. right. exists (e_rev (e_next d e)). split; [exact A|reflexivity].
      * destruct (R2 e He) as ([A|A] & _); [contradiction|]. right. exists (e_rev (e_prev d e)). split; [exact A|reflexivity].
Qed.

Lemma region_conflict : forall start l fl, RegionOf start l fl ->
  forall e, In e fl -> In (e_face d e) (conflict_faces s pts q).
Proof. intros start l fl R e He. apply (inside_conflict pts d q W). apply (rg_inside _ _ _ R e He). Qed.

(* every vertex of a face of the region is the origin of a ring edge *)
Lemma region_vertices_on_ring : forall start l fl, RegionOf start l fl -> closed_ring d l ->
  forall F v, in_region start fl F -> F < length (d_faces d) -> F <> 0 -> In v (face_vertices s F) -> In v (map (e_origin d) l).
Proof.
  intros start l fl R CR F v HF LF NF Hv.
  apply (closed_ring_PV_origin l v CR).
  pose proof (dw_fptr d W F LF) as FP.
  unfold face_vertices in Hv. rewrite obs_adj in Hv.
  destruct (f_adjacent d F) as [a|] eqn:Ha; [|destruct FP; contradiction].
  rewrite !obs_org, !obs_next in Hv.
  pose proof (dw_adj_rng d W F LF a Ha) as La.
  assert (Ia : inner d a) by (unfold inner; rewrite FP; exact NF).
  destruct (dw_tri_facts d a W La Ia) as (Ln & Lp & A1 & A2 & A3 & A4 & F1 & F2 & _ & _ & _ & B1 & B2 & B3).
  rewrite A1 in Hv.
  destruct HF as [HS|(e & He & Fe)].
  - assert (S0 : start (e_face d a)) by (rewrite FP; exact HS).
    assert (S1 : start (e_face d (e_next d a))) by (rewrite F1; exact S0).
    assert (S2 : start (e_face d (e_prev d a))) by (rewrite F2; exact S0).
    destruct Hv as [<-|[<-|[<-|[]]]]; [apply (rg_start_pv _ _ _ R a La S0)|apply (rg_start_pv _ _ _ R _ Ln S1)|apply (rg_start_pv _ _ _ R _ Lp S2)].
  - destruct (rg_inside _ _ _ R e He) as (Le & _ & Ie & _).
    destruct (rg_fl_pv _ _ _ R e He) as (P1 & P2 & P3).
    assert (Fa : e_face d a = e_face d e) by congruence.
    destruct (dw_tri_facts d e W Le Ie) as (_ & _ & _ & _ & _ & _ & _ & _ & _ & _ & _ & C1 & C2 & C3).
    unfold apex, e_to, e_rev in *.
    destruct (dw_same_face d W e a Le La Ie Fa) as [E|[E|E]]; subst a.
    + destruct Hv as [<-|[<-|[<-|[]]]]; [exact P1|rewrite C1; exact P2|exact P3].
    + rewrite (dw_next_next d W e Le Ie), (dw_prev_next d W e Le) in Hv.
      destruct Hv as [<-|[<-|[<-|[]]]]; [rewrite C1; exact P2|exact P3|exact P1].
    + rewrite (dw_next_prev d W e Le), (dw_prev_prev d W e Le Ie) in Hv.
      destruct Hv as [<-|[<-|[<-|[]]]]; [exact P3|exact P1|rewrite C1; exact P2].
Qed.

(* two consecutive runs of the loop on the same result vector *)
Lemma Explored_combine : forall b1 n1 f1 b2 n2 f2,
  Explored b1 n1 f1 -> Explored b2 n2 f2 -> Explored (b1 ++ b2) (n2 ++ n1) (f1 ++ f2).
Proof.
  intros b1 n1 f1 b2 n2 f2 E1 E2.
  destruct (Explored_weaken b1 n1 f1 (n2 ++ n1) (f1 ++ f2) E1) as (A1 & A2 & A3 & A4 & A5 & A6).
  { intros x H. apply in_or_app. right. exact H. }
  { intros x H. apply in_or_app. left. exact H. }
  { intros v H. apply PV_app_r. exact H. }
  destruct (Explored_weaken b2 n2 f2 (n2 ++ n1) (f1 ++ f2) E2) as (B1 & B2 & B3 & B4 & B5 & B6).
  { intros x H. apply in_or_app. left. exact H. }
  { intros x H. apply in_or_app. right. exact H. }
  { intros v H. apply PV_app_l. exact H. }
  constructor.
  - intros b Hb. apply in_app_or in Hb. destruct Hb as [Hb|Hb]; [apply A1|apply B1]; exact Hb.
  - intros e He. apply in_app_or in He. destruct He as [He|He]; [apply A2|apply B2]; exact He.
  - intros e He. apply in_app_or in He. destruct He as [He|He]; [apply A3|apply B3]; exact He.
  - intros e He. apply in_app_or in He. destruct He as [He|He].
    + destruct (A4 e He) as [X|X]; [left; apply in_or_app; left; exact X|right; exact X].
    + destruct (B4 e He) as [X|X]; [left; apply in_or_app; right; exact X|right; exact X].
  - intros b Hb. apply in_app_or in Hb. destruct Hb as [Hb|Hb]; [apply A5|apply B5]; exact Hb.
  - intros e He. apply in_app_or in He. destruct He as [He|He]; [apply A6|apply B6]; exact He.
Qed.

Lemma region_of_explored : forall (start : nat -> Prop) buf l fl,
  Explored buf l fl ->
  (forall x, In x l -> x < n /\ Inside x /\ Outside x) ->
  (forall b, In b buf -> start (e_face d (e_rev b)) \/ exists e', In e' fl /\ e_face d (e_rev b) = e_face d e') ->
  (forall x, x < n -> start (e_face d x) -> In (e_rev x) buf) ->
  RegionOf start l fl.
Proof.
  intros start buf l fl [X1 X2 X3 X4 X5 X6] HRing HPar HStart. constructor.
  - exact X2.
  - exact X3.
  - intros e He. destruct (X4 e He) as [A|A]; [apply HPar; exact A|right; exact A].
  - intros x Hx HS. destruct (X1 _ (HStart x Hx HS)) as [A|A]; [left|right; exact A].
    unfold e_rev in A. rewrite rev_rev in A. exact A.
  - exact HRing.
  - exact X6.
  - intros x Hx HS. destruct (X5 _ (HStart x Hx HS)) as (_ & A). rewrite e_to_rev in A. exact A.
Qed.
End Region.

(* ---------------------------------------------------------------------------------------------- *)
(* PART 2 (continued).  the region explored by natural_neighbor_edges                              *)
(* ---------------------------------------------------------------------------------------------- *)
Theorem nn_region_face : forall pts fuel d q f l,
  DW d -> EdgesCcw pts d -> LocFace pts d q f ->
  natural_neighbor_edges pts fuel d q (LsFace f) = Some l ->
  exists fl, RegionOf pts d q (eq f) l fl.
Proof.
  intros pts fuel d q f l W EC LF HR.
  pose proof (nn_edges_face_ring pts fuel d q W EC f l LF HR) as (_ & _ & HRing).
  destruct LF as (a & Ha & La & Ia & L0 & L1 & L2).
  unfold natural_neighbor_edges in HR. rewrite Ha in HR. unfold inspect_flips in HR.
  destruct (dw_tri_facts d a W La Ia) as (Ln & Lp & A1 & A2 & A3 & A4 & F1 & F2 & _ & _ & _ & B1 & B2 & B3).
  pose proof (dw_face_lt d W a La) as Lf.
  assert (Fa : e_face d a = f).
  { pose proof (dw_adj_rng d W) as _. destruct (dw_tri d W a La Ia) as (_ & a' & Ha' & _).
    destruct (Nat.lt_ge_cases f (length (d_faces d))) as [Hf|Hf].
    - pose proof (dw_fptr d W f Hf) as Q. rewrite Ha in Q. exact Q.
    - unfold f_adjacent in Ha. rewrite nth_overflow in Ha by exact Hf. discriminate. }
  assert (BL : forall x, x < length (d_hedges d) -> forall b, In b [e_rev x] -> b < length (d_hedges d)).
  { intros x Hx b [<-|[]]. apply (dw_rev_lt d W x Hx). }
  destruct (inspect_loop pts d q fuel [e_rev (e_next d a)] []) as [r1|] eqn:R1; [|discriminate].
  destruct (inspect_loop pts d q fuel [e_rev a] r1) as [r2|] eqn:R2; [|discriminate].
  destruct (inspect_loop_region pts d q W EC fuel _ _ _ (BL _ Ln) R1) as (n1 & fl1 & -> & E1).
  destruct (inspect_loop_region pts d q W EC fuel _ _ _ (BL _ La) R2) as (n2 & fl2 & -> & E2).
  destruct (inspect_loop_region pts d q W EC fuel _ _ _ (BL _ Lp) HR) as (n3 & fl3 & -> & E3).
  rewrite app_nil_r in *.
  pose proof (Explored_combine pts d q _ _ _ _ _ _ (Explored_combine pts d q _ _ _ _ _ _ E1 E2) E3) as E.
  rewrite <- app_assoc in E. cbn [app] in E.
  exists ((fl1 ++ fl2) ++ fl3).
  apply (region_of_explored pts d q (eq f) _ _ _ E HRing).
  - intros b Hb. left. unfold e_rev in *. destruct Hb as [<-|[<-|[<-|[]]]]; rewrite rev_rev; congruence.
  - intros x Hx HS.
    assert (Fx : e_face d x = e_face d a) by congruence.
    destruct (dw_same_face d W a x La Hx Ia Fx) as [-> | [-> | ->]]; cbn [In]; auto.
Qed.

Theorem nn_region_inner_edge : forall pts fuel d q e l,
  DW d -> EdgesCcw pts d -> LocEdge pts d q e -> inner d e -> inner d (e_rev e) ->
  natural_neighbor_edges pts fuel d q (LsEdge e) = Some l ->
  exists fl, RegionOf pts d q (fun _ => False) l fl /\ In e fl /\ In (e_rev e) fl.
Proof.
  intros pts fuel d q e l W EC LE Ie Ir HR.
  pose proof (nn_edges_inner_edge_ring pts fuel d q W EC e l LE Ie Ir HR) as (_ & _ & HRing).
  destruct LE as (He & SB).
  pose proof (dw_rev_lt d W e He) as Hr.
  assert (In0 : Inside pts d q e).
  { split; [exact He|split; [exact Ie|apply (on_edge_circ pts d q W EC e He Ie SB)]]. }
  assert (In1 : Inside pts d q (e_rev e)).
  { split; [exact Hr|]. split; [exact Ir|]. apply (on_edge_circ pts d q W EC _ Hr Ir).
    rewrite e_to_rev, e_origin_rev. apply strictly_between_sym. exact SB. }
  unfold natural_neighbor_edges in HR.
  apply (is_outer_false_iff d) in Ie. apply (is_outer_false_iff d) in Ir. rewrite Ie, Ir in HR. cbn [orb] in HR.
  apply (is_outer_false_iff d) in Ie. apply (is_outer_false_iff d) in Ir.
  unfold inspect_flips in HR.
  destruct (inspect_loop pts d q fuel [e] []) as [r1|] eqn:R1; [|discriminate].
  assert (BL1 : forall b, In b [e] -> b < length (d_hedges d)) by (intros b [<-|[]]; exact He).
  assert (BL2 : forall b, In b [e_rev e] -> b < length (d_hedges d)) by (intros b [<-|[]]; exact Hr).
  destruct (inspect_loop_region pts d q W EC fuel _ _ _ BL1 R1) as (n1 & fl1 & -> & E1).
  destruct (inspect_loop_region pts d q W EC fuel _ _ _ BL2 HR) as (n2 & fl2 & -> & E2).
  rewrite app_nil_r in *.
  pose proof (Explored_combine pts d q _ _ _ _ _ _ E1 E2) as E. cbn [app] in E.
  (* both initial edges are flipped: an emitted twin would have a non-conflict face on its right *)
  assert (FE : In e (fl1 ++ fl2)).
  { destruct (ex_buf pts d q _ _ _ E e (or_introl eq_refl)) as [A|A]; [|exact A].
    destruct (HRing _ A) as (_ & _ & (_ & O)). unfold e_rev in O. rewrite rev_rev in O.
    destruct In0 as (_ & I0 & C0). destruct O as [O|(_ & O)]; [unfold inner, outer in *; contradiction|lia]. }
  assert (FR : In (e_rev e) (fl1 ++ fl2)).
  { destruct (ex_buf pts d q _ _ _ E (e_rev e) (or_intror (or_introl eq_refl))) as [A|A]; [|exact A].
    unfold e_rev in A. rewrite rev_rev in A.
    destruct (HRing _ A) as (_ & _ & (_ & O)).
    destruct In1 as (_ & I1 & C1). destruct O as [O|(_ & O)]; [unfold inner, outer in *; contradiction|lia]. }
  exists (fl1 ++ fl2). split; [|split; [exact FE|exact FR]].
  apply (region_of_explored pts d q (fun _ => False) _ _ _ E HRing).
  - intros b [<-|[<-|[]]]; right.
    + exists (e_rev e). split; [exact FR|reflexivity].
    + exists e. split; [exact FE|]. unfold e_rev. rewrite rev_rev. reflexivity.
  - intros x _ [].
Qed.

(* ---------------------------------------------------------------------------------------------- *)
(* PART 3.  ring vertices = natural neighbours, if the conflict region is connected                *)
(* ---------------------------------------------------------------------------------------------- *)
Lemma natural_from_region : forall pts d q start l fl (seed : nat -> Prop),
  DW d -> EdgesCcw pts d ->
  RegionOf pts d q start l fl -> closed_ring d l ->
  (forall F, seed F -> in_region d start fl F) ->
  (forall F, In F (conflict_faces (obs_of_dcel d) pts q) -> conflict_reach pts d q seed F) ->
  forall v, In v (natural_neighbours (obs_of_dcel d) pts q) -> In v (map (e_origin d) l).
Proof.
  intros pts d q start l fl seed W EC R CR HSeed HConn v Hv.
  unfold natural_neighbours in Hv. apply nodup_In in Hv. apply in_flat_map in Hv.
  destruct Hv as (F & HF & HvF).
  pose proof (region_complete pts d q W start l fl R seed HSeed F (HConn F HF)) as HR.
  apply conflict_faces_spec in HF. destruct HF as ((F1 & F2) & _). rewrite obs_nF in F2.
  apply (region_vertices_on_ring pts d q W start l fl R CR F v HR F2); [lia|exact HvF].
Qed.

(* location strictly inside face f *)
Theorem nn_ring_vertices_eq_natural_face_partial : forall pts fuel d q f l,
  DW d -> EdgesCcw pts d -> LocFace pts d q f ->
  natural_neighbor_edges pts fuel d q (LsFace f) = Some l ->
  (* connectedness of the conflict region (holds in Delaunay triangulations; not proved here) *)
  (forall F, In F (conflict_faces (obs_of_dcel d) pts q) -> conflict_reach pts d q (eq f) F) ->
  forall v, In v (map (e_origin d) l) <-> In v (natural_neighbours (obs_of_dcel d) pts q).
Proof.
  intros pts fuel d q f l W EC LF HR HConn v.
  destruct (nn_ring_main_partial pts fuel d q (LsFace f) l W EC LF HR) as (CR & _ & _ & _ & Q).
  split.
  - intros Hv. apply in_map_iff in Hv. destruct Hv as (x & <- & Hx). apply (Q x Hx).
  - destruct (nn_region_face pts fuel d q f l W EC LF HR) as (fl & R).
    apply (natural_from_region pts d q (eq f) l fl (eq f) W EC R CR); [|exact HConn].
    intros F <-. left. reflexivity.
Qed.

(* location in the relative interior of an inner edge e *)
Theorem nn_ring_vertices_eq_natural_edge_partial : forall pts fuel d q e l,
  DW d -> EdgesCcw pts d -> LocEdge pts d q e -> inner d e -> inner d (e_rev e) ->
  natural_neighbor_edges pts fuel d q (LsEdge e) = Some l ->
  (forall F, In F (conflict_faces (obs_of_dcel d) pts q) -> conflict_reach pts d q (eq (e_face d e)) F) ->
  forall v, In v (map (e_origin d) l) <-> In v (natural_neighbours (obs_of_dcel d) pts q).
Proof.
  intros pts fuel d q e l W EC LE Ie Ir HR HConn v.
  destruct (nn_ring_main_partial pts fuel d q (LsEdge e) l W EC (conj LE (conj Ie Ir)) HR) as (CR & _ & _ & _ & Q).
  split.
  - intros Hv. apply in_map_iff in Hv. destruct Hv as (x & <- & Hx). apply (Q x Hx).
  - destruct (nn_region_inner_edge pts fuel d q e l W EC LE Ie Ir HR) as (fl & R & FE & FR).
    apply (natural_from_region pts d q (fun _ => False) l fl (eq (e_face d e)) W EC R CR); [|exact HConn].
    intros F <-. right. exists e. split; [exact FE|reflexivity].
Qed.

(* every face of the explored region is a conflict face, and the region is closed: a conflict face next to it belongs to it *)
Theorem nn_region_closed : forall pts d q start l fl,
  DW d -> RegionOf pts d q start l fl ->
  (forall e, In e fl -> In (e_face d e) (conflict_faces (obs_of_dcel d) pts q)) /\
  (forall x, x < length (d_hedges d) -> in_region d start fl (e_face d x) ->
     In (e_face d (e_rev x)) (conflict_faces (obs_of_dcel d) pts q) -> in_region d start fl (e_face d (e_rev x))).
Proof.
  intros pts d q start l fl W R. split.
  - exact (region_conflict pts d q W start l fl R).
  - intros x Hx HI HC.
    apply (region_complete pts d q W start l fl R (in_region d start fl) (fun F H => H)).
    apply cr_step; [exact Hx| |exact HC]. apply cr_start. exact HI.
Qed.
