(* Query/NatNeighborTest.v -- a real run replayed by vm_compute: the square (1,1), (1,-1), (-1,1), (-1,-1) (coordinates scaled by 4), the DCEL
   as spade built it by four insertions (observed through the harness), query (0.25, 0.5).  The implementation printed the vertices
   2 3 1 0 for NaturalNeighbor::get_weights and 2 1 0 for Barycentric::get_weights: counter-clockwise around the query, although the
   documentation of get_weights says "clockwise". *)
From Coq Require Import ZArith List Bool Arith.
From SpadeV Require Import Geom.Pred Obs.State Dcel.Raw Tri.Legalize Tri.Locate Tri.LineIter Query.NatNeighbor.
Import ListNotations.

Definition sq_pts : list pnt := [(4, 4); (4, -4); (-4, 4); (-4, -4)]%Z.
Definition sq_q : pnt := (1, 2)%Z.
Definition sq_dcel : dcel :=
  mkdcel [mkv 4607182418800017408%Z 4607182418800017408%Z 1%Z (Some 0); mkv 4607182418800017408%Z 13830554455654793216%Z 2%Z (Some 1);
          mkv 13830554455654793216%Z 4607182418800017408%Z 3%Z (Some 4); mkv 13830554455654793216%Z 13830554455654793216%Z 4%Z (Some 8)]
         [mkh 9 3 0 0; mkh 2 4 1 1; mkh 4 1 1 0; mkh 0 7 0 2; mkh 1 2 1 2; mkh 6 8 2 1; mkh 8 5 2 2; mkh 3 9 0 3; mkh 5 6 2 3; mkh 7 0 0 1]
         [Some 9; Some 1; Some 5]
         [false; false; false; false; false].

(* every start vertex of the point location gives the same face *)
Example sq_locate : map (fun c => lstart_of_lres (locate_from_closest sq_pts sq_dcel sq_q c)) (seq 0 4) = repeat (Some (LsFace 1)) 4.
Proof. vm_compute. reflexivity. Qed.

Example sq_edges : natural_neighbor_edges sq_pts 30 sq_dcel sq_q (LsFace 1) = Some [6; 8; 1; 2].
Proof. vm_compute. reflexivity. Qed.
Example sq_edge_vertices : map (fun e => (e_origin sq_dcel e, e_to sq_dcel e)) [6; 8; 1; 2] = [(2, 3); (3, 1); (1, 0); (0, 2)].
Proof. vm_compute. reflexivity. Qed.
(* what the implementation printed *)
Example sq_nn_vertices : nn_weight_vertices sq_pts 30 sq_dcel sq_q (LsFace 1) = Some [2; 3; 1; 0].
Proof. vm_compute. reflexivity. Qed.
Example sq_bary_vertices : bary_weight_vertices sq_dcel (LsFace 1) = Some [2; 1; 0].
Proof. vm_compute. reflexivity. Qed.
(* the query is strictly left of every ring edge: the ring is counter-clockwise *)
Example sq_ring_ccw :
  forallb (fun e => (0 <? orient (vpos sq_pts (e_origin sq_dcel e)) (vpos sq_pts (e_to sq_dcel e)) sq_q)%Z) [6; 8; 1; 2] = true.
Proof. vm_compute. reflexivity. Qed.
