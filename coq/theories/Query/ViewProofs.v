(* Query/ViewProofs.v -- C17/C18/C19: algebra behind the Voronoi view and the interpolation weights (part A) and
   reflection theorems for the executable specifications of Obs/LineSpec.v and Query/Voronoi.v (part B). *)
From Coq Require Import ZArith List Bool Arith Lia QArith.
From SpadeV Require Import Num.Decode Geom.Pred Geom.Lemmas Obs.State Obs.Spec Obs.SpecProp Obs.SpecProofs
  Obs.Query Obs.QueryProp Obs.QueryProofs Obs.LineSpec Query.Voronoi Query.ViewProp.
Import ListNotations.
Local Open Scope Z_scope.

Ltac pn := cbv beta iota zeta delta [fst snd].
Ltac pn_in H := cbv beta iota zeta delta [fst snd] in H.

Ltac split3 H :=
  let H1 := fresh "Hux" in let H2 := fresh "Huy" in let H3 := fresh "Hdd" in
  apply pair_equal_spec in H; destruct H as [H H3]; apply pair_equal_spec in H; destruct H as [H1 H2].

(* ================================================================== Part A: algebra *)

(* ------------------------------------------------------------------ A1 *)
Theorem circumcenter_equidistant : forall (a b c : pnt) (ux uy dd : Z),
  cc_num a b c = (ux, uy, dd) ->
  dd = 2 * orient a b c /\
  ux * ux + uy * uy = (ux - (fst b - fst a) * dd) ^ 2 + (uy - (snd b - snd a) * dd) ^ 2 /\
  ux * ux + uy * uy = (ux - (fst c - fst a) * dd) ^ 2 + (uy - (snd c - snd a) * dd) ^ 2.
Proof.
  intros [ax ay] [bx by_] [cx cy] ux uy dd H. unfold cc_num in H. pn_in H.
  split3 H; subst ux uy dd. unfold orient; pn.
  split; [ring |]. split; ring.
Qed.

(* the circumcentre of a non-degenerate triangle is well defined (the denominator does not vanish) *)
Lemma cc_num_den_nonzero : forall (a b c : pnt) (ux uy dd : Z),
  cc_num a b c = (ux, uy, dd) -> (dd <> 0 <-> orient a b c <> 0).
Proof.
  intros a b c ux uy dd H. destruct (circumcenter_equidistant a b c ux uy dd H) as [Hd _]. lia.
Qed.

(* ------------------------------------------------------------------ A2 *)
(* the in-circle determinant is the (negated, scaled) power of d with respect to the circumcircle of a b c *)
Lemma incircle_power : forall (a b c d : pnt) (ux uy dd : Z),
  cc_num a b c = (ux, uy, dd) ->
  2 * incircle a b c d =
  2 * (ux * (fst d - fst a) + uy * (snd d - snd a))
  - dd * ((fst d - fst a) ^ 2 + (snd d - snd a) ^ 2).
Proof.
  intros [ax ay] [bx by_] [cx cy] [dx dy_] ux uy dd H. unfold cc_num in H. pn_in H.
  split3 H; subst ux uy dd. unfold incircle; pn. ring.
Qed.

Theorem delaunay_iff_no_site_closer : forall (a b c d : pnt) (ux uy dd : Z),
  cc_num a b c = (ux, uy, dd) ->
  0 < orient a b c ->
  let dx' := fst d - fst a in
  let dy' := snd d - snd a in
  (incircle a b c d <= 0 <->
   dd ^ 2 * (dx' ^ 2 + dy' ^ 2) - 2 * dd * (ux * dx' + uy * dy') >= 0) /\
  (* the same as a comparison of squared distances scaled by dd^2: |dd (d - a) - u|^2 >= |u|^2, i.e. |d - cc|^2 >= R^2 *)
  (incircle a b c d <= 0 <->
   ux * ux + uy * uy <= (dd * dx' - ux) ^ 2 + (dd * dy' - uy) ^ 2).
Proof.
  intros a b c d ux uy dd H Ho dx' dy'.
  pose proof (incircle_power a b c d ux uy dd H) as HP.
  destruct (circumcenter_equidistant a b c ux uy dd H) as [Hd _].
  fold dx' dy' in HP.
  assert (Hdd : 0 < dd) by lia.
  set (P := dd * (dx' ^ 2 + dy' ^ 2) - 2 * (ux * dx' + uy * dy')) in *.
  assert (HI : 2 * incircle a b c d = - P) by (unfold P; lia).
  assert (E1 : dd ^ 2 * (dx' ^ 2 + dy' ^ 2) - 2 * dd * (ux * dx' + uy * dy') = dd * P) by (unfold P; ring).
  assert (E2 : (dd * dx' - ux) ^ 2 + (dd * dy' - uy) ^ 2 = ux * ux + uy * uy + dd * P) by (unfold P; ring).
  rewrite E1, E2.
  pose proof (Z.mul_nonneg_cancel_l dd P Hdd) as HM.
  split; split; intros Hx; lia.
Qed.

(* strict version: d strictly inside the circumcircle <-> strictly closer to the circumcentre than a, b, c *)
Lemma incircle_pos_iff_closer : forall (a b c d : pnt) (ux uy dd : Z),
  cc_num a b c = (ux, uy, dd) ->
  0 < orient a b c ->
  (0 < incircle a b c d <->
   (dd * (fst d - fst a) - ux) ^ 2 + (dd * (snd d - snd a) - uy) ^ 2 < ux * ux + uy * uy).
Proof.
  intros a b c d ux uy dd H Ho.
  pose proof (incircle_power a b c d ux uy dd H) as HP.
  destruct (circumcenter_equidistant a b c ux uy dd H) as [Hd _].
  set (dx' := fst d - fst a) in *. set (dy' := snd d - snd a) in *.
  assert (Hdd : 0 < dd) by lia.
  set (P := dd * (dx' ^ 2 + dy' ^ 2) - 2 * (ux * dx' + uy * dy')) in *.
  assert (HI : 2 * incircle a b c d = - P) by (unfold P; lia).
  assert (E2 : (dd * dx' - ux) ^ 2 + (dd * dy' - uy) ^ 2 = ux * ux + uy * uy + dd * P) by (unfold P; ring).
  rewrite E2.
  pose proof (Z.mul_nonneg_cancel_l dd P Hdd) as HM'.
  split; intros Hx; lia.
Qed.

(* ------------------------------------------------------------------ A3 *)
Theorem direction_vector_rot90 : forall (a b : pnt),
  let dir := rot90 a b in
  let vx := fst b - fst a in
  let vy := snd b - snd a in
  fst dir * vx + snd dir * vy = 0 /\
  fst dir * fst dir + snd dir * snd dir = dist2 a b /\
  vx * snd dir - vy * fst dir = dist2 a b /\
  (a <> b -> 0 < vx * snd dir - vy * fst dir).
Proof.
  intros a b dir vx vy.
  assert (H3 : vx * snd dir - vy * fst dir = dist2 a b).
  { unfold dir, vx, vy, rot90, dist2; pn. ring. }
  split; [unfold dir, vx, vy, rot90; pn; ring |].
  split; [unfold dir, rot90, dist2; pn; ring |].
  split; [exact H3 |].
  intros Hab. rewrite H3. rewrite dist2_sym. apply dist2_pos. congruence.
Qed.

(* ------------------------------------------------------------------ A4 *)
Theorem barycentric_identity : forall (a b c q : pnt),
  orient b c q * fst a + orient c a q * fst b + orient a b q * fst c = orient a b c * fst q /\
  orient b c q * snd a + orient c a q * snd b + orient a b q * snd c = orient a b c * snd q /\
  orient b c q + orient c a q + orient a b q = orient a b c.
Proof.
  intros [ax ay] [bx by_] [cx cy] [qx qy]. unfold orient; pn.
  split; [ring |]. split; ring.
Qed.

(* the weights w_a = orient b c q / orient a b c, ... as rationals: they sum to 1 and reproduce q *)
Lemma barycentric_weights_Q : forall (a b c q : pnt),
  0 < orient a b c ->
  let D := inject_Z (orient a b c) in
  let wa := (inject_Z (orient b c q) / D)%Q in
  let wb := (inject_Z (orient c a q) / D)%Q in
  let wc := (inject_Z (orient a b q) / D)%Q in
  (wa + wb + wc == 1)%Q /\
  (wa * inject_Z (fst a) + wb * inject_Z (fst b) + wc * inject_Z (fst c) == inject_Z (fst q))%Q /\
  (wa * inject_Z (snd a) + wb * inject_Z (snd b) + wc * inject_Z (snd c) == inject_Z (snd q))%Q.
Proof.
  intros a b c q Ho D wa wb wc.
  destruct (barycentric_identity a b c q) as [Hx [Hy Hs]].
  assert (HD : ~ (D == 0)%Q).
  { unfold D. intros H. unfold Qeq, inject_Z in H. cbn [Qnum Qden] in H. lia. }
  unfold wa, wb, wc. split; [| split].
  - setoid_replace 1%Q with (D / D)%Q by (field; exact HD).
    unfold D at 4. rewrite <- Hs. rewrite !inject_Z_plus. fold D. field. exact HD.
  - setoid_replace (inject_Z (fst q)) with (D * inject_Z (fst q) / D)%Q by (field; exact HD).
    unfold D at 4. rewrite <- inject_Z_mult, <- Hx. rewrite !inject_Z_plus, !inject_Z_mult. fold D. field. exact HD.
  - setoid_replace (inject_Z (snd q)) with (D * inject_Z (snd q) / D)%Q by (field; exact HD).
    unfold D at 4. rewrite <- inject_Z_mult, <- Hy. rewrite !inject_Z_plus, !inject_Z_mult. fold D. field. exact HD.
Qed.

(* for a counter-clockwise triangle the three weights are non-negative exactly when q lies in the closed triangle,
   i.e. on or to the left of each of its three directed edges *)
Lemma barycentric_nonneg_iff_inside : forall (a b c q : pnt),
  0 < orient a b c ->
  let D := inject_Z (orient a b c) in
  ((0 <= orient a b q /\ 0 <= orient b c q /\ 0 <= orient c a q) <->
   (0 <= inject_Z (orient b c q) / D /\ 0 <= inject_Z (orient c a q) / D /\ 0 <= inject_Z (orient a b q) / D)%Q).
Proof.
  intros a b c q Ho D.
  assert (HD : (0 < D)%Q). { unfold D. change 0%Q with (inject_Z 0). rewrite <- Zlt_Qlt. exact Ho. }
  assert (K : forall n : Z, (0 <= inject_Z n / D)%Q <-> 0 <= n).
  { intros n. split.
    - intros H. apply (Qmult_le_compat_r _ _ D) in H; [| apply Qlt_le_weak; exact HD].
      rewrite Qmult_0_l in H. unfold Qdiv in H. rewrite <- Qmult_assoc, (Qmult_comm (/ D)), Qmult_inv_r, Qmult_1_r in H.
      + change 0%Q with (inject_Z 0) in H. rewrite <- Zle_Qle in H. exact H.
      + intros E. rewrite E in HD. apply Qlt_irrefl in HD. exact HD.
    - intros H. apply Qle_shift_div_l; [exact HD |]. rewrite Qmult_0_l.
      change 0%Q with (inject_Z 0). rewrite <- Zle_Qle. exact H. }
  rewrite !K. tauto.
Qed.

(* two-point analogue on a segment: the dot-product weights dot b a q / |ab|^2 (for a) and dot a b q / |ab|^2 (for b)
   sum to 1 and reproduce the orthogonal projection of q on the line ab; for q on the line they reproduce q itself *)
Theorem segment_weights_identity : forall (a b q : pnt),
  dot b a q + dot a b q = dist2 a b /\
  dot b a q * fst a + dot a b q * fst b = dist2 a b * fst q + orient a b q * (snd b - snd a) /\
  dot b a q * snd a + dot a b q * snd b = dist2 a b * snd q - orient a b q * (fst b - fst a).
Proof.
  intros [ax ay] [bx by_] [qx qy]. unfold dot, dist2, orient; pn.
  split; [ring |]. split; ring.
Qed.

Corollary segment_weights_on_line : forall (a b q : pnt),
  orient a b q = 0 ->
  dot b a q + dot a b q = dist2 a b /\
  dot b a q * fst a + dot a b q * fst b = dist2 a b * fst q /\
  dot b a q * snd a + dot a b q * snd b = dist2 a b * snd q /\
  ((0 <= dot b a q /\ 0 <= dot a b q) <-> 0 <= dot a b q <= dist2 a b).
Proof.
  intros a b q Ho. destruct (segment_weights_identity a b q) as [H1 [H2 H3]].
  rewrite Ho in H2, H3. rewrite Z.mul_0_l in H2, H3.
  split; [exact H1 |]. split; [lia |]. split; [lia |]. split; intros Hx; lia.
Qed.

(* ================================================================== Part B: reflection *)

(* ------------------------------------------------------------------ fractions *)
Lemma frac_leb_spec : forall x y, frac_leb x y = true <-> FracLe x y.
Proof. intros x y. unfold frac_leb, FracLe. apply Z.leb_le. Qed.

(* for positive denominators this is the order of the rationals n/d *)
Definition fracQ (x : Z * Z) : Q := Qmake (fst x) (Z.to_pos (snd x)).

Lemma frac_leb_Q : forall x y, 0 < snd x -> 0 < snd y ->
  (frac_leb x y = true <-> (fracQ x <= fracQ y)%Q).
Proof.
  intros [n1 d1] [n2 d2] H1 H2. pn_in H1. pn_in H2.
  rewrite frac_leb_spec. unfold FracLe, fracQ, Qle. pn. cbn [Qnum Qden].
  rewrite !Z2Pos.id by assumption. reflexivity.
Qed.

Lemma FracLe_refl : forall x, FracLe x x.
Proof. intros x. unfold FracLe. lia. Qed.

Lemma FracLe_trans : forall x y z, 0 < snd x -> 0 < snd y -> 0 < snd z ->
  FracLe x y -> FracLe y z -> FracLe x z.
Proof.
  intros [a b] [c d] [e f] Hb Hd Hf. unfold FracLe. pn_in Hb. pn_in Hd. pn_in Hf. pn. intros H1 H2.
  assert (K1 : a * d * f <= c * b * f) by (apply Z.mul_le_mono_nonneg_r; lia).
  assert (K2 : c * f * b <= e * d * b) by (apply Z.mul_le_mono_nonneg_r; lia).
  assert (K : d * (a * f) <= d * (e * b)) by lia.
  apply Z.mul_le_mono_pos_l in K; assumption.
Qed.

Section LineProofs.
Variable s : obs.
Variable pts : list pnt.
Variable p q : pnt.
Notation pos := (pos pts).
Notation eorg := (eorg s pts).
Notation edst := (edst s pts).

Lemma vertex_on_spec : forall v, vertex_on pts p q v = true <-> VertexOn pts p q v.
Proof. intros v. unfold vertex_on, VertexOn. apply on_seg_spec. Qed.

Lemma edge_crossed_spec : forall e, edge_crossed s pts p q e = true <-> EdgeCrossed s pts p q e.
Proof. intros e. unfold edge_crossed, EdgeCrossed. apply ProperCross_spec. Qed.

Lemma edge_touched_by_end_spec : forall e,
  edge_touched_by_end s pts p q e = true <-> EdgeTouchedByEnd s pts p q e.
Proof.
  intros e. unfold edge_touched_by_end, EdgeTouchedByEnd.
  rewrite andb_true_iff, negb_true_iff, andb_false_iff, orb_true_iff, !Z.eqb_neq, !StrictlyBetween_spec.
  split.
  - intros [H1 H2]. split; [| exact H2]. intros [Ha Hb]. destruct H1 as [H1 | H1]; contradiction.
  - intros [H1 H2]. split; [| exact H2].
    destruct (Z.eq_dec (orient p q (eorg e)) 0) as [Ha | Ha]; [| left; exact Ha].
    right. intros Hb. apply H1. split; assumption.
Qed.

Lemma edge_overlaps_spec : forall e, edge_overlaps s pts p q e = true <-> EdgeOverlaps s pts p q e.
Proof.
  intros e. unfold edge_overlaps, EdgeOverlaps, L2. cbv zeta.
  rewrite !andb_true_iff, negb_true_iff, pnt_eqb_neq, !Z.eqb_eq, Z.ltb_lt.
  split.
  - intros [[[Hpq Ha] Hb] Hc]. repeat split; try assumption; lia.
  - intros [Hpq [Ha [Hb [Hc [Hd He]]]]].
    assert (HL : 0 < dist2 p q) by (apply dist2_pos; exact Hpq).
    repeat split; try assumption; lia.
Qed.

Lemma edge_under_point_spec : forall e, edge_under_point s pts p q e = true <-> EdgeUnderPoint s pts p q e.
Proof.
  intros e. unfold edge_under_point, EdgeUnderPoint.
  rewrite andb_true_iff, Geom.Lemmas.pnt_eqb_spec, StrictlyBetween_spec. tauto.
Qed.

Theorem item_valid_spec : forall it, item_valid s pts p q it = true <-> ItemValid s pts p q it.
Proof.
  intros [e | v | e]; unfold item_valid, ItemValid.
  - rewrite !andb_true_iff, !orb_true_iff, Nat.ltb_lt, Z.leb_le,
      edge_crossed_spec, edge_touched_by_end_spec, edge_under_point_spec. tauto.
  - rewrite andb_true_iff, Nat.ltb_lt, vertex_on_spec. tauto.
  - rewrite andb_true_iff, orb_true_iff, andb_true_iff, Nat.ltb_lt, Z.ltb_lt,
      edge_overlaps_spec, edge_under_point_spec. tauto.
Qed.

(* the denominators of the parameters are positive, so that FracLe on them is the order of rationals *)
Lemma item_param_den_pos : forall it, 0 < snd (item_param s pts p q it).
Proof.
  intros [e | v | e]; unfold item_param; cbv zeta.
  - destruct (Z.eqb_spec (orient (eorg e) (edst e) p - orient (eorg e) (edst e) q) 0) as [E | E]; [pn; lia |].
    destruct (Z.ltb_spec 0 (orient (eorg e) (edst e) p - orient (eorg e) (edst e) q)) as [E' | E']; pn; lia.
  - pn. lia.
  - pn. lia.
Qed.

Theorem ordered_spec : forall l, ordered s pts p q l = true <-> Ordered s pts p q l.
Proof.
  unfold Ordered. induction l as [| a t IH].
  - cbn [ordered length]. split; [intros _ i Hi; lia | reflexivity].
  - destruct t as [| b t'].
    + cbn [ordered length]. split; [intros _ i Hi; lia | reflexivity].
    + change (ordered s pts p q (a :: b :: t')) with
        (frac_leb (item_param s pts p q a) (item_param s pts p q b) && ordered s pts p q (b :: t')).
      rewrite andb_true_iff, frac_leb_spec, IH. split.
      * intros [H1 H2] i Hi. destruct i as [| i].
        -- cbn [nth]. exact H1.
        -- change (nth (S i) (a :: b :: t') (IV 0)) with (nth i (b :: t') (IV 0)).
           change (nth (S (S i)) (a :: b :: t') (IV 0)) with (nth (S i) (b :: t') (IV 0)).
           apply H2. cbn [length] in Hi |- *. lia.
      * intros H. split.
        -- apply (H 0%nat). cbn [length]. lia.
        -- intros i Hi. apply (H (S i)). cbn [length] in Hi |- *. lia.
Qed.

(* with positive denominators the order is transitive: any earlier item is at or before any later one *)
Lemma Ordered_global : forall l, Ordered s pts p q l ->
  forall i j, (i <= j)%nat -> (j < length l)%nat ->
    FracLe (item_param s pts p q (nth i l (IV 0))) (item_param s pts p q (nth j l (IV 0))).
Proof.
  intros l H i j Hij. induction Hij as [| j Hij IH].
  - intros _. apply FracLe_refl.
  - intros Hj. eapply FracLe_trans; try apply item_param_den_pos.
    + apply IH. lia.
    + apply H. exact Hj.
Qed.

Lemma if_nat_eqb_spec : forall (b : bool) (P : Prop) (n : nat),
  (b = true <-> P) ->
  ((n =? (if b then 1 else 0))%nat = true <-> (P -> n = 1%nat) /\ (~ P -> n = 0%nat)).
Proof.
  intros b P n H. destruct b.
  - rewrite Nat.eqb_eq. split.
    + intros E. split; [intros _; exact E |]. intros HN. exfalso. apply HN. apply H. reflexivity.
    + intros [H1 _]. apply H1. apply H. reflexivity.
  - rewrite Nat.eqb_eq. assert (HN : ~ P) by (intros HP; apply H in HP; discriminate HP). split.
    + intros E. split; [intros HP; contradiction | intros _; exact E].
    + intros [_ H2]. apply H2. exact HN.
Qed.

(* the cases of Complete are mutually exclusive as far as needed *)
Lemma crossed_not_touched : forall e, EdgeCrossed s pts p q e -> ~ EdgeTouchedByEnd s pts p q e.
Proof.
  intros e [_ H2] [_ H3]. unfold StrictlyBetween in H3. lia.
Qed.

Lemma under_point_not_crossed : forall e, EdgeUnderPoint s pts p q e -> ~ EdgeCrossed s pts p q e.
Proof.
  intros e [Hpq H] [_ H2]. subst q. lia.
Qed.

Lemma under_point_not_touched : forall e, EdgeUnderPoint s pts p q e -> ~ EdgeTouchedByEnd s pts p q e.
Proof.
  intros e [Hpq _] [H1 _]. subst q. apply H1. unfold orient. split; ring.
Qed.

Lemma under_point_not_overlaps : forall e, EdgeUnderPoint s pts p q e -> ~ EdgeOverlaps s pts p q e.
Proof. intros e [Hpq _] [Hne _]. contradiction. Qed.

Theorem complete_spec : forall l, complete s pts p q l = true <-> Complete s pts p q l.
Proof.
  intros l. unfold complete, Complete, nIV, nIX, nIO. rewrite andb_true_iff, !all_below_spec.
  assert (AI : forall A B C D : Prop, (A <-> B) -> (C <-> D) -> (A /\ C <-> B /\ D)) by (intros; tauto).
  apply AI; clear AI.
  - split; intros H v Hv; specialize (H v Hv); apply (if_nat_eqb_spec _ _ _ (vertex_on_spec v)); exact H.
  - split; intros H k Hk; specialize (H k Hk); cbv zeta in H |- *.
    + rewrite andb_true_iff in H. destruct H as [HX HO].
      pose proof (edge_crossed_spec (2 * k)) as Sc.
      pose proof (edge_touched_by_end_spec (2 * k)) as St.
      pose proof (edge_under_point_spec (2 * k)) as Su.
      pose proof (edge_overlaps_spec (2 * k)) as So.
      pose proof (crossed_not_touched (2 * k)) as Xct.
      pose proof (under_point_not_overlaps (2 * k)) as Xuo.
      destruct (edge_crossed s pts p q (2 * k)); destruct (edge_touched_by_end s pts p q (2 * k));
      destruct (edge_under_point s pts p q (2 * k)); destruct (edge_overlaps s pts p q (2 * k));
      rewrite ?Nat.eqb_eq, ?Nat.leb_le in HX; rewrite ?Nat.eqb_eq, ?Nat.leb_le in HO;
      repeat split; intros; try tauto; try lia;
      try (exfalso; intuition discriminate).
    + destruct H as [H1 [H2 [H3 [H4 [H5 H6]]]]].
      pose proof (edge_crossed_spec (2 * k)) as Sc.
      pose proof (edge_touched_by_end_spec (2 * k)) as St.
      pose proof (edge_under_point_spec (2 * k)) as Su.
      pose proof (edge_overlaps_spec (2 * k)) as So.
      rewrite andb_true_iff.
      destruct (edge_crossed s pts p q (2 * k)); destruct (edge_touched_by_end s pts p q (2 * k));
      destruct (edge_under_point s pts p q (2 * k)); destruct (edge_overlaps s pts p q (2 * k));
      rewrite ?Nat.eqb_eq, ?Nat.leb_le;
      split;
      first [ apply H1; tauto | apply H2; tauto | apply H4; tauto | apply H5; tauto
            | apply H3; intuition discriminate | apply H6; intuition discriminate ].
Qed.

Theorem linespec_b_spec : forall l, linespec_b s pts p q l = true <-> LineSpec s pts p q l.
Proof.
  intros l. unfold linespec_b, LineSpec.
  rewrite !andb_true_iff, forallb_forall, complete_spec, ordered_spec. split.
  - intros [[H1 H2] H3]. split; [| split; assumption]. intros it Hin. apply item_valid_spec. apply H1. exact Hin.
  - intros [H1 [H2 H3]]. split; [split |]; try assumption. intros it Hin. apply item_valid_spec. apply H1. exact Hin.
Qed.

(* ---- consequences *)
Lemma count_item_pos : forall (f : litem -> bool) l,
  (0 < count_item f l)%nat <-> exists x, In x l /\ f x = true.
Proof.
  intros f l. unfold count_item. split.
  - intros H. destruct (filter f l) as [| x t] eqn:E; [cbn [length] in H; lia |].
    exists x. apply filter_In. rewrite E. left. reflexivity.
  - intros [x Hx]. apply filter_In in Hx. destruct (filter f l) as [| y t]; [destruct Hx | cbn [length]; lia].
Qed.

(* the vertices reported are exactly the vertices on the closed segment (and each is reported once: Complete) *)
Corollary linespec_vertices : forall l, LineSpec s pts p q l ->
  forall v, In (IV v) l <-> (v < nV s)%nat /\ VertexOn pts p q v.
Proof.
  intros l [HV [[HC _] _]] v. split.
  - intros Hin. exact (HV _ Hin).
  - intros [Hv Hon]. destruct (HC v Hv) as [H1 _]. specialize (H1 Hon).
    assert (Hp : (0 < count_item (is_v v) l)%nat) by (unfold nIV in H1; lia).
    apply count_item_pos in Hp. destruct Hp as [x [Hin Hx]].
    destruct x as [e | w | e]; cbn [is_v] in Hx; try discriminate Hx.
    apply Nat.eqb_eq in Hx. subst w. exact Hin.
Qed.

(* every reported edge intersection is an existing edge with q on its left or on its line *)
Corollary linespec_IX_direction : forall l, LineSpec s pts p q l ->
  forall e, In (IX e) l -> (e < nH s)%nat /\ 0 <= orient (eorg e) (edst e) q.
Proof. intros l [HV _] e Hin. destruct (HV _ Hin) as [H1 [_ H2]]. split; assumption. Qed.

(* every properly crossed undirected edge is reported (in one of its two directions) *)
Corollary linespec_crossed_reported : forall l, LineSpec s pts p q l ->
  forall k, (k < o_ne s)%nat -> EdgeCrossed s pts p q (2 * k) ->
  exists e, In (IX e) l /\ Nat.div2 e = k.
Proof.
  intros l [_ [[_ HC] _]] k Hk Hc. destruct (HC k Hk) as [H1 _]. specialize (H1 Hc).
  assert (Hp : (0 < count_item (is_x_und k) l)%nat) by (unfold nIX in H1; lia).
  apply count_item_pos in Hp. destruct Hp as [x [Hin Hx]].
  destruct x as [e | w | e]; cbn [is_x_und] in Hx; try discriminate Hx.
  apply Nat.eqb_eq in Hx. exists e. split; assumption.
Qed.

(* FINDING (about the specification, not the implementation): item_valid accepts IX e for an edge under a zero-length
   query segment ("either way"), but complete forbids it: under a point the edge is neither crossed nor touched (pq is
   degenerate), so the IX count must be 0 and only IO e can be reported. *)
Lemma complete_under_point_no_IX : forall l k, (k < o_ne s)%nat ->
  Complete s pts p q l -> EdgeUnderPoint s pts p q (2 * k) -> nIX k l = 0%nat.
Proof.
  intros l k Hk [_ HC] Hu. destruct (HC k Hk) as [_ [_ [H3 _]]]. apply H3.
  - apply under_point_not_crossed. exact Hu.
  - apply under_point_not_touched. exact Hu.
Qed.

(* ---- the classification of an edge does not depend on its direction (so Complete, stated on half-edge 2k, is a
   statement about the undirected edge k) *)
Lemma rev_rev : forall e, rev (rev e) = e.
Proof.
  intros e. unfold rev. destruct (Nat.even e) eqn:E.
  - rewrite Nat.even_succ. rewrite <- Nat.negb_even, E. reflexivity.
  - destruct e as [| e]; [cbn in E; discriminate E |].
    cbn [Nat.pred]. rewrite Nat.even_succ in E. rewrite <- Nat.negb_even in E.
    destruct (Nat.even e); [reflexivity | discriminate E].
Qed.

Lemma eorg_rev : forall e, eorg (rev e) = edst e.
Proof. intros e. reflexivity. Qed.

Lemma edst_rev : forall e, edst (rev e) = eorg e.
Proof. intros e. unfold Spec.edst, Spec.eorg, dest. rewrite rev_rev. reflexivity. Qed.

Lemma StrictlyBetween_swap : forall a b c, StrictlyBetween a b c <-> StrictlyBetween b a c.
Proof.
  intros [ax ay] [bx by_] [cx cy]. unfold StrictlyBetween, orient, dot, dist2. pn. split; intros H; lia.
Qed.

Lemma ProperCross_swap34 : forall a b c d, ProperCross a b c d <-> ProperCross a b d c.
Proof.
  intros a b c d. unfold ProperCross. rewrite !(orient_swap d c). split; intros H; lia.
Qed.

Lemma edge_crossed_rev : forall e, EdgeCrossed s pts p q (rev e) <-> EdgeCrossed s pts p q e.
Proof. intros e. unfold EdgeCrossed. rewrite eorg_rev, edst_rev. apply ProperCross_swap34. Qed.

Lemma edge_touched_rev : forall e, EdgeTouchedByEnd s pts p q (rev e) <-> EdgeTouchedByEnd s pts p q e.
Proof.
  intros e. unfold EdgeTouchedByEnd. rewrite eorg_rev, edst_rev.
  rewrite (StrictlyBetween_swap (edst e) (eorg e) p), (StrictlyBetween_swap (edst e) (eorg e) q). tauto.
Qed.

Lemma edge_overlaps_rev : forall e, EdgeOverlaps s pts p q (rev e) <-> EdgeOverlaps s pts p q e.
Proof.
  intros e. unfold EdgeOverlaps. rewrite eorg_rev, edst_rev.
  rewrite (Z.max_comm (dot p q (edst e))), (Z.min_comm (dot p q (edst e))).
  split; intros [H1 [H2 [H3 [H4 H5]]]]; repeat split; try tauto; congruence.
Qed.

Lemma edge_under_point_rev : forall e, EdgeUnderPoint s pts p q (rev e) <-> EdgeUnderPoint s pts p q e.
Proof.
  intros e. unfold EdgeUnderPoint. rewrite eorg_rev, edst_rev.
  rewrite (StrictlyBetween_swap (edst e) (eorg e) p). tauto.
Qed.
End LineProofs.

(* ------------------------------------------------------------------ B2: Voronoi view *)
Lemma vface_outer : forall f, vface f = -1 <-> f = 0%nat.
Proof.
  intros f. unfold vface. destruct (Nat.eqb_spec f 0) as [E | E].
  - tauto.
  - split; [lia | intros; contradiction].
Qed.

Lemma vface_inner : forall f, f <> 0%nat -> vface f = Z.of_nat f.
Proof. intros f H. unfold vface. destruct (Nat.eqb_spec f 0) as [E | E]; [contradiction | reflexivity]. Qed.

Lemma vface_inj : forall f g, vface f = vface g -> f = g.
Proof.
  intros f g. unfold vface.
  destruct (Nat.eqb_spec f 0) as [E | E]; destruct (Nat.eqb_spec g 0) as [E' | E']; lia.
Qed.

Theorem vor_edge_ok_spec : forall s pts e from to dir site nxt prv rv,
  vor_edge_ok s pts e from to dir site nxt prv rv = true <-> VorEdgeOk s pts e from to dir site nxt prv rv.
Proof.
  intros s pts e from to dir site nxt prv rv. unfold vor_edge_ok, VorEdgeOk, rot90.
  rewrite !andb_true_iff, Nat.ltb_lt, !Z.eqb_eq, !Nat.eqb_eq, Geom.Lemmas.pnt_eqb_spec. tauto.
Qed.

(* the direction of the Voronoi edge is the dual Delaunay edge rotated by +90 degrees: perpendicular to it, of the same
   length, pointing to its left *)
Corollary vor_edge_direction : forall s pts e from to dir site nxt prv rv,
  vor_edge_ok s pts e from to dir site nxt prv rv = true ->
  let a := eorg s pts e in let b := edst s pts e in
  fst dir * (fst b - fst a) + snd dir * (snd b - snd a) = 0 /\
  fst dir * fst dir + snd dir * snd dir = dist2 a b /\
  (fst b - fst a) * snd dir - (snd b - snd a) * fst dir = dist2 a b.
Proof.
  intros s pts e from to dir site nxt prv rv H a b. apply vor_edge_ok_spec in H.
  destruct H as [_ [_ [_ [Hd _]]]]. subst dir. fold a b.
  destruct (direction_vector_rot90 a b) as [H1 [H2 [H3 _]]]. cbv zeta in H1, H2, H3.
  split; [exact H1 |]. split; [exact H2 | exact H3].
Qed.

Definition ccw_chain (s : obs) : list nat -> bool :=
  fix chain (l : list nat) : bool :=
  match l with
  | a :: ((b :: _) as t) => (b =? ccw s a)%nat && chain t
  | _ => true
  end.

Lemma ccw_chain_spec : forall s l,
  ccw_chain s l = true <-> (forall i, (S i < length l)%nat -> nth (S i) l 0%nat = ccw s (nth i l 0%nat)).
Proof.
  intros s. induction l as [| a t IH].
  - cbn [ccw_chain length]. split; [intros _ i Hi; lia | reflexivity].
  - destruct t as [| b t'].
    + cbn [ccw_chain length]. split; [intros _ i Hi; lia | reflexivity].
    + change (ccw_chain s (a :: b :: t')) with ((b =? ccw s a)%nat && ccw_chain s (b :: t')).
      rewrite andb_true_iff, Nat.eqb_eq, IH. split.
      * intros [H1 H2] i Hi. destruct i as [| i].
        -- cbn [nth]. exact H1.
        -- change (nth (S i) (a :: b :: t') 0%nat) with (nth i (b :: t') 0%nat).
           change (nth (S (S i)) (a :: b :: t') 0%nat) with (nth (S i) (b :: t') 0%nat).
           apply H2. cbn [length] in Hi |- *. lia.
      * intros H. split.
        -- apply (H 0%nat). cbn [length]. lia.
        -- intros i Hi. apply (H (S i)). cbn [length] in Hi |- *. lia.
Qed.

Lemma vor_face_ok_unfold : forall s v l,
  vor_face_ok s v l =
  nodup_nat l && forallb (fun e => (e <? nH s)%nat && (org s e =? v)%nat) l &&
  all_below (nH s) (fun e => negb (org s e =? v)%nat || memb e l) && ccw_chain s l.
Proof. intros s v l. reflexivity. Qed.

Theorem vor_face_ok_spec : forall s v l, vor_face_ok s v l = true <-> VorFaceOk s v l.
Proof.
  intros s v l. rewrite vor_face_ok_unfold. unfold VorFaceOk.
  rewrite !andb_true_iff, nodup_nat_spec, forallb_forall, all_below_spec, ccw_chain_spec. split.
  - intros [[[Hnd Hs] Hc] Hch]. split; [exact Hnd |]. split; [| exact Hch]. intros e. split.
    + intros Hin. specialize (Hs e Hin). rewrite andb_true_iff, Nat.ltb_lt, Nat.eqb_eq in Hs. exact Hs.
    + intros [He Ho]. specialize (Hc e He). apply Nat.eqb_eq in Ho. rewrite Ho in Hc. cbn [negb orb] in Hc.
      apply memb_spec. exact Hc.
  - intros [Hnd [Hin Hch]]. split; [split; [split; [exact Hnd |] |] | exact Hch].
    + intros e He. rewrite andb_true_iff, Nat.ltb_lt, Nat.eqb_eq. apply Hin. exact He.
    + intros e He. destruct (Nat.eqb_spec (org s e) v) as [E | E]; [| reflexivity]. cbn [negb orb].
      apply memb_spec. apply Hin. split; assumption.
Qed.

(* the listed edges are the whole ccw orbit: the number of edges listed is the degree of v *)
Corollary vor_face_length : forall s v l, VorFaceOk s v l -> length l = length (out_edges_of s v).
Proof.
  intros s v l [Hnd [Hin _]].
  assert (Hnd' : NoDup (out_edges_of s v)) by (unfold out_edges_of; apply NoDup_filter, seq_NoDup).
  assert (Hiff : forall e, In e l <-> In e (out_edges_of s v)).
  { intros e. rewrite Hin. unfold out_edges_of. rewrite filter_In, in_seq, Nat.eqb_eq. split; intros [H1 H2]; split; (lia || assumption). }
  apply Nat.le_antisymm; apply NoDup_incl_length; try assumption; intros e He; apply Hiff; exact He.
Qed.

(* ------------------------------------------------------------------ B3: interpolation: classification, conflict region *)
Theorem classify_point_spec : forall s pts q, ClassifySpec s pts q (classify_point s pts q).
Proof.
  intros s pts q. unfold classify_point.
  destruct (find (fun v => pnt_eqb (pos pts v) q) (seq 0 (nV s))) as [v |] eqn:Ev.
  { apply find_some in Ev. destruct Ev as [Hin Hp]. apply in_seq in Hin. apply Geom.Lemmas.pnt_eqb_spec in Hp.
    cbn [ClassifySpec]. split; [lia | exact Hp]. }
  assert (HV : NoVertexAt s pts q).
  { intros v Hv Hp. pose proof (find_none _ _ Ev v) as H. cbv beta in H.
    rewrite (proj2 (Geom.Lemmas.pnt_eqb_spec _ _) Hp) in H.
    assert (Hin : In v (seq 0 (nV s))) by (apply in_seq; lia). specialize (H Hin). discriminate H. }
  destruct (find (fun e => strictly_between (eorg s pts e) (edst s pts e) q) (seq 0 (nH s))) as [e |] eqn:Ee.
  { apply find_some in Ee. destruct Ee as [Hin Hp]. apply in_seq in Hin. apply StrictlyBetween_spec in Hp.
    cbn [ClassifySpec]. split; [exact HV |]. split; [lia | exact Hp]. }
  assert (HE : NoEdgeThrough s pts q).
  { intros e He Hp. pose proof (find_none _ _ Ee e) as H. cbv beta in H.
    rewrite (proj2 (StrictlyBetween_spec _ _ _) Hp) in H.
    assert (Hin : In e (seq 0 (nH s))) by (apply in_seq; lia). specialize (H Hin). discriminate H. }
  destruct (find (fun f => locspec_b s pts q (LFace f)) (seq 1 (nF s - 1))) as [f |] eqn:Ef.
  { apply find_some in Ef. destruct Ef as [_ Hp]. apply locspec_b_spec in Hp.
    cbn [ClassifySpec]. split; [exact HV |]. split; [exact HE | exact Hp]. }
  cbn [ClassifySpec]. split; [exact HV |]. split; [exact HE |].
  intros f Hp. pose proof (find_none _ _ Ef f) as H. cbv beta in H.
  assert (Hin : In f (seq 1 (nF s - 1))).
  { destruct Hp as [[H1 H2] _]. apply in_seq. lia. }
  rewrite (proj2 (locspec_b_spec _ _ _ _) Hp) in H. specialize (H Hin). discriminate H.
Qed.

(* conversely: the class found is the first that applies *)
Corollary classify_point_vertex : forall s pts q,
  (exists v, (v < nV s)%nat /\ pos pts v = q) <-> exists v, classify_point s pts q = LVertex v.
Proof.
  intros s pts q. pose proof (classify_point_spec s pts q) as H. split.
  - intros [v [Hv Hp]]. destruct (classify_point s pts q) as [v' | e | f | e |]; cbn [ClassifySpec] in H.
    + exists v'. reflexivity.
    + destruct H as [HV _]. exfalso. exact (HV v Hv Hp).
    + destruct H as [HV _]. exfalso. exact (HV v Hv Hp).
    + destruct H.
    + destruct H as [HV _]. exfalso. exact (HV v Hv Hp).
  - intros [v E]. rewrite E in H. exists v. exact H.
Qed.

Corollary classify_point_none : forall s pts q,
  classify_point s pts q = LNone <->
  NoVertexAt s pts q /\ NoEdgeThrough s pts q /\ NoFaceAround s pts q.
Proof.
  intros s pts q. pose proof (classify_point_spec s pts q) as H. split.
  - intros E. rewrite E in H. exact H.
  - intros [HV [HE HF]]. destruct (classify_point s pts q) as [v | e | f | e |]; cbn [ClassifySpec] in H.
    + destruct H as [Hv Hp]. exfalso. exact (HV v Hv Hp).
    + destruct H as [_ [He Hp]]. exfalso. exact (HE e He Hp).
    + destruct H as [_ [_ Hp]]. exfalso. exact (HF f Hp).
    + destruct H.
    + reflexivity.
Qed.

Theorem conflict_faces_spec : forall s pts q f, In f (conflict_faces s pts q) <-> InConflict s pts q f.
Proof.
  intros s pts q f. unfold conflict_faces, InConflict, inner_face, tri_a, tri_b, tri_c.
  rewrite filter_In, in_seq. destruct (face_tri s pts f) as [[a b] c]. pn. rewrite Z.ltb_lt.
  split; intros [H1 H2]; (split; [lia | exact H2]).
Qed.

Corollary conflict_faces_nodup : forall s pts q, NoDup (conflict_faces s pts q).
Proof. intros s pts q. unfold conflict_faces. apply NoDup_filter, seq_NoDup. Qed.

(* in a Delaunay state no face is in conflict with the position of an existing vertex *)
Corollary delaunay_no_conflict_at_vertex : forall s pts v,
  Delaunay s pts -> vertex s v -> conflict_faces s pts (pos pts v) = [].
Proof.
  intros s pts v HD Hv. destruct (conflict_faces s pts (pos pts v)) as [| f t] eqn:E; [reflexivity |].
  assert (Hin : In f (conflict_faces s pts (pos pts v))) by (rewrite E; left; reflexivity).
  apply conflict_faces_spec in Hin. destruct Hin as [Hf Hc]. specialize (HD f v Hf Hv). lia.
Qed.

(* C01 <-> C18: in a Delaunay state with counter-clockwise faces no site is closer to a Voronoi vertex (the circumcentre
   a + (ux,uy)/dd of an inner face) than the three sites of that face; distances scaled by dd *)
Corollary delaunay_voronoi_vertex_nearest : forall s pts f v ux uy dd,
  Delaunay s pts -> FacesCcw s pts -> inner_face s f -> vertex s v ->
  cc_num (tri_a s pts f) (tri_b s pts f) (tri_c s pts f) = (ux, uy, dd) ->
  ux * ux + uy * uy <=
  (dd * (fst (pos pts v) - fst (tri_a s pts f)) - ux) ^ 2 + (dd * (snd (pos pts v) - snd (tri_a s pts f)) - uy) ^ 2.
Proof.
  intros s pts f v ux uy dd HD HC Hf Hv Hcc.
  destruct (delaunay_iff_no_site_closer _ _ _ (pos pts v) _ _ _ Hcc (HC f Hf)) as [_ H2].
  cbv zeta in H2. apply H2. apply HD; assumption.
Qed.

Print Assumptions circumcenter_equidistant.
Print Assumptions delaunay_iff_no_site_closer.
Print Assumptions barycentric_identity.
Print Assumptions linespec_b_spec.
Print Assumptions vor_edge_ok_spec.
Print Assumptions direction_vector_rot90.
Print Assumptions vor_face_ok_spec.
Print Assumptions classify_point_spec.
Print Assumptions conflict_faces_spec.
Print Assumptions frac_leb_Q.
