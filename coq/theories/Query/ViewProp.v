(* Query/ViewProp.v -- declarative (Prop) forms of the specifications whose boolean forms are in Obs/LineSpec.v (C17)
   and Query/Voronoi.v (C18, C19).  Definitions only; the reflection theorems are in Query/ViewProofs.v. *)
From Coq Require Import ZArith List Bool Arith.
From SpadeV Require Import Num.Decode Geom.Pred Obs.State Obs.Spec Obs.SpecProp Obs.Query Obs.QueryProp Obs.LineSpec
  Query.Voronoi.
Import ListNotations.

(* ------------------------------------------------------------------ fractions with positive denominators *)
(* n1/d1 <= n2/d2 by cross-multiplication (meaningful for 0 < d1, 0 < d2) *)
Definition FracLe (x y : Z * Z) : Prop := (fst x * snd y <= fst y * snd x)%Z.

(* ------------------------------------------------------------------ C17: line intersection iterator *)
Section LP.
Variable s : obs.
Variable pts : list pnt.
Variable p q : pnt.
Notation pos := (pos pts).
Notation eorg := (eorg s pts).
Notation edst := (edst s pts).
Local Open Scope Z_scope.

(* vertex v lies on the closed segment pq (degenerate segment: v is at p) *)
Definition VertexOn (v : nat) : Prop := OnSeg p q (pos v).

(* the open edge e and the open segment pq cross in a single point interior to both *)
Definition EdgeCrossed (e : nat) : Prop := ProperCross p q (eorg e) (edst e).

(* e is not collinear with pq and its relative interior contains p or q *)
Definition EdgeTouchedByEnd (e : nat) : Prop :=
  ~ (orient p q (eorg e) = 0 /\ orient p q (edst e) = 0) /\
  (StrictlyBetween (eorg e) (edst e) p \/ StrictlyBetween (eorg e) (edst e) q).

(* e is collinear with the non-degenerate segment pq and shares more than one point with it: in the parameter
   dot p q . (which is 0 at p and L2 at q) the intervals [0, L2] and [t1, t2] overlap in more than one point *)
Definition EdgeOverlaps (e : nat) : Prop :=
  p <> q /\ orient p q (eorg e) = 0 /\ orient p q (edst e) = 0 /\
  dot p q (eorg e) <> dot p q (edst e) /\
  0 < Z.max (dot p q (eorg e)) (dot p q (edst e)) /\
  Z.min (dot p q (eorg e)) (dot p q (edst e)) < dist2 p q.

(* pq is a single point in the relative interior of e *)
Definition EdgeUnderPoint (e : nat) : Prop := p = q /\ StrictlyBetween (eorg e) (edst e) p.

Definition ItemValid (it : litem) : Prop :=
  match it with
  | IV v => (v < nV s)%nat /\ VertexOn v
  | IX e => (e < nH s)%nat /\ (EdgeCrossed e \/ EdgeTouchedByEnd e \/ EdgeUnderPoint e) /\
            0 <= orient (eorg e) (edst e) q                      (* q is not on the right of e *)
  | IO e => (e < nH s)%nat /\
            ((EdgeOverlaps e /\ dot p q (eorg e) < dot p q (edst e))   (* e points in the direction of travel *)
             \/ EdgeUnderPoint e)
  end.

(* parameters along the line do not decrease from one item to the next *)
Definition Ordered (l : list litem) : Prop :=
  forall i, (S i < length l)%nat ->
    FracLe (item_param s pts p q (nth i l (IV 0))) (item_param s pts p q (nth (S i) l (IV 0))).

(* number of reports of vertex v / of undirected edge k as intersection / as overlap *)
Definition nIV (v : nat) (l : list litem) : nat := count_item (is_v v) l.
Definition nIX (k : nat) (l : list litem) : nat := count_item (is_x_und k) l.
Definition nIO (k : nat) (l : list litem) : nat := count_item (is_o_und k) l.

Definition Complete (l : list litem) : Prop :=
  (forall v, (v < nV s)%nat ->
     (VertexOn v -> nIV v l = 1%nat) /\ (~ VertexOn v -> nIV v l = 0%nat)) /\
  (forall k, (k < o_ne s)%nat ->
     let e := (2 * k)%nat in
     (EdgeCrossed e -> nIX k l = 1%nat) /\
     (EdgeTouchedByEnd e -> (nIX k l <= 1)%nat) /\
     (~ EdgeCrossed e -> ~ EdgeTouchedByEnd e -> nIX k l = 0%nat) /\
     (EdgeUnderPoint e -> (nIO k l + nIX k l <= 1)%nat) /\
     (EdgeOverlaps e -> nIO k l = 1%nat) /\
     (~ EdgeUnderPoint e -> ~ EdgeOverlaps e -> nIO k l = 0%nat)).

Definition LineSpec (l : list litem) : Prop :=
  (forall it, In it l -> ItemValid it) /\ Complete l /\ Ordered l.
End LP.

(* ------------------------------------------------------------------ C18: Voronoi view *)
Section VP.
Variable s : obs.
Variable pts : list pnt.
Notation pos := (pos pts).
Notation eorg := (eorg s pts).
Notation edst := (edst s pts).
Local Open Scope Z_scope.

(* the vector b - a rotated by +90 degrees *)
Definition rot90 (a b : pnt) : pnt := (- (snd b - snd a), fst b - fst a).

(* directed Voronoi edge dual to e: from = face left of e, to = face right of e (-1: outer face), direction = rot90 of e,
   site = origin of e, next = ccw, prev = cw, rev *)
Definition VorEdgeOk (e : nat) (from to : Z) (dir : pnt) (site nxt prv rv : nat) : Prop :=
  (e < nH s)%nat /\
  from = vface (face s e) /\ to = vface (face s (rev e)) /\
  dir = rot90 (eorg e) (edst e) /\
  site = org s e /\ nxt = ccw s e /\ prv = cw s e /\ rv = rev e.

(* the Voronoi face of v: a duplicate-free list of exactly the out edges of v, consecutive ones related by ccw *)
Definition VorFaceOk (v : nat) (l : list nat) : Prop :=
  NoDup l /\
  (forall e, In e l <-> (e < nH s)%nat /\ org s e = v) /\
  (forall i, (S i < length l)%nat -> nth (S i) l 0%nat = ccw s (nth i l 0%nat)).

(* ------------------------------------------------------------------ C19: classification of the query point *)
Definition NoVertexAt (q : pnt) : Prop := forall v, (v < nV s)%nat -> pos v <> q.
Definition NoEdgeThrough (q : pnt) : Prop := forall e, (e < nH s)%nat -> ~ StrictlyBetween (eorg e) (edst e) q.
Definition NoFaceAround (q : pnt) : Prop := forall f, ~ LocSpec s pts q (LFace f).

Definition ClassifySpec (q : pnt) (r : locres) : Prop :=
  match r with
  | LVertex v => (v < nV s)%nat /\ pos v = q
  | LEdge e => NoVertexAt q /\ (e < nH s)%nat /\ StrictlyBetween (eorg e) (edst e) q
  | LFace f => NoVertexAt q /\ NoEdgeThrough q /\ LocSpec s pts q (LFace f)
  | LOutside _ => False
  | LNone => NoVertexAt q /\ NoEdgeThrough q /\ NoFaceAround q
  end.

(* f is an inner face whose circumcircle strictly contains q *)
Definition InConflict (q : pnt) (f : nat) : Prop :=
  inner_face s f /\ 0 < incircle (tri_a s pts f) (tri_b s pts f) (tri_c s pts f) q.
End VP.
