(* Query/Voronoi.v -- specification of the Voronoi view (C18) and of the interpolation weights (C19) over an observed
   state, in exact integer arithmetic (tolerances are cleared of denominators). Definitions only. *)
From Coq Require Import ZArith List Bool Arith.
From SpadeV Require Import Num.Decode Geom.Pred Obs.State Obs.Spec Obs.Query.
Import ListNotations.
Local Open Scope Z_scope.

Section V.
Variable s : obs.
Variable pts : list pnt.
Notation pos := (pos pts).
Notation eorg := (eorg s pts).
Notation edst := (edst s pts).

Definition vface (f : nat) : Z := if (f =? 0)%nat then -1 else Z.of_nat f.

(* one directed Voronoi edge record: dual edge e, from, to (face index or -1), direction vector (exact, on the points' scale),
   site (face of the Voronoi edge = Delaunay vertex), next, prev, rev *)
Definition vor_edge_ok (e : nat) (from to : Z) (dir : pnt) (site next prev rv : nat) : bool :=
  (e <? nH s)%nat &&
  (from =? vface (face s e)) && (to =? vface (face s (rev e))) &&
  pnt_eqb dir (- (snd (edst e) - snd (eorg e)), fst (edst e) - fst (eorg e)) &&
  (site =? org s e)%nat && (next =? ccw s e)%nat && (prev =? cw s e)%nat && (rv =? rev e)%nat.

(* exact circumcentre of the triangle a b c is a + (ux, uy) / dd *)
Definition cc_num (a b c : pnt) : Z * Z * Z :=
  let bx := fst b - fst a in let by_ := snd b - snd a in
  let cx := fst c - fst a in let cy := snd c - snd a in
  let lb := bx * bx + by_ * by_ in let lc := cx * cx + cy * cy in
  (lb * cy - lc * by_, - lb * cx + lc * bx, 2 * (bx * cy - by_ * cx)).

(* the reported circumcentre (two dyadics on the points' scale) is within relative distance 1/tol of the exact one, relative to the circumradius *)
Definition cc_ok (tol : Z) (f : nat) (x y : dy) : bool :=
  let '(a, b, c) := face_tri s pts f in
  let '(ux, uy, dd) := cc_num a b c in
  let k := Z.min 0 (Z.min (snd x) (snd y)) in
  let kk := Z.shiftl 1 (- k) in
  let xs := Z.shiftl (fst x) (snd x - k) in
  let ys := Z.shiftl (fst y) (snd y - k) in
  let ex := (xs - fst a * kk) * dd - ux * kk in
  let ey := (ys - snd a * kk) * dd - uy * kk in
  (tol * tol * (ex * ex + ey * ey) <=? kk * kk * (ux * ux + uy * uy)).

(* a triangle is well conditioned for this comparison when its circumradius is not huge compared with its shortest edge *)
Definition well_conditioned (f : nat) : bool :=
  let '(a, b, c) := face_tri s pts f in
  let '(ux, uy, dd) := cc_num a b c in
  let lmin := Z.min (dist2 a b) (Z.min (dist2 b c) (dist2 c a)) in
  (ux * ux + uy * uy <=? 10000 * lmin * dd * dd) && negb (dd =? 0).

(* the edges listed for the Voronoi face of vertex v: exactly the out edges of v, once each, consecutive ones related by ccw *)
Definition vor_face_ok (v : nat) (l : list nat) : bool :=
  nodup_nat l &&
  forallb (fun e => (e <? nH s)%nat && (org s e =? v)%nat) l &&
  all_below (nH s) (fun e => negb (org s e =? v)%nat || memb e l) &&
  (fix chain (l : list nat) : bool :=
     match l with
     | a :: ((b :: _) as t) => (b =? ccw s a)%nat && chain t
     | _ => true
     end) l.

(* ------------------------------------------------------------------ interpolation weights *)
(* where does q lie, exactly? *)
Definition classify_point (q : pnt) : locres :=
  match find (fun v => pnt_eqb (pos v) q) (seq 0 (nV s)) with
  | Some v => LVertex v
  | None =>
    match find (fun e => strictly_between (eorg e) (edst e) q) (seq 0 (nH s)) with
    | Some e => LEdge e
    | None =>
      match find (fun f => locspec_b s pts q (LFace f)) (seq 1 (nF s - 1)) with
      | Some f => LFace f
      | None => LNone
      end
    end
  end.

Definition face_vertices (f : nat) : list nat :=
  match adj s f with
  | Some a => [org s a; org s (next s a); org s (next s (next s a))]
  | None => []
  end.

Definition set_eq_nat (a b : list nat) : bool := forallb (fun x => memb x b) a && forallb (fun x => memb x a) b.

(* weights as dyadics; tol = 10^k: |sum - 1| <= 1/tol, w_i >= -1/tol, |sum w_i (p_i - q)|^2 <= max_i |p_i - q|^2 / tol^2 *)
Definition weights_ok (tol : Z) (q : pnt) (ws : list (nat * dy)) : bool :=
  let k := fold_right (fun w acc => Z.min (snd (snd w)) acc) 0 ws in
  let kk := Z.shiftl 1 (- k) in
  let iw (w : nat * dy) := Z.shiftl (fst (snd w)) (snd (snd w) - k) in
  let sum := fold_right (fun w acc => iw w + acc) 0 ws in
  let vx := fold_right (fun w acc => iw w * (fst (pos (fst w)) - fst q) + acc) 0 ws in
  let vy := fold_right (fun w acc => iw w * (snd (pos (fst w)) - snd q) + acc) 0 ws in
  let smax := fold_right (fun w acc => Z.max (dist2 (pos (fst w)) q) acc) 1 ws in
  (tol * Z.abs (sum - kk) <=? kk) &&
  forallb (fun w => (- kk <=? tol * iw w)) ws &&
  (tol * tol * (vx * vx + vy * vy) <=? kk * kk * smax).

(* Barycentric::get_weights *)
Definition bary_ok (tol : Z) (q : pnt) (ws : list (nat * dy)) : bool :=
  let vs := map fst ws in
  forallb (fun v => (v <? nV s)%nat) vs &&
  match classify_point q with
  | LVertex v => match ws with [(v', (m, e))] => (v' =? v)%nat && (m =? 1) && (e =? 0) | _ => false end
  | LEdge e => (length ws =? 2)%nat && set_eq_nat vs [org s e; dest s e] && weights_ok tol q ws
  | LFace f => (length ws =? 3)%nat && set_eq_nat vs (face_vertices f) && (negb (well_conditioned f) || weights_ok tol q ws)
  | _ => match ws with [] => true | _ => false end
  end.

(* faces whose circumcircle strictly contains q *)
Definition conflict_faces (q : pnt) : list nat :=
  filter (fun f => let '(a, b, c) := face_tri s pts f in (0 <? incircle a b c q)) (seq 1 (nF s - 1)).
Definition natural_neighbours (q : pnt) : list nat := nodup Nat.eq_dec (flat_map face_vertices (conflict_faces q)).

(* NaturalNeighbor::get_weights *)
Definition nnw_ok (tol : Z) (q : pnt) (ws : list (nat * dy)) : bool :=
  let vs := map fst ws in
  forallb (fun v => (v <? nV s)%nat) vs && nodup_nat vs &&
  match classify_point q with
  | LVertex v => match ws with [(v', (m, e))] => (v' =? v)%nat && (m =? 1) && (e =? 0) | _ => false end
  | LFace f => set_eq_nat vs (natural_neighbours q)
               && (negb (forallb well_conditioned (conflict_faces q)) || weights_ok tol q ws)
  | LEdge e => (if (face s e =? 0)%nat || (face s (rev e) =? 0)%nat then true else set_eq_nat vs (natural_neighbours q))
               && (negb (forallb well_conditioned (conflict_faces q)) || weights_ok tol q ws)
  | _ => match ws with [] => true | _ => false end
  end.
End V.
