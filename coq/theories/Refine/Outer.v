(* Refine/Outer.v -- specification side of refine() (C20) and add_constraint_and_split (C13): coverage of constraint
   segments by chains of constraint edges, and the parity specification of excluded (outer) faces. Definitions only. *)
From Coq Require Import ZArith List Bool Arith.
From SpadeV Require Import Geom.Pred Obs.State Obs.Spec Obs.Query.
Import ListNotations.

Section Cover.
Variable s : obs.                 (* the state after the operation *)
Variable pts : list pnt.
Variable old_nv : nat.            (* vertices with index >= old_nv were created by the operation *)
Variable allowed : list nat.      (* old vertices at which the operation may subdivide as well: the vertices of the chain it returns
                                     (add_constraint_and_split: an intersection that rounds onto an existing vertex subdivides there) *)

(* flagged out-neighbours of vertex u *)
Definition flagged_out (u : nat) : list nat :=
  map (dest s) (filter (fun e => (org s e =? u) && flag s e) (seq 0 (nH s))).

(* is there a chain of constraint edges from u to v whose interior vertices are new vertices, allowed vertices, or old vertices
   lying in the relative interior of the segment (pos a, pos b)?  depth-first search with a visited list and fuel *)
Fixpoint cover_dfs (fuel : nat) (a b : pnt) (target : nat) (visited : list nat) (u : nat) : bool :=
  match fuel with
  | O => false
  | S k =>
      (u =? target) ||
      existsb (fun w =>
                 negb (memb w visited) &&
                 ((w =? target) || (old_nv <=? w) || memb w allowed || strictly_between a b (pos pts w)) &&
                 cover_dfs k a b target (w :: visited) w)
              (flagged_out u)
  end.

Definition covered (u v : nat) : bool :=
  cover_dfs (nV s + 1) (pos pts u) (pos pts v) v [u] u.
End Cover.

(* every constraint edge (u,v) of the old state is still covered in the new state (vertex indices are stable) *)
Definition constraints_covered_via (allowed : list nat) (p n : obs) (npts : list pnt) : bool :=
  forallb (fun k => negb (flag p (2 * k)) || covered n npts (nV p) allowed (org p (2 * k)) (dest p (2 * k))) (seq 0 (o_ne p)).
(* refine subdivides at new vertices only *)
Definition constraints_covered (p n : obs) (npts : list pnt) : bool := constraints_covered_via [] p n npts.

(* with keep_constraint_edges: every old constraint edge is still an edge of the new state with the same end points, flagged *)
Definition constraints_kept (p n : obs) : bool :=
  forallb (fun k => negb (flag p (2 * k)) ||
                    existsb (fun e => (org n e =? org p (2 * k)) && (dest n e =? dest p (2 * k)) && flag n e) (seq 0 (nH n)))
          (seq 0 (o_ne p)).

(* ---- excluded faces: parity of the minimal number of constraint edges crossed on a path from the outer face ---- *)
Section Parity.
Variable s : obs.
(* faces adjacent to a face in `layer` through an edge with the given flag value *)
Definition neighbours (layer : list nat) (flg : bool) : list nat :=
  flat_map (fun e => if memb (face s e) layer && Bool.eqb (flag s e) flg then [face s (rev e)] else []) (seq 0 (nH s)).
(* closure of `layer` under crossing free (unflagged) edges, avoiding `seen` *)
Fixpoint free_closure (fuel : nat) (seen layer : list nat) : list nat :=
  match fuel with
  | O => layer
  | S k =>
      let nw := filter (fun f => negb (memb f seen) && negb (memb f layer)) (neighbours layer false) in
      match nw with
      | [] => layer
      | _ => free_closure k seen (nodup Nat.eq_dec (layer ++ nw))
      end
  end.
(* layers.(i) = faces whose cheapest path from the outer face crosses exactly i constraint edges *)
Fixpoint layers (fuel : nat) (seen : list nat) (start : list nat) : list (list nat) :=
  match fuel with
  | O => []
  | S k =>
      match start with
      | [] => []
      | _ =>
        let layer := free_closure (nF s) seen start in
        let seen' := seen ++ layer in
        let next := nodup Nat.eq_dec (filter (fun f => negb (memb f seen')) (neighbours layer true)) in
        layer :: layers k seen' next
      end
  end.
Fixpoint even_layers {A} (l : list (list A)) : list A :=
  match l with
  | a :: _ :: t => a ++ even_layers t
  | [a] => a
  | [] => []
  end.
(* the inner faces in even layers: the outer region and the holes *)
Definition parity_excluded : list nat := filter (fun f => negb (f =? 0)) (even_layers (layers (nF s + 1) [] [0])).
End Parity.

Definition excluded_ok (n : obs) (got : list nat) : bool :=
  if nF n =? 1 then match got with [] => true | _ => false end
  else same_set (fun f => memb f (parity_excluded n)) (nF n) got.
