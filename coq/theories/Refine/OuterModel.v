(* Refine/OuterModel.v -- hand-written executable model of `calculate_outer_faces` (src/delaunay_core/refinement.rs), the flood fill with
   which `refine` computes the faces excluded by `exclude_outer_faces(true)`.  It follows the code: the early exit for a degenerate
   triangulation, the three hash sets `assigned_faces` / `inner_faces` / `outer_faces` (lists without duplicates: HashSet::insert reports
   whether the value was new), `current_todo_list` (a Vec used as a stack: the head of the list is the last element of the Vec) seeded with
   the reversed convex hull edges, `next_todo_list` (a Vec that is drained front to back) which receives the constraint edges met while a layer
   is peeled off, the alternation `current_layer_is_outer`, and the exit test after the next layer has been pre-populated.  Both loops carry
   explicit fuel (None = out of fuel).  The iteration order of the hash sets is not observable; the result is compared as a set.
   Definitions only; Refine/OuterModelProofs.v proves that on well-formed states the model terminates within the fuel used here and returns
   exactly the faces of `parity_excluded` (Refine/Outer.v), i.e. the inner faces of even depth. *)
From Coq Require Import List Arith Bool.
From SpadeV Require Import Obs.State Dcel.Raw Query.Hull Tri.Legalize.
Import ListNotations.

Section O.
Variable d : dcel.

Record ostate := mko {
  os_assigned : list nat;          (* assigned_faces *)
  os_inner : list nat;             (* inner_faces *)
  os_outer : list nat;             (* outer_faces *)
  os_cur : list nat                (* current_todo_list; head = top of the stack *)
}.

(* the common body of both loops for an edge that is crossed into its face:
     if let Some(inner) = next_edge.face().as_inner() { if assigned_faces.insert(inner.fix()) { (outer|inner)_faces.insert(..);
        current_todo_list.push(next_edge.prev().rev()); current_todo_list.push(next_edge.next().rev()); } } *)
Definition visit (layer_is_outer : bool) (st : ostate) (e : nat) : ostate :=
  let f := e_face d e in
  if f =? 0 then st
  else if memb f (os_assigned st) then st
  else mko (f :: os_assigned st)
           (if layer_is_outer then os_inner st else f :: os_inner st)
           (if layer_is_outer then f :: os_outer st else os_outer st)
           (e_rev (e_next d e) :: e_rev (e_prev d e) :: os_cur st).

(* while let Some(next_edge) = current_todo_list.pop() { .. } *)
Fixpoint drain_stack (fuel : nat) (layer_is_outer : bool) (st : ostate) (next : list nat) : option (ostate * list nat) :=
  match fuel with
  | O => None
  | S k =>
    match os_cur st with
    | [] => Some (st, next)
    | e :: rest =>
      let st0 := mko (os_assigned st) (os_inner st) (os_outer st) rest in
      if is_flagged d e then drain_stack k layer_is_outer st0 (next ++ [e])      (* crossing a constraint edge leads into the next layer *)
      else drain_stack k layer_is_outer (visit layer_is_outer st0 e) next
    end
  end.

Definition drain_fuel : nat := num_directed_edges d + 2 * num_faces d + 1.

(* loop { while ..; current_layer_is_outer = !current_layer_is_outer; for next_edge in next_todo_list.drain(..) { .. };
          if current_todo_list.is_empty() { break; } } *)
Fixpoint layer_loop (fuel : nat) (layer_is_outer : bool) (st : ostate) : option ostate :=
  match fuel with
  | O => None
  | S k =>
    match drain_stack drain_fuel layer_is_outer st [] with
    | None => None
    | Some (st1, next) =>
      let st2 := fold_left (visit (negb layer_is_outer)) next st1 in
      match os_cur st2 with
      | [] => Some st2
      | _ :: _ => layer_loop k (negb layer_is_outer) st2
      end
    end
  end.

(* triangulation.convex_hull(): HullIterator from the outer face's adjacent edge *)
Definition hull_edges : option (list nat) :=
  match f_adjacent d 0 with
  | None => Some []
  | Some a => circ_iter (e_next d) (num_directed_edges d) a a
  end.

Definition calculate_outer_state : option ostate :=
  match hull_edges with
  | None => None
  | Some hull => layer_loop (num_faces d + 1) true (mko [] [] [] (List.rev (map e_rev hull)))
  end.

Definition calculate_outer_faces : option (list nat) :=
  if num_faces d =? 1 then Some []                      (* all_vertices_on_line() *)
  else option_map os_outer calculate_outer_state.
End O.
