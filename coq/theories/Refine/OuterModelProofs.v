(* Refine/OuterModelProofs.v -- the model of `calculate_outer_faces` (Refine/OuterModel.v) against the parity specification of
   Refine/Outer.v / OuterProp.v: on every well-formed observed state the model terminates within its fuel, its `outer_faces` set is
   duplicate-free and contains exactly the faces of `parity_excluded` (proved in Refine/OuterProofs.v to be the inner faces whose minimal
   number of crossed constraint edges on a dual path from the outer face is even).
   Proof: an invariant of the depth-first stack loop at layer i (every assigned face has its depth, every face of smaller depth is assigned,
   every edge leaving an assigned face of depth i is on the stack, deferred to the next layer, or leads to an assigned face), carried through the
   pre-population of the next layer; the exit test `current_todo_list.is_empty()` holds exactly when no face of the next depth exists. *)
From Coq Require Import List Arith Bool Lia.
From SpadeV Require Import Obs.State Obs.Spec Obs.SpecProp Obs.SpecProofs Dcel.Raw Query.Hull Query.HullProofs Tri.Legalize
  Cdt.SplitProofs Refine.Outer Refine.OuterProp Refine.OuterProofs Refine.OuterModel.
Import ListNotations.

Lemma div2_rev : forall e, Nat.div2 (rev e) = Nat.div2 e.
Proof.
  intros e. unfold rev. destruct (Nat.even e) eqn:Ev.
  - apply Nat.even_spec in Ev. destruct Ev as [k Ek]. subst e.
    rewrite Nat.div2_succ_double. symmetry. apply Nat.div2_double.
  - assert (Ho : Nat.odd e = true) by (rewrite <- Nat.negb_even, Ev; reflexivity).
    apply Nat.odd_spec in Ho. destruct Ho as [k Ek]. subst e.
    replace (Nat.pred (2 * k + 1)) with (2 * k) by lia.
    replace (2 * k + 1) with (S (2 * k)) by lia.
    rewrite Nat.div2_succ_double. rewrite Nat.div2_double. reflexivity.
Qed.

Lemma flag_rev : forall s e, flag s (rev e) = flag s e.
Proof. intros s e. unfold flag. rewrite div2_rev. reflexivity. Qed.

Section P.
Variable s : obs.
Hypothesis Hwf : Wf s.
Let d := dcel_of_obs s.

Notation DualPath := (DualPath s).
Notation Layer := (Layer s).
Notation SeenBelow := (SeenBelow s).

Let Hrange : FacesInRange s := Wf_FacesInRange s Hwf.

Lemma rev_lt : forall e, e < nH s -> rev e < nH s.
Proof. exact (Wf_rev_lt s Hwf). Qed.

Lemma next_lt : forall e, e < nH s -> next s e < nH s.
Proof. intros e He. pose proof Hwf as Hwf0; destruct Hwf0 as (_ & (HR & _) & _). apply (HR e He). Qed.
Lemma prev_lt : forall e, e < nH s -> prev s e < nH s.
Proof. intros e He. pose proof Hwf as Hwf0; destruct Hwf0 as (_ & (HR & _) & _). apply (HR e He). Qed.
Lemma face_lt : forall e, e < nH s -> face s e < nF s.
Proof. intros e He. pose proof Hwf as Hwf0; destruct Hwf0 as (_ & (HR & _) & _). apply (HR e He). Qed.
Lemma face_next : forall e, e < nH s -> face s (next s e) = face s e.
Proof. intros e He. pose proof Hwf as Hwf0; destruct Hwf0 as (_ & _ & HL & _). apply (HL e He). Qed.
Lemma prev_next : forall e, e < nH s -> prev s (next s e) = e.
Proof. intros e He. pose proof Hwf as Hwf0; destruct Hwf0 as (_ & _ & HL & _). apply (HL e He). Qed.
Lemma next_prev : forall e, e < nH s -> next s (prev s e) = e.
Proof. intros e He. pose proof Hwf as Hwf0; destruct Hwf0 as (_ & _ & HL & _). apply (HL e He). Qed.
Lemma face_prev : forall e, e < nH s -> face s (prev s e) = face s e.
Proof.
  intros e He. rewrite <- (face_next (prev s e)) by (apply prev_lt; exact He).
  rewrite next_prev by exact He. reflexivity.
Qed.

(* the half-edges of an inner face are e, next e, prev e *)
Lemma triangle_edges : forall e e', e < nH s -> e' < nH s -> face s e <> 0 -> face s e' = face s e ->
  e' = e \/ e' = next s e \/ e' = prev s e.
Proof.
  intros e e' He He' Hf Hff.
  assert (HT : WfTriangles s) by (pose proof Hwf as Hwf0; destruct Hwf0 as (_ & _ & _ & _ & _ & HT & _); exact HT).
  destruct (HT e He Hf) as [H3 [a [Ha Hea]]].
  assert (Hf' : face s e' <> 0) by (rewrite Hff; exact Hf).
  destruct (HT e' He' Hf') as [H3' [a' [Ha' Hea']]].
  rewrite Hff, Ha in Ha'. injection Ha' as Ha'. subst a'.
  assert (Hp : prev s e = next s (next s e)).
  { rewrite <- H3 at 1. apply prev_next. apply next_lt. apply next_lt. exact He. }
  rewrite Hp.
  assert (Hafe : a < nH s).
  { pose proof Hwf as Hwf0; destruct Hwf0 as (_ & (_ & _ & HRf) & _). apply (HRf (face s e)); [apply face_lt; exact He | exact Ha]. }
  assert (Hfa : face s a <> 0).
  { destruct Hea as [E | [E | E]]; subst e; rewrite ?face_next in Hf; try exact Hf; try (apply next_lt; exact Hafe); exact Hafe. }
  destruct (HT a Hafe Hfa) as [H3a _].
  destruct Hea as [E | [E | E]]; destruct Hea' as [E' | [E' | E']]; subst e e'; rewrite ?H3a; tauto.
Qed.

Lemma Layer_0_0 : Layer 0 0.
Proof. split; [constructor | intros j Hj; lia]. Qed.

Lemma Layer_le : forall j k f, Layer j f -> DualPath k f -> j <= k.
Proof.
  intros j k f [_ Hmin] Hp. destruct (Nat.le_gt_cases j k) as [H | H]; [exact H |].
  exfalso. apply (Hmin k H Hp).
Qed.

Definition inA (A : list nat) (f : nat) : Prop := f = 0 \/ In f A.

Lemma inA_mono : forall A f g, inA A g -> inA (f :: A) g.
Proof. intros A f g [H | H]; [left; exact H | right; right; exact H]. Qed.

(* crossing half-edge e from the face on its right (the face of its twin) into its own face *)
Lemma cross_free : forall i e, e < nH s -> flag s e = false -> DualPath i (face s (rev e)) -> DualPath i (face s e).
Proof.
  intros i e He Hfl Hp. eapply DP_free; [exact Hp |]. exists (rev e).
  split; [apply rev_lt; exact He |]. split; [reflexivity |]. split; [rewrite flag_rev; exact Hfl |].
  rewrite rev_invol. reflexivity.
Qed.
Lemma cross_cons : forall i e, e < nH s -> flag s e = true -> DualPath i (face s (rev e)) -> DualPath (S i) (face s e).
Proof.
  intros i e He Hfl Hp. eapply DP_cons; [exact Hp |]. exists (rev e).
  split; [apply rev_lt; exact He |]. split; [reflexivity |]. split; [rewrite flag_rev; exact Hfl |].
  rewrite rev_invol. reflexivity.
Qed.

(* ------------------------------------------------------------------ the invariant *)
(* i: the current layer; A, O: assigned_faces, outer_faces; cur: current_todo_list; nxt: next_todo_list (while a layer is peeled);
   pend: the part of next_todo_list that is still to be drained (while the next layer is pre-populated); hole: the edge just popped *)
Record Inv (i : nat) (A O cur nxt pend : list nat) (hole : nat -> Prop) : Prop := mkInv {
  iv_nodup : NoDup A;
  iv_range : forall f, In f A -> 1 <= f < nF s;
  iv_onodup : NoDup O;
  iv_osub : forall f, In f O -> In f A;
  iv_below : forall f, SeenBelow i f -> inA A f;
  iv_sound : forall f, In f A -> exists j, j <= i /\ Layer j f /\ (Nat.even j = true <-> In f O);
  iv_cur : forall e, In e cur -> e < nH s /\ DualPath i (face s (rev e)) /\ inA A (face s (rev e));
  iv_next : forall e, In e nxt -> e < nH s /\ flag s e = true /\ DualPath i (face s (rev e)) /\ inA A (face s (rev e));
  iv_pend : forall e, In e pend -> e < nH s /\ flag s e = true /\ inA A (face s (rev e)) /\
                                  exists k, S k = i /\ DualPath k (face s (rev e));
  iv_closed : forall e', e' < nH s -> inA A (face s e') -> Layer i (face s e') ->
                In (rev e') cur \/ (flag s e' = true /\ In (rev e') nxt) \/ inA A (face s (rev e')) \/ hole (rev e');
  iv_prev : forall k, S k = i -> forall e', e' < nH s -> Layer k (face s e') -> flag s e' = true ->
                inA A (face s (rev e')) \/ In (rev e') pend \/ hole (rev e')
}.

Definition no_hole : nat -> Prop := fun _ => False.

(* every assigned face (and the outer face) has a layer at most i *)
Lemma inA_layer : forall i A O cur nxt pend hole, Inv i A O cur nxt pend hole ->
  forall f, inA A f -> exists j, j <= i /\ Layer j f.
Proof.
  intros i A O cur nxt pend hole HI f [E | Hin].
  - subst f. exists 0. split; [lia | exact Layer_0_0].
  - destruct (iv_sound _ _ _ _ _ _ _ HI f Hin) as [j [Hj [HL _]]]. exists j. split; assumption.
Qed.

(* ------------------------------------------------------------------ one call of the common body *)
Lemma visit_inv : forall i A I O cur nxt pend e,
  Inv i A O cur nxt pend (eq e) ->
  e < nH s -> DualPath i (face s e) -> inA A (face s (rev e)) ->
  exists A' I' O' cur',
    visit d (Nat.even i) (mko A I O cur) e = mko A' I' O' cur' /\
    Inv i A' O' cur' nxt pend no_hole /\
    ((A' = A /\ cur' = cur) \/ (length A' = S (length A) /\ length cur' = S (S (length cur)))).
Proof.
  intros i A I O cur nxt pend e HI He Hdp Hback.
  unfold visit. cbn [os_assigned os_inner os_outer os_cur].
  change (e_face d e) with (face s e).
  destruct (face s e =? 0) eqn:E0.
  { apply Nat.eqb_eq in E0. exists A, I, O, cur. split; [reflexivity |]. split; [| left; split; reflexivity].
    destruct HI as [H1 H2 H3 H4 H5 H6 H7 H8 H9 H10 H11]. constructor; try assumption.
    - intros e' He' HA HL. destruct (H10 e' He' HA HL) as [H | [H | [H | H]]]; [left; exact H | right; left; exact H | right; right; left; exact H |].
      right; right; left. rewrite <- H, E0. left. reflexivity.
    - intros k Hk e' He' HL Hfl. destruct (H11 k Hk e' He' HL Hfl) as [H | [H | H]]; [left; exact H | right; left; exact H |].
      left. rewrite <- H, E0. left. reflexivity. }
  destruct (memb (face s e) A) eqn:EA.
  { apply memb_spec in EA. exists A, I, O, cur. split; [reflexivity |]. split; [| left; split; reflexivity].
    destruct HI as [H1 H2 H3 H4 H5 H6 H7 H8 H9 H10 H11]. constructor; try assumption.
    - intros e' He' HA HL. destruct (H10 e' He' HA HL) as [H | [H | [H | H]]]; [left; exact H | right; left; exact H | right; right; left; exact H |].
      right; right; left. rewrite <- H. right. exact EA.
    - intros k Hk e' He' HL Hfl. destruct (H11 k Hk e' He' HL Hfl) as [H | [H | H]]; [left; exact H | right; left; exact H |].
      left. rewrite <- H. right. exact EA. }
  apply Nat.eqb_neq in E0.
  assert (HnA : ~ In (face s e) A).
  { intros H. apply memb_spec in H. rewrite H in EA. discriminate EA. }
  set (f := face s e) in *.
  set (O' := if Nat.even i then f :: O else O).
  exists (f :: A), (if Nat.even i then I else f :: I), O', (e_rev (e_next d e) :: e_rev (e_prev d e) :: cur).
  split; [reflexivity |]. split; [| right; split; reflexivity].
  change (e_rev (e_next d e)) with (rev (next s e)). change (e_rev (e_prev d e)) with (rev (prev s e)).
  assert (HLf : Layer i f).
  { split; [exact Hdp |]. intros j Hj Hpj.
    destruct (iv_below _ _ _ _ _ _ _ HI f) as [E | Hin]; [exists j; split; assumption | exact (E0 E) | exact (HnA Hin)]. }
  destruct HI as [H1 H2 H3 H4 H5 H6 H7 H8 H9 H10 H11]. constructor.
  - constructor; assumption.
  - intros g [E | Hg]; [subst g; split; [lia | apply face_lt; exact He] | apply H2; exact Hg].
  - unfold O'. destruct (Nat.even i); [constructor; [intros H; apply HnA; apply H4; exact H | exact H3] | exact H3].
  - unfold O'. intros g Hg. destruct (Nat.even i); [destruct Hg as [E | Hg]; [left; exact E | right; apply H4; exact Hg] | right; apply H4; exact Hg].
  - intros g Hg. apply inA_mono. apply H5. exact Hg.
  - intros g [E | Hg].
    + subst g. exists i. split; [lia |]. split; [exact HLf |]. unfold O'. destruct (Nat.even i) eqn:Ev.
      * split; [intros _; left; reflexivity | reflexivity].
      * split; [intros H; discriminate H | intros H; exfalso; apply HnA; apply H4; exact H].
    + destruct (H6 g Hg) as [j [Hj [HLj Hev]]]. exists j. split; [exact Hj |]. split; [exact HLj |].
      unfold O'. destruct (Nat.even i); [| exact Hev].
      rewrite Hev. split; [intros H; right; exact H |]. intros [E | H]; [| exact H]. exfalso. apply HnA. rewrite E. exact Hg.
  - intros x [E | [E | Hx]].
    + subst x. split; [apply rev_lt; apply next_lt; exact He |]. rewrite rev_invol, face_next by exact He.
      split; [exact Hdp | right; left; reflexivity].
    + subst x. split; [apply rev_lt; apply prev_lt; exact He |]. rewrite rev_invol, face_prev by exact He.
      split; [exact Hdp | right; left; reflexivity].
    + destruct (H7 x Hx) as [Hx1 [Hx2 Hx3]]. split; [exact Hx1 |]. split; [exact Hx2 | apply inA_mono; exact Hx3].
  - intros x Hx. destruct (H8 x Hx) as [Hx1 [Hx2 [Hx3 Hx4]]]. repeat split; try assumption. apply inA_mono. exact Hx4.
  - intros x Hx. destruct (H9 x Hx) as [Hx1 [Hx2 [Hx3 Hx4]]]. repeat split; try assumption. apply inA_mono. exact Hx3.
  - intros e' He' HA HL.
    assert (Hold : inA A (face s e') -> In (rev e') (rev (next s e) :: rev (prev s e) :: cur) \/ (flag s e' = true /\ In (rev e') nxt) \/
                                        inA (f :: A) (face s (rev e')) \/ no_hole (rev e')).
    { intros HA0. destruct (H10 e' He' HA0 HL) as [H | [H | [H | H]]].
      - left. right. right. exact H.
      - right. left. exact H.
      - right. right. left. apply inA_mono. exact H.
      - right. right. left. rewrite <- H. right. left. reflexivity. }
    destruct HA as [E | [E | HA]]; [apply Hold; left; exact E | | apply Hold; right; exact HA].
    destruct (triangle_edges e e' He He' E0 (eq_sym E)) as [E' | [E' | E']]; subst e'.
    + right. right. left. apply inA_mono. exact Hback.
    + left. left. reflexivity.
    + left. right. left. reflexivity.
  - intros k Hk e' He' HL Hfl. destruct (H11 k Hk e' He' HL Hfl) as [H | [H | H]].
    + left. apply inA_mono. exact H.
    + right. left. exact H.
    + left. rewrite <- H. right. left. reflexivity.
Qed.

(* ------------------------------------------------------------------ the stack loop of one layer *)
Lemma drain_spec : forall fuel i A I O cur nxt,
  Inv i A O cur nxt [] no_hole ->
  length cur + 2 * (nF s - 1 - length A) < fuel ->
  exists A' I' O' nxt',
    drain_stack d fuel (Nat.even i) (mko A I O cur) nxt = Some (mko A' I' O' [], nxt') /\
    Inv i A' O' [] nxt' [] no_hole /\ length A <= length A'.
Proof.
  induction fuel as [| fuel IH]; intros i A I O cur nxt HI Hm; [lia |].
  cbn [drain_stack os_cur os_assigned os_inner os_outer].
  destruct cur as [| e rest].
  { exists A, I, O, nxt. split; [reflexivity |]. split; [exact HI | lia]. }
  destruct (iv_cur _ _ _ _ _ _ _ HI e (or_introl eq_refl)) as [He [Hdp Hback]].
  assert (HlenA : length A <= nF s - 1).
  { assert (H : length A <= length (seq 1 (nF s - 1))).
    { apply NoDup_incl_length; [exact (iv_nodup _ _ _ _ _ _ _ HI) |].
      intros f Hf. apply in_seq. pose proof (iv_range _ _ _ _ _ _ _ HI f Hf). lia. }
    rewrite seq_length in H. exact H. }
  change (is_flagged d e) with (flag s e).
  destruct (flag s e) eqn:Efl.
  - (* deferred to the next layer *)
    destruct (IH i A I O rest (nxt ++ [e])) as [A' [I' [O' [nxt' [Hrun [HI' Hlen]]]]]].
    + destruct HI as [H1 H2 H3 H4 H5 H6 H7 H8 H9 H10 H11]. constructor; try assumption.
      * intros x Hx. apply H7. right. exact Hx.
      * intros x Hx. apply in_app_or in Hx. destruct Hx as [Hx | [E | []]]; [apply H8; exact Hx |].
        subst x. repeat split; assumption.
      * intros e' He' HA HL. destruct (H10 e' He' HA HL) as [[E | H] | [[Hf H] | [H | []]]].
        -- right. left. split; [rewrite <- (flag_rev s e'), <- E; exact Efl | apply in_or_app; right; left; exact E].
        -- left. exact H.
        -- right. left. split; [exact Hf | apply in_or_app; left; exact H].
        -- right. right. left. exact H.
    + cbn [length] in Hm. lia.
    + exists A', I', O', nxt'. split; [exact Hrun |]. split; [exact HI' | exact Hlen].
  - (* crossed *)
    assert (HI0 : Inv i A O rest nxt [] (eq e)).
    { destruct HI as [H1 H2 H3 H4 H5 H6 H7 H8 H9 H10 H11]. constructor; try assumption.
      - intros x Hx. apply H7. right. exact Hx.
      - intros e' He' HA HL. destruct (H10 e' He' HA HL) as [[E | H] | [H | [H | []]]].
        + right. right. right. exact E.
        + left. exact H.
        + right. left. exact H.
        + right. right. left. exact H.
      - intros k Hk e' He' HL Hfl. destruct (H11 k Hk e' He' HL Hfl) as [H | [[] | []]]. left. exact H. }
    destruct (visit_inv i A I O rest nxt [] e HI0 He (cross_free i e He Efl Hdp) Hback)
      as [A1 [I1 [O1 [cur1 [Hv [HI1 Hsz]]]]]].
    rewrite Hv.
    destruct (IH i A1 I1 O1 cur1 nxt HI1) as [A' [I' [O' [nxt' [Hrun [HI' Hlen]]]]]].
    + cbn [length] in Hm. destruct Hsz as [[EA Ec] | [EA Ec]]; [subst A1 cur1; lia |].
      assert (HlenA1 : length A1 <= nF s - 1).
      { assert (H : length A1 <= length (seq 1 (nF s - 1))).
        { apply NoDup_incl_length; [exact (iv_nodup _ _ _ _ _ _ _ HI1) |].
          intros f Hf. apply in_seq. pose proof (iv_range _ _ _ _ _ _ _ HI1 f Hf). lia. }
        rewrite seq_length in H. exact H. }
      lia.
    + exists A', I', O', nxt'. split; [exact Hrun |]. split; [exact HI' |].
      destruct Hsz as [[EA _] | [EA _]]; [subst A1; exact Hlen | lia].
Qed.

(* when the stack is empty every face of depth at most i is assigned *)
Lemma assigned_complete : forall i A O nxt, Inv i A O [] nxt [] no_hole ->
  forall m f, DualPath m f -> m <= i -> inA A f.
Proof.
  intros i A O nxt HI m f Hp. induction Hp as [| k f g Hp IH Hstep | k f g Hp IH Hstep]; intros Hm.
  - left. reflexivity.
  - specialize (IH Hm). destruct Hstep as [e' [He' [Hfe [Hfl Hg]]]].
    destruct (inA_layer _ _ _ _ _ _ _ HI f IH) as [j [Hj HLj]].
    destruct (Nat.eq_dec j i) as [E | NE].
    + subst j. rewrite <- Hfe in IH, HLj.
      destruct (iv_closed _ _ _ _ _ _ _ HI e' He' IH HLj) as [[] | [[Hf _] | [H | []]]].
      * rewrite Hfl in Hf. discriminate Hf.
      * rewrite Hg in H. exact H.
    + apply (iv_below _ _ _ _ _ _ _ HI). exists j. split; [lia |].
      eapply DP_free; [apply HLj |]. exists e'. repeat split; assumption.
  - destruct Hstep as [e' [He' [Hfe [Hfl Hg]]]].
    assert (IH' : inA A f) by (apply IH; lia).
    destruct (inA_layer _ _ _ _ _ _ _ HI f IH') as [j [Hj HLj]].
    pose proof (Layer_le j k f HLj Hp) as Hjk.
    destruct (Nat.eq_dec (S j) i) as [E | NE].
    + assert (j = k) by lia. subst j. rewrite <- Hfe in HLj.
      destruct (iv_prev _ _ _ _ _ _ _ HI k E e' He' HLj Hfl) as [H | [[] | []]]. rewrite Hg in H. exact H.
    + apply (iv_below _ _ _ _ _ _ _ HI). exists (S j). split; [lia |].
      eapply DP_cons; [apply HLj |]. exists e'. repeat split; assumption.
Qed.

(* from the end of the stack loop to the start of the pre-population of layer S i *)
Lemma layer_transition : forall i A O nxt, Inv i A O [] nxt [] no_hole ->
  Inv (S i) A O [] [] nxt no_hole /\ (forall f, In f A -> ~ Layer (S i) f).
Proof.
  intros i A O nxt HI.
  assert (Hnl : forall f, inA A f -> ~ Layer (S i) f).
  { intros f Hf HL. destruct (inA_layer _ _ _ _ _ _ _ HI f Hf) as [j [Hj HLj]].
    pose proof (Layer_unique s _ _ _ HL HLj). lia. }
  split; [| intros f Hf; apply Hnl; right; exact Hf].
  pose proof (assigned_complete i A O nxt HI) as Hc.
  destruct HI as [H1 H2 H3 H4 H5 H6 H7 H8 H9 H10 H11]. constructor; try assumption.
  - intros f [j [Hj Hp]]. apply (Hc j f Hp). lia.
  - intros f Hf. destruct (H6 f Hf) as [j [Hj Hr]]. exists j. split; [lia | exact Hr].
  - intros e [].
  - intros e [].
  - intros e He. destruct (H8 e He) as [Ha [Hb [Hc' Hd]]]. repeat split; try assumption. exists i. split; [reflexivity | exact Hc'].
  - intros e' He' HA HL. exfalso. apply (Hnl _ HA HL).
  - intros k Hk e' He' HL Hfl. injection Hk as Hk. subst k.
    assert (HA : inA A (face s e')) by (apply (Hc i); [apply HL | lia]).
    destruct (H10 e' He' HA HL) as [[] | [[_ H] | [H | []]]]; [right; left; exact H | left; exact H].
Qed.

(* for next_edge in next_todo_list.drain(..) *)
Lemma prepopulate_spec : forall pend i A I O cur,
  Inv (S i) A O cur [] pend no_hole ->
  (cur = [] -> forall f, In f A -> ~ Layer (S i) f) ->
  length cur <= 2 * length A ->
  exists A' I' O' cur',
    fold_left (visit d (Nat.even (S i))) pend (mko A I O cur) = mko A' I' O' cur' /\
    Inv (S i) A' O' cur' [] [] no_hole /\
    (cur' = [] -> forall f, In f A' -> ~ Layer (S i) f) /\
    length cur' <= 2 * length A' /\ length A <= length A' /\ (cur = [] -> cur' <> [] -> length A < length A').
Proof.
  induction pend as [| e pend IH]; intros i A I O cur HI HE Hlen.
  { exists A, I, O, cur. cbn [fold_left]. split; [reflexivity |]. split; [exact HI |]. split; [exact HE |]. split; [exact Hlen |].
    split; [lia |]. intros E1 E2. contradiction. }
  cbn [fold_left].
  destruct (iv_pend _ _ _ _ _ _ _ HI e (or_introl eq_refl)) as [He [Hfl [Hback [k [Hk Hdp]]]]].
  injection Hk as Hk. subst k.
  assert (HI0 : Inv (S i) A O cur [] pend (eq e)).
  { destruct HI as [H1 H2 H3 H4 H5 H6 H7 H8 H9 H10 H11]. constructor; try assumption.
    - intros x Hx. apply H9. right. exact Hx.
    - intros e' He' HA HL. destruct (H10 e' He' HA HL) as [H | [H | [H | []]]]; [left; exact H | right; left; exact H | right; right; left; exact H].
    - intros k Hk e' He' HL Hfl'. destruct (H11 k Hk e' He' HL Hfl') as [H | [[E | H] | []]].
      + left. exact H.
      + right. right. exact E.
      + right. left. exact H. }
  destruct (visit_inv (S i) A I O cur [] pend e HI0 He (cross_cons i e He Hfl Hdp) Hback)
    as [A1 [I1 [O1 [cur1 [Hv [HI1 Hsz]]]]]].
  rewrite Hv.
  destruct (IH i A1 I1 O1 cur1 HI1) as [A' [I' [O' [cur' [Hrun [HI' [HE' [Hlen' [HlenA Hgrow]]]]]]]]].
  - destruct Hsz as [[EA Ec] | [EA Ec]]; [subst A1 cur1; exact HE |].
    intros Ec1. rewrite Ec1 in Ec. cbn [length] in Ec. lia.
  - destruct Hsz as [[EA Ec] | [EA Ec]]; [subst A1 cur1; exact Hlen | lia].
  - exists A', I', O', cur'. split; [exact Hrun |]. split; [exact HI' |]. split; [exact HE' |]. split; [exact Hlen' |].
    destruct Hsz as [[EA Ec] | [EA Ec]].
    + subst A1 cur1. split; [exact HlenA | exact Hgrow].
    + split; [lia |]. intros _ _. lia.
Qed.

(* the exit: no face of the next depth exists, hence no deeper face either *)
Lemma final_spec : forall i A O, Inv (S i) A O [] [] [] no_hole -> (forall f, In f A -> ~ Layer (S i) f) ->
  NoDup O /\ forall f, In f O <-> ParityExcluded s f.
Proof.
  intros i A O HI HE. split; [exact (iv_onodup _ _ _ _ _ _ _ HI) |].
  pose proof (assigned_complete (S i) A O [] HI) as Hc.
  assert (Hnone : forall f, DualPath (S i) f -> SeenBelow (S i) f).
  { intros f Hp. assert (HA : inA A f) by (apply (Hc (S i)); [exact Hp | lia]).
    destruct (inA_layer _ _ _ _ _ _ _ HI f HA) as [j [Hj HLj]].
    destruct (Nat.eq_dec j (S i)) as [E | NE].
    - subst j. exfalso. destruct HA as [E0 | Hin]; [| exact (HE f Hin HLj)].
      subst f. pose proof (Layer_unique s _ _ _ HLj Layer_0_0). lia.
    - exists j. split; [lia | apply HLj]. }
  assert (Hall : forall m f, DualPath m f -> inA A f).
  { intros m f Hp. destruct (Nat.le_gt_cases m (S i)) as [H | H]; [apply (Hc m f Hp H) |].
    apply (iv_below _ _ _ _ _ _ _ HI). apply (no_layer_beyond s (S i) Hnone m f Hp). lia. }
  intros f. split.
  - intros Hf. pose proof (iv_osub _ _ _ _ _ _ _ HI f Hf) as HfA.
    destruct (iv_sound _ _ _ _ _ _ _ HI f HfA) as [j [_ [HLj Hev]]].
    split; [pose proof (iv_range _ _ _ _ _ _ _ HI f HfA); lia |]. exists j. split; [apply Hev; exact Hf | exact HLj].
  - intros [Hnz [k [Hk HLk]]]. destruct (Hall k f (proj1 HLk)) as [E | HfA]; [contradiction |].
    destruct (iv_sound _ _ _ _ _ _ _ HI f HfA) as [j [_ [HLj Hev]]].
    pose proof (Layer_unique s _ _ _ HLj HLk). subst j. apply Hev. exact Hk.
Qed.

Lemma length_A_bound : forall i A O cur nxt pend hole, Inv i A O cur nxt pend hole -> length A <= nF s - 1.
Proof.
  intros i A O cur nxt pend hole HI.
  assert (H : length A <= length (seq 1 (nF s - 1))).
  { apply NoDup_incl_length; [exact (iv_nodup _ _ _ _ _ _ _ HI) |].
    intros f Hf. apply in_seq. pose proof (iv_range _ _ _ _ _ _ _ HI f Hf). lia. }
  rewrite seq_length in H. exact H.
Qed.

(* ------------------------------------------------------------------ the outer loop *)
Lemma layer_loop_spec : forall fuel i A I O cur,
  Inv i A O cur [] [] no_hole ->
  length cur + 2 * (nF s - 1 - length A) <= nH s + 2 * nF s ->
  nF s - 1 - length A < fuel ->
  exists st, layer_loop d fuel (Nat.even i) (mko A I O cur) = Some st /\
             NoDup (os_outer st) /\ forall f, In f (os_outer st) <-> ParityExcluded s f.
Proof.
  induction fuel as [| fuel IH]; intros i A I O cur HI Hm Hf; [lia |].
  cbn [layer_loop].
  destruct (drain_spec (drain_fuel d) i A I O cur [] HI) as [A1 [I1 [O1 [nxt [Hrun [HI1 Hlen1]]]]]].
  { unfold drain_fuel. change (num_directed_edges d) with (nH s). change (num_faces d) with (nF s). lia. }
  rewrite Hrun.
  destruct (layer_transition i A1 O1 nxt HI1) as [HI2 HE2].
  replace (negb (Nat.even i)) with (Nat.even (S i)) by (rewrite Nat.even_succ, <- Nat.negb_even; reflexivity).
  destruct (prepopulate_spec nxt i A1 I1 O1 [] HI2 (fun _ => HE2)) as [A3 [I3 [O3 [cur3 [Hpre [HI3 [HE3 [Hlen3 [HlenA Hgrow]]]]]]]]].
  { cbn [length]. lia. }
  rewrite Hpre. cbn [os_cur].
  destruct cur3 as [| c cur3'].
  - exists (mko A3 I3 O3 []). split; [reflexivity |]. cbn [os_outer]. apply (final_spec i A3 O3 HI3). apply HE3. reflexivity.
  - pose proof (length_A_bound _ _ _ _ _ _ _ HI3) as Hb3.
    assert (Hg : length A1 < length A3) by (apply Hgrow; [reflexivity | discriminate]).
    apply (IH (S i) A3 I3 O3 (c :: cur3') HI3); lia.
Qed.

(* ------------------------------------------------------------------ the whole function *)
Lemma hull_length : forall l, NoDup l -> (forall e, In e l -> e < nH s) -> length l <= nH s.
Proof.
  intros l Hnd Hr. rewrite <- (seq_length (nH s) 0). apply NoDup_incl_length; [exact Hnd |].
  intros e He. apply in_seq. specialize (Hr e He). lia.
Qed.

Theorem calculate_outer_faces_spec :
  exists l, calculate_outer_faces d = Some l /\ NoDup l /\ forall f, In f l <-> In f (parity_excluded s).
Proof.
  unfold calculate_outer_faces. change (num_faces d) with (nF s).
  destruct (nF s =? 1) eqn:E1.
  - apply Nat.eqb_eq in E1. exists []. split; [reflexivity |]. split; [constructor |].
    intros f. split; [intros [] |]. intros Hf. apply (parity_excluded_spec s Hrange) in Hf.
    pose proof (ParityExcluded_range s Hrange f Hf). lia.
  - unfold calculate_outer_state.
    destruct (hull_iter_spec s Hwf) as [hull [Hh [Hnd [Hin _]]]].
    change (hull_edges d) with (hull_iter s). rewrite Hh.
    assert (HI : Inv 0 [] [] (List.rev (map e_rev hull)) [] [] no_hole).
    { constructor.
      - constructor.
      - intros f [].
      - constructor.
      - intros f [].
      - intros f [j [Hj _]]. lia.
      - intros f [].
      - intros e He. apply in_rev in He. apply in_map_iff in He. destruct He as [h [Eh Hh']]. subst e.
        apply Hin in Hh'. destruct Hh' as [Hh1 Hh2]. change (e_rev h) with (rev h). rewrite rev_invol, Hh2.
        split; [apply rev_lt; exact Hh1 |]. split; [constructor | left; reflexivity].
      - intros e [].
      - intros e [].
      - intros e' He' [E | []] _. left. apply in_rev. rewrite List.rev_involutive. apply in_map_iff. exists e'.
        split; [reflexivity | apply Hin; split; assumption].
      - intros k Hk. discriminate Hk. }
    destruct (layer_loop_spec (nF s + 1) 0 [] [] [] (List.rev (map e_rev hull)) HI) as [st [Hrun [Hnd' Hspec]]].
    + rewrite rev_length, map_length. cbn [length].
      pose proof (hull_length hull Hnd (fun e He => proj1 (proj1 (Hin e) He))). lia.
    + cbn [length]. lia.
    + change (Nat.even 0) with true in Hrun. change (num_faces d) with (nF s). rewrite Hrun.
      exists (os_outer st). split; [reflexivity |]. split; [exact Hnd' |].
      intros f. rewrite Hspec. symmetry. apply (parity_excluded_spec s Hrange).
Qed.
End P.

(* the statement without section variables *)
Theorem outer_model_is_parity_excluded : forall s, Wf s ->
  exists l, calculate_outer_faces (dcel_of_obs s) = Some l /\ NoDup l /\ forall f, In f l <-> In f (parity_excluded s).
Proof. exact calculate_outer_faces_spec. Qed.

(* hence the model's answer is accepted by the executable specification excluded_ok of Refine/Outer.v, and conversely every list that the
   specification accepts is a duplicate-free enumeration of the model's set *)
Corollary outer_model_excluded_ok : forall s, Wf s ->
  exists l, calculate_outer_faces (dcel_of_obs s) = Some l /\
            forall got, excluded_ok s got = true <-> (NoDup got /\ forall f, In f got <-> In f l).
Proof.
  intros s Hwf. destruct (outer_model_is_parity_excluded s Hwf) as [l [Hl [Hnd Hin]]].
  exists l. split; [exact Hl |]. intros got.
  pose proof (Wf_FacesInRange s Hwf) as Hr.
  rewrite (excluded_ok_spec s Hr). unfold ExcludedOk. split.
  - intros [H1 H2]. destruct (Nat.eq_dec (nF s) 1) as [E | NE].
    + rewrite (H1 E). split; [constructor |]. intros f. split; [intros [] |].
      intros Hf. apply Hin in Hf. apply (parity_excluded_spec s Hr) in Hf.
      pose proof (ParityExcluded_range s Hr f Hf). lia.
    + destruct (H2 NE) as [Hnd' Hin']. split; [exact Hnd' |]. intros f. rewrite Hin', Hin.
      symmetry. apply (parity_excluded_spec s Hr).
  - intros [Hnd' Hin']. split.
    + intros E. destruct got as [| f got']; [reflexivity |]. exfalso.
      assert (Hf : In f l) by (apply Hin'; left; reflexivity).
      apply Hin in Hf. apply (parity_excluded_spec s Hr) in Hf.
      pose proof (ParityExcluded_range s Hr f Hf). lia.
    + intros _. split; [exact Hnd' |]. intros f. rewrite Hin', Hin. apply (parity_excluded_spec s Hr).
Qed.

Print Assumptions outer_model_is_parity_excluded.
Print Assumptions outer_model_excluded_ok.
