(* Refine/OuterProofs.v -- reflection theorems for the parity specification of refine()'s excluded faces (C20):
   `layers` of Refine/Outer.v computes exactly the layers "minimal number of constraint edges crossed by a dual path from the
   outer face" (soundness and completeness; the fuel of free_closure and of layers is proved sufficient by counting faces),
   hence parity_excluded / excluded_ok and the whole T_refine verdict decide the declarative statements of Refine/OuterProp.v. *)
From Coq Require Import ZArith List Bool Arith Lia.
From SpadeV Require Import Num.Decode Geom.Pred Obs.State Obs.Spec Obs.SpecProp Obs.SpecProofs Obs.Query Obs.QueryProp
  Obs.QueryProofs Refine.Outer Check.Codes Check.Run Cdt.SplitProp Cdt.SplitProofs Refine.OuterProp.
Import ListNotations.

(* ------------------------------------------------------------------ generic list lemmas *)
Lemma NoDup_app_intro : forall (A : Type) (l1 l2 : list A),
  NoDup l1 -> NoDup l2 -> (forall x, In x l1 -> ~ In x l2) -> NoDup (l1 ++ l2).
Proof.
  intros A l1. induction l1 as [| x l1 IH]; intros l2 H1 H2 Hd; [exact H2 |].
  cbn [app]. inversion H1 as [| x' l' Hx Hnd]; subst. constructor.
  - intros Hin. apply in_app_or in Hin. destruct Hin as [Hin | Hin]; [contradiction |].
    apply (Hd x); [left; reflexivity | exact Hin].
  - apply IH; [exact Hnd | exact H2 |]. intros y Hy. apply Hd. right. exact Hy.
Qed.

(* a duplicate-free list of numbers below n with at least n elements contains every number below n *)
Lemma full_list : forall (l : list nat) n, NoDup l -> (forall x, In x l -> x < n) -> n <= length l ->
  forall x, x < n -> In x l.
Proof.
  intros l n Hnd Hr Hlen x Hx.
  assert (Hincl : incl (seq 0 n) l).
  { apply NoDup_length_incl; [exact Hnd | rewrite seq_length; exact Hlen |].
    intros y Hy. apply in_seq. specialize (Hr y Hy). lia. }
  apply Hincl. apply in_seq. lia.
Qed.

Lemma nth_nil : forall (A : Type) k (d : A), nth k [] d = d.
Proof. intros A k d. destruct k; reflexivity. Qed.

Lemma even_layers_spec : forall (L : list (list nat)) f,
  In f (even_layers L) <-> exists k, Nat.even k = true /\ In f (nth k L []).
Proof.
  assert (H : forall n (L : list (list nat)), length L <= n -> forall f,
             In f (even_layers L) <-> exists k, Nat.even k = true /\ In f (nth k L [])).
  { induction n as [| n IH]; intros L Hlen f.
    - destruct L as [| a L]; [| cbn [length] in Hlen; lia]. cbn [even_layers]. split; [intros [] |].
      intros [k [_ Hin]]. rewrite nth_nil in Hin. exact Hin.
    - destruct L as [| a [| b t]].
      + cbn [even_layers]. split; [intros [] |]. intros [k [_ Hin]]. rewrite nth_nil in Hin. exact Hin.
      + cbn [even_layers]. split.
        * intros Hin. exists 0. split; [reflexivity | exact Hin].
        * intros [k [_ Hin]]. destruct k as [| k]; [exact Hin |]. cbn [nth] in Hin. destruct k; destruct Hin.
      + cbn [even_layers]. rewrite in_app_iff, (IH t) by (cbn [length] in Hlen; lia). split.
        * intros [Hin | [k [Hk Hin]]].
          -- exists 0. split; [reflexivity | exact Hin].
          -- exists (S (S k)). split; [exact Hk | exact Hin].
        * intros [k [Hk Hin]]. destruct k as [| [| k]].
          -- left. exact Hin.
          -- discriminate Hk.
          -- right. exists k. split; [exact Hk | exact Hin]. }
  intros L f. apply (H (length L) L (Nat.le_refl _)).
Qed.

(* ------------------------------------------------------------------ the layers *)
Section ParityProofs.
Variable s : obs.
Hypothesis Hrange : FacesInRange s.
Notation DualStep := (DualStep s).
Notation DualPath := (DualPath s).
Notation Layer := (Layer s).
Notation FreeClosure := (FreeClosure s).

Lemma neighbours_spec : forall layer flg g,
  In g (neighbours s layer flg) <-> exists f, In f layer /\ DualStep flg f g.
Proof.
  intros layer flg g. unfold neighbours, OuterProp.DualStep. rewrite in_flat_map. split.
  - intros [e [He Hin]]. apply in_seq in He.
    destruct (memb (face s e) layer && Bool.eqb (flag s e) flg) eqn:E; [| destruct Hin].
    apply andb_true_iff in E. destruct E as [Hm Hf]. apply memb_spec in Hm. apply eqb_prop in Hf.
    destruct Hin as [Hg | []]. exists (face s e). split; [exact Hm |]. exists e. repeat split; [lia | exact Hf | exact Hg].
  - intros [f [Hf [e [He [Hfe [Hfl Hg]]]]]]. exists e. split; [apply in_seq; lia |].
    subst f. apply memb_spec in Hf. rewrite Hf, Hfl, eqb_reflx. cbn [andb]. left. exact Hg.
Qed.

Lemma DualStep_range : forall flg f g, DualStep flg f g -> g < nF s.
Proof. intros flg f g [e [He [_ [_ Hg]]]]. subst g. apply Hrange. exact He. Qed.

Lemma DualPath_range : forall k f, DualPath k f -> f < nF s.
Proof.
  intros k f H. induction H as [| k f g _ _ Hstep | k f g _ _ Hstep].
  - destruct Hrange as [H1 _]. lia.
  - eapply DualStep_range. exact Hstep.
  - eapply DualStep_range. exact Hstep.
Qed.

Lemma FC_nil : forall seen f, FreeClosure seen [] f -> False.
Proof. intros seen f H. induction H as [f [] | f g _ IH _ _]; exact IH. Qed.

Lemma FC_mono : forall seen L L', (forall f, In f L' -> FreeClosure seen L f) ->
  forall f, FreeClosure seen L' f -> FreeClosure seen L f.
Proof.
  intros seen L L' Hsub f H. induction H as [f Hf | f g _ IH Hstep Hns].
  - apply Hsub. exact Hf.
  - eapply FC_step; eassumption.
Qed.

Lemma FC_range : forall seen L, (forall f, In f L -> f < nF s) -> forall f, FreeClosure seen L f -> f < nF s.
Proof.
  intros seen L Hr f H. destruct H as [f Hf | f g _ Hstep _]; [apply Hr; exact Hf | eapply DualStep_range; exact Hstep].
Qed.

(* free_closure: soundness, completeness and sufficiency of the fuel.  Every round that does not stop adds a new face to the
   duplicate-free layer, whose length is bounded by the number of faces. *)
Theorem free_closure_spec : forall fuel seen layer,
  NoDup layer -> (forall f, In f layer -> f < nF s) -> nF s <= fuel + length layer ->
  NoDup (free_closure s fuel seen layer) /\
  (forall f, In f (free_closure s fuel seen layer) <-> FreeClosure seen layer f).
Proof.
  induction fuel as [| k IH]; intros seen layer Hnd Hr Hlen.
  - cbn [free_closure]. split; [exact Hnd |]. intros f. split; [apply FC_base |].
    intros H. induction H as [f Hf | f g _ _ Hstep _]; [exact Hf |].
    apply (full_list layer (nF s)); [exact Hnd | exact Hr | lia | eapply DualStep_range; exact Hstep].
  - cbn [free_closure].
    remember (filter (fun f => negb (memb f seen) && negb (memb f layer)) (neighbours s layer false)) as nw eqn:Enw.
    assert (Hnw : forall g, In g nw <-> (exists f, In f layer /\ DualStep false f g) /\ ~ In g seen /\ ~ In g layer).
    { intros g. rewrite Enw, filter_In, neighbours_spec, andb_true_iff, !negb_true_iff.
      rewrite <- !not_true_iff_false, !memb_spec. tauto. }
    destruct nw as [| x nw'].
    + split; [exact Hnd |]. intros f. split; [apply FC_base |].
      intros H. induction H as [f Hf | f g _ IHf Hstep Hns]; [exact Hf |].
      destruct (in_dec Nat.eq_dec g layer) as [Hin | Hnin]; [exact Hin |].
      exfalso. apply (proj2 (Hnw g)). split; [| split; assumption]. exists f. split; assumption.
    + set (L' := nodup Nat.eq_dec (layer ++ x :: nw')).
      assert (HL' : forall f, In f L' <-> In f layer \/ In f (x :: nw')).
      { intros f. unfold L'. rewrite nodup_In, in_app_iff. tauto. }
      assert (Hsub : forall f, In f L' -> FreeClosure seen layer f).
      { intros f Hf. apply HL' in Hf. destruct Hf as [Hf | Hf]; [apply FC_base; exact Hf |].
        apply Hnw in Hf. destruct Hf as [[f0 [Hf0 Hstep]] [Hns _]].
        eapply FC_step; [apply FC_base; exact Hf0 | exact Hstep | exact Hns]. }
      destruct (IH seen L') as [Hnd' Hin'].
      * apply NoDup_nodup.
      * intros f Hf. eapply FC_range; [exact Hr | apply Hsub; exact Hf].
      * assert (Hx : ~ In x layer) by (apply (proj1 (Hnw x)); left; reflexivity).
        assert (S (length layer) <= length L'); [| lia].
        change (S (length layer)) with (length (x :: layer)). apply NoDup_incl_length.
        -- constructor; assumption.
        -- intros y [E | Hy]; apply HL'; [right; left; exact E | left; exact Hy].
      * split; [exact Hnd' |]. intros f. rewrite Hin'. split.
        -- apply FC_mono. exact Hsub.
        -- apply FC_mono. intros g Hg. apply FC_base. apply HL'. left. exact Hg.
Qed.

(* faces reached with fewer than i constraint crossings *)
Definition SeenBelow (i f : nat) : Prop := exists j, j < i /\ DualPath j f.

(* if no face has depth exactly i, none has a greater depth *)
Lemma no_layer_beyond : forall i, (forall f, DualPath i f -> SeenBelow i f) ->
  forall m f, DualPath m f -> i <= m -> SeenBelow i f.
Proof.
  intros i Hi m f H. induction H as [| k f g Hp IH Hstep | k f g Hp IH Hstep]; intros Hle.
  - assert (i = 0) by lia. subst i. apply Hi. constructor.
  - destruct (IH Hle) as [j [Hj Hpj]]. exists j. split; [exact Hj |]. eapply DP_free; eassumption.
  - destruct (Nat.eq_dec (S k) i) as [E | NE].
    + apply Hi. rewrite <- E. eapply DP_cons; eassumption.
    + destruct IH as [j [Hj Hpj]]; [lia |].
      destruct (Nat.eq_dec (S j) i) as [E' | NE'].
      * apply Hi. rewrite <- E'. eapply DP_cons; eassumption.
      * exists (S j). split; [lia |]. eapply DP_cons; eassumption.
Qed.

(* the start set of the next layer reaches every face of depth S i *)
Lemma next_complete : forall i seen' layer next,
  (forall f, In f seen' <-> SeenBelow (S i) f) ->
  (forall f, DualPath i f -> In f layer \/ SeenBelow i f) ->
  (forall g, (exists f, In f layer /\ DualStep true f g) -> ~ In g seen' -> In g next) ->
  forall m f, DualPath m f -> m = S i -> ~ In f seen' -> FreeClosure seen' next f.
Proof.
  intros i seen' layer next Hseen Hlayer Hnext m f H.
  induction H as [| k f g Hp IH Hstep | k f g Hp IH Hstep]; intros Hm Hns.
  - discriminate Hm.
  - destruct (in_dec Nat.eq_dec f seen') as [Hin | Hnin].
    + exfalso. apply Hns. apply Hseen. apply Hseen in Hin. destruct Hin as [j [Hj Hpj]].
      exists j. split; [exact Hj |]. eapply DP_free; eassumption.
    + eapply FC_step; [apply IH; assumption | exact Hstep | exact Hns].
  - injection Hm as Hm. subst k. destruct (Hlayer f Hp) as [Hin | [j [Hj Hpj]]].
    + apply FC_base. apply Hnext; [| exact Hns]. exists f. split; assumption.
    + exfalso. apply Hns. apply Hseen. exists (S j). split; [lia |]. eapply DP_cons; eassumption.
Qed.

(* the invariant of `layers` at depth i, with sufficiency of its fuel: every round adds a non-empty, new layer to the
   duplicate-free list `seen`, whose length is bounded by the number of faces *)
Lemma layers_inv : forall fuel i seen start,
  NoDup seen -> NoDup start ->
  (forall f, In f seen <-> SeenBelow i f) ->
  (forall f, In f start -> DualPath i f /\ ~ In f seen) ->
  (forall f, DualPath i f -> ~ In f seen -> FreeClosure seen start f) ->
  nF s + 1 <= fuel + length seen ->
  forall k f, In f (nth k (layers s fuel seen start) []) <-> Layer (i + k) f.
Proof.
  induction fuel as [| fuel IH]; intros i seen start Hnds Hndst Hseen Hstart Hcompl Hfuel k f.
  - exfalso. assert (length seen <= nF s); [| lia]. apply NoDup_below_length; [exact Hnds |].
    intros x Hx. apply Hseen in Hx. destruct Hx as [j [_ Hp]]. eapply DualPath_range. exact Hp.
  - cbn [layers]. destruct start as [| x0 st].
    + rewrite nth_nil. split; [intros [] |]. intros [Hp Hmin]. cbn [In].
      assert (Hi : forall g, DualPath i g -> SeenBelow i g).
      { intros g Hg. destruct (in_dec Nat.eq_dec g seen) as [Hin | Hnin]; [apply Hseen; exact Hin |].
        exfalso. eapply FC_nil. apply Hcompl; eassumption. }
      destruct (no_layer_beyond i Hi (i + k) f Hp) as [j [Hj Hpj]]; [lia |].
      apply (Hmin j); [lia | exact Hpj].
    + set (start := x0 :: st) in *.
      set (layer := free_closure s (nF s) seen start).
      destruct (free_closure_spec (nF s) seen start) as [Hndl Hlayer0]; [exact Hndst | | lia |].
      { intros g Hg. eapply DualPath_range. apply (Hstart g Hg). }
      fold layer in Hndl, Hlayer0.
      (* the layer is exactly the set of faces of depth i *)
      assert (Hfc : forall g, FreeClosure seen start g <-> DualPath i g /\ ~ In g seen).
      { intros g. split.
        - intros H. induction H as [g Hg | g h _ IHg Hstep Hns]; [apply Hstart; exact Hg |].
          split; [| exact Hns]. eapply DP_free; [apply IHg | exact Hstep].
        - intros [Hp Hns]. apply Hcompl; assumption. }
      assert (Hmin : forall g, DualPath i g /\ ~ In g seen <-> Layer i g).
      { intros g. unfold OuterProp.Layer. split.
        - intros [Hp Hns]. split; [exact Hp |]. intros j Hj Hpj. apply Hns. apply Hseen. exists j. split; assumption.
        - intros [Hp Hm]. split; [exact Hp |]. intros Hin. apply Hseen in Hin. destruct Hin as [j [Hj Hpj]].
          apply (Hm j Hj Hpj). }
      assert (Hlayer : forall g, In g layer <-> Layer i g).
      { intros g. rewrite Hlayer0, Hfc. apply Hmin. }
      destruct k as [| k].
      * rewrite Nat.add_0_r. cbn [nth]. apply Hlayer.
      * cbn [nth]. rewrite Nat.add_succ_r, <- Nat.add_succ_l.
        set (seen' := seen ++ layer).
        assert (Hseen' : forall g, In g seen' <-> SeenBelow (S i) g).
        { intros g. unfold seen'. rewrite in_app_iff. split.
          - intros [Hin | Hin].
            + apply Hseen in Hin. destruct Hin as [j [Hj Hpj]]. exists j. split; [lia | exact Hpj].
            + apply Hlayer in Hin. exists i. split; [lia | apply Hin].
          - intros [j [Hj Hpj]]. destruct (Nat.eq_dec j i) as [E | NE].
            + subst j. destruct (in_dec Nat.eq_dec g seen) as [Hin | Hnin]; [left; exact Hin |].
              right. apply Hlayer. apply Hmin. split; assumption.
            + left. apply Hseen. exists j. split; [lia | exact Hpj]. }
        apply IH.
        -- apply NoDup_app_intro; [exact Hnds | exact Hndl |].
           intros g Hg Hgl. apply Hlayer in Hgl. apply Hmin in Hgl. apply (proj2 Hgl). exact Hg.
        -- apply NoDup_nodup.
        -- exact Hseen'.
        -- intros g Hg. apply nodup_In in Hg. apply filter_In in Hg. destruct Hg as [Hg Hns].
           apply neighbours_spec in Hg. destruct Hg as [f0 [Hf0 Hstep]]. split.
           ++ eapply DP_cons; [| exact Hstep]. apply Hlayer in Hf0. apply Hf0.
           ++ apply negb_true_iff in Hns. intros Hin. apply memb_spec in Hin. fold seen' in Hns. congruence.
        -- intros g Hp Hns. apply (next_complete i seen' layer) with (m := S i); try assumption; [| | reflexivity].
           ++ intros h Hh. destruct (in_dec Nat.eq_dec h seen) as [Hin | Hnin].
              ** right. apply Hseen. exact Hin.
              ** left. apply Hlayer. apply Hmin. split; assumption.
           ++ intros h Hh Hnsh. apply nodup_In. apply filter_In. split; [apply neighbours_spec; exact Hh |].
              apply negb_true_iff. fold seen'. destruct (memb h seen') eqn:E; [| reflexivity].
              apply memb_spec in E. contradiction.
        -- unfold seen'. rewrite app_length.
           assert (1 <= length layer); [| lia].
           assert (Hx0 : In x0 layer) by (apply Hlayer0; apply FC_base; left; reflexivity).
           destruct layer as [| y l']; [destruct Hx0 | cbn [length]; lia].
Qed.

(* `layers` computes exactly the layers: soundness and completeness, for the fuel used by the checker *)
Theorem layers_spec : forall k f, In f (nth k (layers s (nF s + 1) [] [0]) []) <-> Layer k f.
Proof.
  intros k f. apply (layers_inv (nF s + 1) 0 [] [0]).
  - constructor.
  - constructor; [intros [] | constructor].
  - intros g. split; [intros [] | intros [j [Hj _]]; lia].
  - intros g [E | []]. subst g. split; [constructor | intros []].
  - intros g Hp _. remember 0 as m eqn:Em. induction Hp as [| k' f' g' Hp IH Hstep | k' f' g' Hp IH Hstep].
    + apply FC_base. left. reflexivity.
    + eapply FC_step; [apply IH; exact Em | exact Hstep | intros []].
    + discriminate Em.
  - cbn [length]. lia.
Qed.

(* a face has at most one depth *)
Lemma Layer_unique : forall k k' f, Layer k f -> Layer k' f -> k = k'.
Proof.
  intros k k' f [Hp Hm] [Hp' Hm']. destruct (Nat.lt_trichotomy k k') as [H | [H | H]]; [| exact H |].
  - exfalso. apply (Hm' k H Hp).
  - exfalso. apply (Hm k' H Hp').
Qed.

Theorem parity_excluded_spec : forall f, In f (parity_excluded s) <-> ParityExcluded s f.
Proof.
  intros f. unfold parity_excluded, ParityExcluded. rewrite filter_In, even_layers_spec, negb_true_iff, Nat.eqb_neq.
  split.
  - intros [[k [Hk Hin]] Hf]. split; [exact Hf |]. exists k. split; [exact Hk | apply layers_spec; exact Hin].
  - intros [Hf [k [Hk Hl]]]. split; [| exact Hf]. exists k. split; [exact Hk | apply layers_spec; exact Hl].
Qed.

Lemma ParityExcluded_range : forall f, ParityExcluded s f -> 1 <= f < nF s.
Proof.
  intros f [Hf [k [_ [Hp _]]]]. split; [lia | eapply DualPath_range; exact Hp].
Qed.

Theorem excluded_ok_spec : forall got, excluded_ok s got = true <-> ExcludedOk s got.
Proof.
  intros got. unfold excluded_ok, ExcludedOk. destruct (nF s =? 1) eqn:E.
  - apply Nat.eqb_eq in E. split.
    + intros H. split; [intros _; destruct got; [reflexivity | discriminate H] | intros H'; contradiction].
    + intros [H _]. rewrite (H E). reflexivity.
  - apply Nat.eqb_neq in E. rewrite same_set_spec. unfold SameSet. split.
    + intros [Hnd H]. split; [intros H'; contradiction |]. intros _. split; [exact Hnd |].
      intros f. rewrite H, memb_spec, parity_excluded_spec. split; [tauto |].
      intros Hp. split; [apply ParityExcluded_range; exact Hp | exact Hp].
    + intros [_ H]. destruct (H E) as [Hnd Hin]. split; [exact Hnd |].
      intros f. rewrite Hin, memb_spec, parity_excluded_spec. split; [| tauto].
      intros Hp. split; [apply ParityExcluded_range; exact Hp | exact Hp].
Qed.
End ParityProofs.

Lemma Wf_FacesInRange : forall s, Wf s -> FacesInRange s.
Proof.
  intros s Hwf. split.
  - destruct Hwf as [[_ [_ [_ [_ H]]]] _]. exact H.
  - intros e He. pose proof (Wf_rev_lt s Hwf e He) as Hrev.
    destruct Hwf as [_ [[Hr _] _]]. apply (Hr (rev e) Hrev).
Qed.

Lemma Wf_ranges : forall s, Wf s -> FacesInRange s /\ DestInRange s.
Proof. intros s H. exact (conj (Wf_FacesInRange s H) (Wf_DestInRange s H)). Qed.

(* ------------------------------------------------------------------ the T_refine verdict *)
(* check_refine is the parse of its inputs followed by refine_verdict *)
Lemma check_refine_unfold : forall p n r1 r2 r3 maxv keep excl complete ne ex npts,
  obs_points n = Some npts ->
  check_refine p n [r1; r2; r3; maxv; keep; excl] (complete :: ne :: ex) =
  [(T_refine, refine_verdict p n npts (if (maxv =? K_dash)%Z then None else Some (Z.to_nat maxv))
                             (keep =? 1)%Z (excl =? 1)%Z (Z.to_nat ne) (map Z.to_nat ex))].
Proof.
  intros p n r1 r2 r3 maxv keep excl complete ne ex npts Hp. unfold check_refine, refine_verdict.
  rewrite Hp, map_length. destruct (maxv =? K_dash)%Z; reflexivity.
Qed.

Theorem refine_verdict_spec : forall p n npts maxv keep excl nex got, DestInRange n -> FacesInRange n ->
  (refine_verdict p n npts maxv keep excl nex got = true <-> RefineOk p n npts maxv keep excl nex got).
Proof.
  intros p n npts maxv keep excl nex got Hd Hf. unfold refine_verdict, RefineOk.
  rewrite !andb_true_iff, prefix_unchanged_spec, Nat.eqb_eq.
  assert (Hb : match maxv with None => true | Some m => nV n <=? nV p + m end = true
               <-> forall m, maxv = Some m -> nV n <= nV p + m).
  { destruct maxv as [m |].
    - rewrite Nat.leb_le. split; [intros H m' E; injection E as E; subst m'; exact H | intros H; apply H; reflexivity].
    - split; [intros _ m E; discriminate E | reflexivity]. }
  assert (Hk : (if keep then constraints_kept p n else constraints_covered p n npts) = true
               <-> if keep then ConstraintsKept p n else ConstraintsCovered p n npts).
  { destruct keep; [apply constraints_kept_spec | apply constraints_covered_spec; exact Hd]. }
  assert (He : (if excl then excluded_ok n got else match got with [] => true | _ => false end) = true
               <-> if excl then ExcludedOk n got else got = []).
  { destruct excl; [apply excluded_ok_spec; exact Hf |].
    destruct got; split; try reflexivity; discriminate. }
  rewrite Hb, Hk, He. tauto.
Qed.

(* ------------------------------------------------------------------ the hypotheses are satisfiable: a real run *)
(* harness output of: CDT f64; insert (-4,-4) (12,-4) (12,12) (-4,12), the square (0,0) (8,0) (8,8) (0,8) and the square
   (3,3) (5,3) (5,5) (3,5); constrain the sides of both squares; refine with max_additional_vertices = 4 and
   exclude_outer_faces: the result R 0 14 1 2 3 4 5 6 9 10 15 16 19 21 23 26 *)
Definition ex_ref_p : obs := Eval vm_compute in
  match parse_obs [12; 29; 19; 8; 4; 18; 0; 13839561654909534208; 13839561654909534208; 10; 0; 4622945017495814144; 13839561654909534208; 11; 1; 4622945017495814144; 4622945017495814144; 12; 12; 13839561654909534208; 4622945017495814144; 13; 8; 0; 0; 14; 24; 4620693217682128896; 0; 15; 17; 4620693217682128896; 4620693217682128896; 16; 36; 0; 4620693217682128896; 17; 29; 4613937818241073152; 4613937818241073152; 18; 48; 4617315517961601024; 4613937818241073152; 19; 41; 4617315517961601024; 4617315517961601024; 20; 37; 4613937818241073152; 4617315517961601024; 21; 53; 10; 4; 1; 0; 9; 3; 0; 1; 20; 19; 6; 1; 1; 7; 0; 2; 0; 10; 1; 4; 15; 8; 2; 0; 22; 13; 4; 2; 3; 9; 0; 3; 5; 15; 2; 3; 7; 1; 0; 0; 4; 0; 1; 1; 18; 17; 5; 4; 27; 21; 3; 2; 6; 22; 4; 6; 32; 31; 10; 3; 8; 5; 2; 4; 34; 25; 8; 4; 11; 18; 5; 5; 17; 11; 5; 1; 2; 20; 6; 5; 19; 2; 6; 2; 12; 27; 3; 5; 13; 6; 4; 3; 30; 29; 9; 6; 39; 33; 7; 4; 16; 34; 8; 8; 44; 43; 14; 5; 21; 12; 3; 6; 46; 37; 12; 6; 23; 30; 9; 7; 29; 23; 9; 3; 14; 32; 10; 7; 31; 14; 10; 4; 24; 39; 7; 7; 25; 16; 8; 5; 42; 41; 13; 8; 51; 45; 11; 6; 28; 46; 12; 10; 56; 55; 18; 7; 33; 24; 7; 8; 50; 49; 16; 8; 35; 42; 13; 9; 41; 35; 13; 5; 26; 44; 14; 9; 43; 26; 14; 6; 36; 51; 11; 9; 37; 28; 12; 7; 54; 53; 17; 10; 52; 57; 15; 8; 40; 50; 16; 10; 49; 40; 16; 9; 45; 36; 11; 10; 57; 48; 15; 10; 47; 54; 17; 11; 53; 47; 17; 7; 38; 56; 18; 11; 55; 38; 18; 8; 48; 52; 15; 11; 9; 10; 5; 12; 22; 11; 2; 24; 34; 23; 14; 36; 46; 35; 26; 48; 50; 47; 38; 0; 0; 0; 0; 0; 0; 0; 0; 1; 0; 0; 0; 0; 1; 1; 0; 1; 0; 0; 0; 1; 0; 0; 0; 0; 1; 1; 0; 1; 4; 9; 7; 3; 1]%Z with Some s => s | None => empty_obs end.
Definition ex_ref_n : obs := Eval vm_compute in
  match parse_obs [16; 41; 27; 12; 4; 26; 0; 13839561654909534208; 13839561654909534208; 10; 0; 4622945017495814144; 13839561654909534208; 11; 58; 4622945017495814144; 4622945017495814144; 12; 64; 13839561654909534208; 4622945017495814144; 13; 8; 0; 0; 14; 32; 4620693217682128896; 0; 15; 19; 4620693217682128896; 4620693217682128896; 16; 13; 0; 4620693217682128896; 17; 78; 4613937818241073152; 4613937818241073152; 18; 56; 4617315517961601024; 4613937818241073152; 19; 68; 4617315517961601024; 4617315517961601024; 20; 74; 4613937818241073152; 4617315517961601024; 21; 53; 4616189618054758400; 0; 777000; 17; 4620693217682128896; 4616189618054758400; 777000; 27; 4616189618054758400; 4620693217682128896; 777000; 29; 0; 4616189618054758400; 777000; 33; 58; 11; 5; 0; 9; 3; 0; 1; 64; 21; 3; 1; 1; 7; 0; 2; 10; 17; 1; 4; 32; 14; 10; 0; 70; 23; 9; 2; 3; 9; 0; 3; 15; 81; 2; 3; 7; 1; 0; 0; 17; 4; 1; 0; 0; 58; 5; 12; 66; 65; 21; 2; 22; 29; 4; 6; 5; 32; 10; 15; 81; 8; 2; 0; 63; 25; 8; 4; 4; 10; 1; 12; 60; 59; 19; 1; 20; 27; 6; 5; 27; 19; 6; 1; 2; 64; 3; 13; 29; 13; 4; 2; 6; 70; 9; 14; 76; 33; 7; 4; 16; 63; 8; 8; 69; 43; 14; 5; 19; 20; 6; 13; 75; 37; 12; 6; 13; 22; 4; 14; 72; 71; 23; 3; 80; 79; 26; 7; 14; 5; 10; 4; 24; 76; 7; 15; 41; 62; 20; 12; 61; 42; 13; 9; 45; 67; 11; 6; 28; 75; 12; 10; 77; 56; 18; 11; 55; 78; 25; 15; 50; 49; 16; 8; 62; 34; 20; 9; 35; 61; 13; 5; 26; 69; 14; 9; 51; 68; 22; 13; 67; 36; 11; 10; 53; 74; 24; 14; 73; 54; 17; 11; 52; 57; 15; 8; 40; 50; 16; 10; 49; 40; 16; 9; 68; 44; 22; 10; 57; 48; 15; 10; 74; 46; 24; 11; 47; 73; 17; 7; 78; 39; 25; 11; 38; 77; 18; 8; 48; 52; 15; 11; 11; 0; 5; 1; 18; 60; 19; 12; 59; 18; 19; 5; 42; 35; 13; 12; 34; 41; 20; 8; 25; 16; 8; 12; 21; 2; 3; 2; 12; 66; 21; 13; 65; 12; 21; 6; 36; 45; 11; 13; 44; 51; 22; 9; 43; 26; 14; 13; 23; 6; 9; 3; 30; 72; 23; 14; 71; 30; 23; 7; 54; 47; 17; 14; 46; 53; 24; 10; 37; 28; 12; 14; 33; 24; 7; 8; 56; 38; 18; 15; 39; 55; 25; 7; 31; 80; 26; 15; 79; 31; 26; 3; 8; 15; 2; 15; 9; 10; 15; 21; 22; 11; 20; 76; 16; 23; 14; 45; 28; 35; 26; 48; 50; 47; 38; 60; 34; 66; 44; 72; 46; 39; 80; 0; 0; 0; 0; 0; 0; 0; 0; 1; 0; 0; 0; 0; 1; 1; 0; 1; 0; 0; 0; 1; 0; 0; 0; 0; 1; 1; 0; 1; 0; 1; 0; 0; 1; 0; 0; 1; 0; 0; 1; 0; 4; 9; 7; 3; 1]%Z with Some s => s | None => empty_obs end.
Definition ex_ref_pts : list pnt := Eval vm_compute in match obs_points ex_ref_n with Some l => l | None => [] end.
Definition ex_ref_got : list nat := [1; 2; 3; 4; 5; 6; 9; 10; 15; 16; 19; 21; 23; 26].

Example ex_ref_nontrivial :
  nV ex_ref_p = 12 /\ nV ex_ref_n = 16 /\ nF ex_ref_n = 27 /\ count_flags ex_ref_n = 12 /\
  map (@length nat) (layers ex_ref_n (nF ex_ref_n + 1) [] [0]) = [13; 12; 2].
Proof. vm_compute. repeat split. Qed.
Example ex_ref_wf : Wf ex_ref_n.
Proof. apply wf_b_spec. vm_compute. reflexivity. Qed.
Example ex_ref_faces : FacesInRange ex_ref_n.
Proof. apply Wf_FacesInRange. exact ex_ref_wf. Qed.
Example ex_ref_dest : DestInRange ex_ref_n.
Proof. apply Wf_DestInRange. exact ex_ref_wf. Qed.
(* `lazy`, not vm_compute: the virtual machine evaluates both arguments of `&&`, which turns the depth-first search of
   cover_dfs into an exhaustive enumeration of walks (the extracted checker uses OCaml's lazy &&) *)
Example ex_ref_verdict : refine_verdict ex_ref_p ex_ref_n ex_ref_pts (Some 4) false true 14 ex_ref_got = true.
Proof. lazy. reflexivity. Qed.
Example ex_ref_ok : RefineOk ex_ref_p ex_ref_n ex_ref_pts (Some 4) false true 14 ex_ref_got.
Proof. apply (refine_verdict_spec _ _ _ _ _ _ _ _ ex_ref_dest ex_ref_faces). exact ex_ref_verdict. Qed.
(* the faces of the inner square (a hole) have depth 2 and are excluded; a face of the ring has depth 1 and is not *)
Example ex_ref_hole : Layer ex_ref_n 2 15 /\ Layer ex_ref_n 2 16 /\ In 15 ex_ref_got /\ In 16 ex_ref_got.
Proof.
  split; [| split; [| split]].
  - apply (proj1 (layers_spec _ ex_ref_faces 2 15)). apply (proj1 (memb_spec _ _)). vm_compute. reflexivity.
  - apply (proj1 (layers_spec _ ex_ref_faces 2 16)). apply (proj1 (memb_spec _ _)). vm_compute. reflexivity.
  - apply (proj1 (memb_spec _ _)). vm_compute. reflexivity.
  - apply (proj1 (memb_spec _ _)). vm_compute. reflexivity.
Qed.
Example ex_ref_ring : exists f, Layer ex_ref_n 1 f /\ ~ In f ex_ref_got.
Proof.
  exists 8. split.
  - apply (proj1 (layers_spec _ ex_ref_faces 1 8)). apply (proj1 (memb_spec _ _)). vm_compute. reflexivity.
  - intros H. apply (proj2 (memb_spec _ _)) in H. vm_compute in H. discriminate H.
Qed.

Print Assumptions free_closure_spec.
Print Assumptions layers_spec.
Print Assumptions parity_excluded_spec.
Print Assumptions excluded_ok_spec.
Print Assumptions refine_verdict_spec.
Print Assumptions ex_ref_ok.
