(* Refine/OuterProp.v -- declarative (Prop) form of the parity specification of refine()'s excluded faces (C20) whose
   executable form (`layers`, `parity_excluded`, `excluded_ok`) is in Refine/Outer.v, and of the T_refine verdict of Check/Run.v.
   Definitions only; the reflection theorems are in Refine/OuterProofs.v. *)
From Coq Require Import ZArith List Bool Arith.
From SpadeV Require Import Geom.Pred Obs.State Obs.Spec Obs.Query Obs.QueryProp Refine.Outer Check.Codes Check.Run Cdt.SplitProp.
Import ListNotations.

Section ParityP.
Variable s : obs.

(* the dual graph: face g is entered from face f by crossing half-edge e (f is left of e, g left of its twin);
   `flg` tells whether the crossed edge is a constraint edge *)
Definition DualStep (flg : bool) (f g : nat) : Prop :=
  exists e, e < nH s /\ face s e = f /\ flag s e = flg /\ face s (rev e) = g.

(* DualPath k f : there is a path in the dual graph from the outer face (face 0) to face f that crosses exactly k
   constraint edges (and any number of free edges) *)
Inductive DualPath : nat -> nat -> Prop :=
| DP_outer : DualPath 0 0
| DP_free : forall k f g, DualPath k f -> DualStep false f g -> DualPath k g
| DP_cons : forall k f g, DualPath k f -> DualStep true f g -> DualPath (S k) g.

(* Layer k f : the minimal number of constraint edges crossed by a dual path from the outer face to f is k *)
Definition Layer (k f : nat) : Prop :=
  DualPath k f /\ forall j, j < k -> ~ DualPath j f.

(* the faces reached from a face of `layer` by crossing free edges only, never entering a face of `seen`
   (what `free_closure seen layer` computes) *)
Inductive FreeClosure (seen layer : list nat) : nat -> Prop :=
| FC_base : forall f, In f layer -> FreeClosure seen layer f
| FC_step : forall f g, FreeClosure seen layer f -> DualStep false f g -> ~ In g seen -> FreeClosure seen layer g.

(* refine's documented contract for exclude_outer_faces: an inner face is excluded iff it is separated from the outer face
   by an even number of constraint edges (the outer region itself: 0; holes: 2, 4, ...) *)
Definition ParityExcluded (f : nat) : Prop :=
  f <> 0 /\ exists k, Nat.even k = true /\ Layer k f.

(* range hypotheses on s under which the fuel of the checker's searches is sufficient; consequences of well-formedness
   (OuterProofs.Wf_FacesInRange) *)
Definition FacesInRange : Prop :=
  1 <= nF s /\ forall e, e < nH s -> face s (rev e) < nF s.
End ParityP.

(* the reported list of excluded faces: empty for a degenerate (collinear) triangulation, otherwise exactly the
   faces of even depth, without duplicates *)
Definition ExcludedOk (n : obs) (got : list nat) : Prop :=
  (nF n = 1 -> got = []) /\
  (nF n <> 1 -> NoDup got /\ forall f, In f got <-> ParityExcluded n f).

(* ------------------------------------------------------------------ the T_refine verdict *)
(* the boolean that check_refine reports under tag T_refine, as a function of the parsed arguments
   (OuterProofs.check_refine_unfold: check_refine is exactly this after parsing):
   maxv = Some m when max_additional_vertices was given; nex = the announced number of excluded faces *)
Definition refine_verdict (p n : obs) (npts : list pnt) (maxv : option nat) (keep excl : bool) (nex : nat) (got : list nat) : bool :=
  prefix_unchanged p n
  && (match maxv with None => true | Some m => nV n <=? nV p + m end)
  && (length got =? nex)
  && (if keep then constraints_kept p n else constraints_covered p n npts)
  && (if excl then excluded_ok n got else match got with [] => true | _ => false end).

Definition RefineOk (p n : obs) (npts : list pnt) (maxv : option nat) (keep excl : bool) (nex : nat) (got : list nat) : Prop :=
  PrefixUnchanged p n /\
  (forall m, maxv = Some m -> nV n <= nV p + m) /\            (* the vertex budget: at most m Steiner vertices *)
  length got = nex /\
  (if keep then ConstraintsKept p n else ConstraintsCovered p n npts) /\
  (if excl then ExcludedOk n got else got = []).
