(* Refine/RefineFloat.v -- the floating-point kernels used by `refine` (src/delaunay_core/refinement.rs) and the helpers they call
   (math::circumcenter, math::triangle_area, Point2 arithmetic, FaceHandle::shortest_edge's lengths), in IEEE arithmetic, operation for
   operation: every +, -, *, /, sqrt of the Rust code is one correctly rounded (round to nearest even) Flocq operation in the same order,
   for binary64 and binary32 (the scalar type S).  Comparisons are IEEE comparisons (false on NaN).
   `nearest_power_of_two` = input.log2().round().exp2() calls the platform's libm, whose log2 is accurate to less than one unit in the last
   place but not correctly rounded.  The model decides round(fl(log2 x)) from exact integer arithmetic: the exact logarithm decides when it
   is further from n + 1/2 than the error bound of the libm; closer than (1 - that bound) spacings of the scalar type, fl(log2 x) IS n + 1/2 and `round` goes away
   from zero (this happens for every diagonal of a dyadic square: half its length is fl(sqrt 2) * 2^k); in the narrow zone in between the
   outcome is reported as `uncertain` and the correspondence skips the run.  exp2 of an integer is exact.
   Definitions only. *)
From Coq Require Import ZArith List Bool Arith.
From Flocq Require Import Core.Core IEEE754.BinarySingleNaN.
From SpadeV Require Import Num.F64 Num.Decode Geom.Pred Query.FloodFillFloat.
Import ListNotations.

Section RF.
Variables prec emax : Z.
Variable Hp : FLX.Prec_gt_0 prec.
Variable Hm : Prec_lt_emax prec emax.
Notation fl := (binary_float prec emax).
Notation fpt := (fpt prec emax).
Notation "a +. b" := (fadd prec emax Hp Hm a b) (at level 50, left associativity).
Notation "a -. b" := (fsub prec emax Hp Hm a b) (at level 50, left associativity).
Notation "a *. b" := (fmul prec emax Hp Hm a b) (at level 40, left associativity).
Notation "a /. b" := (fdiv prec emax Hp Hm a b) (at level 40, left associativity).
Notation "a <. b" := (flt prec emax a b) (at level 70, no associativity).
Notation psub := (p_sub prec emax Hp Hm).
Notation padd := (p_add prec emax Hp Hm).
Notation pmul := (p_mul prec emax Hp Hm).
Notation pdot := (p_dot prec emax Hp Hm).
Notation plen2 := (p_length2 prec emax Hp Hm).
Notation pdist2 := (p_distance_2 prec emax Hp Hm).
Notation one := (fone prec emax Hp Hm).
Notation half := (fhalf prec emax Hp Hm).

Definition fquarter : fl := binary_normalize prec emax Hp Hm mode_NE 1 (-2) false.
Definition fsqrt (a : fl) : fl := Bsqrt (prec_gt_0_:=Hp) (prec_lt_emax_:=Hm) mode_NE a.
Definition fabs (a : fl) : fl := Babs a.
Definition fneg (a : fl) : fl := Bopp a.

(* `Into<f64>` of the scalar type: exact *)
Definition to_f64 (x : fl) : F :=
  match x with
  | B754_zero s => B754_zero s
  | B754_infinity s => B754_infinity s
  | B754_nan => B754_nan
  | B754_finite s m e _ => binary_normalize 53 1024 Hprec64 Hmax64 mode_NE (if s then Z.neg m else Z.pos m) e s
  end.

(* f64::to_bits *)
Definition bits_of_F (x : F) : Z :=
  let sign (s : bool) : Z := if s then 9223372036854775808%Z else 0%Z in
  match x with
  | B754_zero s => sign s
  | B754_infinity s => (sign s + 9218868437227405312)%Z
  | B754_nan => 9221120237041090560%Z
  | B754_finite s m e _ =>
      if (Z.pos m <? 4503599627370496)%Z then (sign s + Z.pos m)%Z
      else (sign s + (e + 1075) * 4503599627370496 + (Z.pos m - 4503599627370496))%Z
  end.
(* the bit pattern under which the harness prints a coordinate of the scalar type *)
Definition bits_of (x : fl) : Z := bits_of_F (to_f64 x).

Definition is_nan_pt (p : fpt) : bool := is_nan (fx prec emax p) || is_nan (fy prec emax p).
Definition is_finite_pt (p : fpt) : bool := is_finite (fx prec emax p) && is_finite (fy prec emax p).

(* math::validate_coordinate on value.into(): f64 *)
Definition MIN_ALLOWED : F := f_of_bits 3967671271713406976.      (* 2^-142 *)
Definition MAX_ALLOWED : F := f_of_bits 5512405943901487104.      (* 2^201 *)
Definition coordinate_valid (x : fl) : bool :=
  let v := to_f64 x in
  if is_nan v then false
  else if f_lt (f_abs v) MIN_ALLOWED && f_ne v (f_of_bits 0) then false
  else if f_gt (f_abs v) MAX_ALLOWED then false
  else true.
Definition vertex_valid (p : fpt) : bool := coordinate_valid (fx prec emax p) && coordinate_valid (fy prec emax p).

(* refinement.rs :: is_encroaching_edge *)
Definition is_encroaching_edge (edge_from edge_to query : fpt) : bool :=
  let edge_center := pmul (padd edge_from edge_to) half in
  let radius_2 := pdist2 edge_from edge_to *. fquarter in
  pdist2 query edge_center <. radius_2.

(* math::triangle_area *)
Definition triangle_area (v0 v1 v2 : fpt) : fl :=
  let b := psub v1 v0 in
  let c := psub v2 v0 in
  fabs (fx _ _ b *. fy _ _ c -. fy _ _ b *. fx _ _ c) *. half.

(* math::circumcenter: (centre, squared radius) *)
Definition circumcenter (v0 v1 v2 : fpt) : fpt * fl :=
  let b := psub v1 v0 in
  let c := psub v2 v0 in
  let two := one +. one in
  let d := two *. (fx _ _ b *. fy _ _ c -. fx _ _ c *. fy _ _ b) in
  let len_b := pdot b b in
  let len_c := pdot c c in
  let d_inv := one /. d in
  let x := (len_b *. fy _ _ c -. len_c *. fy _ _ b) *. d_inv in
  let y := (fneg len_b *. fx _ _ c +. len_c *. fx _ _ b) *. d_inv in
  (padd (mkfpt prec emax x y) v0, x *. x +. y *. y).

(* UndirectedEdgeHandle::length_2 *)
Definition edge_length_2 (p0 p1 : fpt) : fl := plen2 (psub p0 p1).

(* ---- nearest_power_of_two ---- *)
(* for finite x = m * 2^e > 0: (round(fl(log2 x)), uncertain).
   x lies in [2^n, 2^(n+1)) with n = e + floor(log2 m); c = n + 1/2 is the only value at which `round` changes in that range.
   log2 x - c = eps with x^2 = 2^(2n+1) (1 + dd), eps = log2(1 + dd) / 2 ~ dd / (2 ln 2).  Let u be the spacing of the scalar type next to c
   on the side of eps.  A log2 with an error of at most E u (E < 1) returns c itself when |eps| <= (1 - E) u (then `round` breaks the tie away
   from zero), and a value on the same side of c as the exact logarithm when |eps| >= E u; in between the outcome depends on the libm and
   is reported as uncertain.  (ln 2 is bracketed by 0.6931 and 0.6932.) *)
(* error bounds documented in glibc's e_log2.c (0.547 ulp, 0.550 without fma) and e_log2f.c (0.752 ulp), in thousandths of a spacing *)
Definition log2_zone : Z * Z := if (prec =? 53)%Z then (450, 550)%Z else (245, 755)%Z.
Definition round_log2 (m : positive) (e : Z) : Z * bool :=
  let L := Z.log2 (Z.pos m) in                 (* m in [2^L, 2^(L+1)) *)
  let n := (e + L)%Z in
  let T := Z.shiftl 1 (2 * L + 1) in          (* x^2 >= 2^(2n+1) iff m^2 >= T *)
  let m2 := (Z.pos m * Z.pos m)%Z in
  let exact_k := (if (T <=? m2)%Z then n + 1 else n)%Z in
  let a := Z.abs (2 * n + 1) in               (* |c| = a / 2 *)
  let la := Z.log2 a in
  let c_pos := (0 <=? n)%Z in
  let eps_pos := (T <? m2)%Z in
  (* the spacing next to c on the side of eps is 2^(la - prec), halved just below the power of two |c| = 1/2 *)
  let halved := (a =? 1)%Z && negb (Bool.eqb c_pos eps_pos) in
  let sh := (prec - la + (if halved then 1 else 0))%Z in
  (* |eps| / u = |m2 - T| * 2^sh / (2 T ln 2) *)
  let D := Z.shiftl (Z.abs (m2 - T)) sh in
  let '(lo, hi) := log2_zone in
  if (D * 10000 * 1000 <=? 2 * T * 6931 * lo)%Z then ((if c_pos then n + 1 else n)%Z, false)      (* fl(log2 x) = c: tie, away from zero *)
  else if (2 * T * 6932 * hi <=? D * 10000 * 1000)%Z then (exact_k, false)
  else (exact_k, true).
Definition nearest_power_of_two (x : fl) : fl * bool :=
  match x with
  | B754_zero _ => (B754_zero false, false)            (* log2(0) = -inf, round, exp2(-inf) = 0 *)
  | B754_infinity false => (B754_infinity false, false)
  | B754_finite false m e _ =>
      let '(k, u) := round_log2 m e in
      (binary_normalize prec emax Hp Hm mode_NE 1 k false, u)
  | _ => (B754_nan, false)                             (* log2 of a negative number or NaN *)
  end.

(* the split position of resolve_encroachment: weights for v0 and v1.  `steiner0` / `steiner1`: the end point is in constraint_edge_map *)
Definition split_weights (steiner0 steiner1 : bool) (p0 p1 : fpt) : fl * fl * bool :=
  if negb steiner0 && negb steiner1 then (half, half, false)
  else
    let half_length := fsqrt (edge_length_2 p0 p1) *. half in
    let '(npo2, u) := nearest_power_of_two half_length in
    let other_vertex_weight := half *. npo2 /. half_length in
    let original_vertex_weight := one -. other_vertex_weight in
    if negb steiner0 then (original_vertex_weight, other_vertex_weight, u)
    else (other_vertex_weight, original_vertex_weight, u).
Definition split_position (w0 w1 : fl) (p0 p1 : fpt) : fpt := padd (pmul p0 w0) (pmul p1 w1).

(* ---- RefinementParameters::get_refinement_hint ---- *)
Inductive hint := Ignore | ShouldRefine | MustRefine.
(* lengths of the face's edges e0, e1, e2 = prev(adjacent), adjacent, next(adjacent); which one is the shortest: 0, 1, 2 *)
Definition shortest_index (l0 l1 l2 : fl) : nat :=
  if (l0 <. l1) && (l0 <. l2) then 0 else if l1 <. l2 then 1 else 2.
Definition refinement_hint (max_area min_area : option fl) (limit : F) (v0 v1 v2 : fpt) (shortest_len2 : fl) : hint :=
  let area := triangle_area v0 v1 v2 in
  if match max_area with Some a => a <. area | None => false end then MustRefine
  else if match min_area with Some a => area <. a | None => false end then Ignore
  else
    let radius2 := snd (circumcenter v0 v1 v2) in
    let ratio2 := radius2 /. shortest_len2 in
    if f_gt (to_f64 ratio2) (f_mul limit limit) then ShouldRefine else Ignore.
End RF.
