(* Refine/RefineModel.v -- hand-written executable model of ConstrainedDelaunayTriangulation::refine (src/delaunay_core/refinement.rs):
   calculate_outer_faces (Refine/OuterModel.v), the initial queues (encroached segment candidates = fixed edges, or hull edges with
   keep_constraint_edges, in index order; skinny triangle candidates = all inner faces in index order), the vertex budget
   (max_additional_vertices, default 10 x the initial vertex count), and the main loop with its three steps in the code's order:
     1. pop the last forcibly split segment -> resolve_encroachment;
     2. pop the first encroached segment candidate (skipped for constraint edges with keep_constraint_edges): look at its two sides
        (excluded / outer sides are skipped), is_encroaching_edge against the opposite vertex -> resolve_encroachment, break;
     3. pop the first skinny triangle candidate: excluded?, shortest edge, get_refinement_hint (area bounds, circumradius / shortest edge, in the
        scalar type), the small-input-angle exemption through constraint_edge_map, circumcentre in floating point, locate_with_hint from
        the face's first vertex (greedy walk on floating-point distances, then the exact rotation walk of Tri/Locate.v), the simulated
        legalization that looks for encroached fixed edges, and either the real insertion (Tri/Insert.v) or the deferral of the face.
   resolve_encroachment: split weights (mid point for an input segment, nearest power of two otherwise: Refine/RefineFloat.v), the rounded
   position, validate_constructed_vertex (validate_vertex + four exact orientation tests), insert_on_edge (generated split primitives),
   constraint_edge_map, handle_legal_edge_split, the excluded-face bookkeeping, legalize_vertex (Tri/Insert.v / Tri/Legalize.v) and the
   re-queueing of faces and fixed edges around the new vertex.
   Vertex positions are kept twice: as values of the scalar type (for the floating-point kernels; they become the bit patterns of the new
   vertices) and as exact integers on a common power-of-two scale (for orient / incircle: robust::orient2d / incircle are exact).
   HashSet / HashMap are lists (the iteration order of `excluded_faces` is not observable: the result is compared as a set); Vec::pop takes the
   last element, VecDeque::pop_front the first.  All loops carry explicit fuel (None = out of fuel or a panic of the code: NaN circumcentre,
   `expect` on the insertion of the circumcentre, unwrap of an outer face).  Definitions only. *)
From Coq Require Import ZArith List Bool Arith.
From Flocq Require Import Core.Core IEEE754.BinarySingleNaN.
From SpadeV Require Import Num.F64 Num.Decode Geom.Pred Obs.State Vmap.Model Dcel.Raw Gen.DcelOps Query.Hull Tri.Legalize Tri.Insert Tri.Locate
  Query.FloodFillFloat Refine.OuterModel Refine.RefineFloat.
Import ListNotations.

Section RM.
Variables prec emax : Z.
Variable Hp : FLX.Prec_gt_0 prec.
Variable Hm : Prec_lt_emax prec emax.
Notation fl := (binary_float prec emax).
Notation fpt := (fpt prec emax).

Record rparams := mkrp {
  rp_limit : F;                    (* angle_limit.radius_to_shortest_edge_limit (f64) *)
  rp_min_area : option fl;
  rp_max_area : option fl;
  rp_max_additional : option nat;
  rp_keep : bool;                  (* keep_constraint_edges *)
  rp_excl : bool                   (* exclude_outer_faces *)
}.
Variable P : rparams.
Variable lfuel : nat.              (* fuel of every legalization / walk *)

Record rstate := mkrs {
  rs_d : dcel;
  rs_nc : nat;                     (* increments of num_constraints (handle_legal_edge_split) *)
  rs_fps : list fpt;               (* vertex positions in the scalar type *)
  rs_em : Z;                       (* rs_pts = exact positions / 2^rs_em *)
  rs_pts : list pnt;
  rs_excl : list nat;              (* excluded_faces *)
  rs_forced : list nat;            (* forcibly_split_segments_buffer, head = last element *)
  rs_map : list (nat * (nat * nat));   (* constraint_edge_map *)
  rs_segs : list nat;              (* encroached_segment_candidates, head = front *)
  rs_skinny : list nat;            (* skinny_triangle_candidates, head = front *)
  rs_unc : bool                    (* some log2 decision fell into the zone where the libm decides (RefineFloat.round_log2) *)
}.

(* ---- exact positions ---- *)
Definition dy_fl (x : fl) : dy := normalize (dy_of prec emax x).
Definition init_points (fps : list fpt) : Z * list pnt :=
  let ds := flat_map (fun p => [dy_fl (fx _ _ p); dy_fl (fy _ _ p)]) fps in
  let em := emin_of ds in (em, pair_up (map (scale em) ds)).
(* the points with one more (finite) point appended at index length pts *)
Definition add_point (em : Z) (pts : list pnt) (q : fpt) : Z * list pnt :=
  let dx := dy_fl (fx _ _ q) in let dyy := dy_fl (fy _ _ q) in
  let em' := Z.min em (emin_of [dx; dyy]) in
  let pts' := if (em' <? em)%Z then map (fun p => (Z.shiftl (fst p) (em - em'), Z.shiftl (snd p) (em - em'))) pts else pts in
  (em', pts' ++ [(scale em' dx, scale em' dyy)]).

Definition fzero_pt : fpt := mkfpt prec emax (B754_zero false) (B754_zero false).
Definition fposn (fps : list fpt) (v : nat) : fpt := nth v fps fzero_pt.

(* ---- small containers ---- *)
Definition set_add (x : nat) (s : list nat) : list nat := if memb x s then s else x :: s.
Fixpoint map_get (m : list (nat * (nat * nat))) (k : nat) : option (nat * nat) :=
  match m with
  | [] => None
  | (k', v) :: t => if k =? k' then Some v else map_get t k
  end.
Definition is_some {A} (o : option A) : bool := match o with Some _ => true | None => false end.

(* ---- handles ---- *)
Definition is_fixed_edge (d : dcel) (e : nat) : bool := is_flagged d e || is_outer d e || is_outer d (e_rev e).
Definition is_hull_edge (d : dcel) (e : nat) : bool := is_outer d e || is_outer d (e_rev e).
(* FaceHandle::adjacent_edges: [prev(adjacent), adjacent, next(adjacent)] *)
Definition face_edges (d : dcel) (f : nat) : option (nat * nat * nat) :=
  match f_adjacent d f with
  | Some e1 => Some (e_prev d e1, e1, e_next d e1)
  | None => None
  end.
(* vertex(v).out_edges().flat_map(|edge| edge.face().fix().as_inner()) *)
Definition faces_around (d : dcel) (v : nat) : list nat :=
  flat_map (fun e => let f := e_face d e in if f =? 0 then [] else [f]) (out_edges_of d v).
(* vertex(v).out_edges().filter(!outer).map(next.as_undirected).filter(is_fixed_edge) *)
Definition fixed_edges_around (d : dcel) (v : nat) : list nat :=
  map as_undirected (filter (is_fixed_edge d) (map (e_next d) (filter (fun e => negb (is_outer d e)) (out_edges_of d v)))).
(* UndirectedEdgeHandle::positions of the edge of half-edge e: from / to of the normalized half-edge *)
Definition und_positions (d : dcel) (fps : list fpt) (e : nat) : fpt * fpt :=
  let n := normalized (as_undirected e) in (fposn fps (e_origin d n), fposn fps (e_to d n)).
Definition edge_len2 (d : dcel) (fps : list fpt) (e : nat) : fl :=
  let '(p0, p1) := und_positions d fps e in edge_length_2 prec emax Hp Hm p0 p1.

Definition steiner_data : Z := 777000.      (* the payload the harness gives to vertices made From<Point2> *)
Definition vdata_of (p : fpt) : vdata := mkvd (bits_of prec emax (fx _ _ p)) (bits_of prec emax (fy _ _ p)) steiner_data.

(* ---- resolve_encroachment ---- *)
Definition add_excluded_face (d : dcel) (e : nat) (s : option (list nat)) : option (list nat) :=
  match s with
  | None => None
  | Some l => let f := e_face d e in if f =? 0 then None (* as_inner().unwrap() *) else Some (set_add f l)
  end.

Definition resolve_encroachment (st : rstate) (k : nat) : option rstate :=
  let d := rs_d st in
  let seg := normalized k in
  let v0 := e_origin d seg in
  let v1 := e_to d seg in
  let c0 := map_get (rs_map st) v0 in
  let c1 := map_get (rs_map st) v1 in
  let p0 := fposn (rs_fps st) v0 in
  let p1 := fposn (rs_fps st) v1 in
  let '(w0, w1, u) := split_weights prec emax Hp Hm (is_some c0) (is_some c1) p0 p1 in
  let final := split_position prec emax Hp Hm w0 w1 p0 p1 in
  let st := mkrs d (rs_nc st) (rs_fps st) (rs_em st) (rs_pts st) (rs_excl st) (rs_forced st) (rs_map st) (rs_segs st) (rs_skinny st)
                 (rs_unc st || u) in
  (* validate_constructed_vertex *)
  if negb (vertex_valid prec emax final) then Some st else
  let '(em', pts') := add_point (rs_em st) (rs_pts st) final in
  let nv := Raw.num_vertices d in
  let q := vpos pts' nv in
  let x0 := vpos pts' v0 in
  let x1 := vpos pts' v1 in
  let bad_left :=
    if is_outer d seg then false
    else let x2 := vpos pts' (apex d seg) in (0 <=? orient x0 x2 q)%Z || (0 <=? orient x2 x1 q)%Z in
  let bad_right :=
    if is_outer d (e_rev seg) then false
    else let x3 := vpos pts' (apex d (e_rev seg)) in (0 <=? orient x3 x0 q)%Z || (0 <=? orient x1 x3 q)%Z in
  if bad_left || bad_right then Some st else
  let left_excluded := negb (is_outer d seg) && memb (e_face d seg) (rs_excl st) in
  let right_excluded := negb (is_outer d (e_rev seg)) && memb (e_face d (e_rev seg)) (rs_excl st) in
  let flagged := is_flagged d seg in
  let '(d1, (h, (e1, e2))) := insert_on_edge d seg (vdata_of final) in
  let original := match c0 with Some o => o | None => match c1 with Some o => o | None => (v0, v1) end end in
  let map' := (h, original) :: rs_map st in
  let d2 := if flagged then set_flag (set_flag d1 e1) e2 else d1 in          (* handle_legal_edge_split *)
  let nc' := if flagged then S (rs_nc st) else rs_nc st in
  let ex1 := if left_excluded then add_excluded_face d2 e2 (add_excluded_face d2 e1 (Some (rs_excl st))) else Some (rs_excl st) in
  let ex2 := if right_excluded then add_excluded_face d2 (e_rev e2) (add_excluded_face d2 (e_rev e1) ex1) else ex1 in
  match ex2, legalize_vertex pts' lfuel d2 h with
  | Some excl', Some d3 =>
      Some (mkrs d3 nc' (rs_fps st ++ [final]) em' pts' excl' (rs_forced st) map'
                 (rs_segs st ++ fixed_edges_around d3 h ++ [as_undirected e1; as_undirected e2])
                 (rs_skinny st ++ faces_around d3 h)
                 (rs_unc st))
  | _, _ => None
  end.

(* ---- point location from a hint: walk_to_nearest_neighbor on floating-point squared distances, then the exact walk ---- *)
Section Loc.
Variable d : dcel.
Variable fps : list fpt.
Variable cc : fpt.
Fixpoint fwalk (k : nat) (cur : nat) (curdist : fl) : option nat :=
  match k with
  | O => None
  | S k' =>
    match find (fun e => flt prec emax (p_distance_2 prec emax Hp Hm (fposn fps (e_to d e)) cc) curdist) (out_edges_of d cur) with
    | Some e => fwalk k' (e_to d e) (p_distance_2 prec emax Hp Hm (fposn fps (e_to d e)) cc)
    | None => Some cur
    end
  end.
Definition fwalk_to_nearest (start : nat) : option nat :=
  if p_eq prec emax (fposn fps start) cc then Some start
  else fwalk (S (Raw.num_vertices d)) start (p_distance_2 prec emax Hp Hm cc (fposn fps start)).
Definition flocate (pts' : list pnt) (q : pnt) (hintv : nat) : lres :=
  let start := if hintv <? Raw.num_vertices d then hintv else 0 in
  match fwalk_to_nearest start with
  | Some c => locate_from_closest pts' d q c
  | None => RPanic
  end.
End Loc.

(* ---- the simulated legalization of step 3 ---- *)
Section Sim.
Variable d : dcel.
Variable fps : list fpt.
Variable pts' : list pnt.
Variable cc : fpt.
Variable q : pnt.
Fixpoint simulate (fuel : nat) (stack : list nat) (enc : bool) (forced : list nat) : option (bool * list nat) :=
  match fuel with
  | O => None
  | S k =>
    match stack with
    | [] => Some (enc, forced)
    | e :: rest =>
      if is_fixed_edge d e then
        let '(pf, pt) := und_positions d fps e in
        if is_encroaching_edge prec emax Hp Hm pf pt cc then
          simulate k rest true (if negb (rp_keep P) || negb (is_flagged d e) then as_undirected e :: forced else forced)
        else simulate k rest enc forced
      else
        let r := e_rev e in
        if (0 <? incircle (vpos pts' (apex d r)) (vpos pts' (e_to d e)) (vpos pts' (e_origin d e)) q)%Z
        then simulate k (e_prev d r :: e_next d r :: rest) enc forced
        else simulate k rest enc forced
    end
  end.
End Sim.

(* ---- step 3 for face f (already popped) ---- *)
Definition step3 (st : rstate) (f : nat) : option rstate :=
  let d := rs_d st in
  let fps := rs_fps st in
  if memb f (rs_excl st) then Some st else
  match face_edges d f with
  | None => None
  | Some (e0, e1, e2) =>
    let p0 := fposn fps (e_origin d e0) in
    let p1 := fposn fps (e_origin d e1) in
    let p2 := fposn fps (e_origin d e2) in
    let l0 := edge_len2 d fps e0 in
    let l1 := edge_len2 d fps e1 in
    let l2 := edge_len2 d fps e2 in
    let si := shortest_index prec emax l0 l1 l2 in
    let se := nth si [e0; e1; e2] e2 in
    let sl := nth si [l0; l1; l2] l2 in
    let h := refinement_hint prec emax Hp Hm (rp_max_area P) (rp_min_area P) (rp_limit P) p0 p1 p2 sl in
    match h with
    | Ignore => Some st
    | _ =>
      let exempt :=
        match h with
        | ShouldRefine =>
            negb (is_fixed_edge d se) &&
            match map_get (rs_map st) (e_origin d se), map_get (rs_map st) (e_to d se) with
            | Some (a1, a2), Some (b1, b2) => (a1 =? b1) || (a1 =? b2) || (a2 =? b1) || (a2 =? b2)
            | _, _ => false
            end
        | _ => false
        end in
      if exempt then Some st else
      let cc := fst (circumcenter prec emax Hp Hm p0 p1 p2) in
      let hintv := e_origin d e0 in
      if negb (is_finite_pt prec emax cc) then None else
      let '(em', pts') := add_point (rs_em st) (rs_pts st) cc in
      let nv := Raw.num_vertices d in
      let q := vpos pts' nv in
      let loc := flocate d fps cc pts' q hintv in
      let go (buffer : list nat) (iloc : iloc) : option rstate :=
        match simulate d fps pts' cc q lfuel (List.rev buffer) false [] with
        | None => None
        | Some (enc, forced) =>
          if negb enc then
            if negb (vertex_valid prec emax cc) then None else
            match insert_2d pts' lfuel d iloc (vdata_of cc) with
            | Some d' =>
                Some (mkrs d' (rs_nc st) (fps ++ [cc]) em' pts' (rs_excl st) [] (rs_map st) (rs_segs st)
                           (rs_skinny st ++ faces_around d' nv) (rs_unc st))
            | None => None
            end
          else
            match forced with
            | _ :: _ => Some (mkrs d (rs_nc st) fps (rs_em st) (rs_pts st) (rs_excl st) forced (rs_map st) (rs_segs st)
                                   (rs_skinny st ++ [f]) (rs_unc st))
            | [] => Some st
            end
        end in
      match loc with
      | RPanic => None
      | ROnVertex _ => Some st
      | ROutside _ => Some st
      | ROnEdge e =>
          if rp_keep P && is_flagged d e then Some st
          else if is_flagged d e then
            Some (mkrs d (rs_nc st) fps (rs_em st) (rs_pts st) (rs_excl st) [as_undirected e] (rs_map st) (rs_segs st) (rs_skinny st) (rs_unc st))
          else if forallb (fun x => is_outer d x || memb (e_face d x) (rs_excl st)) [e; e_rev e] then Some st     (* on an edge of the excluded region *)
          else
            go (flat_map (fun x => if is_outer d x then [] else [e_next d x; e_prev d x]) [e; e_rev e]) (IOnEdge e)
      | ROnFace g =>
          if memb g (rs_excl st) then Some st
          else match face_edges d g with
               | Some (a0, a1, a2) => go [a0; a1; a2] (IOnFace g)
               | None => None
               end
      end
    end
  end.

(* ---- the main loop; returns the final state and refinement_complete ---- *)
Variable max_allowed : nat.
Definition with_forced (st : rstate) (l : list nat) : rstate :=
  mkrs (rs_d st) (rs_nc st) (rs_fps st) (rs_em st) (rs_pts st) (rs_excl st) l (rs_map st) (rs_segs st) (rs_skinny st) (rs_unc st).
Definition with_segs (st : rstate) (l : list nat) : rstate :=
  mkrs (rs_d st) (rs_nc st) (rs_fps st) (rs_em st) (rs_pts st) (rs_excl st) (rs_forced st) (rs_map st) l (rs_skinny st) (rs_unc st).
Definition with_skinny (st : rstate) (l : list nat) : rstate :=
  mkrs (rs_d st) (rs_nc st) (rs_fps st) (rs_em st) (rs_pts st) (rs_excl st) (rs_forced st) (rs_map st) (rs_segs st) l (rs_unc st).

(* one side of a segment candidate: not excluded, not outer, and encroached by the opposite vertex *)
Definition side_encroached (st : rstate) (e : nat) : bool :=
  let d := rs_d st in
  let f := e_face d e in
  if (f =? 0) || memb f (rs_excl st) then false
  else is_encroaching_edge prec emax Hp Hm (fposn (rs_fps st) (e_origin d e)) (fposn (rs_fps st) (e_to d e))
                           (fposn (rs_fps st) (apex d e)).

Fixpoint main_loop (fuel : nat) (st : rstate) : option (rstate * bool) :=
  match fuel with
  | O => None
  | S k =>
    if max_allowed <=? Raw.num_vertices (rs_d st) then Some (st, false)
    else
      match rs_forced st with
      | seg :: rest =>
          match resolve_encroachment (with_forced st rest) seg with
          | Some st' => main_loop k st'
          | None => None
          end
      | [] =>
        match rs_segs st with
        | seg :: rest =>
            let st0 := with_segs st rest in
            if rp_keep P && is_flagged (rs_d st) (normalized seg) then main_loop k st0
            else if side_encroached st0 (normalized seg) || side_encroached st0 (not_normalized seg) then
              match resolve_encroachment st0 seg with
              | Some st' => main_loop k st'
              | None => None
              end
            else main_loop k st0
        | [] =>
          match rs_skinny st with
          | f :: rest =>
              match step3 (with_skinny st rest) f with
              | Some st' => main_loop k st'
              | None => None
              end
          | [] => Some (st, true)
          end
        end
      end
  end.
End RM.

(* ---- the whole call ---- *)
Section Top.
Variables prec emax : Z.
Variable Hp : FLX.Prec_gt_0 prec.
Variable Hm : Prec_lt_emax prec emax.

Record rresult := mkrr { rr_d : dcel; rr_nc : nat; rr_complete : bool; rr_excluded : list nat; rr_uncertain : bool }.

Definition refine_model (P : rparams prec emax) (lfuel mfuel : nat) (d : dcel) : option rresult :=
  match (if rp_excl _ _ P then calculate_outer_faces d else Some []) with
  | None => None
  | Some excl0 =>
    let fps := map (fun v => fpos prec emax Hp Hm d v) (seq 0 (Raw.num_vertices d)) in
    let '(em, pts) := init_points prec emax fps in
    let ne := Raw.num_undirected_edges d in
    let segs := filter (fun k => if rp_keep _ _ P then is_hull_edge d (normalized k) else is_fixed_edge d (normalized k)) (seq 0 ne) in
    let skinny := seq 1 (Raw.num_faces d - 1) in
    let nv := Raw.num_vertices d in
    let additional := match rp_max_additional _ _ P with Some m => m | None => nv * 10 end in
    let st0 := mkrs prec emax d 0 fps em pts excl0 [] [] segs skinny false in
    match main_loop prec emax Hp Hm P lfuel (nv + additional) mfuel st0 with
    | Some (st, complete) => Some (mkrr (rs_d _ _ st) (rs_nc _ _ st) complete (rs_excl _ _ st) (rs_unc _ _ st))
    | None => None
    end
  end.
End Top.
