(* Refine/RefineModelProofs.v -- theorems about the executable model of refine (Refine/RefineModel.v), for every input state, every parameter
   set, both scalar types and every fuel:
     * refine_model_frame: the vertex table of the result is the input vertex table (positions, payloads, in the same order: handles are
       stable) followed by the Steiner vertices, each carrying the payload of `From<Point2>`; their number never exceeds
       max_additional_vertices (default 10 x the number of vertices);
     * main_loop_complete / main_loop_incomplete: refinement_complete = true only with all three work queues empty, false only with the
       vertex budget reached;
     * refine_model_budget_zero: with max_additional_vertices = 0 the model returns the input DCEL and the set of calculate_outer_faces, which
       on well-formed states is a duplicate-free enumeration of parity_excluded (Refine/OuterModelProofs.v) -- the stage-1 hook is the
       special case of the stage-2 hook;
     * main_loop_fuel_mono: more fuel does not change an answer. *)
From Coq Require Import ZArith List Bool Arith Lia.
From Flocq Require Import Core.Core IEEE754.BinarySingleNaN.
From SpadeV Require Import Num.F64 Num.Decode Geom.Pred Obs.State Obs.SpecProp Vmap.Model Dcel.Raw Gen.DcelOps Query.Hull Tri.Legalize Tri.Insert Tri.Locate
  Query.FloodFillFloat Refine.Outer Refine.OuterModel Refine.OuterModelProofs Refine.RefineFloat Refine.RefineModel.
Import ListNotations.

(* ------------------------------------------------------------------ the vertex table through the primitives *)
Definition vkey (r : vrec) : Z * Z * Z := (v_x r, v_y r, v_data r).
Definition vkeys (d : dcel) : list (Z * Z * Z) := map vkey (d_verts d).
Definition vdkey (v : vdata) : Z * Z * Z := (vd_x v, vd_y v, vd_d v).

Lemma map_set_nth_key : forall (l : list vrec) i r, vkey r = vkey (nth i l dflt_v) -> map vkey (set_nth i r l) = map vkey l.
Proof.
  induction l as [| h t IH]; intros i r H; [destruct i; reflexivity |].
  destruct i as [| i]; cbn [set_nth map nth] in *.
  - rewrite H. reflexivity.
  - rewrite (IH i r H). reflexivity.
Qed.

Lemma vk_upd_h : forall d a f, vkeys (upd_h d a f) = vkeys d. Proof. reflexivity. Qed.
Lemma vk_set_next : forall d a x, vkeys (set_next d a x) = vkeys d. Proof. reflexivity. Qed.
Lemma vk_set_prev : forall d a x, vkeys (set_prev d a x) = vkeys d. Proof. reflexivity. Qed.
Lemma vk_set_face : forall d a x, vkeys (set_face d a x) = vkeys d. Proof. reflexivity. Qed.
Lemma vk_set_origin : forall d a x, vkeys (set_origin d a x) = vkeys d. Proof. reflexivity. Qed.
Lemma vk_set_half_edge : forall d a h, vkeys (set_half_edge d a h) = vkeys d. Proof. reflexivity. Qed.
Lemma vk_set_adjacent_edge : forall d f o, vkeys (set_adjacent_edge d f o) = vkeys d. Proof. reflexivity. Qed.
Lemma vk_push_face : forall d o, vkeys (push_face d o) = vkeys d. Proof. reflexivity. Qed.
Lemma vk_push_edge : forall d h0 h1, vkeys (push_edge d h0 h1) = vkeys d. Proof. reflexivity. Qed.
Lemma vk_set_out_edge : forall d v o, vkeys (set_out_edge d v o) = vkeys d.
Proof. intros d v o. unfold vkeys, set_out_edge. cbn [d_verts]. apply map_set_nth_key. reflexivity. Qed.
Lemma vk_push_vertex : forall d v o, vkeys (push_vertex d v o) = vkeys d ++ [vdkey v].
Proof. intros d v o. unfold vkeys, push_vertex. cbn [d_verts]. rewrite map_app. reflexivity. Qed.
Lemma vk_set_flag : forall d e, vkeys (set_flag d e) = vkeys d. Proof. reflexivity. Qed.

Ltac vk_norm :=
  repeat first [ rewrite vk_set_next | rewrite vk_set_prev | rewrite vk_set_face | rewrite vk_set_origin | rewrite vk_set_half_edge
               | rewrite vk_upd_h | rewrite vk_set_adjacent_edge | rewrite vk_push_face | rewrite vk_push_edge | rewrite vk_set_out_edge
               | rewrite vk_push_vertex ].

Lemma vk_flip_cw : forall d e, vkeys (fst (flip_cw d e)) = vkeys d.
Proof. intros d e. unfold flip_cw; cbv zeta; cbn [fst]. vk_norm. reflexivity. Qed.
Lemma vk_split_edge : forall d e v, vkeys (fst (split_edge d e v)) = vkeys d ++ [vdkey v].
Proof. intros d e v. unfold split_edge; cbv zeta; cbn [fst]. vk_norm. reflexivity. Qed.
Lemma vk_split_half_edge : forall d e v, vkeys (fst (split_half_edge d e v)) = vkeys d ++ [vdkey v].
Proof. intros d e v. unfold split_half_edge; cbv zeta; cbn [fst]. vk_norm. reflexivity. Qed.
(* face_adjacent_edge(f).unwrap() on a face without an edge is a panic of the code (modelled as "state unchanged") *)
Lemma vk_insert_into_triangle : forall d v f,
  vkeys (fst (insert_into_triangle d v f)) = vkeys d \/ vkeys (fst (insert_into_triangle d v f)) = vkeys d ++ [vdkey v].
Proof.
  intros d v f. unfold insert_into_triangle; cbv zeta. destruct (f_adjacent d f); [right | left; reflexivity].
  cbn [fst]. vk_norm. reflexivity.
Qed.

Lemma vk_legalize : forall pts fuel fully d stack b d' b',
  legalize pts fuel fully d stack b = Some (d', b') -> vkeys d' = vkeys d.
Proof.
  intros pts. induction fuel as [| fuel IH]; intros fully d stack b d' b' H; [discriminate H |].
  cbn [legalize] in H. destruct stack as [| e rest]; [injection H as H1 H2; subst; reflexivity |].
  destruct (is_flagged d e); [eapply IH; exact H |].
  destruct ((e_face d e =? 0) || (e_face d (e_rev e) =? 0)); [eapply IH; exact H |].
  destruct (should_flip pts d e); [| eapply IH; exact H].
  apply IH in H. rewrite H. apply vk_flip_cw.
Qed.

Lemma vk_legalize_fold : forall pts fuel edges acc d',
  fold_left (fun acc e => match acc with
                          | Some d0 => option_map fst (legalize_edge pts fuel d0 e false)
                          | None => None end) edges acc = Some d' ->
  exists d0, acc = Some d0 /\ vkeys d' = vkeys d0.
Proof.
  intros pts fuel. induction edges as [| e edges IH]; intros acc d' H.
  - cbn [fold_left] in H. exists d'. split; [exact H | reflexivity].
  - cbn [fold_left] in H. apply IH in H. destruct H as [d1 [H1 H2]].
    destruct acc as [d0 |]; [| discriminate H1]. exists d0. split; [reflexivity |].
    unfold legalize_edge in H1. destruct (legalize pts fuel false d0 [e] false) as [[d2 b2] |] eqn:E; [| discriminate H1].
    cbn [option_map fst] in H1. injection H1 as H1. subst d2. rewrite H2. eapply vk_legalize. exact E.
Qed.

Lemma vk_legalize_vertex : forall pts fuel d v d', legalize_vertex pts fuel d v = Some d' -> vkeys d' = vkeys d.
Proof.
  intros pts fuel d v d' H. unfold legalize_vertex in H.
  destruct (v_out_edge d v) as [a |]; [| injection H as H; subst; reflexivity].
  destruct (circ_iter (d_ccw d) (num_directed_edges d) a a) as [outs |]; [| discriminate H].
  apply vk_legalize_fold in H. destruct H as [d0 [E H]]. injection E as E. subst d0. exact H.
Qed.

Lemma vk_insert_on_edge : forall d e v, vkeys (fst (insert_on_edge d e v)) = vkeys d ++ [vdkey v].
Proof.
  intros d e v. unfold insert_on_edge. destruct (is_outer d e).
  - pose proof (vk_split_half_edge d (e_rev e) v) as H.
    destruct (split_half_edge d (e_rev e) v) as [d' [nv [e0 e1]]]. exact H.
  - destruct (is_outer d (e_rev e)); [apply vk_split_half_edge | apply vk_split_edge].
Qed.

(* ------------------------------------------------------------------ one step of the main loop *)
Section Frame.
Variables prec emax : Z.
Variable Hp : FLX.Prec_gt_0 prec.
Variable Hm : Prec_lt_emax prec emax.
Variable P : rparams prec emax.
Variable lfuel : nat.
Notation rstate := (rstate prec emax).

(* the DCEL's vertex table is unchanged, or one Steiner vertex was appended *)
Definition Step (st st' : rstate) : Prop :=
  vkeys (rs_d _ _ st') = vkeys (rs_d _ _ st) \/
  exists x y, vkeys (rs_d _ _ st') = vkeys (rs_d _ _ st) ++ [(x, y, steiner_data)].

Lemma resolve_step : forall st k st', resolve_encroachment prec emax Hp Hm lfuel st k = Some st' -> Step st st'.
Proof.
  intros st k st' H. unfold resolve_encroachment in H.
  destruct (split_weights prec emax Hp Hm _ _ _ _) as [[w0 w1] u].
  cbv zeta in H.
  match type of H with (if ?c then _ else _) = _ => destruct c end; [injection H as H; subst st'; left; reflexivity |].
  destruct (add_point prec emax _ _ _) as [em' pts'].
  match type of H with (if ?c then _ else _) = _ => destruct c end; [injection H as H; subst st'; left; reflexivity |].
  cbn [rs_d rs_nc rs_fps rs_em rs_pts rs_excl rs_forced rs_map rs_segs rs_skinny rs_unc] in H.
  match type of H with context [insert_on_edge ?d ?e ?v] =>
    pose proof (vk_insert_on_edge d e v) as Hins; destruct (insert_on_edge d e v) as [d1 [h [e1 e2]]] end.
  cbn [fst] in Hins.
  match type of H with match ?a with _ => _ end = _ => destruct a as [excl' |]; [| discriminate H] end.
  match type of H with match ?b with _ => _ end = _ => destruct b as [d3 |] eqn:EL; [| discriminate H] end.
  injection H as H. subst st'. unfold Step. cbn [rs_d]. right.
  exists (bits_of prec emax (fx _ _ (split_position prec emax Hp Hm w0 w1 (fposn prec emax (rs_fps _ _ st) (e_origin (rs_d _ _ st) (normalized k)))
                                                     (fposn prec emax (rs_fps _ _ st) (e_to (rs_d _ _ st) (normalized k)))))),
         (bits_of prec emax (fy _ _ (split_position prec emax Hp Hm w0 w1 (fposn prec emax (rs_fps _ _ st) (e_origin (rs_d _ _ st) (normalized k)))
                                                     (fposn prec emax (rs_fps _ _ st) (e_to (rs_d _ _ st) (normalized k)))))).
  apply vk_legalize_vertex in EL. rewrite EL.
  match goal with |- vkeys (if ?c then _ else _) = _ => destruct c end; rewrite ?vk_set_flag; exact Hins.
Qed.

Lemma insert_2d_face_step : forall pts d f v d', insert_2d pts lfuel d (IOnFace f) v = Some d' ->
  vkeys d' = vkeys d \/ vkeys d' = vkeys d ++ [vdkey v].
Proof.
  intros pts d f v d' H. cbn [insert_2d] in H. pose proof (vk_insert_into_triangle d v f) as Hi.
  destruct (insert_into_triangle d v f) as [d1 h]. cbn [fst] in Hi. apply vk_legalize_vertex in H. rewrite H. exact Hi.
Qed.
Lemma insert_2d_edge_step : forall pts d e v d', insert_2d pts lfuel d (IOnEdge e) v = Some d' ->
  vkeys d' = vkeys d \/ vkeys d' = vkeys d ++ [vdkey v].
Proof.
  intros pts d e v d' H. cbn [insert_2d] in H. pose proof (vk_insert_on_edge d e v) as Hi.
  destruct (insert_on_edge d e v) as [d1 [h [e0 e1]]]. cbn [fst] in Hi. apply vk_legalize_vertex in H. rewrite H. right.
  destruct (is_flagged d1 e); rewrite ?vk_set_flag; exact Hi.
Qed.

Lemma step3_step : forall st f st', step3 prec emax Hp Hm P lfuel st f = Some st' -> Step st st'.
Proof.
  intros st f st' H. unfold step3 in H.
  destruct (memb f (rs_excl _ _ st)); [injection H as H; subst st'; left; reflexivity |].
  destruct (face_edges (rs_d _ _ st) f) as [[[e0 e1] e2] |]; [| discriminate H].
  cbv zeta in H.
  destruct (refinement_hint prec emax Hp Hm _ _ _ _ _ _ _) eqn:Eh; [injection H as H; subst st'; left; reflexivity | |].
  1: (match type of H with (if ?c then _ else _) = _ => destruct c end; [injection H as H; subst st'; left; reflexivity |]).
  2: cbv iota in H.
  all: match type of H with (if ?c then _ else _) = _ => destruct c end; [discriminate H |].
  all: destruct (add_point prec emax _ _ _) as [em' pts'].
  all: match type of H with match ?l with _ => _ end = _ => destruct l as [v | e | g | e |] end.
  all: try (injection H as H; subst st'; left; reflexivity).
  all: try discriminate H.
  (* on an edge *)
  all: try (match type of H with (if ?c then _ else _) = _ => destruct c end; [injection H as H; subst st'; left; reflexivity |];
            match type of H with (if ?c then _ else _) = _ => destruct c end; [injection H as H; subst st'; left; reflexivity |];
            match type of H with (if ?c then _ else _) = _ => destruct c end; [injection H as H; subst st'; left; reflexivity |]).
  (* on a face *)
  all: try (match type of H with (if ?c then _ else _) = _ => destruct c end; [injection H as H; subst st'; left; reflexivity |];
            match type of H with match ?x with _ => _ end = _ => destruct x as [[[a0 a1] a2] |]; [| discriminate H] end).
  all: match type of H with match ?x with _ => _ end = _ => destruct x as [[enc forced] |]; [| discriminate H] end.
  all: destruct enc; cbn [negb] in H.
  all: try (destruct forced; injection H as H; subst st'; left; reflexivity).
  all: match type of H with (if ?c then _ else _) = _ => destruct c end; [discriminate H |].
  all: match type of H with match ?x with _ => _ end = _ => destruct x as [d' |] eqn:Ei; [| discriminate H] end.
  all: injection H as H; subst st'; unfold Step; cbn [rs_d].
  all: first [apply insert_2d_edge_step in Ei | apply insert_2d_face_step in Ei].
  all: destruct Ei as [Ei | Ei]; [left; exact Ei | right; eexists; eexists; exact Ei].
Qed.

(* ------------------------------------------------------------------ the main loop *)
Variable max_allowed : nat.
Notation main_loop := (main_loop prec emax Hp Hm P lfuel max_allowed).

Definition steiner_key (k : Z * Z * Z) : Prop := snd k = steiner_data.

Lemma vkeys_length : forall d, length (vkeys d) = Raw.num_vertices d.
Proof. intros d. unfold vkeys, Raw.num_vertices. apply map_length. Qed.

Theorem main_loop_frame : forall fuel st st' c, main_loop fuel st = Some (st', c) ->
  exists extra, vkeys (rs_d _ _ st') = vkeys (rs_d _ _ st) ++ extra /\ Forall steiner_key extra /\
                (extra = [] \/ Raw.num_vertices (rs_d _ _ st) + length extra <= max_allowed).
Proof.
  induction fuel as [| fuel IH]; intros st st' c H; [discriminate H |].
  cbn [RefineModel.main_loop] in H.
  destruct (max_allowed <=? Raw.num_vertices (rs_d _ _ st)) eqn:Eb.
  { injection H as H1 H2. subst st'. exists []. rewrite app_nil_r. split; [reflexivity |]. split; [constructor | left; reflexivity]. }
  apply Nat.leb_gt in Eb.
  assert (Hcont : forall st1, Step st st1 -> main_loop fuel st1 = Some (st', c) ->
            exists extra, vkeys (rs_d _ _ st') = vkeys (rs_d _ _ st) ++ extra /\ Forall steiner_key extra /\
                          (extra = [] \/ Raw.num_vertices (rs_d _ _ st) + length extra <= max_allowed)).
  { intros st1 Hs H1. destruct (IH st1 st' c H1) as [extra [He [Hf Hb]]]. destruct Hs as [Hs | [x [y Hs]]].
    - exists extra. rewrite He, Hs. split; [reflexivity |]. split; [exact Hf |].
      destruct Hb as [Hb | Hb]; [left; exact Hb | right]. rewrite <- !vkeys_length in *. rewrite Hs in Hb. exact Hb.
    - exists ((x, y, steiner_data) :: extra). rewrite He, Hs, <- app_assoc. split; [reflexivity |].
      split; [constructor; [reflexivity | exact Hf] |]. right. cbn [length].
      destruct Hb as [Hb | Hb]; [subst extra; cbn [length]; lia |].
      rewrite <- !vkeys_length in *. rewrite Hs, app_length in Hb. cbn [length] in Hb. lia. }
  destruct (rs_forced _ _ st) as [| seg rest] eqn:Ef.
  - destruct (rs_segs _ _ st) as [| seg rest] eqn:Es.
    + destruct (rs_skinny _ _ st) as [| f rest] eqn:Ek.
      * injection H as H1 H2. subst st'. exists []. rewrite app_nil_r. split; [reflexivity |]. split; [constructor | left; reflexivity].
      * destruct (step3 prec emax Hp Hm P lfuel (with_skinny prec emax st rest) f) as [st1 |] eqn:E3; [| discriminate H].
        apply step3_step in E3. apply (Hcont st1); [exact E3 | exact H].
    + match type of H with (if ?c then _ else _) = _ => destruct c end.
      * apply (Hcont (with_segs prec emax st rest)); [left; reflexivity | exact H].
      * match type of H with (if ?c then _ else _) = _ => destruct c end.
        -- destruct (resolve_encroachment prec emax Hp Hm lfuel (with_segs prec emax st rest) seg) as [st1 |] eqn:Er; [| discriminate H].
           apply resolve_step in Er. apply (Hcont st1); [exact Er | exact H].
        -- apply (Hcont (with_segs prec emax st rest)); [left; reflexivity | exact H].
  - destruct (resolve_encroachment prec emax Hp Hm lfuel (with_forced prec emax st rest) seg) as [st1 |] eqn:Er; [| discriminate H].
    apply resolve_step in Er. apply (Hcont st1); [exact Er | exact H].
Qed.

(* refinement_complete = true: nothing is left to do *)
Theorem main_loop_complete : forall fuel st st', main_loop fuel st = Some (st', true) ->
  rs_forced _ _ st' = [] /\ rs_segs _ _ st' = [] /\ rs_skinny _ _ st' = [].
Proof.
  induction fuel as [| fuel IH]; intros st st' H; [discriminate H |].
  cbn [RefineModel.main_loop] in H.
  destruct (max_allowed <=? Raw.num_vertices (rs_d _ _ st)); [discriminate H |].
  destruct (rs_forced _ _ st) as [| seg rest] eqn:Ef.
  - destruct (rs_segs _ _ st) as [| seg rest] eqn:Es.
    + destruct (rs_skinny _ _ st) as [| f rest] eqn:Ek.
      * injection H as H. subst st'. repeat split; assumption.
      * destruct (step3 _ _ _ _ _ _ _ _) as [st1 |]; [apply (IH st1); exact H | discriminate H].
    + match type of H with (if ?c then _ else _) = _ => destruct c end; [apply (IH _ _ H) |].
      match type of H with (if ?c then _ else _) = _ => destruct c end; [| apply (IH _ _ H)].
      destruct (resolve_encroachment _ _ _ _ _ _ _) as [st1 |]; [apply (IH st1); exact H | discriminate H].
  - destruct (resolve_encroachment _ _ _ _ _ _ _) as [st1 |]; [apply (IH st1); exact H | discriminate H].
Qed.

(* refinement_complete = false: the vertex budget is reached *)
Theorem main_loop_incomplete : forall fuel st st', main_loop fuel st = Some (st', false) ->
  max_allowed <= Raw.num_vertices (rs_d _ _ st').
Proof.
  induction fuel as [| fuel IH]; intros st st' H; [discriminate H |].
  cbn [RefineModel.main_loop] in H.
  destruct (max_allowed <=? Raw.num_vertices (rs_d _ _ st)) eqn:Eb.
  { injection H as H. subst st'. apply Nat.leb_le. exact Eb. }
  destruct (rs_forced _ _ st) as [| seg rest].
  - destruct (rs_segs _ _ st) as [| seg rest].
    + destruct (rs_skinny _ _ st) as [| f rest]; [discriminate H |].
      destruct (step3 _ _ _ _ _ _ _ _) as [st1 |]; [apply (IH st1); exact H | discriminate H].
    + match type of H with (if ?c then _ else _) = _ => destruct c end; [apply (IH _ _ H) |].
      match type of H with (if ?c then _ else _) = _ => destruct c end; [| apply (IH _ _ H)].
      destruct (resolve_encroachment _ _ _ _ _ _ _) as [st1 |]; [apply (IH st1); exact H | discriminate H].
  - destruct (resolve_encroachment _ _ _ _ _ _ _) as [st1 |]; [apply (IH st1); exact H | discriminate H].
Qed.

(* an answer does not depend on the fuel *)
Theorem main_loop_fuel_mono : forall fuel st r, main_loop fuel st = Some r -> forall fuel', fuel <= fuel' -> main_loop fuel' st = Some r.
Proof.
  induction fuel as [| fuel IH]; intros st r H fuel' Hle; [discriminate H |].
  destruct fuel' as [| fuel']; [lia |]. assert (Hle' : fuel <= fuel') by lia.
  cbn [RefineModel.main_loop] in *.
  destruct (max_allowed <=? Raw.num_vertices (rs_d _ _ st)); [exact H |].
  destruct (rs_forced _ _ st) as [| seg rest].
  - destruct (rs_segs _ _ st) as [| seg rest].
    + destruct (rs_skinny _ _ st) as [| f rest]; [exact H |].
      destruct (step3 _ _ _ _ _ _ _ _) as [st1 |]; [apply (IH st1 r H fuel' Hle') | discriminate H].
    + match type of H with (if ?c then _ else _) = _ => destruct c end; [apply (IH _ r H fuel' Hle') |].
      match type of H with (if ?c then _ else _) = _ => destruct c end; [| apply (IH _ r H fuel' Hle')].
      destruct (resolve_encroachment _ _ _ _ _ _ _) as [st1 |]; [apply (IH st1 r H fuel' Hle') | discriminate H].
  - destruct (resolve_encroachment _ _ _ _ _ _ _) as [st1 |]; [apply (IH st1 r H fuel' Hle') | discriminate H].
Qed.
End Frame.

(* ------------------------------------------------------------------ the whole call *)
Section Whole.
Variables prec emax : Z.
Variable Hp : FLX.Prec_gt_0 prec.
Variable Hm : Prec_lt_emax prec emax.

Definition additional_of (P : rparams prec emax) (d : dcel) : nat :=
  match rp_max_additional _ _ P with Some m => m | None => Raw.num_vertices d * 10 end.

(* handles are stable, Steiner vertices carry the From<Point2> payload, the budget is never exceeded *)
Theorem refine_model_frame : forall P lfuel mfuel d r, refine_model prec emax Hp Hm P lfuel mfuel d = Some r ->
  exists extra, vkeys (rr_d r) = vkeys d ++ extra /\ Forall steiner_key extra /\ length extra <= additional_of P d.
Proof.
  intros P lfuel mfuel d r H. unfold refine_model in H.
  destruct (if rp_excl prec emax P then calculate_outer_faces d else Some []) as [excl0 |]; [| discriminate H].
  destruct (init_points prec emax _) as [em pts].
  match type of H with match ?x with _ => _ end = _ => destruct x as [[st c] |] eqn:E; [| discriminate H] end.
  injection H as H. subst r. cbn [rr_d].
  apply main_loop_frame in E. cbn [rs_d] in E. destruct E as [extra [He [Hf Hb]]].
  exists extra. split; [exact He |]. split; [exact Hf |].
  destruct Hb as [Hb | Hb]; [subst extra; cbn [length]; lia |]. unfold additional_of. lia.
Qed.

(* max_additional_vertices = 0: nothing happens; the excluded faces are those of calculate_outer_faces *)
Theorem refine_model_budget_zero : forall P lfuel mfuel d, rp_max_additional _ _ P = Some 0 ->
  refine_model prec emax Hp Hm P lfuel (S mfuel) d =
  match (if rp_excl _ _ P then calculate_outer_faces d else Some []) with
  | Some l => Some (mkrr d 0 false l false)
  | None => None
  end.
Proof.
  intros P lfuel mfuel d H0. unfold refine_model. rewrite H0.
  destruct (if rp_excl prec emax P then calculate_outer_faces d else Some []) as [excl0 |]; [| reflexivity].
  destruct (init_points prec emax _) as [em pts]. cbn [RefineModel.main_loop rs_d].
  rewrite Nat.add_0_r, Nat.leb_refl. reflexivity.
Qed.

(* with the theorem of stage 1: on a well-formed state the excluded faces of a budget-0 refinement enumerate parity_excluded *)
Corollary refine_model_budget_zero_parity : forall P lfuel mfuel s, Wf s ->
  rp_max_additional _ _ P = Some 0 -> rp_excl _ _ P = true ->
  exists l, refine_model prec emax Hp Hm P lfuel (S mfuel) (dcel_of_obs s) = Some (mkrr (dcel_of_obs s) 0 false l false) /\
            NoDup l /\ forall f, In f l <-> In f (parity_excluded s).
Proof.
  intros P lfuel mfuel s Hwf H0 He. destruct (outer_model_is_parity_excluded s Hwf) as [l [Hl [Hnd Hin]]].
  exists l. split; [| split; assumption]. rewrite (refine_model_budget_zero P lfuel mfuel _ H0), He, Hl. reflexivity.
Qed.
End Whole.

Print Assumptions refine_model_frame.
Print Assumptions refine_model_budget_zero_parity.
