(* Tri/AddConstraint.v -- hand-written executable model of constraint insertion WITHOUT splitting (src/cdt.rs):
     ConstrainedDelaunayTriangulation::{add_constraint, try_add_constraint, can_add_constraint, add_constraint_edge (after its two inserts)},
     try_add_constraint_inner, get_conflict_resolutions (conflict resolver = panic! for add_constraint, ConflictResolution::Cancel for
     try_add_constraint; the Split arm is out of scope), resolve_conflict_groups (arms Existing and EdgeOverlap; the ConstraintEdgeSplit arm and
     the split_vertices loop are out of scope: without a Split resolution no such region is ever produced), resolve_conflict_region,
     make_constraint_edge, contains_any_constraint_edge,
   written over the line-iterator model (Tri/LineIter.v: get_next), the GENERATED flip_cw (Gen/DcelOps.v), the model of
   legalize_edges_after_removal (Tri/Remove.v: legalize_after_removal, closure |_| false = smallest_new 0) and DCEL::get_edge_from_neighbors
   (Tri/LineIter.v: edge_from_neighbors).  The statements follow the Rust code line by line: the same order of reads and writes, the same Vec
   discipline (a Vec that is only pushed and then iterated is a list in push order; the Vec that legalize_edges_after_removal pops is a stack whose
   HEAD is the last element of the Vec).

   Conventions:
     * the iterator is consumed lazily, as the `for` loop does: Iterator::next has already computed the follower of the item it returns
       (`get_next` is evaluated before the item is looked at), and nothing behind the first crossed constraint edge is evaluated;
     * loops carry explicit fuel; `None` = out of fuel OR a Rust panic other than the documented "Constraint edges must not intersect." (that one
       is the result `Refused`);
     * `num_constraints` is not part of the DCEL tables; the model threads the number of flags newly set by make_constraint_edge
       (`nc`), which decides the bool that add_constraint returns;
     * exact predicates over the decoded integer coordinates `pts` (the vertex table is never changed here).
   Definitions only; the theorems are in Tri/AddConstraintProofs.v.
   Tie to the code: Check/RunModel.v runs `try_add_constraint_inner` / `can_add_constraint` on the state the implementation was in before every
   `addc` / `tryc` / `canc` operation and compares all four tables, the returned edge list / bool and the change of num_constraints
   index-exactly (tag corr). *)
From Coq Require Import ZArith List Bool Arith.
From SpadeV Require Import Geom.Pred Obs.State Obs.LineSpec Vmap.Model Dcel.Raw Gen.DcelOps Query.Hull Tri.Legalize Tri.Insert Tri.Locate
  Tri.LineIter Tri.Remove.
Import ListNotations.

(* ConflictRegionEnd without the ConstraintEdgeSplit variant; InitialConflictRegion = (conflict_edges, group_end) *)
Inductive region_end := REExisting (v : nat) | REOverlap (e : nat).
Definition region : Type := (list nat * region_end)%type.

(* the outcome of get_conflict_resolutions in no-split mode: the resolver was called (Cancel / panic!) or the regions *)
Inductive conflict_result := CRefused | CRegions (l : list region).

(* the outcome of try_add_constraint_inner: `Refused` = the resolver was called: add_constraint panics with "Constraint edges must not
   intersect.", try_add_constraint returns the empty Vec; nothing was mutated.  `Added d nc edges`: new state, number of flags newly set,
   returned Vec<FixedDirectedEdgeHandle> *)
Inductive add_result := Refused | Added (d : dcel) (nc : nat) (edges : list nat).

Definition opt_eqb (a : option nat) (b : nat) : bool := match a with Some x => x =? b | None => false end.

Section AC.
Variable pts : list pnt.            (* exact vertex positions, by vertex index *)
Variable fuel : nat.

(* ------------------------------------------------------------------ get_conflict_resolutions *)
(* `for intersection in LineIntersectionIterator::new_from_handles(self, from, to)`; `cur` = the iterator's cur_intersection,
   `group` = current_group, `ignored` = ignored_vertex, `acc` = conflict_groups (all in push order) *)
Fixpoint collect_regions (k : nat) (d : dcel) (a b : pnt) (cur : option litem) (group : list nat) (ignored : option nat)
    (acc : list region) : option conflict_result :=
  match cur with
  | None => Some (CRegions acc)
  | Some it =>
    match k with
    | O => None
    | S k' =>
      match get_next pts d a b fuel it with
      | None => None
      | Some nx =>
        match it with
        | IX e =>
            if negb (is_flagged d e) then collect_regions k' d a b nx (group ++ [e]) ignored acc
            else Some CRefused                                    (* conflict_resolver(edge): Cancel => return (Vec::new(), true); or panic! *)
        | IV v =>
            (* ignored_vertex.take() == Some(v) *)
            if opt_eqb ignored v then collect_regions k' d a b nx group None acc
            else collect_regions k' d a b nx [] None (acc ++ [(group, REExisting v)])
        | IO e =>
            collect_regions k' d a b nx group (Some (e_to d e)) (acc ++ [([], REOverlap e)])
        end
      end
    end
  end.

Definition get_conflict_resolutions (d : dcel) (va vb : nat) : option conflict_result :=
  collect_regions fuel d (vpos pts va) (vpos pts vb) (Some (IV va)) [] None [].

(* ------------------------------------------------------------------ make_constraint_edge (the CDT method: counts) *)
Definition make_constraint_edge (d : dcel) (nc : nat) (u : nat) : dcel * nat :=
  if negb (is_flagged d (normalized u)) then (set_flag d (normalized u), S nc) else (d, nc).

(* ------------------------------------------------------------------ resolve_conflict_region *)
(* the closure make_temporary_edge; `temp` = temporary_constraint_edges in push order *)
Definition make_temporary_edge (d : dcel) (temp : list nat) (u : nat) : dcel * list nat :=
  if negb (is_flagged d (normalized u)) then (set_flag d (normalized u), temp ++ [u]) else (d, temp).

(* `while current != last_border_edge.rev()` *)
Fixpoint border_loop (k : nat) (d : dcel) (nc : nat) (temp : list nat) (current stop target : nat) (result : option nat)
    : option (dcel * nat * list nat * option nat) :=
  if current =? stop then Some (d, nc, temp, result) else
  match k with
  | O => None
  | S k' =>
    let fixed := current in
    let next := as_undirected (e_next d current) in
    let current' := d_ccw d current in
    let '(d, nc, result) :=
      if target =? e_to d fixed then
        let '(d, nc) := make_constraint_edge d nc (as_undirected fixed) in (d, nc, Some fixed)
      else (d, nc, result) in
    let '(d, temp) := make_temporary_edge d temp next in
    border_loop k' d nc temp current' stop target result
  end.

Definition clear_flag_u (d : dcel) (u : nat) : dcel :=
  mkdcel (d_verts d) (d_hedges d) (d_faces d) (set_nth u false (d_flags d)).

Definition resolve_conflict_region (d : dcel) (nc : nat) (conflict_edges : list nat) (target_vertex : nat)
    : option (dcel * nat * option nat) :=
  match conflict_edges with
  | [] => Some (d, nc, None)                                            (* conflict_edges.first()? *)
  | first :: _ =>
    let first_border_edge := e_prev d (e_rev first) in
    let last_border_edge := e_next d (e_rev first) in
    let d := fold_left (fun d e => fst (flip_cw d (as_undirected e))) conflict_edges d in
    let '(d, temp) := make_temporary_edge d [] (as_undirected first_border_edge) in
    let '(d, temp) := make_temporary_edge d temp (as_undirected last_border_edge) in
    match border_loop fuel d nc temp first_border_edge (e_rev last_border_edge) target_vertex None with
    | None => None
    | Some (d, nc, temp, result) =>
      (* the collected Vec is popped from its end: the stack's head is the last conflict edge *)
      match legalize_after_removal pts fuel d (List.rev (map as_undirected conflict_edges)) 0 with
      | None => None
      | Some d => Some (fold_left clear_flag_u temp d, nc, result)
      end
    end
  end.

(* ------------------------------------------------------------------ resolve_conflict_groups *)
Definition opt_list {A} (o : option A) : list A := match o with Some x => [x] | None => [] end.

Fixpoint resolve_groups (d : dcel) (nc : nat) (groups : list region) (constraint_edges : list nat) (last_vertex : option nat)
    : option (dcel * nat * list nat) :=
  match groups with
  | [] => Some (d, nc, constraint_edges)
  | (conflict_edges, group_end) :: rest =>
    match group_end with
    | REExisting v =>
        let last_edge :=
          match conflict_edges, last_vertex with
          | [], Some last =>
              match edge_from_neighbors d last v with
              | Some edge => if memb edge constraint_edges then None else Some edge
              | None => None
              end
          | _, _ => None
          end in
        match resolve_conflict_region d nc conflict_edges v with
        | None => None
        | Some (d, nc, res) =>
            resolve_groups d nc rest (constraint_edges ++ opt_list res ++ opt_list last_edge) (Some v)
        end
    | REOverlap edge =>
        resolve_groups d nc rest (constraint_edges ++ [edge]) (Some (e_to d edge))
    end
  end.

Definition resolve_conflict_groups (d : dcel) (groups : list region) : option (dcel * nat * list nat) :=
  match resolve_groups d 0 groups [] None with
  | None => None
  | Some (d, nc, constraint_edges) =>
      (* for edge in &constraint_edges { self.make_constraint_edge(edge.as_undirected()); } *)
      let '(d, nc) := fold_left (fun acc e => make_constraint_edge (fst acc) (snd acc) (as_undirected e)) constraint_edges (d, nc) in
      Some (d, nc, constraint_edges)
  end.

(* ------------------------------------------------------------------ try_add_constraint_inner (no-split resolvers) *)
Definition try_add_constraint_inner (d : dcel) (va vb : nat) : option add_result :=
  if (Raw.num_vertices d <=? va) || (Raw.num_vertices d <=? vb) then None else      (* delaunay.vertex(..): index out of range *)
  match get_conflict_resolutions d va vb with
  | None => None
  | Some CRefused => Some Refused
  | Some (CRegions groups) =>
      match resolve_conflict_groups d groups with
      | None => None
      | Some (d, nc, edges) => Some (Added d nc edges)
      end
  end.

(* ------------------------------------------------------------------ can_add_constraint *)
Definition can_add_constraint_m (d : dcel) (va vb : nat) : option bool :=
  if (Raw.num_vertices d <=? va) || (Raw.num_vertices d <=? vb) then None else
  option_map negb
    (iterate_any pts d (vpos pts va) (vpos pts vb) (fun it => match it with IX e => is_flagged d e | _ => false end) fuel fuel (Some (IV va))).
End AC.

(* the deliverable's signatures *)
(* try_add_constraint: a refused addition returns the unchanged state and [] *)
Definition add_constraint (pts : list pnt) (fuel : nat) (d : dcel) (va vb : nat) : option (dcel * list nat) :=
  match try_add_constraint_inner pts fuel d va vb with
  | None => None
  | Some Refused => Some (d, [])
  | Some (Added d' _ edges) => Some (d', edges)
  end.

(* add_constraint's bool: self.num_constraints != initial_num_constraints (None also when the code panics on a crossing) *)
Definition add_constraint_bool (pts : list pnt) (fuel : nat) (d : dcel) (va vb : nat) : option (dcel * bool) :=
  match try_add_constraint_inner pts fuel d va vb with
  | Some (Added d' nc _) => Some (d', negb (nc =? 0))
  | _ => None
  end.

Definition can_add_constraint (pts : list pnt) (fuel : nat) (d : dcel) (va vb : nat) : option bool :=
  can_add_constraint_m pts fuel d va vb.
