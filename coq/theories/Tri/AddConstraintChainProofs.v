(* Tri/AddConstraintChainProofs.v -- the regions that get_conflict_resolutions collects from the line iterator on a well-formed triangulation are
   strips with pairwise disjoint faces (RegionsOK, Tri/AddConstraintRegionProofs.v); hence add_constraint / try_add_constraint preserve link-level
   well-formedness for every segment between two vertices: through any number of vertices, along existing edges, across free edges
   (add_constraint_DW).

   PART 1  the item list of a chain is a sequence of blocks after its first vertex: runs of edge intersections closed by a vertex, overlaps
           followed by their end vertex (Blocks); regions_of yields exactly one region per block (regions_of_blocks)
   PART 2  the faces of two different runs are disjoint (runs_disjoint)
   PART 3  Blocks => RegionsOK (blocks_ok); the theorem *)
From Coq Require Import ZArith List Bool Arith Lia.
From SpadeV Require Import Geom.Pred Geom.Lemmas Obs.State Obs.LineSpec Obs.Query Vmap.Model Dcel.Raw Dcel.WfCore Gen.DcelOps Dcel.ProofsFlip
  Tri.Legalize Tri.LegalizeProofs Tri.Insert Tri.Locate Tri.LineIter Tri.LineIterProofs Tri.Remove Tri.RemoveProofs
  Tri.AddConstraint Tri.AddConstraintProofs Tri.AddConstraintRegionProofs Tri.AddConstraintIterProofs.
Import ListNotations.

(* ================================================================================================ *)
(* PART 1.  blocks                                                                                   *)
(* ================================================================================================ *)

Inductive Blocks : list litem -> list region -> Prop :=
| Bk_tail : forall l, Blocks (map IX l) []                                   (* the iteration ended inside a run (or at once): nothing is pushed *)
| Bk_run : forall e0 rest v1 t rs, Blocks t rs -> Blocks (map IX (e0 :: rest) ++ IV v1 :: t) ((e0 :: rest, REExisting v1) :: rs)
| Bk_ov : forall e v1 t rs, Blocks t rs -> Blocks (IO e :: IV v1 :: t) (([], REOverlap e) :: rs)
| Bk_ov_end : forall e, Blocks [IO e] [([], REOverlap e)].

Lemma NoDup_app_r_ : forall A (l1 l2 : list A), NoDup (l1 ++ l2) -> NoDup l2.
Proof. intros A l1. induction l1 as [|x t IH]; intros l2 H; [exact H|]. cbn [app] in H. inversion H; subst. apply IH. assumption. Qed.

Lemma NoDup_app_disjoint_ : forall A (l1 l2 : list A), NoDup (l1 ++ l2) -> forall x, In x l1 -> In x l2 -> False.
Proof.
  intros A l1. induction l1 as [|y t IH]; intros l2 H x H1 H2; [destruct H1|]. cbn [app] in H. inversion H as [|? ? Ny H']; subst.
  destruct H1 as [E|H1]; [subst y; apply Ny; apply in_or_app; right; exact H2|apply (IH l2 H' x H1 H2)].
Qed.

Section Chains.
Variable pts : list pnt.
Variable d : dcel.
Variables a b : pnt.
Notation n := (length (d_hedges d)).
Notation Inv_ := (Inv pts d a b).
Notation Chain_ := (Chain pts d a b).
Notation Step_ := (Step pts d a b).

Lemma Chain_tail : forall x l, Chain_ (x :: l) -> Chain_ l.
Proof. intros x [|y t] H; [exact I|exact (proj2 H)]. Qed.

Lemma Chain_app_r : forall l1 l2, Chain_ (l1 ++ l2) -> Chain_ l2.
Proof. induction l1 as [|x t IH]; intros l2 H; [exact H|]. apply IH. apply (Chain_tail x). exact H. Qed.

Lemma Chain_app_l : forall l1 l2, Chain_ (l1 ++ l2) -> Chain_ l1.
Proof.
  induction l1 as [|x t IH]; intros l2 H; [exact I|]. destruct t as [|y t']; [exact I|].
  cbn [app] in H. change (Step_ x y /\ Chain_ (y :: t' ++ l2)) in H. destruct H as (S1 & H).
  change (Step_ x y /\ Chain_ (y :: t')). split; [exact S1|]. apply (IH l2). exact H.
Qed.

(* a run in progress: prev is the last edge intersection seen, l the group collected so far *)
Lemma regions_of_run : forall t1 ep l acc rs,
  Chain_ (IX ep :: t1) -> regions_of d t1 l None acc = CRegions rs ->
  (exists l2 v1 t2, t1 = map IX l2 ++ IV v1 :: t2 /\ regions_of d t2 [] None (acc ++ [(l ++ l2, REExisting v1)]) = CRegions rs) \/
  (exists l2, t1 = map IX l2 /\ rs = acc).
Proof.
  induction t1 as [|it t' IH]; intros ep l acc rs Ch H.
  - right. exists []. cbn [regions_of] in H. inversion H. split; reflexivity.
  - change (Step_ (IX ep) it /\ Chain_ (it :: t')) in Ch. destruct Ch as (S1 & Ch).
    destruct it as [e|v1|e]; cbn [regions_of] in H.
    + destruct (negb (is_flagged d e)); [|discriminate].
      destruct (IH e (l ++ [e]) acc rs Ch H) as [(l2 & v1 & t2 & E & R)|(l2 & E & R)].
      * left. exists (e :: l2), v1, t2. cbn [map app]. rewrite E. split; [reflexivity|]. rewrite <- app_assoc in R. exact R.
      * right. exists (e :: l2). cbn [map]. rewrite E. split; [reflexivity|exact R].
    + cbn [opt_eqb] in H. left. exists [], v1, t'. cbn [map app]. rewrite app_nil_r. split; [reflexivity|exact H].
    + cbn [Step] in S1. destruct S1.
Qed.

Lemma regions_of_blocks : forall m t v0 acc rs, length t <= m ->
  Chain_ (IV v0 :: t) -> regions_of d t [] None acc = CRegions rs -> exists rs', rs = acc ++ rs' /\ Blocks t rs'.
Proof.
  induction m as [|m IH]; intros t v0 acc rs Lm Ch H.
  - destruct t; [|cbn in Lm; lia]. cbn [regions_of] in H. inversion H. exists []. split; [rewrite app_nil_r; reflexivity|apply (Bk_tail [])].
  - destruct t as [|it t1]; [cbn [regions_of] in H; inversion H; exists []; split; [rewrite app_nil_r; reflexivity|apply (Bk_tail [])]|].
    change (Step_ (IV v0) it /\ Chain_ (it :: t1)) in Ch. destruct Ch as (S1 & Ch). cbn [length] in Lm.
    destruct it as [e0|v|e].
    + cbn [regions_of] in H. destruct (negb (is_flagged d e0)); [|discriminate]. cbn [app] in H.
      destruct (regions_of_run t1 e0 [e0] acc rs Ch H) as [(l2 & v1 & t2 & E & R)|(l2 & E & R)].
      * assert (Ch2 : Chain_ (IV v1 :: t2)) by (apply (Chain_app_r (IX e0 :: map IX l2)); cbn [app]; rewrite <- E; exact Ch).
        assert (L2 : length t2 <= m) by (rewrite E in Lm; rewrite app_length in Lm; cbn [length] in Lm; lia).
        destruct (IH t2 v1 _ rs L2 Ch2 R) as (rs' & Ers & Bk).
        exists ((e0 :: l2, REExisting v1) :: rs'). split; [rewrite Ers, <- app_assoc; reflexivity|].
        rewrite E. apply (Bk_run e0 l2 v1 t2 rs' Bk).
      * exists []. split; [rewrite app_nil_r; exact R|]. rewrite E. apply (Bk_tail (e0 :: l2)).
    + cbn [Step] in S1. destruct S1.
    + cbn [regions_of] in H. destruct t1 as [|it2 t2].
      * cbn [regions_of] in H. inversion H. exists [([], REOverlap e)]. split; [reflexivity|apply Bk_ov_end].
      * change (Step_ (IO e) it2 /\ Chain_ (it2 :: t2)) in Ch. destruct Ch as (S2 & Ch2).
        destruct it2 as [e2|v1|e2]; cbn [Step] in S2; try (destruct S2; fail).
        destruct S2 as (Ev & _). cbn [regions_of] in H.
        assert (Eq : opt_eqb (Some (e_to d e)) v1 = true) by (cbn [opt_eqb]; apply Nat.eqb_eq; symmetry; exact Ev).
        rewrite Eq in H. cbn [length] in Lm.
        destruct (IH t2 v1 _ rs ltac:(lia) Ch2 H) as (rs' & Ers & Bk).
        exists (([], REOverlap e) :: rs'). split; [rewrite Ers, <- app_assoc; reflexivity|apply (Bk_ov e v1 t2 rs' Bk)].
Qed.

(* ================================================================================================ *)
(* PART 2.  different runs have disjoint faces                                                       *)
(* ================================================================================================ *)
Hypothesis W : DW d.
Hypothesis EC : EdgesCcw pts d.
Hypothesis ND : forall e, e < n -> vpos pts (e_origin d e) <> vpos pts (e_to d e).

Local Open Scope Z_scope.
Lemma first_faces_distinct : forall e0 e0', (e0 < n)%nat -> (e0' < n)%nat -> e0 <> e0' ->
  Inv_ (IX e0) -> Inv_ (IX e0') -> inner d (rev e0) -> e_face d (rev e0') <> e_face d (rev e0).
Proof.
  intros e0 e0' He0 He0' Ne (_ & X0) (_ & X0') It Fe.
  destruct X0 as (_ & _ & XF0 & XT0). destruct X0' as (_ & _ & XF' & XT').
  pose proof (dw_rev_lt d W e0 He0) as Ht. pose proof (dw_rev_lt d W e0' He0') as Ht'.
  destruct (tri_pos pts d W EC (rev e0) Ht It) as (T1 & T2 & T3 & _).
  destruct (dw_same_face d W (rev e0) (rev e0') Ht Ht' It Fe) as [E|[E|E]].
  - apply Ne. apply rev_inj. symmetry. exact E.
  - assert (Q : pfrom pts d (rev e0') = pto pts d (rev e0)) by (rewrite E; symmetry; exact T1).
    fold (e_rev e0') in Q. fold (e_rev e0) in Q. rewrite pfrom_rev, pto_rev in Q. rewrite Q in XT'. lia.
  - assert (Q : pto pts d (rev e0') = pfrom pts d (rev e0)) by (rewrite E; exact T3).
    fold (e_rev e0') in Q. fold (e_rev e0) in Q. rewrite pfrom_rev, pto_rev in Q. rewrite Q in XF'. lia.
Qed.
Local Close Scope Z_scope.

(* what a run provides *)
Definition RunFacts (v0 : nat) (l : list nat) : Prop :=
  Inv_ (IV v0) /\ (forall e, In e l -> Inv_ (IX e) /\ inner d e) /\
  match l with e0 :: _ => inner d (rev e0) /\ e_origin d (e_prev d (rev e0)) = v0 | [] => True end.

Lemma run_facts : forall v0 l v1, Forall Inv_ (IV v0 :: map IX l ++ [IV v1]) -> Chain_ (IV v0 :: map IX l ++ [IV v1]) -> RunFacts v0 l.
Proof.
  intros v0 l v1 FI Ch. inversion FI as [|? ? I0 FI']; subst.
  split; [exact I0|]. split.
  - intros e He. rewrite Forall_forall in FI'. split; [apply FI'; apply in_or_app; left; apply in_map; exact He|].
    apply Chain_tail in Ch. clear FI FI' I0. revert Ch He. induction l as [|x t IH]; intros Ch He; [destruct He|].
    cbn [map app] in Ch. destruct He as [He|He].
    + subst x. destruct t as [|y t']; cbn [map app] in Ch.
      * destruct Ch as ((Ie & _) & _). exact Ie.
      * change (Step_ (IX e) (IX y) /\ Chain_ (IX y :: map IX t' ++ [IV v1])) in Ch. destruct Ch as ((Ie & _) & _). exact Ie.
    + apply IH; [apply (Chain_tail (IX x)); exact Ch|exact He].
  - destruct l as [|e0 t]; [exact I|]. cbn [map app] in Ch.
    change (Step_ (IV v0) (IX e0) /\ Chain_ (IX e0 :: map IX t ++ [IV v1])) in Ch. destruct Ch as ((It & Ap & _) & _).
    split; [exact It|exact Ap].
Qed.

Lemma runs_disjoint : forall v0 e0 rest v0' e0' rest',
  RunFacts v0 (e0 :: rest) -> RunFacts v0' (e0' :: rest') -> (forall e e', In e (e0 :: rest) -> In e' (e0' :: rest') -> e <> e') ->
  forall f, In f (e_face d (rev e0) :: map (e_face d) (e0 :: rest)) -> ~ In f (e_face d (rev e0') :: map (e_face d) (e0' :: rest')).
Proof.
  intros v0 e0 rest v0' e0' rest' (I0 & Fx & It & Ap) (I0' & Fx' & It' & Ap') Dj f Hf Hf'.
  pose proof (Fx e0 (or_introl eq_refl)) as (Ie0 & _). pose proof (Fx' e0' (or_introl eq_refl)) as (Ie0' & _).
  destruct Hf as [Hf|Hf]; destruct Hf' as [Hf'|Hf'].
  - subst f. apply (first_faces_distinct e0 e0' (proj1 Ie0) (proj1 Ie0') (Dj _ _ (or_introl eq_refl) (or_introl eq_refl)) Ie0 Ie0' It Hf').
  - apply in_map_iff in Hf'. destruct Hf' as (x & E & Hx). subst f. destruct (Fx' x Hx) as (Ix & _).
    apply (first_face_not_left pts d a b W EC v0 e0 x (proj1 Ie0) (proj1 Ix) I0 Ie0 Ix It Ap E).
  - apply in_map_iff in Hf. destruct Hf as (x & E & Hx). subst f. destruct (Fx x Hx) as (Ix & _).
    apply (first_face_not_left pts d a b W EC v0' e0' x (proj1 Ie0') (proj1 Ix) I0' Ie0' Ix It' Ap'). symmetry. exact Hf'.
  - apply in_map_iff in Hf. destruct Hf as (x & E & Hx). apply in_map_iff in Hf'. destruct Hf' as (y & E' & Hy). subst f.
    destruct (Fx x Hx) as (Ix & Inx). destruct (Fx' y Hy) as (Iy & _).
    apply (Dj x y Hx Hy). symmetry. apply (ix_same_face pts d a b W EC x y (proj1 Ix) (proj1 Iy) Ix Iy Inx E').
Qed.

(* ================================================================================================ *)
(* PART 3.  Blocks => RegionsOK                                                                      *)
(* ================================================================================================ *)

(* the run of a region lies in t *)
Definition RunIn (t : list litem) (r : region) : Prop :=
  match r with
  | (e0 :: rest, REExisting _) => (forall e, In e (e0 :: rest) -> In (IX e) t) /\ exists v0, RunFacts v0 (e0 :: rest)
  | _ => True
  end.

Lemma blocks_ok : forall t rs, Blocks t rs -> forall v0,
  Forall Inv_ (IV v0 :: t) -> Chain_ (IV v0 :: t) -> NoDup (IV v0 :: t) ->
  RegionsOK d rs /\ (forall r, In r rs -> RunIn t r).
Proof.
  intros t rs Bk. induction Bk as [l|e0 rest v1 t rs Bk IH|e v1 t rs Bk IH|e]; intros v0 FI Ch NDl.
  - split; [exact I|intros r []].
  - (* a run *)
    assert (Split : IV v0 :: map IX (e0 :: rest) ++ IV v1 :: t = (IV v0 :: map IX (e0 :: rest) ++ [IV v1]) ++ t)
      by (cbn [app]; rewrite <- app_assoc; reflexivity).
    assert (Split2 : IV v0 :: map IX (e0 :: rest) ++ IV v1 :: t = (IV v0 :: map IX (e0 :: rest)) ++ IV v1 :: t) by reflexivity.
    assert (FIr : Forall Inv_ (IV v0 :: map IX (e0 :: rest) ++ [IV v1])) by (rewrite Split in FI; apply Forall_app in FI; exact (proj1 FI)).
    assert (Chr : Chain_ (IV v0 :: map IX (e0 :: rest) ++ [IV v1])) by (rewrite Split in Ch; apply Chain_app_l in Ch; exact Ch).
    assert (FIt : Forall Inv_ (IV v1 :: t)) by (rewrite Split2 in FI; apply Forall_app in FI; exact (proj2 FI)).
    assert (Cht : Chain_ (IV v1 :: t)) by (rewrite Split2 in Ch; apply Chain_app_r in Ch; exact Ch).
    assert (NDt : NoDup (IV v1 :: t)) by (rewrite Split2 in NDl; apply NoDup_app_r_ in NDl; exact NDl).
    destruct (IH v1 FIt Cht NDt) as (OKrs & Rin).
    pose proof (run_facts v0 (e0 :: rest) v1 FIr Chr) as RF.
    assert (St : Strip d v0 e0 rest) by (eapply strip_of_chain; eassumption).
    split.
    + cbn [RegionsOK]. split; [exists v0; exact St|]. split; [|exact OKrs].
      intros r' Hr' f Hf. pose proof (Rin r' Hr') as Rr'.
      destruct r' as [[|e0' rest'] [v'|e']]; cbn [region_faces]. 1, 2, 4: intros [].
      cbn [RunIn] in Rr'. destruct Rr' as (Int & v0' & RF').
      cbn [region_faces] in Hf. apply (runs_disjoint v0 e0 rest v0' e0' rest' RF RF'); [|exact Hf].
      intros x y Hx Hy E. subst y.
      (* IX x occurs both in the run and behind it *)
      rewrite Split2 in NDl. inversion NDl as [|? ? _ NDl']; subst.
      apply (NoDup_app_disjoint_ _ (map IX (e0 :: rest)) (IV v1 :: t) NDl' (IX x)); [apply in_map; exact Hx|right; apply Int; exact Hy].
    + intros r [E|Hr].
      * subst r. cbn [RunIn]. split; [intros x Hx; apply in_or_app; left; apply in_map; exact Hx|exists v0; exact RF].
      * pose proof (Rin r Hr) as Rr. destruct r as [[|e0' rest'] [v'|e']]; cbn [RunIn] in *; try exact I.
        destruct Rr as (Int & RFx). split; [intros x Hx; apply in_or_app; right; right; apply Int; exact Hx|exact RFx].
  - (* an overlap followed by its end vertex *)
    assert (FIt : Forall Inv_ (IV v1 :: t)) by (inversion FI as [|? ? _ F1]; subst; inversion F1; subst; assumption).
    assert (Cht : Chain_ (IV v1 :: t)) by (apply (Chain_app_r [IV v0; IO e]); exact Ch).
    assert (NDt : NoDup (IV v1 :: t)) by (inversion NDl as [|? ? _ N1]; subst; inversion N1; subst; assumption).
    destruct (IH v1 FIt Cht NDt) as (OKrs & Rin).
    split.
    + cbn [RegionsOK RegionOK region_faces]. split; [exact I|]. split; [intros r' _ f []|exact OKrs].
    + intros r [E|Hr]; [subst r; exact I|].
      pose proof (Rin r Hr) as Rr. destruct r as [[|e0' rest'] [v'|e']]; cbn [RunIn] in *; try exact I.
      destruct Rr as (Int & RFx). split; [intros x Hx; right; right; apply Int; exact Hx|exact RFx].
  - split; [cbn [RegionsOK RegionOK region_faces]; split; [exact I|split; [intros r' []|exact I]]|intros r [E|[]]; subst r; exact I].
Qed.
End Chains.

(* link-level well-formedness is preserved by every accepted constraint insertion between two vertices of a well-formed triangulation with
   counter-clockwise faces (the iterator's item list exists: Tri/LineIterProofs.v, line_iter_handles_total) *)
Theorem add_constraint_DW : forall pts fuel d va vb items d' nc edges,
  DW d -> EdgesCcw pts d -> (forall e, e < length (d_hedges d) -> vpos pts (e_origin d e) <> vpos pts (e_to d e)) ->
  va < length (d_verts d) ->
  line_iter_handles pts fuel d va vb = Some items ->
  try_add_constraint_inner pts fuel d va vb = Some (Added d' nc edges) -> DW d'.
Proof.
  intros pts fuel d va vb items d' nc edges W EC ND Hva LI H.
  set (a := vpos pts va) in *. set (b := vpos pts vb) in *.
  assert (I0 : Inv pts d a b (IV va)) by (split; [exact Hva|apply first_vertex]).
  unfold line_iter_handles in LI. fold a b in LI.
  destruct (iterate_inv pts d a b W EC ND fuel fuel (IV va) _ I0 LI) as (FI & Ch & (t & Et)). subst items.
  pose proof (Chain_NoDup pts d a b _ FI Ch) as NDl.
  pose proof H as H'. unfold try_add_constraint_inner in H'.
  destruct ((Raw.num_vertices d <=? va) || (Raw.num_vertices d <=? vb)); [discriminate|].
  destruct (get_conflict_resolutions pts fuel d va vb) as [[|groups]|] eqn:G; try discriminate. clear H'.
  pose proof G as G'. unfold get_conflict_resolutions in G'. fold a b in G'.
  rewrite (collect_regions_iterate pts fuel d a b fuel (Some (IV va)) _ [] None [] LI) in G'.
  cbn [regions_of opt_eqb app] in G'. inversion G' as [G2]. clear G'.
  destruct (regions_of_blocks pts d a b (length t) t va _ groups (le_n _) Ch G2) as (rs' & Ers & Bk).
  destruct (blocks_ok pts d a b W EC t rs' Bk va FI Ch NDl) as (OK & _).
  apply (add_constraint_DW_regions pts fuel d va vb groups d' nc edges W G); [|exact H].
  rewrite Ers. cbn [app RegionsOK RegionOK region_faces]. split; [exact I|]. split; [intros r' _ f []|exact OK].
Qed.

(* the same statement over the observed-state form of link-level well-formedness (Dcel/WfCore.v) *)
Corollary add_constraint_DWf : forall pts fuel d va vb items d' nc edges,
  DWf d -> EdgesCcw pts d -> (forall e, e < length (d_hedges d) -> vpos pts (e_origin d e) <> vpos pts (e_to d e)) ->
  va < length (d_verts d) ->
  line_iter_handles pts fuel d va vb = Some items ->
  try_add_constraint_inner pts fuel d va vb = Some (Added d' nc edges) -> DWf d'.
Proof.
  intros pts fuel d va vb items d' nc edges Wf EC ND Hva LI H. apply DWf_DW. apply DWf_DW in Wf.
  eapply add_constraint_DW; eassumption.
Qed.
