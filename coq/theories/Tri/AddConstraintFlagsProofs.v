(* Tri/AddConstraintFlagsProofs.v -- constraint flags are only ever set on edges whose two end points lie on the closed segment va-vb
   (add_constraint_flags_on_segment), for every accepted constraint insertion between two vertices of a well-formed triangulation with
   counter-clockwise faces whose line iteration ends at the target vertex.

   PART 1  the geometric content of a region list (RegionsGeo): strips between vertices of the segment whose conflict edges have both ends strictly
           off the line; overlapped edges between vertices of the segment; the faces read by different regions are disjoint; transfer along a frame
   PART 2  resolve_groups keeps: every flag that was not there at the start sits on an edge between two vertices of the segment
   PART 3  Blocks => RegionsGeo; the theorem *)
From Coq Require Import ZArith List Bool Arith Lia.
From SpadeV Require Import Geom.Pred Geom.Lemmas Obs.State Obs.LineSpec Obs.Query Vmap.Model Dcel.Raw Dcel.WfCore Gen.DcelOps Dcel.ProofsFlip
  Tri.Legalize Tri.LegalizeProofs Tri.Insert Tri.Locate Tri.LineIter Tri.LineIterProofs Tri.Remove Tri.RemoveProofs
  Tri.AddConstraint Tri.AddConstraintProofs Tri.AddConstraintRegionProofs Tri.AddConstraintIterProofs Tri.AddConstraintChainProofs.
Import ListNotations.

Definition Disj (l1 l2 : list nat) : Prop := forall f, In f l1 -> ~ In f l2.

Section Geo.
Variable pts : list pnt.
Variables a b : pnt.
Variable nV : nat.              (* number of vertices (never changes) *)
Variable n : nat.               (* number of half-edges (never changes) *)
Notation P := (vpos pts).

(* a vertex of the closed segment / a vertex strictly off the supporting line *)
Definition VOK (v : nat) : Prop := v < nV /\ VInv a b (P v).
Definition Off (v : nat) : Prop := orient a b (P v) <> 0%Z.

Lemma VOK_not_Off : a <> b -> forall v w, VOK v -> Off w -> v <> w.
Proof.
  intros Nab v w (_ & V) O E. subst w. apply VInv_spec in V. destruct V as [(E & _)|(_ & Z & _)]; [contradiction|]. apply O. exact Z.
Qed.

(* the undirected edge u joins two vertices of the segment *)
Definition SegEdge (D : dcel) (u : nat) : Prop :=
  exists x, x < n /\ as_undirected x = u /\ VOK (e_origin D x) /\ VOK (e_to D x).
Definition OvOK (D : dcel) (e : nat) : Prop := e < n /\ VOK (e_origin D e) /\ VOK (e_to D e).

Definition region_touch (D : dcel) (r : region) : list nat :=
  match r with
  | (_ :: _, REExisting _) => region_faces D r
  | ([], REOverlap e) => [e_face D e; e_face D (rev e)]
  | _ => []
  end.

Definition RegionGeo (D : dcel) (r : region) : Prop :=
  match r with
  | (e0 :: rest, REExisting v1) =>
      a <> b /\ VOK v1 /\ exists v0, VOK v0 /\ Strip D v0 e0 rest /\ (forall e, In e (e0 :: rest) -> Off (e_origin D e) /\ Off (e_to D e))
  | ([], REOverlap e) => OvOK D e
  | _ => False
  end.

Fixpoint RegionsGeo (D : dcel) (rs : list region) : Prop :=
  match rs with
  | [] => True
  | r :: t => RegionGeo D r /\
              (forall r', In r' t -> Disj (region_faces D r) (region_touch D r') /\ Disj (region_faces D r') (region_touch D r)) /\
              RegionsGeo D t
  end.

(* the twin of every conflict edge lies in a face of the strip *)
Lemma StripFrom_rev_faces : forall d v0 e0 F, DW d -> forall rest e,
  StripFrom d v0 e0 e rest -> In (e_face d (rev e)) F -> (forall x, In x (e :: rest) -> In (e_face d x) F) ->
  forall x, In x (e :: rest) -> In (e_face d (rev x)) F.
Proof.
  intros d v0 e0 F W. induction rest as [|e' r IH]; intros e St Hr HF x Hx; cbn [StripFrom] in St; destruct St as (He & _ & _ & _ & _ & _ & _ & Nx).
  - destruct Hx as [Hx|[]]. subst x. exact Hr.
  - destruct Hx as [Hx|Hx]; [subst x; exact Hr|]. destruct Nx as (Lk & St').
    apply (IH e' St'); [|intros y Hy; apply HF; right; exact Hy|exact Hx].
    destruct Lk as [Lk|Lk]; rewrite Lk; [rewrite (dw_face_next d W e He)|rewrite (dw_face_prev d W e He)]; apply HF; left; reflexivity.
Qed.

Lemma Strip_rev_faces : forall d v0 e0 rest, DW d -> Strip d v0 e0 rest ->
  forall x, In x (e0 :: rest) -> In (e_face d (rev x)) (e_face d (rev e0) :: map (e_face d) (e0 :: rest)).
Proof.
  intros d v0 e0 rest W (_ & _ & _ & SF & _) x Hx.
  apply (StripFrom_rev_faces d v0 e0 _ W rest e0 SF); [left; reflexivity|intros y Hy; right; apply in_map; exact Hy|exact Hx].
Qed.

Lemma RegionsGeo_frame : forall d D Fr, DW d -> length (d_hedges D) = length (d_hedges d) ->
  (forall x, ~ In (e_face d x) Fr -> half_edge D x = half_edge d x) ->
  forall rs, (forall r', In r' rs -> Disj Fr (region_touch d r')) -> RegionsGeo d rs ->
  RegionsGeo D rs /\ (forall r', In r' rs -> region_faces D r' = region_faces d r' /\ region_touch D r' = region_touch d r').
Proof.
  intros d D Fr W LH Frm. induction rs as [|r t IH]; intros Dj OK; cbn [RegionsGeo] in *; [split; [exact I|intros r' []]|].
  destruct OK as (Okr & Djr & OKt).
  destruct (IH (fun r' Hr' => Dj r' (or_intror Hr')) OKt) as (OKt' & Eqt).
  assert (Er : RegionGeo D r /\ region_faces D r = region_faces d r /\ region_touch D r = region_touch d r).
  { pose proof (Dj r (or_introl eq_refl)) as Djh.
    destruct r as [[|e0 rest] [v|e]]; cbn [RegionGeo region_faces region_touch] in *; try contradiction.
    - (* overlap *)
      assert (R1 : half_edge D e = half_edge d e) by (apply Frm; intros Hf; apply (Djh _ Hf); left; reflexivity).
      assert (R2 : half_edge D (rev e) = half_edge d (rev e)) by (apply Frm; intros Hf; apply (Djh _ Hf); right; left; reflexivity).
      unfold OvOK, e_to, e_rev, e_origin, e_face in *. rewrite R1, R2. split; [exact Okr|split; reflexivity].
    - destruct Okr as (Nab & V1 & v0 & V0 & St & OffE).
      assert (Fx : forall x, In (e_face d x) (e_face d (rev e0) :: map (e_face d) (e0 :: rest)) -> half_edge D x = half_edge d x).
      { intros x Hx. apply Frm. intros Hf. apply (Djh _ Hf). exact Hx. }
      destruct (Strip_ext d D v0 e0 rest W LH Fx St) as (St' & EF).
      split; [|split; exact EF].
      split; [exact Nab|]. split; [exact V1|]. exists v0. split; [exact V0|]. split; [exact St'|].
      intros x Hx. destruct (OffE x Hx) as (O1 & O2).
      assert (R1 : half_edge D x = half_edge d x) by (apply Fx; right; apply in_map; exact Hx).
      assert (R2 : half_edge D (rev x) = half_edge d (rev x)) by (apply Fx; apply (Strip_rev_faces d v0 e0 rest W St x Hx)).
      unfold e_to, e_rev, e_origin in *. rewrite R1, R2. split; assumption. }
  destruct Er as (Okr' & Er1 & Er2).
  split.
  - split; [exact Okr'|]. split; [|exact OKt'].
    intros r' Hr'. destruct (Eqt r' Hr') as (E1 & E2). rewrite Er1, Er2, E1, E2. apply (Djr r' Hr').
  - intros r' [E|Hr']; [subst r'; split; assumption|apply Eqt; exact Hr'].
Qed.
End Geo.

(* ================================================================================================ *)
(* PART 2.  resolve_groups                                                                           *)
(* ================================================================================================ *)
Section Groups.
Variable pts : list pnt.
Variables a b : pnt.
Variable nV n : nat.
Variable d0 : dcel.             (* the state before the insertion: the reference for "new" flags *)
Notation VOK_ := (VOK pts a b nV).
Notation SegEdge_ := (SegEdge pts a b nV n).
Notation OvOK_ := (OvOK pts a b nV n).

Definition Phi3 (D : dcel) : Prop := forall u, fl D u = true -> fl d0 u = true \/ SegEdge_ D u.
Definition Phi4 (D : dcel) (ces : list nat) (groups : list region) : Prop :=
  forall e, In e ces -> fl D (as_undirected e) = true \/
                        (OvOK_ D e /\ forall r, In r groups -> Disj (region_faces D r) [e_face D e; e_face D (rev e)]).

Lemma resolve_groups_flags : forall fuel groups D nc ces lv D' nc' ces',
  DW D -> length (d_hedges D) = n -> RegionsGeo pts a b nV n D groups -> Phi3 D -> Phi4 D ces groups ->
  resolve_groups pts fuel D nc groups ces lv = Some (D', nc', ces') ->
  DW D' /\ length (d_hedges D') = n /\ Phi3 D' /\ (forall e, In e ces' -> fl D' (as_undirected e) = true \/ OvOK_ D' e).
Proof.
  intros fuel groups. induction groups as [|[ce ge] rest IH]; intros D nc ces lv D' nc' ces' W LH G P3 P4 H; cbn [resolve_groups] in H.
  - inversion H; subst. split; [exact W|]. split; [exact LH|]. split; [exact P3|].
    intros e He. destruct (P4 e He) as [X|(X & _)]; [left; exact X|right; exact X].
  - cbn [RegionsGeo] in G. destruct G as (Gr & Dj & Gt).
    destruct ce as [|e0 r0]; destruct ge as [v1|eo]; cbn [RegionGeo] in Gr; try contradiction.
    + (* an overlapped edge: nothing changes, the edge is remembered *)
      eapply IH; [exact W|exact LH|exact Gt|exact P3| |exact H].
      intros e He. apply in_app_or in He. destruct He as [He|[He|[]]].
      * destruct (P4 e He) as [X|(X & Y)]; [left; exact X|right; split; [exact X|intros r Hr; apply Y; right; exact Hr]].
      * subst e. right. split; [exact Gr|]. intros r Hr. destruct (Dj r Hr) as (_ & D2). exact D2.
    + (* a strip *)
      destruct Gr as (Nab & V1 & v0 & V0 & St & OffE).
      destruct (resolve_conflict_region pts fuel D nc (e0 :: r0) v1) as [[[D1 nc1] res]|] eqn:R; [|discriminate].
      destruct (resolve_conflict_region_DW pts fuel D nc e0 r0 v0 v1 D1 nc1 res W St R) as (W1 & Fr1 & _ & Mono1 & New1 & Res1 & Org1 & ResFl1).
      pose proof (Keep_resolve_conflict_region _ _ _ _ _ _ _ _ _ R) as (_ & LH1 & _ & _).
      set (Fr := e_face D (rev e0) :: map (e_face D) (e0 :: r0)) in *.
      destruct (RegionsGeo_frame pts a b nV n D D1 Fr W LH1 Fr1 rest (fun r' Hr' => proj1 (Dj r' Hr')) Gt) as (Gt1 & Eq1).
      (* end points of segment edges and conflict edges never coincide *)
      assert (NotC : forall x, VOK_ (e_origin D x) -> VOK_ (e_to D x) ->
                     forall e, In e (e0 :: r0) -> (x <> e /\ x <> rev e) /\ (rev x <> e /\ rev x <> rev e)).
      { intros x Vo Vt e He. destruct (OffE e He) as (O1 & O2).
        pose proof (VOK_not_Off pts a b nV Nab _ _ Vo O1) as N1. pose proof (VOK_not_Off pts a b nV Nab _ _ Vo O2) as N2.
        pose proof (VOK_not_Off pts a b nV Nab _ _ Vt O1) as N3. pose proof (VOK_not_Off pts a b nV Nab _ _ Vt O2) as N4.
        unfold e_to, e_rev in *. split; split; intros E.
        - apply N1. rewrite E. reflexivity.
        - apply N2. rewrite E. reflexivity.
        - apply N3. rewrite E. reflexivity.
        - apply N4. rewrite E. reflexivity. }
      assert (P3' : Phi3 D1).
      { intros u Hu. destruct (New1 u Hu) as [X|(x & Lx & Ex & Ox & Tx)].
        - destruct (P3 u X) as [Y|(x & Lx & Ex & Vo & Vt)]; [left; exact Y|right].
          assert (Fx : fl D (as_undirected x) = true) by (rewrite Ex; exact X).
          assert (Fx' : fl D (as_undirected (rev x)) = true) by (unfold as_undirected in *; rewrite div2_rev; exact Fx).
          pose proof (Org1 x Fx (fun e He => proj1 (NotC x Vo Vt e He))) as O1.
          pose proof (Org1 (rev x) Fx' (fun e He => proj2 (NotC x Vo Vt e He))) as O2.
          exists x. split; [exact Lx|]. split; [exact Ex|]. unfold e_to, e_rev in *. rewrite O1, O2. split; assumption.
        - right. exists x. split; [rewrite <- LH; exact Lx|]. split; [exact Ex|]. rewrite Ox, Tx. split; assumption. }
      assert (P4' : Phi4 D1 (ces ++ opt_list res ++ opt_list None) rest).
      { intros e He. apply in_app_or in He. destruct He as [He|He].
        - destruct (P4 e He) as [X|(X & Y)]; [left; apply Mono1; exact X|right].
          pose proof (Y _ (or_introl eq_refl)) as Yr. cbn [region_faces] in Yr. fold Fr in Yr.
          assert (R1 : half_edge D1 e = half_edge D e) by (apply Fr1; intros Hf; apply (Yr _ Hf); left; reflexivity).
          assert (R2 : half_edge D1 (rev e) = half_edge D (rev e)) by (apply Fr1; intros Hf; apply (Yr _ Hf); right; left; reflexivity).
          split.
          + unfold OvOK, e_to, e_rev, e_origin in *. rewrite R1, R2. exact X.
          + intros r Hr. destruct (Eq1 r Hr) as (E1 & _). rewrite E1. unfold e_face. rewrite R1, R2. apply Y. right. exact Hr.
        - cbn [opt_list] in He. rewrite app_nil_r in He. destruct res as [re|]; [|destruct He]. destruct He as [He|[]]. subst re.
          destruct (ResFl1 e eq_refl) as [X|X]; [left; exact X|exfalso].
          destruct (OffE e0 (or_introl eq_refl)) as (_ & O2). rewrite X in O2.
          apply (VOK_not_Off pts a b nV Nab v1 v1 V1 O2). reflexivity. }
      eapply IH; [exact W1|rewrite LH1; exact LH|exact Gt1|exact P3'|exact P4'|exact H].
Qed.
End Groups.

(* ================================================================================================ *)
(* PART 3.  Blocks => RegionsGeo; the theorem                                                        *)
(* ================================================================================================ *)
Section ChainsGeo.
Variable pts : list pnt.
Variable d : dcel.
Variables a b : pnt.
Notation n := (length (d_hedges d)).
Notation nV := (length (d_verts d)).
Notation Inv_ := (Inv pts d a b).
Notation Chain_ := (Chain pts d a b).
Notation Step_ := (Step pts d a b).
Notation pf := (pfrom pts d).
Notation pt := (pto pts d).
Hypothesis W : DW d.
Hypothesis EC : EdgesCcw pts d.
Hypothesis ND : forall e, e < n -> vpos pts (e_origin d e) <> vpos pts (e_to d e).

Definition OnLine (x : nat) : Prop := orient a b (pf x) = 0%Z /\ orient a b (pt x) = 0%Z.

Local Open Scope Z_scope.
(* an edge along the line is in no face of a strip *)
Lemma online_not_strip_face : forall v0 e0 rest x, RunFacts pts d a b v0 (e0 :: rest) -> (x < n)%nat -> OnLine x ->
  ~ In (e_face d x) (e_face d (rev e0) :: map (e_face d) (e0 :: rest)).
Proof.
  intros v0 e0 rest x (I0 & Fx & It & Ap) Lx (O1 & O2) Hf.
  destruct Hf as [Hf|Hf].
  - pose proof (Fx e0 (or_introl eq_refl)) as ((He0 & X0) & _). destruct X0 as (_ & _ & XF0 & XT0).
    pose proof (dw_rev_lt d W e0 He0) as Ht.
    destruct (tri_pos pts d W EC (rev e0) Ht It) as (T1 & T2 & T3 & _).
    pose proof (pto_rev pts d e0 : pto pts d (rev e0) = pfrom pts d e0) as Hpt.
    pose proof (pfrom_rev pts d e0 : pfrom pts d (rev e0) = pto pts d e0) as Hpf.
    destruct (dw_same_face d W (rev e0) x Ht Lx It (eq_sym Hf)) as [E|[E|E]]; subst x.
    + rewrite Hpf in O1. lia.
    + rewrite <- T1, Hpt in O1. lia.
    + rewrite T3, Hpf in O2. lia.
  - apply in_map_iff in Hf. destruct Hf as (e & Fe & He). destruct (Fx e He) as ((Le & X) & Ie). destruct X as (_ & _ & XF & XT).
    destruct (tri_pos pts d W EC e Le Ie) as (T1 & T2 & T3 & _).
    destruct (dw_same_face d W e x Le Lx Ie (eq_sym Fe)) as [E|[E|E]]; subst x.
    + lia.
    + rewrite <- T1 in O1. lia.
    + rewrite T3 in O2. lia.
Qed.
Local Close Scope Z_scope.

Lemma OnLine_rev : forall x, OnLine x -> OnLine (rev x).
Proof. intros x (O1 & O2). unfold OnLine. fold (e_rev x). rewrite pfrom_rev, pto_rev. split; assumption. Qed.

Lemma OInv_OnLine : forall e, OInv a b (pf e) (pt e) -> OnLine e.
Proof.
  intros e [(E & _)|(_ & Z1 & Z2 & _)]; [|split; assumption]. unfold OnLine. rewrite <- E. split; apply orient_aa.
Qed.

Definition RunIn2 (t : list litem) (r : region) : Prop :=
  match r with
  | (e0 :: rest, REExisting _) => (forall e, In e (e0 :: rest) -> In (IX e) t) /\ exists v0, RunFacts pts d a b v0 (e0 :: rest)
  | ([], REOverlap e) => e < n /\ OnLine e
  | _ => True
  end.

Lemma RegionsGeo_In : forall rs r, RegionsGeo pts a b nV n d rs -> In r rs -> RegionGeo pts a b nV n d r.
Proof.
  induction rs as [|x t IH]; intros r G Hr; [destruct Hr|]. cbn [RegionsGeo] in G. destruct G as (Gx & _ & Gt).
  destruct Hr as [E|Hr]; [subst x; exact Gx|apply IH; assumption].
Qed.

Lemma last_cons_indep : forall A (l : list A) x d1 d2, last (x :: l) d1 = last (x :: l) d2.
Proof. intros A l. induction l as [|y t IH]; intros x d1 d2; [reflexivity|]. change (last (y :: t) d1 = last (y :: t) d2). apply IH. Qed.

Lemma last_app_cons : forall A (l1 : list A) x l2 d1 d2, last (l1 ++ x :: l2) d1 = last (x :: l2) d2.
Proof.
  intros A l1. induction l1 as [|y t IH]; intros x l2 d1 d2; cbn [app].
  - apply last_cons_indep.
  - assert (E : last (y :: t ++ x :: l2) d1 = last (t ++ x :: l2) d1).
    { destruct (t ++ x :: l2) eqn:Q; [exfalso; apply (app_cons_not_nil t l2 x); symmetry; exact Q|reflexivity]. }
    rewrite E. apply IH.
Qed.

Lemma blocks_geo : forall t rs, Blocks t rs -> forall v0,
  Forall Inv_ (IV v0 :: t) -> Chain_ (IV v0 :: t) -> NoDup (IV v0 :: t) -> (forall e, last (IV v0 :: t) (IV v0) <> IO e) ->
  RegionsGeo pts a b nV n d rs /\ (forall r, In r rs -> RunIn2 t r).
Proof.
  intros t rs Bk. induction Bk as [l|e0 rest v1 t rs Bk IH|e v1 t rs Bk IH|e]; intros v0 FI Ch NDl Last.
  - split; [exact I|intros r []].
  - (* a run *)
    assert (Split : IV v0 :: map IX (e0 :: rest) ++ IV v1 :: t = (IV v0 :: map IX (e0 :: rest) ++ [IV v1]) ++ t)
      by (cbn [app]; rewrite <- app_assoc; reflexivity).
    assert (Split2 : IV v0 :: map IX (e0 :: rest) ++ IV v1 :: t = (IV v0 :: map IX (e0 :: rest)) ++ IV v1 :: t) by reflexivity.
    assert (FIr : Forall Inv_ (IV v0 :: map IX (e0 :: rest) ++ [IV v1])) by (rewrite Split in FI; apply Forall_app in FI; exact (proj1 FI)).
    assert (Chr : Chain_ (IV v0 :: map IX (e0 :: rest) ++ [IV v1])) by (rewrite Split in Ch; apply Chain_app_l in Ch; exact Ch).
    assert (FIt : Forall Inv_ (IV v1 :: t)) by (rewrite Split2 in FI; apply Forall_app in FI; exact (proj2 FI)).
    assert (Cht : Chain_ (IV v1 :: t)) by (rewrite Split2 in Ch; apply Chain_app_r in Ch; exact Ch).
    assert (NDt : NoDup (IV v1 :: t)) by (rewrite Split2 in NDl; apply NoDup_app_r_ in NDl; exact NDl).
    assert (Lastt : forall e, last (IV v1 :: t) (IV v1) <> IO e).
    { intros e E. apply (Last e). rewrite Split2. rewrite (last_app_cons _ _ _ _ (IV v0) (IV v1)). exact E. }
    destruct (IH v1 FIt Cht NDt Lastt) as (Grs & Rin).
    pose proof (run_facts pts d a b v0 (e0 :: rest) v1 FIr Chr) as RF.
    assert (St : Strip d v0 e0 rest) by (eapply strip_of_chain; eassumption).
    pose proof RF as (I0 & Fx & It & Ap).
    assert (I1 : Inv_ (IV v1)) by (inversion FIt; assumption).
    assert (Nab : a <> b) by (destruct (Fx e0 (or_introl eq_refl)) as ((_ & X) & _); apply (XInv_neq a b _ _ X)).
    split.
    + cbn [RegionsGeo RegionGeo]. split; [|split; [|exact Grs]].
      * split; [exact Nab|]. split; [exact I1|]. exists v0. split; [exact I0|]. split; [exact St|].
        intros x Hx. destruct (Fx x Hx) as ((_ & X) & _). destruct X as (_ & _ & XF & XT).
        unfold Off. unfold pfrom in XF. unfold pto in XT. split; lia.
      * intros r' Hr'. pose proof (Rin r' Hr') as Rr'. pose proof (RegionsGeo_In rs r' Grs Hr') as Gr'.
        destruct r' as [[|e0' rest'] [v'|e']]; cbn [RegionGeo] in Gr'; try contradiction; cbn [region_faces region_touch RunIn2] in *.
        -- (* a later overlap *)
           destruct Rr' as (Le' & OL). split; [|intros f []].
           intros f Hf [E|[E|[]]]; subst f.
           ++ apply (online_not_strip_face v0 e0 rest e' RF Le' OL Hf).
           ++ apply (online_not_strip_face v0 e0 rest (rev e') RF (dw_rev_lt d W e' Le') (OnLine_rev e' OL) Hf).
        -- (* a later strip *)
           destruct Rr' as (Int & v0' & RF').
           assert (Dx : forall x y, In x (e0 :: rest) -> In y (e0' :: rest') -> x <> y).
           { intros x y Hx Hy E. subst y. rewrite Split2 in NDl. inversion NDl as [|? ? _ NDl']; subst.
             apply (NoDup_app_disjoint_ _ (map IX (e0 :: rest)) (IV v1 :: t) NDl' (IX x)); [apply in_map; exact Hx|right; apply Int; exact Hy]. }
           split.
           ++ intros f Hf. apply (runs_disjoint pts d a b W EC v0 e0 rest v0' e0' rest' RF RF' Dx f Hf).
           ++ intros f Hf. apply (runs_disjoint pts d a b W EC v0' e0' rest' v0 e0 rest RF' RF (fun x y Hx Hy E => Dx y x Hy Hx (eq_sym E)) f Hf).
    + intros r [E|Hr].
      * subst r. cbn [RunIn2]. split; [intros x Hx; apply in_or_app; left; apply in_map; exact Hx|exists v0; exact RF].
      * pose proof (Rin r Hr) as Rr. destruct r as [[|e0' rest'] [v'|e']]; cbn [RunIn2] in *; try exact I; try exact Rr.
        destruct Rr as (Int & RFx). split; [intros x Hx; apply in_or_app; right; right; apply Int; exact Hx|exact RFx].
  - (* an overlap followed by its end vertex *)
    assert (FIt : Forall Inv_ (IV v1 :: t)) by (inversion FI as [|? ? _ F1]; subst; inversion F1; subst; assumption).
    assert (Cht : Chain_ (IV v1 :: t)) by (apply (Chain_app_r pts d a b [IV v0; IO e]); exact Ch).
    assert (NDt : NoDup (IV v1 :: t)) by (inversion NDl as [|? ? _ N1]; subst; inversion N1; subst; assumption).
    assert (Lastt : forall e', last (IV v1 :: t) (IV v1) <> IO e').
    { intros e' E. apply (Last e'). change (IV v0 :: IO e :: IV v1 :: t) with ([IV v0; IO e] ++ IV v1 :: t).
      rewrite (last_app_cons _ _ _ _ (IV v0) (IV v1)). exact E. }
    destruct (IH v1 FIt Cht NDt Lastt) as (Grs & Rin).
    assert (I0 : Inv_ (IV v0)) by (inversion FI; assumption).
    assert (Ie : Inv_ (IO e)) by (inversion FI as [|? ? _ F1]; subst; inversion F1; assumption).
    assert (I1 : Inv_ (IV v1)) by (inversion FIt; assumption).
    change (Step_ (IV v0) (IO e) /\ Chain_ (IO e :: IV v1 :: t)) in Ch. destruct Ch as (S1 & Ch2).
    change (Step_ (IO e) (IV v1) /\ Chain_ (IV v1 :: t)) in Ch2. destruct Ch2 as ((S2 & _) & _). cbn [Step] in S1.
    destruct Ie as (Le & OI). pose proof (OInv_OnLine e OI) as OL.
    split.
    + cbn [RegionsGeo RegionGeo]. split; [|split; [|exact Grs]].
      * unfold OvOK. split; [exact Le|]. rewrite S1, <- S2. split; assumption.
      * intros r' Hr'. pose proof (Rin r' Hr') as Rr'. pose proof (RegionsGeo_In rs r' Grs Hr') as Gr'.
        destruct r' as [[|e0' rest'] [v'|e']]; cbn [RegionGeo] in Gr'; try contradiction; cbn [region_faces region_touch RunIn2] in *.
        -- split; intros f [].
        -- destruct Rr' as (_ & v0' & RF'). split; [intros f []|].
           intros f Hf [E|[E|[]]]; subst f.
           ++ apply (online_not_strip_face v0' e0' rest' e RF' Le OL Hf).
           ++ apply (online_not_strip_face v0' e0' rest' (rev e) RF' (dw_rev_lt d W e Le) (OnLine_rev e OL) Hf).
    + intros r [E|Hr]; [subst r; cbn [RunIn2]; split; assumption|].
      pose proof (Rin r Hr) as Rr. destruct r as [[|e0' rest'] [v'|e']]; cbn [RunIn2] in *; try exact I; try exact Rr.
      destruct Rr as (Int & RFx). split; [intros x Hx; right; right; apply Int; exact Hx|exact RFx].
  - exfalso. apply (Last e). reflexivity.
Qed.
End ChainsGeo.

(* flags are only ever set on edges whose end points are vertices of the closed segment va-vb *)
Theorem add_constraint_flags_on_segment : forall pts fuel d va vb items d' nc edges,
  DW d -> EdgesCcw pts d -> (forall e, e < length (d_hedges d) -> vpos pts (e_origin d e) <> vpos pts (e_to d e)) ->
  va < length (d_verts d) ->
  line_iter_handles pts fuel d va vb = Some items -> (forall e, last items (IV va) <> IO e) ->
  try_add_constraint_inner pts fuel d va vb = Some (Added d' nc edges) ->
  forall u, fl d' u = true ->
    fl d u = true \/
    exists x, x < length (d_hedges d) /\ as_undirected x = u /\
              on_seg (vpos pts va) (vpos pts vb) (vpos pts (e_origin d' x)) = true /\
              on_seg (vpos pts va) (vpos pts vb) (vpos pts (e_to d' x)) = true.
Proof.
  intros pts fuel d va vb items d' nc edges W EC ND Hva LI Last H u Hu.
  set (a := vpos pts va) in *. set (b := vpos pts vb) in *.
  assert (I0 : Inv pts d a b (IV va)) by (split; [exact Hva|apply first_vertex]).
  unfold line_iter_handles in LI. fold a b in LI.
  destruct (iterate_inv pts d a b W EC ND fuel fuel (IV va) _ I0 LI) as (FI & Ch & (t & Et)). subst items.
  pose proof (Chain_NoDup pts d a b _ FI Ch) as NDl.
  unfold try_add_constraint_inner in H.
  destruct ((Raw.num_vertices d <=? va) || (Raw.num_vertices d <=? vb)); [discriminate|].
  unfold get_conflict_resolutions in H. fold a b in H.
  rewrite (collect_regions_iterate pts fuel d a b fuel (Some (IV va)) _ [] None [] LI) in H.
  cbn [regions_of opt_eqb app] in H.
  destruct (regions_of d t [] None [([], REExisting va)]) as [|groups] eqn:G2; [discriminate|].
  destruct (regions_of_blocks pts d a b (length t) t va _ groups (le_n _) Ch G2) as (rs' & Ers & Bk). subst groups.
  destruct (blocks_geo pts d a b W EC t rs' Bk va FI Ch NDl Last) as (Geo & _).
  unfold resolve_conflict_groups in H. cbn [app resolve_groups] in H.
  change (resolve_conflict_region pts fuel d 0 [] va) with (Some (d, 0, @None nat)) in H. cbn iota in H. cbn [opt_list app] in H.
  destruct (resolve_groups pts fuel d 0 rs' [] (Some va)) as [[[d1 nc1] ces]|] eqn:R; [|discriminate].
  destruct (fold_left (fun acc e => make_constraint_edge (fst acc) (snd acc) (as_undirected e)) ces (d1, nc1)) as [d2 nc2] eqn:FM.
  inversion H; subst d' nc edges. clear H.
  destruct (resolve_groups_flags pts a b (length (d_verts d)) (length (d_hedges d)) d fuel rs' d 0 [] (Some va) d1 nc1 ces W eq_refl Geo)
    as (W1 & LH1 & P3 & P4); [intros w Hw; left; exact Hw|intros e []|exact R|].
  pose proof (SameLinks_fold_make ces d1 nc1) as SL. rewrite FM in SL. cbn [fst] in SL.
  destruct (fold_make_flags _ _ _ _ _ FM) as (_ & _ & Back2).
  destruct SL as (_ & SH & _ & _).
  assert (Ro : forall z, e_origin d2 z = e_origin d1 z) by (intros z; unfold e_origin, half_edge; rewrite SH; reflexivity).
  assert (Rt : forall z, e_to d2 z = e_to d1 z) by (intros z; unfold e_to; rewrite Ro; reflexivity).
  assert (Seg : SegEdge pts a b (length (d_verts d)) (length (d_hedges d)) d1 u -> exists x, x < length (d_hedges d) /\ as_undirected x = u /\
              on_seg a b (vpos pts (e_origin d2 x)) = true /\ on_seg a b (vpos pts (e_to d2 x)) = true).
  { intros (x & Lx & Ex & (_ & Vo) & (_ & Vt)). exists x. rewrite Ro, Rt. repeat split; assumption. }
  destruct (Back2 u Hu) as [X|(e & Ie & Eu)].
  - destruct (P3 u X) as [Y|Y]; [left; exact Y|right; apply Seg; exact Y].
  - destruct (P4 e Ie) as [X|(Le & Vo & Vt)].
    + rewrite Eu in X. destruct (P3 u X) as [Y|Y]; [left; exact Y|right; apply Seg; exact Y].
    + right. apply Seg. exists e. split; [exact Le|]. split; [exact Eu|]. split; [exact Vo|exact Vt].
Qed.
