(* Tri/AddConstraintIterProofs.v -- constraint insertion on a well-formed triangulation: the conflict edges that the line iterator reports
   between two vertices form a strip (Tri/AddConstraintRegionProofs.v), hence the re-triangulation keeps the DCEL well-formed and sets
   constraint flags only on edges between vertices of the segment.

   Hypotheses throughout: DW d (link-level well-formedness, equivalent to DWf), EdgesCcw pts d (inner faces counter-clockwise), the two ends of every
   edge have different positions -- the hypotheses of the iterator's soundness proof (Tri/LineIterProofs.v).

   PART 1  the lazily consumed iterator and the collected item list give the same regions (collect_regions_iterate)
   PART 2  geometry of a run  IV v0, IX e0 .. IX ek, IV v1  of the iterator: v0 is strictly right of every crossed edge, the faces involved are
           pairwise distinct, no crossed edge has v0 as opposite apex: the run is a Strip (strip_of_chain)
   PART 3  add_constraint / try_add_constraint when the segment crosses free edges only and meets no vertex in between:
           DW is preserved, the new flags sit on edges va -> vb, the returned edge goes from va to vb (add_constraint_crossing_DW) *)
From Coq Require Import ZArith List Bool Arith Lia.
From SpadeV Require Import Geom.Pred Geom.Lemmas Obs.State Obs.LineSpec Obs.Query Vmap.Model Dcel.Raw Dcel.WfCore Gen.DcelOps Dcel.ProofsFlip
  Tri.Legalize Tri.LegalizeProofs Tri.Insert Tri.Locate Tri.LineIter Tri.LineIterProofs Tri.Remove Tri.RemoveProofs
  Tri.AddConstraint Tri.AddConstraintProofs Tri.AddConstraintRegionProofs.
Import ListNotations.

(* ================================================================================================ *)
(* PART 1.  the regions as a function of the item list                                               *)
(* ================================================================================================ *)

Fixpoint regions_of (d : dcel) (items : list litem) (group : list nat) (ignored : option nat) (acc : list region) : conflict_result :=
  match items with
  | [] => CRegions acc
  | IX e :: t => if negb (is_flagged d e) then regions_of d t (group ++ [e]) ignored acc else CRefused
  | IV v :: t => if opt_eqb ignored v then regions_of d t group None acc else regions_of d t [] None (acc ++ [(group, REExisting v)])
  | IO e :: t => regions_of d t group (Some (e_to d e)) (acc ++ [([], REOverlap e)])
  end.

Lemma collect_regions_iterate : forall pts fuel d a b k cur items g i acc,
  iterate pts d a b fuel k cur = Some items ->
  collect_regions pts fuel k d a b cur g i acc = Some (regions_of d items g i acc).
Proof.
  intros pts fuel d a b k. induction k as [|k IH]; intros cur items g i acc H.
  - destruct cur; cbn [iterate] in H; [discriminate|]. inversion H; subst. reflexivity.
  - destruct cur as [it|]; cbn [iterate] in H; [|inversion H; subst; reflexivity].
    cbn [collect_regions]. destruct (get_next pts d a b fuel it) as [nx|]; [|discriminate].
    destruct (iterate pts d a b fuel k nx) as [r|] eqn:R; [|discriminate]. inversion H; subst items.
    destruct it as [e|v|e]; cbn [regions_of].
    + destruct (negb (is_flagged d e)); [apply IH; exact R|reflexivity].
    + destruct (opt_eqb i v); apply IH; exact R.
    + apply IH; exact R.
Qed.

Lemma regions_of_free_run : forall d l t g i acc, (forall e, In e l -> is_flagged d e = false) ->
  regions_of d (map IX l ++ t) g i acc = regions_of d t (g ++ l) i acc.
Proof.
  intros d l. induction l as [|e r IH]; intros t g i acc Hf; cbn [map app regions_of].
  - rewrite app_nil_r. reflexivity.
  - rewrite (Hf e (or_introl eq_refl)). cbn [negb]. rewrite IH by (intros x Hx; apply Hf; right; exact Hx).
    rewrite <- app_assoc. reflexivity.
Qed.

(* ================================================================================================ *)
(* PART 2.  a run of edge intersections between two vertices is a strip                              *)
(* ================================================================================================ *)
Section Run.
Variable pts : list pnt.
Variable d : dcel.
Variables a b : pnt.
Notation P := (vpos pts).
Notation n := (length (d_hedges d)).
Notation pf := (pfrom pts d).
Notation pt := (pto pts d).
Hypothesis W : DW d.
Hypothesis EC : EdgesCcw pts d.
Hypothesis ND : forall e, e < n -> P (e_origin d e) <> P (e_to d e).

Local Open Scope Z_scope.

Lemma iv_before_ix_side : forall v0 e, Inv pts d a b (IV v0) -> Inv pts d a b (IX e) -> Before pts d a b (IV v0) (IX e) ->
  orient (pf e) (pt e) (P v0) < 0.
Proof.
  intros v0 e (_ & V) (_ & X) Bf.
  pose proof (XInv_neq a b _ _ X) as Nab.
  apply VInv_spec in V. destruct V as [(E & _)|(_ & Ov & D0 & D1)]; [contradiction|].
  destruct Bf as [Bf|(_ & _ & Bf)]; [|discriminate].
  cbn [qn qd] in Bf. rewrite (max1_L2 a b Nab) in Bf. unfold xnum, xden in Bf.
  pose proof (affine_along a b (P v0) (pf e) (pt e)) as Af. rewrite Ov in Af.
  pose proof (dist2_pos a b Nab) as L2.
  nia.
Qed.

Lemma ix_same_face : forall e e', (e < n)%nat -> (e' < n)%nat -> Inv pts d a b (IX e) -> Inv pts d a b (IX e') -> inner d e ->
  e_face d e' = e_face d e -> e' = e.
Proof.
  intros e e' He He' (_ & X) (_ & X') Ie Fe.
  destruct X as (_ & _ & XF & XT). destruct X' as (_ & _ & XF' & XT').
  destruct (tri_pos pts d W EC e He Ie) as (T1 & T2 & T3 & _).
  destruct (dw_same_face d W e e' He He' Ie Fe) as [E|[E|E]]; [exact E| |]; exfalso; subst e'.
  - rewrite <- T1 in XF'. lia.
  - rewrite T3 in XT'. lia.
Qed.

Lemma first_face_not_left : forall v0 e0 e', (e0 < n)%nat -> (e' < n)%nat ->
  Inv pts d a b (IV v0) -> Inv pts d a b (IX e0) -> Inv pts d a b (IX e') ->
  inner d (rev e0) -> e_origin d (e_prev d (rev e0)) = v0 -> e_face d e' <> e_face d (rev e0).
Proof.
  intros v0 e0 e' He0 He' (_ & V) (_ & X0) (_ & X') It Ap Fe.
  pose proof (XInv_neq a b _ _ X0) as Nab.
  apply VInv_spec in V. destruct V as [(E & _)|(_ & Ov & _)]; [contradiction|].
  destruct X0 as (_ & _ & XF0 & XT0). destruct X' as (_ & _ & XF' & XT').
  pose proof (dw_rev_lt d W e0 He0) as Ht.
  destruct (tri_pos pts d W EC (rev e0) Ht It) as (T1 & T2 & T3 & _).
  destruct (dw_same_face d W (rev e0) e' Ht He' It Fe) as [E|[E|E]]; subst e'.
  - fold (e_rev e0) in XF'. rewrite pfrom_rev in XF'. lia.
  - rewrite T2 in XT'. unfold pfrom in XT'. rewrite Ap in XT'. lia.
  - unfold pfrom in XF'. rewrite Ap in XF'. lia.
Qed.

Local Close Scope Z_scope.

Definition PerElem (v0 e0 x : nat) : Prop :=
  x < n /\ e_origin d (e_prev d x) <> v0 /\ rev (e_next d (rev e0)) <> x /\ rev (e_next d (rev e0)) <> rev x /\
  e_prev d (rev e0) <> x /\ e_prev d (rev e0) <> rev x.

Lemma stripfrom_of_chain : forall v0 e0 v1 rest e,
  Chain pts d a b (IX e :: map IX rest ++ [IV v1]) -> (forall x, In x (e :: rest) -> PerElem v0 e0 x) ->
  StripFrom d v0 e0 e rest.
Proof.
  intros v0 e0 v1 rest. induction rest as [|e' r IH]; intros e Ch PE.
  - cbn [map app Chain] in Ch. destruct Ch as ((Ie & _) & _).
    destruct (PE e (or_introl eq_refl)) as (He & Ap & L1 & L2 & K1 & K2). cbn [StripFrom]. repeat split; assumption.
  - cbn [map app] in Ch. change (Step pts d a b (IX e) (IX e') /\ Chain pts d a b (IX e' :: map IX r ++ [IV v1])) in Ch.
    destruct Ch as ((Ie & Lk & _) & Ch').
    destruct (PE e (or_introl eq_refl)) as (He & Ap & L1 & L2 & K1 & K2).
    cbn [StripFrom]. split; [exact He|]. split; [exact Ie|]. split; [exact Ap|]. split; [exact L1|]. split; [exact L2|]. split; [exact K1|]. split; [exact K2|].
    split; [unfold e_rev in Lk; tauto|]. apply IH; [exact Ch'|intros x Hx; apply PE; right; exact Hx].
Qed.

Lemma NoDup_map_local : forall A B (f : A -> B) l, NoDup l -> (forall x y, In x l -> In y l -> f x = f y -> x = y) -> NoDup (map f l).
Proof.
  intros A B f l ND0. induction ND0 as [|x l Nx ND' IH]; intros Inj; cbn [map]; constructor.
  - intros I. apply in_map_iff in I. destruct I as (y & E & Iy). apply Nx.
    rewrite (Inj x y (or_introl eq_refl) (or_intror Iy) (eq_sym E)). exact Iy.
  - apply IH. intros u v Hu Hv. apply Inj; right; assumption.
Qed.

Lemma NoDup_app_l : forall A (l1 l2 : list A), NoDup (l1 ++ l2) -> NoDup l1.
Proof.
  intros A l1. induction l1 as [|x t IH]; intros l2 H; [constructor|]. cbn [app] in H. inversion H as [|? ? Nx H']; subst.
  constructor; [intros I; apply Nx; apply in_or_app; left; exact I|apply (IH l2 H')].
Qed.

Lemma Forall_app_l : forall A (Q : A -> Prop) l1 l2, Forall Q (l1 ++ l2) -> Forall Q l1.
Proof. intros A Q l1 l2 H. apply Forall_forall. intros x Hx. rewrite Forall_forall in H. apply H. apply in_or_app. left. exact Hx. Qed.

Theorem strip_of_chain : forall v0 e0 rest v1,
  Forall (Inv pts d a b) (IV v0 :: map IX (e0 :: rest) ++ [IV v1]) ->
  Chain pts d a b (IV v0 :: map IX (e0 :: rest) ++ [IV v1]) ->
  Strip d v0 e0 rest.
Proof.
  intros v0 e0 rest v1 FI Ch.
  pose proof (Chain_Before pts d a b _ _ FI Ch) as Bf.
  pose proof (Chain_NoDup pts d a b _ FI Ch) as NDl.
  inversion FI as [|? ? I0 FI']; subst.
  assert (IXs : forall x, In x (e0 :: rest) -> Inv pts d a b (IX x) /\ Before pts d a b (IV v0) (IX x)).
  { intros x Hx. rewrite Forall_forall in FI', Bf.
    assert (I : In (IX x) (map IX (e0 :: rest) ++ [IV v1])) by (apply in_or_app; left; apply in_map; exact Hx).
    split; [apply FI'; exact I|apply Bf; exact I]. }
  cbn [map app] in Ch. change (Step pts d a b (IV v0) (IX e0) /\ Chain pts d a b (IX e0 :: map IX rest ++ [IV v1])) in Ch.
  destruct Ch as ((It0 & Ap0 & _) & Ch').
  unfold apex, e_rev in *.
  destruct (IXs e0 (or_introl eq_refl)) as (Ie0 & _). pose proof (proj1 Ie0) as He0.
  pose proof (dw_rev_lt d W e0 He0) as Ht0.
  destruct (dw_tri_facts d (rev e0) W Ht0 It0) as (Ltn & Ltp & A1 & A2 & A3 & A4 & A5 & A6 & A7 & A8 & A9 & A10 & A11 & A12).
  (* inner-ness of every crossed edge: it is followed by another item *)
  assert (Inn : forall rest' e, Chain pts d a b (IX e :: map IX rest' ++ [IV v1]) -> forall x, In x (e :: rest') -> inner d x).
  { induction rest' as [|e' r IHr]; intros e C x Hx.
    - destruct Hx as [Hx|[]]. subst x. cbn [map app Chain] in C. exact (proj1 (proj1 C)).
    - cbn [map app] in C. change (Step pts d a b (IX e) (IX e') /\ Chain pts d a b (IX e' :: map IX r ++ [IV v1])) in C.
      destruct C as ((Ie & _) & C'). destruct Hx as [Hx|Hx]; [subst x; exact Ie|apply (IHr e' C' x Hx)]. }
  pose proof (Inn rest e0 Ch') as InnAll.
  (* per-element facts *)
  assert (PE : forall x, In x (e0 :: rest) -> PerElem v0 e0 x).
  { intros x Hx. destruct (IXs x Hx) as (Ix & Bx). pose proof (proj1 Ix) as Lx.
    pose proof (iv_before_ix_side v0 x I0 Ix Bx) as Side.
    pose proof (InnAll x Hx) as Inx.
    destruct (tri_pos pts d W EC x Lx Inx) as (T1 & T2 & T3 & Pos).
    destruct Ix as (_ & (_ & _ & XF & XT)).
    destruct I0 as (_ & V0). pose proof (XInv_neq a b _ _ (proj2 (proj1 (IXs x Hx)))) as Nab.
    apply VInv_spec in V0. destruct V0 as [(E & _)|(_ & Ov & _)]; [contradiction|].
    assert (Olbr : e_origin d (rev (e_next d (rev e0))) = v0) by (rewrite A11; exact Ap0).
    split; [exact Lx|]. split; [|split; [|split; [|split]]].
    - intros E. rewrite <- T1 in Pos. assert (EP : pfrom pts d (e_prev d x) = vpos pts v0) by (unfold pfrom; rewrite E; reflexivity).
      rewrite EP in Pos. lia.
    - intros E. unfold pfrom in XF. rewrite <- E, Olbr in XF. lia.
    - intros E. unfold pto, e_to, e_rev in XT. rewrite <- E, Olbr in XT. lia.
    - intros E. unfold pfrom in XF. rewrite <- E, Ap0 in XF. lia.
    - intros E. unfold pto, e_to, e_rev in XT. rewrite <- E, Ap0 in XT. lia. }
  split; [exact He0|]. split; [exact It0|]. split; [exact Ap0|]. split; [apply (stripfrom_of_chain v0 e0 v1 rest e0 Ch' PE)|].
  (* the faces are pairwise distinct *)
  assert (NDe : NoDup (e0 :: rest)).
  { inversion NDl as [|? ? _ NDl']; subst. apply (NoDup_app_l _ (map IX (e0 :: rest)) [IV v1]) in NDl'.
    apply (NoDup_map_inv IX). exact NDl'. }
  constructor.
  - intros I. apply in_map_iff in I. destruct I as (x & E & Hx).
    destruct (IXs x Hx) as (Ix & _).
    apply (first_face_not_left v0 e0 x He0 (proj1 Ix) I0 Ie0 Ix It0 Ap0 E).
  - apply NoDup_map_local; [exact NDe|]. intros x y Hx Hy E.
    destruct (IXs x Hx) as (Ix & _). destruct (IXs y Hy) as (Iy & _).
    apply (ix_same_face y x (proj1 Iy) (proj1 Ix) Iy Ix (InnAll y Hy) E).
Qed.
End Run.

(* ================================================================================================ *)
(* PART 3.  a constraint that crosses free edges only and meets no vertex in between                 *)
(* ================================================================================================ *)

Theorem add_constraint_crossing_DW : forall pts fuel d va vb e0 rest d' nc edges,
  DW d -> EdgesCcw pts d -> (forall e, e < length (d_hedges d) -> vpos pts (e_origin d e) <> vpos pts (e_to d e)) ->
  va < length (d_verts d) ->
  line_iter_handles pts fuel d va vb = Some (IV va :: map IX (e0 :: rest) ++ [IV vb]) ->
  (forall e, In e (e0 :: rest) -> is_flagged d e = false) ->
  try_add_constraint_inner pts fuel d va vb = Some (Added d' nc edges) ->
  let F := e_face d (rev e0) :: map (e_face d) (e0 :: rest) in
  DW d' /\
  (forall x, ~ In (e_face d x) F -> half_edge d' x = half_edge d x) /\
  (forall u, fl d u = true -> fl d' u = true) /\
  (forall u, fl d' u = true -> fl d u = true \/
             exists x, x < length (d_hedges d) /\ as_undirected x = u /\ e_origin d' x = va /\ e_to d' x = vb) /\
  (forall e, In e edges -> e < length (d_hedges d) /\ e_origin d' e = va /\ e_to d' e = vb /\ is_flagged d' e = true).
Proof.
  intros pts fuel d va vb e0 rest d' nc edges W EC ND Hva LI Free H F.
  set (a := vpos pts va) in *. set (b := vpos pts vb) in *.
  assert (I0 : Inv pts d a b (IV va)) by (split; [exact Hva|apply first_vertex]).
  unfold line_iter_handles in LI. fold a b in LI.
  destruct (iterate_inv pts d a b W EC ND fuel fuel (IV va) _ I0 LI) as (FI & Ch & _).
  assert (St : Strip d va e0 rest) by (eapply strip_of_chain; eassumption).
  unfold try_add_constraint_inner in H.
  destruct ((Raw.num_vertices d <=? va) || (Raw.num_vertices d <=? vb)); [discriminate|].
  unfold get_conflict_resolutions in H. fold a b in H.
  rewrite (collect_regions_iterate pts fuel d a b fuel (Some (IV va)) _ [] None [] LI) in H.
  cbn [regions_of opt_eqb app] in H.
  rewrite (regions_of_free_run d (e0 :: rest) [IV vb] [] None _ Free) in H.
  cbn [regions_of opt_eqb app] in H.
  unfold resolve_conflict_groups in H. cbn [resolve_groups] in H.
  change (resolve_conflict_region pts fuel d 0 [] va) with (Some (d, 0, @None nat)) in H. cbn iota in H.
  destruct (resolve_conflict_region pts fuel d 0 (e0 :: rest) vb) as [[[d1 nc1] res]|] eqn:R; [|discriminate].
  cbn [opt_list app] in H.
  destruct (fold_left (fun acc e => make_constraint_edge (fst acc) (snd acc) (as_undirected e)) (opt_list res ++ []) (d1, nc1)) as [d2 nc2] eqn:FM.
  inversion H; subst d' nc edges. clear H.
  destruct (resolve_conflict_region_DW pts fuel d 0 e0 rest va vb d1 nc1 res W St R) as (W1 & Fr1 & _ & Mono1 & New1 & Res1 & _).
  pose proof (SameLinks_fold_make (opt_list res ++ []) d1 nc1) as SL. rewrite FM in SL. cbn [fst] in SL.
  destruct (fold_make_flags _ _ _ _ _ FM) as (Mono2 & Set2 & Back2).
  pose proof (DW_SameLinks _ _ SL W1) as W2.
  destruct SL as (SV & SH & SF & SG).
  assert (Rd : forall z, half_edge d2 z = half_edge d1 z) by (intros z; unfold half_edge; rewrite SH; reflexivity).
  assert (Ro : forall z, e_origin d2 z = e_origin d1 z) by (intros z; unfold e_origin; rewrite Rd; reflexivity).
  assert (Rt : forall z, e_to d2 z = e_to d1 z) by (intros z; unfold e_to; rewrite Ro; reflexivity).
  assert (ResIn : forall e, In e (opt_list res ++ []) -> res = Some e).
  { intros e He. rewrite app_nil_r in He. destruct res as [r|]; [destruct He as [He|[]]; subst; reflexivity|destruct He]. }
  split; [exact W2|]. split; [|split; [|split]].
  - intros x Hx. rewrite Rd. apply Fr1. exact Hx.
  - intros u Hu. apply Mono2. apply Mono1. exact Hu.
  - intros u Hu. destruct (Back2 u Hu) as [X|(e & Ie & Eu)].
    + destruct (New1 u X) as [Y|(x & Lx & Ex & Ox & Tx)]; [left; exact Y|right].
      exists x. rewrite Ro, Rt. repeat split; assumption.
    + right. destruct (Res1 e (ResIn e Ie)) as (Le & Oe & Te). exists e. rewrite Ro, Rt. repeat split; assumption.
  - intros e Ie. destruct (Res1 e (ResIn e Ie)) as (Le & Oe & Te).
    rewrite Ro, Rt. split; [exact Le|]. split; [exact Oe|]. split; [exact Te|].
    rewrite is_flagged_fl. apply Set2; [exact Ie|].
    pose proof (Keep_resolve_conflict_region _ _ _ _ _ _ _ _ _ R) as (_ & LH & _ & LG).
    rewrite LG. apply dw_undirected_lt; assumption.
Qed.
