(* Tri/AddConstraintProofs.v -- theorems about the constraint-insertion model (Tri/AddConstraint.v).

   PART 1  refusal: a refused addition returns exactly the input state and no edge (add_constraint_refused_unchanged); the addition is refused
           exactly when can_add_constraint answers false, both consuming the iterator lazily (refused_iff_cannot_add, added_can_add)
   PART 2  frame: whatever is added, the (position, payload) table of the vertices and all four table lengths are unchanged
           (add_constraint_Keep); the phases that only write flags leave the three link tables untouched (SameLinks)
   PART 3  flags: constraint flags are never lost (add_constraint_flags_monotone); every returned edge is a constraint edge afterwards
           (add_constraint_returned_flagged); the temporary flags of resolve_conflict_region are all undone and every new flag of a region
           sits on a half-edge that ends at the region's target (resolve_conflict_region_flags); an addition that crosses no edge writes
           flags only (add_constraint_no_crossing_SameLinks) *)
From Coq Require Import ZArith List Bool Arith Lia.
From SpadeV Require Import Geom.Pred Obs.State Obs.LineSpec Vmap.Model Dcel.Raw Gen.DcelOps Dcel.ProofsFlip Query.Hull
  Tri.Legalize Tri.Insert Tri.Locate Tri.LineIter Tri.Remove Tri.RemoveProofs Tri.AddConstraint.
Import ListNotations.

(* ================================================================================================ *)
(* PART 1.  refusal                                                                                  *)
(* ================================================================================================ *)

Theorem add_constraint_refused_unchanged : forall pts fuel d va vb,
  try_add_constraint_inner pts fuel d va vb = Some Refused ->
  add_constraint pts fuel d va vb = Some (d, []) /\ add_constraint_bool pts fuel d va vb = None.
Proof. intros pts fuel d va vb H. unfold add_constraint, add_constraint_bool. rewrite H. split; reflexivity. Qed.

Definition flagged_item (d : dcel) (it : litem) : bool := match it with IX e => is_flagged d e | _ => false end.

(* get_conflict_resolutions and contains_any_constraint_edge consume the iterator in lock step: the same calls of get_next, the same stop *)
Lemma collect_regions_any : forall pts fuel d a b k cur g i acc,
  match collect_regions pts fuel k d a b cur g i acc with
  | None => iterate_any pts d a b (flagged_item d) fuel k cur = None
  | Some CRefused => iterate_any pts d a b (flagged_item d) fuel k cur = Some true
  | Some (CRegions _) => iterate_any pts d a b (flagged_item d) fuel k cur = Some false
  end.
Proof.
  intros pts fuel d a b k. induction k as [|k IH]; intros cur g i acc.
  - destruct cur; reflexivity.
  - destruct cur as [it|]; cbn [collect_regions iterate_any]; [|reflexivity].
    destruct (get_next pts d a b fuel it) as [nx|]; [|reflexivity].
    destruct it as [e|v|e]; cbn [flagged_item].
    + destruct (is_flagged d e); cbn [negb]; [reflexivity|apply IH].
    + destruct (opt_eqb i v); apply IH.
    + apply IH.
Qed.

Theorem refused_iff_cannot_add : forall pts fuel d va vb,
  try_add_constraint_inner pts fuel d va vb = Some Refused <-> can_add_constraint pts fuel d va vb = Some false.
Proof.
  intros pts fuel d va vb. unfold try_add_constraint_inner, can_add_constraint, can_add_constraint_m, get_conflict_resolutions.
  destruct ((Raw.num_vertices d <=? va) || (Raw.num_vertices d <=? vb)); [split; discriminate|].
  pose proof (collect_regions_any pts fuel d (vpos pts va) (vpos pts vb) fuel (Some (IV va)) [] None []) as H.
  fold (flagged_item d).
  destruct (collect_regions pts fuel fuel d (vpos pts va) (vpos pts vb) (Some (IV va)) [] None []) as [[|l]|]; rewrite H; cbn [option_map negb].
  - split; reflexivity.
  - split; [|discriminate]. destruct (resolve_conflict_groups pts fuel d l) as [[[? ?] ?]|]; discriminate.
  - split; discriminate.
Qed.

Theorem added_can_add : forall pts fuel d va vb d' nc edges,
  try_add_constraint_inner pts fuel d va vb = Some (Added d' nc edges) -> can_add_constraint pts fuel d va vb = Some true.
Proof.
  intros pts fuel d va vb d' nc edges. unfold try_add_constraint_inner, can_add_constraint, can_add_constraint_m, get_conflict_resolutions.
  destruct ((Raw.num_vertices d <=? va) || (Raw.num_vertices d <=? vb)); [discriminate|].
  pose proof (collect_regions_any pts fuel d (vpos pts va) (vpos pts vb) fuel (Some (IV va)) [] None []) as H.
  fold (flagged_item d).
  destruct (collect_regions pts fuel fuel d (vpos pts va) (vpos pts vb) (Some (IV va)) [] None []) as [[|l]|]; rewrite H; cbn [option_map negb];
    [discriminate|reflexivity|discriminate].
Qed.

(* ================================================================================================ *)
(* PART 2.  frame                                                                                    *)
(* ================================================================================================ *)

(* only the flag table is written, and its length is kept *)
Definition SameLinks (d d' : dcel) : Prop :=
  d_verts d' = d_verts d /\ d_hedges d' = d_hedges d /\ d_faces d' = d_faces d /\ length (d_flags d') = length (d_flags d).

Lemma SameLinks_refl : forall d, SameLinks d d.
Proof. intros d. repeat split. Qed.
Lemma SameLinks_trans : forall a b c, SameLinks a b -> SameLinks b c -> SameLinks a c.
Proof. intros a b c (A1 & A2 & A3 & A4) (B1 & B2 & B3 & B4). repeat split; congruence. Qed.
Lemma SameLinks_Keep : forall d d', SameLinks d d' -> Keep d d'.
Proof. intros d d' (A1 & A2 & A3 & A4). unfold Keep, vtable. rewrite A1, A2, A3. repeat split. exact A4. Qed.

Lemma SameLinks_set_flag : forall d e, SameLinks d (set_flag d e).
Proof. intros d e. unfold SameLinks, set_flag. cbn. repeat split. apply snth_length. Qed.
Lemma SameLinks_clear_flag_u : forall d u, SameLinks d (clear_flag_u d u).
Proof. intros d u. unfold SameLinks, clear_flag_u. cbn. repeat split. apply snth_length. Qed.

Lemma SameLinks_make_constraint_edge : forall d nc u, SameLinks d (fst (make_constraint_edge d nc u)).
Proof.
  intros d nc u. unfold make_constraint_edge. destruct (negb (is_flagged d (normalized u))); cbn [fst];
    [apply SameLinks_set_flag|apply SameLinks_refl].
Qed.
Lemma SameLinks_make_temporary_edge : forall d temp u, SameLinks d (fst (make_temporary_edge d temp u)).
Proof.
  intros d temp u. unfold make_temporary_edge. destruct (negb (is_flagged d (normalized u))); cbn [fst];
    [apply SameLinks_set_flag|apply SameLinks_refl].
Qed.

Lemma SameLinks_fold_clear : forall temp d, SameLinks d (fold_left clear_flag_u temp d).
Proof.
  induction temp as [|u t IH]; intros d; cbn [fold_left]; [apply SameLinks_refl|].
  eapply SameLinks_trans; [apply SameLinks_clear_flag_u|apply IH].
Qed.

Lemma SameLinks_fold_make : forall es d nc,
  SameLinks d (fst (fold_left (fun acc e => make_constraint_edge (fst acc) (snd acc) (as_undirected e)) es (d, nc))).
Proof.
  induction es as [|e t IH]; intros d nc; cbn [fold_left fst snd]; [apply SameLinks_refl|].
  destruct (make_constraint_edge d nc (as_undirected e)) as [d1 nc1] eqn:E.
  eapply SameLinks_trans; [|apply IH].
  pose proof (SameLinks_make_constraint_edge d nc (as_undirected e)) as H. rewrite E in H. exact H.
Qed.

(* one iteration of the border loop, as a function *)
Definition border_step (d : dcel) (nc : nat) (temp : list nat) (current target : nat) (result : option nat)
    : dcel * nat * list nat * option nat :=
  let '(d1, nc1, result1) :=
    if target =? e_to d current then
      let '(d1, nc1) := make_constraint_edge d nc (as_undirected current) in (d1, nc1, Some current)
    else (d, nc, result) in
  let '(d2, temp2) := make_temporary_edge d1 temp (as_undirected (e_next d current)) in
  (d2, nc1, temp2, result1).

Lemma border_loop_unfold : forall k d nc temp current stop target result,
  border_loop (S k) d nc temp current stop target result =
  if current =? stop then Some (d, nc, temp, result)
  else let '(d2, nc1, temp2, result1) := border_step d nc temp current target result in
       border_loop k d2 nc1 temp2 (d_ccw d current) stop target result1.
Proof.
  intros. cbn [border_loop]. destruct (current =? stop); [reflexivity|].
  unfold border_step. destruct (target =? e_to d current).
  - destruct (make_constraint_edge d nc (as_undirected current)) as [d1 nc1].
    destruct (make_temporary_edge d1 temp (as_undirected (e_next d current))) as [d2 temp2]. reflexivity.
  - destruct (make_temporary_edge d temp (as_undirected (e_next d current))) as [d2 temp2]. reflexivity.
Qed.

Lemma border_loop_zero : forall d nc temp current stop target result,
  border_loop 0 d nc temp current stop target result = if current =? stop then Some (d, nc, temp, result) else None.
Proof. reflexivity. Qed.

Lemma SameLinks_border_step : forall d nc temp current target result d2 nc1 temp2 result1,
  border_step d nc temp current target result = (d2, nc1, temp2, result1) -> SameLinks d d2.
Proof.
  intros d nc temp current target result d2 nc1 temp2 result1. unfold border_step.
  destruct (target =? e_to d current).
  - pose proof (SameLinks_make_constraint_edge d nc (as_undirected current)) as H1.
    destruct (make_constraint_edge d nc (as_undirected current)) as [d1 nc1'].
    pose proof (SameLinks_make_temporary_edge d1 temp (as_undirected (e_next d current))) as H2.
    destruct (make_temporary_edge d1 temp (as_undirected (e_next d current))) as [d2' temp2'].
    intros E; inversion E; subst. eapply SameLinks_trans; [exact H1|exact H2].
  - pose proof (SameLinks_make_temporary_edge d temp (as_undirected (e_next d current))) as H2.
    destruct (make_temporary_edge d temp (as_undirected (e_next d current))) as [d2' temp2'].
    intros E; inversion E; subst. exact H2.
Qed.

Lemma SameLinks_border_loop : forall k d nc temp current stop target result d' nc' temp' result',
  border_loop k d nc temp current stop target result = Some (d', nc', temp', result') -> SameLinks d d'.
Proof.
  induction k as [|k IH]; intros d nc temp current stop target result d' nc' temp' result' H.
  - rewrite border_loop_zero in H. destruct (current =? stop); [|discriminate]. inversion H; subst. apply SameLinks_refl.
  - rewrite border_loop_unfold in H. destruct (current =? stop); [inversion H; subst; apply SameLinks_refl|].
    destruct (border_step d nc temp current target result) as [[[d2 nc1] temp2] result1] eqn:E.
    eapply SameLinks_trans; [eapply SameLinks_border_step; exact E|].
    (* d_ccw is read in the state before the step: the links are the same *)
    eapply IH; exact H.
Qed.

Lemma Keep_fold_flips : forall es d, Keep d (fold_left (fun d e => fst (flip_cw d (as_undirected e))) es d).
Proof.
  induction es as [|e t IH]; intros d; cbn [fold_left]; [apply Keep_refl|].
  eapply Keep_trans; [apply Keep_flip_cw|apply IH].
Qed.

Lemma Keep_resolve_conflict_region : forall pts fuel d nc ces target d' nc' res,
  resolve_conflict_region pts fuel d nc ces target = Some (d', nc', res) -> Keep d d'.
Proof.
  intros pts fuel d nc ces target d' nc' res H. unfold resolve_conflict_region in H.
  destruct ces as [|first rest]; [inversion H; subst; apply Keep_refl|].
  set (d1 := fold_left (fun d e => fst (flip_cw d (as_undirected e))) (first :: rest) d) in H.
  pose proof (SameLinks_make_temporary_edge d1 [] (as_undirected (e_prev d (e_rev first)))) as T1.
  destruct (make_temporary_edge d1 [] (as_undirected (e_prev d (e_rev first)))) as [d2 temp2].
  pose proof (SameLinks_make_temporary_edge d2 temp2 (as_undirected (e_next d (e_rev first)))) as T2.
  destruct (make_temporary_edge d2 temp2 (as_undirected (e_next d (e_rev first)))) as [d3 temp3].
  cbn [fst] in T1, T2.
  destruct (border_loop fuel d3 nc temp3 (e_prev d (e_rev first)) (e_rev (e_next d (e_rev first))) target None)
    as [[[[d4 nc4] temp4] res4]|] eqn:B; [|discriminate].
  destruct (legalize_after_removal pts fuel d4 (List.rev (map as_undirected (first :: rest))) 0) as [d5|] eqn:L; [|discriminate].
  inversion H; subst d' nc' res.
  eapply Keep_trans; [apply (Keep_fold_flips (first :: rest) d)|]. fold d1.
  eapply Keep_trans; [apply SameLinks_Keep; exact T1|].
  eapply Keep_trans; [apply SameLinks_Keep; exact T2|].
  eapply Keep_trans; [apply SameLinks_Keep; eapply SameLinks_border_loop; exact B|].
  eapply Keep_trans; [eapply Keep_legalize_after_removal; exact L|].
  apply SameLinks_Keep. apply SameLinks_fold_clear.
Qed.

Lemma Keep_resolve_groups : forall pts fuel groups d nc ces lv d' nc' ces',
  resolve_groups pts fuel d nc groups ces lv = Some (d', nc', ces') -> Keep d d'.
Proof.
  intros pts fuel groups. induction groups as [|[ce ge] rest IH]; intros d nc ces lv d' nc' ces' H; cbn [resolve_groups] in H.
  - inversion H; subst. apply Keep_refl.
  - destruct ge as [v|e].
    + destruct (resolve_conflict_region pts fuel d nc ce v) as [[[d1 nc1] res]|] eqn:R; [|discriminate].
      eapply Keep_trans; [eapply Keep_resolve_conflict_region; exact R|eapply IH; exact H].
    + eapply IH; exact H.
Qed.

Lemma Keep_resolve_conflict_groups : forall pts fuel d groups d' nc es,
  resolve_conflict_groups pts fuel d groups = Some (d', nc, es) -> Keep d d'.
Proof.
  intros pts fuel d groups d' nc es H. unfold resolve_conflict_groups in H.
  destruct (resolve_groups pts fuel d 0 groups [] None) as [[[d1 nc1] ces]|] eqn:R; [|discriminate].
  pose proof (SameLinks_fold_make ces d1 nc1) as F.
  destruct (fold_left (fun acc e => make_constraint_edge (fst acc) (snd acc) (as_undirected e)) ces (d1, nc1)) as [d2 nc2].
  cbn [fst] in F. inversion H; subst.
  eapply Keep_trans; [eapply Keep_resolve_groups; exact R|apply SameLinks_Keep; exact F].
Qed.

(* the vertex table (positions and payloads) and all table lengths are unchanged by an accepted addition *)
Theorem add_constraint_Keep : forall pts fuel d va vb d' nc edges,
  try_add_constraint_inner pts fuel d va vb = Some (Added d' nc edges) -> Keep d d'.
Proof.
  intros pts fuel d va vb d' nc edges H. unfold try_add_constraint_inner in H.
  destruct ((Raw.num_vertices d <=? va) || (Raw.num_vertices d <=? vb)); [discriminate|].
  destruct (get_conflict_resolutions pts fuel d va vb) as [[|groups]|]; try discriminate.
  destruct (resolve_conflict_groups pts fuel d groups) as [[[d1 nc1] es]|] eqn:R; [|discriminate].
  inversion H; subst. eapply Keep_resolve_conflict_groups; exact R.
Qed.

Corollary add_constraint_vertex_table : forall pts fuel d va vb d' edges,
  add_constraint pts fuel d va vb = Some (d', edges) -> vtable d' = vtable d /\ length (d_verts d') = length (d_verts d).
Proof.
  intros pts fuel d va vb d' edges H. unfold add_constraint in H.
  destruct (try_add_constraint_inner pts fuel d va vb) as [[|d1 nc es]|] eqn:T; [| |discriminate].
  - inversion H; subst. split; reflexivity.
  - inversion H; subst. pose proof (add_constraint_Keep _ _ _ _ _ _ _ _ T) as K.
    split; [exact (proj1 K)|apply Keep_verts_len; exact K].
Qed.

(* ================================================================================================ *)
(* PART 3.  flags                                                                                    *)
(* ================================================================================================ *)

(* the constraint flag of the undirected edge u *)
Definition fl (d : dcel) (u : nat) : bool := nth u (d_flags d) false.

Lemma is_flagged_fl : forall d e, is_flagged d e = fl d (as_undirected e).
Proof. reflexivity. Qed.
Lemma div2_normalized : forall u, Nat.div2 (normalized u) = u.
Proof. intros u. unfold normalized. apply Nat.div2_double. Qed.
Lemma is_flagged_normalized : forall d u, is_flagged d (normalized u) = fl d u.
Proof. intros d u. unfold is_flagged. rewrite div2_normalized. reflexivity. Qed.

Lemma fl_true_lt : forall d u, fl d u = true -> u < length (d_flags d).
Proof.
  intros d u H. unfold fl in H. destruct (Nat.lt_ge_cases u (length (d_flags d))) as [L|G]; [exact L|].
  rewrite nth_overflow in H by exact G. discriminate.
Qed.

Lemma fl_set_flag : forall d e u,
  fl (set_flag d e) u = true <-> fl d u = true \/ (u = as_undirected e /\ u < length (d_flags d)).
Proof.
  intros d e u. unfold fl, set_flag. cbn [d_flags].
  destruct (Nat.eq_dec (as_undirected e) u) as [E|N].
  - subst u. destruct (Nat.lt_ge_cases (as_undirected e) (length (d_flags d))) as [L|G].
    + rewrite nth_snth_same by exact L. split; [intros _; right; split; [reflexivity|exact L]|reflexivity].
    + rewrite snth_oob by exact G. split; [intros H; left; exact H|intros [H|[_ H]]; [exact H|lia]].
  - rewrite nth_snth_other by exact N. split; [intros H; left; exact H|intros [H|[H _]]; [exact H|congruence]].
Qed.

Lemma fl_clear_flag_u : forall d w u, fl (clear_flag_u d w) u = if u =? w then false else fl d u.
Proof.
  intros d w u. unfold fl, clear_flag_u. cbn [d_flags].
  destruct (Nat.eqb_spec u w) as [E|N].
  - subst w. destruct (Nat.lt_ge_cases u (length (d_flags d))) as [L|G].
    + apply nth_snth_same. exact L.
    + rewrite snth_oob by exact G. apply nth_overflow. exact G.
  - apply nth_snth_other. congruence.
Qed.

Lemma fl_fold_clear : forall temp d u,
  fl (fold_left clear_flag_u temp d) u = true <-> fl d u = true /\ ~ In u temp.
Proof.
  induction temp as [|w t IH]; intros d u; cbn [fold_left In].
  - tauto.
  - rewrite IH. rewrite fl_clear_flag_u. destruct (Nat.eqb_spec u w) as [E|N].
    + subst w. split; [intros [H _]; discriminate|intros [_ H]; exfalso; apply H; left; reflexivity].
    + split; [intros [H1 H2]; split; [exact H1|intros [E|I]; [congruence|exact (H2 I)]]|intros [H1 H2]; split; [exact H1|intros I; apply H2; right; exact I]].
Qed.

Lemma SameLinks_reads : forall L d, SameLinks L d ->
  (forall x, e_to d x = e_to L x) /\ (forall x, e_next d x = e_next L x) /\ (forall x, d_ccw d x = d_ccw L x).
Proof.
  intros L d (_ & H & _ & _).
  repeat split; intros x; unfold d_ccw, e_to, e_next, e_prev, e_origin, half_edge; rewrite H; reflexivity.
Qed.

Lemma legalize_after_removal_flags : forall pts k d stack s d',
  legalize_after_removal pts k d stack s = Some d' -> d_flags d' = d_flags d.
Proof.
  intros pts k. induction k as [|k IH]; intros d stack s d' H; cbn [legalize_after_removal] in H; [discriminate|].
  destruct stack as [|ne rest].
  - inversion H; subst. reflexivity.
  - cbv zeta in H.
    destruct (is_flagged d (normalized ne) || (ne <? s)).
    + eapply IH; exact H.
    + match type of H with (match ?X with _ => _ end) = _ => destruct X as [[|]|] end.
      * rewrite (IH _ _ _ _ H). apply flip_cw_flags.
      * eapply IH; exact H.
      * discriminate.
Qed.

Lemma fold_flips_flags : forall es d, d_flags (fold_left (fun d e => fst (flip_cw d (as_undirected e))) es d) = d_flags d.
Proof.
  induction es as [|e t IH]; intros d; cbn [fold_left]; [reflexivity|]. rewrite IH. apply flip_cw_flags.
Qed.

(* ---- the flag invariant of resolve_conflict_region between the rotation and the undo ----
   F0: the flag table at the start of the region; L: the link tables after the rotation; Q: any set of half-edges that contains the first
   border edge and is closed under ccw in L (e.g. "goes out of the region's first vertex") *)
Section RegionFlags.
Variable F0 : list bool.
Variable L : dcel.
Variable Q : nat -> Prop.
Variable target : nat.

Definition hit (u : nat) : Prop := exists e, Q e /\ e_to L e = target /\ as_undirected e = u.

Definition BInv (d : dcel) (temp : list nat) : Prop :=
  (forall u, In u temp -> nth u F0 false = false) /\
  (forall u, nth u F0 false = true -> fl d u = true) /\
  (forall u, fl d u = true -> nth u F0 false = true \/ In u temp \/ hit u).

Lemma BInv_make_temporary_edge : forall d temp u d' temp',
  BInv d temp -> make_temporary_edge d temp u = (d', temp') -> BInv d' temp'.
Proof.
  intros d temp u d' temp' (I1 & I2 & I3) E. unfold make_temporary_edge in E. rewrite is_flagged_normalized in E.
  destruct (fl d u) eqn:Fu; cbn [negb] in E; inversion E; subst d' temp'; [repeat split; assumption|].
  repeat split.
  - intros w Hw. apply in_app_or in Hw. destruct Hw as [Hw|[Hw|[]]]; [apply I1; exact Hw|subst w].
    destruct (nth u F0 false) eqn:G; [|reflexivity]. rewrite (I2 u G) in Fu. discriminate.
  - intros w Hw. apply fl_set_flag. left. apply I2. exact Hw.
  - intros w Hw. apply fl_set_flag in Hw. rewrite div2_normalized in Hw. destruct Hw as [Hw|[Hw _]].
    + destruct (I3 w Hw) as [A|[A|A]]; [left; exact A|right; left; apply in_or_app; left; exact A|right; right; exact A].
    + right; left. apply in_or_app. right. left. symmetry. exact Hw.
Qed.

Lemma BInv_make_constraint_edge : forall d temp nc e d' nc',
  BInv d temp -> Q e -> e_to L e = target -> make_constraint_edge d nc (as_undirected e) = (d', nc') -> BInv d' temp.
Proof.
  intros d temp nc e d' nc' (I1 & I2 & I3) Qe Te E. unfold make_constraint_edge in E. rewrite is_flagged_normalized in E.
  destruct (fl d (as_undirected e)) eqn:Fu; cbn [negb] in E; inversion E; subst d' nc'; [repeat split; assumption|].
  repeat split.
  - exact I1.
  - intros w Hw. apply fl_set_flag. left. apply I2. exact Hw.
  - intros w Hw. apply fl_set_flag in Hw. rewrite div2_normalized in Hw. destruct Hw as [Hw|[Hw _]].
    + apply I3. exact Hw.
    + right; right. exists e. repeat split; [exact Qe|exact Te|symmetry; exact Hw].
Qed.

Definition ResOK (r : option nat) : Prop := forall e, r = Some e -> Q e /\ e_to L e = target.

Hypothesis Qccw : forall x, Q x -> Q (d_ccw L x).

Lemma border_loop_flags : forall k d nc temp current stop result d' nc' temp' result',
  SameLinks L d -> Q current -> BInv d temp -> ResOK result ->
  border_loop k d nc temp current stop target result = Some (d', nc', temp', result') ->
  BInv d' temp' /\ ResOK result'.
Proof.
  induction k as [|k IH]; intros d nc temp current stop result d' nc' temp' result' SL Qc BI RO H.
  - rewrite border_loop_zero in H. destruct (current =? stop); [|discriminate]. inversion H; subst. split; assumption.
  - rewrite border_loop_unfold in H. destruct (current =? stop); [inversion H; subst; split; assumption|].
    destruct (border_step d nc temp current target result) as [[[d2 nc1] temp2] result1] eqn:E.
    destruct (SameLinks_reads L d SL) as (Rto & Rnext & Rccw).
    pose proof (SameLinks_border_step _ _ _ _ _ _ _ _ _ _ E) as SL2.
    rewrite Rccw in H.
    assert (B2 : BInv d2 temp2 /\ ResOK result1).
    { unfold border_step in E. rewrite Rto in E.
      destruct (target =? e_to L current) eqn:T.
      - apply Nat.eqb_eq in T.
        destruct (make_constraint_edge d nc (as_undirected current)) as [d1 nc1'] eqn:M.
        destruct (make_temporary_edge d1 temp (as_undirected (e_next d current))) as [d2' temp2'] eqn:MT.
        inversion E; subst d2' nc1' temp2' result1.
        split.
        + eapply BInv_make_temporary_edge; [|exact MT]. eapply BInv_make_constraint_edge; [exact BI|exact Qc|symmetry; exact T|exact M].
        + intros e He. inversion He; subst e. split; [exact Qc|symmetry; exact T].
      - destruct (make_temporary_edge d temp (as_undirected (e_next d current))) as [d2' temp2'] eqn:MT.
        inversion E; subst d2' nc1 temp2' result1.
        split; [eapply BInv_make_temporary_edge; [exact BI|exact MT]|exact RO]. }
    destruct B2 as (B2 & R2).
    eapply IH; [eapply SameLinks_trans; [exact SL|exact SL2]|apply Qccw; exact Qc|exact B2|exact R2|exact H].
Qed.
End RegionFlags.

(* resolve_conflict_region: no constraint flag is lost; every flag that is new afterwards sits on an edge of Q (see above) that ends at the
   target vertex; the returned edge is such an edge *)
Theorem resolve_conflict_region_flags : forall pts fuel d nc ces target d' nc' res (Q : nat -> Prop),
  resolve_conflict_region pts fuel d nc ces target = Some (d', nc', res) ->
  let S := fold_left (fun d e => fst (flip_cw d (as_undirected e))) ces d in
  (forall first, hd_error ces = Some first -> Q (e_prev d (e_rev first))) ->
  (forall x, Q x -> Q (d_ccw S x)) ->
  (forall u, fl d u = true -> fl d' u = true) /\
  (forall u, fl d' u = true -> fl d u = true \/ hit S Q target u) /\
  (forall e, res = Some e -> Q e /\ e_to S e = target).
Proof.
  intros pts fuel d nc ces target d' nc' res Q H S Qf Qccw. unfold resolve_conflict_region in H.
  destruct ces as [|first rest]; [inversion H; subst; repeat split; [tauto|tauto|discriminate|discriminate]|].
  specialize (Qf first eq_refl).
  fold S in H.
  assert (FS : d_flags S = d_flags d) by apply fold_flips_flags.
  assert (B0 : BInv (d_flags d) S Q target S []).
  { repeat split; [intros u []|intros u Hu; unfold fl; rewrite FS; exact Hu|intros u Hu; left; unfold fl in Hu; rewrite FS in Hu; exact Hu]. }
  pose proof (SameLinks_make_temporary_edge S [] (as_undirected (e_prev d (e_rev first)))) as T1.
  destruct (make_temporary_edge S [] (as_undirected (e_prev d (e_rev first)))) as [d2 temp2] eqn:M1.
  pose proof (SameLinks_make_temporary_edge d2 temp2 (as_undirected (e_next d (e_rev first)))) as T2.
  destruct (make_temporary_edge d2 temp2 (as_undirected (e_next d (e_rev first)))) as [d3 temp3] eqn:M2.
  cbn [fst] in T1, T2.
  pose proof (BInv_make_temporary_edge _ _ _ _ _ _ _ _ _ B0 M1) as B1.
  pose proof (BInv_make_temporary_edge _ _ _ _ _ _ _ _ _ B1 M2) as B2.
  destruct (border_loop fuel d3 nc temp3 (e_prev d (e_rev first)) (e_rev (e_next d (e_rev first))) target None)
    as [[[[d4 nc4] temp4] res4]|] eqn:B; [|discriminate].
  destruct (legalize_after_removal pts fuel d4 (List.rev (map as_undirected (first :: rest))) 0) as [d5|] eqn:Lg; [|discriminate].
  inversion H; subst d' nc' res.
  assert (R0 : ResOK S Q target None) by (intros e He; discriminate).
  destruct (border_loop_flags (d_flags d) S Q target Qccw _ _ _ _ _ _ _ _ _ _ _
              (SameLinks_trans _ _ _ T1 T2) Qf B2 R0 B) as ((I1 & I2 & I3) & R4).
  pose proof (legalize_after_removal_flags _ _ _ _ _ _ Lg) as F5.
  assert (E5 : forall u, fl d5 u = fl d4 u) by (intros u; unfold fl; rewrite F5; reflexivity).
  repeat split.
  - intros u Hu. apply fl_fold_clear. rewrite E5. split; [apply I2; exact Hu|].
    intros In4. unfold fl in Hu. rewrite (I1 u In4) in Hu. discriminate.
  - intros u Hu. apply fl_fold_clear in Hu. destruct Hu as (Hu & Nin). rewrite E5 in Hu.
    destruct (I3 u Hu) as [A|[A|A]]; [left; exact A|contradiction|right; exact A].
  - apply (R4 e H0).
  - apply (R4 e H0).
Qed.

Lemma resolve_conflict_region_monotone : forall pts fuel d nc ces target d' nc' res,
  resolve_conflict_region pts fuel d nc ces target = Some (d', nc', res) -> forall u, fl d u = true -> fl d' u = true.
Proof.
  intros pts fuel d nc ces target d' nc' res H.
  apply (resolve_conflict_region_flags pts fuel d nc ces target d' nc' res (fun _ => True) H); intros; exact I.
Qed.

Lemma resolve_groups_monotone : forall pts fuel groups d nc ces lv d' nc' ces',
  resolve_groups pts fuel d nc groups ces lv = Some (d', nc', ces') -> forall u, fl d u = true -> fl d' u = true.
Proof.
  intros pts fuel groups. induction groups as [|[ce ge] rest IH]; intros d nc ces lv d' nc' ces' H u Hu; cbn [resolve_groups] in H.
  - inversion H; subst. exact Hu.
  - destruct ge as [v|e].
    + destruct (resolve_conflict_region pts fuel d nc ce v) as [[[d1 nc1] res]|] eqn:R; [|discriminate].
      eapply IH; [exact H|]. eapply resolve_conflict_region_monotone; [exact R|exact Hu].
    + eapply IH; [exact H|exact Hu].
Qed.

Lemma make_constraint_edge_fl : forall d nc u d1 nc1, make_constraint_edge d nc u = (d1, nc1) ->
  forall w, fl d1 w = true <-> fl d w = true \/ (w = u /\ u < length (d_flags d)).
Proof.
  intros d nc u d1 nc1 M w. unfold make_constraint_edge in M. rewrite is_flagged_normalized in M.
  destruct (fl d u) eqn:F; cbn [negb] in M; injection M as E1 E2; subst d1.
  - split; [intros H; left; exact H|intros [H|[H _]]; [exact H|subst w; exact F]].
  - rewrite fl_set_flag. rewrite div2_normalized. split; (intros [H|[H1 H2]]; [left; exact H|right; split; [exact H1|]]); [subst w; exact H2|subst w; exact H2].
Qed.

(* the final loop `for edge in &constraint_edges { self.make_constraint_edge(edge.as_undirected()); }` *)
Lemma fold_make_flags : forall es d nc d' nc',
  fold_left (fun acc e => make_constraint_edge (fst acc) (snd acc) (as_undirected e)) es (d, nc) = (d', nc') ->
  (forall u, fl d u = true -> fl d' u = true) /\
  (forall e, In e es -> as_undirected e < length (d_flags d) -> fl d' (as_undirected e) = true) /\
  (forall u, fl d' u = true -> fl d u = true \/ exists e, In e es /\ as_undirected e = u).
Proof.
  induction es as [|e t IH]; intros d nc d' nc' H; cbn [fold_left fst snd] in H.
  - inversion H; subst. repeat split; [tauto|intros e []|intros u Hu; left; exact Hu].
  - destruct (make_constraint_edge d nc (as_undirected e)) as [d1 nc1] eqn:M.
    destruct (IH d1 nc1 d' nc' H) as (A1 & A2 & A3).
    pose proof (SameLinks_make_constraint_edge d nc (as_undirected e)) as SL. rewrite M in SL. cbn [fst] in SL.
    destruct SL as (_ & _ & _ & LF).
    pose proof (make_constraint_edge_fl _ _ _ _ _ M) as MF.
    assert (Mono : forall u, fl d u = true -> fl d1 u = true) by (intros u Hu; apply MF; left; exact Hu).
    assert (Set_ : as_undirected e < length (d_flags d) -> fl d1 (as_undirected e) = true)
      by (intros Lt; apply MF; right; split; [reflexivity|exact Lt]).
    assert (Back : forall u, fl d1 u = true -> fl d u = true \/ as_undirected e = u).
    { intros u Hu. apply MF in Hu. destruct Hu as [Hu|[Hu _]]; [left; exact Hu|right; symmetry; exact Hu]. }
    repeat split.
    + intros u Hu. apply A1. apply Mono. exact Hu.
    + intros x [E|I] Lt.
      * subst x. apply A1. apply Set_. exact Lt.
      * apply A2; [exact I|rewrite LF; exact Lt].
    + intros u Hu. destruct (A3 u Hu) as [B|(x & I & E)].
      * destruct (Back u B) as [C|C]; [left; exact C|right; exists e; split; [left; reflexivity|exact C]].
      * right. exists x. split; [right; exact I|exact E].
Qed.

(* no constraint flag is ever lost by an accepted addition *)
Theorem add_constraint_flags_monotone : forall pts fuel d va vb d' nc edges,
  try_add_constraint_inner pts fuel d va vb = Some (Added d' nc edges) -> forall u, fl d u = true -> fl d' u = true.
Proof.
  intros pts fuel d va vb d' nc edges H u Hu. unfold try_add_constraint_inner in H.
  destruct ((Raw.num_vertices d <=? va) || (Raw.num_vertices d <=? vb)); [discriminate|].
  destruct (get_conflict_resolutions pts fuel d va vb) as [[|groups]|]; try discriminate.
  unfold resolve_conflict_groups in H.
  destruct (resolve_groups pts fuel d 0 groups [] None) as [[[d1 nc1] ces]|] eqn:R; [|discriminate].
  destruct (fold_left (fun acc e => make_constraint_edge (fst acc) (snd acc) (as_undirected e)) ces (d1, nc1)) as [d2 nc2] eqn:F.
  inversion H; subst d' nc edges.
  apply (proj1 (fold_make_flags _ _ _ _ _ F)). eapply resolve_groups_monotone; [exact R|exact Hu].
Qed.

(* every returned edge (whose index is an edge index) is a constraint edge in the new state *)
Theorem add_constraint_returned_flagged : forall pts fuel d va vb d' nc edges,
  try_add_constraint_inner pts fuel d va vb = Some (Added d' nc edges) ->
  forall e, In e edges -> as_undirected e < length (d_flags d) -> is_flagged d' e = true.
Proof.
  intros pts fuel d va vb d' nc edges H e He Lt. unfold try_add_constraint_inner in H.
  destruct ((Raw.num_vertices d <=? va) || (Raw.num_vertices d <=? vb)); [discriminate|].
  destruct (get_conflict_resolutions pts fuel d va vb) as [[|groups]|]; try discriminate.
  unfold resolve_conflict_groups in H.
  destruct (resolve_groups pts fuel d 0 groups [] None) as [[[d1 nc1] ces]|] eqn:R; [|discriminate].
  destruct (fold_left (fun acc e => make_constraint_edge (fst acc) (snd acc) (as_undirected e)) ces (d1, nc1)) as [d2 nc2] eqn:F.
  inversion H; subst d' nc edges.
  rewrite is_flagged_fl.
  apply (proj1 (proj2 (fold_make_flags _ _ _ _ _ F))); [exact He|].
  pose proof (Keep_resolve_groups _ _ _ _ _ _ _ _ _ _ R) as (_ & _ & _ & LF). rewrite LF. exact Lt.
Qed.

(* ---- additions that cross no edge (every piece runs along an existing edge): only flags are written ---- *)
Lemma resolve_groups_no_crossing : forall pts fuel groups d nc ces lv d' nc' ces',
  (forall r, In r groups -> fst r = []) ->
  resolve_groups pts fuel d nc groups ces lv = Some (d', nc', ces') -> d' = d.
Proof.
  intros pts fuel groups. induction groups as [|[ce ge] rest IH]; intros d nc ces lv d' nc' ces' Hg H; cbn [resolve_groups] in H.
  - inversion H; subst. reflexivity.
  - pose proof (Hg (ce, ge) (or_introl eq_refl)) as E. cbn [fst] in E. subst ce.
    destruct ge as [v|e].
    + cbn [resolve_conflict_region] in H. eapply IH; [intros r Hr; apply Hg; right; exact Hr|exact H].
    + eapply IH; [intros r Hr; apply Hg; right; exact Hr|exact H].
Qed.

Theorem add_constraint_no_crossing_SameLinks : forall pts fuel d va vb groups d' nc edges,
  get_conflict_resolutions pts fuel d va vb = Some (CRegions groups) -> (forall r, In r groups -> fst r = []) ->
  try_add_constraint_inner pts fuel d va vb = Some (Added d' nc edges) -> SameLinks d d'.
Proof.
  intros pts fuel d va vb groups d' nc edges G Hg H. unfold try_add_constraint_inner in H.
  destruct ((Raw.num_vertices d <=? va) || (Raw.num_vertices d <=? vb)); [discriminate|].
  rewrite G in H. unfold resolve_conflict_groups in H.
  destruct (resolve_groups pts fuel d 0 groups [] None) as [[[d1 nc1] ces]|] eqn:R; [|discriminate].
  pose proof (resolve_groups_no_crossing _ _ _ _ _ _ _ _ _ _ Hg R) as E. subst d1.
  pose proof (SameLinks_fold_make ces d nc1) as F.
  destruct (fold_left (fun acc e => make_constraint_edge (fst acc) (snd acc) (as_undirected e)) ces (d, nc1)) as [d2 nc2].
  cbn [fst] in F. inversion H; subst. exact F.
Qed.
