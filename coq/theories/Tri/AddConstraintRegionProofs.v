(* Tri/AddConstraintRegionProofs.v -- the re-triangulation of one conflict region (resolve_conflict_region of Tri/AddConstraint.v) on a
   link-well-formed DCEL (DW, Dcel/ProofsFlip.v).

   The conflict edges e0, e1, ... of a region form a STRIP (`Strip`): the face right of e0 has the region's first vertex v0 as apex; the twin of
   e(i+1) is a side of the face left of e(i); these faces are inner, pairwise distinct, and none of them has v0 as the apex opposite to its
   conflict edge, and the twin of the last border edge is none of them.  (Tri/AddConstraintIterProofs.v derives the strip from the line
   iterator's invariant.)

   PART 1  FlipPost is symmetric in the two half-edges; flip_he = flip_cw on the undirected edge of a half-edge
   PART 2  the rotation: flipping the conflict edges in order keeps DW and turns the strip into a FAN around v0 (`RBase`): a ccw path of spokes from
           the first border edge to the twin of the last border edge whose faces are exactly the faces of the strip; everything outside these
           faces is untouched (rotation_fan)
   PART 3  the border loop walks exactly along that fan: afterwards every half-edge of a fan face whose twin is not in a fan face carries a flag
           (temporary or real) (border_loop_path, fan_closed)
   PART 4  legalize_edges_after_removal stays inside the fan faces and keeps DW (legalize_region)
   PART 5  resolve_conflict_region: DW is preserved, everything outside the strip faces is untouched, flags are only added on edges v0 -> target
           (resolve_conflict_region_DW) *)
From Coq Require Import ZArith List Bool Arith Lia Permutation.
From SpadeV Require Import Geom.Pred Obs.State Vmap.Model Dcel.Raw Dcel.WfCore Gen.DcelOps Dcel.ProofsFlip
  Tri.Legalize Tri.Insert Tri.Remove Tri.RemoveProofs Tri.AddConstraint Tri.AddConstraintProofs.
Import ListNotations.

(* ================================================================================================ *)
(* PART 1.  flipping the undirected edge of a half-edge                                              *)
(* ================================================================================================ *)

Definition flip_he (d : dcel) (e : nat) : dcel := fst (flip_cw d (as_undirected e)).

Lemma flip_untouched_sym : forall d e x, flip_untouched d e x -> flip_untouched d (rev e) x.
Proof. unfold flip_untouched. intros d e x (A & B & C & D & E & F). rewrite rev_rev. repeat split; assumption. Qed.

Lemma FlipPost_sym : forall d d' e, FlipPost d d' e -> FlipPost d d' (rev e).
Proof.
  intros d d' e P. destruct P. constructor; rewrite ?rev_rev; try assumption.
  - intros x U. apply fp_other. apply flip_untouched_sym in U. rewrite rev_rev in U. exact U.
  - intros v A B. apply fp_vout_other; assumption.
  - intros f A B. apply fp_adj_other; assumption.
Qed.

Lemma flip_he_post : forall d e, DW d -> e < length (d_hedges d) -> inner d e -> inner d (rev e) -> FlipPost d (flip_he d e) e.
Proof.
  intros d e W He Ie It. unfold flip_he, as_undirected.
  assert (Hk : forall k, (e = 2 * k \/ e = 2 * k + 1) -> k < Raw.num_undirected_edges d).
  { intros k Hk. pose proof (dw_even d W) as Ev. unfold Raw.num_undirected_edges. lia. }
  destruct (rev_cases e) as (k & [(E & R)|(E & R)]).
  - rewrite E. rewrite Nat.div2_double. apply flip_cw_post; [exact W|apply Hk; left; exact E|rewrite <- E; exact Ie|rewrite <- E; exact It].
  - assert (D : Nat.div2 e = k) by (rewrite E; replace (2 * k + 1) with (S (2 * k)) by lia; apply Nat.div2_succ_double).
    rewrite D. rewrite <- (rev_rev e). rewrite R. apply FlipPost_sym.
    apply flip_cw_post; [exact W|apply Hk; right; exact E|rewrite <- R; exact It|rewrite <- R, rev_rev; exact Ie].
Qed.

Lemma flip_he_flags : forall d e, d_flags (flip_he d e) = d_flags d.
Proof. intros. apply flip_cw_flags. Qed.

Lemma fold_flips_flip_he : forall es d,
  fold_left (fun d e => fst (flip_cw d (as_undirected e))) es d = fold_left flip_he es d.
Proof. reflexivity. Qed.

Lemma fold_left_cons_eq : forall A B (f : A -> B -> A) x l a, fold_left f (x :: l) a = fold_left f l (f a x).
Proof. reflexivity. Qed.

Global Opaque flip_he.

(* ================================================================================================ *)
(* PART 2.  the rotation                                                                             *)
(* ================================================================================================ *)

(* a ccw walk around a vertex: sp lists the half-edges visited before y is reached *)
Fixpoint is_path (S : dcel) (x : nat) (sp : list nat) (y : nat) : Prop :=
  match sp with
  | [] => x = y
  | a :: t => a = x /\ is_path S (d_ccw S x) t y
  end.

Lemma is_path_app : forall S l1 l2 x y, is_path S x (l1 ++ l2) y <-> exists m, is_path S x l1 m /\ is_path S m l2 y.
Proof.
  intros S l1. induction l1 as [|a t IH]; intros l2 x y; cbn [app is_path].
  - split; [intros H; exists x; split; [reflexivity|exact H]|intros (m & E & H); subst m; exact H].
  - rewrite IH. split.
    + intros (E & m & H1 & H2). exists m. repeat split; assumption.
    + intros (m & (E & H1) & H2). split; [exact E|]. exists m. split; assumption.
Qed.

Lemma is_path_ext : forall S S' l x y, (forall b, In b l -> d_ccw S' b = d_ccw S b) -> is_path S x l y -> is_path S' x l y.
Proof.
  intros S S' l. induction l as [|a t IH]; intros x y Hc H; cbn [is_path] in *; [exact H|].
  destruct H as (E & H). split; [exact E|]. subst a. rewrite Hc by (left; reflexivity).
  apply IH; [intros b Hb; apply Hc; right; exact Hb|exact H].
Qed.

Lemma NoDup_map_split_neq : forall A B (f : A -> B) l1 a l2 b,
  NoDup (map f (l1 ++ a :: l2)) -> In b l1 \/ In b l2 -> f b <> f a.
Proof.
  intros A B f l1 a l2 b ND Hb E. rewrite map_app in ND. cbn [map] in ND.
  apply NoDup_remove_2 in ND. apply ND. rewrite <- E. apply in_or_app.
  destruct Hb as [Hb|Hb]; [left|right]; apply in_map; exact Hb.
Qed.

Lemma NoDup_app_insert : forall A (l1 l2 : list A) x y,
  NoDup (l1 ++ x :: l2) -> ~ In y (l1 ++ x :: l2) -> NoDup (l1 ++ y :: x :: l2).
Proof.
  intros A l1 l2 x y. induction l1 as [|a t IH]; intros ND NI; cbn [app] in *.
  - constructor; assumption.
  - inversion ND as [|? ? Na ND']; subst. constructor.
    + intros I. apply in_app_or in I. destruct I as [I|[I|I]].
      * apply Na. apply in_or_app. left. exact I.
      * apply NI. left. symmetry. exact I.
      * apply Na. apply in_or_app. right. exact I.
    + apply IH; [exact ND'|intros I; apply NI; right; exact I].
Qed.

Section Rot.
Variable d0 : dcel.            (* the state at the start of the region *)
Variable v0 : nat.             (* the region's first vertex *)
Variable e0 : nat.             (* the first conflict edge *)
Variable ces : list nat.       (* all conflict edges of the region *)
Notation n := (length (d_hedges d0)).
Notation fb := (e_prev d0 (rev e0)).            (* first_border_edge *)
Notation lb := (e_next d0 (rev e0)).            (* last_border_edge *)
Notation lbr := (rev (e_next d0 (rev e0))).

Hypothesis W0 : DW d0.

(* the conflict edges behind e, in order *)
Fixpoint StripFrom (e : nat) (rest : list nat) : Prop :=
  e < n /\ inner d0 e /\ e_origin d0 (e_prev d0 e) <> v0 /\ lbr <> e /\ lbr <> rev e /\ fb <> e /\ fb <> rev e /\
  match rest with
  | [] => True
  | e' :: r => (rev e' = e_next d0 e \/ rev e' = e_prev d0 e) /\ StripFrom e' r
  end.

Definition Strip (rest : list nat) : Prop :=
  e0 < n /\ inner d0 (rev e0) /\ e_origin d0 fb = v0 /\ StripFrom e0 rest /\
  NoDup (e_face d0 (rev e0) :: map (e_face d0) (e0 :: rest)).

(* the fan invariant: S the current state, F the faces rotated so far, sp the spokes *)
Record RBase (S : dcel) (F : list nat) (sp : list nat) : Prop := mkRBase {
  rb_DW : DW S;
  rb_lenH : length (d_hedges S) = n;
  rb_lenV : length (d_verts S) = length (d_verts d0);
  rb_lenF : length (d_faces S) = length (d_faces d0);
  rb_flags : d_flags S = d_flags d0;
  rb_vdata : forall v, let a := nth v (d_verts S) dflt_v in let b := nth v (d_verts d0) dflt_v in
                       v_x a = v_x b /\ v_y a = v_y b /\ v_data a = v_data b;
  rb_frame : forall x, ~ In (e_face d0 x) F -> half_edge S x = half_edge d0 x;
  rb_stable : forall x, x < n -> In (e_face d0 x) F -> In (e_face S x) F;
  rb_org : forall x, (forall e, In e ces -> x <> e /\ x <> rev e) -> e_origin S x = e_origin d0 x;
  rb_F0 : ~ In 0 F;
  rb_path : is_path S fb sp lbr;
  rb_sp : forall a, In a sp -> a < n /\ In (e_face S a) F /\ e_origin S a = v0;
  rb_nodup : NoDup (map (e_face S) sp);
  rb_incl : incl F (map (e_face S) sp);
  rb_lbr : ~ In lbr sp;
  rb_lbr_org : e_origin S lbr = v0
}.

Definition Cur (S : dcel) (sp : list nat) (e : nat) : Prop := exists a, In a sp /\ e_next S a = rev e.

Lemma rev_lt0 : forall e, e < n -> rev e < n.
Proof. intros e H. apply (dw_rev_lt d0 W0 e H). Qed.

Lemma rot_init : forall rest, Strip rest -> RBase d0 [e_face d0 (rev e0)] [fb] /\ Cur d0 [fb] e0.
Proof.
  intros rest (He & It & Ofb & _ & _).
  pose proof (rev_lt0 e0 He) as Ht.
  destruct (dw_tri_facts d0 (rev e0) W0 Ht It) as (Ln & Lp & A1 & A2 & A3 & A4 & A5 & A6 & A7 & A8 & A9 & A10 & A11 & A12).
  split.
  - constructor; try reflexivity.
    + exact W0.
    + intros v. cbv zeta. repeat split.
    + intros x _ H. exact H.
    + intros [E|[]]. apply It. exact E.
    + cbn [is_path]. split; [reflexivity|]. unfold d_ccw, e_rev. rewrite A4. reflexivity.
    + intros a [E|[]]. subst a. repeat split; [exact Lp|left; symmetry; exact A6|exact Ofb].
    + cbn [map]. constructor; [intros []|constructor].
    + intros f [E|[]]. subst f. left. exact A6.
    + intros [E|[]].
      (* fb = rev lb would identify the two ends of rev e0 *)
      pose proof (dw_org_neq d0 W0 (rev e0) Ht) as NE. apply NE.
      rewrite <- A12, <- A10. rewrite E. rewrite rev_rev. reflexivity.
    + rewrite A11. exact Ofb.
  - exists fb. split; [left; reflexivity|]. exact A2.
Qed.

(* one rotation step *)
Lemma rot_step : forall S F sp e,
  RBase S F sp -> Cur S sp e -> In e ces ->
  e < n -> inner d0 e -> ~ In (e_face d0 e) F -> e_origin d0 (e_prev d0 e) <> v0 -> lbr <> e -> lbr <> rev e ->
  exists sp', RBase (flip_he S e) (F ++ [e_face d0 e]) sp' /\
              (forall e', rev e' = e_next d0 e \/ rev e' = e_prev d0 e -> Cur (flip_he S e) sp' e').
Proof.
  intros S F sp e B (a & Ia & Na) Ice He Ie NF Apex L1 L2.
  destruct B as [W Ln Lv Lf Fl Vd Fr Stb Org F0 Pa Sp Nd Inc Lb Lbo].
  set (S' := flip_he S e).
  set (fe := e_face d0 e).
  assert (HeS : e < length (d_hedges S)) by (rewrite Ln; exact He).
  (* the face left of e is as in d0 *)
  destruct (dw_tri_facts d0 e W0 He Ie) as (Len0 & Lep0 & _ & _ & _ & _ & Fen0 & Fep0 & _).
  pose proof (Fr e NF) as Re.
  assert (Ren : half_edge S (e_next d0 e) = half_edge d0 (e_next d0 e)) by (apply Fr; rewrite Fen0; exact NF).
  assert (Rep : half_edge S (e_prev d0 e) = half_edge d0 (e_prev d0 e)) by (apply Fr; rewrite Fep0; exact NF).
  assert (Ne : e_next S e = e_next d0 e) by (unfold e_next; rewrite Re; reflexivity).
  assert (Pe : e_prev S e = e_prev d0 e) by (unfold e_prev; rewrite Re; reflexivity).
  assert (Fe : e_face S e = fe) by (unfold e_face; rewrite Re; reflexivity).
  assert (IeS : inner S e) by (unfold inner; rewrite Fe; exact Ie).
  (* the face right of e is the fan face of the spoke a *)
  destruct (Sp a Ia) as (La & FaF & Oa).
  assert (LaS : a < length (d_hedges S)) by (rewrite Ln; exact La).
  assert (IaS : inner S a) by (unfold inner; intros E; apply F0; rewrite <- E; exact FaF).
  pose proof (dw_rev_lt S W e HeS) as HtS.
  assert (Ft : e_face S (rev e) = e_face S a) by (rewrite <- Na; apply (dw_face_next S W a LaS)).
  assert (ItS : inner S (rev e)) by (unfold inner; rewrite Ft; exact IaS).
  assert (Atp : e_prev S (rev e) = a) by (rewrite <- Na; apply (dw_prev_next S W a LaS)).
  destruct (dw_tri_facts S (rev e) W HtS ItS) as (Ltn & Ltp & T1 & T2 & T3 & T4 & T5 & T6 & T7 & T8 & T9 & T10 & T11 & T12).
  (* the flip *)
  pose proof (flip_he_post S e W HeS IeS ItS) as Post. fold S' in Post.
  assert (ApexS : e_origin S (e_prev S e) <> e_origin S (e_prev S (rev e))).
  { rewrite Pe, Atp, Oa. unfold e_origin at 1. rewrite Rep. exact Apex. }
  pose proof (flip_DW' S S' e W HeS IeS ItS Post ApexS) as W'.
  assert (FeF : ~ In fe F) by exact NF.
  assert (Ftne : e_face S a <> fe) by (intros E; apply FeF; rewrite <- E; exact FaF).
  (* untouched half-edges: face neither fe nor the spoke's face *)
  assert (Unt : forall x, e_face S x <> fe -> e_face S x <> e_face S a -> flip_untouched S e x).
  { intros x X1 X2. apply (flip_untouched_by_face S e W HeS IeS ItS); [rewrite Fe; exact X1|rewrite Ft; exact X2]. }
  destruct (in_split a sp Ia) as (sp1 & sp2 & Esp).
  assert (SpU : forall b, In b sp1 \/ In b sp2 -> flip_untouched S e b).
  { intros b Hb. assert (Ib : In b sp) by (rewrite Esp; apply in_or_app; destruct Hb as [Hb|Hb]; [left|right; right]; exact Hb).
    destruct (Sp b Ib) as (_ & FbF & _).
    apply Unt; [intros E; apply FeF; rewrite <- E; exact FbF|].
    rewrite Esp in Nd. apply (NoDup_map_split_neq _ _ (e_face S) sp1 a sp2 b Nd Hb). }
  exists (sp1 ++ a :: rev e :: sp2).
  split.
  - constructor.
    + exact W'.
    + rewrite (fp_lenH S S' e Post). exact Ln.
    + rewrite (fp_lenV S S' e Post). exact Lv.
    + rewrite (fp_lenF S S' e Post). exact Lf.
    + rewrite (fp_flags S S' e Post). exact Fl.
    + intros v. pose proof (fp_vdata S S' e Post v) as V1. pose proof (Vd v) as V2. cbv zeta in *.
      destruct V1 as (X1 & X2 & X3). destruct V2 as (Y1 & Y2 & Y3). repeat split; congruence.
    + intros x Hx. assert (Hx1 : ~ In (e_face d0 x) F) by (intros I; apply Hx; apply in_or_app; left; exact I).
      pose proof (Fr x Hx1) as Rx. rewrite <- Rx. apply (fp_other S S' e Post).
      assert (Fx : e_face S x = e_face d0 x) by (unfold e_face; rewrite Rx; reflexivity).
      apply Unt; rewrite Fx.
      * intros E. apply Hx. apply in_or_app. right. left. symmetry. exact E.
      * intros E. apply Hx1. rewrite E. exact FaF.
    + intros x Hx Hin.
      assert (Hs : In (e_face S x) F \/ e_face S x = fe).
      { apply in_app_or in Hin. destruct Hin as [Hin|[Hin|[]]]; [left; apply Stb; assumption|right].
        assert (NX : ~ In (e_face d0 x) F) by (rewrite <- Hin; exact FeF).
        unfold e_face at 1. rewrite (Fr x NX). symmetry. exact Hin. }
      assert (Hfe : In (e_face S e) (F ++ [fe])) by (rewrite Fe; apply in_or_app; right; left; reflexivity).
      assert (Hft : In (e_face S (rev e)) (F ++ [fe])) by (apply in_or_app; left; rewrite Ft; exact FaF).
      destruct (flip_six_cases S e HeS x) as [->|[->|[->|[->|[->|[->|U]]]]]].
      * rewrite (flip_F_e S S' e Post). exact Hfe.
      * rewrite (flip_F_en S S' e Post). exact Hfe.
      * rewrite (flip_F_ep S S' e Post). exact Hft.
      * rewrite (flip_F_tw S S' e Post). exact Hft.
      * rewrite (flip_F_tn S S' e Post). exact Hft.
      * rewrite (flip_F_tp S S' e Post). exact Hfe.
      * destruct (flip_other_fields S S' e Post x U) as (_ & _ & Q & _). rewrite Q.
        destruct Hs as [Hs|Hs]; [apply in_or_app; left; exact Hs|rewrite Hs; apply in_or_app; right; left; reflexivity].
    + intros x Hx. rewrite <- (Org x Hx). destruct (Hx e Ice) as (X1 & X2). apply (flip_org_keep S S' e HeS Post x X1 X2).
    + intros I. apply in_app_or in I. destruct I as [I|[I|[]]]; [exact (F0 I)|]. apply Ie. exact I.
    + (* the path: prefix unchanged, a -> rev e -> old follower of a *)
      rewrite Esp in Pa. apply is_path_app in Pa. destruct Pa as (m & P1 & P2). cbn [is_path] in P2. destruct P2 as (Em & P2). subst m.
      apply is_path_app. exists a. split.
      * apply (is_path_ext S S' sp1); [|exact P1]. intros b Hb. unfold d_ccw, e_rev.
        destruct (flip_other_fields S S' e Post b (SpU b (or_introl Hb))) as (_ & Q & _). rewrite Q. reflexivity.
      * assert (C0 : d_ccw S' a = rev e).
        { unfold d_ccw, e_rev. rewrite <- Atp. rewrite (flip_P_tp S S' e Post). reflexivity. }
        assert (C1 : d_ccw S' (rev e) = d_ccw S a).
        { unfold d_ccw, e_rev. rewrite (flip_P_tw S S' e Post). rewrite <- Atp. rewrite T4. reflexivity. }
        cbn [is_path]. split; [reflexivity|]. rewrite C0. split; [reflexivity|]. rewrite C1.
        apply (is_path_ext S S' sp2); [|exact P2]. intros b Hb. unfold d_ccw, e_rev.
        destruct (flip_other_fields S S' e Post b (SpU b (or_intror Hb))) as (_ & Q & _). rewrite Q. reflexivity.
    + intros b Hb. apply in_app_or in Hb. cbn [In] in Hb.
      assert (Old : In b sp1 \/ In b sp2 -> b < n /\ In (e_face S' b) (F ++ [fe]) /\ e_origin S' b = v0).
      { intros Hb'. assert (Ib : In b sp) by (rewrite Esp; apply in_or_app; destruct Hb' as [Hb'|Hb']; [left|right; right]; exact Hb').
        destruct (Sp b Ib) as (Lb' & FbF & Ob).
        destruct (flip_other_fields S S' e Post b (SpU b Hb')) as (_ & _ & Q3 & Q4). rewrite Q3, Q4.
        repeat split; [exact Lb'|apply in_or_app; left; exact FbF|exact Ob]. }
      destruct Hb as [Hb|[Hb|[Hb|Hb]]].
      * apply Old. left. exact Hb.
      * subst b. repeat split; [exact La| |].
        -- rewrite <- Atp. rewrite (flip_F_tp S S' e Post). rewrite Fe. apply in_or_app. right. left. reflexivity.
        -- rewrite <- Atp. rewrite (flip_O_tp S S' e Post). rewrite Atp. exact Oa.
      * subst b. repeat split; [apply rev_lt0; exact He| |].
        -- rewrite (flip_F_tw S S' e Post). rewrite Ft. apply in_or_app. left. exact FaF.
        -- rewrite (flip_O_tw S S' e Post). rewrite Atp. exact Oa.
      * apply Old. right. exact Hb.
    + (* faces of the new spokes: fe replaces the face of a, rev e takes it over *)
      assert (M1 : map (e_face S') sp1 = map (e_face S) sp1).
      { apply map_ext_in. intros b Hb. apply (flip_other_fields S S' e Post b (SpU b (or_introl Hb))). }
      assert (M2 : map (e_face S') sp2 = map (e_face S) sp2).
      { apply map_ext_in. intros b Hb. apply (flip_other_fields S S' e Post b (SpU b (or_intror Hb))). }
      rewrite map_app. cbn [map]. rewrite M1, M2.
      assert (Fa' : e_face S' a = fe) by (rewrite <- Atp; rewrite (flip_F_tp S S' e Post); exact Fe).
      assert (Ft' : e_face S' (rev e) = e_face S a) by (rewrite (flip_F_tw S S' e Post); exact Ft).
      rewrite Fa', Ft'.
      rewrite Esp in Nd. rewrite map_app in Nd. cbn [map] in Nd.
      assert (Nfe : ~ In fe (map (e_face S) sp1 ++ e_face S a :: map (e_face S) sp2)).
      { intros I. apply FeF. apply in_app_or in I. cbn [In] in I.
        assert (Hsp : forall b, In b sp -> In (e_face S b) F) by (intros b Hb; apply (Sp b Hb)).
        destruct I as [I|[I|I]].
        - apply in_map_iff in I. destruct I as (b & E & Hb). rewrite <- E. apply Hsp. rewrite Esp. apply in_or_app. left. exact Hb.
        - rewrite <- I. exact FaF.
        - apply in_map_iff in I. destruct I as (b & E & Hb). rewrite <- E. apply Hsp. rewrite Esp. apply in_or_app. right. right. exact Hb. }
      apply NoDup_app_insert; assumption.
    + assert (M1 : map (e_face S') sp1 = map (e_face S) sp1).
      { apply map_ext_in. intros b Hb. apply (flip_other_fields S S' e Post b (SpU b (or_introl Hb))). }
      assert (M2 : map (e_face S') sp2 = map (e_face S) sp2).
      { apply map_ext_in. intros b Hb. apply (flip_other_fields S S' e Post b (SpU b (or_intror Hb))). }
      rewrite map_app. cbn [map]. rewrite M1, M2.
      assert (Fa' : e_face S' a = fe) by (rewrite <- Atp; rewrite (flip_F_tp S S' e Post); exact Fe).
      assert (Ft' : e_face S' (rev e) = e_face S a) by (rewrite (flip_F_tw S S' e Post); exact Ft).
      rewrite Fa', Ft'.
      intros f Hf. apply in_app_or in Hf. destruct Hf as [Hf|[Hf|[]]].
      * apply Inc in Hf. rewrite Esp in Hf. rewrite map_app in Hf. cbn [map] in Hf.
        apply in_app_or in Hf. apply in_or_app. destruct Hf as [Hf|[Hf|Hf]]; [left; exact Hf|right; right; left; exact Hf|right; right; right; exact Hf].
      * subst f. apply in_or_app. right. left. reflexivity.
    + intros I. apply in_app_or in I. cbn [In] in I. destruct I as [I|[I|[I|I]]].
      * apply Lb. rewrite Esp. apply in_or_app. left. exact I.
      * apply Lb. rewrite Esp. apply in_or_app. right. left. exact I.
      * apply L2. symmetry. exact I.
      * apply Lb. rewrite Esp. apply in_or_app. right. right. exact I.
    + rewrite (flip_org_keep S S' e HeS Post lbr L1 L2). exact Lbo.
  - intros e' [E|E].
    + exists a. split; [apply in_or_app; right; left; reflexivity|].
      rewrite E. rewrite <- Ne. rewrite <- Atp. apply (flip_N_tp S S' e Post).
    + exists (rev e). split; [apply in_or_app; right; right; left; reflexivity|].
      rewrite E. rewrite <- Pe. apply (flip_N_tw S S' e Post).
Qed.

Lemma NoDup_app_head_notin : forall A (l1 l2 : list A) x, NoDup (l1 ++ x :: l2) -> ~ In x l1.
Proof. intros A l1 l2 x ND I. apply NoDup_remove_2 in ND. apply ND. apply in_or_app. left. exact I. Qed.

Lemma rot_fold : forall rest e S F sp,
  RBase S F sp -> Cur S sp e -> incl (e :: rest) ces -> StripFrom e rest -> NoDup (F ++ map (e_face d0) (e :: rest)) ->
  exists sp', RBase (fold_left flip_he (e :: rest) S) (F ++ map (e_face d0) (e :: rest)) sp'.
Proof.
  induction rest as [|e' r IH]; intros e S F sp B C Ic St ND; cbn [StripFrom] in St; destruct St as (He & Ie & Apex & L1 & L2 & _ & _ & Nx).
  - cbn [map] in *. pose proof (NoDup_app_head_notin _ _ _ _ ND) as NF.
    destruct (rot_step S F sp e B C (Ic e (or_introl eq_refl)) He Ie NF Apex L1 L2) as (sp' & B' & _). exists sp'. exact B'.
  - destruct Nx as (Lk & St').
    cbn [map] in ND. pose proof (NoDup_app_head_notin _ _ _ _ ND) as NF.
    destruct (rot_step S F sp e B C (Ic e (or_introl eq_refl)) He Ie NF Apex L1 L2) as (sp' & B' & C').
    specialize (C' e' Lk).
    assert (ND' : NoDup ((F ++ [e_face d0 e]) ++ map (e_face d0) (e' :: r))) by (rewrite <- app_assoc; exact ND).
    destruct (IH e' (flip_he S e) (F ++ [e_face d0 e]) sp' B' C' (fun z Hz => Ic z (or_intror Hz)) St' ND') as (sp'' & B'').
    exists sp''. rewrite fold_left_cons_eq. rewrite <- app_assoc in B''. exact B''.
Qed.

(* the rotation turns a strip into a fan and keeps DW *)
Theorem rotation_fan : forall rest, Strip rest -> incl (e0 :: rest) ces ->
  exists sp, RBase (fold_left flip_he (e0 :: rest) d0) (e_face d0 (rev e0) :: map (e_face d0) (e0 :: rest)) sp.
Proof.
  intros rest St Ic. destruct (rot_init rest St) as (B & C).
  destruct St as (_ & _ & _ & SF & ND).
  apply (rot_fold rest e0 d0 [e_face d0 (rev e0)] [fb] B C Ic SF ND).
Qed.
End Rot.

(* ================================================================================================ *)
(* PART 3.  the border loop walks along the fan                                                      *)
(* ================================================================================================ *)

Lemma make_temporary_edge_fl : forall d temp u d1 t1, make_temporary_edge d temp u = (d1, t1) ->
  forall w, fl d1 w = true <-> fl d w = true \/ (w = u /\ u < length (d_flags d)).
Proof.
  intros d temp u d1 t1 M w. unfold make_temporary_edge in M. rewrite is_flagged_normalized in M.
  destruct (fl d u) eqn:F; cbn [negb] in M; injection M as E1 E2; subst d1.
  - split; [intros H; left; exact H|intros [H|[H _]]; [exact H|subst w; exact F]].
  - rewrite fl_set_flag. rewrite div2_normalized. split; (intros [H|[H1 H2]]; [left; exact H|right; split; [exact H1|]]); [subst w; exact H2|subst w; exact H2].
Qed.

Lemma border_step_fl : forall d nc temp cur target res d2 nc1 temp2 res1,
  border_step d nc temp cur target res = (d2, nc1, temp2, res1) ->
  (forall w, fl d w = true -> fl d2 w = true) /\
  (as_undirected (e_next d cur) < length (d_flags d) -> fl d2 (as_undirected (e_next d cur)) = true).
Proof.
  intros d nc temp cur target res d2 nc1 temp2 res1 E. unfold border_step in E.
  destruct (target =? e_to d cur).
  - destruct (make_constraint_edge d nc (as_undirected cur)) as [d1 nc1'] eqn:M.
    destruct (make_temporary_edge d1 temp (as_undirected (e_next d cur))) as [d2' temp2'] eqn:MT.
    inversion E; subst d2' nc1' temp2' res1.
    pose proof (make_constraint_edge_fl _ _ _ _ _ M) as F1. pose proof (make_temporary_edge_fl _ _ _ _ _ MT) as F2.
    pose proof (SameLinks_make_constraint_edge d nc (as_undirected cur)) as SL. rewrite M in SL. destruct SL as (_ & _ & _ & LF). cbn [fst] in LF.
    split.
    + intros w Hw. apply F2. left. apply F1. left. exact Hw.
    + intros Lt. apply F2. right. split; [reflexivity|rewrite LF; exact Lt].
  - destruct (make_temporary_edge d temp (as_undirected (e_next d cur))) as [d2' temp2'] eqn:MT.
    inversion E; subst d2' nc1 temp2' res1.
    pose proof (make_temporary_edge_fl _ _ _ _ _ MT) as F2.
    split.
    + intros w Hw. apply F2. left. exact Hw.
    + intros Lt. apply F2. right. split; [reflexivity|exact Lt].
Qed.

Lemma div2_lt : forall x m, x < 2 * m -> Nat.div2 x < m.
Proof. intros x m H. rewrite Nat.div2_div. apply Nat.div_lt_upper_bound; lia. Qed.

Lemma dw_undirected_lt : forall d x, DW d -> x < length (d_hedges d) -> as_undirected x < length (d_flags d).
Proof. intros d x W H. unfold as_undirected. apply div2_lt. pose proof (dw_even d W). lia. Qed.

Lemma border_loop_path : forall L y target sp k d nc temp x res d' nc' temp' res',
  DW L -> SameLinks L d -> is_path L x sp y -> ~ In y sp -> (forall a, In a sp -> a < length (d_hedges L)) ->
  border_loop k d nc temp x y target res = Some (d', nc', temp', res') ->
  (forall w, fl d w = true -> fl d' w = true) /\ (forall a, In a sp -> fl d' (as_undirected (e_next L a)) = true).
Proof.
  intros L y target sp. induction sp as [|a t IH]; intros k d nc temp x res d' nc' temp' res' W SL Pa Ny Rg H; cbn [is_path] in Pa.
  - subst y. assert (E : border_loop k d nc temp x x target res = Some (d, nc, temp, res)).
    { destruct k; [rewrite border_loop_zero|rewrite border_loop_unfold]; rewrite Nat.eqb_refl; reflexivity. }
    rewrite E in H. inversion H; subst. split; [intros w Hw; exact Hw|intros a []].
  - destruct Pa as (Ea & Pa). subst a.
    assert (Nx : (x =? y) = false) by (apply Nat.eqb_neq; intros E; apply Ny; left; exact E).
    destruct k as [|k]; [rewrite border_loop_zero, Nx in H; discriminate|].
    rewrite border_loop_unfold, Nx in H.
    destruct (border_step d nc temp x target res) as [[[d2 nc1] temp2] res1] eqn:E.
    destruct (SameLinks_reads L d SL) as (Rto & Rnext & Rccw). rewrite Rccw in H.
    pose proof (SameLinks_border_step _ _ _ _ _ _ _ _ _ _ E) as SL2.
    destruct (border_step_fl _ _ _ _ _ _ _ _ _ _ E) as (Mono & Setn). rewrite Rnext in Setn.
    assert (Lt : as_undirected (e_next L x) < length (d_flags d)).
    { destruct SL as (_ & _ & _ & LF). rewrite LF. apply dw_undirected_lt; [exact W|]. apply (dw_next_lt L W). apply Rg. left. reflexivity. }
    destruct (IH k d2 nc1 temp2 (d_ccw L x) res1 d' nc' temp' res' W (SameLinks_trans _ _ _ SL SL2) Pa
                (fun I => Ny (or_intror I)) (fun b Hb => Rg b (or_intror Hb)) H) as (Mono2 & All2).
    split.
    + intros w Hw. apply Mono2. apply Mono. exact Hw.
    + intros b [Hb|Hb]; [subst b; apply Mono2; apply Setn; exact Lt|apply All2; exact Hb].
Qed.

Lemma path_pred : forall S sp x y a, is_path S x sp y -> In a sp -> a = x \/ exists b, In b sp /\ a = d_ccw S b.
Proof.
  intros S sp. induction sp as [|c t IH]; intros x y a Pa Ia; [destruct Ia|]. cbn [is_path] in Pa. destruct Pa as (Ec & Pa). subst c.
  destruct Ia as [Ia|Ia]; [left; symmetry; exact Ia|]. right.
  destruct (IH _ _ _ Pa Ia) as [E|(b & Ib & E)]; [exists x; split; [left; reflexivity|exact E]|exists b; split; [right; exact Ib|exact E]].
Qed.

Lemma path_succ : forall S sp x y a, is_path S x sp y -> In a sp -> In (d_ccw S a) sp \/ d_ccw S a = y.
Proof.
  intros S sp. induction sp as [|c t IH]; intros x y a Pa Ia; [destruct Ia|]. cbn [is_path] in Pa. destruct Pa as (Ec & Pa). subst c.
  destruct Ia as [Ia|Ia].
  - subst a. destruct t as [|c2 t2]; cbn [is_path] in Pa; [right; exact Pa|left; right; left; exact (proj1 Pa)].
  - destruct (IH _ _ _ Pa Ia) as [H|H]; [left; right; exact H|right; exact H].
Qed.

(* a region of faces is closed in d: every half-edge of a face of F whose twin is not in a face of F is flagged *)
Definition Closed (d : dcel) (F : list nat) : Prop :=
  forall x, x < length (d_hedges d) -> In (e_face d x) F -> fl d (as_undirected x) = true \/ In (e_face d (rev x)) F.

Lemma fan_closed : forall d0 v0 e0 ces S F sp d4,
  RBase d0 v0 e0 ces S F sp -> SameLinks S d4 ->
  (forall a, In a sp -> fl d4 (as_undirected (e_next S a)) = true) ->
  fl d4 (as_undirected (e_prev d0 (rev e0))) = true -> fl d4 (as_undirected (e_next d0 (rev e0))) = true ->
  Closed d4 F.
Proof.
  intros d0 v0 e0 ces S F sp d4 B SL Outer Ffb Flb x Hx Hf.
  destruct B as [W Ln Lv Lf Fl Vd Fr Stb Org F0 Pa Sp Nd Inc Lb Lbo].
  destruct SL as (SV & SH & SF & SG).
  assert (Rd : forall z, e_face d4 z = e_face S z) by (intros z; unfold e_face, half_edge; rewrite SH; reflexivity).
  rewrite SH in Hx. rewrite Rd in Hf. rewrite Rd.
  pose proof (Inc _ Hf) as I. apply in_map_iff in I. destruct I as (a & Fa & Ia).
  destruct (Sp a Ia) as (La & FaF & Oa). rewrite <- Ln in La.
  assert (IaS : inner S a) by (unfold inner; intros E; apply F0; rewrite <- E; exact FaF).
  destruct (dw_same_face S W a x La Hx IaS (eq_sym Fa)) as [E|[E|E]].
  - subst x. destruct (path_pred S sp _ _ a Pa Ia) as [E|(b & Ib & E)].
    + left. rewrite E. exact Ffb.
    + right. rewrite E. unfold d_ccw, e_rev. rewrite rev_rev.
      destruct (Sp b Ib) as (Lb' & FbF & _). rewrite <- Ln in Lb'. rewrite (dw_face_prev S W b Lb'). exact FbF.
  - left. rewrite E. apply Outer. exact Ia.
  - destruct (path_succ S sp _ _ a Pa Ia) as [I|E2].
    + right. rewrite E. fold (e_rev (e_prev S a)). fold (d_ccw S a). apply (Sp _ I).
    + left. assert (Ex : x = e_next d0 (rev e0)).
      { apply rev_inj. rewrite E. fold (e_rev (e_prev S a)). fold (d_ccw S a). exact E2. }
      rewrite Ex. exact Flb.
Qed.

(* ================================================================================================ *)
(* PART 4.  legalization stays inside a closed region                                                *)
(* ================================================================================================ *)

Lemma incircle_same : forall a b c : pnt, incircle a b c c = 0%Z.
Proof. intros a b c. unfold incircle. ring. Qed.

Lemma push_if_not_contained_in : forall x l u, In u (push_if_not_contained x l) -> u = x \/ In u l.
Proof. intros x l u. unfold push_if_not_contained. destruct (memb x l); [intros H; right; exact H|intros [H|H]; [left; symmetry; exact H|right; exact H]]. Qed.

Lemma undirected_pair : forall x, (2 * as_undirected x = x /\ 2 * as_undirected x + 1 = rev x) \/ (2 * as_undirected x = rev x /\ 2 * as_undirected x + 1 = x).
Proof.
  intros x. unfold as_undirected. destruct (rev_cases x) as (k & [(E & R)|(E & R)]); subst x.
  - left. rewrite Nat.div2_double. split; [reflexivity|symmetry; exact R].
  - right. replace (2 * k + 1) with (S (2 * k)) by lia. rewrite Nat.div2_succ_double.
    replace (S (2 * k)) with (2 * k + 1) by lia. split; [symmetry; exact R|reflexivity].
Qed.

Section Legalize.
Variable pts : list pnt.
Variable Ls : dcel.            (* the state at the start of the legalization *)
Variable F : list nat.
Hypothesis F0 : ~ In 0 F.

Record LInv (d : dcel) : Prop := mkLInv {
  li_DW : DW d;
  li_lenH : length (d_hedges d) = length (d_hedges Ls);
  li_lenV : length (d_verts d) = length (d_verts Ls);
  li_lenF : length (d_faces d) = length (d_faces Ls);
  li_flags : d_flags d = d_flags Ls;
  li_vdata : forall v, let a := nth v (d_verts d) dflt_v in let b := nth v (d_verts Ls) dflt_v in
                       v_x a = v_x b /\ v_y a = v_y b /\ v_data a = v_data b;
  li_closed : Closed d F;
  li_stable : forall x, In (e_face d x) F <-> In (e_face Ls x) F;
  li_frame : forall x, ~ In (e_face Ls x) F -> half_edge d x = half_edge Ls x;
  li_org : forall x, fl Ls (as_undirected x) = true -> e_origin d x = e_origin Ls x
}.

Definition StackOK (d : dcel) (stack : list nat) : Prop :=
  forall u, In u stack -> fl d u = true \/ (u < length (d_flags d) /\ (In (e_face d (2 * u)) F \/ In (e_face d (2 * u + 1)) F)).

Lemma stack_edge_faces : forall d u, LInv d -> fl d u = false -> u < length (d_flags d) ->
  In (e_face d (2 * u)) F \/ In (e_face d (2 * u + 1)) F -> In (e_face d (2 * u)) F /\ In (e_face d (2 * u + 1)) F.
Proof.
  intros d u I Fu Lu H. pose proof (li_closed d I) as C. pose proof (li_DW d I) as W.
  destruct (dw_double_lt d W u Lu) as (L0 & L1).
  destruct H as [H|H].
  - split; [exact H|]. destruct (C (2 * u) L0 H) as [X|X].
    + unfold as_undirected in X. rewrite Nat.div2_double in X. congruence.
    + rewrite rev_even in X. exact X.
  - split; [|exact H]. destruct (C (2 * u + 1) L1 H) as [X|X].
    + unfold as_undirected in X. replace (2 * u + 1) with (S (2 * u)) in X by lia. rewrite Nat.div2_succ_double in X. congruence.
    + rewrite rev_odd in X. exact X.
Qed.

Lemma legalize_flip_step : forall d u, LInv d -> fl d u = false -> u < length (d_flags d) ->
  In (e_face d (2 * u)) F -> In (e_face d (2 * u + 1)) F ->
  e_origin d (e_prev d (2 * u)) <> e_origin d (e_prev d (rev (2 * u))) ->
  LInv (fst (flip_cw d u)) /\
  (forall x, In (e_face (fst (flip_cw d u)) x) F <-> In (e_face d x) F).
Proof.
  intros d u I Fu Lu H0 H1 Apex. set (e := 2 * u) in *. set (d' := fst (flip_cw d u)).
  destruct I as [W LH LV LFc LG VD C St Fr Og].
  destruct (dw_double_lt d W u Lu) as (He & _). fold e in He.
  assert (Ie : inner d e) by (unfold inner; intros E; apply F0; rewrite <- E; exact H0).
  assert (Rv : rev e = 2 * u + 1) by (unfold e; apply rev_even).
  assert (It : inner d (rev e)) by (unfold inner; rewrite Rv; intros E; apply F0; rewrite <- E; exact H1).
  pose proof (flip_cw_post d u W Lu Ie It) as Post. fold d' in Post. fold e in Post.
  pose proof (flip_DW' d d' e W He Ie It Post Apex) as W'.
  assert (Hft : In (e_face d (rev e)) F) by (rewrite Rv; exact H1).
  assert (A : forall x, In (e_face d' x) F <-> In (e_face d x) F).
  { intros x.
    destruct (dw_tri_facts d e W He Ie) as (_ & _ & _ & _ & _ & _ & A1 & A2 & _).
    destruct (dw_tri_facts d (rev e) W (dw_rev_lt d W e He) It) as (_ & _ & _ & _ & _ & _ & B1 & B2 & _).
    destruct (flip_six_cases d e He x) as [->|[->|[->|[->|[->|[->|U]]]]]].
    - rewrite (flip_F_e d d' e Post). tauto.
    - rewrite (flip_F_en d d' e Post), A1. tauto.
    - rewrite (flip_F_ep d d' e Post), A2. tauto.
    - rewrite (flip_F_tw d d' e Post). tauto.
    - rewrite (flip_F_tn d d' e Post), B1. tauto.
    - rewrite (flip_F_tp d d' e Post), B2. tauto.
    - destruct (flip_other_fields d d' e Post x U) as (_ & _ & Q & _). rewrite Q. tauto. }
  split; [|exact A].
  constructor.
  - exact W'.
  - rewrite (fp_lenH d d' e Post). exact LH.
  - rewrite (fp_lenV d d' e Post). exact LV.
  - rewrite (fp_lenF d d' e Post). exact LFc.
  - rewrite (fp_flags d d' e Post). exact LG.
  - intros v. pose proof (fp_vdata d d' e Post v) as V1. pose proof (VD v) as V2. cbv zeta in *.
    destruct V1 as (X1 & X2 & X3). destruct V2 as (Y1 & Y2 & Y3). repeat split; congruence.
  - intros x Hx Hf. rewrite (fp_lenH d d' e Post) in Hx. apply A in Hf.
    assert (Efl : forall z, fl d' z = fl d z) by (intros z; unfold fl; rewrite (fp_flags d d' e Post); reflexivity).
    rewrite Efl. destruct (C x Hx Hf) as [X|X]; [left; exact X|right; apply A; exact X].
  - intros x. rewrite A. apply St.
  - intros x Hx. rewrite <- (Fr x Hx). apply (fp_other d d' e Post).
    assert (Nx : ~ In (e_face d x) F) by (intros X; apply Hx; apply St; exact X).
    apply (flip_untouched_by_face d e W He Ie It); intros E; apply Nx; rewrite E; assumption.
  - intros x Hx. rewrite <- (Og x Hx). apply (flip_org_keep d d' e He Post).
    + intros E. subst x. unfold e, as_undirected in Hx. rewrite Nat.div2_double in Hx. unfold fl in Hx, Fu. rewrite <- LG in Hx. congruence.
    + intros E. subst x. rewrite Rv in Hx. unfold as_undirected in Hx. replace (2 * u + 1) with (S (2 * u)) in Hx by lia.
      rewrite Nat.div2_succ_double in Hx. unfold fl in Hx, Fu. rewrite <- LG in Hx. congruence.
Qed.

Lemma legalize_region : forall k d stack d',
  LInv d -> StackOK d stack -> legalize_after_removal pts k d stack 0 = Some d' -> LInv d'.
Proof.
  induction k as [|k IH]; intros d stack d' I SO H; cbn [legalize_after_removal] in H; [discriminate|].
  destruct stack as [|u rest].
  - inversion H; subst. exact I.
  - cbv zeta in H.
    assert (SOr : StackOK d rest) by (intros w Hw; apply SO; right; exact Hw).
    rewrite is_flagged_normalized in H. assert (Z0 : (u <? 0) = false) by (apply Nat.ltb_ge; lia). rewrite Z0, orb_false_r in H.
    destruct (fl d u) eqn:Fu; [eapply IH; [exact I|exact SOr|exact H]|].
    destruct (SO u (or_introl eq_refl)) as [X|(Lu & Hf)]; [congruence|].
    destruct (stack_edge_faces d u I Fu Lu Hf) as (H0 & H1).
    assert (O0 : is_outer d (normalized u) = false).
    { unfold is_outer, normalized. apply Nat.eqb_neq. intros E. apply F0. rewrite <- E. exact H0. }
    assert (O1 : is_outer d (e_rev (normalized u)) = false).
    { unfold is_outer, normalized, e_rev. rewrite rev_even. apply Nat.eqb_neq. intros E. apply F0. rewrite <- E. exact H1. }
    rewrite O0, O1 in H.
    destruct (0 <? incircle (vpos pts (e_origin d (normalized u))) (vpos pts (e_to d (normalized u)))
                            (vpos pts (apex d (normalized u))) (vpos pts (apex d (e_rev (normalized u)))))%Z eqn:SF.
    + (* flip *)
      assert (Apex : e_origin d (e_prev d (2 * u)) <> e_origin d (e_prev d (rev (2 * u)))).
      { intros E. unfold apex, normalized, e_rev in SF. rewrite E in SF. rewrite incircle_same in SF. discriminate. }
      assert (AU : as_undirected (normalized u) = u) by apply div2_normalized.
      rewrite AU in H.
      destruct (legalize_flip_step d u I Fu Lu H0 H1 Apex) as (I' & A).
      eapply IH; [exact I'| |exact H].
      (* the new stack *)
      pose proof (li_DW d I) as W. destruct (dw_double_lt d W u Lu) as (He & Ht).
      assert (Fl' : forall z, fl (fst (flip_cw d u)) z = fl d z) by (intros z; unfold fl; rewrite flip_cw_flags; reflexivity).
      assert (LenF' : length (d_flags (fst (flip_cw d u))) = length (d_flags d)) by (rewrite flip_cw_flags; reflexivity).
      assert (Old : forall w, fl d w = true \/ (w < length (d_flags d) /\ (In (e_face d (2 * w)) F \/ In (e_face d (2 * w + 1)) F)) ->
                    fl (fst (flip_cw d u)) w = true \/ (w < length (d_flags (fst (flip_cw d u))) /\
                      (In (e_face (fst (flip_cw d u)) (2 * w)) F \/ In (e_face (fst (flip_cw d u)) (2 * w + 1)) F))).
      { intros w [X|(X1 & X2)]; [left; rewrite Fl'; exact X|right]. rewrite LenF'. split; [exact X1|]. rewrite !A. exact X2. }
      assert (New : forall x, x < length (d_hedges d) -> In (e_face d x) F ->
                    fl d (as_undirected x) = true \/ (as_undirected x < length (d_flags d) /\
                      (In (e_face d (2 * as_undirected x)) F \/ In (e_face d (2 * as_undirected x + 1)) F))).
      { intros x Hx Hfx. right. split; [apply dw_undirected_lt; assumption|].
        destruct (undirected_pair x) as [(P1 & _)|(_ & P2)]; [left; rewrite P1; exact Hfx|right; rewrite P2; exact Hfx]. }
      destruct (dw_tri_facts d (2 * u) W He) as (Len & Lep & _ & _ & _ & _ & Fen & Fep & _).
      { unfold inner. intros E. apply F0. rewrite <- E. exact H0. }
      assert (Htw : rev (2 * u) < length (d_hedges d)) by (rewrite rev_even; exact Ht).
      destruct (dw_tri_facts d (rev (2 * u)) W Htw) as (Ltn & Ltp & _ & _ & _ & _ & Ftn & Ftp & _).
      { unfold inner. rewrite rev_even. intros E. apply F0. rewrite <- E. exact H1. }
      unfold normalized, e_rev in *.
      intros w Hw.
      apply push_if_not_contained_in in Hw. destruct Hw as [Hw|Hw]; [subst w; apply Old; apply New; [exact Ltp|rewrite Ftp, rev_even; exact H1]|].
      apply push_if_not_contained_in in Hw. destruct Hw as [Hw|Hw]; [subst w; apply Old; apply New; [exact Ltn|rewrite Ftn, rev_even; exact H1]|].
      apply push_if_not_contained_in in Hw. destruct Hw as [Hw|Hw]; [subst w; apply Old; apply New; [exact Lep|rewrite Fep; exact H0]|].
      apply push_if_not_contained_in in Hw. destruct Hw as [Hw|Hw]; [subst w; apply Old; apply New; [exact Len|rewrite Fen; exact H0]|].
      apply Old. apply SOr. exact Hw.
    + eapply IH; [exact I|exact SOr|exact H].
Qed.
End Legalize.

(* ================================================================================================ *)
(* PART 5.  resolve_conflict_region                                                                  *)
(* ================================================================================================ *)

Lemma DW_SameLinks : forall a b, SameLinks a b -> DW a -> DW b.
Proof.
  intros a b (SV & SH & SF & SG) W.
  assert (E : b = mkdcel (d_verts a) (d_hedges a) (d_faces a) (d_flags b)) by (destruct b; cbn in *; subst; reflexivity).
  rewrite E. clear E SV SH SF. revert SG. generalize (d_flags b) as g. intros g SG.
  destruct a as [V H Fc g0]. cbn [d_flags d_verts d_hedges d_faces] in *.
  destruct W as [W1 W2 W3 W4 W5 W6 W7 W8 W9].
  constructor; cbn [d_flags d_verts d_hedges d_faces] in *; try assumption.
  rewrite SG. exact W1.
Qed.

Lemma div2_rev : forall e, Nat.div2 (rev e) = Nat.div2 e.
Proof.
  intros e. destruct (rev_cases e) as (k & [(E & R)|(E & R)]); rewrite R, E.
  - replace (2 * k + 1) with (S (2 * k)) by lia. rewrite Nat.div2_succ_double, Nat.div2_double. reflexivity.
  - replace (2 * k + 1) with (S (2 * k)) by lia. rewrite Nat.div2_succ_double, Nat.div2_double. reflexivity.
Qed.

Lemma border_step_res : forall d nc temp cur target res d2 nc1 temp2 res1,
  border_step d nc temp cur target res = (d2, nc1, temp2, res1) ->
  (forall e, res = Some e -> fl d (as_undirected e) = true \/ length (d_flags d) <= as_undirected e) ->
  (forall e, res1 = Some e -> fl d2 (as_undirected e) = true \/ length (d_flags d2) <= as_undirected e).
Proof.
  intros d nc temp cur target res d2 nc1 temp2 res1 E R.
  pose proof (SameLinks_border_step _ _ _ _ _ _ _ _ _ _ E) as (_ & _ & _ & LF).
  destruct (border_step_fl _ _ _ _ _ _ _ _ _ _ E) as (Mono & _).
  unfold border_step in E. destruct (target =? e_to d cur).
  - destruct (make_constraint_edge d nc (as_undirected cur)) as [d1 nc1'] eqn:M.
    destruct (make_temporary_edge d1 temp (as_undirected (e_next d cur))) as [d2' temp2'] eqn:MT.
    inversion E; subst d2' nc1' temp2' res1.
    intros e He. inversion He; subst e.
    destruct (Nat.lt_ge_cases (as_undirected cur) (length (d_flags d))) as [Lt|Ge]; [left|right; rewrite LF; exact Ge].
    apply (make_temporary_edge_fl _ _ _ _ _ MT). left. apply (make_constraint_edge_fl _ _ _ _ _ M). right. split; [reflexivity|exact Lt].
  - destruct (make_temporary_edge d temp (as_undirected (e_next d cur))) as [d2' temp2'] eqn:MT.
    inversion E; subst d2' nc1 temp2' res1.
    intros e He. destruct (R e He) as [X|X]; [left; apply Mono; exact X|right; rewrite LF; exact X].
Qed.

Lemma border_loop_res : forall k d nc temp cur stop target res d' nc' temp' res',
  border_loop k d nc temp cur stop target res = Some (d', nc', temp', res') ->
  (forall e, res = Some e -> fl d (as_undirected e) = true \/ length (d_flags d) <= as_undirected e) ->
  (forall e, res' = Some e -> fl d' (as_undirected e) = true \/ length (d_flags d') <= as_undirected e).
Proof.
  induction k as [|k IH]; intros d nc temp cur stop target res d' nc' temp' res' H R.
  - rewrite border_loop_zero in H. destruct (cur =? stop); [|discriminate]. inversion H; subst. exact R.
  - rewrite border_loop_unfold in H. destruct (cur =? stop); [inversion H; subst; exact R|].
    destruct (border_step d nc temp cur target res) as [[[d2 nc1] temp2] res1] eqn:E.
    eapply IH; [exact H|]. eapply border_step_res; [exact E|exact R].
Qed.

Lemma StripFrom_lt : forall d0 v0 e0 rest e, StripFrom d0 v0 e0 e rest -> forall x, In x (e :: rest) -> x < length (d_hedges d0).
Proof.
  intros d0 v0 e0 rest. induction rest as [|e' r IH]; intros e St x Hx; cbn [StripFrom] in St; destruct St as (He & _ & _ & _ & _ & _ & _ & Nx).
  - destruct Hx as [Hx|[]]. subst x. exact He.
  - destruct Hx as [Hx|Hx]; [subst x; exact He|]. destruct Nx as (_ & St'). apply (IH e' St' x Hx).
Qed.

Lemma div2_eq_cases : forall e x, as_undirected e = as_undirected x -> e = x \/ e = rev x.
Proof.
  intros e x E.
  destruct (undirected_pair e) as [(A1 & A2)|(A1 & A2)]; destruct (undirected_pair x) as [(B1 & B2)|(B1 & B2)]; rewrite E in A1, A2.
  - left. congruence.
  - right. congruence.
  - right. apply rev_inj. rewrite rev_rev. congruence.
  - left. congruence.
Qed.

(* what the border loop adds to the temporary list, and which edge it can return *)
Lemma border_loop_path2 : forall L y target sp k d nc temp x res d' nc' temp' res',
  SameLinks L d -> is_path L x sp y -> ~ In y sp ->
  border_loop k d nc temp x y target res = Some (d', nc', temp', res') ->
  (forall u, In u temp' -> In u temp \/ exists a, In a sp /\ u = as_undirected (e_next L a)) /\
  (forall e, res' = Some e -> res = Some e \/ In e sp).
Proof.
  intros L y target sp. induction sp as [|a t IH]; intros k d nc temp x res d' nc' temp' res' SL Pa Ny H; cbn [is_path] in Pa.
  - subst y. assert (E : border_loop k d nc temp x x target res = Some (d, nc, temp, res)).
    { destruct k; [rewrite border_loop_zero|rewrite border_loop_unfold]; rewrite Nat.eqb_refl; reflexivity. }
    rewrite E in H. inversion H; subst. split; [intros u Hu; left; exact Hu|intros e He; left; exact He].
  - destruct Pa as (Ea & Pa). subst a.
    assert (Nx : (x =? y) = false) by (apply Nat.eqb_neq; intros E; apply Ny; left; exact E).
    destruct k as [|k]; [rewrite border_loop_zero, Nx in H; discriminate|].
    rewrite border_loop_unfold, Nx in H.
    destruct (border_step d nc temp x target res) as [[[d2 nc1] temp2] res1] eqn:E.
    destruct (SameLinks_reads L d SL) as (Rto & Rnext & Rccw). rewrite Rccw in H.
    pose proof (SameLinks_border_step _ _ _ _ _ _ _ _ _ _ E) as SL2.
    destruct (IH k d2 nc1 temp2 (d_ccw L x) res1 d' nc' temp' res' (SameLinks_trans _ _ _ SL SL2) Pa (fun I => Ny (or_intror I)) H) as (T2 & R2).
    assert (St : (forall u, In u temp2 -> In u temp \/ u = as_undirected (e_next L x)) /\ (res1 = res \/ res1 = Some x)).
    { unfold border_step in E. rewrite Rnext in E.
      assert (MT : forall dd tt d2' temp2', make_temporary_edge dd tt (as_undirected (e_next L x)) = (d2', temp2') ->
                   forall u, In u temp2' -> In u tt \/ u = as_undirected (e_next L x)).
      { intros dd tt d2' temp2' M u Hu. unfold make_temporary_edge in M. destruct (negb (is_flagged dd (normalized (as_undirected (e_next L x))))); inversion M; subst.
        - apply in_app_or in Hu. destruct Hu as [Hu|[Hu|[]]]; [left; exact Hu|right; symmetry; exact Hu].
        - left. exact Hu. }
      destruct (target =? e_to d x).
      - destruct (make_constraint_edge d nc (as_undirected x)) as [d1 nc1'].
        destruct (make_temporary_edge d1 temp (as_undirected (e_next L x))) as [d2' temp2'] eqn:M.
        inversion E; subst. split; [apply (MT _ _ _ _ M)|right; reflexivity].
      - destruct (make_temporary_edge d temp (as_undirected (e_next L x))) as [d2' temp2'] eqn:M.
        inversion E; subst. split; [apply (MT _ _ _ _ M)|left; reflexivity]. }
    destruct St as (St1 & St2).
    split.
    + intros u Hu. destruct (T2 u Hu) as [X|(a & Ia & Eu)].
      * destruct (St1 u X) as [Y|Y]; [left; exact Y|right; exists x; split; [left; reflexivity|exact Y]].
      * right. exists a. split; [right; exact Ia|exact Eu].
    + intros e He. destruct (R2 e He) as [X|X].
      * destruct St2 as [Y|Y]; rewrite Y in X; [left; exact X|right; left; inversion X; reflexivity].
      * right. right. exact X.
Qed.

Lemma StripFrom_fb : forall d0 v0 e0 rest e, StripFrom d0 v0 e0 e rest ->
  forall x, In x (e :: rest) -> e_prev d0 (rev e0) <> x /\ e_prev d0 (rev e0) <> rev x.
Proof.
  intros d0 v0 e0 rest. induction rest as [|e' r IH]; intros e St x Hx; cbn [StripFrom] in St; destruct St as (_ & _ & _ & _ & _ & K1 & K2 & Nx).
  - destruct Hx as [Hx|[]]. subst x. split; assumption.
  - destruct Hx as [Hx|Hx]; [subst x; split; assumption|]. destruct Nx as (_ & St'). apply (IH e' St' x Hx).
Qed.

Theorem resolve_conflict_region_DW : forall pts fuel d nc e0 rest v0 target d' nc' res,
  DW d -> Strip d v0 e0 rest ->
  resolve_conflict_region pts fuel d nc (e0 :: rest) target = Some (d', nc', res) ->
  let F := e_face d (rev e0) :: map (e_face d) (e0 :: rest) in
  DW d' /\
  (forall x, ~ In (e_face d x) F -> half_edge d' x = half_edge d x) /\
  (forall x, x < length (d_hedges d) -> In (e_face d x) F -> In (e_face d' x) F) /\
  (forall u, fl d u = true -> fl d' u = true) /\
  (forall u, fl d' u = true -> fl d u = true \/
             exists x, x < length (d_hedges d) /\ as_undirected x = u /\ e_origin d' x = v0 /\ e_to d' x = target) /\
  (forall e, res = Some e -> e < length (d_hedges d) /\ e_origin d' e = v0 /\ e_to d' e = target) /\
  (forall x, fl d (as_undirected x) = true -> (forall e, In e (e0 :: rest) -> x <> e /\ x <> rev e) -> e_origin d' x = e_origin d x) /\
  (forall e, res = Some e -> fl d' (as_undirected e) = true \/ e_to d e0 = target).
Proof.
  intros pts fuel d nc e0 rest v0 target d' nc' res W St H F.
  pose proof (resolve_conflict_region_monotone _ _ _ _ _ _ _ _ _ H) as Mono.
  destruct (rotation_fan d v0 e0 (e0 :: rest) W rest St (fun z Hz => Hz)) as (sp & B). fold F in B.
  set (S := fold_left flip_he (e0 :: rest) d) in *.
  pose proof H as H'.
  unfold resolve_conflict_region in H. rewrite fold_flips_flip_he in H. fold S in H.
  pose proof B as [WS Ln Lv Lf Fl Vd Fr Stb Org F0 Pa Sp Nd Inc Lb Lbo].
  destruct St as (He0 & It0 & Ofb & SF & NDF).
  pose proof (dw_rev_lt d W e0 He0) as Ht0.
  pose proof (dw_prev_lt d W _ Ht0) as Lfb. pose proof (dw_next_lt d W _ Ht0) as Llb.
  (* the first border edge is the first spoke *)
  assert (Ifb : In (e_prev d (rev e0)) sp).
  { destruct sp as [|a t]; [exfalso; apply (Inc (e_face d (rev e0))); left; reflexivity|]. cbn [is_path] in Pa. left. exact (proj1 Pa). }
  destruct (make_temporary_edge S [] (as_undirected (e_prev d (e_rev e0)))) as [d2 temp2] eqn:M1.
  destruct (make_temporary_edge d2 temp2 (as_undirected (e_next d (e_rev e0)))) as [d3 temp3] eqn:M2.
  pose proof (SameLinks_make_temporary_edge S [] (as_undirected (e_prev d (e_rev e0)))) as T1. rewrite M1 in T1. cbn [fst] in T1.
  pose proof (SameLinks_make_temporary_edge d2 temp2 (as_undirected (e_next d (e_rev e0)))) as T2. rewrite M2 in T2. cbn [fst] in T2.
  destruct (border_loop fuel d3 nc temp3 (e_prev d (e_rev e0)) (e_rev (e_next d (e_rev e0))) target None)
    as [[[[d4 nc4] temp4] res4]|] eqn:BL; [|discriminate].
  destruct (legalize_after_removal pts fuel d4 (List.rev (map as_undirected (e0 :: rest))) 0) as [d5|] eqn:Lg; [|discriminate].
  inversion H; subst d' nc' res. clear H.
  unfold e_rev in *.
  pose proof (SameLinks_trans _ _ _ T1 T2) as T3.
  pose proof (SameLinks_border_loop _ _ _ _ _ _ _ _ _ _ _ _ BL) as T4.
  pose proof (SameLinks_trans _ _ _ T3 T4) as TS4.
  (* both border edges are flagged before the loop *)
  assert (LfS : forall x, x < length (d_hedges d) -> as_undirected x < length (d_flags S)).
  { intros x Hx. apply dw_undirected_lt; [exact WS|rewrite Ln; exact Hx]. }
  assert (F3fb : fl d3 (as_undirected (e_prev d (rev e0))) = true).
  { apply (make_temporary_edge_fl _ _ _ _ _ M2). left. apply (make_temporary_edge_fl _ _ _ _ _ M1). right. split; [reflexivity|apply LfS; exact Lfb]. }
  assert (F3lb : fl d3 (as_undirected (e_next d (rev e0))) = true).
  { apply (make_temporary_edge_fl _ _ _ _ _ M2). right. split; [reflexivity|]. destruct T1 as (_ & _ & _ & LG). rewrite LG. apply LfS. exact Llb. }
  destruct (border_loop_path S (rev (e_next d (rev e0))) target sp fuel d3 nc temp3 (e_prev d (rev e0)) None d4 nc4 temp4 res4
              WS T3 Pa Lb (fun a Ha => eq_ind_r (fun m => a < m) (proj1 (Sp a Ha)) Ln) BL) as (Mono34 & Outer).
  pose proof (fan_closed d v0 e0 (e0 :: rest) S F sp d4 B TS4 Outer (Mono34 _ F3fb) (Mono34 _ F3lb)) as Cl4.
  pose proof (DW_SameLinks _ _ TS4 WS) as W4.
  destruct TS4 as (SV4 & SH4 & SF4 & SG4).
  assert (Rd4 : forall z, half_edge d4 z = half_edge S z) by (intros z; unfold half_edge; rewrite SH4; reflexivity).
  assert (Rf4 : forall z, e_face d4 z = e_face S z) by (intros z; unfold e_face; rewrite Rd4; reflexivity).
  (* the legalization invariant *)
  assert (I4 : LInv d4 F d4).
  { constructor; try reflexivity; try assumption; try tauto. all: intros v; cbv zeta; repeat split. }
  assert (SO : StackOK F d4 (List.rev (map as_undirected (e0 :: rest)))).
  { intros u Hu. apply in_rev in Hu. apply in_map_iff in Hu. destruct Hu as (e & Eu & Ie). subst u. right.
    pose proof (StripFrom_lt d v0 e0 rest e0 SF e Ie) as Le.
    split; [rewrite SG4; apply LfS; exact Le|].
    assert (Fe : In (e_face d4 e) F) by (rewrite Rf4; apply Stb; [exact Le|right; apply in_map; exact Ie]).
    destruct (undirected_pair e) as [(P1 & _)|(_ & P2)]; [left; rewrite P1; exact Fe|right; rewrite P2; exact Fe]. }
  pose proof (legalize_region pts d4 F F0 fuel d4 _ d5 I4 SO Lg) as I5.
  destruct I5 as [W5 LH5 LV5 LF5 LG5 VD5 C5 St5 Fr5 Og5].
  pose proof (SameLinks_fold_clear temp4 d5) as T6.
  pose proof (DW_SameLinks _ _ T6 W5) as W6.
  destruct T6 as (SV6 & SH6 & SF6 & SG6).
  assert (Rd6 : forall z, half_edge (fold_left clear_flag_u temp4 d5) z = half_edge d5 z) by (intros z; unfold half_edge; rewrite SH6; reflexivity).
  (* transfer of end points of flagged edges from the fan to the result *)
  assert (Org6 : forall x, fl d4 (as_undirected x) = true -> e_origin (fold_left clear_flag_u temp4 d5) x = e_origin S x).
  { intros x Hx. unfold e_origin at 1. rewrite Rd6. fold (e_origin d5 x). rewrite (Og5 x Hx). unfold e_origin. rewrite Rd4. reflexivity. }
  assert (To6 : forall x, fl d4 (as_undirected x) = true -> e_to (fold_left clear_flag_u temp4 d5) x = e_to S x).
  { intros x Hx. unfold e_to, e_rev. apply Org6. unfold as_undirected in *. rewrite div2_rev. exact Hx. }
  (* the set Q of the flag theorem: the half-edges going out of v0 in the fan *)
  set (Q := fun x => x < length (d_hedges d) /\ e_origin S x = v0).
  assert (Qccw : forall x, Q x -> Q (d_ccw S x)).
  { intros x (Hx & Ox). rewrite <- Ln in Hx. pose proof (dw_prev_lt S WS x Hx) as Lp.
    split; [rewrite <- Ln; apply (dw_rev_lt S WS); exact Lp|].
    unfold d_ccw, e_rev. rewrite <- (dw_org_next S WS _ Lp). rewrite (dw_next_prev S WS x Hx). exact Ox. }
  assert (Qfb : forall first, hd_error (e0 :: rest) = Some first -> Q (e_prev d (e_rev first))).
  { intros first E. inversion E; subst first. split; [exact Lfb|apply (Sp _ Ifb)]. }
  assert (Qccw' : forall x, Q x -> Q (d_ccw (fold_left (fun d e => fst (flip_cw d (as_undirected e))) (e0 :: rest) d) x)).
  { rewrite fold_flips_flip_he. exact Qccw. }
  destruct (resolve_conflict_region_flags pts fuel d nc (e0 :: rest) target _ _ _ Q H' Qfb Qccw') as (_ & NewF & ResF).
  unfold hit in NewF. rewrite fold_flips_flip_he in NewF, ResF. fold S in NewF, ResF.
  assert (ResF4 : forall e, res4 = Some e -> fl d4 (as_undirected e) = true).
  { intros e He. destruct (ResF e He) as ((Lx & _) & _).
    destruct (border_loop_res _ _ _ _ _ _ _ _ _ _ _ _ BL (fun e0' (X : None = Some e0') => ltac:(discriminate)) e He) as [X|X]; [exact X|].
    exfalso. rewrite SG4 in X. pose proof (LfS e Lx). lia. }
  split; [exact W6|]. split; [|split; [|split; [exact Mono|split; [|split; [|split]]]]].
  - intros x Hx. rewrite Rd6. rewrite <- (Fr x Hx). rewrite <- Rd4. apply Fr5. rewrite Rf4. unfold e_face. rewrite (Fr x Hx). exact Hx.
  - intros x Hx Hf. unfold e_face. rewrite Rd6. fold (e_face d5 x). apply St5. rewrite Rf4. apply Stb; assumption.
  - intros u Hu. destruct (NewF u Hu) as [X|(x & (Lx & Ox) & Tx & Ex)]; [left; exact X|right].
    assert (F4 : fl d4 (as_undirected x) = true).
    { rewrite Ex. apply fl_fold_clear in Hu. destruct Hu as (Hu & _). unfold fl in *. rewrite <- LG5. exact Hu. }
    exists x. split; [exact Lx|]. split; [exact Ex|]. split; [rewrite (Org6 x F4); exact Ox|rewrite (To6 x F4); exact Tx].
  - intros e He. destruct (ResF e He) as ((Lx & Ox) & Tx). pose proof (ResF4 e He) as F4.
    split; [exact Lx|]. split; [rewrite (Org6 e F4); exact Ox|rewrite (To6 e F4); exact Tx].
  - intros x Hx Hn. rewrite <- (Org x Hn). apply Org6. apply Mono34.
    apply (make_temporary_edge_fl _ _ _ _ _ M2). left. apply (make_temporary_edge_fl _ _ _ _ _ M1). left.
    unfold fl in *. rewrite Fl. exact Hx.
  - (* the returned edge keeps its flag unless it is the first border edge *)
    intros e He. pose proof (ResF4 e He) as F4. destruct (ResF e He) as ((Lx & Ox) & Tx).
    destruct (border_loop_path2 S (rev (e_next d (rev e0))) target sp fuel d3 nc temp3 (e_prev d (rev e0)) None d4 nc4 temp4 res4 T3 Pa Lb BL) as (Tmp & Rsp).
    destruct (Rsp e He) as [X|Ie]; [discriminate|].
    destruct (in_dec Nat.eq_dec (as_undirected e) temp4) as [It|Nt].
    2:{ left. apply fl_fold_clear. split; [unfold fl in *; rewrite LG5; exact F4|exact Nt]. }
    (* origins around the fan *)
    assert (LeS : e < length (d_hedges S)) by (rewrite Ln; exact Lx).
    assert (OrgNe : forall z, z < length (d_hedges S) -> e_origin S z = v0 -> e <> rev z).
    { intros z Lz Oz E. apply (dw_org_neq S WS z Lz). rewrite Oz, <- E. symmetry. exact Ox. }
    assert (Temp3 : forall u, In u temp3 -> u = as_undirected (e_prev d (rev e0)) \/ u = as_undirected (e_next d (rev e0))).
    { intros u Hu. unfold make_temporary_edge in M1, M2.
      destruct (negb (is_flagged S (normalized (as_undirected (e_prev d (rev e0)))))); inversion M1; subst d2 temp2;
      destruct (negb (is_flagged _ (normalized (as_undirected (e_next d (rev e0)))))); inversion M2; subst d3 temp3; cbn [app In] in Hu; intuition (subst; auto). }
    assert (LfbS : e_prev d (rev e0) < length (d_hedges S)) by (rewrite Ln; exact Lfb).
    assert (LlbrS : rev (e_next d (rev e0)) < length (d_hedges S)) by (apply (dw_rev_lt S WS); rewrite Ln; exact Llb).
    destruct (Tmp _ It) as [X|(a & Ia & Ea)].
    + destruct (Temp3 _ X) as [Y|Y]; apply div2_eq_cases in Y; destruct Y as [Y|Y].
      * (* e is the first border edge *)
        right. rewrite <- Tx. rewrite Y. unfold e_to, e_rev.
        assert (Hn : forall c, In c (e0 :: rest) -> rev (e_prev d (rev e0)) <> c /\ rev (e_prev d (rev e0)) <> rev c).
        { intros c Hc. destruct (StripFrom_fb d v0 e0 rest e0 SF c Hc) as (K1 & K2). split; intros E.
          - apply K2. rewrite <- E. rewrite rev_rev. reflexivity.
          - apply K1. apply rev_inj. exact E. }
        rewrite (Org _ Hn).
        destruct (dw_tri_facts d (rev e0) W Ht0 It0) as (_ & _ & _ & _ & _ & _ & _ & _ & _ & _ & _ & _ & _ & A12). exact (eq_sym A12).
      * exfalso. apply (OrgNe _ LfbS (proj2 (proj2 (Sp _ Ifb))) Y).
      * (* e = lb = rev lbr *)
        exfalso. apply (OrgNe _ LlbrS Lbo). rewrite rev_rev. exact Y.
      * exfalso. apply Lb. rewrite <- Y. exact Ie.
    + destruct (Sp a Ia) as (La & FaF & Oa). rewrite <- Ln in La.
      assert (IaS : inner S a) by (unfold inner; intros E; apply F0; rewrite <- E; exact FaF).
      destruct (dw_tri_facts S a WS La IaS) as (Lna & Lpa & _ & _ & _ & _ & _ & _ & _ & _ & _ & A10 & A11 & A12).
      apply div2_eq_cases in Ea. exfalso. destruct Ea as [Y|Y].
      * (* e = next a: its origin is the far end of a *)
        apply (dw_org_neq S WS a La). rewrite Oa, <- A10, <- Y. symmetry. exact Ox.
      * (* e = rev (next a): its origin is the origin of prev a, whose twin goes out of v0 too *)
        apply (dw_org_neq S WS _ Lpa). rewrite A12, Oa, <- A11, <- Y. exact Ox.
Qed.

(* ================================================================================================ *)
(* PART 6.  several regions: resolve_conflict_groups                                                 *)
(* ================================================================================================ *)

(* a strip only reads half-edges of its own faces *)
Lemma StripFrom_ext : forall d D v0 e0 F, DW d -> length (d_hedges D) = length (d_hedges d) ->
  (forall x, In (e_face d x) F -> half_edge D x = half_edge d x) -> In (e_face d (rev e0)) F -> e0 < length (d_hedges d) ->
  forall rest e, (forall x, In x (e :: rest) -> In (e_face d x) F) -> StripFrom d v0 e0 e rest -> StripFrom D v0 e0 e rest.
Proof.
  intros d D v0 e0 F W LH Fr F0 He0.
  assert (R0 : half_edge D (rev e0) = half_edge d (rev e0)) by (apply Fr; exact F0).
  assert (N0 : e_next D (rev e0) = e_next d (rev e0)) by (unfold e_next; rewrite R0; reflexivity).
  assert (P0 : e_prev D (rev e0) = e_prev d (rev e0)) by (unfold e_prev; rewrite R0; reflexivity).
  induction rest as [|e' r IH]; intros e HF St; cbn [StripFrom] in *; destruct St as (He & Ie & Ap & L1 & L2 & K1 & K2 & Nx).
  - pose proof (HF e (or_introl eq_refl)) as Fe. pose proof (Fr e Fe) as Re.
    assert (Rp : half_edge D (e_prev d e) = half_edge d (e_prev d e)) by (apply Fr; rewrite (dw_face_prev d W e He); exact Fe).
    assert (Pe : e_prev D e = e_prev d e) by (unfold e_prev; rewrite Re; reflexivity).
    rewrite LH, N0, P0, Pe. unfold inner, e_face, e_origin. rewrite Re, Rp. repeat split; assumption.
  - pose proof (HF e (or_introl eq_refl)) as Fe. pose proof (Fr e Fe) as Re.
    assert (Rp : half_edge D (e_prev d e) = half_edge d (e_prev d e)) by (apply Fr; rewrite (dw_face_prev d W e He); exact Fe).
    assert (Pe : e_prev D e = e_prev d e) by (unfold e_prev; rewrite Re; reflexivity).
    assert (Ne : e_next D e = e_next d e) by (unfold e_next; rewrite Re; reflexivity).
    destruct Nx as (Lk & St').
    rewrite LH, N0, P0, Pe, Ne. unfold inner, e_face, e_origin at 1. rewrite Re, Rp.
    split; [exact He|]. split; [exact Ie|]. split; [exact Ap|]. split; [exact L1|]. split; [exact L2|]. split; [exact K1|]. split; [exact K2|]. split; [exact Lk|].
    apply IH; [intros x Hx; apply HF; right; exact Hx|exact St'].
Qed.

Lemma Strip_ext : forall d D v0 e0 rest, DW d -> length (d_hedges D) = length (d_hedges d) ->
  (forall x, In (e_face d x) (e_face d (rev e0) :: map (e_face d) (e0 :: rest)) -> half_edge D x = half_edge d x) ->
  Strip d v0 e0 rest ->
  Strip D v0 e0 rest /\ e_face D (rev e0) :: map (e_face D) (e0 :: rest) = e_face d (rev e0) :: map (e_face d) (e0 :: rest).
Proof.
  intros d D v0 e0 rest W LH Fr (He0 & It0 & Ofb & SF & ND).
  set (F := e_face d (rev e0) :: map (e_face d) (e0 :: rest)) in *.
  assert (F0 : In (e_face d (rev e0)) F) by (left; reflexivity).
  assert (HF : forall x, In x (e0 :: rest) -> In (e_face d x) F) by (intros x Hx; right; apply in_map; exact Hx).
  pose proof (dw_rev_lt d W e0 He0) as Ht0.
  assert (R0 : half_edge D (rev e0) = half_edge d (rev e0)) by (apply Fr; exact F0).
  assert (Rfb : half_edge D (e_prev d (rev e0)) = half_edge d (e_prev d (rev e0))) by (apply Fr; rewrite (dw_face_prev d W _ Ht0); exact F0).
  assert (P0 : e_prev D (rev e0) = e_prev d (rev e0)) by (unfold e_prev; rewrite R0; reflexivity).
  assert (EF : e_face D (rev e0) :: map (e_face D) (e0 :: rest) = F).
  { unfold F. f_equal; [unfold e_face; rewrite R0; reflexivity|]. apply map_ext_in. intros x Hx. unfold e_face. rewrite (Fr x (HF x Hx)). reflexivity. }
  split; [|exact EF].
  split; [rewrite LH; exact He0|]. split; [unfold inner, e_face; rewrite R0; exact It0|].
  split; [rewrite P0; unfold e_origin; rewrite Rfb; exact Ofb|].
  split; [apply (StripFrom_ext d D v0 e0 F W LH Fr F0 He0 rest e0 HF SF)|].
  rewrite EF. exact ND.
Qed.

Definition region_faces (d : dcel) (r : region) : list nat :=
  match r with
  | (e0 :: rest, REExisting _) => e_face d (rev e0) :: map (e_face d) (e0 :: rest)
  | _ => []
  end.
Definition RegionOK (d : dcel) (r : region) : Prop :=
  match r with
  | (e0 :: rest, REExisting _) => exists v0, Strip d v0 e0 rest
  | _ => True
  end.
(* every region with conflict edges is a strip, and the strips of different regions have no face in common *)
Fixpoint RegionsOK (d : dcel) (rs : list region) : Prop :=
  match rs with
  | [] => True
  | r :: t => RegionOK d r /\ (forall r', In r' t -> forall f, In f (region_faces d r) -> ~ In f (region_faces d r')) /\ RegionsOK d t
  end.

Lemma RegionsOK_frame : forall d D Fr, DW d -> length (d_hedges D) = length (d_hedges d) ->
  (forall x, ~ In (e_face d x) Fr -> half_edge D x = half_edge d x) ->
  forall rs, (forall r', In r' rs -> forall f, In f Fr -> ~ In f (region_faces d r')) -> RegionsOK d rs ->
  RegionsOK D rs /\ (forall r', In r' rs -> region_faces D r' = region_faces d r').
Proof.
  intros d D Fr W LH Frm. induction rs as [|r t IH]; intros Dj OK; cbn [RegionsOK] in *; [split; [exact I|intros r' []]|].
  destruct OK as (Okr & Djr & OKt).
  destruct (IH (fun r' Hr' => Dj r' (or_intror Hr')) OKt) as (OKt' & Eqt).
  assert (Er : RegionOK D r /\ region_faces D r = region_faces d r).
  { destruct r as [[|e0 rest] [v|e]]; cbn [RegionOK region_faces] in *; try (split; [exact I|reflexivity]).
    destruct Okr as (v0 & St).
    assert (Fx : forall x, In (e_face d x) (e_face d (rev e0) :: map (e_face d) (e0 :: rest)) -> half_edge D x = half_edge d x).
    { intros x Hx. apply Frm. intros Hf. apply (Dj _ (or_introl eq_refl) _ Hf). cbn [region_faces]. exact Hx. }
    destruct (Strip_ext d D v0 e0 rest W LH Fx St) as (St' & EF). split; [exists v0; exact St'|exact EF]. }
  destruct Er as (Okr' & Er).
  split.
  - split; [exact Okr'|]. split; [|exact OKt'].
    intros r' Hr' f Hf. rewrite Er in Hf. rewrite (Eqt r' Hr'). apply (Djr r' Hr' f Hf).
  - intros r' [E|Hr']; [subst r'; exact Er|apply Eqt; exact Hr'].
Qed.

Theorem resolve_groups_DW : forall pts fuel groups d nc ces lv d' nc' ces',
  DW d -> RegionsOK d groups ->
  resolve_groups pts fuel d nc groups ces lv = Some (d', nc', ces') -> DW d'.
Proof.
  intros pts fuel groups. induction groups as [|[ce ge] rest IH]; intros d nc ces lv d' nc' ces' W OK H; cbn [resolve_groups] in H.
  - inversion H; subst. exact W.
  - cbn [RegionsOK] in OK. destruct OK as (Okr & Djr & OKt).
    destruct ge as [v|e]; [|eapply IH; [exact W|exact OKt|exact H]].
    destruct (resolve_conflict_region pts fuel d nc ce v) as [[[d1 nc1] res]|] eqn:R; [|discriminate].
    destruct ce as [|e0 r0].
    + cbn [resolve_conflict_region] in R. inversion R; subst d1 nc1 res. eapply IH; [exact W|exact OKt|exact H].
    + cbn [RegionOK] in Okr. destruct Okr as (v0 & St).
      destruct (resolve_conflict_region_DW pts fuel d nc e0 r0 v0 v d1 nc1 res W St R) as (W1 & Fr1 & _).
      pose proof (Keep_resolve_conflict_region _ _ _ _ _ _ _ _ _ R) as (_ & LH & _ & _).
      destruct (RegionsOK_frame d d1 _ W LH Fr1 rest (fun r' Hr' f Hf => Djr r' Hr' f Hf) OKt) as (OKt' & _).
      eapply IH; [exact W1|exact OKt'|exact H].
Qed.

(* constraint insertion preserves link-level well-formedness whenever the collected regions are strips with pairwise disjoint faces *)
Theorem add_constraint_DW_regions : forall pts fuel d va vb groups d' nc edges,
  DW d -> get_conflict_resolutions pts fuel d va vb = Some (CRegions groups) -> RegionsOK d groups ->
  try_add_constraint_inner pts fuel d va vb = Some (Added d' nc edges) -> DW d'.
Proof.
  intros pts fuel d va vb groups d' nc edges W G OK H. unfold try_add_constraint_inner in H.
  destruct ((Raw.num_vertices d <=? va) || (Raw.num_vertices d <=? vb)); [discriminate|].
  rewrite G in H. unfold resolve_conflict_groups in H.
  destruct (resolve_groups pts fuel d 0 groups [] None) as [[[d1 nc1] ces]|] eqn:R; [|discriminate].
  pose proof (resolve_groups_DW _ _ _ _ _ _ _ _ _ _ W OK R) as W1.
  pose proof (SameLinks_fold_make ces d1 nc1) as F.
  destruct (fold_left (fun acc e => make_constraint_edge (fst acc) (snd acc) (as_undirected e)) ces (d1, nc1)) as [d2 nc2].
  cbn [fst] in F. inversion H; subst. apply (DW_SameLinks _ _ F W1).
Qed.
