(* Tri/AddSplit.v -- hand-written executable model of ConstrainedDelaunayTriangulation::add_constraint_and_split (src/cdt.rs), i.e. of
   try_add_constraint_inner with the ConflictResolution::Split resolver:
     add_constraint_and_split's closure     get_edge_intersections + NumCast + mitigate_underflow_for_coordinate + vertex constructor +
                                            assert_eq! (all of it in Tri/AddSplitFloat.v: IEEE arithmetic, operation for operation),
     get_conflict_resolutions               the Split arm incl. verify_split_position (through the locate model Tri/Locate.v, hint =
                                            conflict_edge.from()), all_regions_intact, ignored_vertex = overlap_vertex,
     resolve_conflict_groups                all three arms; the ConstraintEdgeSplit arm: insert_on_edge (GENERATED split_edge /
                                            split_half_edge), edge_in / edge_out bookkeeping, handle_legal_edge_split, split_vertices and
                                            their final legalize_vertex, followed by the full legalization (legalize_edge(edge, true)) of
                                            every edge that starts at a split vertex,
     add_splitting_constraint_edge_fallback phase 1 (insert of every pending split vertex = the locate model + Tri/Insert.v,
                                            remove_constraint_edge of the crossed edge, temporarily_removed), phase 2 (try_add_constraint
                                            between consecutive vertices with the assert_ne!), re-adding the temporarily removed pieces.
   Everything that is not specific to splitting is REUSED from Tri/AddConstraint.v (make_constraint_edge, resolve_conflict_region with its
   border loop / temporary flags / legalization, try_add_constraint_inner for the nested try_add_constraint calls), Tri/LineIter.v (get_next,
   edge_from_neighbors), Tri/Insert.v (insert_on_edge, insert_2d, legalize_vertex), Tri/Legalize.v (legalize_edge) and Tri/Locate.v.

   Conventions (as in Tri/AddConstraint.v):
     * the vertex table grows here, so the exact integer coordinates are not a parameter: they are decoded from the position bit patterns
       stored in the vertex table of the CURRENT dcel (`pts_of`) whenever a geometric decision is taken; all side tests are exact;
     * `None` = out of fuel or a Rust panic (expect / unwrap / assert_ne! / assert_eq! / index out of range); a NaN or infinite split
       position is also None (the code then either panics or computes with non-finite predicates: not modelled);
     * `nc` (a Z: it can decrease in the fallback) is the change of num_constraints;
     * the only place where the code consults something the observed state does not determine is `self.insert(new_vertex)` in the
       fallback: the start vertex of point location comes from the hint generator.  `starts` lists the start vertices to be tried
       (the locate model is run from each of them); the model returns the list of the resulting outcomes.  The fast path
       (all_regions_intact) is a function: exactly one outcome.
   Definitions only; theorems in Tri/AddSplitProofs.v.
   Tie to the code: Check/RunModel.v runs the model on the state the implementation was in before every `split va vb` operation and
   compares all four tables (hence the position bits and payloads of the new vertices), the returned edge list and the change of
   num_constraints index-exactly (tag corr). *)
From Coq Require Import ZArith List Bool Arith.
From SpadeV Require Import Num.Decode Geom.Pred Obs.State Obs.LineSpec Vmap.Model Dcel.Raw Gen.DcelOps Query.Hull Tri.Legalize Tri.Insert
  Tri.Locate Tri.LineIter Tri.Remove Tri.AddConstraint Tri.AddSplitFloat.
Import ListNotations.

(* ConflictRegionEnd with the ConstraintEdgeSplit(Result<V, FixedVertexHandle>, edge) variant: inl = Ok(position bits), inr = Err(handle) *)
Inductive sregion_end := SEExisting (v : nat) | SEOverlap (e : nat) | SESplit (v : (Z * Z) + nat) (e : nat).
Definition sregion : Type := (list nat * sregion_end)%type.

(* what one call produces: new state, change of num_constraints, returned Vec<FixedDirectedEdgeHandle> *)
Definition outcome : Type := (dcel * Z * list nat)%type.

(* ------------------------------------------------------------------ positions *)
Definition vert_bits (d : dcel) : list Z := flat_map (fun r => [v_x r; v_y r]) (d_verts d).
Definition pts_of (d : dcel) : option (list pnt) := decode_points (vert_bits d).
Definition vbits (d : dcel) (v : nat) : Z * Z := let r := nth v (d_verts d) dflt_v in (v_x r, v_y r).
Definition bits_of_dcel (d : dcel) : list (Z * Z) := map (fun r => (v_x r, v_y r)) (d_verts d).
(* the vertex positions and one more position on one integer scale *)
Definition pts_with (d : dcel) (p : Z * Z) : option (list pnt * pnt) :=
  match decode_points (vert_bits d ++ [fst p; snd p]) with
  | Some allp => Some (firstn (Raw.num_vertices d) allp, nth (Raw.num_vertices d) allp (0, 0)%Z)
  | None => None
  end.

Section AS.
Variable f32 : bool.                (* the scalar type of the triangulation *)
Variable payload : Z.               (* the vertex constructor: the data of a vertex created at a split position *)
Variable fuel : nat.
Variable starts : dcel -> list nat. (* start vertices of the point location of `insert` in the fallback (hint generator) *)

(* ------------------------------------------------------------------ verify_split_position *)
(* locate_with_hint(split_position, conflict_edge.from()); only the kind of the answer, the undirected edge, the face and the vertex are used *)
Definition verify_split_position (d : dcel) (e : nat) (p : Z * Z) : option (option nat * bool) :=
  match pts_with d p with
  | None => None
  | Some (pts, q) =>
    match locate_with_hint pts d q (e_origin d e) with
    | ROnEdge re => Some (None, as_undirected re =? as_undirected e)
    | ROnFace f => Some (None, (f =? e_face d e) || (f =? e_face d (e_rev e)))
    | ROutside _ => Some (None, is_outer d e || is_outer d (e_rev e))        (* conflict_edge.is_part_of_convex_hull() *)
    | ROnVertex v => Some (Some v, false)
    | RPanic => None
    end
  end.

(* ------------------------------------------------------------------ get_conflict_resolutions, Split resolver *)
Section Collect.
Variable pts : list pnt.            (* = pts_of d: nothing is mutated while the intersections are collected *)
Variable d : dcel.
Variables va vb : nat.

(* the closure of add_constraint_and_split applied to the crossed constraint edge e *)
Definition resolver (e : nat) : option (Z * Z) :=
  split_position f32 (vbits d (e_origin d e)) (vbits d (e_to d e)) (vbits d va) (vbits d vb).

Fixpoint collect_split (k : nat) (cur : option litem) (group : list nat) (ignored : option nat) (acc : list sregion) (intact : bool)
    : option (list sregion * bool) :=
  match cur with
  | None => Some (acc, intact)
  | Some it =>
    match k with
    | O => None
    | S k' =>
      match get_next pts d (vpos pts va) (vpos pts vb) fuel it with
      | None => None
      | Some nx =>
        match it with
        | IX e =>
            if negb (is_flagged d e) then collect_split k' nx (group ++ [e]) ignored acc intact
            else
              match resolver e with
              | None => None
              | Some p =>
                match verify_split_position d e p with
                | None => None
                | Some (overlap_vertex, is_valid) =>
                    let group_end_vertex := match overlap_vertex with Some h => inr h | None => inl p end in
                    collect_split k' nx [] overlap_vertex (acc ++ [(group, SESplit group_end_vertex e)]) (intact && is_valid)
                end
              end
        | IV v =>
            if opt_eqb ignored v then collect_split k' nx group None acc intact
            else collect_split k' nx [] None (acc ++ [(group, SEExisting v)]) intact
        | IO e =>
            collect_split k' nx group (Some (e_to d e)) (acc ++ [([], SEOverlap e)]) intact
        end
      end
    end
  end.

Definition get_conflict_resolutions_split : option (list sregion * bool) :=
  collect_split fuel (Some (IV va)) [] None [] true.
End Collect.

(* ------------------------------------------------------------------ resolve_conflict_groups *)
(* the common tail of the Existing and ConstraintEdgeSplit arms:
   constraint_edges.extend(self.resolve_conflict_region(conflict_edges, target_vertex)); constraint_edges.extend(last_edge).
   (On this path num_constraints only grows: `nc` is a nat as in Tri/AddConstraint.v.) *)
Definition region_step (d : dcel) (nc : nat) (conflict_edges : list nat) (target : nat) (last_edge : option nat) (ces : list nat)
    : option (dcel * nat * list nat) :=
  match conflict_edges with
  | [] => Some (d, nc, ces ++ opt_list last_edge)                          (* conflict_edges.first()? *)
  | _ :: _ =>
    match pts_of d with
    | None => None
    | Some pts =>
      match resolve_conflict_region pts fuel d nc conflict_edges target with
      | None => None
      | Some (d', nc', res) => Some (d', nc', ces ++ opt_list res ++ opt_list last_edge)
      end
    end
  end.

Fixpoint resolve_groups_split (final_vertex : nat) (d : dcel) (nc : nat) (groups : list sregion) (ces : list nat) (last_vertex : option nat)
    (split_vertices : list nat) : option (dcel * nat * list nat * list nat) :=
  match groups with
  | [] => Some (d, nc, ces, split_vertices)
  | (conflict_edges, group_end) :: rest =>
    match group_end with
    | SEOverlap edge =>
        resolve_groups_split final_vertex d nc rest (ces ++ [edge]) (Some (e_to d edge)) split_vertices
    | SEExisting v =>
        let last_edge :=
          match conflict_edges, last_vertex with
          | [], Some last =>
              match edge_from_neighbors d last v with
              | Some edge => if memb edge ces then None else Some edge
              | None => None
              end
          | _, _ => None
          end in
        match region_step d nc conflict_edges v last_edge ces with
        | None => None
        | Some (d, nc, ces) => resolve_groups_split final_vertex d nc rest ces (Some v) split_vertices
        end
    | SESplit (inr _) _ => None                  (* v.expect("Expected a new vertex for insertion. ...") *)
    | SESplit (inl p) conflict_edge =>
        let '(d, (new_vertex, (e0, e1))) := insert_on_edge d conflict_edge (mkvd (fst p) (snd p) payload) in
        let edge_out := Insert.d_ccw d e1 in
        let edge_in := Locate.d_cw d e1 in
        let ces := if opt_eqb last_vertex (e_to d edge_in) then ces ++ [e_rev edge_in] else ces in
        let last_edge := if e_to d edge_out =? final_vertex then Some edge_out else None in
        (* handle_legal_edge_split([e0, e1]): num_constraints += 1, both halves become constraint edges *)
        let d := set_flag (set_flag d e0) e1 in
        let nc := S nc in
        match region_step d nc conflict_edges new_vertex last_edge ces with
        | None => None
        | Some (d, nc, ces) => resolve_groups_split final_vertex d nc rest ces (Some new_vertex) (split_vertices ++ [new_vertex])
        end
    end
  end.

Definition legalize_vertices (pts : list pnt) (d : dcel) (vs : list nat) : option dcel :=
  fold_left (fun acc v => match acc with Some d' => legalize_vertex pts fuel d' v | None => None end) vs (Some d).

(* let out_edges: Vec<_> = self.vertex(vertex).out_edges().map(|edge| edge.fix()).collect();
   for edge in out_edges { self.legalize_edge(edge, true); }
   The handles are collected first (counterclockwise, starting at the vertex' out_edge, as in legalize_vertex of Tri/Insert.v), then every
   collected handle is passed to the Lawson loop with fully_legalize = true, whatever the earlier flips did to it. *)
Definition legalize_out_edges (pts : list pnt) (d : dcel) (v : nat) : option dcel :=
  match v_out_edge d v with
  | None => Some d
  | Some a =>
    match circ_iter (Insert.d_ccw d) (num_directed_edges d) a a with
    | None => None
    | Some outs =>
      fold_left (fun acc e => match acc with
                              | Some d' => option_map fst (legalize_edge pts fuel d' e true)
                              | None => None end) outs (Some d)
    end
  end.

Definition legalize_out_edges_all (pts : list pnt) (d : dcel) (vs : list nat) : option dcel :=
  fold_left (fun acc v => match acc with Some d' => legalize_out_edges pts d' v | None => None end) vs (Some d).

Definition resolve_conflict_groups_split (d : dcel) (final_vertex : nat) (groups : list sregion) : option outcome :=
  match resolve_groups_split final_vertex d 0 groups [] None [] with
  | None => None
  | Some (d, nc, ces, split_vertices) =>
      (* for edge in &constraint_edges { self.make_constraint_edge(edge.as_undirected()); } *)
      let '(d, nc) := fold_left (fun acc e => make_constraint_edge (fst acc) (snd acc) (as_undirected e)) ces (d, nc) in
      (* for vertex in &split_vertices { self.legalize_vertex( *vertex ); }
         for vertex in split_vertices { out_edges collected; for edge in out_edges { self.legalize_edge(edge, true); } } *)
      match split_vertices with
      | [] => Some (d, Z.of_nat nc, ces)
      | _ :: _ =>
        match pts_of d with
        | None => None
        | Some pts =>
          match legalize_vertices pts d split_vertices with
          | None => None
          | Some d =>
            match legalize_out_edges_all pts d split_vertices with
            | None => None
            | Some d => Some (d, Z.of_nat nc, ces)
            end
          end
        end
      end
  end.

(* ------------------------------------------------------------------ add_splitting_constraint_edge_fallback *)
Definition lres_eqb (a b : lres) : bool :=
  match a, b with
  | ROnVertex x, ROnVertex y | ROnEdge x, ROnEdge y | ROnFace x, ROnFace y | ROutside x, ROutside y => x =? y
  | RPanic, RPanic => true
  | _, _ => false
  end.
(* first occurrences, in order *)
Fixpoint dedup_acc (seen l : list lres) : list lres :=
  match l with
  | [] => []
  | x :: t => if existsb (lres_eqb x) seen then dedup_acc seen t else x :: dedup_acc (x :: seen) t
  end.
Definition dedup_lres (l : list lres) : list lres := dedup_acc [] l.

(* self.insert(new_vertex).expect(..) on a two-dimensional state: validation, point location from a start vertex chosen by the hint
   generator, insert_with_hint_option_impl.  Results: (state, change of num_constraints, handle) *)
Definition insert_any (d : dcel) (nc : Z) (p : Z * Z) : list (dcel * Z * nat) :=
  if negb (valid_position p) then [] else
  if Raw.num_faces d <=? 1 then [] else           (* a crossed constraint edge exists only in two-dimensional states *)
  match decode_points (vert_bits d ++ [fst p; snd p]) with
  | None => []
  | Some allp =>
    let n := Raw.num_vertices d in
    let pts := firstn n allp in
    let q := nth n allp (0, 0)%Z in
    let v := mkvd (fst p) (snd p) payload in
    flat_map (fun r =>
      match r with
      | ROnVertex u => match insert_2d allp fuel d (IOnVertex u) v with Some d' => [(d', nc, u)] | None => [] end
      | ROnEdge e =>
          match insert_2d allp fuel d (IOnEdge e) v with
          | Some d' => [(d', if is_flagged d e then (nc + 1)%Z else nc, n)]
          | None => []
          end
      | ROnFace f => match insert_2d allp fuel d (IOnFace f) v with Some d' => [(d', nc, n)] | None => [] end
      | ROutside e => match insert_2d allp fuel d (IOutside e) v with Some d' => [(d', nc, n)] | None => [] end
      | RPanic => []
      end) (dedup_lres (map (fun c => locate_from_closest pts d q c) (starts d)))
  end.

(* CDT::remove_constraint_edge *)
Definition remove_constraint_edge (d : dcel) (nc : Z) (u : nat) : option (dcel * Z) :=
  if is_flagged d (normalized u) then
    match pts_of d with
    | None => None
    | Some pts =>
      match legalize_edge pts fuel (clear_flag d (normalized u)) (normalized u) true with
      | Some (d', _) => Some (d', (nc - 1)%Z)
      | None => None
      end
    end
  else Some (d, nc).

(* phase 1; state: the dcel, nc, vertices_to_connect and temporarily_removed in push order *)
Definition fb_state : Type := (dcel * Z * list nat * list (nat * nat))%type.
Fixpoint fallback_phase1 (regions : list sregion) (st : fb_state) : list fb_state :=
  match regions with
  | [] => [st]
  | (_, group_end) :: rest =>
    let '(d, nc, vtc, tr) := st in
    match group_end with
    | SEExisting v => fallback_phase1 rest (d, nc, vtc ++ [v], tr)
    | SEOverlap e => fallback_phase1 rest (d, nc, vtc ++ [e_to d e], tr)
    | SESplit nv edge =>
        let inserted := match nv with inr h => [(d, nc, h)] | inl p => insert_any d nc p end in
        flat_map (fun r =>
          let '(d, nc, new_handle) := r in
          let old_from := e_origin d edge in
          let old_to := e_to d edge in
          match remove_constraint_edge d nc (as_undirected edge) with
          | None => []
          | Some (d, nc) => fallback_phase1 rest (d, nc, vtc ++ [new_handle], tr ++ [(old_from, new_handle); (new_handle, old_to)])
          end) inserted
    end
  end.

(* phase 2: for vertex in vertices_to_connect { if let Some(last) .. try_add_constraint(last, vertex); assert_ne!(new_edges, []) .. } *)
Fixpoint fallback_connect (pts : list pnt) (d : dcel) (nc : Z) (vtc : list nat) (last_vertex : option nat) (result : list nat)
    : option outcome :=
  match vtc with
  | [] => Some (d, nc, result)
  | vertex :: rest =>
    match last_vertex with
    | None => fallback_connect pts d nc rest (Some vertex) result
    | Some last =>
      match try_add_constraint_inner pts fuel d last vertex with
      | Some (Added d' k (e :: es)) => fallback_connect pts d' (nc + Z.of_nat k)%Z rest (Some vertex) (result ++ e :: es)
      | _ => None                                                         (* assert_ne!(new_edges, Vec::new()) *)
      end
    end
  end.

(* for [from, to] in temporarily_removed { self.try_add_constraint(from, to); } *)
Fixpoint fallback_readd (pts : list pnt) (d : dcel) (nc : Z) (tr : list (nat * nat)) : option (dcel * Z) :=
  match tr with
  | [] => Some (d, nc)
  | (from, to) :: rest =>
    match try_add_constraint_inner pts fuel d from to with
    | Some (Added d' k _) => fallback_readd pts d' (nc + Z.of_nat k)%Z rest
    | Some Refused => fallback_readd pts d nc rest
    | None => None
    end
  end.

Definition fallback_finish (st : fb_state) : option outcome :=
  let '(d, nc, vtc, tr) := st in
  match pts_of d with
  | None => None
  | Some pts =>
    match fallback_connect pts d nc vtc None [] with
    | None => None
    | Some (d, nc, result) =>
      match fallback_readd pts d nc tr with
      | None => None
      | Some (d, nc) => Some (d, nc, result)
      end
    end
  end.

Definition fallback (d : dcel) (regions : list sregion) : list outcome :=
  flat_map (fun st => match fallback_finish st with Some o => [o] | None => [] end) (fallback_phase1 regions (d, 0%Z, [], [])).

(* ------------------------------------------------------------------ try_add_constraint_inner, Split resolver *)
(* Some [] = every branch panics *)
Definition split_outcomes (d : dcel) (va vb : nat) : option (list outcome) :=
  if (Raw.num_vertices d <=? va) || (Raw.num_vertices d <=? vb) then None else      (* self.vertex(from).position() *)
  match pts_of d with
  | None => None
  | Some pts =>
    match get_conflict_resolutions_split pts d va vb with
    | None => None
    | Some (regions, all_regions_intact) =>
        if all_regions_intact then
          match resolve_conflict_groups_split d vb regions with
          | Some o => Some [o]
          | None => None
          end
        else Some (fallback d regions)
    end
  end.
End AS.

(* the deliverable's signature: the positions `bits` must be those of the vertex table of d (they are what the geometric decisions are
   taken from); the vertex constructor is the harness' (payload 888000); point location in the fallback starts at vertex 0.
   Result: new DCEL, the coordinate bit patterns of all vertices (the new split vertices at the end), the returned edges. *)
Definition bits_agree (bits : list (Z * Z)) (d : dcel) : bool :=
  (length bits =? Raw.num_vertices d) &&
  forallb (fun v => let b := nth v bits (0, 0)%Z in let c := vbits d v in (fst b =? fst c)%Z && (snd b =? snd c)%Z) (seq 0 (Raw.num_vertices d)).

Definition add_constraint_and_split_with (f32 : bool) (payload : Z) (fuel : nat) (d : dcel) (va vb : nat)
    : option (dcel * list (Z * Z) * list nat) :=
  match split_outcomes f32 payload fuel (fun _ => [0]) d va vb with
  | Some ((d', _, edges) :: _) => Some (d', bits_of_dcel d', edges)
  | _ => None
  end.

Definition add_constraint_and_split (f32 : bool) (bits : list (Z * Z)) (fuel : nat) (d : dcel) (va vb : nat)
    : option (dcel * list (Z * Z) * list nat) :=
  if bits_agree bits d then add_constraint_and_split_with f32 888000 fuel d va vb else None.
