(* Tri/AddSplitFloat.v -- the floating-point part of ConstrainedDelaunayTriangulation::add_constraint_and_split (src/cdt.rs) in IEEE
   arithmetic, operation for operation:
     get_edge_intersections(p1, p2, p3, p4)   every -, +, *, / of the Rust code is one correctly rounded (round to nearest even) binary64
                                              operation in the same order (the function converts its arguments with to_f64() first, so
                                              the arithmetic is binary64 for both scalar types);
     `<S as NumCast>::from(s)`                num-traits 0.2.19: `Some(s as S)`, i.e. the identity for f64 and round-to-nearest for f32
                                              (the unwrap_or_else branch is dead);
     mitigate_underflow_for_coordinate        the GENERATED definition of Gen/Math.v (its comparison is made after `.into()` f64, and the
                                              conversion f32 -> f64 is exact, so it is evaluated on the widened value);
     the closure's assert_eq!(new_vertex.position(), line_intersection)   fails exactly for NaN coordinates.
   Values are exchanged with the rest of the model as binary64 bit patterns (what the harness prints for both scalar types).
   Definitions only. *)
From Coq Require Import ZArith List Bool.
From Flocq Require Import Core.Core IEEE754.BinarySingleNaN.
From SpadeV Require Import Num.F64.
From SpadeV Require Gen.Math.
Import ListNotations.
Local Open Scope Z_scope.

Definition f_div (a b : F) : F := Bdiv (prec_gt_0_:=Hprec64) (prec_lt_emax_:=Hmax64) mode_NE a b.
Definition f_inf : F := B754_infinity false.

Lemma Hprec32s : FLX.Prec_gt_0 24. Proof. reflexivity. Qed.
Lemma Hmax32s : Prec_lt_emax 24 128. Proof. reflexivity. Qed.

(* `x as f32` *)
Definition narrow (x : F) : F32 :=
  match x with
  | B754_zero s => B754_zero s
  | B754_infinity s => B754_infinity s
  | B754_nan => B754_nan
  | B754_finite s m e _ => binary_normalize 24 128 Hprec32s Hmax32s mode_NE (if s then Z.neg m else Z.pos m) e s
  end.

(* the binary64 bit pattern of a value (f64::to_bits); None for NaN (no payload is modelled) *)
Definition bits_of_F (x : F) : option Z :=
  match x with
  | B754_zero s => Some (if s then 9223372036854775808 else 0)
  | B754_infinity s => Some ((if s then 9223372036854775808 else 0) + 9218868437227405312)
  | B754_nan => None
  | B754_finite s m e _ =>
      let sg := if s then 9223372036854775808 else 0 in
      let mz := Z.pos m - 4503599627370496 in
      if 0 <=? mz then Some (sg + (e + 1075) * 4503599627370496 + mz) else Some (sg + Z.pos m)
  end.

(* get_edge_intersections(p1, p2, p3, p4) before the final conversion *)
Definition edge_intersection64 (p1x p1y p2x p2y p3x p3y p4x p4y : F) : F * F :=
  let a1 := f_sub p2y p1y in
  let b1 := f_sub p1x p2x in
  let c1 := f_add (f_mul a1 p1x) (f_mul b1 p1y) in
  let a2 := f_sub p4y p3y in
  let b2 := f_sub p3x p4x in
  let c2 := f_add (f_mul a2 p3x) (f_mul b2 p3y) in
  let determinant := f_sub (f_mul a1 b2) (f_mul a2 b1) in
  if f_eq determinant f_zero then (f_inf, f_inf)
  else (f_div (f_sub (f_mul b2 c1) (f_mul b1 c2)) determinant,
        f_div (f_sub (f_mul a1 c2) (f_mul a2 c1)) determinant).

(* conversion to the scalar type, seen through `.into()` f64 again *)
Definition to_scalar (f32 : bool) (x : F) : F := if f32 then widen (narrow x) else x.

(* the conflict resolver of add_constraint_and_split up to the vertex constructor: the position handed to `vertex_constructor`,
   as binary64 bit patterns.  p0 p1 = the positions of the crossed constraint edge (edge.positions()), from to = the end points of the new
   constraint; all given as bit patterns.  None = the closure panics (assert_eq! on a NaN coordinate). *)
Definition split_position (f32 : bool) (p0 p1 from to : Z * Z) : option (Z * Z) :=
  let '(x, y) := edge_intersection64 (f_of_bits (fst p0)) (f_of_bits (snd p0)) (f_of_bits (fst p1)) (f_of_bits (snd p1))
                                     (f_of_bits (fst from)) (f_of_bits (snd from)) (f_of_bits (fst to)) (f_of_bits (snd to)) in
  let x := Gen.Math.mitigate_underflow_for_coordinate (to_scalar f32 x) in
  let y := Gen.Math.mitigate_underflow_for_coordinate (to_scalar f32 y) in
  match bits_of_F x, bits_of_F y with
  | Some bx, Some b_y => Some (bx, b_y)
  | _, _ => None
  end.

(* math::validate_vertex on bit patterns (GENERATED validate_coordinate): `insert` returns Err exactly when this is false *)
Definition valid_position (p : Z * Z) : bool :=
  match Gen.Math.validate_coordinate (f_of_bits (fst p)), Gen.Math.validate_coordinate (f_of_bits (snd p)) with
  | Gen.Prelude.Ok _, Gen.Prelude.Ok _ => true
  | _, _ => false
  end.
