(* Tri/AddSplitFloatProofs.v -- the bit-pattern output of the IEEE part of the add_constraint_and_split model (Tri/AddSplitFloat.v) is Flocq's:
   `bits_of_F` (written directly over the single-NaN representation so that it extracts to plain integer arithmetic) is
   IEEE754.Bits.bits_of_b64 on every value that is not a NaN, and it inverts the decoding `f_of_bits` used everywhere in this project. *)
From Coq Require Import ZArith List Bool Lia.
From Flocq Require Import Core.Core IEEE754.BinarySingleNaN.
From Flocq Require IEEE754.Binary IEEE754.Bits.
From SpadeV Require Import Num.F64 Tri.AddSplitFloat.
Local Open Scope Z_scope.

Lemma bits_of_F_spec : forall x : Bits.binary64, Binary.is_nan 53 1024 x = false ->
  bits_of_F (Binary.B2BSN 53 1024 x) = Some (Bits.bits_of_b64 x).
Proof.
  intros x Hn. destruct x as [s|s|s pl Hpl|s m e He]; cbn [Binary.B2BSN bits_of_F].
  - destruct s; reflexivity.
  - destruct s; reflexivity.
  - discriminate.
  - unfold Bits.bits_of_b64, Bits.bits_of_binary_float.
    change (2 ^ 52) with 4503599627370496.
    change (Zle_bool 0 (Z.pos m - 4503599627370496)) with (0 <=? Z.pos m - 4503599627370496).
    destruct (0 <=? Z.pos m - 4503599627370496); f_equal; unfold Bits.join_bits; rewrite Z.shiftl_mul_pow2 by lia.
    all: change (SpecFloat.emin (52 + 1) (2 ^ (11 - 1))) with (-1074); change (2 ^ 52) with 4503599627370496;
      change (2 ^ 11) with 2048; destruct s; lia.
Qed.

(* f64::from_bits followed by f64::to_bits *)
Theorem bits_roundtrip : forall z, 0 <= z < 2 ^ 64 -> f_is_nan (f_of_bits z) = false -> bits_of_F (f_of_bits z) = Some z.
Proof.
  intros z Hz Hn. unfold f_of_bits in *. rewrite bits_of_F_spec.
  - f_equal. apply Bits.bits_of_binary_float_of_bits. exact Hz.
  - unfold f_is_nan in Hn. rewrite Binary.is_nan_B2BSN in Hn. exact Hn.
Qed.

(* the crossing of the diagonals of the square (-1,0) (1,0) x (0,1) (0,-1) is +0, +0 (the example of the function's documentation) *)
Example split_position_doc_example :
  split_position false (0, 4607182418800017408) (0, 13830554455654793216) (13830554455654793216, 0) (4607182418800017408, 0) = Some (0, 0).
Proof. vm_compute. reflexivity. Qed.
(* (0,0)-(3,1) crossed by (1,-1)-(1,1): x = 1 exactly, y = 1/3 rounded to nearest: 0x3FD5555555555555; in f32: 0x3EAAAAAB widened *)
Example split_position_third :
  split_position false (4607182418800017408, 13830554455654793216) (4607182418800017408, 4607182418800017408) (0, 0) (4613937818241073152, 4607182418800017408)
  = Some (4607182418800017408, 4599676419421066581) /\
  split_position true (4607182418800017408, 13830554455654793216) (4607182418800017408, 4607182418800017408) (0, 0) (4613937818241073152, 4607182418800017408)
  = Some (4607182418800017408, 4599676419600023552).
Proof. split; vm_compute; reflexivity. Qed.
