(* Tri/AddSplitProofs.v -- theorems about the add_constraint_and_split model (Tri/AddSplit.v).

   PART 1  no crossing: when the addition without splitting is not refused (no constraint edge is crossed), the split model has exactly one
           outcome and it is the result of the constraint-insertion model of Tri/AddConstraint.v: same DCEL, same counter change, same returned
           edges; when that model fails (fuel / panic) so does the split model (split_eq_add_constraint, add_constraint_and_split_no_crossing)
   PART 2  the vertex table only grows: on the fast path (all regions intact) the (position, payload) table of the result is the old table
           followed by one entry per crossed constraint edge, carrying the computed split position and the constructor's payload
           (fast_path_vtable); for every outcome, fallback included, the table does not shrink and every old entry is unchanged or was
           overwritten by `insert` with a vertex made by the vertex constructor (split_outcomes_vertices)
   PART 3  flags: every returned edge is a constraint edge in the result (split_outcomes_returned_flagged) *)
From Coq Require Import ZArith List Bool Arith Lia.
From SpadeV Require Import Num.Decode Geom.Pred Obs.State Obs.LineSpec Vmap.Model Dcel.Raw Gen.DcelOps Dcel.ProofsFlip Query.Hull
  Tri.Legalize Tri.Insert Tri.Locate Tri.LineIter Tri.Remove Tri.RemoveProofs Tri.AddConstraint Tri.AddConstraintProofs Tri.AddSplitFloat
  Tri.AddSplit.
Import ListNotations.

(* ================================================================================================ *)
(* PART 1.  no crossing                                                                              *)
(* ================================================================================================ *)

Definition embed_end (e : region_end) : sregion_end :=
  match e with REExisting v => SEExisting v | REOverlap x => SEOverlap x end.
Definition embed (r : region) : sregion := (fst r, embed_end (snd r)).

(* positions are read from the (position, payload) table only *)
Lemma vproj_inj : forall a b, vproj a = vproj b -> v_x a = v_x b /\ v_y a = v_y b /\ v_data a = v_data b.
Proof. intros a b H. unfold vproj in H. inversion H. auto. Qed.
Lemma vert_bits_vtable : forall d d', vtable d' = vtable d -> vert_bits d' = vert_bits d.
Proof.
  intros d d'. unfold vtable, vert_bits. generalize (d_verts d) (d_verts d'). clear.
  induction l as [|r t IH]; intros [|r' t'] H; cbn [map flat_map] in *; try discriminate; [reflexivity|].
  assert (Hh : vproj r' = vproj r) by congruence. assert (Ht : map vproj t' = map vproj t) by congruence.
  destruct (vproj_inj _ _ Hh) as (Hx & Hy & Hd). rewrite (IH _ Ht). cbn [app]. congruence.
Qed.
Lemma pts_of_vtable : forall d d', vtable d' = vtable d -> pts_of d' = pts_of d.
Proof. intros d d' H. unfold pts_of. rewrite (vert_bits_vtable _ _ H). reflexivity. Qed.
Lemma pts_of_Keep : forall d d', RemoveProofs.Keep d d' -> pts_of d' = pts_of d.
Proof. intros d d' K. apply pts_of_vtable. exact (proj1 K). Qed.

Section NoCrossing.
Variable f32 : bool.
Variable payload : Z.
Variable fuel : nat.
Variable starts : dcel -> list nat.
Variable pts : list pnt.

(* get_conflict_resolutions: as long as the no-split resolver is not called the two collections agree *)
Lemma collect_eq : forall d va vb k cur group ignored acc intact,
  match collect_regions pts fuel k d (vpos pts va) (vpos pts vb) cur group ignored acc with
  | Some CRefused => True
  | Some (CRegions l) => collect_split f32 fuel pts d va vb k cur group ignored (map embed acc) intact = Some (map embed l, intact)
  | None => collect_split f32 fuel pts d va vb k cur group ignored (map embed acc) intact = None
  end.
Proof.
  intros d va vb k. induction k as [|k IH]; intros cur group ignored acc intact.
  - destruct cur as [it|]; cbn [collect_regions collect_split]; reflexivity.
  - destruct cur as [it|]; cbn [collect_regions collect_split]; [|reflexivity].
    destruct (get_next pts d (vpos pts va) (vpos pts vb) fuel it) as [nx|]; [|reflexivity].
    destruct it as [e|v|e].
    + destruct (negb (is_flagged d e)); [apply IH|exact I].
    + destruct (opt_eqb ignored v); [apply IH|].
      specialize (IH nx [] None (acc ++ [(group, REExisting v)]) intact).
      rewrite map_app in IH. exact IH.
    + specialize (IH nx group (Some (e_to d e)) (acc ++ [([], REOverlap e)]) intact).
      rewrite map_app in IH. exact IH.
Qed.

(* resolve_conflict_groups on regions without a split end *)
Lemma resolve_groups_eq : forall final groups d nc ces lv sv,
  pts_of d = Some pts ->
  resolve_groups_split payload fuel final d nc (map embed groups) ces lv sv =
  option_map (fun r => (r, sv)) (resolve_groups pts fuel d nc groups ces lv).
Proof.
  intros final groups. induction groups as [|[ce ge] rest IH]; intros d nc ces lv sv P; cbn [map resolve_groups_split resolve_groups].
  - reflexivity.
  - unfold embed at 1. cbn [fst snd]. destruct ge as [v|e]; cbn [embed_end].
    + unfold region_step. destruct ce as [|c0 ct].
      * cbn [resolve_conflict_region]. rewrite (IH d nc _ (Some v) sv P). cbn [opt_list app]. reflexivity.
      * rewrite P.
        destruct (resolve_conflict_region pts fuel d nc (c0 :: ct) v) as [[[d1 nc1] res]|] eqn:R; [|reflexivity].
        apply IH. rewrite (pts_of_Keep _ _ (Keep_resolve_conflict_region _ _ _ _ _ _ _ _ _ R)). exact P.
    + apply IH. exact P.
Qed.

Lemma resolve_conflict_groups_eq : forall final d groups,
  pts_of d = Some pts ->
  resolve_conflict_groups_split payload fuel d final (map embed groups) =
  option_map (fun r => let '(d', nc, es) := r in (d', Z.of_nat nc, es)) (resolve_conflict_groups pts fuel d groups).
Proof.
  intros final d groups P. unfold resolve_conflict_groups_split, resolve_conflict_groups.
  rewrite (resolve_groups_eq final groups d 0 [] None [] P).
  destruct (resolve_groups pts fuel d 0 groups [] None) as [[[d1 nc1] ces]|]; cbn [option_map]; [|reflexivity].
  destruct (fold_left (fun acc e => make_constraint_edge (fst acc) (snd acc) (as_undirected e)) ces (d1, nc1)) as [d2 nc2].
  reflexivity.
Qed.

(* try_add_constraint_inner with the Split resolver = with the refusing resolvers, unless the latter refuse *)
Theorem split_eq_add_constraint : forall d va vb,
  pts_of d = Some pts ->
  try_add_constraint_inner pts fuel d va vb <> Some Refused ->
  split_outcomes f32 payload fuel starts d va vb =
  match try_add_constraint_inner pts fuel d va vb with
  | Some (Added d' nc edges) => Some [(d', Z.of_nat nc, edges)]
  | _ => None
  end.
Proof.
  intros d va vb P NR. unfold split_outcomes, try_add_constraint_inner in *.
  destruct ((Raw.num_vertices d <=? va) || (Raw.num_vertices d <=? vb)); [reflexivity|].
  rewrite P. unfold get_conflict_resolutions_split, get_conflict_resolutions in *.
  pose proof (collect_eq d va vb fuel (Some (IV va)) [] None [] true) as C. cbn [map] in C.
  destruct (collect_regions pts fuel fuel d (vpos pts va) (vpos pts vb) (Some (IV va)) [] None []) as [[|l]|].
  - exfalso. apply NR. reflexivity.
  - rewrite C. rewrite (resolve_conflict_groups_eq vb d l P).
    destruct (resolve_conflict_groups pts fuel d l) as [[[d1 nc1] es]|]; reflexivity.
  - rewrite C. reflexivity.
Qed.

(* an accepted addition without splitting is the one outcome of the split model *)
Corollary split_of_added : forall d va vb d' nc edges,
  pts_of d = Some pts ->
  try_add_constraint_inner pts fuel d va vb = Some (Added d' nc edges) ->
  split_outcomes f32 payload fuel starts d va vb = Some [(d', Z.of_nat nc, edges)].
Proof.
  intros d va vb d' nc edges P H. rewrite (split_eq_add_constraint d va vb P); [rewrite H; reflexivity|].
  rewrite H. discriminate.
Qed.
End NoCrossing.

Lemma bits_of_dcel_vtable : forall d d', vtable d' = vtable d -> bits_of_dcel d' = bits_of_dcel d.
Proof.
  intros d d'. unfold vtable, bits_of_dcel. generalize (d_verts d) (d_verts d'). clear.
  induction l as [|r t IH]; intros [|r' t'] H; cbn [map] in *; try discriminate; [reflexivity|].
  assert (Hh : vproj r' = vproj r) by congruence. assert (Ht : map vproj t' = map vproj t) by congruence.
  destruct (vproj_inj _ _ Hh) as (Hx & Hy & Hd). rewrite (IH _ Ht). congruence.
Qed.

(* the deliverable's functions: when no constraint edge is crossed, add_constraint_and_split is add_constraint (Tri/AddConstraint.v) and the
   vertex positions are returned unchanged *)
Theorem add_constraint_and_split_no_crossing : forall f32 payload fuel pts d va vb d' edges,
  pts_of d = Some pts ->
  can_add_constraint pts fuel d va vb = Some true ->
  add_constraint pts fuel d va vb = Some (d', edges) ->
  add_constraint_and_split_with f32 payload fuel d va vb = Some (d', bits_of_dcel d, edges).
Proof.
  intros f32 payload fuel pts d va vb d' edges P C H. unfold add_constraint in H.
  destruct (try_add_constraint_inner pts fuel d va vb) as [[|d1 nc es]|] eqn:T; [| |discriminate].
  - exfalso. apply (refused_iff_cannot_add pts fuel d va vb) in T. rewrite T in C. discriminate.
  - inversion H; subst d1 es. unfold add_constraint_and_split_with.
    rewrite (split_of_added f32 payload fuel (fun _ => [0]) pts d va vb d' nc edges P T).
    rewrite (bits_of_dcel_vtable d d' (proj1 (add_constraint_Keep _ _ _ _ _ _ _ _ T))). reflexivity.
Qed.

(* ================================================================================================ *)
(* PART 2.  the vertex table only grows                                                              *)
(* ================================================================================================ *)

(* ---- 2a. the (position, payload) table under the generated primitives ---- *)
Definition ventry (v : vdata) : Z * Z * Z := (vd_x v, vd_y v, vd_d v).

Lemma vtable_push_vertex : forall d v o, vtable (push_vertex d v o) = vtable d ++ [ventry v].
Proof. intros d v o. unfold vtable, push_vertex. cbn [d_verts]. rewrite map_app. reflexivity. Qed.
Lemma vtable_set_half_edge : forall d a h, vtable (set_half_edge d a h) = vtable d.  Proof. reflexivity. Qed.

Ltac vt_step :=
  first [ rewrite vtable_set_out_edge | rewrite vtable_set_adjacent_edge | rewrite vtable_push_face | rewrite vtable_push_edge
        | rewrite vtable_set_next | rewrite vtable_set_prev | rewrite vtable_set_face | rewrite vtable_set_origin
        | rewrite vtable_set_half_edge | rewrite vtable_push_vertex ].

Lemma vtable_split_edge : forall d e v, vtable (fst (split_edge d e v)) = vtable d ++ [ventry v].
Proof. intros d e v. unfold split_edge. cbv zeta. cbn [fst snd]. repeat vt_step. reflexivity. Qed.
Lemma vtable_split_half_edge : forall d e v, vtable (fst (split_half_edge d e v)) = vtable d ++ [ventry v].
Proof. intros d e v. unfold split_half_edge. cbv zeta. cbn [fst snd]. repeat vt_step. reflexivity. Qed.
Lemma vtable_insert_into_triangle : forall d v f,
  vtable (fst (insert_into_triangle d v f)) = vtable d \/ vtable (fst (insert_into_triangle d v f)) = vtable d ++ [ventry v].
Proof.
  intros d v f. unfold insert_into_triangle. cbv zeta. destruct (f_adjacent d f) as [e0|].
  - right. cbn [fst snd]. repeat vt_step. reflexivity.
  - left. reflexivity.
Qed.
Lemma vtable_cnf : forall d e v, vtable (fst (create_new_face_adjacent_to_edge d e v)) = vtable d ++ [ventry v].
Proof. intros d e v. unfold create_new_face_adjacent_to_edge. cbv zeta. cbn [fst snd]. repeat vt_step. reflexivity. Qed.
Lemma vtable_csf : forall d e, vtable (fst (create_single_face_between_edge_and_next d e)) = vtable d.
Proof. intros d e. unfold create_single_face_between_edge_and_next. cbv zeta. cbn [fst snd]. repeat vt_step. reflexivity. Qed.

Lemma vtable_insert_on_edge : forall d e v, vtable (fst (insert_on_edge d e v)) = vtable d ++ [ventry v].
Proof.
  intros d e v. unfold insert_on_edge. destruct (Insert.is_outer d e).
  - pose proof (vtable_split_half_edge d (e_rev e) v) as H.
    destruct (split_half_edge d (e_rev e) v) as [d' [nv [e0 e1]]]. exact H.
  - destruct (Insert.is_outer d (e_rev e)); [apply vtable_split_half_edge|apply vtable_split_edge].
Qed.

Lemma vtable_set_flag : forall d e, vtable (set_flag d e) = vtable d.  Proof. reflexivity. Qed.
Lemma vtable_clear_flag : forall d e, vtable (clear_flag d e) = vtable d.  Proof. reflexivity. Qed.

Lemma vtable_legalize_edge : forall pts fuel d e fully d' b, legalize_edge pts fuel d e fully = Some (d', b) -> vtable d' = vtable d.
Proof. intros pts fuel d e fully d' b H. unfold legalize_edge in H. exact (proj1 (Keep_legalize _ _ _ _ _ _ _ _ H)). Qed.

Lemma vtable_legalize_fold : forall pts fuel fully es d d',
  fold_left (fun acc e => match acc with
                          | Some d0 => option_map fst (legalize_edge pts fuel d0 e fully)
                          | None => None end) es (Some d) = Some d' -> vtable d' = vtable d.
Proof.
  intros pts fuel fully es. induction es as [|e t IH]; intros d d' H; cbn [fold_left] in H.
  - inversion H; subst. reflexivity.
  - destruct (legalize_edge pts fuel d e fully) as [[d1 b]|] eqn:L; cbn [option_map fst] in H.
    + rewrite (IH _ _ H). eapply vtable_legalize_edge; exact L.
    + exfalso. clear -H. induction t as [|x t IHt]; cbn [fold_left] in H; [discriminate|auto].
Qed.

Lemma vtable_legalize_vertex : forall pts fuel d v d', legalize_vertex pts fuel d v = Some d' -> vtable d' = vtable d.
Proof.
  intros pts fuel d v d' H. unfold legalize_vertex in H.
  destruct (v_out_edge d v) as [a|]; [|inversion H; subst; reflexivity].
  destruct (circ_iter (Insert.d_ccw d) (num_directed_edges d) a a) as [outs|]; [|discriminate].
  eapply vtable_legalize_fold; exact H.
Qed.

Lemma vtable_legalize_vertices : forall fuel pts vs d d', legalize_vertices fuel pts d vs = Some d' -> vtable d' = vtable d.
Proof.
  intros fuel pts vs. unfold legalize_vertices. induction vs as [|v t IH]; intros d d' H; cbn [fold_left] in H.
  - inversion H; subst. reflexivity.
  - destruct (legalize_vertex pts fuel d v) as [d1|] eqn:L.
    + rewrite (IH _ _ H). eapply vtable_legalize_vertex; exact L.
    + exfalso. clear -H. induction t as [|x t IHt]; cbn [fold_left] in H; [discriminate|auto].
Qed.

(* the full legalization of the edges that start at the split vertices (end of resolve_conflict_groups) *)
Lemma vtable_legalize_out_edges : forall fuel pts d v d', legalize_out_edges fuel pts d v = Some d' -> vtable d' = vtable d.
Proof.
  intros fuel pts d v d' H. unfold legalize_out_edges in H.
  destruct (v_out_edge d v) as [a|]; [|inversion H; subst; reflexivity].
  destruct (circ_iter (Insert.d_ccw d) (num_directed_edges d) a a) as [outs|]; [|discriminate].
  eapply vtable_legalize_fold; exact H.
Qed.

Lemma vtable_legalize_out_edges_all : forall fuel pts vs d d', legalize_out_edges_all fuel pts d vs = Some d' -> vtable d' = vtable d.
Proof.
  intros fuel pts vs. unfold legalize_out_edges_all. induction vs as [|v t IH]; intros d d' H; cbn [fold_left] in H.
  - inversion H; subst. reflexivity.
  - destruct (legalize_out_edges fuel pts d v) as [d1|] eqn:L.
    + rewrite (IH _ _ H). eapply vtable_legalize_out_edges; exact L.
    + exfalso. clear -H. induction t as [|x t IHt]; cbn [fold_left] in H; [discriminate|auto].
Qed.

(* ---- 2b. the fast path ---- *)
Definition split_entries (payload : Z) (groups : list sregion) : list (Z * Z * Z) :=
  flat_map (fun r => match snd r with SESplit (inl p) _ => [(fst p, snd p, payload)] | _ => [] end) groups.

Lemma vtable_region_step : forall fuel d nc ce target le ces d' nc' ces',
  region_step fuel d nc ce target le ces = Some (d', nc', ces') -> vtable d' = vtable d.
Proof.
  intros fuel d nc ce target le ces d' nc' ces' H. unfold region_step in H. destruct ce as [|c0 ct].
  - inversion H; subst. reflexivity.
  - destruct (pts_of d) as [pts|]; [|discriminate].
    destruct (resolve_conflict_region pts fuel d nc (c0 :: ct) target) as [[[d1 nc1] res]|] eqn:R; [|discriminate].
    inversion H; subst. exact (proj1 (Keep_resolve_conflict_region _ _ _ _ _ _ _ _ _ R)).
Qed.

Lemma vtable_resolve_groups_split : forall payload fuel final groups d nc ces lv sv d' nc' ces' sv',
  resolve_groups_split payload fuel final d nc groups ces lv sv = Some (d', nc', ces', sv') ->
  vtable d' = vtable d ++ split_entries payload groups.
Proof.
  intros payload fuel final groups. induction groups as [|[ce ge] rest IH]; intros d nc ces lv sv d' nc' ces' sv' H;
    cbn [resolve_groups_split] in H.
  - inversion H; subst. unfold split_entries. cbn [flat_map]. rewrite app_nil_r. reflexivity.
  - unfold split_entries. cbn [flat_map snd]. fold (split_entries payload rest). destruct ge as [v|e|[p|h] e].
    + destruct (region_step fuel d nc ce v _ ces) as [[[d1 nc1] ces1]|] eqn:R; [|discriminate].
      rewrite (IH _ _ _ _ _ _ _ _ _ H). rewrite (vtable_region_step _ _ _ _ _ _ _ _ _ _ R). reflexivity.
    + rewrite (IH _ _ _ _ _ _ _ _ _ H). reflexivity.
    + pose proof (vtable_insert_on_edge d e (mkvd (fst p) (snd p) payload)) as V.
      destruct (insert_on_edge d e (mkvd (fst p) (snd p) payload)) as [d0 [nv [e0 e1]]]. cbn [fst] in V.
      match type of H with (match region_step ?f ?dd ?n ?c ?t ?l ?cs with _ => _ end) = _ =>
        destruct (region_step f dd n c t l cs) as [[[d1 nc1] ces1]|] eqn:R; [|discriminate] end.
      rewrite (IH _ _ _ _ _ _ _ _ _ H). rewrite (vtable_region_step _ _ _ _ _ _ _ _ _ _ R).
      rewrite !vtable_set_flag. rewrite V. unfold ventry. cbn [vd_x vd_y vd_d]. rewrite <- app_assoc. reflexivity.
    + discriminate.
Qed.

Lemma vtable_fold_make : forall es d nc,
  vtable (fst (fold_left (fun acc e => make_constraint_edge (fst acc) (snd acc) (as_undirected e)) es (d, nc))) = vtable d.
Proof. intros es d nc. pose proof (SameLinks_fold_make es d nc) as (V & _). unfold vtable. rewrite V. reflexivity. Qed.

(* on the fast path the new table is the old one followed by one entry per crossed constraint edge: the split position computed by the
   resolver and the constructor's payload *)
Theorem fast_path_vtable : forall payload fuel d final groups d' nc edges,
  resolve_conflict_groups_split payload fuel d final groups = Some (d', nc, edges) ->
  vtable d' = vtable d ++ split_entries payload groups.
Proof.
  intros payload fuel d final groups d' nc edges H. unfold resolve_conflict_groups_split in H.
  destruct (resolve_groups_split payload fuel final d 0 groups [] None []) as [[[[d1 nc1] ces] sv]|] eqn:R; [|discriminate].
  pose proof (vtable_fold_make ces d1 nc1) as F.
  destruct (fold_left (fun acc e => make_constraint_edge (fst acc) (snd acc) (as_undirected e)) ces (d1, nc1)) as [d2 nc2].
  cbn [fst] in F. rewrite <- (vtable_resolve_groups_split _ _ _ _ _ _ _ _ _ _ _ _ _ R). rewrite <- F.
  destruct sv as [|s0 st]; [inversion H; subst; reflexivity|].
  destruct (pts_of d2) as [pts|]; [|discriminate].
  destruct (legalize_vertices fuel pts d2 (s0 :: st)) as [d3|] eqn:L; [|discriminate].
  destruct (legalize_out_edges_all fuel pts d3 (s0 :: st)) as [d4|] eqn:L2; [|discriminate].
  inversion H; subst. rewrite (vtable_legalize_out_edges_all _ _ _ _ _ L2). eapply vtable_legalize_vertices; exact L.
Qed.

(* ---- 2c. every outcome, the fallback included ---- *)
Definition dz : Z * Z * Z := (0, 0, 0)%Z.

(* every entry of the new table is the old entry with the same index or carries the constructor's payload; the table does not shrink *)
Definition VGrow (payload : Z) (d d' : dcel) : Prop :=
  length (vtable d) <= length (vtable d') /\
  forall i, i < length (vtable d') ->
    (i < length (vtable d) /\ nth i (vtable d') dz = nth i (vtable d) dz) \/ snd (nth i (vtable d') dz) = payload.

Lemma VGrow_refl : forall payload d, VGrow payload d d.
Proof. intros payload d. split; [lia|]. intros i Hi. left. split; [exact Hi|reflexivity]. Qed.

Lemma VGrow_trans : forall payload a b c, VGrow payload a b -> VGrow payload b c -> VGrow payload a c.
Proof.
  intros payload a b c (L1 & A) (L2 & B). split; [lia|]. intros i Hi.
  destruct (B i Hi) as [(Hb & E)|P]; [|right; exact P].
  destruct (A i Hb) as [(Ha & E')|P]; [left; split; [exact Ha|congruence]|right; rewrite E; exact P].
Qed.

Lemma VGrow_of_eq : forall payload d d', vtable d' = vtable d -> VGrow payload d d'.
Proof. intros payload d d' H. unfold VGrow. rewrite H. split; [lia|]. intros i Hi. left. split; [exact Hi|reflexivity]. Qed.

Lemma VGrow_of_app : forall payload d d' l, vtable d' = vtable d ++ l -> Forall (fun t => snd t = payload) l -> VGrow payload d d'.
Proof.
  intros payload d d' l H F. unfold VGrow. rewrite H, app_length. split; [lia|]. intros i Hi.
  destruct (Nat.lt_ge_cases i (length (vtable d))) as [Lt|Ge].
  - left. split; [exact Lt|]. apply app_nth1. exact Lt.
  - right. rewrite app_nth2 by exact Ge. rewrite Forall_forall in F. apply F. apply nth_In. lia.
Qed.

Lemma vtable_nth : forall d i, nth i (vtable d) dz = vproj (nth i (d_verts d) dflt_v).
Proof. intros d i. unfold vtable. change dz with (vproj dflt_v). apply map_nth. Qed.
Lemma vtable_length : forall d, length (vtable d) = length (d_verts d).
Proof. intros d. unfold vtable. apply map_length. Qed.

(* update_vertex(vertex, t) with a vertex made by the constructor *)
Lemma VGrow_overwrite : forall payload d u x y o,
  VGrow payload d (mkdcel (set_nth u (mkv x y payload o) (d_verts d)) (d_hedges d) (d_faces d) (d_flags d)).
Proof.
  intros payload d u x y o. unfold VGrow. rewrite !vtable_length. cbn [d_verts]. rewrite snth_length. split; [lia|].
  intros i Hi. rewrite !vtable_nth. cbn [d_verts]. destruct (Nat.eq_dec u i) as [E|NE].
  - subst i. right. rewrite nth_snth_same by exact Hi. reflexivity.
  - left. split; [exact Hi|]. rewrite nth_snth_other by exact NE. reflexivity.
Qed.

Lemma vtable_hull_walk_ccw : forall pts fuel k d cur p d', hull_walk_ccw pts fuel k d cur p = Some d' -> vtable d' = vtable d.
Proof.
  intros pts fuel k. induction k as [|k IH]; intros d cur p d' H; cbn [hull_walk_ccw] in H; [discriminate|].
  destruct (left_of pts d (e_prev d cur) p); [|inversion H; subst; reflexivity].
  pose proof (vtable_csf d (e_prev d cur)) as V.
  destruct (create_single_face_between_edge_and_next d (e_prev d cur)) as [d1 ne]. cbn [fst] in V.
  destruct (legalize_edge pts fuel d1 (e_prev d cur) false) as [[d2 b]|] eqn:L; [|discriminate].
  rewrite (IH _ _ _ _ H). rewrite (vtable_legalize_edge _ _ _ _ _ _ _ L). exact V.
Qed.
Lemma vtable_hull_walk_cw : forall pts fuel k d cur p d', hull_walk_cw pts fuel k d cur p = Some d' -> vtable d' = vtable d.
Proof.
  intros pts fuel k. induction k as [|k IH]; intros d cur p d' H; cbn [hull_walk_cw] in H; [discriminate|].
  destruct (left_of pts d (e_next d cur) p); [|inversion H; subst; reflexivity].
  pose proof (vtable_csf d cur) as V.
  destruct (create_single_face_between_edge_and_next d cur) as [d1 ne]. cbn [fst] in V.
  destruct (legalize_edge pts fuel d1 (e_next d cur) false) as [[d2 b]|] eqn:L; [|discriminate].
  rewrite (IH _ _ _ _ H). rewrite (vtable_legalize_edge _ _ _ _ _ _ _ L). exact V.
Qed.

Lemma vtable_insert_outside : forall pts fuel d e v p d', insert_outside pts fuel d e v p = Some d' -> vtable d' = vtable d ++ [ventry v].
Proof.
  intros pts fuel d e v p d' H. unfold insert_outside in H.
  pose proof (vtable_cnf d e v) as V.
  destruct (create_new_face_adjacent_to_edge d e v) as [d1 nv]. cbn [fst] in V.
  destruct (legalize_edge pts fuel d1 e false) as [[d2 b]|] eqn:L; [|discriminate].
  destruct (hull_walk_ccw pts fuel fuel d2 (e_rev (e_prev d1 e)) p) as [d3|] eqn:W1; [|discriminate].
  rewrite (vtable_hull_walk_cw _ _ _ _ _ _ _ H). rewrite (vtable_hull_walk_ccw _ _ _ _ _ _ _ W1).
  rewrite (vtable_legalize_edge _ _ _ _ _ _ _ L). exact V.
Qed.

Lemma Forall_one_payload : forall (x y payload : Z), Forall (fun t : Z * Z * Z => snd t = payload) [ventry (mkvd x y payload)].
Proof. intros. constructor; [reflexivity|constructor]. Qed.

(* insert_with_hint_option_impl after point location, for a vertex made by the constructor *)
Lemma VGrow_insert_2d : forall payload allp fuel d loc x y d',
  insert_2d allp fuel d loc (mkvd x y payload) = Some d' -> VGrow payload d d'.
Proof.
  intros payload allp fuel d loc x y d' H. unfold insert_2d in H. destruct loc as [f|e|e|u].
  - pose proof (vtable_insert_into_triangle d (mkvd x y payload) f) as V.
    destruct (insert_into_triangle d (mkvd x y payload) f) as [d1 h]. cbn [fst] in V.
    pose proof (vtable_legalize_vertex _ _ _ _ _ H) as L. destruct V as [V|V].
    + apply VGrow_of_eq. congruence.
    + eapply VGrow_of_app; [rewrite L; exact V|apply Forall_one_payload].
  - pose proof (vtable_insert_on_edge d e (mkvd x y payload)) as V.
    destruct (insert_on_edge d e (mkvd x y payload)) as [d1 [h [e0 e1]]]. cbn [fst] in V.
    pose proof (vtable_legalize_vertex _ _ _ _ _ H) as L.
    eapply VGrow_of_app; [|apply Forall_one_payload]. rewrite L.
    destruct (is_flagged d1 e); [rewrite !vtable_set_flag|]; exact V.
  - eapply VGrow_of_app; [eapply vtable_insert_outside; exact H|apply Forall_one_payload].
  - inversion H; subst. cbn [vd_x vd_y vd_d]. apply VGrow_overwrite.
Qed.

Lemma VGrow_insert_any : forall payload fuel starts d nc p d' nc' h,
  In (d', nc', h) (insert_any payload fuel starts d nc p) -> VGrow payload d d'.
Proof.
  intros payload fuel starts d nc p d' nc' h H. unfold insert_any in H.
  destruct (negb (valid_position p)); [destruct H|].
  destruct (Raw.num_faces d <=? 1); [destruct H|].
  destruct (decode_points (vert_bits d ++ [fst p; snd p])) as [allp|]; [|destruct H].
  apply in_flat_map in H. destruct H as (r & _ & H).
  destruct r as [u|e|f|e|];
    try (match type of H with In _ (match ?X with _ => _ end) => destruct X as [d1|] eqn:I end;
         [destruct H as [H|[]]; inversion H; subst; eapply VGrow_insert_2d; exact I|destruct H]).
  destruct H.
Qed.

Lemma vtable_remove_constraint_edge : forall fuel d nc u d' nc', remove_constraint_edge fuel d nc u = Some (d', nc') -> vtable d' = vtable d.
Proof.
  intros fuel d nc u d' nc' H. unfold remove_constraint_edge in H.
  destruct (is_flagged d (normalized u)); [|inversion H; subst; reflexivity].
  destruct (pts_of d) as [pts|]; [|discriminate].
  destruct (legalize_edge pts fuel (clear_flag d (normalized u)) (normalized u) true) as [[d1 b]|] eqn:L; [|discriminate].
  inversion H; subst. rewrite (vtable_legalize_edge _ _ _ _ _ _ _ L). apply vtable_clear_flag.
Qed.

Definition fb_dcel (st : fb_state) : dcel := let '(d, _, _, _) := st in d.

Lemma VGrow_fallback_phase1 : forall payload fuel starts regions st st',
  In st' (fallback_phase1 payload fuel starts regions st) -> VGrow payload (fb_dcel st) (fb_dcel st').
Proof.
  intros payload fuel starts regions. induction regions as [|[ce ge] rest IH]; intros st st' H; cbn [fallback_phase1] in H.
  - destruct H as [H|[]]. subst. apply VGrow_refl.
  - destruct st as [[[d nc] vtc] tr]. destruct ge as [v|e|nv edge].
    + exact (IH _ _ H).
    + exact (IH _ _ H).
    + apply in_flat_map in H. destruct H as ([[d1 nc1] h] & Hin & H).
      assert (G : VGrow payload d d1).
      { destruct nv as [p|h0].
        - eapply VGrow_insert_any; exact Hin.
        - destruct Hin as [E|[]]. inversion E; subst. apply VGrow_refl. }
      destruct (remove_constraint_edge fuel d1 nc1 (as_undirected edge)) as [[d2 nc2]|] eqn:R; [|destruct H].
      specialize (IH _ _ H). cbn [fb_dcel] in IH |- *.
      eapply VGrow_trans; [exact G|]. eapply VGrow_trans; [|exact IH].
      apply VGrow_of_eq. eapply vtable_remove_constraint_edge; exact R.
Qed.

Lemma vtable_fallback_connect : forall fuel pts vtc d nc lv res d' nc' res',
  fallback_connect fuel pts d nc vtc lv res = Some (d', nc', res') -> vtable d' = vtable d.
Proof.
  intros fuel pts vtc. induction vtc as [|v rest IH]; intros d nc lv res d' nc' res' H; cbn [fallback_connect] in H.
  - inversion H; subst. reflexivity.
  - destruct lv as [last|]; [|exact (IH _ _ _ _ _ _ _ H)].
    destruct (try_add_constraint_inner pts fuel d last v) as [[|d1 k [|e es]]|] eqn:T; try discriminate.
    rewrite (IH _ _ _ _ _ _ _ H). exact (proj1 (add_constraint_Keep _ _ _ _ _ _ _ _ T)).
Qed.

Lemma vtable_fallback_readd : forall fuel pts tr d nc d' nc',
  fallback_readd fuel pts d nc tr = Some (d', nc') -> vtable d' = vtable d.
Proof.
  intros fuel pts tr. induction tr as [|[from to] rest IH]; intros d nc d' nc' H; cbn [fallback_readd] in H.
  - inversion H; subst. reflexivity.
  - destruct (try_add_constraint_inner pts fuel d from to) as [[|d1 k es]|] eqn:T; [exact (IH _ _ _ _ H)| |discriminate].
    rewrite (IH _ _ _ _ H). exact (proj1 (add_constraint_Keep _ _ _ _ _ _ _ _ T)).
Qed.

Lemma vtable_fallback_finish : forall fuel st d' nc edges,
  fallback_finish fuel st = Some (d', nc, edges) -> vtable d' = vtable (fb_dcel st).
Proof.
  intros fuel [[[d nc0] vtc] tr] d' nc edges H. unfold fallback_finish in H. cbn [fb_dcel].
  destruct (pts_of d) as [pts|]; [|discriminate].
  destruct (fallback_connect fuel pts d nc0 vtc None []) as [[[d1 nc1] res]|] eqn:C; [|discriminate].
  destruct (fallback_readd fuel pts d1 nc1 tr) as [[d2 nc2]|] eqn:R; [|discriminate].
  inversion H; subst. rewrite (vtable_fallback_readd _ _ _ _ _ _ _ R). eapply vtable_fallback_connect; exact C.
Qed.

Lemma split_entries_payload : forall payload groups, Forall (fun t => snd t = payload) (split_entries payload groups).
Proof.
  intros payload groups. unfold split_entries. apply Forall_forall. intros t H. apply in_flat_map in H.
  destruct H as ([ce ge] & _ & H). cbn [snd] in H. destruct ge as [v|e|[p|h] e]; try (destruct H; fail).
  destruct H as [H|[]]. subst t. reflexivity.
Qed.

(* the vertex table only grows: whatever add_constraint_and_split returns, every vertex of the old state is still there with the same index,
   and its position bits and payload are unchanged unless `insert` (fallback routine) found a split position to be that vertex' position and
   overwrote it with the constructor's vertex; all further entries were made by the constructor *)
Theorem split_outcomes_vertices : forall f32 payload fuel starts d va vb outs d' nc edges,
  split_outcomes f32 payload fuel starts d va vb = Some outs -> In (d', nc, edges) outs -> VGrow payload d d'.
Proof.
  intros f32 payload fuel starts d va vb outs d' nc edges H Hin. unfold split_outcomes in H.
  destruct ((Raw.num_vertices d <=? va) || (Raw.num_vertices d <=? vb)); [discriminate|].
  destruct (pts_of d) as [pts|]; [|discriminate].
  destruct (get_conflict_resolutions_split f32 fuel pts d va vb) as [[regions intact]|]; [|discriminate].
  destruct intact.
  - destruct (resolve_conflict_groups_split payload fuel d vb regions) as [o|] eqn:R; [|discriminate].
    inversion H; subst outs. destruct Hin as [E|[]]. subst o.
    eapply VGrow_of_app; [eapply fast_path_vtable; exact R|apply split_entries_payload].
  - inversion H; subst outs. unfold fallback in Hin. apply in_flat_map in Hin. destruct Hin as (st & Hst & Hin).
    destruct (fallback_finish fuel st) as [o|] eqn:Fi; [|destruct Hin]. destruct Hin as [E|[]]. subst o.
    pose proof (VGrow_fallback_phase1 _ _ _ _ _ _ Hst) as G. cbn [fb_dcel] in G.
    eapply VGrow_trans; [exact G|]. apply VGrow_of_eq. eapply vtable_fallback_finish; exact Fi.
Qed.

(* on the fast path (no fallback) nothing is overwritten: the old table is a prefix of the new one *)
Theorem split_outcomes_fast_prefix : forall f32 payload fuel starts pts d va vb regions outs,
  pts_of d = Some pts -> get_conflict_resolutions_split f32 fuel pts d va vb = Some (regions, true) ->
  split_outcomes f32 payload fuel starts d va vb = Some outs ->
  exists d' nc edges, outs = [(d', nc, edges)] /\ vtable d' = vtable d ++ split_entries payload regions.
Proof.
  intros f32 payload fuel starts pts d va vb regions outs P G H. unfold split_outcomes in H.
  destruct ((Raw.num_vertices d <=? va) || (Raw.num_vertices d <=? vb)); [discriminate|].
  rewrite P, G in H.
  destruct (resolve_conflict_groups_split payload fuel d vb regions) as [[[d' nc] edges]|] eqn:R; [|discriminate].
  inversion H; subst outs. exists d', nc, edges. split; [reflexivity|]. eapply fast_path_vtable; exact R.
Qed.

(* ================================================================================================ *)
(* PART 3.  every returned edge is a constraint edge                                                 *)
(* ================================================================================================ *)

(* the Lawson loop never writes a flag (no well-formedness needed: the generated flip_cw does not touch the flag table) *)
Lemma flags_legalize : forall pts k fully d stack b d' b',
  legalize pts k fully d stack b = Some (d', b') -> d_flags d' = d_flags d.
Proof.
  intros pts k fully. induction k as [|k IH]; intros d stack b d' b' H; cbn [legalize] in H; [discriminate|].
  destruct stack as [|e rest].
  - inversion H; subst. reflexivity.
  - destruct (is_flagged d e); [eapply IH; exact H|].
    destruct ((e_face d e =? 0) || (e_face d (e_rev e) =? 0)); [eapply IH; exact H|].
    destruct (should_flip pts d e).
    + rewrite (IH _ _ _ _ _ H). apply flip_cw_flags.
    + eapply IH; exact H.
Qed.

Lemma flags_legalize_fold : forall pts fuel fully es d d',
  fold_left (fun acc e => match acc with
                          | Some d0 => option_map fst (legalize_edge pts fuel d0 e fully)
                          | None => None end) es (Some d) = Some d' -> d_flags d' = d_flags d.
Proof.
  intros pts fuel fully es. induction es as [|e t IH]; intros d d' H; cbn [fold_left] in H.
  - inversion H; subst. reflexivity.
  - destruct (legalize_edge pts fuel d e fully) as [[d1 b]|] eqn:L; cbn [option_map fst] in H.
    + rewrite (IH _ _ H). unfold legalize_edge in L. eapply flags_legalize; exact L.
    + exfalso. clear -H. induction t as [|x t IHt]; cbn [fold_left] in H; [discriminate|auto].
Qed.

Lemma flags_legalize_vertex : forall pts fuel d v d', legalize_vertex pts fuel d v = Some d' -> d_flags d' = d_flags d.
Proof.
  intros pts fuel d v d' H. unfold legalize_vertex in H.
  destruct (v_out_edge d v) as [a|]; [|inversion H; subst; reflexivity].
  destruct (circ_iter (Insert.d_ccw d) (num_directed_edges d) a a) as [outs|]; [|discriminate].
  eapply flags_legalize_fold; exact H.
Qed.

Lemma flags_legalize_vertices : forall fuel pts vs d d', legalize_vertices fuel pts d vs = Some d' -> d_flags d' = d_flags d.
Proof.
  intros fuel pts vs. unfold legalize_vertices. induction vs as [|v t IH]; intros d d' H; cbn [fold_left] in H.
  - inversion H; subst. reflexivity.
  - destruct (legalize_vertex pts fuel d v) as [d1|] eqn:L.
    + rewrite (IH _ _ H). eapply flags_legalize_vertex; exact L.
    + exfalso. clear -H. induction t as [|x t IHt]; cbn [fold_left] in H; [discriminate|auto].
Qed.

Lemma flags_legalize_out_edges : forall fuel pts d v d', legalize_out_edges fuel pts d v = Some d' -> d_flags d' = d_flags d.
Proof.
  intros fuel pts d v d' H. unfold legalize_out_edges in H.
  destruct (v_out_edge d v) as [a|]; [|inversion H; subst; reflexivity].
  destruct (circ_iter (Insert.d_ccw d) (num_directed_edges d) a a) as [outs|]; [|discriminate].
  eapply flags_legalize_fold; exact H.
Qed.

Lemma flags_legalize_out_edges_all : forall fuel pts vs d d', legalize_out_edges_all fuel pts d vs = Some d' -> d_flags d' = d_flags d.
Proof.
  intros fuel pts vs. unfold legalize_out_edges_all. induction vs as [|v t IH]; intros d d' H; cbn [fold_left] in H.
  - inversion H; subst. reflexivity.
  - destruct (legalize_out_edges fuel pts d v) as [d1|] eqn:L.
    + rewrite (IH _ _ H). eapply flags_legalize_out_edges; exact L.
    + exfalso. clear -H. induction t as [|x t IHt]; cbn [fold_left] in H; [discriminate|auto].
Qed.

(* fast path *)
Lemma fast_path_returned_flagged : forall payload fuel d final groups d' nc edges,
  resolve_conflict_groups_split payload fuel d final groups = Some (d', nc, edges) ->
  forall e, In e edges -> as_undirected e < length (d_flags d') -> is_flagged d' e = true.
Proof.
  intros payload fuel d final groups d' nc edges H e He Lt. unfold resolve_conflict_groups_split in H.
  destruct (resolve_groups_split payload fuel final d 0 groups [] None []) as [[[[d1 nc1] ces] sv]|] eqn:R; [|discriminate].
  pose proof (SameLinks_fold_make ces d1 nc1) as (_ & _ & _ & LF).
  destruct (fold_left (fun acc e => make_constraint_edge (fst acc) (snd acc) (as_undirected e)) ces (d1, nc1)) as [d2 nc2] eqn:F.
  cbn [fst] in LF. destruct (fold_make_flags _ _ _ _ _ F) as (_ & Set_ & _).
  assert (Fl2 : forall d3, d_flags d3 = d_flags d2 -> In e ces -> as_undirected e < length (d_flags d3) -> is_flagged d3 e = true).
  { intros d3 E I L. rewrite is_flagged_fl. unfold fl. rewrite E. apply Set_; [exact I|]. rewrite <- LF, <- E. exact L. }
  destruct sv as [|s0 st].
  - inversion H; subst. apply Fl2; [reflexivity|exact He|exact Lt].
  - destruct (pts_of d2) as [pts|]; [|discriminate].
    destruct (legalize_vertices fuel pts d2 (s0 :: st)) as [d3|] eqn:L; [|discriminate].
    destruct (legalize_out_edges_all fuel pts d3 (s0 :: st)) as [d4|] eqn:L2; [|discriminate].
    inversion H; subst.
    apply Fl2; [rewrite (flags_legalize_out_edges_all _ _ _ _ _ L2); eapply flags_legalize_vertices; exact L|exact He|exact Lt].
Qed.

(* fallback, phase 2 *)
Lemma fallback_connect_flagged : forall fuel pts vtc d nc lv res d' nc' res',
  fallback_connect fuel pts d nc vtc lv res = Some (d', nc', res') ->
  (forall e, In e res -> as_undirected e < length (d_flags d) -> fl d (as_undirected e) = true) ->
  length (d_flags d') = length (d_flags d) /\
  (forall e, In e res' -> as_undirected e < length (d_flags d') -> fl d' (as_undirected e) = true).
Proof.
  intros fuel pts vtc. induction vtc as [|v rest IH]; intros d nc lv res d' nc' res' H Inv; cbn [fallback_connect] in H.
  - inversion H; subst. split; [reflexivity|exact Inv].
  - destruct lv as [last|]; [|exact (IH _ _ _ _ _ _ _ H Inv)].
    destruct (try_add_constraint_inner pts fuel d last v) as [[|d1 k [|e0 es]]|] eqn:T; try discriminate.
    pose proof (add_constraint_Keep _ _ _ _ _ _ _ _ T) as (_ & _ & _ & LF).
    destruct (IH _ _ _ _ _ _ _ H) as (L & A).
    + intros e He Lt. apply in_app_or in He. destruct He as [He|He].
      * eapply add_constraint_flags_monotone; [exact T|]. apply Inv; [exact He|rewrite <- LF; exact Lt].
      * rewrite <- is_flagged_fl. eapply add_constraint_returned_flagged; [exact T|exact He|rewrite <- LF; exact Lt].
    + split; [congruence|exact A].
Qed.

Lemma fallback_readd_monotone : forall fuel pts tr d nc d' nc',
  fallback_readd fuel pts d nc tr = Some (d', nc') ->
  length (d_flags d') = length (d_flags d) /\ forall u, fl d u = true -> fl d' u = true.
Proof.
  intros fuel pts tr. induction tr as [|[from to] rest IH]; intros d nc d' nc' H; cbn [fallback_readd] in H.
  - inversion H; subst. split; [reflexivity|tauto].
  - destruct (try_add_constraint_inner pts fuel d from to) as [[|d1 k es]|] eqn:T; [exact (IH _ _ _ _ H)| |discriminate].
    pose proof (add_constraint_Keep _ _ _ _ _ _ _ _ T) as (_ & _ & _ & LF).
    destruct (IH _ _ _ _ H) as (L & M). split; [congruence|].
    intros u Hu. apply M. eapply add_constraint_flags_monotone; [exact T|exact Hu].
Qed.

Lemma fallback_finish_returned_flagged : forall fuel st d' nc edges,
  fallback_finish fuel st = Some (d', nc, edges) ->
  forall e, In e edges -> as_undirected e < length (d_flags d') -> is_flagged d' e = true.
Proof.
  intros fuel [[[d nc0] vtc] tr] d' nc edges H e He Lt. unfold fallback_finish in H.
  destruct (pts_of d) as [pts|]; [|discriminate].
  destruct (fallback_connect fuel pts d nc0 vtc None []) as [[[d1 nc1] res]|] eqn:C; [|discriminate].
  destruct (fallback_readd fuel pts d1 nc1 tr) as [[d2 nc2]|] eqn:R; [|discriminate].
  inversion H; subst d2 nc2 res.
  destruct (fallback_connect_flagged _ _ _ _ _ _ _ _ _ _ C) as (_ & A); [intros x []|].
  destruct (fallback_readd_monotone _ _ _ _ _ _ _ R) as (L & M).
  rewrite is_flagged_fl. apply M. apply A; [exact He|rewrite <- L; exact Lt].
Qed.

(* whatever add_constraint_and_split returns: every returned edge (that is an edge index of the new state) is a constraint edge of the new state *)
Theorem split_outcomes_returned_flagged : forall f32 payload fuel starts d va vb outs d' nc edges,
  split_outcomes f32 payload fuel starts d va vb = Some outs -> In (d', nc, edges) outs ->
  forall e, In e edges -> as_undirected e < length (d_flags d') -> is_flagged d' e = true.
Proof.
  intros f32 payload fuel starts d va vb outs d' nc edges H Hin. unfold split_outcomes in H.
  destruct ((Raw.num_vertices d <=? va) || (Raw.num_vertices d <=? vb)); [discriminate|].
  destruct (pts_of d) as [pts|]; [|discriminate].
  destruct (get_conflict_resolutions_split f32 fuel pts d va vb) as [[regions intact]|]; [|discriminate].
  destruct intact.
  - destruct (resolve_conflict_groups_split payload fuel d vb regions) as [o|] eqn:R; [|discriminate].
    inversion H; subst outs. destruct Hin as [E|[]]. subst o. eapply fast_path_returned_flagged; exact R.
  - inversion H; subst outs. unfold fallback in Hin. apply in_flat_map in Hin. destruct Hin as (st & Hst & Hin).
    destruct (fallback_finish fuel st) as [o|] eqn:Fi; [|destruct Hin]. destruct Hin as [E|[]]. subst o.
    eapply fallback_finish_returned_flagged; exact Fi.
Qed.

(* the deliverable's function *)
Corollary add_constraint_and_split_with_props : forall f32 payload fuel d va vb d' bits edges,
  add_constraint_and_split_with f32 payload fuel d va vb = Some (d', bits, edges) ->
  VGrow payload d d' /\ bits = bits_of_dcel d' /\
  forall e, In e edges -> as_undirected e < length (d_flags d') -> is_flagged d' e = true.
Proof.
  intros f32 payload fuel d va vb d' bits edges H. unfold add_constraint_and_split_with in H.
  destruct (split_outcomes f32 payload fuel (fun _ => [0]) d va vb) as [[|[[d1 nc1] es] rest]|] eqn:S; try discriminate.
  inversion H; subst d1 bits es.
  split; [eapply split_outcomes_vertices; [exact S|left; reflexivity]|]. split; [reflexivity|].
  eapply split_outcomes_returned_flagged; [exact S|left; reflexivity].
Qed.

(* the function with the task's signature: bits must be the positions of d's vertex table; harness constructor (payload 888000) *)
Corollary add_constraint_and_split_props : forall f32 bits fuel d va vb d' bits' edges,
  add_constraint_and_split f32 bits fuel d va vb = Some (d', bits', edges) ->
  VGrow 888000 d d' /\ bits' = bits_of_dcel d' /\
  forall e, In e edges -> as_undirected e < length (d_flags d') -> is_flagged d' e = true.
Proof.
  intros f32 bits fuel d va vb d' bits' edges H. unfold add_constraint_and_split in H.
  destruct (bits_agree bits d); [|discriminate]. eapply add_constraint_and_split_with_props; exact H.
Qed.

(* ================================================================================================ *)
(* PART 4.  where the new vertices are                                                               *)
(* ================================================================================================ *)

(* every region that ends in a new split vertex was made for a constraint edge of the old state that the iterator reported, and its position
   is what the resolver (the IEEE computation of Tri/AddSplitFloat.v) returned for that edge *)
Definition SplitAt (f32 : bool) (d : dcel) (va vb : nat) (p : Z * Z) (e : nat) : Prop :=
  is_flagged d e = true /\ resolver f32 d va vb e = Some p.

Lemma collect_split_positions : forall f32 fuel pts d va vb k cur group ignored acc intact regions intact',
  collect_split f32 fuel pts d va vb k cur group ignored acc intact = Some (regions, intact') ->
  (forall g p e, In (g, SESplit (inl p) e) acc -> SplitAt f32 d va vb p e) ->
  forall g p e, In (g, SESplit (inl p) e) regions -> SplitAt f32 d va vb p e.
Proof.
  intros f32 fuel pts d va vb k. induction k as [|k IH]; intros cur group ignored acc intact regions intact' H Inv.
  - destruct cur as [it|]; cbn [collect_split] in H; [discriminate|]. inversion H; subst. exact Inv.
  - destruct cur as [it|]; cbn [collect_split] in H; [|inversion H; subst; exact Inv].
    destruct (get_next pts d (vpos pts va) (vpos pts vb) fuel it) as [nx|]; [|discriminate].
    destruct it as [e|v|e].
    + destruct (is_flagged d e) eqn:Fl; cbn [negb] in H; [|exact (IH _ _ _ _ _ _ _ H Inv)].
      destruct (resolver f32 d va vb e) as [p|] eqn:Rs; [|discriminate].
      destruct (verify_split_position d e p) as [[ov valid]|]; [|discriminate].
      apply (IH _ _ _ _ _ _ _ H). intros g q x Hin. apply in_app_or in Hin. destruct Hin as [Hin|[Hin|[]]]; [exact (Inv _ _ _ Hin)|].
      destruct ov as [h|]; inversion Hin; subst. split; [exact Fl|exact Rs].
    + destruct (opt_eqb ignored v); [exact (IH _ _ _ _ _ _ _ H Inv)|].
      apply (IH _ _ _ _ _ _ _ H). intros g q x Hin. apply in_app_or in Hin. destruct Hin as [Hin|[Hin|[]]]; [exact (Inv _ _ _ Hin)|discriminate].
    + apply (IH _ _ _ _ _ _ _ H). intros g q x Hin. apply in_app_or in Hin. destruct Hin as [Hin|[Hin|[]]]; [exact (Inv _ _ _ Hin)|discriminate].
Qed.

Theorem split_regions_positions : forall f32 fuel pts d va vb regions intact,
  get_conflict_resolutions_split f32 fuel pts d va vb = Some (regions, intact) ->
  forall g p e, In (g, SESplit (inl p) e) regions -> SplitAt f32 d va vb p e.
Proof.
  intros f32 fuel pts d va vb regions intact H. unfold get_conflict_resolutions_split in H.
  eapply collect_split_positions; [exact H|]. intros g p e [].
Qed.

(* ---- link to the observed-state vocabulary of Cdt/SplitProp.v: a table that only got longer is an unchanged prefix ---- *)
Lemma vtable_app_nth : forall d d' l i, vtable d' = vtable d ++ l -> i < length (d_verts d) ->
  vproj (nth i (d_verts d') dflt_v) = vproj (nth i (d_verts d) dflt_v).
Proof.
  intros d d' l i H Hi. rewrite <- !vtable_nth. rewrite H. apply app_nth1. rewrite vtable_length. exact Hi.
Qed.

(* PrefixUnchanged (Cdt/SplitProp.v; what Check/Run.v decides on the implementation's states under tag `split`) for observed states whose
   DCELs are related as on the fast path *)
From SpadeV Require Cdt.SplitProp.
Theorem prefix_unchanged_of_vtable_app : forall (p n : obs) l,
  vtable (dcel_of_obs n) = vtable (dcel_of_obs p) ++ l -> Cdt.SplitProp.PrefixUnchanged p n.
Proof.
  intros p n l H. unfold Cdt.SplitProp.PrefixUnchanged, nV.
  assert (Len : length (o_verts n) = length (o_verts p) + length l).
  { pose proof (f_equal (@length _) H) as E. rewrite app_length, !vtable_length in E. exact E. }
  split; [lia|]. intros i Hi.
  pose proof (vtable_app_nth (dcel_of_obs p) (dcel_of_obs n) l i H Hi) as E. cbn [dcel_of_obs d_verts] in E.
  destruct (vproj_inj _ _ E) as (X & Y & D). repeat split; congruence.
Qed.
