(* Tri/Insert.v -- hand-written model of incremental insertion into a two-dimensional triangulation
   (TriangulationExt::insert_with_hint_option_impl, insert_into_face, insert_on_edge, insert_outside_of_convex_hull,
   legalize_vertex in triangulation_ext.rs), written over the GENERATED primitives (Gen/DcelOps.v) and the legalization
   model (Tri/Legalize.v).  The location of the new position is a parameter: the model covers what happens *after* point
   location.  Loops carry explicit fuel (None = out of fuel).  Definitions only.
   Tie to the code: for every successful `insert` into a two-dimensional state the model is run for every location that
   the exact specification allows (the face containing the point; either direction of the edge containing it; every outer
   half-edge that has the point strictly on its left) and one of the results must equal the implementation's DCEL,
   index for index (Check/RunModel.v, tag corr). *)
From Coq Require Import ZArith List Bool Arith.
From SpadeV Require Import Geom.Pred Obs.State Vmap.Model Dcel.Raw Gen.DcelOps Query.Hull Tri.Legalize.
Import ListNotations.

Inductive iloc := IOnFace (f : nat) | IOnEdge (e : nat) | IOutside (e : nat) | IOnVertex (v : nat).

Section I.
Variable pts : list pnt.            (* exact positions by vertex index, INCLUDING the new vertex at index = old vertex count *)
Variable fuel : nat.

Definition d_ccw (d : dcel) (e : nat) : nat := e_rev (e_prev d e).
Definition is_outer (d : dcel) (e : nat) : bool := e_face d e =? 0.
Definition left_of (d : dcel) (e : nat) (p : pnt) : bool :=
  (0 <? orient (vpos pts (e_origin d e)) (vpos pts (e_to d e)) p)%Z.

(* legalize_vertex: the edges opposite to the new vertex, collected first, then legalized one after the other *)
Definition legalize_vertex (d : dcel) (v : nat) : option dcel :=
  match v_out_edge d v with
  | None => Some d
  | Some a =>
    match circ_iter (d_ccw d) (num_directed_edges d) a a with
    | None => None
    | Some outs =>
      let edges := map (e_next d) (filter (fun e => negb (is_outer d e)) outs) in
      fold_left (fun acc e => match acc with
                              | Some d' => option_map fst (legalize_edge pts fuel d' e false)
                              | None => None end) edges (Some d)
    end
  end.

(* insert_on_edge *)
Definition insert_on_edge (d : dcel) (e : nat) (v : vdata) : dcel * (nat * (nat * nat)) :=
  if is_outer d e then
    let '(d', (nv, (e0, e1))) := split_half_edge d (e_rev e) v in (d', (nv, (e_rev e1, e_rev e0)))
  else if is_outer d (e_rev e) then split_half_edge d e v
  else split_edge d e v.

Definition set_flag (d : dcel) (e : nat) : dcel :=
  mkdcel (d_verts d) (d_hedges d) (d_faces d) (set_nth (as_undirected e) true (d_flags d)).

(* the ccw walk of insert_outside_of_convex_hull *)
Fixpoint hull_walk_ccw (k : nat) (d : dcel) (cur : nat) (p : pnt) : option dcel :=
  match k with
  | O => None
  | S k' =>
    let prev := e_prev d cur in
    if left_of d prev p then
      let '(d1, new_edge) := create_single_face_between_edge_and_next d prev in
      match legalize_edge pts fuel d1 prev false with
      | Some (d2, _) => hull_walk_ccw k' d2 new_edge p
      | None => None
      end
    else Some d
  end.
Fixpoint hull_walk_cw (k : nat) (d : dcel) (cur : nat) (p : pnt) : option dcel :=
  match k with
  | O => None
  | S k' =>
    let nxt := e_next d cur in
    if left_of d nxt p then
      let '(d1, new_edge) := create_single_face_between_edge_and_next d cur in
      match legalize_edge pts fuel d1 nxt false with
      | Some (d2, _) => hull_walk_cw k' d2 new_edge p
      | None => None
      end
    else Some d
  end.

Definition insert_outside (d : dcel) (e : nat) (v : vdata) (p : pnt) : option dcel :=
  let '(d1, _) := create_new_face_adjacent_to_edge d e v in
  let ccw_start := e_rev (e_prev d1 e) in
  let cw_start := e_rev (e_next d1 e) in
  match legalize_edge pts fuel d1 e false with
  | None => None
  | Some (d2, _) =>
    match hull_walk_ccw fuel d2 ccw_start p with
    | None => None
    | Some d3 => hull_walk_cw fuel d3 cw_start p
    end
  end.

(* the two-dimensional branch of insert_with_hint_option_impl *)
Definition insert_2d (d : dcel) (loc : iloc) (v : vdata) : option dcel :=
  let nv := Raw.num_vertices d in
  let p := vpos pts nv in
  match loc with
  | IOnFace f =>
      let '(d1, h) := insert_into_triangle d v f in legalize_vertex d1 h
  | IOnEdge e =>
      let '(d1, (h, (e0, e1))) := insert_on_edge d e v in
      let d2 := if is_flagged d1 e then set_flag (set_flag d1 e0) e1 else d1 in     (* handle_legal_edge_split *)
      legalize_vertex d2 h
  | IOutside e => insert_outside d e v p
  | IOnVertex u =>
      let r := nth u (d_verts d) dflt_v in
      Some (mkdcel (set_nth u (mkv (vd_x v) (vd_y v) (vd_d v) (v_out r)) (d_verts d)) (d_hedges d) (d_faces d) (d_flags d))
  end.
End I.
