(* Tri/InsertLine.v -- model of insertion into the degenerate states of a triangulation (no vertex, one vertex, all vertices on
   one line): insert_first_vertex, TriangulationExt::insert_second_vertex, insert_when_all_vertices_on_line (triangulation_ext.rs),
   over the GENERATED primitives.  As in Tri/Insert.v the location is a parameter.  Definitions only. *)
From Coq Require Import ZArith List Bool Arith.
From SpadeV Require Import Geom.Pred Obs.State Vmap.Model Dcel.Raw Gen.DcelOps Tri.Legalize Tri.Insert.
Import ListNotations.

Inductive lloc :=
  | LFirst                      (* empty triangulation *)
  | LSecond                     (* exactly one vertex, different position *)
  | LOnVertex (v : nat)         (* existing position: overwrite *)
  | LOnEdge (e : nat)           (* strictly between the ends of a chain edge *)
  | LNotOnLine (e : nat)        (* off the line: a first face is created at edge e, which has the point on its left *)
  | LExtending (v : nat).       (* on the line beyond the end vertex v *)

Definition overwrite (d : dcel) (u : nat) (v : vdata) : dcel :=
  let r := nth u (d_verts d) dflt_v in
  mkdcel (set_nth u (mkv (vd_x v) (vd_y v) (vd_d v) (v_out r)) (d_verts d)) (d_hedges d) (d_faces d) (d_flags d).

Definition insert_line (pts : list pnt) (fuel : nat) (d : dcel) (loc : lloc) (v : vdata) : option dcel :=
  match loc with
  | LFirst => Some (fst (insert_first_vertex d v))
  | LSecond => Some (fst (insert_second_vertex d v))
  | LOnVertex u => Some (overwrite d u v)
  | LOnEdge e =>
      let flagged := is_flagged d e in
      let '(d1, ((e0, e1), _)) := split_edge_when_all_vertices_on_line d e v in
      Some (if flagged then set_flag (set_flag d1 e0) e1 else d1)          (* handle_legal_edge_split *)
  | LNotOnLine e => insert_outside pts fuel d e v (vpos pts (Raw.num_vertices d))
  | LExtending u => Some (fst (extend_line d u v))
  end.
