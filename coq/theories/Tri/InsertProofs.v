(* Tri/InsertProofs.v -- incremental insertion (Tri/Insert.v, model of insert_with_hint_option_impl after point
   location) preserves a well-formed, counter-clockwise triangulation (properties C01, C02, C05; family P11).

   PART 0  small helpers (ranges of circular iterators, option folds, geometry of a point on an open segment)
   PART 1  legalize_vertex                      (legalize_vertex_invariant)
   PART 2  insertion into a face                (insert_on_face_invariant)
   PART 3  insertion on an edge                 (insert_on_edge_invariant, insert_on_edge_hull_invariant)
   PART 4  insertion on an existing vertex      (insert_on_vertex_invariant)
   PART 5  insertion outside of the convex hull (insert_outside_invariant) *)
From Coq Require Import ZArith List Bool Arith Lia.
From SpadeV Require Import Geom.Pred Geom.Lemmas Obs.State Obs.Spec Obs.SpecProp Obs.SpecProofs Vmap.Model
  Dcel.Raw Dcel.WfCore Gen.DcelOps Dcel.ProofsFlip Query.Hull Tri.Legalize Tri.LegalizeProofs Tri.Insert.
From SpadeV Require Dcel.ProofsInsertTriangle Dcel.ProofsSplit Dcel.ProofsHull.
Import ListNotations.

(* ================================================================================================ *)
(* PART 0.  helpers                                                                                  *)
(* ================================================================================================ *)

Lemma circ_iter_range : forall (f : nat -> nat) n, (forall x, x < n -> f x < n) ->
  forall fuel cur final l, cur < n -> circ_iter f fuel cur final = Some l -> forall x, In x l -> x < n.
Proof.
  intros f n Hf fuel. induction fuel as [|k IH]; intros cur final l Hc Run x Hx.
  - cbn [circ_iter] in Run. discriminate.
  - cbn [circ_iter] in Run. destruct (f cur =? final).
    + injection Run as <-. destruct Hx as [<-|[]]. exact Hc.
    + destruct (circ_iter f k (f cur) final) as [l0|] eqn:E; [|discriminate].
      injection Run as <-. destruct Hx as [<-|Hx]; [exact Hc|].
      apply (IH (f cur) final l0 (Hf cur Hc) E x Hx).
Qed.

(* what legalization may change (the conclusion of legalize_invariant, as a relation) *)
Definition LegFrame (d d' : dcel) : Prop :=
  Raw.num_vertices d' = Raw.num_vertices d /\ Raw.num_undirected_edges d' = Raw.num_undirected_edges d
  /\ Raw.num_faces d' = Raw.num_faces d
  /\ d_flags d' = d_flags d
  /\ (forall v, v < Raw.num_vertices d -> let a := nth v (d_verts d') dflt_v in let b0 := nth v (d_verts d) dflt_v in
                v_x a = v_x b0 /\ v_y a = v_y b0 /\ v_data a = v_data b0)
  /\ (forall x, x < length (d_hedges d) -> (e_face d' x = 0 <-> e_face d x = 0)).

Lemma LegFrame_refl : forall d, LegFrame d d.
Proof. intros d. unfold LegFrame. repeat split; auto. Qed.

Lemma DWf_len_hedges : forall d, DWf d -> length (d_hedges d) = 2 * Raw.num_undirected_edges d.
Proof.
  intros d W. apply DWf_DW in W. pose proof (dw_even d W) as E. unfold Raw.num_undirected_edges. lia.
Qed.

Lemma LegFrame_trans : forall d1 d2 d3, DWf d1 -> DWf d2 -> LegFrame d1 d2 -> LegFrame d2 d3 -> LegFrame d1 d3.
Proof.
  intros d1 d2 d3 W1 W2 (A1 & A2 & A3 & A4 & A5 & A6) (B1 & B2 & B3 & B4 & B5 & B6).
  assert (L : length (d_hedges d2) = length (d_hedges d1)).
  { rewrite (DWf_len_hedges d1 W1), (DWf_len_hedges d2 W2). lia. }
  unfold LegFrame. split; [|split; [|split; [|split; [|split]]]].
  - congruence.
  - congruence.
  - congruence.
  - congruence.
  - intros v Hv. cbv zeta. destruct (A5 v Hv) as (X1 & X2 & X3).
    assert (Hv' : v < Raw.num_vertices d2) by (rewrite A1; exact Hv).
    destruct (B5 v Hv') as (Y1 & Y2 & Y3). cbv zeta in *. repeat split; congruence.
  - intros x Hx. rewrite B6 by (rewrite L; exact Hx). apply A6. exact Hx.
Qed.

(* ================================================================================================ *)
(* PART 1.  legalize_vertex                                                                          *)
(* ================================================================================================ *)

Lemma legalize_edge_frame : forall pts fuel d e fully d' b,
  DWf d -> FacesCcw (obs_of_dcel d) pts -> e < length (d_hedges d) ->
  legalize_edge pts fuel d e fully = Some (d', b) ->
  DWf d' /\ FacesCcw (obs_of_dcel d') pts /\ LegFrame d d'.
Proof.
  intros pts fuel d e fully d' b W FC He Run. unfold legalize_edge in Run.
  assert (Rng : forall x, In x [e] -> x < length (d_hedges d)) by (intros x [<-|[]]; exact He).
  destruct (legalize_invariant pts fuel fully d [e] false d' b W FC Rng Run) as (R1 & R2 & R3).
  split; [exact R1|split; [exact R2|exact R3]].
Qed.

Lemma legalize_fold_frame : forall pts fuel edges d d',
  DWf d -> FacesCcw (obs_of_dcel d) pts -> (forall e, In e edges -> e < length (d_hedges d)) ->
  fold_left (fun acc e => match acc with
                          | Some d0 => option_map fst (legalize_edge pts fuel d0 e false)
                          | None => None end) edges (Some d) = Some d' ->
  DWf d' /\ FacesCcw (obs_of_dcel d') pts /\ LegFrame d d'.
Proof.
  intros pts fuel edges. induction edges as [|e rest IH]; intros d d' W FC Rng Run.
  - cbn [fold_left] in Run. injection Run as <-. split; [exact W|split; [exact FC|apply LegFrame_refl]].
  - cbn [fold_left] in Run.
    destruct (legalize_edge pts fuel d e false) as [[d1 b1]|] eqn:E1.
    + cbn [option_map fst] in Run.
      assert (He : e < length (d_hedges d)) by (apply Rng; left; reflexivity).
      destruct (legalize_edge_frame pts fuel d e false d1 b1 W FC He E1) as (W1 & FC1 & F1).
      assert (L : length (d_hedges d1) = length (d_hedges d)).
      { rewrite (DWf_len_hedges d W), (DWf_len_hedges d1 W1). destruct F1 as (_ & F12 & _). lia. }
      assert (Rng1 : forall x, In x rest -> x < length (d_hedges d1)).
      { intros x Hx. rewrite L. apply Rng. right. exact Hx. }
      destruct (IH d1 d' W1 FC1 Rng1 Run) as (W' & FC' & F').
      split; [exact W'|split; [exact FC'|]].
      apply (LegFrame_trans d d1 d'); assumption.
    + cbn [option_map] in Run. exfalso.
      clear - Run. induction rest as [|x r IHr]; cbn [fold_left] in Run; [discriminate|auto].
Qed.

Theorem legalize_vertex_invariant : forall pts fuel d v d',
  DWf d -> FacesCcw (obs_of_dcel d) pts -> v < Raw.num_vertices d ->
  legalize_vertex pts fuel d v = Some d' ->
     DWf d' /\ FacesCcw (obs_of_dcel d') pts
  /\ Raw.num_vertices d' = Raw.num_vertices d /\ Raw.num_undirected_edges d' = Raw.num_undirected_edges d
  /\ Raw.num_faces d' = Raw.num_faces d
  /\ d_flags d' = d_flags d
  /\ (forall u, u < Raw.num_vertices d -> let a := nth u (d_verts d') dflt_v in let b0 := nth u (d_verts d) dflt_v in
                v_x a = v_x b0 /\ v_y a = v_y b0 /\ v_data a = v_data b0)
  /\ (forall x, x < length (d_hedges d) -> (e_face d' x = 0 <-> e_face d x = 0)).
Proof.
  intros pts fuel d v d' W FC Hv Run. unfold legalize_vertex in Run.
  pose proof W as W0. apply DWf_DW in W0.
  destruct (v_out_edge d v) as [a|] eqn:Ea.
  - destruct (circ_iter (d_ccw d) (num_directed_edges d) a a) as [outs|] eqn:Ec; [|discriminate].
    assert (Ha : a < length (d_hedges d)) by (apply (dw_vout_rng d W0 v Hv a Ea)).
    assert (Hccw : forall x, x < length (d_hedges d) -> d_ccw d x < length (d_hedges d)).
    { intros x Hx. unfold d_ccw, e_rev. apply dw_rev_lt; [exact W0|]. apply dw_prev_lt; assumption. }
    pose proof (circ_iter_range (d_ccw d) (length (d_hedges d)) Hccw _ a a outs Ha Ec) as Ro.
    assert (Rng : forall e, In e (map (e_next d) (filter (fun e0 => negb (is_outer d e0)) outs)) ->
                            e < length (d_hedges d)).
    { intros e He. apply in_map_iff in He. destruct He as (x & <- & Hx).
      apply filter_In in Hx. destruct Hx as (Hx & _). apply dw_next_lt; [exact W0|]. apply Ro. exact Hx. }
    destruct (legalize_fold_frame pts fuel _ d d' W FC Rng Run) as (W' & FC' & F').
    split; [exact W'|split; [exact FC'|exact F']].
  - injection Run as <-. split; [exact W|split; [exact FC|apply LegFrame_refl]].
Qed.

(* ================================================================================================ *)
(* PART 2.  insertion into a face                                                                    *)
(* ================================================================================================ *)

Module IT := ProofsInsertTriangle.

Section OnFace.
Variable pts : list pnt.
Variables (d : dcel) (v : vdata) (f0 e0 : nat).
Hypothesis W : DW d.
Hypothesis Hadj : f_adjacent d f0 = Some e0.
Hypothesis Hf0 : f0 <> 0.
Hypothesis Hf0lt : f0 < length (d_faces d).
Hypothesis EC : EdgesCcw pts d.

Notation n := (length (d_hedges d)).
Notation nv := (length (d_verts d)).
Notation e1 := (e_next d e0).
Notation e2 := (e_next d (e_next d e0)).
Notation q := (vpos pts (length (d_verts d))).
Notation pA := (vpos pts (e_origin d e0)).
Notation pB := (vpos pts (e_origin d (e_next d e0))).
Notation pC := (vpos pts (e_origin d (e_next d (e_next d e0)))).

Hypothesis HA : (0 < orient pA pB q)%Z.
Hypothesis HB : (0 < orient pB pC q)%Z.
Hypothesis HC : (0 < orient pC pA q)%Z.

Notation R := (IT.itt_result d v f0 e0).

Lemma of_ctx :
  length (d_flags d) * 2 = n /\ e0 < n /\ e1 < n /\ e2 < n /\ e0 <> e1 /\ e0 <> e2 /\ e1 <> e2 /\
  e_face d e0 = f0 /\ inner d e0 /\ e_prev d e0 = e2 /\ IT.DWf' d.
Proof.
  pose proof (dw_adj_rng d W f0 Hf0lt e0 Hadj) as He0.
  pose proof (dw_fptr d W f0 Hf0lt) as Fp. rewrite Hadj in Fp.
  assert (I0 : inner d e0) by (unfold inner; rewrite Fp; exact Hf0).
  destruct (dw_tri_facts d e0 W He0 I0) as (L1 & L2 & A1 & A2 & A3 & A4 & A5 & A6 & N1 & N2 & N3 & _).
  pose proof (dw_next_next d W e0 He0 I0) as NN.
  split; [apply (dw_even d W)|]. split; [exact He0|]. split; [exact L1|].
  split; [rewrite NN; exact L2|]. split; [auto|]. split; [rewrite NN; auto|]. split; [rewrite NN; exact N3|].
  split; [exact Fp|]. split; [exact I0|]. split; [symmetry; exact NN|].
  apply IT.DWf_iff. apply DWf_DW. exact W.
Qed.

Lemma of_edges_ccw : EdgesCcw pts R.
Proof.
  destruct of_ctx as (Hev & He0 & He1 & He2 & H01 & H02 & H12 & Hface0 & I0 & Pv0 & W').
  intros x Hx Ix. rewrite (IT.R_len d v f0 e0 Hev He0 He1 He2 H01 H02 H12) in Hx.
  unfold tri_orient.
  destruct (IT.he_cases d e0 Hev He0 He1 He2 H01 H02 H12 x Hx)
    as [->|[->|[->|[(Hn&N0&N1&N2)|[->|[->|[->|[->|[->| ->]]]]]]]]].
  - rewrite (IT.nx_e0 d v f0 e0), (IT.pv_e0 d v f0 e0), (IT.og_e0 d v f0 e0), (IT.og_n0 d v f0 e0),
      (IT.og_n5 d v f0 e0) by assumption. exact HA.
  - rewrite (IT.nx_e1 d v f0 e0), (IT.pv_e1 d v f0 e0), (IT.og_e1 d v f0 e0), (IT.og_n2 d v f0 e0),
      (IT.og_n1 d v f0 e0) by assumption. exact HB.
  - rewrite (IT.nx_e2 d v f0 e0), (IT.pv_e2 d v f0 e0), (IT.og_e2 d v f0 e0), (IT.og_n4 d v f0 e0),
      (IT.og_n3 d v f0 e0) by assumption. exact HC.
  - unfold inner in Ix. rewrite (IT.fc_other d v f0 e0 x) in Ix by assumption.
    destruct (IT.other_next d f0 e0 He0 He1 He2 W' Hface0 Hf0 x Hn N0 N1 N2) as (A0 & _).
    destruct (IT.other_prev d f0 e0 He0 W' Hface0 Hf0 x Hn N0 N1 N2) as (C0 & _).
    rewrite (IT.nx_other d v f0 e0 x), (IT.pv_other d v f0 e0 x) by assumption.
    rewrite !(IT.R_org_old d v f0 e0 He0 He1 He2 H01 H02 H12) by assumption.
    apply (EC x Hn Ix).
  - rewrite (IT.nx_n0 d v f0 e0), (IT.pv_n0 d v f0 e0), (IT.og_e0 d v f0 e0), (IT.og_n0 d v f0 e0),
      (IT.og_n5 d v f0 e0) by assumption. first [rewrite orient_cyclic; exact HA | rewrite orient_cyclic'; exact HA].
  - rewrite (IT.nx_n1 d v f0 e0), (IT.pv_n1 d v f0 e0), (IT.og_e1 d v f0 e0), (IT.og_n2 d v f0 e0),
      (IT.og_n1 d v f0 e0) by assumption. first [rewrite orient_cyclic; exact HB | rewrite orient_cyclic'; exact HB].
  - rewrite (IT.nx_n2 d v f0 e0), (IT.pv_n2 d v f0 e0), (IT.og_e1 d v f0 e0), (IT.og_n2 d v f0 e0),
      (IT.og_n1 d v f0 e0) by assumption. first [rewrite orient_cyclic; exact HB | rewrite orient_cyclic'; exact HB].
  - rewrite (IT.nx_n3 d v f0 e0), (IT.pv_n3 d v f0 e0), (IT.og_e2 d v f0 e0), (IT.og_n4 d v f0 e0),
      (IT.og_n3 d v f0 e0) by assumption. first [rewrite orient_cyclic; exact HC | rewrite orient_cyclic'; exact HC].
  - rewrite (IT.nx_n4 d v f0 e0), (IT.pv_n4 d v f0 e0), (IT.og_e2 d v f0 e0), (IT.og_n4 d v f0 e0),
      (IT.og_n3 d v f0 e0) by assumption. first [rewrite orient_cyclic; exact HC | rewrite orient_cyclic'; exact HC].
  - rewrite (IT.nx_n5 d v f0 e0), (IT.pv_n5 d v f0 e0), (IT.og_e0 d v f0 e0), (IT.og_n0 d v f0 e0),
      (IT.og_n5 d v f0 e0) by assumption. first [rewrite orient_cyclic; exact HA | rewrite orient_cyclic'; exact HA].
Qed.

Lemma of_closed : insert_into_triangle d v f0 = (R, nv).
Proof.
  destruct of_ctx as (Hev & He0 & He1 & He2 & H01 & H02 & H12 & _).
  apply IT.itt_closed_form; assumption.
Qed.
End OnFace.

Lemma face_tri_pts : forall pts d f a, f_adjacent d f = Some a ->
  tri_a (obs_of_dcel d) pts f = vpos pts (e_origin d a) /\
  tri_b (obs_of_dcel d) pts f = vpos pts (e_origin d (e_next d a)) /\
  tri_c (obs_of_dcel d) pts f = vpos pts (e_origin d (e_next d (e_next d a))).
Proof.
  intros pts d f a Ha. unfold tri_a, tri_b, tri_c, face_tri. rewrite obs_adj, Ha. cbn [fst snd].
  repeat split; reflexivity.
Qed.

Theorem insert_on_face_invariant : forall pts fuel d f v d',
  DWf d -> FacesCcw (obs_of_dcel d) pts -> 1 <= f -> f < Raw.num_faces d ->
  (* the new position q = vpos pts (num_vertices d) lies strictly inside face f *)
  (0 < orient (tri_a (obs_of_dcel d) pts f) (tri_b (obs_of_dcel d) pts f) (vpos pts (Raw.num_vertices d)))%Z ->
  (0 < orient (tri_b (obs_of_dcel d) pts f) (tri_c (obs_of_dcel d) pts f) (vpos pts (Raw.num_vertices d)))%Z ->
  (0 < orient (tri_c (obs_of_dcel d) pts f) (tri_a (obs_of_dcel d) pts f) (vpos pts (Raw.num_vertices d)))%Z ->
  insert_2d pts fuel d (IOnFace f) v = Some d' ->
     DWf d' /\ FacesCcw (obs_of_dcel d') pts
  /\ Raw.num_vertices d' = S (Raw.num_vertices d) /\ Raw.num_undirected_edges d' = Raw.num_undirected_edges d + 3
  /\ Raw.num_faces d' = Raw.num_faces d + 2
  /\ d_flags d' = d_flags d ++ [false; false; false]
  /\ (forall u, u < Raw.num_vertices d -> let a := nth u (d_verts d') dflt_v in let b := nth u (d_verts d) dflt_v in
                v_x a = v_x b /\ v_y a = v_y b /\ v_data a = v_data b)
  /\ (let a := nth (Raw.num_vertices d) (d_verts d') dflt_v in v_x a = vd_x v /\ v_y a = vd_y v /\ v_data a = vd_d v)
  /\ (forall x, x < length (d_hedges d) -> (e_face d' x = 0 <-> e_face d x = 0)).
Proof.
  intros pts fuel d f v d' Wf FC Hf1 Hf2 HA HB HC Run.
  pose proof Wf as W. apply DWf_DW in W. unfold Raw.num_faces in Hf2.
  pose proof (dw_fptr d W f Hf2) as Fp.
  destruct (f_adjacent d f) as [e0|] eqn:Hadj; [|lia]. clear Fp.
  destruct (face_tri_pts pts d f e0 Hadj) as (Ta & Tb & Tc). rewrite Ta, Tb in HA. rewrite Tb, Tc in HB. rewrite Tc, Ta in HC.
  assert (Hf0 : f <> 0) by lia.
  pose proof (faces_ccw_edges pts d W FC) as EC.
  pose proof (of_edges_ccw pts d v f e0 W Hadj Hf0 Hf2 EC HA HB HC) as EC1.
  pose proof (of_closed d v f e0 W Hadj Hf0 Hf2) as Cl.
  pose proof (IT.insert_into_triangle_wf d v f Wf Hf1 Hf2) as P. cbv zeta in P. rewrite Cl in P. cbn [fst snd] in P.
  destruct P as (W1 & _ & P1 & P2 & P3 & P4 & P5 & P6 & P7 & P8 & _).
  unfold insert_2d in Run. rewrite Cl in Run.
  set (R := IT.itt_result d v f e0) in *.
  assert (FC1 : FacesCcw (obs_of_dcel R) pts) by (apply edges_ccw_faces; [apply DWf_DW; exact W1|exact EC1]).
  assert (Hnv : length (d_verts d) < Raw.num_vertices R) by (rewrite P1; unfold Raw.num_vertices; lia).
  destruct (legalize_vertex_invariant pts fuel R _ d' W1 FC1 Hnv Run) as (W' & FC' & Q1 & Q2 & Q3 & Q4 & Q5 & Q6).
  split; [exact W'|]. split; [exact FC'|].
  split; [congruence|]. split; [congruence|]. split; [congruence|]. split; [congruence|].
  split.
  { intros u Hu. cbv zeta. assert (Hu' : u < Raw.num_vertices R) by (rewrite P1; lia).
    destruct (Q5 u Hu') as (X1 & X2 & X3). destruct (P6 u Hu) as (Y1 & Y2 & Y3). cbv zeta in *.
    repeat split; congruence. }
  split.
  { cbv zeta. destruct (Q5 _ Hnv) as (X1 & X2 & X3). cbv zeta in *.
    change (length (d_verts d)) with (Raw.num_vertices d) in X1, X2, X3.
    destruct P7 as (Y1 & Y2 & Y3). repeat split; congruence. }
  intros x Hx. rewrite Q6 by (rewrite P4; lia). apply P8. exact Hx.
Qed.

(* ================================================================================================ *)
(* PART 3.  insertion on an edge                                                                     *)
(* ================================================================================================ *)

(* --- a point on the open segment a b sees every apex on the same side as the segment does --- *)
Local Open Scope Z_scope.

Lemma orient_between : forall a b c q : pnt,
  orient a b q = 0 -> 0 < dot a b q -> dot a b q < dist2 a b -> 0 < orient a b c ->
  0 < orient a q c /\ 0 < orient q b c.
Proof.
  intros a b c q Hcol Hd1 Hd2 Habc.
  assert (I1 : dist2 a b * orient a q c = dot a b q * orient a b c - orient a b q * dot a b c) by geom_ring.
  assert (I2 : orient a b c = orient q b c + orient a q c + orient a b q) by geom_ring.
  rewrite Hcol in I1, I2.
  revert I1 I2 Hd1 Hd2 Habc.
  generalize (dist2 a b) (dot a b q) (orient a b c) (orient a q c) (orient q b c) (dot a b c).
  intros D t o1 o2 o3 dd I1 I2 Hd1 Hd2 Habc.
  assert (P1 : 0 < o2) by nia.
  split; [exact P1|]. nia.
Qed.

Lemma between_swap : forall a b q : pnt,
  orient a b q = 0 -> 0 < dot a b q -> dot a b q < dist2 a b ->
  orient b a q = 0 /\ 0 < dot b a q /\ dot b a q < dist2 b a.
Proof.
  intros a b q Hcol Hd1 Hd2.
  assert (I1 : orient b a q = - orient a b q) by geom_ring.
  assert (I2 : dot b a q = dist2 a b - dot a b q) by geom_ring.
  assert (I3 : dist2 b a = dist2 a b) by geom_ring.
  lia.
Qed.

Lemma strictly_between_swap : forall a b q : pnt, strictly_between a b q = true -> strictly_between b a q = true.
Proof.
  intros a b q H. apply strictly_between_spec in H. destruct H as (H1 & H2 & H3).
  apply strictly_between_spec. destruct (between_swap a b q H1 H2 H3) as (X1 & X2 & X3). lia.
Qed.

(* the four triangles around a point q on the open segment A B with apexes C (left) and D (right) *)
Lemma split_geometry : forall A B C D q : pnt,
  strictly_between A B q = true -> 0 < orient A B C -> 0 < orient B A D ->
  0 < orient A q C /\ 0 < orient q B C /\ 0 < orient B q D /\ 0 < orient q A D.
Proof.
  intros A B C D q SB H1 H2. apply strictly_between_spec in SB. destruct SB as (S1 & S2 & S3).
  destruct (orient_between A B C q S1 S2 S3 H1) as (G1 & G2).
  destruct (between_swap A B q S1 S2 S3) as (T1 & T2 & T3).
  destruct (orient_between B A D q T1 T2 T3 H2) as (G3 & G4).
  auto.
Qed.
Local Close Scope Z_scope.

(* --- set_flag touches nothing but the flag table --- *)
Lemma set_flag_DW : forall d x, DW d -> DW (set_flag d x).
Proof.
  intros d x W. constructor.
  - unfold set_flag. cbn [d_flags d_hedges]. rewrite snth_length. apply (dw_even d W).
  - exact (dw_face1 d W).
  - exact (dw_rng d W).
  - exact (dw_vout_rng d W).
  - exact (dw_adj_rng d W).
  - exact (dw_links d W).
  - exact (dw_fptr d W).
  - exact (dw_vptr d W).
  - exact (dw_tri d W).
Qed.

Lemma set_flag_edges_ccw : forall pts d x, EdgesCcw pts d -> EdgesCcw pts (set_flag d x).
Proof. intros pts d x EC. exact EC. Qed.

Lemma set_nth_same : forall A i (x : A) l dd, nth i l dd = x -> i < length l -> set_nth i x l = l.
Proof.
  intros A i x l dd. revert i. induction l as [|h t IH]; intros [|i] H L; cbn [set_nth nth length] in *; try lia.
  - congruence.
  - f_equal. apply IH; [exact H|lia].
Qed.

Lemma set_nth_app2 : forall A i (x : A) l l', set_nth (length l + i) x (l ++ l') = l ++ set_nth i x l'.
Proof.
  intros A i x l l'. induction l as [|h t IH]; cbn [length app set_nth Nat.add]; [reflexivity|].
  f_equal. exact IH.
Qed.

Module SP := ProofsSplit.

(* --- split_edge: every inner half-edge of the result sees a counter-clockwise triple --- *)
Section OnEdgeSE.
Variable pts : list pnt.
Variables (d : dcel) (e0 t0 en ep tn tp e1 t1 e2 t2 e3 t3 f0 f1 f2 f3 v0 v1 v2 v3 v4 : nat) (nvd : vdata).
Hypothesis C : SP.SEctx d e0 t0 en ep tn tp e1 t1 e2 t2 e3 t3 f0 f1 f2 f3 v0 v1 v2 v3 v4.
Notation d' := (SP.se_chain d e0 t0 e1 t1 e2 t2 e3 t3 ep en tn tp f0 f1 f2 f3 v0 v1 v2 v3 v4 nvd).
Hypothesis EC : EdgesCcw pts d.
Notation pA := (vpos pts v1).
Notation pB := (vpos pts v3).
Notation pC := (vpos pts v4).
Notation pD := (vpos pts v2).
Notation q := (vpos pts v0).
Hypothesis G1 : (0 < orient pA q pC)%Z.
Hypothesis G2 : (0 < orient q pB pC)%Z.
Hypothesis G3 : (0 < orient pB q pD)%Z.
Hypothesis G4 : (0 < orient q pA pD)%Z.

Ltac se_rw :=
  unfold tri_orient, e_next, e_prev, e_origin;
  repeat progress (rewrite
    ?(SP.se_he_e0 _ _ _ _ _ _ _ _ _ _ _ _ _ _ _ _ _ _ _ _ _ _ nvd C), ?(SP.se_he_t0 _ _ _ _ _ _ _ _ _ _ _ _ _ _ _ _ _ _ _ _ _ _ nvd C),
    ?(SP.se_he_e1 _ _ _ _ _ _ _ _ _ _ _ _ _ _ _ _ _ _ _ _ _ _ nvd C), ?(SP.se_he_t1 _ _ _ _ _ _ _ _ _ _ _ _ _ _ _ _ _ _ _ _ _ _ nvd C),
    ?(SP.se_he_e2 _ _ _ _ _ _ _ _ _ _ _ _ _ _ _ _ _ _ _ _ _ _ nvd C), ?(SP.se_he_t2 _ _ _ _ _ _ _ _ _ _ _ _ _ _ _ _ _ _ _ _ _ _ nvd C),
    ?(SP.se_he_e3 _ _ _ _ _ _ _ _ _ _ _ _ _ _ _ _ _ _ _ _ _ _ nvd C), ?(SP.se_he_t3 _ _ _ _ _ _ _ _ _ _ _ _ _ _ _ _ _ _ _ _ _ _ nvd C),
    ?(SP.se_he_en _ _ _ _ _ _ _ _ _ _ _ _ _ _ _ _ _ _ _ _ _ _ nvd C), ?(SP.se_he_tp _ _ _ _ _ _ _ _ _ _ _ _ _ _ _ _ _ _ _ _ _ _ nvd C),
    ?(SP.se_he_tn _ _ _ _ _ _ _ _ _ _ _ _ _ _ _ _ _ _ _ _ _ _ nvd C), ?(SP.se_he_ep _ _ _ _ _ _ _ _ _ _ _ _ _ _ _ _ _ _ _ _ _ _ nvd C);
    cbn [h_next h_prev h_face h_org]).

Ltac geo_close :=
  first [ assumption | rewrite orient_cyclic; assumption | rewrite orient_cyclic'; assumption ].

Lemma se_edges_ccw : EdgesCcw pts d'.
Proof.
  intros x Hx Ix. rewrite SP.se_len in Hx.
  destruct (SP.se_classify _ _ _ _ _ _ _ _ _ _ _ _ _ _ _ _ _ _ _ _ _ _ C x Hx)
    as [->|[->|[->|[->|[->|[->|[->|[->|[->|[->|[->|[->|O]]]]]]]]]]]].
  1-12: se_rw; geo_close.
  pose proof (SP.se_other_next _ _ _ _ _ _ _ _ _ _ _ _ _ _ _ _ _ _ _ _ _ _ C x O) as On.
  pose proof (SP.se_other_prev _ _ _ _ _ _ _ _ _ _ _ _ _ _ _ _ _ _ _ _ _ _ C x O) as Op.
  unfold inner in Ix. rewrite (SP.se_face_other _ _ _ _ _ _ _ _ _ _ _ _ _ _ _ _ _ _ _ _ _ _ nvd C x O) in Ix.
  unfold tri_orient.
  rewrite (SP.se_next_other _ _ _ _ _ _ _ _ _ _ _ _ _ _ _ _ _ _ _ _ _ _ nvd C x O),
          (SP.se_prev_other _ _ _ _ _ _ _ _ _ _ _ _ _ _ _ _ _ _ _ _ _ _ nvd C x O).
  rewrite (SP.se_org_other _ _ _ _ _ _ _ _ _ _ _ _ _ _ _ _ _ _ _ _ _ _ nvd C x O),
          (SP.se_org_other _ _ _ _ _ _ _ _ _ _ _ _ _ _ _ _ _ _ _ _ _ _ nvd C _ On),
          (SP.se_org_other _ _ _ _ _ _ _ _ _ _ _ _ _ _ _ _ _ _ _ _ _ _ nvd C _ Op).
  apply (EC x (SP.se_other_lt _ _ _ _ _ _ _ x O) Ix).
Qed.
End OnEdgeSE.

(* --- split_half_edge: the same for the hull variant --- *)
Section OnEdgeSH.
Variable pts : list pnt.
Variables (d : dcel) (e t en ep tp tn e1 t1 e2 t2 f1 tf nf nv v to_ from : nat) (nvd : vdata).
Hypothesis C : SP.SHctx d e t en ep tp tn e1 t1 e2 t2 f1 tf nf nv v to_ from.
Notation d' := (SP.sh_chain d e t en ep tp e1 t1 e2 t2 f1 tf nf nv v to_ nvd).
Hypothesis EC : EdgesCcw pts d.
Notation pA := (vpos pts from).
Notation pB := (vpos pts to_).
Notation pC := (vpos pts v).
Notation q := (vpos pts nv).
Hypothesis G1 : (0 < orient pA q pC)%Z.
Hypothesis G2 : (0 < orient q pB pC)%Z.

Ltac sh_rw :=
  unfold tri_orient, e_next, e_prev, e_origin;
  repeat progress (rewrite
    ?(SP.sh_he_e _ _ _ _ _ _ _ _ _ _ _ _ _ _ _ _ _ _ nvd C), ?(SP.sh_he_en _ _ _ _ _ _ _ _ _ _ _ _ _ _ _ _ _ _ nvd C),
    ?(SP.sh_he_ep _ _ _ _ _ _ _ _ _ _ _ _ _ _ _ _ _ _ nvd C), ?(SP.sh_he_e1 _ _ _ _ _ _ _ _ _ _ _ _ _ _ _ _ _ _ nvd C),
    ?(SP.sh_he_t1 _ _ _ _ _ _ _ _ _ _ _ _ _ _ _ _ _ _ nvd C), ?(SP.sh_he_e2 _ _ _ _ _ _ _ _ _ _ _ _ _ _ _ _ _ _ nvd C);
    cbn [h_next h_prev h_face h_org]).

Ltac geo_close :=
  first [ assumption | rewrite orient_cyclic; assumption | rewrite orient_cyclic'; assumption ].

Lemma sh_edges_ccw : EdgesCcw pts d'.
Proof.
  intros x Hx Ix. rewrite SP.sh_len in Hx.
  destruct (SP.sh_classify _ _ _ _ _ _ _ _ _ _ _ _ _ _ _ _ _ _ C x Hx)
    as [->|[->|[->|[->|[->|[->|[->|[->|[->|O]]]]]]]]].
  - sh_rw; geo_close.
  - exfalso. apply Ix. unfold e_face. rewrite (SP.sh_he_t _ _ _ _ _ _ _ _ _ _ _ _ _ _ _ _ _ _ nvd C). reflexivity.
  - sh_rw; geo_close.
  - sh_rw; geo_close.
  - exfalso. apply Ix. unfold e_face. rewrite (SP.sh_he_tp _ _ _ _ _ _ _ _ _ _ _ _ _ _ _ _ _ _ nvd C). reflexivity.
  - sh_rw; geo_close.
  - sh_rw; geo_close.
  - sh_rw; geo_close.
  - exfalso. apply Ix. unfold e_face. rewrite (SP.sh_he_t2 _ _ _ _ _ _ _ _ _ _ _ _ _ _ _ _ _ _ nvd C). reflexivity.
  - pose proof (SP.sh_he_other _ _ _ _ _ _ _ _ _ _ _ _ _ _ _ _ _ _ nvd C x O) as Ho.
    pose proof (SP.hc_wf _ _ _ _ _ _ _ _ _ _ _ _ _ _ _ _ _ _ C) as RW.
    pose proof (SP.hc_fc _ _ _ _ _ _ _ _ _ _ _ _ _ _ _ _ _ _ C) as (_ & _ & _ & Ft & _).
    assert (Hlt : x < length (d_hedges d)) by apply O.
    assert (Ix0 : inner d x).
    { unfold inner, e_face in *. rewrite Ho in Ix. exact Ix. }
    assert (Nn : e_next d x <> t).
    { intro E. apply Ix0. rewrite <- (SP.rw_face_next d RW x Hlt), E. exact Ft. }
    assert (Np : e_prev d x <> t).
    { intro E. apply Ix0. rewrite <- (SP.rw_face_prev d RW x Hlt), E. exact Ft. }
    assert (Nx : x <> t) by (intro E; apply Ix0; rewrite E; exact Ft).
    unfold tri_orient.
    replace (e_next d' x) with (e_next d x) by (unfold e_next; rewrite Ho; reflexivity).
    replace (e_prev d' x) with (e_prev d x) by (unfold e_prev; rewrite Ho; reflexivity).
    rewrite (SP.sh_org_old _ _ _ _ _ _ _ _ _ _ _ _ _ _ _ _ _ _ nvd C x Hlt Nx).
    rewrite (SP.sh_org_old _ _ _ _ _ _ _ _ _ _ _ _ _ _ _ _ _ _ nvd C _ (SP.rw_next_lt d RW x Hlt) Nn).
    rewrite (SP.sh_org_old _ _ _ _ _ _ _ _ _ _ _ _ _ _ _ _ _ _ nvd C _ (SP.rw_prev_lt d RW x Hlt) Np).
    apply (EC x Hlt Ix0).
Qed.
End OnEdgeSH.

(* --- the two primitives keep all faces counter-clockwise when the new position lies on the open edge --- *)
Lemma edge_apex_orient : forall pts d e, DW d -> EdgesCcw pts d -> e < length (d_hedges d) -> inner d e ->
  (0 < orient (vpos pts (e_origin d e)) (vpos pts (e_origin d (rev e))) (vpos pts (e_origin d (e_prev d e))))%Z.
Proof.
  intros pts d e W EC He Ie. pose proof (EC e He Ie) as P. unfold tri_orient in P.
  rewrite (dw_org_next d W e He) in P. exact P.
Qed.

Lemma split_edge_ccw : forall pts d e v, DWf d -> FacesCcw (obs_of_dcel d) pts -> e < length (d_hedges d) ->
  inner d e -> inner d (rev e) ->
  strictly_between (vpos pts (e_origin d e)) (vpos pts (e_to d e)) (vpos pts (Raw.num_vertices d)) = true ->
  FacesCcw (obs_of_dcel (fst (split_edge d e v))) pts.
Proof.
  intros pts d e v Wf FC He Ie It SB.
  pose proof Wf as W. apply DWf_DW in W.
  pose proof (faces_ccw_edges pts d W FC) as EC.
  destruct (SP.split_edge_wf d e v Wf He Ie It) as (W1 & _).
  apply edges_ccw_faces; [apply DWf_DW; exact W1|].
  rewrite SP.split_edge_unfold. cbn [fst].
  pose proof (SP.SEctx_intro d e (SP.DWf_RWf d Wf) He Ie It) as C.
  pose proof (edge_apex_orient pts d e W EC He Ie) as O1.
  pose proof (edge_apex_orient pts d (rev e) W EC (dw_rev_lt d W e He) It) as O2. rewrite rev_rev in O2.
  unfold e_to, e_rev in SB.
  destruct (split_geometry _ _ _ _ _ SB O1 O2) as (G1 & G2 & G3 & G4).
  apply (se_edges_ccw pts _ _ _ _ _ _ _ _ _ _ _ _ _ _ _ _ _ _ _ _ _ _ v C EC); assumption.
Qed.

Lemma split_half_edge_ccw : forall pts d e v, DWf d -> FacesCcw (obs_of_dcel d) pts -> e < length (d_hedges d) ->
  inner d e -> outer d (rev e) ->
  strictly_between (vpos pts (e_origin d e)) (vpos pts (e_to d e)) (vpos pts (Raw.num_vertices d)) = true ->
  FacesCcw (obs_of_dcel (fst (split_half_edge d e v))) pts.
Proof.
  intros pts d e v Wf FC He Ie Ot SB.
  pose proof Wf as W. apply DWf_DW in W.
  pose proof (faces_ccw_edges pts d W FC) as EC.
  destruct (SP.split_half_edge_wf d e v Wf He Ie Ot) as (W1 & _).
  apply edges_ccw_faces; [apply DWf_DW; exact W1|].
  rewrite SP.split_half_edge_unfold. cbn [fst].
  pose proof (SP.SHctx_intro d e (SP.DWf_RWf d Wf) He Ie Ot) as C.
  pose proof (edge_apex_orient pts d e W EC He Ie) as O1.
  unfold e_to, e_rev in SB. apply strictly_between_spec in SB. destruct SB as (S1 & S2 & S3).
  destruct (orient_between _ _ _ _ S1 S2 S3 O1) as (G1 & G2).
  apply (sh_edges_ccw pts _ _ _ _ _ _ _ _ _ _ _ _ _ _ _ _ _ _ v C EC); assumption.
Qed.

(* --- handle_legal_edge_split + legalize_vertex --- *)
Lemma on_edge_finish : forall pts fuel d1 e a0 a1 h d',
  DWf d1 -> FacesCcw (obs_of_dcel d1) pts -> h < Raw.num_vertices d1 ->
  legalize_vertex pts fuel (if is_flagged d1 e then set_flag (set_flag d1 a0) a1 else d1) h = Some d' ->
     DWf d' /\ FacesCcw (obs_of_dcel d') pts
  /\ Raw.num_vertices d' = Raw.num_vertices d1 /\ Raw.num_undirected_edges d' = Raw.num_undirected_edges d1
  /\ Raw.num_faces d' = Raw.num_faces d1
  /\ d_flags d' = (if is_flagged d1 e then set_nth (Nat.div2 a1) true (set_nth (Nat.div2 a0) true (d_flags d1)) else d_flags d1)
  /\ (forall u, u < Raw.num_vertices d1 -> let a := nth u (d_verts d') dflt_v in let b0 := nth u (d_verts d1) dflt_v in
                v_x a = v_x b0 /\ v_y a = v_y b0 /\ v_data a = v_data b0)
  /\ (forall x, x < length (d_hedges d1) -> (e_face d' x = 0 <-> e_face d1 x = 0)).
Proof.
  intros pts fuel d1 e a0 a1 h d' Wf FC Hh Run.
  destruct (is_flagged d1 e).
  - set (d2 := set_flag (set_flag d1 a0) a1) in *.
    pose proof Wf as W. apply DWf_DW in W.
    assert (W2 : DW d2) by (apply set_flag_DW, set_flag_DW; exact W).
    assert (FC2 : FacesCcw (obs_of_dcel d2) pts).
    { apply edges_ccw_faces; [exact W2|]. apply set_flag_edges_ccw, set_flag_edges_ccw.
      apply faces_ccw_edges; assumption. }
    apply DWf_DW in W2.
    destruct (legalize_vertex_invariant pts fuel d2 h d' W2 FC2 Hh Run) as (R1 & R2 & R3 & R4 & R5 & R6 & R7 & R8).
    split; [exact R1|]. split; [exact R2|]. split; [exact R3|].
    split; [rewrite R4; unfold d2, set_flag, Raw.num_undirected_edges; cbn [d_flags]; rewrite !snth_length; reflexivity|].
    split; [exact R5|]. split; [exact R6|]. split; [exact R7|exact R8].
  - apply (legalize_vertex_invariant pts fuel d1 h d' Wf FC Hh Run).
Qed.

Lemma div2_odd_double : forall k, Nat.div2 (2 * k + 1) = k.
Proof. intro k. replace (2 * k + 1) with (S (2 * k)) by lia. apply Nat.div2_succ_double. Qed.

Lemma flag_pair : forall (fl extra : list bool) i,
  nth i fl false = true -> i < length fl ->
  set_nth i true (set_nth (length fl + 1) true (fl ++ extra)) = fl ++ set_nth 1 true extra /\
  set_nth (length fl + 1) true (set_nth i true (fl ++ extra)) = fl ++ set_nth 1 true extra.
Proof.
  intros fl extra i Hi Li. split.
  - rewrite set_nth_app2. apply (set_nth_same _ i true _ false).
    + rewrite app_nth1 by exact Li. exact Hi.
    + rewrite app_length. lia.
  - rewrite (set_nth_same _ i true (fl ++ extra) false).
    + apply set_nth_app2.
    + rewrite app_nth1 by exact Li. exact Hi.
    + rewrite app_length. lia.
Qed.

Lemma is_flagged_app : forall d d1 extra e, DWf d -> e < length (d_hedges d) -> d_flags d1 = d_flags d ++ extra ->
  is_flagged d1 e = is_flagged d e /\ Nat.div2 e < length (d_flags d).
Proof.
  intros d d1 extra e Wf He Fl. apply DWf_DW in Wf. pose proof (dw_even d Wf) as Ev.
  assert (L : Nat.div2 e < length (d_flags d)).
  { destruct (div2_cases e) as [(E & _)|(E & _)]; lia. }
  split; [|exact L]. unfold is_flagged. rewrite Fl. apply app_nth1. exact L.
Qed.

Theorem insert_on_edge_invariant : forall pts fuel d e v d',
  DWf d -> FacesCcw (obs_of_dcel d) pts -> e < length (d_hedges d) -> inner d e -> inner d (rev e) ->
  strictly_between (vpos pts (e_origin d e)) (vpos pts (e_to d e)) (vpos pts (Raw.num_vertices d)) = true ->
  insert_2d pts fuel d (IOnEdge e) v = Some d' ->
     DWf d' /\ FacesCcw (obs_of_dcel d') pts
  /\ Raw.num_vertices d' = S (Raw.num_vertices d) /\ Raw.num_undirected_edges d' = Raw.num_undirected_edges d + 3
  /\ Raw.num_faces d' = Raw.num_faces d + 2
  /\ (* a constraint edge stays a constraint edge: its second half (undirected edge E+1) is flagged as well *)
     d_flags d' = d_flags d ++ (if is_flagged d e then [false; true; false] else [false; false; false])
  /\ (forall u, u < Raw.num_vertices d -> let a := nth u (d_verts d') dflt_v in let b := nth u (d_verts d) dflt_v in
                v_x a = v_x b /\ v_y a = v_y b /\ v_data a = v_data b)
  /\ (let a := nth (Raw.num_vertices d) (d_verts d') dflt_v in v_x a = vd_x v /\ v_y a = vd_y v /\ v_data a = vd_d v)
  /\ (forall x, x < length (d_hedges d) -> (e_face d' x = 0 <-> e_face d x = 0)).
Proof.
  intros pts fuel d e v d' Wf FC He Ie It SB Run.
  unfold insert_2d, insert_on_edge in Run.
  assert (O1 : is_outer d e = false) by (apply Nat.eqb_neq; exact Ie).
  assert (O2 : is_outer d (e_rev e) = false) by (apply Nat.eqb_neq; exact It).
  rewrite O1, O2 in Run.
  pose proof (split_edge_ccw pts d e v Wf FC He Ie It SB) as FC1.
  pose proof (SP.split_edge_wf d e v Wf He Ie It) as P. cbv zeta in P.
  pose proof (SP.split_edge_extra d e v Wf He Ie It) as Q. cbv zeta in Q.
  destruct (split_edge d e v) as [d1 [h [a0 a1]]] eqn:E. cbn [fst snd] in P, Q, FC1.
  destruct P as (W1 & -> & P1 & P2 & P3 & P4 & P5 & P6 & _).
  destruct Q as (Q1 & Q2 & _ & Q4). injection Q4 as -> ->.
  assert (Hh : Raw.num_vertices d < Raw.num_vertices d1) by lia.
  destruct (on_edge_finish pts fuel d1 e e _ _ d' W1 FC1 Hh Run) as (R1 & R2 & R3 & R4 & R5 & R6 & R7 & R8).
  destruct (is_flagged_app d d1 _ e Wf He P4) as (F1 & F2).
  pose proof (DWf_len_hedges d Wf) as LH. unfold Raw.num_undirected_edges in LH.
  split; [exact R1|]. split; [exact R2|].
  split; [congruence|]. split; [congruence|]. split; [congruence|].
  split.
  { rewrite R6, F1, P4.
    replace (length (d_hedges d) + 3) with (2 * (length (d_flags d) + 1) + 1) by lia. rewrite div2_odd_double.
    destruct (is_flagged d e) eqn:Fe; [|reflexivity].
    apply (flag_pair (d_flags d) [false; false; false] (Nat.div2 e) Fe F2). }
  split.
  { intros u Hu. cbv zeta. assert (Hu' : u < Raw.num_vertices d1) by lia.
    destruct (R7 u Hu') as (X1 & X2 & X3). destruct (P5 u Hu) as (Y1 & Y2 & Y3). cbv zeta in *.
    repeat split; congruence. }
  split.
  { cbv zeta. destruct (R7 _ Hh) as (X1 & X2 & X3). cbv zeta in *. rewrite Q2 in X1, X2, X3.
    cbn [v_x v_y v_data] in X1, X2, X3. auto. }
  intros x Hx. rewrite R8 by lia. apply P6. exact Hx.
Qed.

Lemma div2_rev : forall e, Nat.div2 (rev e) = Nat.div2 e.
Proof.
  intro e. destruct (div2_cases e) as [(E & R)|(E & R)]; rewrite R.
  - apply div2_odd_double.
  - apply Nat.div2_double.
Qed.

(* the hull variant, for either direction e of the split edge e0 / rev e0 and either order of the returned halves *)
Lemma on_edge_hull_core : forall pts fuel d e0 v d' e a0 a1,
  DWf d -> FacesCcw (obs_of_dcel d) pts -> e0 < length (d_hedges d) -> inner d e0 -> outer d (rev e0) ->
  strictly_between (vpos pts (e_origin d e0)) (vpos pts (e_to d e0)) (vpos pts (Raw.num_vertices d)) = true ->
  e < length (d_hedges d) ->
  (Nat.div2 a0 = Nat.div2 e /\ Nat.div2 a1 = length (d_flags d) + 1) \/
  (Nat.div2 a0 = length (d_flags d) + 1 /\ Nat.div2 a1 = Nat.div2 e) ->
  legalize_vertex pts fuel (let d1 := fst (split_half_edge d e0 v) in
                            if is_flagged d1 e then set_flag (set_flag d1 a0) a1 else d1) (Raw.num_vertices d) = Some d' ->
     DWf d' /\ FacesCcw (obs_of_dcel d') pts
  /\ Raw.num_vertices d' = S (Raw.num_vertices d) /\ Raw.num_undirected_edges d' = Raw.num_undirected_edges d + 2
  /\ Raw.num_faces d' = Raw.num_faces d + 1
  /\ d_flags d' = d_flags d ++ (if is_flagged d e then [false; true] else [false; false])
  /\ (forall u, u < Raw.num_vertices d -> let a := nth u (d_verts d') dflt_v in let b := nth u (d_verts d) dflt_v in
                v_x a = v_x b /\ v_y a = v_y b /\ v_data a = v_data b)
  /\ (let a := nth (Raw.num_vertices d) (d_verts d') dflt_v in v_x a = vd_x v /\ v_y a = vd_y v /\ v_data a = vd_d v)
  /\ (forall x, x < length (d_hedges d) -> (e_face d' x = 0 <-> e_face d x = 0)).
Proof.
  intros pts fuel d e0 v d' e a0 a1 Wf FC He0 Ie Ot SB He Hdiv Run. cbv zeta in Run.
  pose proof (split_half_edge_ccw pts d e0 v Wf FC He0 Ie Ot SB) as FC1.
  pose proof (SP.split_half_edge_wf d e0 v Wf He0 Ie Ot) as P. cbv zeta in P.
  pose proof (SP.split_half_edge_extra d e0 v Wf He0 Ie Ot) as Q. cbv zeta in Q.
  set (d1 := fst (split_half_edge d e0 v)) in *.
  destruct P as (W1 & _ & P1 & P2 & P3 & PL & P4 & P5 & P6 & _).
  assert (Hh : Raw.num_vertices d < Raw.num_vertices d1) by lia.
  destruct (on_edge_finish pts fuel d1 e a0 a1 _ d' W1 FC1 Hh Run) as (R1 & R2 & R3 & R4 & R5 & R6 & R7 & R8).
  destruct (is_flagged_app d d1 _ e Wf He P4) as (F1 & F2).
  split; [exact R1|]. split; [exact R2|].
  split; [congruence|]. split; [congruence|]. split; [congruence|].
  split.
  { rewrite R6, F1, P4.
    destruct (is_flagged d e) eqn:Fe; [|reflexivity].
    destruct Hdiv as [(-> & ->)|(-> & ->)].
    - apply (flag_pair (d_flags d) [false; false] (Nat.div2 e) Fe F2).
    - apply (flag_pair (d_flags d) [false; false] (Nat.div2 e) Fe F2). }
  split.
  { intros u Hu. cbv zeta. assert (Hu' : u < Raw.num_vertices d1) by lia.
    destruct (R7 u Hu') as (X1 & X2 & X3). destruct (P5 u Hu) as (Y1 & Y2 & Y3). cbv zeta in *.
    repeat split; congruence. }
  split.
  { cbv zeta. destruct (R7 _ Hh) as (X1 & X2 & X3). cbv zeta in *. rewrite Q in X1, X2, X3.
    cbn [v_x v_y v_data] in X1, X2, X3. auto. }
  intros x Hx. rewrite R8 by lia. apply P6. exact Hx.
Qed.

Theorem insert_on_edge_hull_invariant : forall pts fuel d e v d',
  DWf d -> FacesCcw (obs_of_dcel d) pts -> e < length (d_hedges d) ->
  (inner d e /\ outer d (rev e)) \/ (outer d e /\ inner d (rev e)) ->
  strictly_between (vpos pts (e_origin d e)) (vpos pts (e_to d e)) (vpos pts (Raw.num_vertices d)) = true ->
  insert_2d pts fuel d (IOnEdge e) v = Some d' ->
     DWf d' /\ FacesCcw (obs_of_dcel d') pts
  /\ Raw.num_vertices d' = S (Raw.num_vertices d) /\ Raw.num_undirected_edges d' = Raw.num_undirected_edges d + 2
  /\ Raw.num_faces d' = Raw.num_faces d + 1
  /\ d_flags d' = d_flags d ++ (if is_flagged d e then [false; true] else [false; false])
  /\ (forall u, u < Raw.num_vertices d -> let a := nth u (d_verts d') dflt_v in let b := nth u (d_verts d) dflt_v in
                v_x a = v_x b /\ v_y a = v_y b /\ v_data a = v_data b)
  /\ (let a := nth (Raw.num_vertices d) (d_verts d') dflt_v in v_x a = vd_x v /\ v_y a = vd_y v /\ v_data a = vd_d v)
  /\ (forall x, x < length (d_hedges d) -> (e_face d' x = 0 <-> e_face d x = 0)).
Proof.
  intros pts fuel d e v d' Wf FC He Cases SB Run.
  pose proof Wf as W. apply DWf_DW in W.
  pose proof (DWf_len_hedges d Wf) as LH. unfold Raw.num_undirected_edges in LH.
  unfold insert_2d, insert_on_edge in Run.
  destruct Cases as [(Ie & Ot)|(Oe & It)].
  - assert (O1 : is_outer d e = false) by (apply Nat.eqb_neq; exact Ie).
    assert (O2 : is_outer d (e_rev e) = true) by (apply Nat.eqb_eq; exact Ot).
    rewrite O1, O2 in Run.
    pose proof (SP.split_half_edge_wf d e v Wf He Ie Ot) as P. cbv zeta in P.
    destruct P as (_ & Ph & _ & _ & _ & _ & _ & _ & _ & _ & _ & _ & Pr & _).
    destruct (split_half_edge d e v) as [d1 [h [a0 a1]]] eqn:E. cbn [fst snd] in Ph, Pr.
    injection Pr as -> ->. subst h.
    apply (on_edge_hull_core pts fuel d e v d' e e (length (d_hedges d) + 2) Wf FC He Ie Ot SB He).
    + left. split; [reflexivity|]. rewrite LH. replace (2 * length (d_flags d) + 2) with (2 * (length (d_flags d) + 1)) by lia.
      apply Nat.div2_double.
    + cbv zeta. rewrite E. cbn [fst]. exact Run.
  - assert (O1 : is_outer d e = true) by (apply Nat.eqb_eq; exact Oe).
    rewrite O1 in Run.
    pose proof (dw_rev_lt d W e He) as Hr.
    assert (Ot : outer d (rev (rev e))) by (rewrite rev_rev; exact Oe).
    assert (SB' : strictly_between (vpos pts (e_origin d (rev e))) (vpos pts (e_to d (rev e)))
                    (vpos pts (Raw.num_vertices d)) = true).
    { unfold e_to, e_rev in *. rewrite rev_rev. apply strictly_between_swap. exact SB. }
    pose proof (SP.split_half_edge_wf d (rev e) v Wf Hr It Ot) as P. cbv zeta in P.
    destruct P as (_ & Ph & _ & _ & _ & _ & _ & _ & _ & _ & _ & _ & Pr & _).
    unfold e_rev in Run.
    destruct (split_half_edge d (rev e) v) as [d1 [h [a0 a1]]] eqn:E. cbn [fst snd] in Ph, Pr.
    injection Pr as -> ->. subst h.
    apply (on_edge_hull_core pts fuel d (rev e) v d' e (rev (length (d_hedges d) + 2)) (rev (rev e)) Wf FC Hr It Ot SB' He).
    + right. split; [|rewrite rev_rev; reflexivity].
      rewrite div2_rev, LH. replace (2 * length (d_flags d) + 2) with (2 * (length (d_flags d) + 1)) by lia.
      apply Nat.div2_double.
    + cbv zeta. rewrite E. cbn [fst]. exact Run.
Qed.

(* the unflagged case exactly as a corollary: three new free edges *)
Corollary insert_on_edge_free_invariant : forall pts fuel d e v d',
  DWf d -> FacesCcw (obs_of_dcel d) pts -> e < length (d_hedges d) -> inner d e -> inner d (rev e) ->
  is_flagged d e = false ->
  strictly_between (vpos pts (e_origin d e)) (vpos pts (e_to d e)) (vpos pts (Raw.num_vertices d)) = true ->
  insert_2d pts fuel d (IOnEdge e) v = Some d' ->
     DWf d' /\ FacesCcw (obs_of_dcel d') pts
  /\ Raw.num_vertices d' = S (Raw.num_vertices d) /\ Raw.num_undirected_edges d' = Raw.num_undirected_edges d + 3
  /\ Raw.num_faces d' = Raw.num_faces d + 2
  /\ d_flags d' = d_flags d ++ [false; false; false]
  /\ (forall u, u < Raw.num_vertices d -> let a := nth u (d_verts d') dflt_v in let b := nth u (d_verts d) dflt_v in
                v_x a = v_x b /\ v_y a = v_y b /\ v_data a = v_data b)
  /\ (let a := nth (Raw.num_vertices d) (d_verts d') dflt_v in v_x a = vd_x v /\ v_y a = vd_y v /\ v_data a = vd_d v)
  /\ (forall x, x < length (d_hedges d) -> (e_face d' x = 0 <-> e_face d x = 0)).
Proof.
  intros pts fuel d e v d' Wf FC He Ie It Fl SB Run.
  pose proof (insert_on_edge_invariant pts fuel d e v d' Wf FC He Ie It SB Run) as P.
  rewrite Fl in P. exact P.
Qed.

(* the flagged case: both halves of the split constraint edge are flagged afterwards *)
Corollary insert_on_edge_constraint_invariant : forall pts fuel d e v d',
  DWf d -> FacesCcw (obs_of_dcel d) pts -> e < length (d_hedges d) -> inner d e -> inner d (rev e) ->
  is_flagged d e = true ->
  strictly_between (vpos pts (e_origin d e)) (vpos pts (e_to d e)) (vpos pts (Raw.num_vertices d)) = true ->
  insert_2d pts fuel d (IOnEdge e) v = Some d' ->
     DWf d' /\ FacesCcw (obs_of_dcel d') pts
  /\ d_flags d' = d_flags d ++ [false; true; false]
  /\ is_flagged d' e = true /\ is_flagged d' (length (d_hedges d) + 3) = true.
Proof.
  intros pts fuel d e v d' Wf FC He Ie It Fl SB Run.
  destruct (insert_on_edge_invariant pts fuel d e v d' Wf FC He Ie It SB Run) as (P1 & P2 & _ & _ & _ & P6 & _).
  rewrite Fl in P6.
  destruct (is_flagged_app d d' _ e Wf He P6) as (F1 & F2).
  pose proof (DWf_len_hedges d Wf) as LH. unfold Raw.num_undirected_edges in LH.
  split; [exact P1|]. split; [exact P2|]. split; [exact P6|]. split; [congruence|].
  unfold is_flagged. rewrite P6.
  replace (length (d_hedges d) + 3) with (2 * (length (d_flags d) + 1) + 1) by lia. rewrite div2_odd_double.
  rewrite app_nth2 by lia. replace (length (d_flags d) + 1 - length (d_flags d)) with 1 by lia. reflexivity.
Qed.

(* ================================================================================================ *)
(* PART 4.  insertion on an existing vertex                                                          *)
(* ================================================================================================ *)

Theorem insert_on_vertex_invariant : forall pts fuel d u v d',
  DWf d -> u < Raw.num_vertices d ->
  insert_2d pts fuel d (IOnVertex u) v = Some d' ->
     DWf d'
  /\ (FacesCcw (obs_of_dcel d) pts -> FacesCcw (obs_of_dcel d') pts)
  /\ d_hedges d' = d_hedges d /\ d_faces d' = d_faces d /\ d_flags d' = d_flags d
  /\ Raw.num_vertices d' = Raw.num_vertices d
  /\ nth u (d_verts d') dflt_v = mkv (vd_x v) (vd_y v) (vd_d v) (v_out_edge d u)
  /\ (forall w, w <> u -> nth w (d_verts d') dflt_v = nth w (d_verts d) dflt_v).
Proof.
  intros pts fuel d u v d' Wf Hu Run. unfold insert_2d in Run. injection Run as <-.
  set (r := mkv (vd_x v) (vd_y v) (vd_d v) (v_out (nth u (d_verts d) dflt_v))).
  set (d' := mkdcel (set_nth u r (d_verts d)) (d_hedges d) (d_faces d) (d_flags d)).
  apply DWf_DW in Wf.
  assert (Vo : forall w, v_out_edge d' w = v_out_edge d w).
  { intro w. unfold v_out_edge, d'. cbn [d_verts]. destruct (Nat.eq_dec u w) as [->|N].
    - rewrite nth_snth_same by exact Hu. reflexivity.
    - rewrite nth_snth_other by exact N. reflexivity. }
  assert (LV : length (d_verts d') = length (d_verts d)) by (unfold d'; cbn [d_verts]; apply snth_length).
  assert (W' : DW d').
  { constructor.
    - exact (dw_even d Wf).
    - exact (dw_face1 d Wf).
    - intros e He. rewrite LV. exact (dw_rng d Wf e He).
    - intros w Hw a. rewrite Vo. rewrite LV in Hw. exact (dw_vout_rng d Wf w Hw a).
    - exact (dw_adj_rng d Wf).
    - exact (dw_links d Wf).
    - exact (dw_fptr d Wf).
    - intros w Hw. rewrite Vo. rewrite LV in Hw. exact (dw_vptr d Wf w Hw).
    - exact (dw_tri d Wf). }
  split; [apply DWf_DW; exact W'|].
  split.
  { intros FC. apply edges_ccw_faces; [exact W'|]. exact (faces_ccw_edges pts d Wf FC). }
  split; [reflexivity|]. split; [reflexivity|]. split; [reflexivity|].
  split; [exact LV|].
  split; [unfold d'; cbn [d_verts]; apply nth_snth_same; exact Hu|].
  intros w Hw. unfold d'. cbn [d_verts]. apply nth_snth_other. auto.
Qed.


(* ================================================================================================ *)
(* PART 5.  insertion outside of the convex hull                                                     *)
(* ================================================================================================ *)

Module PH := ProofsHull.

(* --- 5a. legalization leaves the hull alone: records of outer half-edges, and origins of their twins --- *)
Definition HullKeep (d d' : dcel) : Prop :=
  (forall x, x < length (d_hedges d) -> e_face d x = 0 -> half_edge d' x = half_edge d x) /\
  (forall x, x < length (d_hedges d) -> e_face d (rev x) = 0 -> e_origin d' x = e_origin d x).

Lemma HullKeep_refl : forall d, HullKeep d d.
Proof. intros d. split; intros; reflexivity. Qed.

Lemma HullKeep_trans : forall d1 d2 d3, StepRel d1 d2 -> HullKeep d1 d2 -> HullKeep d2 d3 -> HullKeep d1 d3.
Proof.
  intros d1 d2 d3 (_ & _ & L & _ & _ & F0 & _) (A1 & A2) (B1 & B2). split.
  - intros x Hx Fx. rewrite B1; [apply A1; assumption|rewrite L; exact Hx|apply F0; exact Fx].
  - intros x Hx Fx. rewrite B2; [apply A2; assumption|rewrite L; exact Hx|apply F0; exact Fx].
Qed.

Lemma flip_hull_keep : forall d e, DW d -> e < length (d_hedges d) -> inner d e -> inner d (rev e) ->
  HullKeep d (fst (DcelOps.flip_cw d (as_undirected e))).
Proof.
  intros d e W He Ie It. unfold as_undirected. set (k := Nat.div2 e).
  assert (Hk : k < Raw.num_undirected_edges d).
  { unfold Raw.num_undirected_edges. pose proof (dw_even d W) as Ev.
    destruct (div2_cases e) as [(E & _)|(E & _)]; fold k in E; lia. }
  destruct (dw_double_lt d W k Hk) as (He0 & _).
  assert (Pre : inner d (2 * k) /\ inner d (rev (2 * k))).
  { destruct (div2_cases e) as [(E & R)|(E & R)]; fold k in E, R.
    - rewrite <- E. auto.
    - rewrite <- R. rewrite rev_rev. auto. }
  destruct Pre as (Ie0 & It0).
  pose proof (flip_cw_post d k W Hk Ie0 It0) as Post.
  set (d1 := fst (DcelOps.flip_cw d k)) in *.
  pose proof (dw_rev_lt d W _ He0) as Ht0.
  destruct (dw_tri_facts d (2 * k) W He0 Ie0) as (_ & _ & _ & _ & _ & _ & A1 & A2 & _).
  destruct (dw_tri_facts d (rev (2 * k)) W Ht0 It0) as (_ & _ & _ & _ & _ & _ & B1 & B2 & _).
  unfold inner in Ie0, It0.
  split.
  - intros x Hx Fx. apply (fp_other d d1 (2 * k) Post). unfold flip_untouched.
    repeat split; intro E; rewrite E in Fx; congruence.
  - intros x Hx Fx. apply (flip_org_keep d d1 (2 * k) He0 Post).
    + intro E. rewrite E in Fx. congruence.
    + intro E. rewrite E, rev_rev in Fx. congruence.
Qed.

Lemma legalize_hull : forall pts fuel fully d stack b d' b',
  DW d -> EdgesCcw pts d -> (forall e, In e stack -> e < length (d_hedges d)) ->
  legalize pts fuel fully d stack b = Some (d', b') ->
  DW d' /\ EdgesCcw pts d' /\ StepRel d d' /\ HullKeep d d'.
Proof.
  intros pts fuel fully. induction fuel as [|k IH]; intros d stack b d' b' W EC Rng Run.
  - cbn [legalize] in Run. discriminate.
  - cbn [legalize] in Run. destruct stack as [|e rest].
    + injection Run as <- <-. split; [exact W|split; [exact EC|split; [apply StepRel_refl|apply HullKeep_refl]]].
    + assert (He : e < length (d_hedges d)) by (apply Rng; left; reflexivity).
      assert (Rng' : forall x, In x rest -> x < length (d_hedges d)) by (intros x Hx; apply Rng; right; exact Hx).
      destruct (is_flagged d e) eqn:Fl; [apply (IH d rest b d' b' W EC Rng' Run)|].
      destruct ((e_face d e =? 0) || (e_face d (e_rev e) =? 0)) eqn:Fc; [apply (IH d rest b d' b' W EC Rng' Run)|].
      destruct (should_flip pts d e) eqn:SF; [|apply (IH d rest b d' b' W EC Rng' Run)].
      apply orb_false_iff in Fc. destruct Fc as (Fc1 & Fc2).
      apply Nat.eqb_neq in Fc1. apply Nat.eqb_neq in Fc2. unfold e_rev in *.
      pose proof (dw_rev_lt d W e He) as Ht.
      destruct (flip_step pts d e W EC He Fl Fc1 Fc2 SF) as (W1 & EC1 & R1).
      pose proof (flip_hull_keep d e W He Fc1 Fc2) as K1.
      set (d1 := fst (DcelOps.flip_cw d (as_undirected e))) in *.
      assert (L1 : length (d_hedges d1) = length (d_hedges d)) by apply R1.
      assert (Rng1 : forall x, In x (((if fully then [e_prev d e; e_next d e] else []) ++
                                      [e_prev d (rev e); e_next d (rev e)]) ++ rest) -> x < length (d_hedges d1)).
      { intros x Hx. rewrite L1.
        pose proof (dw_prev_lt d W e He). pose proof (dw_next_lt d W e He).
        pose proof (dw_prev_lt d W _ Ht). pose proof (dw_next_lt d W _ Ht).
        apply in_app_or in Hx. destruct Hx as [Hx|Hx]; [|apply Rng'; exact Hx].
        apply in_app_or in Hx. destruct Hx as [Hx|Hx].
        - destruct fully; cbn [In] in Hx; [|tauto]. destruct Hx as [<-|[<-|[]]]; assumption.
        - cbn [In] in Hx. destruct Hx as [<-|[<-|[]]]; assumption. }
      destruct (IH d1 _ true d' b' W1 EC1 Rng1 Run) as (W' & EC' & R' & K').
      split; [exact W'|split; [exact EC'|split]].
      * apply (StepRel_trans d d1 d'); assumption.
      * apply (HullKeep_trans d d1 d'); assumption.
Qed.

Lemma legalize_edge_hull : forall pts fuel d e fully d' b,
  DW d -> EdgesCcw pts d -> e < length (d_hedges d) ->
  legalize_edge pts fuel d e fully = Some (d', b) ->
  DW d' /\ EdgesCcw pts d' /\ StepRel d d' /\ HullKeep d d'.
Proof.
  intros pts fuel d e fully d' b W EC He Run. unfold legalize_edge in Run.
  apply (legalize_hull pts fuel fully d [e] false d' b W EC); [|exact Run].
  intros x [<-|[]]. exact He.
Qed.

Lemma PH_DW : forall d, DW d -> PH.DW d.
Proof. intros d W. apply PH.DWf_iff. apply DWf_DW. exact W. Qed.
Lemma DW_PH : forall d, PH.DW d -> DW d.
Proof. intros d W. apply DWf_DW. apply PH.DWf_iff. exact W. Qed.

(* decide the conditions of the closed forms of ProofsHull by arithmetic *)
Ltac ifs := repeat match goal with
  | |- context [?a <? ?b] =>
      first [rewrite (proj2 (Nat.ltb_lt a b)) by lia | rewrite (proj2 (Nat.ltb_ge a b)) by lia]
  | |- context [?a =? ?b] =>
      first [rewrite (Nat.eqb_refl a) | rewrite (proj2 (Nat.eqb_eq a b)) by lia | rewrite (proj2 (Nat.eqb_neq a b)) by lia]
  end.
Ltac ifs_in H := repeat match type of H with
  | context [?a <? ?b] =>
      first [rewrite (proj2 (Nat.ltb_lt a b)) in H by lia | rewrite (proj2 (Nat.ltb_ge a b)) in H by lia]
  | context [?a =? ?b] =>
      first [rewrite (Nat.eqb_refl a) in H | rewrite (proj2 (Nat.eqb_eq a b)) in H by lia | rewrite (proj2 (Nat.eqb_neq a b)) in H by lia]
  end.
Ltac geo_close :=
  first [ assumption | rewrite orient_cyclic; assumption | rewrite orient_cyclic'; assumption ].

(* --- 5b. create_single_face_between_edge_and_next keeps all faces counter-clockwise when the new triangle is --- *)
Section CSF.
Variable pts : list pnt.
Variables (d : dcel) (e : nat).
Hypothesis W : DW d.
Hypothesis He : e < length (d_hedges d).
Hypothesis Hface : e_face d e = 0.
Hypothesis EC : EdgesCcw pts d.
Hypothesis T : (0 < orient (vpos pts (e_origin d e)) (vpos pts (e_origin d (e_next d e)))
                           (vpos pts (e_origin d (rev (e_next d e)))))%Z.
Notation N := (length (d_hedges d)).
Notation d1 := (fst (create_single_face_between_edge_and_next d e)).

Lemma csf_far : e_origin d (rev (e_next d e)) <> e_origin d e.
Proof.
  intro E. rewrite E in T. destruct (orient_degenerate (vpos pts (e_origin d e)) (vpos pts (e_origin d (e_next d e))) (0, 0)%Z)
    as (_ & D2 & _). rewrite D2 in T. lia.
Qed.

Lemma csf_DW' : DW d1.
Proof. apply DW_PH. apply (PH.csf_DW d e (PH_DW d W) He Hface csf_far). Qed.

Lemma csf_edges_ccw : EdgesCcw pts d1.
Proof.
  pose proof (PH_DW d W) as PW. pose proof csf_far as Far.
  destruct (PH.csf_ctx d e PW He Hface Far)
    as (_ & Hen & Henn & Hep & Hev & Hene & Hepe & Hnnn & Hnne & Hpn & _ & _ & HF & Hfen & Hfenn & Hfep).
  pose proof (dw_prev_next d W e He) as PN.
  intros x Hx Ix. rewrite (PH.csf_len d e PW He Hface Far) in Hx.
  unfold inner in Ix. rewrite (PH.csf_face d e PW He Hface Far) in Ix.
  unfold tri_orient. rewrite (PH.csf_next d e PW He Hface Far x), (PH.csf_prev d e PW He Hface Far x).
  destruct (Nat.eq_dec x e) as [->|Ne].
  - ifs. rewrite !(PH.csf_org d e PW He Hface Far). ifs. geo_close.
  - destruct (Nat.eq_dec x (e_next d e)) as [->|Nen].
    + ifs. rewrite PN. rewrite !(PH.csf_org d e PW He Hface Far). ifs. geo_close.
    + destruct (lt_dec x N) as [Hlt|Hge].
      * ifs_in Ix.
        assert (x <> e_prev d e) by (intro E; rewrite E in Ix; congruence).
        assert (x <> e_next d (e_next d e)) by (intro E; rewrite E in Ix; congruence).
        pose proof (dw_next_lt d W x Hlt). pose proof (dw_prev_lt d W x Hlt).
        ifs. rewrite !(PH.csf_org d e PW He Hface Far). ifs. apply (EC x Hlt Ix).
      * assert (Cx : x = N \/ x = N + 1) by lia. destruct Cx as [->| ->].
        -- ifs. rewrite !(PH.csf_org d e PW He Hface Far). ifs. geo_close.
        -- ifs_in Ix. congruence.
Qed.
End CSF.

(* --- 5c. create_new_face_adjacent_to_edge: the new triangle (from, to, q) is counter-clockwise when q is left of e --- *)
Section CNF.
Variable pts : list pnt.
Variables (d : dcel) (e : nat) (v : vdata).
Hypothesis W : DW d.
Hypothesis He : e < length (d_hedges d).
Hypothesis Hface : e_face d e = 0.
Hypothesis EC : EdgesCcw pts d.
Hypothesis T : (0 < orient (vpos pts (e_origin d e)) (vpos pts (e_origin d (rev e))) (vpos pts (length (d_verts d))))%Z.
Notation N := (length (d_hedges d)).
Notation d1 := (fst (create_new_face_adjacent_to_edge d e v)).

Lemma cnf_DW' : DW d1.
Proof. apply DW_PH. apply (PH.cnf_DW d e v (PH_DW d W) He Hface). Qed.

Lemma cnf_edges_ccw : EdgesCcw pts d1.
Proof.
  pose proof (PH_DW d W) as PW.
  destruct (PH.cnf_ctx d e PW He Hface) as (_ & Hen & Hep & Hev & Hene & Hepe & _ & _ & HF & Hfen & Hfep & Hre).
  intros x Hx Ix. rewrite (PH.cnf_len d e v PW He Hface) in Hx.
  unfold inner in Ix. rewrite (PH.cnf_face d e v PW He Hface) in Ix.
  unfold tri_orient. rewrite (PH.cnf_next d e v PW He Hface x), (PH.cnf_prev d e v PW He Hface x).
  destruct (Nat.eq_dec x e) as [->|Ne].
  - ifs. rewrite !(PH.cnf_org d e v PW He Hface). ifs. geo_close.
  - destruct (lt_dec x N) as [Hlt|Hge].
    + ifs_in Ix.
      assert (x <> e_prev d e) by (intro E; rewrite E in Ix; congruence).
      assert (x <> e_next d e) by (intro E; rewrite E in Ix; congruence).
      pose proof (dw_next_lt d W x Hlt). pose proof (dw_prev_lt d W x Hlt).
      ifs. rewrite !(PH.cnf_org d e v PW He Hface). ifs. apply (EC x Hlt Ix).
    + assert (Cx : x = N \/ x = N + 1 \/ x = N + 2 \/ x = N + 3) by lia. destruct Cx as [->|[->|[->| ->]]].
      * ifs. rewrite !(PH.cnf_org d e v PW He Hface). ifs. geo_close.
      * ifs_in Ix. congruence.
      * ifs. rewrite !(PH.cnf_org d e v PW He Hface). ifs. geo_close.
      * ifs_in Ix. congruence.
Qed.
End CNF.

(* --- 5d. what the two hull walks may change --- *)
Definition Grow (d d' : dcel) : Prop :=
  length (d_verts d') = length (d_verts d)
  /\ (forall v, let a := nth v (d_verts d') dflt_v in let b0 := nth v (d_verts d) dflt_v in
                v_x a = v_x b0 /\ v_y a = v_y b0 /\ v_data a = v_data b0)
  /\ (exists k, d_flags d' = d_flags d ++ repeat false k /\ length (d_faces d') = length (d_faces d) + k)
  /\ length (d_hedges d) <= length (d_hedges d')
  /\ (forall x, x < length (d_hedges d) -> e_face d x <> 0 -> e_face d' x <> 0).

(* outer half-edges leaving the vertex nv stay outer half-edges leaving nv *)
Definition Keep (nv : nat) (d d' : dcel) : Prop :=
  forall y, y < length (d_hedges d) -> e_face d y = 0 -> e_origin d y = nv -> e_face d' y = 0 /\ e_origin d' y = nv.

Lemma Grow_refl : forall d, Grow d d.
Proof.
  intros d. unfold Grow. split; [reflexivity|]. split; [intros v; cbv zeta; auto|].
  split; [exists 0; cbn [repeat]; rewrite app_nil_r; split; [reflexivity|lia]|]. split; [lia|auto].
Qed.

Lemma Grow_trans : forall d1 d2 d3, Grow d1 d2 -> Grow d2 d3 -> Grow d1 d3.
Proof.
  intros d1 d2 d3 (A1 & A2 & (k1 & A3 & A4) & A5 & A6) (B1 & B2 & (k2 & B3 & B4) & B5 & B6).
  unfold Grow. split; [congruence|]. split.
  { intros v. cbv zeta. destruct (A2 v) as (X1 & X2 & X3). destruct (B2 v) as (Y1 & Y2 & Y3). cbv zeta in *.
    repeat split; congruence. }
  split.
  { exists (k1 + k2). rewrite B3, A3, repeat_app, app_assoc. split; [reflexivity|lia]. }
  split; [lia|]. intros x Hx Ix. apply B6; [lia|]. apply A6; assumption.
Qed.

Lemma Keep_refl : forall nv d, Keep nv d d.
Proof. intros nv d y _ F O. auto. Qed.

Lemma Keep_trans : forall nv d1 d2 d3, length (d_hedges d1) <= length (d_hedges d2) ->
  Keep nv d1 d2 -> Keep nv d2 d3 -> Keep nv d1 d3.
Proof.
  intros nv d1 d2 d3 L A B y Hy F O. destruct (A y Hy F O) as (F2 & O2). apply B; [lia|exact F2|exact O2].
Qed.

Lemma Grow_of_StepRel : forall d d', StepRel d d' -> Grow d d'.
Proof.
  intros d d' (R1 & R2 & R3 & R4 & R5 & R6 & _). unfold Grow.
  split; [exact R1|]. split; [exact R5|].
  split; [exists 0; cbn [repeat]; rewrite app_nil_r; split; [exact R4|lia]|].
  split; [lia|]. intros x _ Ix E. apply Ix. apply R6. exact E.
Qed.

Lemma Keep_of_legalize : forall nv d d', StepRel d d' -> HullKeep d d' -> Keep nv d d'.
Proof.
  intros nv d d' (_ & _ & _ & _ & _ & R6 & _) (K1 & _) y Hy F O. split; [apply R6; exact F|].
  unfold e_origin. rewrite (K1 y Hy F). exact O.
Qed.

Section CSFFrame.
Variable pts : list pnt.
Variables (d : dcel) (e : nat).
Hypothesis W : DW d.
Hypothesis He : e < length (d_hedges d).
Hypothesis Hface : e_face d e = 0.
Hypothesis T : (0 < orient (vpos pts (e_origin d e)) (vpos pts (e_origin d (e_next d e)))
                           (vpos pts (e_origin d (rev (e_next d e)))))%Z.
Notation N := (length (d_hedges d)).
Notation d1 := (fst (create_single_face_between_edge_and_next d e)).

Lemma csf_grow : Grow d d1.
Proof.
  pose proof (PH_DW d W) as PW. pose proof (csf_far pts d e He Hface T) as Far.
  destruct (PH.csf_ctx d e PW He Hface Far) as (_ & _ & _ & _ & _ & _ & _ & _ & _ & _ & _ & _ & _ & Hfen & _).
  unfold Grow. rewrite (PH.csf_verts d e PW He Hface Far), (PH.csf_flags d e PW He Hface Far),
    (PH.csf_faces d e PW He Hface Far), (PH.csf_len d e PW He Hface Far).
  split; [reflexivity|]. split; [intros v; cbv zeta; auto|].
  split; [exists 1; split; [reflexivity|rewrite app_length, PH.set_nth_length; reflexivity]|].
  split; [lia|]. intros x Hx Ix. rewrite (PH.csf_face d e PW He Hface Far).
  assert (x <> e) by (intro E; rewrite E in Ix; congruence).
  assert (x <> e_next d e) by (intro E; rewrite E in Ix; congruence).
  ifs. exact Ix.
Qed.

Lemma csf_keep : forall nv, e_origin d e <> nv -> e_origin d (e_next d e) <> nv -> Keep nv d d1.
Proof.
  intros nv N1 N2 y Hy F O.
  pose proof (PH_DW d W) as PW. pose proof (csf_far pts d e He Hface T) as Far.
  assert (y <> e) by (intro E; rewrite E in O; congruence).
  assert (y <> e_next d e) by (intro E; rewrite E in O; congruence).
  rewrite (PH.csf_face d e PW He Hface Far), (PH.csf_org d e PW He Hface Far). ifs. auto.
Qed.

Lemma csf_new_edge : snd (create_single_face_between_edge_and_next d e) = N + 1 /\
  length (d_hedges d1) = N + 2 /\ rev (N + 1) = N /\
  e_face d1 (N + 1) = 0 /\ e_origin d1 (N + 1) = e_origin d e /\ e_origin d1 N = e_origin d (rev (e_next d e)).
Proof.
  pose proof (PH_DW d W) as PW. pose proof (csf_far pts d e He Hface T) as Far.
  split; [apply (PH.csf_result d e PW He Hface Far)|].
  split; [apply (PH.csf_len d e PW He Hface Far)|].
  split.
  { pose proof (dw_even d W) as Ev. replace (N + 1) with (2 * length (d_flags d) + 1) by lia.
    rewrite rev_odd. lia. }
  rewrite (PH.csf_face d e PW He Hface Far), !(PH.csf_org d e PW He Hface Far). ifs. auto.
Qed.
End CSFFrame.

(* --- 5e. the two walks along the hull --- *)
Lemma hull_walk_ccw_inv : forall pts fuel nv k d cur d',
  DW d -> EdgesCcw pts d -> cur < length (d_hedges d) -> e_face d cur = 0 -> e_origin d (rev cur) = nv ->
  hull_walk_ccw pts fuel k d cur (vpos pts nv) = Some d' ->
  DW d' /\ EdgesCcw pts d' /\ Grow d d' /\ Keep nv d d'.
Proof.
  intros pts fuel nv k. induction k as [|k IH]; intros d cur d' W EC Hc Fc Oc Run.
  - cbn [hull_walk_ccw] in Run. discriminate.
  - cbn [hull_walk_ccw] in Run.
    destruct (left_of pts d (e_prev d cur) (vpos pts nv)) eqn:L.
    + set (prev := e_prev d cur) in *.
      assert (Hp : prev < length (d_hedges d)) by (apply dw_prev_lt; assumption).
      assert (Fp : e_face d prev = 0) by (unfold prev; rewrite dw_face_prev by assumption; exact Fc).
      assert (Np : e_next d prev = cur) by (apply dw_next_prev; assumption).
      pose proof (dw_org_next d W prev Hp) as On. rewrite Np in On.
      unfold left_of in L. apply Z.ltb_lt in L. unfold e_to, e_rev in L. rewrite <- On in L.
      assert (T : (0 < orient (vpos pts (e_origin d prev)) (vpos pts (e_origin d (e_next d prev)))
                              (vpos pts (e_origin d (rev (e_next d prev)))))%Z).
      { rewrite Np, Oc. exact L. }
      assert (N1 : e_origin d prev <> nv).
      { intro E. rewrite E in L.
        destruct (orient_degenerate (vpos pts nv) (vpos pts (e_origin d cur)) (0, 0)%Z) as (_ & D2 & _). lia. }
      assert (N2 : e_origin d (e_next d prev) <> nv).
      { rewrite Np, <- Oc. apply dw_org_neq; assumption. }
      pose proof (csf_DW' pts d prev W Hp Fp T) as W1.
      pose proof (csf_edges_ccw pts d prev W Hp Fp EC T) as EC1.
      pose proof (csf_grow pts d prev W Hp Fp T) as G1.
      pose proof (csf_keep pts d prev W Hp Fp T nv N1 N2) as K1.
      destruct (csf_new_edge pts d prev W Hp Fp T) as (Sn & L1 & Rv & F1 & _ & O1).
      destruct (create_single_face_between_edge_and_next d prev) as [d1 new_edge] eqn:E1.
      cbn [fst snd] in *. subst new_edge.
      destruct (legalize_edge pts fuel d1 prev false) as [[d2 b]|] eqn:E2; [|discriminate].
      assert (Hp1 : prev < length (d_hedges d1)) by lia.
      destruct (legalize_edge_hull pts fuel d1 prev false d2 b W1 EC1 Hp1 E2) as (W2 & EC2 & R12 & K12).
      pose proof R12 as (_ & _ & L2 & _ & _ & F02 & _).
      assert (Hn2 : length (d_hedges d) + 1 < length (d_hedges d2)) by lia.
      assert (Fn2 : e_face d2 (length (d_hedges d) + 1) = 0) by (apply F02; exact F1).
      assert (On2 : e_origin d2 (rev (length (d_hedges d) + 1)) = nv).
      { rewrite Rv. destruct K12 as (_ & K2). rewrite K2; [|lia|rewrite <- Rv, rev_rev; exact F1].
        rewrite O1, Np. exact Oc. }
      destruct (IH d2 _ d' W2 EC2 Hn2 Fn2 On2 Run) as (W' & EC' & G' & K').
      split; [exact W'|]. split; [exact EC'|]. split.
      * apply (Grow_trans d d1 d' G1). apply (Grow_trans d1 d2 d' (Grow_of_StepRel d1 d2 R12) G').
      * apply (Keep_trans nv d d1 d'); [lia|exact K1|].
        apply (Keep_trans nv d1 d2 d'); [lia|apply Keep_of_legalize; assumption|exact K'].
    + injection Run as <-. split; [exact W|]. split; [exact EC|]. split; [apply Grow_refl|apply Keep_refl].
Qed.

Lemma hull_walk_cw_inv : forall pts fuel nv k d cur d',
  DW d -> EdgesCcw pts d -> cur < length (d_hedges d) -> e_face d cur = 0 -> e_origin d cur = nv ->
  hull_walk_cw pts fuel k d cur (vpos pts nv) = Some d' ->
  DW d' /\ EdgesCcw pts d' /\ Grow d d'.
Proof.
  intros pts fuel nv k. induction k as [|k IH]; intros d cur d' W EC Hc Fc Oc Run.
  - cbn [hull_walk_cw] in Run. discriminate.
  - cbn [hull_walk_cw] in Run.
    destruct (left_of pts d (e_next d cur) (vpos pts nv)) eqn:L.
    + set (nxt := e_next d cur) in *.
      assert (Hn : nxt < length (d_hedges d)) by (apply dw_next_lt; assumption).
      unfold left_of in L. apply Z.ltb_lt in L. unfold e_to, e_rev in L.
      assert (T : (0 < orient (vpos pts (e_origin d cur)) (vpos pts (e_origin d (e_next d cur)))
                              (vpos pts (e_origin d (rev (e_next d cur)))))%Z).
      { fold nxt. rewrite Oc. rewrite orient_cyclic'. exact L. }
      pose proof (csf_DW' pts d cur W Hc Fc T) as W1.
      pose proof (csf_edges_ccw pts d cur W Hc Fc EC T) as EC1.
      pose proof (csf_grow pts d cur W Hc Fc T) as G1.
      destruct (csf_new_edge pts d cur W Hc Fc T) as (Sn & L1 & Rv & F1 & O1 & _).
      destruct (create_single_face_between_edge_and_next d cur) as [d1 new_edge] eqn:E1.
      cbn [fst snd] in *. subst new_edge.
      destruct (legalize_edge pts fuel d1 nxt false) as [[d2 b]|] eqn:E2; [|discriminate].
      assert (Hn1 : nxt < length (d_hedges d1)) by lia.
      destruct (legalize_edge_hull pts fuel d1 nxt false d2 b W1 EC1 Hn1 E2) as (W2 & EC2 & R12 & K12).
      pose proof R12 as (_ & _ & L2 & _ & _ & F02 & _).
      assert (Hn2 : length (d_hedges d) + 1 < length (d_hedges d2)) by lia.
      assert (Fn2 : e_face d2 (length (d_hedges d) + 1) = 0) by (apply F02; exact F1).
      assert (On2 : e_origin d2 (length (d_hedges d) + 1) = nv).
      { destruct K12 as (K1 & _). unfold e_origin. rewrite K1; [|lia|exact F1].
        fold (e_origin d1 (length (d_hedges d) + 1)). rewrite O1. exact Oc. }
      destruct (IH d2 _ d' W2 EC2 Hn2 Fn2 On2 Run) as (W' & EC' & G').
      split; [exact W'|]. split; [exact EC'|].
      apply (Grow_trans d d1 d' G1). apply (Grow_trans d1 d2 d' (Grow_of_StepRel d1 d2 R12) G').
    + injection Run as <-. split; [exact W|]. split; [exact EC|apply Grow_refl].
Qed.

(* --- 5f. the first step and the whole insertion --- *)
Lemma cnf_facts : forall d e v, DW d -> e < length (d_hedges d) -> e_face d e = 0 ->
  let d1 := fst (create_new_face_adjacent_to_edge d e v) in
  let N := length (d_hedges d) in
  length (d_hedges d1) = N + 4 /\
  d_verts d1 = d_verts d ++ [mkv (vd_x v) (vd_y v) (vd_d v) (Some (N + 2))] /\
  length (d_faces d1) = length (d_faces d) + 1 /\
  d_flags d1 = d_flags d ++ [false; false] /\
  e_rev (e_prev d1 e) = N + 3 /\ e_rev (e_next d1 e) = N + 1 /\ rev (N + 3) = N + 2 /\
  e_face d1 (N + 1) = 0 /\ e_face d1 (N + 3) = 0 /\
  e_origin d1 (N + 1) = length (d_verts d) /\ e_origin d1 (N + 2) = length (d_verts d) /\
  (forall x, x < N -> e_face d x <> 0 -> e_face d1 x <> 0).
Proof.
  intros d e v W He Hface. cbv zeta. pose proof (PH_DW d W) as PW.
  pose proof (dw_even d W) as Ev.
  split; [apply (PH.cnf_len d e v PW He Hface)|].
  split; [apply (PH.cnf_verts d e v PW He Hface)|].
  split; [rewrite (PH.cnf_faces d e v PW He Hface), PH.set_nth_length, app_length; reflexivity|].
  split; [apply (PH.cnf_flags d e v PW He Hface)|].
  split.
  { rewrite (PH.cnf_prev d e v PW He Hface). ifs. unfold e_rev.
    replace (length (d_hedges d) + 2) with (2 * (length (d_flags d) + 1)) by lia. rewrite rev_even. lia. }
  split.
  { rewrite (PH.cnf_next d e v PW He Hface). ifs. unfold e_rev.
    replace (length (d_hedges d)) with (2 * length (d_flags d)) by lia. rewrite rev_even. reflexivity. }
  split.
  { replace (length (d_hedges d) + 3) with (2 * (length (d_flags d) + 1) + 1) by lia. rewrite rev_odd. lia. }
  rewrite !(PH.cnf_face d e v PW He Hface), !(PH.cnf_org d e v PW He Hface). ifs.
  split; [reflexivity|]. split; [reflexivity|]. split; [reflexivity|]. split; [reflexivity|].
  intros x Hx Ix. rewrite (PH.cnf_face d e v PW He Hface).
  assert (x <> e) by (intro E; rewrite E in Ix; congruence). ifs. exact Ix.
Qed.

Theorem insert_outside_invariant : forall pts fuel d e v d',
  DWf d -> FacesCcw (obs_of_dcel d) pts -> e < length (d_hedges d) -> outer d e ->
  (* the new position q = vpos pts (num_vertices d) lies strictly to the left of the outer half-edge e *)
  left_of pts d e (vpos pts (Raw.num_vertices d)) = true ->
  insert_2d pts fuel d (IOutside e) v = Some d' ->
     DWf d' /\ FacesCcw (obs_of_dcel d') pts
  /\ Raw.num_vertices d' = S (Raw.num_vertices d)
  /\ (exists k, Raw.num_undirected_edges d' = Raw.num_undirected_edges d + 2 + k /\
                Raw.num_faces d' = Raw.num_faces d + 1 + k /\
                d_flags d' = d_flags d ++ repeat false (2 + k))
  /\ (forall u, u < Raw.num_vertices d -> let a := nth u (d_verts d') dflt_v in let b := nth u (d_verts d) dflt_v in
                v_x a = v_x b /\ v_y a = v_y b /\ v_data a = v_data b)
  /\ (let a := nth (Raw.num_vertices d) (d_verts d') dflt_v in v_x a = vd_x v /\ v_y a = vd_y v /\ v_data a = vd_d v)
  /\ (forall x, x < length (d_hedges d) -> e_face d x <> 0 -> e_face d' x <> 0).
Proof.
  intros pts fuel d e v d' Wf FC He Oe L Run.
  pose proof Wf as W. apply DWf_DW in W. unfold outer in Oe.
  pose proof (faces_ccw_edges pts d W FC) as EC.
  unfold left_of in L. apply Z.ltb_lt in L. unfold e_to, e_rev, Raw.num_vertices in L.
  pose proof (cnf_DW' d e v W He Oe) as W1.
  pose proof (cnf_edges_ccw pts d e v W He Oe EC L) as EC1.
  pose proof (cnf_facts d e v W He Oe) as Fx. cbv zeta in Fx.
  unfold insert_2d, insert_outside in Run.
  destruct (create_new_face_adjacent_to_edge d e v) as [d1 h] eqn:E1. cbn [fst snd] in *.
  destruct Fx as (L1 & V1 & NF1 & Fl1 & Cs & Cws & Rv3 & F1 & F3 & O1 & O2 & In1).
  rewrite Cs, Cws in Run.
  set (N := length (d_hedges d)) in *. set (nv := length (d_verts d)) in *.
  destruct (legalize_edge pts fuel d1 e false) as [[d2 b]|] eqn:E2; [|discriminate].
  assert (He1 : e < length (d_hedges d1)) by lia.
  destruct (legalize_edge_hull pts fuel d1 e false d2 b W1 EC1 He1 E2) as (W2 & EC2 & R12 & K12).
  pose proof R12 as (_ & _ & L2 & _ & _ & F02 & _).
  destruct (hull_walk_ccw pts fuel fuel d2 (N + 3) (vpos pts (Raw.num_vertices d))) as [d3|] eqn:E3; [|discriminate].
  assert (H3 : N + 3 < length (d_hedges d2)) by lia.
  assert (Fc3 : e_face d2 (N + 3) = 0) by (apply F02; exact F3).
  assert (Oc3 : e_origin d2 (rev (N + 3)) = nv).
  { rewrite Rv3. destruct K12 as (_ & K2). rewrite K2; [exact O2|lia|].
    rewrite <- Rv3, rev_rev. exact F3. }
  destruct (hull_walk_ccw_inv pts fuel nv fuel d2 (N + 3) d3 W2 EC2 H3 Fc3 Oc3 E3) as (W3 & EC3 & G23 & K23).
  assert (H1 : N + 1 < length (d_hedges d2)) by lia.
  assert (Fc1 : e_face d2 (N + 1) = 0) by (apply F02; exact F1).
  assert (Oc1 : e_origin d2 (N + 1) = nv).
  { destruct K12 as (K1 & _). unfold e_origin. rewrite K1; [exact O1|lia|exact F1]. }
  destruct (K23 (N + 1) H1 Fc1 Oc1) as (Fc1' & Oc1').
  pose proof G23 as (_ & _ & _ & L3 & _).
  assert (H1' : N + 1 < length (d_hedges d3)) by lia.
  destruct (hull_walk_cw_inv pts fuel nv fuel d3 (N + 1) d' W3 EC3 H1' Fc1' Oc1' Run) as (W' & EC' & G3').
  pose proof (Grow_trans d1 d2 d' (Grow_of_StepRel d1 d2 R12) (Grow_trans d2 d3 d' G23 G3'))
    as (A1 & A2 & (k & A3 & A4) & A5 & A6).
  split; [apply DWf_DW; exact W'|]. split; [apply edges_ccw_faces; assumption|].
  split.
  { unfold Raw.num_vertices. rewrite A1, V1, app_length. cbn [length]. fold nv. lia. }
  split.
  { exists k. unfold Raw.num_undirected_edges, Raw.num_faces. rewrite A3, A4, NF1, Fl1.
    rewrite !app_length, repeat_length. cbn [length]. split; [lia|]. split; [lia|].
    rewrite <- app_assoc. reflexivity. }
  split.
  { intros u Hu. cbv zeta. destruct (A2 u) as (X1 & X2 & X3). cbv zeta in X1, X2, X3.
    rewrite V1, app_nth1 in X1, X2, X3 by exact Hu. auto. }
  split.
  { cbv zeta. destruct (A2 nv) as (X1 & X2 & X3). cbv zeta in X1, X2, X3. unfold Raw.num_vertices. fold nv.
    rewrite V1, app_nth2 in X1, X2, X3 by (fold nv; lia). fold nv in X1, X2, X3.
    rewrite Nat.sub_diag in X1, X2, X3. cbn [nth v_x v_y v_data] in X1, X2, X3. auto. }
  intros x Hx Ix. apply A6; [lia|]. apply In1; assumption.
Qed.

(* the first step on its own: the new face next to e, then legalization of e *)
Lemma insert_outside_first_step : forall pts fuel d e v d2 b,
  DWf d -> FacesCcw (obs_of_dcel d) pts -> e < length (d_hedges d) -> outer d e ->
  left_of pts d e (vpos pts (Raw.num_vertices d)) = true ->
  legalize_edge pts fuel (fst (create_new_face_adjacent_to_edge d e v)) e false = Some (d2, b) ->
  DWf d2 /\ FacesCcw (obs_of_dcel d2) pts.
Proof.
  intros pts fuel d e v d2 b Wf FC He Oe L Run.
  pose proof Wf as W. apply DWf_DW in W. unfold outer in Oe.
  pose proof (faces_ccw_edges pts d W FC) as EC.
  unfold left_of in L. apply Z.ltb_lt in L. unfold e_to, e_rev, Raw.num_vertices in L.
  pose proof (cnf_DW' d e v W He Oe) as W1.
  pose proof (cnf_edges_ccw pts d e v W He Oe EC L) as EC1.
  destruct (cnf_facts d e v W He Oe) as (L1 & _).
  assert (He1 : e < length (d_hedges (fst (create_new_face_adjacent_to_edge d e v)))) by lia.
  destruct (legalize_edge_hull pts fuel _ e false d2 b W1 EC1 He1 Run) as (W2 & EC2 & _).
  split; [apply DWf_DW; exact W2|apply edges_ccw_faces; assumption].
Qed.

(* --- a concrete instance: the hypotheses of insert_outside_invariant are satisfiable, both walks do work --- *)
Module ExIns.
Definition pts5 : list pnt := [(0, 0); (4, 0); (2, 1); (2, -1); (2, -5)]%Z.

Example ex_hyps : DWf Ex.d4 /\ faces_ccw (obs_of_dcel Ex.d4) pts5 = true /\ 7 < length (d_hedges Ex.d4) /\
  e_face Ex.d4 7 = 0 /\ left_of pts5 Ex.d4 7 (vpos pts5 (Raw.num_vertices Ex.d4)) = true.
Proof. split; [exact Ex.ex_wf|]. vm_compute. repeat split; auto; lia. Qed.

Example ex_run :
  option_map (fun d => (Raw.num_vertices d, Raw.num_undirected_edges d, Raw.num_faces d, faces_ccw (obs_of_dcel d) pts5))
             (insert_2d pts5 20 Ex.d4 (IOutside 7) (mkvd 0 0 14)) = Some (5, 8, 5, true).
Proof. vm_compute. reflexivity. Qed.
End ExIns.

Print Assumptions legalize_vertex_invariant.
Print Assumptions insert_on_face_invariant.
Print Assumptions insert_on_edge_invariant.
Print Assumptions insert_on_edge_free_invariant.
Print Assumptions insert_on_edge_constraint_invariant.
Print Assumptions insert_on_edge_hull_invariant.
Print Assumptions insert_on_vertex_invariant.
Print Assumptions insert_outside_invariant.
