(* Tri/Legalize.v -- hand-written model of TriangulationExt::legalize_edge (triangulation_ext.rs), the Lawson
   flipping loop used after every insertion, by remove_constraint_edge and by bulk loading.  It is written over the
   GENERATED flip_cw (Gen/DcelOps.v).  The `while let Some(e) = edges.pop()` loop becomes recursion on explicit fuel;
   running out of fuel is reported as None and is excluded by the theorems' hypotheses.
   The tie to the code is index-exact comparison of the whole DCEL after calls of the real legalize_edge on
   arbitrary (non-Delaunay) triangulations, through the cfg(spade_verif) hook.  Definitions only. *)
From Coq Require Import ZArith List Bool Arith.
From SpadeV Require Import Geom.Pred Obs.State Dcel.Raw Gen.DcelOps.
Import ListNotations.

Section L.
Variable pts : list pnt.            (* exact vertex positions, by vertex index *)
Definition vpos (v : nat) : pnt := nth v pts (0, 0)%Z.

Definition is_flagged (d : dcel) (e : nat) : bool := nth (Nat.div2 e) (d_flags d) false.
Definition apex (d : dcel) (e : nat) : nat := e_origin d (e_prev d e).      (* opposite vertex of e's face *)

(* math::contained_in_circumference(v2, v1, v0, v3) for edge = v0 -> v1, v2 = rev.opposite, v3 = opposite *)
Definition should_flip (d : dcel) (e : nat) : bool :=
  let v0 := vpos (e_origin d e) in
  let v1 := vpos (e_to d e) in
  let v2 := vpos (apex d (e_rev e)) in
  let v3 := vpos (apex d e) in
  (0 <? incircle v2 v1 v0 v3)%Z.

(* returns the new dcel and whether any flip happened *)
Fixpoint legalize (fuel : nat) (fully : bool) (d : dcel) (stack : list nat) (flipped : bool) : option (dcel * bool) :=
  match fuel with
  | O => None
  | S k =>
    match stack with
    | [] => Some (d, flipped)
    | e :: rest =>
      if is_flagged d e then legalize k fully d rest flipped            (* is_defined_legal: constraint edges are never flipped *)
      else if (e_face d e =? 0) || (e_face d (e_rev e) =? 0) then legalize k fully d rest flipped   (* an opposite position is missing *)
      else if should_flip d e then
        let r := e_rev e in
        (* pushed in this order: rev.next, rev.prev, and when fully legalizing: next, prev; the last pushed is popped first *)
        let pushes := (if fully then [e_prev d e; e_next d e] else []) ++ [e_prev d r; e_next d r] in
        legalize k fully (fst (flip_cw d (as_undirected e))) (pushes ++ rest) true
      else legalize k fully d rest flipped
    end
  end.

Definition legalize_edge (fuel : nat) (d : dcel) (e : nat) (fully : bool) : option (dcel * bool) :=
  legalize fuel fully d [e] false.
End L.
