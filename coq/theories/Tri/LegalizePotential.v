(* Tri/LegalizePotential.v -- the lifted-paraboloid potential (Geom/Potential.v) read off a DCEL state, and its behaviour
   under the executable model of legalize_edge (Tri/Legalize.v): never negative on a counter-clockwise triangulation, lowered by
   exactly 3 x the in-circle determinant by every flip the model performs, hence monotone along a whole run of the loop.
   Every inner triangle is counted three times (once through each of its half-edges). *)
From Coq Require Import ZArith List Bool Arith Lia.
From SpadeV Require Import Geom.Pred Geom.Lemmas Geom.Potential Obs.State Obs.Spec Obs.SpecProp Dcel.Raw Dcel.WfCore Gen.DcelOps Dcel.ProofsFlip
  Tri.Legalize Tri.LegalizeProofs.
Import ListNotations.

(* ---------------------------------------------------------------- sums over 0..n-1 *)
Fixpoint zsum (f : nat -> Z) (n : nat) : Z :=
  match n with O => 0%Z | S k => (zsum f k + f k)%Z end.

Fixpoint lsum (f : nat -> Z) (l : list nat) : Z :=
  match l with [] => 0%Z | x :: r => (f x + lsum f r)%Z end.

Lemma zsum_ext : forall n f g, (forall x, x < n -> f x = g x) -> zsum f n = zsum g n.
Proof.
  induction n as [|n IH]; intros f g H; cbn [zsum]; [reflexivity|].
  rewrite (IH f g) by (intros x Hx; apply H; lia). rewrite (H n) by lia. reflexivity.
Qed.

Lemma zsum_zero : forall n f, (forall x, x < n -> f x = 0%Z) -> zsum f n = 0%Z.
Proof.
  induction n as [|n IH]; intros f H; cbn [zsum]; [reflexivity|].
  rewrite (IH f) by (intros x Hx; apply H; lia). rewrite (H n) by lia. reflexivity.
Qed.

Lemma zsum_nonneg : forall n f, (forall x, x < n -> (0 <= f x)%Z) -> (0 <= zsum f n)%Z.
Proof.
  induction n as [|n IH]; intros f H; cbn [zsum]; [lia|].
  pose proof (IH f (fun x Hx => H x (Nat.lt_lt_succ_r _ _ Hx))) as P. pose proof (H n (Nat.lt_succ_diag_r n)). lia.
Qed.

Lemma zsum_sub : forall n f g, (zsum f n - zsum g n = zsum (fun x => f x - g x) n)%Z.
Proof. induction n as [|n IH]; intros f g; cbn [zsum]; [reflexivity|]. rewrite <- IH. ring. Qed.

Lemma zsum_extract : forall n f a, a < n ->
  zsum f n = (f a + zsum (fun x => if (x =? a)%nat then 0 else f x) n)%Z.
Proof.
  induction n as [|n IH]; intros f a Ha; [lia|]. cbn [zsum].
  destruct (Nat.eq_dec a n) as [->|Ne].
  - rewrite Nat.eqb_refl.
    rewrite (zsum_ext n (fun x => if x =? n then 0%Z else f x) f).
    + ring.
    + intros x Hx. destruct (x =? n) eqn:E; [apply Nat.eqb_eq in E; lia|reflexivity].
  - rewrite (IH f a) by lia. destruct (n =? a) eqn:E; [apply Nat.eqb_eq in E; lia|]. ring.
Qed.

Lemma lsum_ext : forall l f g, (forall x, In x l -> f x = g x) -> lsum f l = lsum g l.
Proof.
  induction l as [|a l IH]; intros f g H; cbn [lsum]; [reflexivity|].
  rewrite (H a) by (left; reflexivity). rewrite (IH f g) by (intros x Hx; apply H; right; exact Hx). reflexivity.
Qed.

(* a function that vanishes outside a duplicate-free list of indices sums to its values on that list *)
Lemma zsum_support : forall l n h, NoDup l -> (forall x, In x l -> x < n) ->
  (forall x, x < n -> ~ In x l -> h x = 0%Z) -> zsum h n = lsum h l.
Proof.
  induction l as [|a l IH]; intros n h ND Rng Z0.
  - cbn [lsum]. apply zsum_zero. intros x Hx. apply Z0; [exact Hx|intros []].
  - inversion ND as [|? ? Na ND']; subst. cbn [lsum].
    rewrite (zsum_extract n h a) by (apply Rng; left; reflexivity). f_equal.
    rewrite (IH n (fun x => if x =? a then 0%Z else h x) ND').
    + apply lsum_ext. intros x Hx. destruct (x =? a) eqn:E; [|reflexivity].
      apply Nat.eqb_eq in E. subst x. contradiction.
    + intros x Hx. apply Rng. right. exact Hx.
    + intros x Hx Nx. destruct (x =? a) eqn:E; [reflexivity|]. apply Nat.eqb_neq in E.
      apply Z0; [exact Hx|]. intros [A|A]; [congruence|contradiction].
Qed.

(* ---------------------------------------------------------------- the potential of a DCEL state *)
Definition edge_tri (pts : list pnt) (d : dcel) (x : nat) : Potential.tri :=
  (vpos pts (e_origin d x), vpos pts (e_origin d (e_next d x)), vpos pts (e_origin d (e_prev d x))).

(* the potential of the face left of x, 0 for the outer face *)
Definition edge_pot (pts : list pnt) (d : dcel) (x : nat) : Z :=
  if e_face d x =? 0 then 0%Z else tri_pot (edge_tri pts d x).

(* 3 x the potential of the set of inner faces *)
Definition dcel_pot (pts : list pnt) (d : dcel) : Z := zsum (edge_pot pts d) (length (d_hedges d)).

Lemma edge_pot_orient : forall pts d x, e_face d x <> 0 ->
  edge_pot pts d x = (tri_orient pts d x * (lift (vpos pts (e_origin d x)) + lift (vpos pts (e_origin d (e_next d x)))
                                            + lift (vpos pts (e_origin d (e_prev d x)))))%Z.
Proof.
  intros pts d x H. unfold edge_pot. apply Nat.eqb_neq in H. rewrite H. reflexivity.
Qed.

Theorem dcel_pot_nonneg : forall pts d, DW d -> EdgesCcw pts d -> (0 <= dcel_pot pts d)%Z.
Proof.
  intros pts d _ EC. unfold dcel_pot. apply zsum_nonneg. intros x Hx. unfold edge_pot.
  destruct (e_face d x =? 0) eqn:F; [lia|]. apply Nat.eqb_neq in F.
  apply tri_pot_nonneg. unfold edge_tri, tri_ccw. exact (EC x Hx F).
Qed.

(* ---------------------------------------------------------------- one flip *)
Lemma six_pot_identity : forall p0 p1 p2 p3 : pnt,
  (tri_pot (p3, p2, p1) - tri_pot (p0, p1, p3) +
   (tri_pot (p1, p3, p2) - tri_pot (p1, p3, p0) +
    (tri_pot (p3, p0, p2) - tri_pot (p3, p0, p1) +
     (tri_pot (p2, p3, p0) - tri_pot (p1, p0, p2) +
      (tri_pot (p0, p2, p3) - tri_pot (p0, p2, p1) +
       (tri_pot (p2, p1, p3) - tri_pot (p2, p1, p0) + 0)))))
   = - (3 * incircle p0 p1 p3 p2))%Z.
Proof. intros [ax ay] [bx by_] [cx cy] [dx dy]. unfold tri_pot, lift, orient, incircle. cbn [fst snd]. ring. Qed.

Lemma pot_shift : forall a b c : Z, (a - b = - c -> a = b - c)%Z.
Proof. intros; lia. Qed.

Section FlipPot.
Variable pts : list pnt.
Variables (d d' : dcel) (e : nat).
Hypothesis W : DW d.
Hypothesis He : e < length (d_hedges d).
Hypothesis Ie : inner d e.
Hypothesis It : inner d (rev e).
Hypothesis Post : FlipPost d d' e.

Notation tw := (rev e).
Notation en := (e_next d e).
Notation ep := (e_prev d e).
Notation tn := (e_next d (rev e)).
Notation tp := (e_prev d (rev e)).
Notation p0 := (vpos pts (e_origin d e)).
Notation p1 := (vpos pts (e_origin d (rev e))).
Notation p2 := (vpos pts (e_origin d (e_prev d (rev e)))).
Notation p3 := (vpos pts (e_origin d (e_prev d e))).

Ltac fp_rw := repeat progress rewrite
  ?(flip_N_en d d' e Post), ?(flip_P_en d d' e Post), ?(flip_O_en d d' e Post), ?(flip_F_en d d' e Post),
  ?(flip_N_e d d' e Post), ?(flip_P_e d d' e Post), ?(flip_O_e d d' e Post), ?(flip_F_e d d' e Post),
  ?(flip_N_tp d d' e Post), ?(flip_P_tp d d' e Post), ?(flip_O_tp d d' e Post), ?(flip_F_tp d d' e Post),
  ?(flip_N_tn d d' e Post), ?(flip_P_tn d d' e Post), ?(flip_O_tn d d' e Post), ?(flip_F_tn d d' e Post),
  ?(flip_N_tw d d' e Post), ?(flip_P_tw d d' e Post), ?(flip_O_tw d d' e Post), ?(flip_F_tw d d' e Post),
  ?(flip_N_ep d d' e Post), ?(flip_P_ep d d' e Post), ?(flip_O_ep d d' e Post), ?(flip_F_ep d d' e Post).

(* the exact change of the potential: every flip of the abstract post-state lowers it by 3 x the in-circle determinant *)
Lemma flip_pot_exact : (dcel_pot pts d' = dcel_pot pts d - 3 * incircle p0 p1 p3 p2)%Z.
Proof.
  pose proof (dw_rev_lt d W e He) as Ht.
  destruct (dw_tri_facts d e W He Ie) as (Len & Lep & A1 & A2 & A3 & A4 & A5 & A6 & _ & _ & _ & A7 & _).
  destruct (dw_tri_facts d tw W Ht It) as (Ltn & Ltp & B1 & B2 & B3 & B4 & B5 & B6 & _ & _ & _ & B7 & _).
  rewrite rev_rev in B7.
  destruct (flip_distinct d e W He Ie It) as (D1 & D2 & D3 & D4 & D5 & D6 & D7 & D8 & D9 & D10 & D11 & D12 & D13 & D14 & D15).
  assert (Fe : (e_face d e =? 0) = false) by (apply Nat.eqb_neq; exact Ie).
  assert (Ft : (e_face d tw =? 0) = false) by (apply Nat.eqb_neq; exact It).
  unfold dcel_pot. rewrite (fp_lenH d d' e Post).
  apply pot_shift.
  rewrite zsum_sub.
  rewrite (zsum_support [e; en; ep; tw; tn; tp]).
  - cbn [lsum]. unfold edge_pot, edge_tri. fp_rw.
    rewrite ?A1, ?A2, ?A3, ?A4, ?A5, ?A6, ?B1, ?B2, ?B3, ?B4, ?B5, ?B6, ?Fe, ?Ft, ?A7, ?B7.
    generalize p0 p1 p2 p3. intros q0 q1 q2 q3. apply six_pot_identity.
  - repeat constructor; cbn [In]; intros K; repeat (destruct K as [K|K]; [congruence|]); exact K.
  - intros x Hx. cbn [In] in Hx. repeat (destruct Hx as [Hx|Hx]; [subst x; assumption|]). destruct Hx.
  - intros x Hx Nx. cbn [In] in Nx.
    assert (U : flip_untouched d e x) by (unfold flip_untouched; repeat split; intro E; apply Nx; subst x; tauto).
    destruct (flip_untouched_closed d e W He Ie It x Hx U) as (UN & UP).
    destruct (flip_other_fields d d' e Post x U) as (E1 & E2 & E3 & E4).
    destruct (flip_other_fields d d' e Post _ UN) as (_ & _ & _ & N4).
    destruct (flip_other_fields d d' e Post _ UP) as (_ & _ & _ & P4).
    unfold edge_pot, edge_tri. rewrite E1, E2, E3, E4, N4, P4. ring.
Qed.

Hypothesis SF : should_flip pts d e = true.

Lemma flip_pot_drop : (dcel_pot pts d' <= dcel_pot pts d - 3)%Z.
Proof.
  apply should_flip_circumcircle in SF. unfold e_to, e_rev, apex in SF.
  rewrite flip_pot_exact. lia.
Qed.
End FlipPot.

(* the flip performed by the model: the generated flip_cw on the undirected edge of e, under the model's own condition *)
Theorem flip_lowers_dcel_pot_exact : forall pts d e, DW d -> EdgesCcw pts d -> e < length (d_hedges d) ->
  is_flagged d e = false -> inner d e -> inner d (rev e) -> should_flip pts d e = true ->
  (dcel_pot pts (fst (DcelOps.flip_cw d (as_undirected e))) =
   dcel_pot pts d - 3 * incircle (vpos pts (e_origin d e)) (vpos pts (e_to d e)) (vpos pts (apex d e))
                                 (vpos pts (apex d (e_rev e))))%Z.
Proof.
  intros pts d e W EC He Fl Ie It SF. unfold as_undirected.
  set (k := Nat.div2 e) in *.
  assert (Hk : k < Raw.num_undirected_edges d).
  { unfold Raw.num_undirected_edges. pose proof (dw_even d W) as Ev.
    destruct (div2_cases e) as [(E & _)|(E & _)]; fold k in E; lia. }
  destruct (dw_double_lt d W k Hk) as (He0 & _).
  assert (Pre : inner d (2 * k) /\ inner d (rev (2 * k))).
  { destruct (div2_cases e) as [(E & R)|(E & R)]; fold k in E, R.
    - rewrite <- E. auto.
    - rewrite <- R. rewrite rev_rev. auto. }
  destruct Pre as (Ie0 & It0).
  pose proof (flip_cw_post d k W Hk Ie0 It0) as Post.
  rewrite (flip_pot_exact pts d _ (2 * k) W He0 Ie0 It0 Post).
  unfold e_to, e_rev, apex.
  destruct (div2_cases e) as [(E & R)|(E & R)]; fold k in E, R.
  - rewrite <- E. reflexivity.
  - rewrite <- R. rewrite rev_rev. f_equal. f_equal.
    generalize (vpos pts (e_origin d e)) (vpos pts (e_origin d (rev e)))
               (vpos pts (e_origin d (e_prev d e))) (vpos pts (e_origin d (e_prev d (rev e)))).
    geom_ring.
Qed.

Theorem flip_lowers_dcel_pot : forall pts d e, DW d -> EdgesCcw pts d -> e < length (d_hedges d) ->
  is_flagged d e = false -> inner d e -> inner d (rev e) -> should_flip pts d e = true ->
  (dcel_pot pts (fst (DcelOps.flip_cw d (as_undirected e))) <= dcel_pot pts d - 3)%Z.
Proof.
  intros pts d e W EC He Fl Ie It SF.
  rewrite (flip_lowers_dcel_pot_exact pts d e W EC He Fl Ie It SF).
  apply should_flip_circumcircle in SF. lia.
Qed.

(* ---------------------------------------------------------------- the loop *)
Lemma legalize_pot_le : forall pts fuel fully d stack b d' b',
  DW d -> EdgesCcw pts d -> (forall e, In e stack -> e < length (d_hedges d)) ->
  legalize pts fuel fully d stack b = Some (d', b') ->
  (dcel_pot pts d' <= dcel_pot pts d)%Z.
Proof.
  intros pts fuel fully. induction fuel as [|k IH]; intros d stack b d' b' W EC Rng Run.
  - cbn [legalize] in Run. discriminate.
  - cbn [legalize] in Run. destruct stack as [|e rest].
    + injection Run as <- <-. lia.
    + assert (He : e < length (d_hedges d)) by (apply Rng; left; reflexivity).
      assert (Rng' : forall x, In x rest -> x < length (d_hedges d)) by (intros x Hx; apply Rng; right; exact Hx).
      destruct (is_flagged d e) eqn:Fl; [apply (IH d rest b d' b' W EC Rng' Run)|].
      destruct ((e_face d e =? 0) || (e_face d (e_rev e) =? 0)) eqn:Fc; [apply (IH d rest b d' b' W EC Rng' Run)|].
      destruct (should_flip pts d e) eqn:SF; [|apply (IH d rest b d' b' W EC Rng' Run)].
      apply orb_false_iff in Fc. destruct Fc as (Fc1 & Fc2).
      apply Nat.eqb_neq in Fc1. apply Nat.eqb_neq in Fc2. unfold e_rev in *.
      pose proof (dw_rev_lt d W e He) as Ht.
      destruct (flip_step pts d e W EC He Fl Fc1 Fc2 SF) as (W1 & EC1 & R1).
      pose proof (flip_lowers_dcel_pot pts d e W EC He Fl Fc1 Fc2 SF) as Drop.
      set (d1 := fst (DcelOps.flip_cw d (as_undirected e))) in *.
      assert (L1 : length (d_hedges d1) = length (d_hedges d)) by apply R1.
      assert (Rng1 : forall x, In x (((if fully then [e_prev d e; e_next d e] else []) ++
                                      [e_prev d (rev e); e_next d (rev e)]) ++ rest) -> x < length (d_hedges d1)).
      { intros x Hx. rewrite L1.
        pose proof (dw_prev_lt d W e He). pose proof (dw_next_lt d W e He).
        pose proof (dw_prev_lt d W _ Ht). pose proof (dw_next_lt d W _ Ht).
        apply in_app_or in Hx. destruct Hx as [Hx|Hx]; [|apply Rng'; exact Hx].
        apply in_app_or in Hx. destruct Hx as [Hx|Hx].
        - destruct fully; cbn [In] in Hx; [|tauto]. destruct Hx as [<-|[<-|[]]]; assumption.
        - cbn [In] in Hx. destruct Hx as [<-|[<-|[]]]; assumption. }
      pose proof (IH d1 _ true d' b' W1 EC1 Rng1 Run) as Q. lia.
Qed.

Theorem legalize_pot_monotone : forall pts fuel fully d stack b d' b',
  DW d -> EdgesCcw pts d -> (forall e, In e stack -> e < length (d_hedges d)) ->
  legalize pts fuel fully d stack b = Some (d', b') ->
  (0 <= dcel_pot pts d' <= dcel_pot pts d)%Z.
Proof.
  intros pts fuel fully d stack b d' b' W EC Rng Run.
  destruct (legalize_strong pts fuel fully d stack b d' b' W EC Rng Run) as (W' & EC' & _).
  split; [apply dcel_pot_nonneg; assumption|].
  apply (legalize_pot_le pts fuel fully d stack b d' b' W EC Rng Run).
Qed.

(* the same from the hypotheses of legalize_invariant *)
Corollary legalize_pot_monotone_wf : forall pts fuel fully d stack b d' b',
  DWf d -> FacesCcw (obs_of_dcel d) pts -> (forall e, In e stack -> e < length (d_hedges d)) ->
  legalize pts fuel fully d stack b = Some (d', b') ->
  (0 <= dcel_pot pts d' <= dcel_pot pts d)%Z.
Proof.
  intros pts fuel fully d stack b d' b' Wf FC Rng Run. apply DWf_DW in Wf.
  apply (legalize_pot_monotone pts fuel fully d stack b d' b' Wf (faces_ccw_edges pts d Wf FC) Rng Run).
Qed.

(* ---------------------------------------------------------------- termination: an explicit fuel bound *)
(* every iteration lowers  length stack + 2 * dcel_pot : a dropped edge shortens the stack by one, a flip pushes at most four
   edges after popping one and lowers the potential by at least 3.  So the loop never runs out of fuel once the fuel exceeds
   this measure of the start state -- for every point set, every stack, both modes. *)
Theorem legalize_terminates : forall pts fuel fully d stack b,
  DW d -> EdgesCcw pts d -> (forall e, In e stack -> e < length (d_hedges d)) ->
  (Z.of_nat (length stack) + 2 * dcel_pot pts d < Z.of_nat fuel)%Z ->
  exists r, legalize pts fuel fully d stack b = Some r.
Proof.
  intros pts fuel fully. induction fuel as [|k IH]; intros d stack b W EC Rng M.
  - pose proof (dcel_pot_nonneg pts d W EC). lia.
  - cbn [legalize]. destruct stack as [|e rest].
    + eexists. reflexivity.
    + assert (He : e < length (d_hedges d)) by (apply Rng; left; reflexivity).
      assert (Rng' : forall x, In x rest -> x < length (d_hedges d)) by (intros x Hx; apply Rng; right; exact Hx).
      cbn [length] in M.
      assert (M' : (Z.of_nat (length rest) + 2 * dcel_pot pts d < Z.of_nat k)%Z) by lia.
      destruct (is_flagged d e) eqn:Fl; [apply (IH d rest b W EC Rng' M')|].
      destruct ((e_face d e =? 0) || (e_face d (e_rev e) =? 0)) eqn:Fc; [apply (IH d rest b W EC Rng' M')|].
      destruct (should_flip pts d e) eqn:SF; [|apply (IH d rest b W EC Rng' M')].
      apply orb_false_iff in Fc. destruct Fc as (Fc1 & Fc2).
      apply Nat.eqb_neq in Fc1. apply Nat.eqb_neq in Fc2. unfold e_rev in *.
      pose proof (dw_rev_lt d W e He) as Ht.
      destruct (flip_step pts d e W EC He Fl Fc1 Fc2 SF) as (W1 & EC1 & R1).
      pose proof (flip_lowers_dcel_pot pts d e W EC He Fl Fc1 Fc2 SF) as Drop.
      set (d1 := fst (DcelOps.flip_cw d (as_undirected e))) in *.
      assert (L1 : length (d_hedges d1) = length (d_hedges d)) by apply R1.
      assert (Rng1 : forall x, In x (((if fully then [e_prev d e; e_next d e] else []) ++
                                      [e_prev d (rev e); e_next d (rev e)]) ++ rest) -> x < length (d_hedges d1)).
      { intros x Hx. rewrite L1.
        pose proof (dw_prev_lt d W e He). pose proof (dw_next_lt d W e He).
        pose proof (dw_prev_lt d W _ Ht). pose proof (dw_next_lt d W _ Ht).
        apply in_app_or in Hx. destruct Hx as [Hx|Hx]; [|apply Rng'; exact Hx].
        apply in_app_or in Hx. destruct Hx as [Hx|Hx].
        - destruct fully; cbn [In] in Hx; [|tauto]. destruct Hx as [<-|[<-|[]]]; assumption.
        - cbn [In] in Hx. destruct Hx as [<-|[<-|[]]]; assumption. }
      apply (IH d1 _ true W1 EC1 Rng1).
      rewrite !app_length. destruct fully; cbn [length]; lia.
Qed.

(* in the form "there is a bound on the fuel, depending on the start state only" *)
Corollary legalize_fuel_bound : forall pts fully d stack b,
  DW d -> EdgesCcw pts d -> (forall e, In e stack -> e < length (d_hedges d)) ->
  exists bound, forall fuel, bound <= fuel -> legalize pts fuel fully d stack b <> None.
Proof.
  intros pts fully d stack b W EC Rng.
  exists (S (length stack + 2 * Z.to_nat (dcel_pot pts d))). intros fuel Hf.
  pose proof (dcel_pot_nonneg pts d W EC) as P.
  destruct (legalize_terminates pts fuel fully d stack b W EC Rng) as (r & Hr); [lia|].
  rewrite Hr. discriminate.
Qed.

Print Assumptions legalize_terminates.
Print Assumptions legalize_fuel_bound.
Print Assumptions dcel_pot_nonneg.
Print Assumptions flip_lowers_dcel_pot_exact.
Print Assumptions flip_lowers_dcel_pot.
Print Assumptions legalize_pot_monotone.
Print Assumptions legalize_pot_monotone_wf.

(* termination from the hypotheses of legalize_invariant: with fuel above  |stack| + 2 * dcel_pot  the model never runs out of fuel *)
Corollary legalize_terminates_wf : forall pts fuel fully d stack b,
  DWf d -> FacesCcw (obs_of_dcel d) pts -> (forall e, In e stack -> e < length (d_hedges d)) ->
  (Z.of_nat (length stack) + 2 * dcel_pot pts d < Z.of_nat fuel)%Z ->
  exists r, legalize pts fuel fully d stack b = Some r.
Proof.
  intros pts fuel fully d stack b Wf FC Rng M. apply DWf_DW in Wf.
  apply (legalize_terminates pts fuel fully d stack b Wf (faces_ccw_edges pts d Wf FC) Rng M).
Qed.
Print Assumptions legalize_terminates_wf.

(* totality + the constraint invariant in one statement (CDT legalization): with enough fuel the model returns, and what it returns
   has the same flags and has moved no constraint edge *)
Corollary legalize_total_respects_constraints : forall pts fuel fully d stack b,
  DWf d -> FacesCcw (obs_of_dcel d) pts -> (forall e, In e stack -> e < length (d_hedges d)) ->
  (Z.of_nat (length stack) + 2 * dcel_pot pts d < Z.of_nat fuel)%Z ->
  exists d' b', legalize pts fuel fully d stack b = Some (d', b') /\
    d_flags d' = d_flags d /\
    (forall k, k < Raw.num_undirected_edges d -> nth k (d_flags d) false = true ->
       e_origin d' (2 * k) = e_origin d (2 * k) /\ e_origin d' (2 * k + 1) = e_origin d (2 * k + 1)) /\
    (0 <= dcel_pot pts d' <= dcel_pot pts d)%Z.
Proof.
  intros pts fuel fully d stack b Wf FC Rng M.
  destruct (legalize_terminates_wf pts fuel fully d stack b Wf FC Rng M) as [[d' b'] Run].
  exists d', b'. split; [exact Run|].
  destruct (legalize_never_flips_constraints pts fuel fully d stack b d' b' Wf FC Rng Run) as [Hf Ho].
  split; [exact Hf|]. split; [exact Ho|].
  exact (legalize_pot_monotone_wf pts fuel fully d stack b d' b' Wf FC Rng Run).
Qed.
Print Assumptions legalize_total_respects_constraints.
