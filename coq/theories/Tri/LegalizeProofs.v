(* Tri/LegalizeProofs.v -- the Lawson flipping loop (Tri/Legalize.v, model of TriangulationExt::legalize_edge)
   preserves a well-formed, counter-clockwise triangulation and never touches constraint edges
   (properties C01, C02, C03; family P8).

   PART 1  orientation of an inner face read through any of its three half-edges (FacesCcw <-> every inner
           half-edge sees a counter-clockwise triple)
   PART 2  one geometric flip: FlipPost + should_flip => the apexes differ, DW is kept, all faces stay ccw
   PART 3  the generated flip_cw on the undirected edge of e (either direction of e)
   PART 4  the loop: legalize_invariant, legalize_never_flips_constraints
   PART 5  the decision rule (one-step equations, should_flip as an in-circle statement)
   PART 6  a concrete example (vm_compute) *)
From Coq Require Import ZArith List Bool Arith Lia.
From SpadeV Require Import Geom.Pred Geom.Lemmas Obs.State Obs.Spec Obs.SpecProp Obs.SpecProofs Vmap.Model
  Dcel.Raw Dcel.WfCore Gen.DcelOps Dcel.ProofsFlip Tri.Legalize.
Import ListNotations.

(* ================================================================================================ *)
(* PART 1.  the vertex triple of an inner face, read through any of its half-edges                   *)
(* ================================================================================================ *)

(* orientation of the triple (org x, org (next x), org (prev x)) *)
Definition tri_orient (pts : list pnt) (d : dcel) (x : nat) : Z :=
  orient (vpos pts (e_origin d x)) (vpos pts (e_origin d (e_next d x))) (vpos pts (e_origin d (e_prev d x))).

Definition EdgesCcw (pts : list pnt) (d : dcel) : Prop :=
  forall x, x < length (d_hedges d) -> inner d x -> (0 < tri_orient pts d x)%Z.

Lemma face_tri_adj : forall pts d f a, f_adjacent d f = Some a ->
  orient (tri_a (obs_of_dcel d) pts f) (tri_b (obs_of_dcel d) pts f) (tri_c (obs_of_dcel d) pts f) =
  orient (vpos pts (e_origin d a)) (vpos pts (e_origin d (e_next d a)))
         (vpos pts (e_origin d (e_next d (e_next d a)))).
Proof.
  intros pts d f a Ha. unfold tri_a, tri_b, tri_c, face_tri.
  rewrite obs_adj, Ha. reflexivity.
Qed.

Lemma faces_ccw_edges : forall pts d, DW d -> FacesCcw (obs_of_dcel d) pts -> EdgesCcw pts d.
Proof.
  intros pts d W FC x Hx Ix.
  destruct (dw_tri d W x Hx Ix) as (_ & a & Ha & Ea).
  pose proof (dw_face_lt d W x Hx) as Lf.
  assert (IF : inner_face (obs_of_dcel d) (e_face d x)).
  { unfold inner_face. rewrite obs_nF. unfold inner in Ix. lia. }
  pose proof (FC _ IF) as P. rewrite (face_tri_adj pts d _ a Ha) in P.
  assert (La : a < length (d_hedges d)) by (apply (dw_adj_rng d W (e_face d x) Lf a Ha)).
  assert (Fa : e_face d a = e_face d x).
  { pose proof (dw_fptr d W (e_face d x) Lf) as Q. rewrite Ha in Q. exact Q. }
  assert (Ia : inner d a) by (unfold inner; rewrite Fa; exact Ix).
  destruct (dw_tri_facts d a W La Ia) as (_ & _ & A1 & A2 & A3 & A4 & _).
  unfold tri_orient.
  destruct Ea as [-> | [-> | ->]].
  - rewrite <- A1. exact P.
  - rewrite A1 in P. rewrite A1, A3. rewrite orient_cyclic. exact P.
  - rewrite A1 in P |- *. rewrite A2, A4. rewrite orient_cyclic'. exact P.
Qed.

Lemma edges_ccw_faces : forall pts d, DW d -> EdgesCcw pts d -> FacesCcw (obs_of_dcel d) pts.
Proof.
  intros pts d W EC f (F1 & F2). rewrite obs_nF in F2.
  pose proof (dw_fptr d W f F2) as Q.
  destruct (f_adjacent d f) as [a|] eqn:Ha; [|lia].
  rewrite (face_tri_adj pts d f a Ha).
  assert (La : a < length (d_hedges d)) by (apply (dw_adj_rng d W f F2 a Ha)).
  assert (Ia : inner d a) by (unfold inner; lia).
  pose proof (EC a La Ia) as P. unfold tri_orient in P.
  rewrite (dw_next_next d W a La Ia). exact P.
Qed.

(* ================================================================================================ *)
(* PART 2.  one geometric flip                                                                       *)
(* ================================================================================================ *)

Lemma should_flip_spec : forall pts d e,
  should_flip pts d e = true <->
  (0 < incircle (vpos pts (apex d (e_rev e))) (vpos pts (e_to d e)) (vpos pts (e_origin d e)) (vpos pts (apex d e)))%Z.
Proof. intros pts d e. unfold should_flip. apply Z.ltb_lt. Qed.

Lemma incircle_flip_args : forall p0 p1 p2 p3 : pnt, incircle p2 p1 p0 p3 = incircle p0 p1 p3 p2.
Proof. geom_ring. Qed.

(* the apex of rev e lies strictly inside the circumcircle of the (counter-clockwise) face left of e *)
Lemma should_flip_circumcircle : forall pts d e,
  should_flip pts d e = true <->
  (0 < incircle (vpos pts (e_origin d e)) (vpos pts (e_to d e)) (vpos pts (apex d e)) (vpos pts (apex d (e_rev e))))%Z.
Proof. intros pts d e. rewrite should_flip_spec, incircle_flip_args. reflexivity. Qed.

Lemma should_flip_rev : forall pts d e, should_flip pts d (rev e) = should_flip pts d e.
Proof.
  intros pts d e. unfold should_flip, e_to, e_rev. rewrite rev_rev. f_equal.
  generalize (vpos pts (e_origin d e)) (vpos pts (e_origin d (rev e)))
             (vpos pts (apex d e)) (vpos pts (apex d (rev e))).
  geom_ring.
Qed.

Section FlipGeo.
Variable pts : list pnt.
Variables (d d' : dcel) (e : nat).
Hypothesis W : DW d.
Hypothesis He : e < length (d_hedges d).
Hypothesis Ie : inner d e.
Hypothesis It : inner d (rev e).
Hypothesis Post : FlipPost d d' e.
Hypothesis EC : EdgesCcw pts d.
Hypothesis SF : should_flip pts d e = true.

Notation tw := (rev e).
Notation en := (e_next d e).
Notation ep := (e_prev d e).
Notation tn := (e_next d (rev e)).
Notation tp := (e_prev d (rev e)).
Notation p0 := (vpos pts (e_origin d e)).
Notation p1 := (vpos pts (e_origin d (rev e))).
Notation p2 := (vpos pts (e_origin d (e_prev d (rev e)))).
Notation p3 := (vpos pts (e_origin d (e_prev d e))).

Lemma fg_Ht : tw < length (d_hedges d).
Proof. apply dw_rev_lt; assumption. Qed.

Lemma fg_org_en : e_origin d en = e_origin d tw.
Proof. apply dw_org_next; assumption. Qed.

Lemma fg_org_tn : e_origin d tn = e_origin d e.
Proof. rewrite (dw_org_next d W tw fg_Ht). rewrite rev_rev. reflexivity. Qed.

Lemma fg_pre : (0 < orient p0 p1 p3 /\ 0 < orient p1 p0 p2 /\ 0 < incircle p0 p1 p3 p2)%Z.
Proof.
  split; [|split].
  - pose proof (EC e He Ie) as P. unfold tri_orient in P. rewrite fg_org_en in P. exact P.
  - pose proof (EC tw fg_Ht It) as P. unfold tri_orient in P. rewrite fg_org_tn in P. exact P.
  - apply should_flip_circumcircle in SF. exact SF.
Qed.

Lemma fg_apex_neq : e_origin d ep <> e_origin d tp.
Proof.
  intro E. destruct fg_pre as (P1 & P2 & _). rewrite <- E in P2.
  rewrite orient_swap in P2. lia.
Qed.

Lemma fg_post : (0 < orient p0 p2 p3 /\ 0 < orient p2 p1 p3)%Z.
Proof. destruct fg_pre as (P1 & P2 & P3). apply flip_convex; assumption. Qed.

Lemma fg_DW : DW d'.
Proof. apply (flip_DW' d d' e); try assumption. exact fg_apex_neq. Qed.

Ltac fg_rw := repeat progress rewrite
  ?(flip_N_en d d' e Post), ?(flip_P_en d d' e Post), ?(flip_O_en d d' e Post),
  ?(flip_N_e d d' e Post), ?(flip_P_e d d' e Post), ?(flip_O_e d d' e Post),
  ?(flip_N_tp d d' e Post), ?(flip_P_tp d d' e Post), ?(flip_O_tp d d' e Post),
  ?(flip_N_tn d d' e Post), ?(flip_P_tn d d' e Post), ?(flip_O_tn d d' e Post),
  ?(flip_N_tw d d' e Post), ?(flip_P_tw d d' e Post), ?(flip_O_tw d d' e Post),
  ?(flip_N_ep d d' e Post), ?(flip_P_ep d d' e Post), ?(flip_O_ep d d' e Post).

Lemma fg_edges_ccw : EdgesCcw pts d'.
Proof.
  intros x Hx Ix. rewrite (fp_lenH d d' e Post) in Hx.
  destruct fg_post as (G1 & G2).
  pose proof fg_org_en as Oen. pose proof fg_org_tn as Otn.
  unfold tri_orient.
  destruct (flip_six_cases d e He x) as [->|[->|[->|[->|[->|[->|U]]]]]].
  1-6: fg_rw; rewrite ?Oen, ?Otn.
  1-6: first [ assumption | rewrite orient_cyclic; assumption | rewrite orient_cyclic'; assumption ].
  - destruct (flip_untouched_closed d e W He Ie It x Hx U) as (UN & UP).
    destruct (flip_other_fields d d' e Post x U) as (E1 & E2 & E3 & E4).
    destruct (flip_other_fields d d' e Post _ UN) as (_ & _ & _ & N4).
    destruct (flip_other_fields d d' e Post _ UP) as (_ & _ & _ & P4).
    rewrite E1, E2, E4, N4, P4.
    apply (EC x Hx). unfold inner in *. rewrite <- E3. exact Ix.
Qed.

End FlipGeo.

(* ================================================================================================ *)
(* PART 3.  the generated flip_cw on the undirected edge of e                                        *)
(* ================================================================================================ *)

(* what one run of the loop may change: nothing but half-edge links of unflagged edges *)
Definition StepRel (d d' : dcel) : Prop :=
  length (d_verts d') = length (d_verts d) /\ length (d_faces d') = length (d_faces d) /\
  length (d_hedges d') = length (d_hedges d) /\ d_flags d' = d_flags d /\
  (forall v, let a := nth v (d_verts d') dflt_v in let b0 := nth v (d_verts d) dflt_v in
             v_x a = v_x b0 /\ v_y a = v_y b0 /\ v_data a = v_data b0) /\
  (forall x, e_face d' x = 0 <-> e_face d x = 0) /\
  (forall x, is_flagged d x = true -> e_origin d' x = e_origin d x).

Lemma StepRel_refl : forall d, StepRel d d.
Proof. intros d. unfold StepRel. repeat split; auto. Qed.

Lemma StepRel_trans : forall d1 d2 d3, StepRel d1 d2 -> StepRel d2 d3 -> StepRel d1 d3.
Proof.
  intros d1 d2 d3 (A1 & A2 & A3 & A4 & A5 & A6 & A7) (B1 & B2 & B3 & B4 & B5 & B6 & B7).
  unfold StepRel. split; [|split; [|split; [|split; [|split; [|split]]]]].
  - congruence.
  - congruence.
  - congruence.
  - congruence.
  - intros v. cbv zeta. destruct (A5 v) as (X1 & X2 & X3). destruct (B5 v) as (Y1 & Y2 & Y3).
    cbv zeta in *. repeat split; congruence.
  - intros x. rewrite B6. apply A6.
  - intros x Fx. rewrite B7; [apply A7; exact Fx|].
    unfold is_flagged in *. rewrite A4. exact Fx.
Qed.

Lemma div2_cases : forall e,
  (e = 2 * Nat.div2 e /\ rev e = 2 * Nat.div2 e + 1) \/ (e = 2 * Nat.div2 e + 1 /\ rev e = 2 * Nat.div2 e).
Proof.
  intros e. destruct (rev_cases e) as [k [[E R]|[E R]]].
  - assert (K : Nat.div2 e = k) by (rewrite E; apply Nat.div2_double).
    left. rewrite K. split; assumption.
  - assert (K : Nat.div2 e = k).
    { rewrite E. replace (2 * k + 1) with (S (2 * k)) by lia. apply Nat.div2_succ_double. }
    right. rewrite K. split; assumption.
Qed.

Lemma flip_step : forall pts d e, DW d -> EdgesCcw pts d -> e < length (d_hedges d) ->
  is_flagged d e = false -> inner d e -> inner d (rev e) -> should_flip pts d e = true ->
  let d1 := fst (DcelOps.flip_cw d (as_undirected e)) in
  DW d1 /\ EdgesCcw pts d1 /\ StepRel d d1.
Proof.
  intros pts d e W EC He Fl Ie It SF d1. unfold as_undirected in d1.
  set (k := Nat.div2 e) in *.
  assert (Hk : k < Raw.num_undirected_edges d).
  { unfold Raw.num_undirected_edges. pose proof (dw_even d W) as Ev.
    destruct (div2_cases e) as [(E & _)|(E & _)]; fold k in E; lia. }
  destruct (dw_double_lt d W k Hk) as (He0 & _).
  assert (Pre : inner d (2 * k) /\ inner d (rev (2 * k)) /\ should_flip pts d (2 * k) = true).
  { destruct (div2_cases e) as [(E & R)|(E & R)]; fold k in E, R.
    - rewrite <- E. auto.
    - rewrite <- R. rewrite rev_rev. rewrite should_flip_rev. auto. }
  destruct Pre as (Ie0 & It0 & SF0).
  pose proof (flip_cw_post d k W Hk Ie0 It0) as Post. fold d1 in Post.
  split; [|split].
  - apply (fg_DW pts d d1 (2 * k)); assumption.
  - apply (fg_edges_ccw pts d d1 (2 * k)); assumption.
  - unfold StepRel. split; [|split; [|split; [|split; [|split; [|split]]]]].
    + apply (fp_lenV d d1 _ Post).
    + apply (fp_lenF d d1 _ Post).
    + apply (fp_lenH d d1 _ Post).
    + apply (fp_flags d d1 _ Post).
    + apply (fp_vdata d d1 _ Post).
    + apply (flip_face0 d d1 (2 * k)); assumption.
    + intros x Fx. apply (flip_org_keep d d1 (2 * k) He0 Post).
      * intro E. subst x. unfold is_flagged in Fx, Fl. rewrite Nat.div2_double in Fx. fold k in Fl. congruence.
      * intro E. subst x. rewrite rev_even in Fx. unfold is_flagged in Fx, Fl.
        replace (2 * k + 1) with (S (2 * k)) in Fx by lia. rewrite Nat.div2_succ_double in Fx.
        fold k in Fl. congruence.
Qed.

(* ================================================================================================ *)
(* PART 4.  the loop                                                                                 *)
(* ================================================================================================ *)

Lemma legalize_strong : forall pts fuel fully d stack b d' b',
  DW d -> EdgesCcw pts d -> (forall e, In e stack -> e < length (d_hedges d)) ->
  legalize pts fuel fully d stack b = Some (d', b') ->
  DW d' /\ EdgesCcw pts d' /\ StepRel d d'.
Proof.
  intros pts fuel fully. induction fuel as [|k IH]; intros d stack b d' b' W EC Rng Run.
  - cbn [legalize] in Run. discriminate.
  - cbn [legalize] in Run. destruct stack as [|e rest].
    + injection Run as <- <-. split; [exact W|split; [exact EC|apply StepRel_refl]].
    + assert (He : e < length (d_hedges d)) by (apply Rng; left; reflexivity).
      assert (Rng' : forall x, In x rest -> x < length (d_hedges d)) by (intros x Hx; apply Rng; right; exact Hx).
      destruct (is_flagged d e) eqn:Fl; [apply (IH d rest b d' b' W EC Rng' Run)|].
      destruct ((e_face d e =? 0) || (e_face d (e_rev e) =? 0)) eqn:Fc; [apply (IH d rest b d' b' W EC Rng' Run)|].
      destruct (should_flip pts d e) eqn:SF; [|apply (IH d rest b d' b' W EC Rng' Run)].
      apply orb_false_iff in Fc. destruct Fc as (Fc1 & Fc2).
      apply Nat.eqb_neq in Fc1. apply Nat.eqb_neq in Fc2. unfold e_rev in *.
      pose proof (dw_rev_lt d W e He) as Ht.
      destruct (flip_step pts d e W EC He Fl Fc1 Fc2 SF) as (W1 & EC1 & R1).
      set (d1 := fst (DcelOps.flip_cw d (as_undirected e))) in *.
      assert (L1 : length (d_hedges d1) = length (d_hedges d)) by apply R1.
      assert (Rng1 : forall x, In x (((if fully then [e_prev d e; e_next d e] else []) ++
                                      [e_prev d (rev e); e_next d (rev e)]) ++ rest) -> x < length (d_hedges d1)).
      { intros x Hx. rewrite L1.
        pose proof (dw_prev_lt d W e He). pose proof (dw_next_lt d W e He).
        pose proof (dw_prev_lt d W _ Ht). pose proof (dw_next_lt d W _ Ht).
        apply in_app_or in Hx. destruct Hx as [Hx|Hx]; [|apply Rng'; exact Hx].
        apply in_app_or in Hx. destruct Hx as [Hx|Hx].
        - destruct fully; cbn [In] in Hx; [|tauto]. destruct Hx as [<-|[<-|[]]]; assumption.
        - cbn [In] in Hx. destruct Hx as [<-|[<-|[]]]; assumption. }
      destruct (IH d1 _ true d' b' W1 EC1 Rng1 Run) as (W' & EC' & R').
      split; [exact W'|split; [exact EC'|]].
      apply (StepRel_trans d d1 d'); assumption.
Qed.

Theorem legalize_invariant : forall pts fuel fully d stack b d' b',
  DWf d -> FacesCcw (obs_of_dcel d) pts -> (forall e, In e stack -> e < length (d_hedges d)) ->
  legalize pts fuel fully d stack b = Some (d', b') ->
     DWf d' /\ FacesCcw (obs_of_dcel d') pts
  /\ Raw.num_vertices d' = Raw.num_vertices d /\ Raw.num_undirected_edges d' = Raw.num_undirected_edges d
  /\ Raw.num_faces d' = Raw.num_faces d
  /\ d_flags d' = d_flags d
  /\ (forall v, v < Raw.num_vertices d -> let a := nth v (d_verts d') dflt_v in let b0 := nth v (d_verts d) dflt_v in
                v_x a = v_x b0 /\ v_y a = v_y b0 /\ v_data a = v_data b0)
  /\ (forall x, x < length (d_hedges d) -> (e_face d' x = 0 <-> e_face d x = 0)).
Proof.
  intros pts fuel fully d stack b d' b' Wf FC Rng Run.
  apply DWf_DW in Wf.
  destruct (legalize_strong pts fuel fully d stack b d' b' Wf (faces_ccw_edges pts d Wf FC) Rng Run)
    as (W' & EC' & R1 & R2 & R3 & R4 & R5 & R6 & R7).
  split; [apply DWf_DW; exact W'|].
  split; [apply edges_ccw_faces; assumption|].
  unfold Raw.num_vertices, Raw.num_undirected_edges, Raw.num_faces.
  split; [exact R1|]. split; [rewrite R4; reflexivity|]. split; [exact R2|]. split; [exact R4|].
  split; [intros v _; apply R5|intros x _; apply R6].
Qed.

Theorem legalize_never_flips_constraints : forall pts fuel fully d stack b d' b',
  DWf d -> FacesCcw (obs_of_dcel d) pts -> (forall e, In e stack -> e < length (d_hedges d)) ->
  legalize pts fuel fully d stack b = Some (d', b') ->
  d_flags d' = d_flags d /\
  forall k, k < Raw.num_undirected_edges d -> nth k (d_flags d) false = true ->
    e_origin d' (2 * k) = e_origin d (2 * k) /\ e_origin d' (2 * k + 1) = e_origin d (2 * k + 1).
Proof.
  intros pts fuel fully d stack b d' b' Wf FC Rng Run.
  apply DWf_DW in Wf.
  destruct (legalize_strong pts fuel fully d stack b d' b' Wf (faces_ccw_edges pts d Wf FC) Rng Run)
    as (_ & _ & _ & _ & _ & R4 & _ & _ & R7).
  split; [exact R4|]. intros k _ Fk. split; apply R7; unfold is_flagged.
  - rewrite Nat.div2_double. exact Fk.
  - replace (2 * k + 1) with (S (2 * k)) by lia. rewrite Nat.div2_succ_double. exact Fk.
Qed.

(* ================================================================================================ *)
(* PART 5.  the decision rule                                                                        *)
(* ================================================================================================ *)

(* a flip is performed on the popped edge e exactly in this situation ... *)
Theorem legalize_flipped_edges_were_illegal : forall pts k fully d stack e rest b,
  stack = e :: rest ->
  is_flagged d e = false -> e_face d e <> 0 -> e_face d (e_rev e) <> 0 -> should_flip pts d e = true ->
  legalize pts (S k) fully d stack b =
  legalize pts k fully (fst (DcelOps.flip_cw d (as_undirected e)))
    (((if fully then [e_prev d e; e_next d e] else []) ++ [e_prev d (e_rev e); e_next d (e_rev e)]) ++ rest) true.
Proof.
  intros pts k fully d stack e rest b -> Fl F1 F2 SF. cbn [legalize].
  apply Nat.eqb_neq in F1. apply Nat.eqb_neq in F2.
  rewrite Fl, F1, F2, SF. reflexivity.
Qed.

(* ... and in every other situation the popped edge is dropped and the dcel is left alone *)
Theorem legalize_legal_edges_are_kept : forall pts k fully d stack e rest b,
  stack = e :: rest ->
  is_flagged d e = true \/ e_face d e = 0 \/ e_face d (e_rev e) = 0 \/ should_flip pts d e = false ->
  legalize pts (S k) fully d stack b = legalize pts k fully d rest b.
Proof.
  intros pts k fully d stack e rest b -> H. cbn [legalize].
  destruct (is_flagged d e); [reflexivity|].
  destruct (e_face d e =? 0) eqn:F1; [reflexivity|].
  destruct (e_face d (e_rev e) =? 0) eqn:F2; [reflexivity|].
  cbn [orb]. destruct (should_flip pts d e); [|reflexivity].
  apply Nat.eqb_neq in F1. apply Nat.eqb_neq in F2.
  destruct H as [H|[H|[H|H]]]; congruence.
Qed.

(* so: the first iteration changes the dcel only if e is free, has two inner faces, and fails the in-circle test *)
Corollary legalize_flip_only_if_illegal : forall pts k fully d e rest b,
  legalize pts (S k) fully d (e :: rest) b <> legalize pts k fully d rest b ->
  is_flagged d e = false /\ e_face d e <> 0 /\ e_face d (e_rev e) <> 0 /\
  (0 < incircle (vpos pts (e_origin d e)) (vpos pts (e_to d e)) (vpos pts (apex d e)) (vpos pts (apex d (e_rev e))))%Z.
Proof.
  intros pts k fully d e rest b N.
  destruct (is_flagged d e) eqn:Fl.
  { exfalso. apply N. apply (legalize_legal_edges_are_kept pts k fully d _ e rest b eq_refl). auto. }
  destruct (Nat.eq_dec (e_face d e) 0) as [F1|F1].
  { exfalso. apply N. apply (legalize_legal_edges_are_kept pts k fully d _ e rest b eq_refl). auto. }
  destruct (Nat.eq_dec (e_face d (e_rev e)) 0) as [F2|F2].
  { exfalso. apply N. apply (legalize_legal_edges_are_kept pts k fully d _ e rest b eq_refl). auto. }
  destruct (should_flip pts d e) eqn:SF.
  - apply should_flip_circumcircle in SF. auto.
  - exfalso. apply N. apply (legalize_legal_edges_are_kept pts k fully d _ e rest b eq_refl). auto.
Qed.

(* the geometric content of the test, in a well-formed ccw triangulation: the face left of e is counter-clockwise, so
   the in-circle sign really means "apex of rev e strictly inside the circumcircle of the face left of e" *)
Lemma should_flip_geometric : forall pts d e, DWf d -> FacesCcw (obs_of_dcel d) pts ->
  e < length (d_hedges d) -> e_face d e <> 0 ->
  (0 < orient (vpos pts (e_origin d e)) (vpos pts (e_to d e)) (vpos pts (apex d e)))%Z /\
  (should_flip pts d e = true <->
   (0 < incircle (vpos pts (e_origin d e)) (vpos pts (e_to d e)) (vpos pts (apex d e)) (vpos pts (apex d (e_rev e))))%Z).
Proof.
  intros pts d e Wf FC He Ie. apply DWf_DW in Wf. split; [|apply should_flip_circumcircle].
  pose proof (faces_ccw_edges pts d Wf FC e He Ie) as P. unfold tri_orient in P.
  rewrite (dw_org_next d Wf e He) in P. exact P.
Qed.

(* ================================================================================================ *)
(* PART 6.  a concrete example: two triangles over a long shared edge, one flip required             *)
(* ================================================================================================ *)

Module Ex.
(* vertices 0,1 then the triangle (0,1,2) left of edge 0 and the triangle (1,0,3) left of edge 1 *)
Definition d1 : dcel := fst (DcelOps.insert_first_vertex dcel_new (mkvd 0 0 10)).
Definition d2 : dcel := fst (DcelOps.insert_second_vertex d1 (mkvd 0 0 11)).
Definition d3 : dcel := fst (DcelOps.create_new_face_adjacent_to_edge d2 0 (mkvd 0 0 12)).
Definition d4 : dcel := fst (DcelOps.create_new_face_adjacent_to_edge d3 1 (mkvd 0 0 13)).
Definition pts : list pnt := [(0, 0); (4, 0); (2, 1); (2, -1)]%Z.
Definition flipped : dcel := fst (DcelOps.flip_cw d4 0).

Example ex_wf : DWf d4.
Proof. apply wfcore_b_spec. vm_compute. reflexivity. Qed.

Example ex_ccw : faces_ccw (obs_of_dcel d4) pts = true.
Proof. vm_compute. reflexivity. Qed.

Example ex_edge0 : (e_origin d4 0, e_to d4 0, apex d4 0, apex d4 1, e_face d4 0, e_face d4 1) = (0, 1, 2, 3, 1, 2).
Proof. vm_compute. reflexivity. Qed.

Example ex_should_flip : should_flip pts d4 0 = true.
Proof. vm_compute. reflexivity. Qed.

(* one flip is performed, from either direction of the edge and in both modes; the pushed neighbours are hull edges *)
Example ex_legalize : legalize_edge pts 10 d4 0 false = Some (flipped, true).
Proof. vm_compute. reflexivity. Qed.

Example ex_legalize_rev : legalize_edge pts 10 d4 1 false = Some (flipped, true).
Proof. vm_compute. reflexivity. Qed.

Example ex_legalize_fully : legalize_edge pts 10 d4 0 true = Some (flipped, true).
Proof. vm_compute. reflexivity. Qed.

(* the edge now joins the two former apexes; the result is well-formed, ccw, and the new edge is legal *)
Example ex_flipped_edge : (e_origin flipped 0, e_to flipped 0, apex flipped 0, apex flipped 1) = (2, 3, 1, 0).
Proof. vm_compute. reflexivity. Qed.

Example ex_flipped_wf : DWf flipped.
Proof. apply wfcore_b_spec. vm_compute. reflexivity. Qed.

Example ex_flipped_ccw : faces_ccw (obs_of_dcel flipped) pts = true.
Proof. vm_compute. reflexivity. Qed.

Example ex_flipped_legal : legalize_edge pts 10 flipped 0 true = Some (flipped, false).
Proof. vm_compute. reflexivity. Qed.

(* a flagged (constraint) edge is never flipped, whatever the in-circle test says *)
Definition d4c : dcel := mkdcel (d_verts d4) (d_hedges d4) (d_faces d4) [true; false; false; false; false].
Example ex_constraint_kept : legalize_edge pts 10 d4c 0 true = Some (d4c, false).
Proof. vm_compute. reflexivity. Qed.
End Ex.

Print Assumptions legalize_invariant.
Print Assumptions legalize_never_flips_constraints.
Print Assumptions legalize_flipped_edges_were_illegal.
Print Assumptions legalize_flip_only_if_illegal.
