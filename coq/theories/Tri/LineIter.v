(* Tri/LineIter.v -- hand-written executable model of LineIntersectionIterator (src/intersection_iterator.rs):
   get_first_intersection (one branch per PositionInTriangulation), get_next (one branch per kind of the current item),
   get_first_edge_from_edge_ring, trace_direction_out_of_vertex, trace_direction_out_of_edge, and Iterator::next collected into a list.
   The start of `new` is the answer of locate_with_hint_option_core(line_from, None); it is a parameter (`lstart`).  For the
   degenerate states (fewer than two vertices, all vertices on one line) locate is deterministic and modelled here
   (`locate_degenerate`: locate_with_hint_fixed_core's first two branches, locate_when_all_vertices_on_line and
   to_regular_position_in_triangulation of triangulation_ext.rs); for two-dimensional states the start comes from Tri/Locate.v.
   Predicates: side_query is the sign of the exact orientation determinant; the comparisons on floating-point projections
   (PointProjection::is_before_edge / is_behind_edge, Point2::distance_2, the dot product in the OnEdge branch) are decided with
   exact integer arithmetic -- the correspondence (Check/RunModel.v) is restricted to inputs on which the floating-point
   evaluation is exact or provably takes the same branch.
   Loops: the hull walk carries the code's own counter (num_directed_edges; running out RETURNS None as in the code);
   the rotation around a vertex and the iteration itself carry explicit fuel (None = out of fuel).  Panics of the code
   (assert! / debug_assert! / panic! / unwrap) are also None.  Also modelled: the users of the iterator in cdt.rs
   (get_conflicting_edges_between_points / _between_vertices, intersects_constraint).  Definitions only.
   Tie to the code (Check/RunModel.v, tag corr): the item list of every `line` / `lineh` operation (and the edge list / answer of every
   confp / confv / isc operation) must be the model's, item for item; for `line` on two-dimensional states the start is the model's locate
   answer from some start vertex (the hint comes from the hint generator). *)
From Coq Require Import ZArith List Bool Arith.
From SpadeV Require Import Geom.Pred Obs.State Obs.LineSpec Dcel.Raw Query.Hull Tri.Legalize Tri.Insert Tri.Locate.
Import ListNotations.

(* PositionInTriangulation *)
Inductive lstart := LsVertex (v : nat) | LsEdge (e : nat) | LsFace (f : nat) | LsOutside (e : nat) | LsNoTri.
(* VertexOutDirection, EdgeOutDirection *)
Inductive vdir := VHull | VOverlap (e : nat) | VInter (e : nat).
Inductive edir := EHull | EVert (v : nat) | EInter (e : nat) | ENoInter.

Definition lstart_of_lres (r : lres) : option lstart :=
  match r with
  | ROnVertex v => Some (LsVertex v)
  | ROnEdge e => Some (LsEdge e)
  | ROnFace f => Some (LsFace f)
  | ROutside e => Some (LsOutside e)
  | RPanic => None
  end.

(* LineSideInfo::eq on the determinants *)
Definition lsi_eqb (x y : Z) : bool :=
  if (x =? 0)%Z || (y =? 0)%Z then (x =? 0)%Z && (y =? 0)%Z else Bool.eqb (x <? 0)%Z (y <? 0)%Z.

(* math::project_point(p1, p2, q): factor = (q - p1).(p2 - p1), length_2 = |p2 - p1|^2 *)
Definition proj_before (p1 p2 q : pnt) : bool := (dot p1 p2 q <? 0)%Z.                 (* is_before_edge: factor < 0 *)
Definition proj_behind (p1 p2 q : pnt) : bool := (dist2 p1 p2 <? dot p1 p2 q)%Z.        (* is_behind_edge: factor > length_2 *)
Definition proj_on_edge (p1 p2 q : pnt) : bool := negb (proj_before p1 p2 q) && negb (proj_behind p1 p2 q).

(* math::intersects_edge_non_collinear(from0, to0, from1, to1) and DirectedEdgeHandle::intersects_edge_non_collinear
   (the same four queries); None = the assertion "Given edge is collinear" fails *)
Definition inc (f0 t0 f1 t1 : pnt) : option bool :=
  let o_from := orient f0 t0 f1 in
  let o_to := orient f0 t0 t1 in
  let s_from := orient f1 t1 f0 in
  let s_to := orient f1 t1 t0 in
  if (o_from =? 0)%Z && (o_to =? 0)%Z && (s_from =? 0)%Z && (s_to =? 0)%Z then None
  else Some (negb (lsi_eqb o_from o_to) && negb (lsi_eqb s_from s_to)).

Section LI.
Variable pts : list pnt.            (* exact vertex positions, by vertex index *)
Variable d : dcel.
Variable a b : pnt.                 (* line_from, line_to *)

Definition pfrom (e : nat) : pnt := vpos pts (e_origin d e).
Definition pto (e : nat) : pnt := vpos pts (e_to d e).
Definition eside (e : nat) (q : pnt) : Z := orient (pfrom e) (pto e) q.     (* DirectedEdgeHandle::side_query *)

(* ---- get_first_edge_from_edge_ring ---- *)
Fixpoint ring_first (l : list nat) : option (option litem) :=
  match l with
  | [] => Some None
  | e :: t =>
    if (eside e a <? 0)%Z then None                                       (* debug_assert!: line_from left of or on every edge of the face *)
    else
      match inc a b (pfrom e) (pto e) with
      | None => None
      | Some true =>
          if (orient a b (pfrom e) =? 0)%Z then Some (Some (IV (e_origin d e)))
          else if (orient a b (pto e) =? 0)%Z then Some (Some (IV (e_to d e)))
          else Some (Some (IX (e_rev e)))
      | Some false => ring_first t
      end
  end.

(* FaceHandle::adjacent_edges: [e1.prev, e1, e1.next] for e1 = adjacent_edge *)
Definition face_ring (f : nat) : option (list nat) :=
  match f_adjacent d f with
  | Some e1 => Some [e_prev d e1; e1; e_next d e1]
  | None => None
  end.

(* ---- the OutsideOfConvexHull branch: walk along the outer face; `k` = remaining_steps, `lfq` = line_from_query (computed once) ---- *)
Fixpoint hull_first (k : nat) (lfq : Z) (e : nat) : option (option litem) :=
  match k with
  | O => Some None
  | S k' =>
    if (lfq =? 0)%Z then
      let vertex := if (dist2 (pto e) a <? dist2 (pfrom e) a)%Z then e_to d e else e_origin d e in
      let vp := vpos pts vertex in
      if (orient a b vp =? 0)%Z && negb (pnt_eqb a b) && proj_on_edge a b vp then Some (Some (IV vertex)) else Some None
    else if (0 <? eside e b)%Z then Some None
    else
      let fq := orient a b (pfrom e) in
      let tq := orient a b (pto e) in
      match (0 <? fq)%Z, (0 <=? tq)%Z with
      | true, true => hull_first k' lfq (e_prev d e)
      | false, false => hull_first k' lfq (e_next d e)
      | false, true =>
          if (tq =? 0)%Z then Some (Some (IV (e_to d e)))
          else if (fq =? 0)%Z then Some (Some (IV (e_origin d e)))
          else Some (Some (IX (e_rev e)))
      | true, false => None                                               (* panic!("Unexpected edge topology") *)
      end
  end.

(* ---- get_first_intersection ---- *)
Definition first_intersection (start : lstart) : option (option litem) :=
  match start with
  | LsOutside e => hull_first (num_directed_edges d) (eside e a) e
  | LsFace f => match face_ring f with Some r => ring_first r | None => None end
  | LsVertex v => Some (Some (IV v))
  | LsEdge e =>
      let fq := orient a b (pfrom e) in
      let tq := orient a b (pto e) in
      if (fq =? 0)%Z && (tq =? 0)%Z then
        (* edge_direction.dot(line_direction) > 0 *)
        let dd := ((fst (pto e) - fst (pfrom e)) * (fst b - fst a) + (snd (pto e) - snd (pfrom e)) * (snd b - snd a))%Z in
        if (0 <? dd)%Z then Some (Some (IO e)) else Some (Some (IO (e_rev e)))
      else if (0 <? eside e b)%Z then Some (Some (IX e)) else Some (Some (IX (e_rev e)))
  | LsNoTri =>
      if 0 <? Raw.num_vertices d then                                       (* delaunay.vertices().next() *)
        let sv := vpos pts 0 in
        if pnt_eqb a b then (if pnt_eqb sv a then Some (Some (IV 0)) else Some None)
        else if proj_on_edge a b sv && (orient a b sv =? 0)%Z then Some (Some (IV 0))
        else Some None
      else Some None
  end.

(* ---- trace_direction_out_of_vertex: the rotation loop (no counter in the code: explicit fuel) ---- *)
Fixpoint vertex_out_loop (k : nat) (iterate_ccw : bool) (cur : nat) (cq : Z) : option vdir :=
  match k with
  | O => None
  | S k' =>
    if (cq =? 0)%Z && negb (proj_before (pfrom cur) (pto cur) b) then Some (VOverlap cur)
    else
      let nxt := if iterate_ccw then d_ccw d cur else d_cw d cur in
      let nq := eside nxt b in
      if (nq =? 0)%Z && negb (proj_before (pfrom nxt) (pto nxt) b) then Some (VOverlap nxt)
      else
        let f := if iterate_ccw then e_face d cur else e_face d nxt in
        if f =? 0 then Some VHull
        else if Bool.eqb iterate_ccw (nq <? 0)%Z then
          let segment_edge := if iterate_ccw then e_next d cur else e_prev d (e_rev cur) in
          Some (VInter (e_rev segment_edge))
        else vertex_out_loop k' iterate_ccw nxt nq
  end.
Definition vertex_out (fuel : nat) (v : nat) : option vdir :=
  match v_out_edge d v with
  | None => Some VHull
  | Some e0 =>
      let q0 := eside e0 b in
      vertex_out_loop fuel (0 <? q0)%Z e0 q0
  end.

(* ---- trace_direction_out_of_edge ---- *)
Definition edge_out (e : nat) : option edir :=
  if (eside e b <? 0)%Z then None                                          (* debug_assert!: the target is left of or on the current edge *)
  else if is_outer d e then Some EHull
  else
    let e_prev_ := e_prev d e in
    let o_next := e_next d e in
    match inc (pfrom e_prev_) (pto e_prev_) a b, inc (pfrom o_next) (pto o_next) a b with
    | Some true, Some false => Some (EInter (e_rev e_prev_))
    | Some false, Some true => Some (EInter (e_rev o_next))
    | Some true, Some true => Some (EVert (e_origin d e_prev_))
    | Some false, Some false => Some ENoInter
    | _, _ => None
    end.

(* ---- get_next ---- *)
Definition get_next (fuel : nat) (cur : litem) : option (option litem) :=
  match cur with
  | IX e =>
      match edge_out e with
      | Some EHull => Some None
      | Some (EVert v) => Some (Some (IV v))
      | Some (EInter e') => Some (Some (IX e'))
      | Some ENoInter => Some None
      | None => None
      end
  | IV v =>
      if pnt_eqb (vpos pts v) b then Some None
      else
        match vertex_out fuel v with
        | Some VHull => Some None
        | Some (VOverlap e) => Some (Some (IO e))
        | Some (VInter e) => if (eside e b <? 0)%Z then Some None else Some (Some (IX e))
        | None => None
        end
  | IO e =>
      if pnt_eqb a b then Some None
      else if proj_on_edge a b (pto e) then Some (Some (IV (e_to d e)))
      else Some None
  end.

(* Iterator::next until None, collected *)
Fixpoint iterate (fuel : nat) (k : nat) (cur : option litem) : option (list litem) :=
  match cur with
  | None => Some []
  | Some it =>
    match k with
    | O => None
    | S k' =>
      match get_next fuel it with
      | None => None
      | Some nx => match iterate fuel k' nx with Some r => Some (it :: r) | None => None end
      end
    end
  end.
End LI.

(* LineIntersectionIterator::new(...).collect() given the answer of locate *)
Definition line_iter (pts : list pnt) (fuel : nat) (d : dcel) (a b : pnt) (start : lstart) : option (list litem) :=
  match first_intersection pts d a b start with
  | None => None
  | Some f => iterate pts d a b fuel fuel f
  end.

(* LineIntersectionIterator::new_from_handles(from, to).collect() *)
Definition line_iter_handles (pts : list pnt) (fuel : nat) (d : dcel) (va vb : nat) : option (list litem) :=
  iterate pts d (vpos pts va) (vpos pts vb) fuel fuel (Some (IV va)).

(* ---- users of the iterator in cdt.rs ---- *)
(* get_conflicting_edges_between_points / _between_vertices: flat_map(as_edge_intersection).filter(is_constraint_edge), collected *)
Definition conflicting_of (d : dcel) (l : list litem) : list nat :=
  flat_map (fun it => match it with IX e => if is_flagged d e then [e] else [] | _ => [] end) l.
Definition conflicting_edges_points (pts : list pnt) (fuel : nat) (d : dcel) (a b : pnt) (start : lstart) : option (list nat) :=
  option_map (conflicting_of d) (line_iter pts fuel d a b start).
Definition conflicting_edges_vertices (pts : list pnt) (fuel : nat) (d : dcel) (va vb : nat) : option (list nat) :=
  option_map (conflicting_of d) (line_iter_handles pts fuel d va vb).

(* Iterator::any over the iterator (intersects_constraint / contains_any_constraint_edge): stops at the first hit; Iterator::next has
   already computed the follower of the item it returns *)
Fixpoint iterate_any (pts : list pnt) (d : dcel) (a b : pnt) (pred : litem -> bool) (fuel k : nat) (cur : option litem) : option bool :=
  match cur with
  | None => Some false
  | Some it =>
    match k with
    | O => None
    | S k' =>
      match get_next pts d a b fuel it with
      | None => None
      | Some nx => if pred it then Some true else iterate_any pts d a b pred fuel k' nx
      end
    end
  end.
Definition intersects_constraint (pts : list pnt) (fuel : nat) (d : dcel) (a b : pnt) (start : lstart) : option bool :=
  match first_intersection pts d a b start with
  | None => None
  | Some f => iterate_any pts d a b (fun it => match it with IX e => is_flagged d e | _ => false end) fuel fuel f
  end.

(* ---- locate_with_hint_fixed_core on degenerate states (deterministic) ---- *)
Section LD.
Variable pts : list pnt.
Variable d : dcel.
Variable q : pnt.

(* Point2's derived PartialOrd: lexicographic on (x, y) *)
Definition lex_ltb (p1 p2 : pnt) : bool := (fst p1 <? fst p2)%Z || ((fst p1 =? fst p2)%Z && (snd p1 <? snd p2)%Z).
Fixpoint ins_sorted (v : nat) (l : list nat) : list nat :=
  match l with
  | [] => [v]
  | w :: t => if lex_ltb (vpos pts w) (vpos pts v) then w :: ins_sorted v t else v :: l
  end.
Definition sorted_vertices : list nat := fold_right ins_sorted [] (seq 0 (Raw.num_vertices d)).

(* DCEL::get_edge_from_neighbors *)
Definition edge_from_neighbors (v1 v2 : nat) : option nat :=
  find (fun e => e_to d e =? v2) (out_edges_of d v1).

(* locate_when_all_vertices_on_line followed by to_regular_position_in_triangulation;
   the sort + binary search of the code is the split of the sorted vertices at q (positions are pairwise distinct) *)
Definition locate_line : option lstart :=
  let o := orient (vpos pts (e_origin d 0)) (vpos pts (e_to d 0)) q in
  if (0 <? o)%Z then Some (LsOutside 0)
  else if (o <? 0)%Z then Some (LsOutside (e_rev 0))
  else
    let vs := sorted_vertices in
    match find (fun v => pnt_eqb (vpos pts v) q) vs with
    | Some v => Some (LsVertex v)
    | None =>
      let smaller := filter (fun v => lex_ltb (vpos pts v) q) vs in
      let greater := filter (fun v => negb (lex_ltb (vpos pts v) q)) vs in
      match List.rev smaller, greater with
      | [], g :: _ => option_map LsOutside (v_out_edge d g)                 (* ExtendingLine(first) -> its out edge *)
      | s :: _, [] => option_map LsOutside (v_out_edge d s)                 (* ExtendingLine(last) *)
      | s :: _, g :: _ => option_map LsEdge (edge_from_neighbors g s)       (* edge from vertices[index] to vertices[index - 1] *)
      | [], [] => None
      end
    end.

Definition locate_degenerate : option lstart :=
  if Raw.num_vertices d <? 2 then
    (if (Raw.num_vertices d =? 1) && pnt_eqb (vpos pts 0) q then Some (LsVertex 0) else Some LsNoTri)
  else locate_line.
End LD.
