(* Tri/LineIterProofs.v -- soundness of the line intersection iterator model (Tri/LineIter.v) against the specification
   Obs/LineSpec.v / Query/ViewProp.v (property C17).  For a well-formed DCEL (DWf) with counter-clockwise inner faces and pairwise
   distinct positions, and a start that is a correct answer of point location for line_from (Tri/LocateProofs.v):
     (a) every item returned is valid (item_valid / ItemValid): IX e is properly crossed by the open segment or has line_from / line_to in its
         relative interior and line_to is not on its right; IV v lies on the closed segment; IO e is collinear with, overlaps and points along it;
     (b) consecutive items are adjacent (`Step`: the next edge intersection is a side of the face left of the current one, the vertex after an
         edge intersection is the apex of that face, an overlap starts at the vertex before it and ends at the vertex after it) and ordered along
         the segment (`ordered` / Ordered);
     (c) no item is reported twice (the position along the segment strictly increases, except from a vertex to the overlap starting there).
     (d) the iteration ends only at the target, where the segment leaves the convex hull, or with the target in the closed face / on the
         overlapped edge reached last (EndOK).
     (e) the step counter of the model's outer loop suffices (a None is never caused by it when fuel >= 2 nH + nV);
     (f) no failure: with that fuel the model always returns a list -- the assert! / debug_assert! / panic! of the code are not reached, the
         rotation around a vertex terminates (the spokes visited are strictly ordered by the turn), for starts outside of a convex hull too.
   The theorems: line_iter_sound, line_iter_sound_spec, line_iter_end, line_iter_fuel_enough, line_iter_total, line_iter_handles_total,
   conflicting_edges_points_sound, line_iter_sound_online, line_iter_handles_sound, line_iter_from_locate_sound,
   hull_convex_of_geo.  Not proved: completeness (every crossed element is reported), soundness of locate_degenerate, (f) for the walk along a degenerate chain.

   PART 1  geometry over Z: side identities of a segment against a triangle (side_shift, side_bary, Pluecker), transport of sides along a
           collinear point, the invariants on points (XInv / VInv / OInv), leaving a triangle, rotating around a vertex, first intersections,
           strict monotonicity of the crossing parameter
   PART 2  the invariant of the current item (Inv) and Inv => item_valid
   PART 3  get_next preserves the invariant and yields a Step (edge_out_inv, vertex_out_loop_inv, get_next_inv, iterate_inv)
   PART 4  get_first_intersection establishes it (vertex / edge / face / no triangulation; the walk along the outer face for convex hulls
           and for degenerate chains: hull_first_gen with an abstract invariant)
   PART 5  order along the segment (Before, transitive), Chain_ordered, Chain_NoDup; the theorems as stated *)
From Coq Require Import ZArith List Bool Arith Lia.
From SpadeV Require Import Geom.Pred Geom.Lemmas Obs.State Obs.Spec Obs.SpecProp Obs.Query Obs.QueryProp Obs.LineSpec
  Dcel.Raw Dcel.WfCore Dcel.ProofsFlip Query.Hull Query.ViewProp Query.ViewProofs
  Tri.Legalize Tri.Insert Tri.LegalizeProofs Tri.Locate Tri.LocateProofs Tri.LineIter.
Import ListNotations.

(* ================================================================================================ *)
(* PART 1.  geometry                                                                                 *)
(* ================================================================================================ *)
Local Open Scope Z_scope.

(* moving the query point from a to b changes the side determinant of XY by the difference of the side determinants of X and Y *)
Lemma side_shift : forall a b X Y : pnt, orient X Y b - orient X Y a = orient a b X - orient a b Y.
Proof. geom_ring. Qed.

(* an affine function (here: the side determinant of the line ab) evaluated through barycentric coordinates of the triangle FTC *)
Lemma side_bary : forall a b F T C p : pnt,
  orient a b C * orient F T p + orient a b F * orient T C p + orient a b T * orient C F p = orient a b p * orient F T C.
Proof. geom_ring. Qed.

Lemma tri_sum : forall F T C p : pnt, orient F T p + orient T C p + orient C F p = orient F T C.
Proof. geom_ring. Qed.

Lemma orient_flip : forall F T p : pnt, orient T F p = - orient F T p.
Proof. geom_ring. Qed.
Lemma orient_aa : forall a c : pnt, orient a a c = 0.
Proof. geom_ring. Qed.
Lemma orient_aba : forall a b : pnt, orient a b a = 0.
Proof. geom_ring. Qed.
Lemma orient_abb : forall a b : pnt, orient a b b = 0.
Proof. geom_ring. Qed.
Lemma dot_aba : forall a b : pnt, dot a b a = 0.
Proof. geom_ring. Qed.
Lemma dot_abb : forall a b : pnt, dot a b b = dist2 a b.
Proof. geom_ring. Qed.
Lemma dot_rev : forall a b c : pnt, dot b a c = dist2 a b - dot a b c.
Proof. geom_ring. Qed.

(* LineSideInfo::eq *)
Lemma lsi_eqb_false : forall x y, lsi_eqb x y = false <-> (x = 0 /\ y <> 0) \/ (x <> 0 /\ y = 0) \/ (x < 0 < y) \/ (y < 0 < x).
Proof.
  intros x y. unfold lsi_eqb.
  destruct (x =? 0) eqn:X; destruct (y =? 0) eqn:Y; cbn [orb andb];
    rewrite ?Z.eqb_eq, ?Z.eqb_neq in *.
  - split; [discriminate|lia].
  - split; [intros _; left; lia|reflexivity].
  - split; [intros _; right; left; lia|reflexivity].
  - destruct (x <? 0) eqn:A; destruct (y <? 0) eqn:B; cbn [Bool.eqb]; rewrite ?Z.ltb_lt, ?Z.ltb_ge in *;
      split; try discriminate; try lia; intros _; lia.
Qed.
Lemma lsi_eqb_true : forall x y, lsi_eqb x y = true <-> (x = 0 /\ y = 0) \/ (x < 0 /\ y < 0) \/ (0 < x /\ 0 < y).
Proof.
  intros x y. destruct (lsi_eqb x y) eqn:E.
  - split; [intros _|reflexivity].
    destruct (Z.lt_total x 0) as [A|[A|A]]; destruct (Z.lt_total y 0) as [B|[B|B]]; try lia;
      exfalso; assert (F : lsi_eqb x y = false) by (apply lsi_eqb_false; lia); congruence.
  - apply lsi_eqb_false in E. split; [discriminate|lia].
Qed.

Lemma inc_true : forall f0 t0 f1 t1, inc f0 t0 f1 t1 = Some true ->
  lsi_eqb (orient f0 t0 f1) (orient f0 t0 t1) = false /\ lsi_eqb (orient f1 t1 f0) (orient f1 t1 t0) = false.
Proof.
  intros f0 t0 f1 t1. unfold inc.
  destruct ((orient f0 t0 f1 =? 0) && (orient f0 t0 t1 =? 0) && (orient f1 t1 f0 =? 0) && (orient f1 t1 t0 =? 0)); [discriminate|].
  intros H. injection H as H. apply andb_true_iff in H. destruct H as [A B].
  apply negb_true_iff in A. apply negb_true_iff in B. split; assumption.
Qed.
Lemma inc_false : forall f0 t0 f1 t1, inc f0 t0 f1 t1 = Some false ->
  lsi_eqb (orient f0 t0 f1) (orient f0 t0 t1) = true \/ lsi_eqb (orient f1 t1 f0) (orient f1 t1 t0) = true.
Proof.
  intros f0 t0 f1 t1. unfold inc.
  destruct ((orient f0 t0 f1 =? 0) && (orient f0 t0 t1 =? 0) && (orient f1 t1 f0 =? 0) && (orient f1 t1 t0 =? 0)); [discriminate|].
  intros H. injection H as H. apply andb_false_iff in H. destruct H as [A|A]; apply negb_false_iff in A; auto.
Qed.

(* ------------------------------------------------------------------ the invariants, on points *)
Section G.
Variables a b : pnt.

(* the current item is the edge F -> T: the segment comes from the right of (or from) the edge, the target is on the left of (or on) it, not both
   on its line, and the edge's ends lie strictly on the two sides of the line ab *)
Definition XInv (F T : pnt) : Prop :=
  orient F T a <= 0 <= orient F T b /\ ~ (orient F T a = 0 /\ orient F T b = 0) /\ 0 < orient a b F /\ orient a b T < 0.
(* the current item is the vertex at V: it lies on the closed segment *)
Definition VInv (V : pnt) : Prop := on_seg a b V = true.
(* the current item is the overlapped edge F -> T *)
Definition OInv (F T : pnt) : Prop :=
  (a = b /\ strictly_between F T a = true) \/
  (a <> b /\ orient a b F = 0 /\ orient a b T = 0 /\ dot a b F < dot a b T /\ Z.max 0 (dot a b F) < Z.min (dist2 a b) (dot a b T)).

Lemma VInv_spec : forall V, VInv V <-> (a = b /\ V = a) \/ (a <> b /\ orient a b V = 0 /\ 0 <= dot a b V <= dist2 a b).
Proof.
  intros V. unfold VInv, on_seg. destruct (pnt_eqb a b) eqn:E.
  - apply pnt_eqb_spec in E. rewrite pnt_eqb_spec. split; [intros H; left; auto|intros [[_ H]|[H _]]; [auto|contradiction]].
  - apply pnt_eqb_neq in E. rewrite on_segment_spec. split; [intros H; right; auto|intros [[H _]|[_ H]]; [contradiction|auto]].
Qed.

(* ---- a valid crossing ---- *)
Lemma between_a : forall F T : pnt,
  orient F T a = 0 -> 0 < orient F T b -> 0 < orient a b F -> orient a b T < 0 -> 0 < dot F T a < dist2 F T.
Proof.
  intros F T Ha Hb HF HT.
  assert (NE : F <> T) by (intros E; subst; lia).
  pose proof (dist2_pos F T NE) as N.
  assert (I1 : dist2 F T * orient a b F = dot F T a * orient F T b - orient F T a * dot F T b) by geom_ring.
  assert (I2 : dist2 F T * (- orient a b T) = (dist2 F T - dot F T a) * orient F T b + orient F T a * (dot F T b - dist2 F T)) by geom_ring.
  rewrite Ha in I1, I2.
  revert Hb HF HT N I1 I2.
  generalize (orient F T b) (orient a b F) (orient a b T) (dist2 F T) (dot F T a) (dot F T b).
  intros. nia.
Qed.
Lemma between_b : forall F T : pnt,
  orient F T b = 0 -> orient F T a < 0 -> 0 < orient a b F -> orient a b T < 0 -> 0 < dot F T b < dist2 F T.
Proof.
  intros F T Hb Ha HF HT.
  assert (NE : F <> T) by (intros E; subst; lia).
  pose proof (dist2_pos F T NE) as N.
  assert (I1 : dist2 F T * (- orient a b F) = dot F T b * orient F T a - orient F T b * dot F T a) by geom_ring.
  assert (I2 : dist2 F T * (orient a b T) = (dist2 F T - dot F T b) * orient F T a + orient F T b * (dot F T a - dist2 F T)) by geom_ring.
  rewrite Hb in I1, I2.
  revert Ha HF HT N I1 I2.
  generalize (orient F T a) (orient a b F) (orient a b T) (dist2 F T) (dot F T a) (dot F T b).
  intros. nia.
Qed.

Lemma XInv_meets : forall F T, XInv F T ->
  proper_cross a b F T = true \/ strictly_between F T a = true \/ strictly_between F T b = true.
Proof.
  intros F T ((A1 & A2) & NB & HF & HT).
  destruct (Z.eq_dec (orient F T a) 0) as [Za|Za].
  - right; left. apply strictly_between_spec. split; [exact Za|]. apply between_a; try assumption. lia.
  - destruct (Z.eq_dec (orient F T b) 0) as [Zb|Zb].
    + right; right. apply strictly_between_spec. split; [exact Zb|]. apply between_b; try assumption. lia.
    + left. apply proper_cross_spec. split; [left; split; assumption|right; split; lia].
Qed.

Lemma XInv_neq : forall F T, XInv F T -> a <> b.
Proof. intros F T (_ & _ & HF & _) E. subst b. rewrite orient_aa in HF. lia. Qed.

(* ---- trace_direction_out_of_edge: leaving the triangle F T C (entered through F -> T) ---- *)
Lemma edge_out_tf : forall F T C : pnt,
  0 < orient F T C -> 0 < orient a b F -> orient a b T < 0 ->
  lsi_eqb (orient C F a) (orient C F b) = false -> lsi_eqb (orient a b C) (orient a b F) = false ->
  (lsi_eqb (orient T C a) (orient T C b) = true \/ lsi_eqb (orient a b T) (orient a b C) = true) ->
  XInv F C.
Proof.
  intros F T C D HF HT P1 P2 N1.
  apply lsi_eqb_false in P1. apply lsi_eqb_false in P2.
  pose proof (side_bary a b F T C a) as Ba. pose proof (side_bary a b F T C b) as Bb.
  rewrite orient_aba in Ba. rewrite orient_abb in Bb.
  pose proof (side_shift a b C F) as S1. pose proof (side_shift a b T C) as S2.
  assert (R1 : orient F C a = - orient C F a) by geom_ring.
  assert (R2 : orient F C b = - orient C F b) by geom_ring.
  unfold XInv. rewrite R1, R2.
  assert (NC : orient a b C < 0).
  { destruct (Z.eq_dec (orient a b C) 0) as [Zc|Zc]; [|lia]. exfalso.
    rewrite Zc in *.
    destruct N1 as [N1|N1]; apply lsi_eqb_true in N1; [|lia].
    revert D HF HT P1 Ba Bb S1 S2 N1.
    generalize (orient F T C) (orient a b F) (orient a b T) (orient C F a) (orient C F b) (orient T C a) (orient T C b) (orient F T a) (orient F T b).
    intros. nia. }
  revert D HF HT P1 P2 NC S1.
  generalize (orient F T C) (orient a b F) (orient a b T) (orient a b C) (orient C F a) (orient C F b).
  intros. lia.
Qed.

Lemma edge_out_ft : forall F T C : pnt,
  0 < orient F T C -> 0 < orient a b F -> orient a b T < 0 ->
  (lsi_eqb (orient C F a) (orient C F b) = true \/ lsi_eqb (orient a b C) (orient a b F) = true) ->
  lsi_eqb (orient T C a) (orient T C b) = false -> lsi_eqb (orient a b T) (orient a b C) = false ->
  XInv C T.
Proof.
  intros F T C D HF HT N1 P1 P2.
  apply lsi_eqb_false in P1. apply lsi_eqb_false in P2.
  pose proof (side_bary a b F T C a) as Ba. pose proof (side_bary a b F T C b) as Bb.
  rewrite orient_aba in Ba. rewrite orient_abb in Bb.
  pose proof (side_shift a b C F) as S1. pose proof (side_shift a b T C) as S2.
  assert (R1 : orient C T a = - orient T C a) by geom_ring.
  assert (R2 : orient C T b = - orient T C b) by geom_ring.
  unfold XInv. rewrite R1, R2.
  assert (NC : 0 < orient a b C).
  { destruct (Z.eq_dec (orient a b C) 0) as [Zc|Zc]; [|lia]. exfalso.
    rewrite Zc in *.
    destruct N1 as [N1|N1]; apply lsi_eqb_true in N1; [|lia].
    revert D HF HT P1 Ba Bb S1 S2 N1.
    generalize (orient F T C) (orient a b F) (orient a b T) (orient C F a) (orient C F b) (orient T C a) (orient T C b) (orient F T a) (orient F T b).
    intros. nia. }
  revert D HF HT P1 P2 NC S2.
  generalize (orient F T C) (orient a b F) (orient a b T) (orient a b C) (orient T C a) (orient T C b).
  intros. lia.
Qed.

Lemma edge_out_tt : forall F T C : pnt,
  0 < orient F T C -> 0 < orient a b F -> orient a b T < 0 ->
  lsi_eqb (orient C F a) (orient C F b) = false -> lsi_eqb (orient a b C) (orient a b F) = false ->
  lsi_eqb (orient T C a) (orient T C b) = false -> lsi_eqb (orient a b T) (orient a b C) = false ->
  VInv C.
Proof.
  intros F T C D HF HT P1 P2 P3 P4.
  apply lsi_eqb_false in P1. apply lsi_eqb_false in P2. apply lsi_eqb_false in P3. apply lsi_eqb_false in P4.
  assert (Zc : orient a b C = 0) by lia.
  assert (NE : a <> b) by (intros E; subst b; rewrite orient_aa in HF; lia).
  apply VInv_spec. right. split; [exact NE|]. split; [exact Zc|].
  pose proof (side_shift a b C F) as S1.
  assert (I1 : dist2 a b * orient C F a = dot a b C * orient a b F - orient a b C * dot a b F) by geom_ring.
  assert (I2 : dist2 a b * (- orient C F b) = (dist2 a b - dot a b C) * orient a b F + orient a b C * (dot a b F - dist2 a b)) by geom_ring.
  rewrite Zc in *.
  pose proof (dist2_pos a b NE) as N.
  revert HF P1 S1 I1 I2 N.
  generalize (orient a b F) (orient C F a) (orient C F b) (dist2 a b) (dot a b C).
  intros. nia.
Qed.
End G.

(* the walk ends inside the triangle: neither of the two other sides is met -- the target lies in the closed triangle *)
Lemma edge_out_ff : forall a b F T C : pnt,
  0 < orient F T C -> XInv a b F T ->
  (lsi_eqb (orient C F a) (orient C F b) = true \/ lsi_eqb (orient a b C) (orient a b F) = true) ->
  (lsi_eqb (orient T C a) (orient T C b) = true \/ lsi_eqb (orient a b T) (orient a b C) = true) ->
  0 <= orient T C b /\ 0 <= orient C F b.
Proof.
  intros a b F T C D ((A1 & A2) & NB & HF & HT) N1 N2.
  pose proof (side_bary a b F T C a) as Ba. pose proof (side_bary a b F T C b) as Bb.
  rewrite orient_aba in Ba. rewrite orient_abb in Bb.
  pose proof (side_shift a b C F) as S1. pose proof (side_shift a b T C) as S2.
  pose proof (tri_sum F T C a) as Sa. pose proof (tri_sum F T C b) as Sb.
  rewrite !lsi_eqb_true in N1, N2.
  revert D A1 A2 NB HF HT N1 N2 Ba Bb S1 S2 Sa Sb.
  generalize (orient F T C) (orient a b F) (orient a b T) (orient a b C) (orient C F a) (orient C F b) (orient T C a) (orient T C b) (orient F T a) (orient F T b).
  intros D oF oT oC ap bp an bn al be. intros.
  destruct (Z.lt_total oC 0) as [Lc|[Zc|Gc]].
  - (* apex on the right of ab *)
    assert (Kp : (ap < 0 /\ bp < 0) \/ (0 < ap /\ 0 < bp)) by lia.
    destruct Kp as [(K1 & K2)|(K1 & K2)].
    + exfalso. assert (0 < an) by lia.
      assert (0 <= oC * al) by (apply Z.mul_nonpos_nonpos; lia).
      assert (0 < oF * an) by (apply Z.mul_pos_pos; lia).
      assert (0 < oT * ap) by (apply Z.mul_neg_neg; lia). lia.
    + split; [|lia].
      assert (oC * be <= 0) by (apply Z.mul_nonpos_nonneg; lia).
      assert (oT * bp < 0) by (apply Z.mul_neg_pos; lia).
      assert (0 < oF * bn) by lia.
      destruct (Z_lt_le_dec bn 0) as [Q|Q]; [|exact Q]. assert (oF * bn < 0) by (apply Z.mul_pos_neg; lia). lia.
  - subst oC. assert (Kp : (ap < 0 /\ bp < 0) \/ (0 < ap /\ 0 < bp)) by lia.
    assert (Kn : (an < 0 /\ bn < 0) \/ (0 < an /\ 0 < bn)) by lia.
    rewrite Z.mul_0_l in Ba, Bb.
    destruct Kp as [(K1 & K2)|(K1 & K2)]; destruct Kn as [(K3 & K4)|(K3 & K4)]; try lia; exfalso; clear Bb S1 S2 Sb N1 N2; nia.
  - assert (Kn : (an < 0 /\ bn < 0) \/ (0 < an /\ 0 < bn)) by lia.
    destruct Kn as [(K1 & K2)|(K1 & K2)].
    + exfalso. assert (0 < ap) by lia.
      assert (oC * al <= 0) by (apply Z.mul_nonneg_nonpos; lia).
      assert (oF * an < 0) by (apply Z.mul_pos_neg; lia).
      assert (oT * ap < 0) by (apply Z.mul_neg_pos; lia). lia.
    + split; [lia|].
      assert (0 <= oC * be) by (apply Z.mul_nonneg_nonneg; lia).
      assert (0 < oF * bn) by (apply Z.mul_pos_pos; lia).
      assert (oT * bp < 0) by lia.
      destruct (Z_lt_le_dec bp 0) as [Q|Q]; [|exact Q]. assert (0 < oT * bp) by (apply Z.mul_neg_neg; lia). lia.
Qed.

(* ------------------------------------------------------------------ rotating around a vertex on the segment *)
Lemma cone_gen : forall V X b Y : pnt, dist2 V X * orient V b Y = dot V X b * orient V X Y - orient V X b * dot V X Y.
Proof. geom_ring. Qed.
Lemma lagrange_vb : forall a b V : pnt, dist2 V b * dist2 a b = (dist2 a b - dot a b V) * (dist2 a b - dot a b V) + orient a b V * orient a b V.
Proof. geom_ring. Qed.
Lemma dot_vba : forall a b V : pnt, dot V b a * dist2 a b = - dot a b V * (dist2 a b - dot a b V) + orient a b V * orient a b V.
Proof. geom_ring. Qed.
Lemma orient_via : forall a b V X : pnt, orient a b X = orient V a b + orient V b X + orient V X a.
Proof. geom_ring. Qed.
Lemma affine_along : forall a b V X Y : pnt,
  dist2 a b * orient X Y V = (dist2 a b - dot a b V) * orient X Y a + dot a b V * orient X Y b
    + orient a b V * ((fst Y - fst X) * (fst b - fst a) + (snd Y - snd X) * (snd b - snd a)).
Proof. geom_ring. Qed.
Lemma dot_advance : forall a b V X : pnt,
  (dot a b X - dot a b V) * dist2 V b = dot V X b * (dist2 a b - dot a b V) - orient V X b * orient a b V.
Proof. geom_ring. Qed.
Lemma dot_square : forall V X b : pnt, dot V X b * dot V X b = dist2 V X * dist2 V b - orient V X b * orient V X b.
Proof. geom_ring. Qed.

Section G2.
Variables a b : pnt.

(* a vertex on the closed segment that is not the target *)
Lemma VInv_not_target : forall V, VInv a b V -> V <> b ->
  a <> b /\ orient a b V = 0 /\ 0 <= dot a b V < dist2 a b /\ 0 < dist2 V b /\ dot V b a <= 0.
Proof.
  intros V HV NB. apply VInv_spec in HV. destruct HV as [[E1 E2]|(NE & Z0 & D0 & D1)]; [congruence|].
  pose proof (dist2_pos V b NB) as NV. pose proof (dist2_pos a b NE) as N.
  pose proof (lagrange_vb a b V) as L. pose proof (dot_vba a b V) as M. rewrite Z0 in L, M.
  repeat split; try assumption.
  - revert D0 D1 NV N L. generalize (dot a b V) (dist2 a b) (dist2 V b). intros. nia.
  - revert D0 D1 NV N L M. generalize (dot a b V) (dist2 a b) (dist2 V b) (dot V b a). intros. nia.
Qed.

(* the side of X with respect to the line ab is its side with respect to the ray from V to b *)
Lemma side_transport : forall V X, VInv a b V -> V <> b ->
  (0 < orient V b X -> 0 < orient a b X) /\ (orient V b X < 0 -> orient a b X < 0) /\ (orient V b X = 0 -> orient a b X = 0).
Proof.
  intros V X HV NB. destruct (VInv_not_target V HV NB) as (NE & Z0 & (D0 & D1) & NV & M).
  pose proof (orient_via a b V X) as O.
  assert (Z1 : orient V a b = 0) by (rewrite <- Z0; geom_ring).
  assert (Z2 : orient V b a = 0) by (assert (R0 : orient V b a = - orient a b V) by geom_ring; lia).
  pose proof (cone_gen V b a X) as C. rewrite Z2 in C.
  assert (R : orient V X a = - orient V a X) by geom_ring.
  rewrite Z1, R in O.
  revert NV M O C. generalize (orient a b X) (orient V b X) (orient V a X) (dist2 V b) (dot V b a).
  intros. nia.
Qed.

(* trace_direction_out_of_vertex, EdgeOverlap: the edge V -> X points to the target along the line *)
Lemma vertex_overlap : forall V X, VInv a b V -> V <> b -> V <> X ->
  orient V X b = 0 -> 0 <= dot V X b -> OInv a b V X.
Proof.
  intros V X HV NB NX Zx Dx. destruct (VInv_not_target V HV NB) as (NE & Z0 & (D0 & D1) & NV & M).
  right. split; [exact NE|]. split; [exact Z0|].
  assert (ZX : orient a b X = 0).
  { apply (side_transport V X HV NB). assert (R0 : orient V b X = - orient V X b) by geom_ring. lia. }
  split; [exact ZX|].
  pose proof (dot_advance a b V X) as A. rewrite Zx in A.
  pose proof (dot_square V X b) as Q. rewrite Zx in Q.
  pose proof (dist2_pos V X NX) as NVX.
  assert (ADV : dot a b V < dot a b X).
  { assert (P0 : 0 < dist2 V X * dist2 V b) by (apply Z.mul_pos_pos; assumption).
    assert (DP : 0 < dot V X b) by (destruct (Z.eq_dec (dot V X b) 0) as [E0|E0]; [rewrite E0 in Q; lia|lia]).
    assert (P1 : 0 < dot V X b * (dist2 a b - dot a b V)) by (apply Z.mul_pos_pos; lia).
    revert NV A P1. generalize (dot a b V) (dot a b X) (dist2 V b) (dot V X b * (dist2 a b - dot a b V)). intros. nia. }
  split; [exact ADV|]. lia.
Qed.

(* trace_direction_out_of_vertex, EdgeIntersection: the target lies strictly inside the cone of the ccw triangle V X Y; the edge Y -> X is reported
   when the target is not strictly inside the triangle *)
Lemma vertex_inter : forall V X Y, VInv a b V -> V <> b ->
  0 < orient V X Y -> 0 < orient V X b -> orient V Y b < 0 -> 0 <= orient Y X b -> XInv a b Y X.
Proof.
  intros V X Y HV NB D CX CY B. destruct (VInv_not_target V HV NB) as (NE & Z0 & (D0 & D1) & NV & M).
  destruct (side_transport V X HV NB) as (_ & TX & _). destruct (side_transport V Y HV NB) as (TY & _ & _).
  assert (OX : orient a b X < 0) by (apply TX; assert (R : orient V b X = - orient V X b) by geom_ring; lia).
  assert (OY : 0 < orient a b Y) by (apply TY; assert (R : orient V b Y = - orient V Y b) by geom_ring; lia).
  pose proof (affine_along a b V X Y) as A. rewrite Z0 in A.
  assert (R1 : orient X Y V = orient V X Y) by geom_ring.
  assert (R2 : orient X Y a = - orient Y X a) by geom_ring.
  assert (R3 : orient X Y b = - orient Y X b) by geom_ring.
  rewrite R1, R2, R3 in A.
  assert (AA : orient Y X a < 0).
  { revert D B D0 D1 A. generalize (orient V X Y) (orient Y X a) (orient Y X b) (dist2 a b) (dot a b V). intros. nia. }
  unfold XInv. repeat split; try lia.
Qed.

(* the rotation cannot pass the target: impossible exits *)
Lemma fan_behind_ccw : forall V X Y b', 0 < orient V X Y -> orient V X b' = 0 -> dot V X b' < 0 -> orient V Y b' < 0 -> False.
Proof.
  intros V X Y b' D Z B N.
  assert (NX : V <> X) by (intros E; subst; rewrite ?orient_aa, ?orient_aba, ?orient_abb in D; lia).
  pose proof (dist2_pos V X NX) as NVX.
  pose proof (cone_gen V X b' Y) as C. rewrite Z in C.
  assert (R : orient V b' Y = - orient V Y b') by geom_ring. rewrite R in C.
  revert D B N NVX C. generalize (orient V X Y) (dot V X b') (orient V Y b') (dist2 V X). intros. nia.
Qed.
Lemma fan_behind_cw : forall V X Y b', 0 < orient X V Y -> orient V X b' = 0 -> dot V X b' < 0 -> 0 <= orient V Y b' -> False.
Proof.
  intros V X Y b' D Z B N.
  assert (NX : V <> X) by (intros E; subst; rewrite ?orient_aa, ?orient_aba, ?orient_abb in D; lia).
  pose proof (dist2_pos V X NX) as NVX.
  pose proof (cone_gen V X b' Y) as C. rewrite Z in C.
  assert (R : orient V b' Y = - orient V Y b') by geom_ring. rewrite R in C.
  assert (R2 : orient V X Y = - orient X V Y) by geom_ring. rewrite R2 in C.
  revert D B N NVX C. generalize (orient X V Y) (dot V X b') (orient V Y b') (dist2 V X). intros. nia.
Qed.
Lemma fan_behind_cw' : forall V X Y b', 0 < orient X V Y -> orient V X b' <= 0 -> orient V Y b' = 0 -> dot V Y b' < 0 -> False.
Proof.
  intros V X Y b' D N Z B.
  assert (NY : V <> Y) by (intros E; subst; rewrite ?orient_aa, ?orient_aba, ?orient_abb in D; lia).
  pose proof (dist2_pos V Y NY) as NVY.
  pose proof (cone_gen V Y b' X) as C. rewrite Z in C.
  assert (R : orient V b' X = - orient V X b') by geom_ring. rewrite R in C.
  assert (R2 : orient V Y X = orient X V Y) by geom_ring. rewrite R2 in C.
  revert D B N NVY C. generalize (orient X V Y) (dot V Y b') (orient V X b') (dist2 V Y). intros. nia.
Qed.
End G2.

(* ------------------------------------------------------------------ the rotation around a vertex cannot go on for ever *)
Lemma fan_id1 : forall V b X1 X2 X3 : pnt,
  orient V X1 X3 * orient V X2 b = orient V X1 X2 * orient V X3 b + orient V X2 X3 * orient V X1 b.
Proof. geom_ring. Qed.
Lemma fan_id2 : forall V b X1 X2 X3 : pnt,
  dist2 V b * (dot V X1 b * orient V X2 X3 + dot V X3 b * orient V X1 X2) =
  dot V X2 b * (dot V X3 b * orient V X1 b - dot V X1 b * orient V X3 b).
Proof. geom_ring. Qed.
Lemma fan_id3 : forall V b X1 X2 : pnt,
  - (dist2 V X1 * orient V X2 b) = dot V X1 b * orient V X1 X2 - orient V X1 b * dot V X1 X2.
Proof. geom_ring. Qed.

(* spokes that have the target on their left (or exactly behind them) are linearly ordered by the counter-clockwise turn *)
Lemma fan_trans_abs : forall o12 o23 o13 q1 q2 q3 d1 d2 d3 N N1 e12 : Z,
  o13 * q2 = o12 * q3 + o23 * q1 ->
  N * (d1 * o23 + d3 * o12) = d2 * (d3 * q1 - d1 * q3) ->
  - (N1 * q2) = d1 * o12 - q1 * e12 ->
  0 < N -> 0 < N1 ->
  0 <= q1 -> (q1 = 0 -> d1 < 0) -> 0 <= q2 -> (q2 = 0 -> d2 < 0) -> 0 <= q3 -> (q3 = 0 -> d3 < 0) ->
  0 < o12 -> 0 < o23 -> 0 < o13.
Proof.
  intros o12 o23 o13 q1 q2 q3 d1 d2 d3 N N1 e12 I1 I2 I3 HN HN1 Q1 B1 Q2 B2 Q3 B3 O12 O23.
  assert (P1 : 0 <= o12 * q3) by (apply Z.mul_nonneg_nonneg; lia).
  assert (P2 : 0 <= o23 * q1) by (apply Z.mul_nonneg_nonneg; lia).
  destruct (Z.eq_dec q2 0) as [Z2|Z2].
  - (* the middle spoke points away from the target: then all three do, and two of them cannot span a triangle *)
    exfalso. subst q2. rewrite Z.mul_0_r in I1.
    assert (Z3 : q3 = 0) by (destruct (Z.eq_dec q3 0) as [E|E]; [exact E|assert (0 < o12 * q3) by (apply Z.mul_pos_pos; lia); lia]).
    assert (Z1 : q1 = 0) by (destruct (Z.eq_dec q1 0) as [E|E]; [exact E|assert (0 < o23 * q1) by (apply Z.mul_pos_pos; lia); lia]).
    subst q1. rewrite Z.mul_0_r, Z.mul_0_l in I3.
    assert (d1 * o12 < 0) by (apply Z.mul_neg_pos; [apply B1; reflexivity|exact O12]). lia.
  - assert (S : 0 < o12 * q3 + o23 * q1 \/ (q3 = 0 /\ q1 = 0)).
    { destruct (Z.eq_dec q3 0) as [E3|E3]; destruct (Z.eq_dec q1 0) as [E1|E1].
      - right. auto.
      - left. assert (0 < o23 * q1) by (apply Z.mul_pos_pos; lia). lia.
      - left. assert (0 < o12 * q3) by (apply Z.mul_pos_pos; lia). lia.
      - left. assert (0 < o12 * q3) by (apply Z.mul_pos_pos; lia). lia. }
    destruct S as [S|(E3 & E1)].
    + destruct (Z_lt_le_dec 0 o13) as [G|G]; [exact G|]. exfalso.
      assert (o13 * q2 <= 0) by (apply Z.mul_nonpos_nonneg; lia). lia.
    + exfalso. subst q1 q3. assert (I2' : N * (d1 * o23 + d3 * o12) = 0) by (rewrite I2; ring).
      assert (A1 : d1 * o23 < 0) by (apply Z.mul_neg_pos; [apply B1; reflexivity|exact O23]).
      assert (A3 : d3 * o12 < 0) by (apply Z.mul_neg_pos; [apply B3; reflexivity|exact O12]).
      assert (N * (d1 * o23 + d3 * o12) < 0) by (apply Z.mul_pos_neg; lia). lia.
Qed.

(* sg = true: rotation counter-clockwise, the target is on the left of the spokes; sg = false: mirrored *)
Definition spoke_ok (sg : bool) (V b X : pnt) : Prop :=
  (if sg then 0 <= orient V X b else orient V X b <= 0) /\ (orient V X b = 0 -> dot V X b < 0).
Definition spoke_lt (sg : bool) (V X Y : pnt) : Prop :=
  if sg then 0 < orient V X Y else 0 < orient V Y X.

Lemma spoke_lt_trans : forall sg V b X1 X2 X3, V <> b ->
  spoke_ok sg V b X1 -> spoke_ok sg V b X2 -> spoke_ok sg V b X3 ->
  spoke_lt sg V X1 X2 -> spoke_lt sg V X2 X3 -> spoke_lt sg V X1 X3.
Proof.
  intros sg V b X1 X2 X3 NB (Q1 & B1) (Q2 & B2) (Q3 & B3) L12 L23.
  pose proof (dist2_pos V b NB) as N.
  pose proof (fan_id1 V b X1 X2 X3) as I1. pose proof (fan_id2 V b X1 X2 X3) as I2. pose proof (fan_id3 V b X1 X2) as I3.
  assert (NX : V <> X1).
  { intros E. subst X1. destruct sg; cbn [spoke_lt] in L12; rewrite ?orient_aa, ?orient_aba in L12; lia. }
  pose proof (dist2_pos V X1 NX) as N1.
  assert (R13 : orient V X3 X1 = - orient V X1 X3) by geom_ring.
  assert (R12 : orient V X2 X1 = - orient V X1 X2) by geom_ring.
  assert (R23 : orient V X3 X2 = - orient V X2 X3) by geom_ring.
  destruct sg; cbn [spoke_lt] in *.
  - exact (fan_trans_abs _ _ _ _ _ _ _ _ _ _ _ _ I1 I2 I3 N N1 Q1 B1 Q2 B2 Q3 B3 L12 L23).
  - rewrite R13. rewrite R12 in L12. rewrite R23 in L23.
    assert (G : 0 < - orient V X1 X3); [|lia].
    apply (fan_trans_abs (- orient V X1 X2) (- orient V X2 X3) (- orient V X1 X3) (- orient V X1 b) (- orient V X2 b) (- orient V X3 b)
             (dot V X1 b) (dot V X2 b) (dot V X3 b) (dist2 V b) (dist2 V X1) (dot V X1 X2)); lia.
Qed.
Lemma spoke_lt_irrefl : forall sg V X, ~ spoke_lt sg V X X.
Proof. intros sg V X H. destruct sg; cbn [spoke_lt] in H; rewrite orient_abb in H; lia. Qed.

(* ------------------------------------------------------------------ the first intersection *)
Lemma strictly_between_sym : forall F T p : pnt, strictly_between F T p = true -> strictly_between T F p = true.
Proof.
  intros F T p H. apply strictly_between_spec in H. destruct H as (Z & D0 & D1). apply strictly_between_spec.
  assert (R : orient T F p = - orient F T p) by geom_ring.
  pose proof (dot_rev F T p) as R2. assert (R3 : dist2 T F = dist2 F T) by geom_ring. lia.
Qed.

Section G3.
Variables a b : pnt.

Lemma first_vertex : VInv a b a.
Proof.
  apply VInv_spec. destruct (pnt_eqb a b) eqn:E.
  - apply pnt_eqb_spec in E. left. auto.
  - apply pnt_eqb_neq in E. right. split; [exact E|]. rewrite orient_aba, dot_aba. pose proof (dist2_nonneg a b). lia.
Qed.

(* line_from lies strictly inside the edge F -> T and the edge is not on the line ab *)
Lemma first_edge_cross : forall F T, strictly_between F T a = true ->
  ~ (orient a b F = 0 /\ orient a b T = 0) -> 0 < orient F T b -> XInv a b F T.
Proof.
  intros F T SB NZ B. apply strictly_between_spec in SB. destruct SB as (Za & D0 & D1).
  assert (I1 : dist2 F T * orient a b F = dot F T a * orient F T b - orient F T a * dot F T b) by geom_ring.
  assert (I2 : dist2 F T * (- orient a b T) = (dist2 F T - dot F T a) * orient F T b + orient F T a * (dot F T b - dist2 F T)) by geom_ring.
  rewrite Za in I1, I2.
  unfold XInv. rewrite Za.
  assert (P1 : 0 < dot F T a * orient F T b) by (apply Z.mul_pos_pos; lia).
  assert (P2 : 0 < (dist2 F T - dot F T a) * orient F T b) by (apply Z.mul_pos_pos; lia).
  assert (N : 0 < dist2 F T) by lia.
  assert (Q1 : 0 < orient a b F).
  { revert N P1 I1. generalize (dist2 F T) (orient a b F) (dot F T a * orient F T b). intros. nia. }
  assert (Q2 : orient a b T < 0).
  { revert N P2 I2. generalize (dist2 F T) (orient a b T) ((dist2 F T - dot F T a) * orient F T b). intros. nia. }
  repeat split; lia.
Qed.
Lemma first_edge_side : forall F T, strictly_between F T a = true ->
  ~ (orient a b F = 0 /\ orient a b T = 0) -> orient F T b <> 0.
Proof.
  intros F T SB NZ B. apply strictly_between_spec in SB. destruct SB as (Za & D0 & D1).
  assert (I1 : dist2 F T * orient a b F = dot F T a * orient F T b - orient F T a * dot F T b) by geom_ring.
  assert (I2 : dist2 F T * (- orient a b T) = (dist2 F T - dot F T a) * orient F T b + orient F T a * (dot F T b - dist2 F T)) by geom_ring.
  rewrite Za, B in I1, I2. apply NZ. split; nia.
Qed.

(* line_from lies strictly inside the edge F -> T and the edge is on the line ab *)
Lemma first_edge_overlap : forall F T, strictly_between F T a = true -> a <> b ->
  orient a b F = 0 -> orient a b T = 0 -> 0 < dot a b T - dot a b F -> OInv a b F T.
Proof.
  intros F T SB NE ZF ZT DD. apply strictly_between_spec in SB. destruct SB as (Za & D0 & D1).
  right. split; [exact NE|]. split; [exact ZF|]. split; [exact ZT|]. split; [lia|].
  assert (I1 : dist2 F T * dot a b F = - (dot F T a * (dot a b T - dot a b F)) + orient F T a * (orient a b T - orient a b F)) by geom_ring.
  assert (I2 : dist2 F T * dot a b T = (dist2 F T - dot F T a) * (dot a b T - dot a b F) + orient F T a * (orient a b T - orient a b F)) by geom_ring.
  rewrite Za in I1, I2.
  pose proof (dist2_pos a b NE) as N.
  assert (P1 : 0 < dot F T a * (dot a b T - dot a b F)) by (apply Z.mul_pos_pos; lia).
  assert (P2 : 0 < (dist2 F T - dot F T a) * (dot a b T - dot a b F)) by (apply Z.mul_pos_pos; lia).
  assert (NF : 0 < dist2 F T) by lia.
  assert (A1 : dot a b F < 0).
  { revert NF P1 I1. generalize (dist2 F T) (dot a b F) (dot F T a * (dot a b T - dot a b F)). intros. nia. }
  assert (A2 : 0 < dot a b T).
  { revert NF P2 I2. generalize (dist2 F T) (dot a b T) ((dist2 F T - dot F T a) * (dot a b T - dot a b F)). intros. nia. }
  lia.
Qed.
Lemma first_edge_overlap_dir : forall F T, F <> T -> a <> b -> orient a b F = 0 -> orient a b T = 0 -> dot a b T - dot a b F <> 0.
Proof.
  intros F T NF NE ZF ZT E.
  assert (I : (dot a b T - dot a b F) * (dot a b T - dot a b F) = dist2 F T * dist2 a b - (orient a b T - orient a b F) * (orient a b T - orient a b F)) by geom_ring.
  rewrite E, ZF, ZT in I. pose proof (dist2_pos F T NF). pose proof (dist2_pos a b NE). nia.
Qed.

(* line_from lies strictly on the left of the edge F -> T (an edge of the face that contains it) and the segment meets the edge *)
Lemma first_face_from : forall F T, 0 < orient F T a ->
  lsi_eqb (orient a b F) (orient a b T) = false -> lsi_eqb (orient F T a) (orient F T b) = false ->
  orient a b F = 0 -> VInv a b F.
Proof.
  intros F T A P1 P2 ZF. apply lsi_eqb_false in P1. apply lsi_eqb_false in P2.
  assert (NE : a <> b) by (intros E; subst b; rewrite !orient_aa in P1; lia).
  apply VInv_spec. right. split; [exact NE|]. split; [exact ZF|].
  assert (I1 : dist2 a b * orient F T a = dot a b F * orient a b T - orient a b F * dot a b T) by geom_ring.
  assert (I2 : dist2 a b * (- orient F T b) = (dist2 a b - dot a b F) * orient a b T + orient a b F * (dot a b T - dist2 a b)) by geom_ring.
  rewrite ZF in I1, I2. pose proof (dist2_pos a b NE) as N.
  revert A P1 P2 N I1 I2. rewrite ZF. generalize (orient F T a) (orient F T b) (orient a b T) (dist2 a b) (dot a b F). intros. nia.
Qed.
Lemma first_face_to : forall F T, 0 < orient F T a ->
  lsi_eqb (orient a b F) (orient a b T) = false -> lsi_eqb (orient F T a) (orient F T b) = false ->
  orient a b T = 0 -> VInv a b T.
Proof.
  intros F T A P1 P2 ZT. apply lsi_eqb_false in P1. apply lsi_eqb_false in P2.
  assert (NE : a <> b) by (intros E; subst b; rewrite !orient_aa in P1; lia).
  apply VInv_spec. right. split; [exact NE|]. split; [exact ZT|].
  assert (I1 : dist2 a b * (- orient F T a) = dot a b T * orient a b F - orient a b T * dot a b F) by geom_ring.
  assert (I2 : dist2 a b * (orient F T b) = (dist2 a b - dot a b T) * orient a b F + orient a b T * (dot a b F - dist2 a b)) by geom_ring.
  rewrite ZT in I1, I2. pose proof (dist2_pos a b NE) as N.
  revert A P1 P2 N I1 I2. rewrite ZT. generalize (orient F T a) (orient F T b) (orient a b F) (dist2 a b) (dot a b T). intros. nia.
Qed.
Lemma first_face_cross : forall F T, 0 < orient F T a ->
  lsi_eqb (orient a b F) (orient a b T) = false -> lsi_eqb (orient F T a) (orient F T b) = false ->
  orient a b F <> 0 -> orient a b T <> 0 -> XInv a b T F.
Proof.
  intros F T A P1 P2 NF NT. apply lsi_eqb_false in P1. apply lsi_eqb_false in P2.
  pose proof (side_shift a b F T) as S.
  assert (R1 : orient T F a = - orient F T a) by geom_ring.
  assert (R2 : orient T F b = - orient F T b) by geom_ring.
  unfold XInv. rewrite R1, R2. lia.
Qed.
End G3.

(* ------------------------------------------------------------------ the position along the segment strictly increases *)
Lemma plucker_F : forall a b F T C : pnt, orient F T a * orient F C b - orient F T b * orient F C a = orient F T C * orient a b F.
Proof. geom_ring. Qed.
Lemma plucker_T : forall a b F T C : pnt, orient F T a * orient C T b - orient F T b * orient C T a = - (orient F T C * orient a b T).
Proof. geom_ring. Qed.

(* crossing parameter of the segment ab with the line F T, as a fraction: - [F T a] / ([F T b] - [F T a]) *)
Lemma order_xx_tf : forall a b F T C : pnt, 0 < orient F T C -> 0 < orient a b F ->
  (- orient F T a) * (orient F C b - orient F C a) < (- orient F C a) * (orient F T b - orient F T a).
Proof.
  intros a b F T C D HF. pose proof (plucker_F a b F T C) as Pl.
  assert (Q : 0 < orient F T C * orient a b F) by (apply Z.mul_pos_pos; assumption).
  revert Pl Q. generalize (orient F T C * orient a b F) (orient F T a) (orient F T b) (orient F C a) (orient F C b). intros. nia.
Qed.
Lemma order_xx_ft : forall a b F T C : pnt, 0 < orient F T C -> orient a b T < 0 ->
  (- orient F T a) * (orient C T b - orient C T a) < (- orient C T a) * (orient F T b - orient F T a).
Proof.
  intros a b F T C D HT. pose proof (plucker_T a b F T C) as Pl.
  assert (Q : orient F T C * orient a b T < 0) by (apply Z.mul_pos_neg; assumption).
  revert Pl Q. generalize (orient F T C * orient a b T) (orient F T a) (orient F T b) (orient C T a) (orient C T b). intros. nia.
Qed.
Lemma order_xv : forall a b F T C : pnt, 0 < orient F T C -> a <> b -> orient a b C = 0 ->
  (- orient F T a) * dist2 a b < dot a b C * (orient F T b - orient F T a).
Proof.
  intros a b F T C D NE Zc. pose proof (affine_along a b C F T) as A. rewrite Zc in A.
  pose proof (dist2_pos a b NE) as N.
  assert (Q : 0 < dist2 a b * orient F T C) by (apply Z.mul_pos_pos; assumption).
  revert A Q. generalize (dist2 a b * orient F T C) (orient F T a) (orient F T b) (dist2 a b) (dot a b C). intros. nia.
Qed.
Lemma order_vx : forall a b V X Y : pnt, 0 < orient V X Y -> a <> b -> orient a b V = 0 ->
  dot a b V * (orient Y X b - orient Y X a) < (- orient Y X a) * dist2 a b.
Proof.
  intros a b V X Y D NE Zv. pose proof (affine_along a b V Y X) as A. rewrite Zv in A.
  assert (R : orient Y X V = - orient V X Y) by geom_ring. rewrite R in A.
  pose proof (dist2_pos a b NE) as N.
  assert (Q : 0 < dist2 a b * orient V X Y) by (apply Z.mul_pos_pos; assumption).
  revert A Q. generalize (dist2 a b * orient V X Y) (orient Y X a) (orient Y X b) (dist2 a b) (dot a b V). intros. nia.
Qed.

Lemma last_indep_first : forall (t : list litem) (x y z : litem), last (x :: t) y = last (x :: t) z.
Proof. induction t as [|h t IH]; intros x y z; [reflexivity|]. change (last (x :: h :: t) y) with (last (h :: t) y). change (last (x :: h :: t) z) with (last (h :: t) z). apply IH. Qed.

Local Close Scope Z_scope.

(* ================================================================================================ *)
(* PART 2.  the invariant of the current item; invariant => item_valid                               *)
(* ================================================================================================ *)
Section Sound.
Variable pts : list pnt.
Variable d : dcel.
Variables a b : pnt.
Notation P := (vpos pts).
Notation n := (length (d_hedges d)).
Notation s := (obs_of_dcel d).
Notation pf := (pfrom pts d).
Notation pt := (pto pts d).

Definition Inv (it : litem) : Prop :=
  match it with
  | IX e => e < n /\ XInv a b (pf e) (pt e)
  | IV v => v < length (d_verts d) /\ VInv a b (P v)
  | IO e => e < n /\ OInv a b (pf e) (pt e)
  end.

(* position of an edge intersection along the segment, as a fraction with positive denominator *)
Definition xnum (e : nat) : Z := (- orient (pf e) (pt e) a)%Z.
Definition xden (e : nat) : Z := (orient (pf e) (pt e) b - orient (pf e) (pt e) a)%Z.
(* what links two consecutive items *)
Definition Step (x y : litem) : Prop :=
  match x, y with
  | IX e, IX e' => e_face d e <> 0 /\ (e_rev e' = e_prev d e \/ e_rev e' = e_next d e) /\      (* the other side of e' is a side of the face left of e *)
                   (xnum e * xden e' < xnum e' * xden e)%Z
  | IX e, IV v => e_face d e <> 0 /\ v = e_origin d (e_prev d e) /\                            (* the apex of the face left of e *)
                  (xnum e * dist2 a b < dot a b (P v) * xden e)%Z
  | IV v, IX e => e_face d (e_rev e) <> 0 /\ apex d (e_rev e) = v /\                           (* e is opposite to v in a face at v *)
                  (dot a b (P v) * xden e < xnum e * dist2 a b)%Z
  | IV v, IO e => e_origin d e = v
  | IO e, IV v => v = e_to d e /\ a <> b
  | _, _ => False
  end.

(* why the iteration may end at an item *)
Definition InClosedFace (e : nat) : Prop :=
  e_face d e <> 0 /\ (0 <= eside pts d e b)%Z /\ (0 <= eside pts d (e_next d e) b)%Z /\ (0 <= eside pts d (e_prev d e) b)%Z.
Definition HullAt (v : nat) : Prop :=
  v_out_edge d v = None \/ exists x, x < n /\ e_origin d x = v /\ e_face d x = 0.
Definition InFaceAt (v : nat) : Prop :=
  exists x, x < n /\ e_origin d x = v /\ e_face d x <> 0 /\
            (0 < eside pts d x b)%Z /\ (0 < eside pts d (e_next d x) b)%Z /\ (0 < eside pts d (e_prev d x) b)%Z.
Definition EndOK (it : litem) : Prop :=
  match it with
  | IX e => e_face d e = 0 \/ InClosedFace e              (* the segment leaves the hull through e, or the target lies in the closed face left of e *)
  | IV v => P v = b \/ HullAt v \/ InFaceAt v              (* the target, a hull vertex, or the target strictly inside a face at v *)
  | IO e => a = b \/ (dot a b (pf e) < dist2 a b < dot a b (pt e))%Z     (* the target lies on the overlapped edge before its head *)
  end.

Lemma eorg_pfrom : forall e, eorg s pts e = pf e.
Proof. reflexivity. Qed.
Lemma edst_pto : forall e, edst s pts e = pt e.
Proof. reflexivity. Qed.
Lemma pfrom_rev : forall e, pf (e_rev e) = pt e.
Proof. reflexivity. Qed.
Lemma e_rev_rev : forall e, e_rev (e_rev e) = e.
Proof. intros e. unfold e_rev. apply rev_rev. Qed.
Lemma pto_rev : forall e, pt (e_rev e) = pf e.
Proof. intros e. unfold pto, pfrom, e_to, e_rev. rewrite rev_rev. reflexivity. Qed.

Lemma Inv_valid : forall it, Inv it -> item_valid s pts a b it = true.
Proof.
  intros [e|v|e]; cbn [Inv item_valid].
  - intros (He & X). rewrite obs_nH. rewrite !eorg_pfrom, !edst_pto.
    apply andb_true_iff. split; [apply andb_true_iff; split|].
    + apply Nat.ltb_lt. exact He.
    + unfold edge_crossed, edge_touched_by_end, edge_under_point. rewrite !eorg_pfrom, !edst_pto.
      pose proof X as ((A1 & A2) & NB & HF & HT).
      destruct (XInv_meets a b _ _ X) as [C|[C|C]]; rewrite C; rewrite ?orb_true_r; try reflexivity.
      * assert (E : (orient a b (pf e) =? 0)%Z = false) by (apply Z.eqb_neq; lia). rewrite E. cbn. rewrite orb_true_r. reflexivity.
      * assert (E : (orient a b (pf e) =? 0)%Z = false) by (apply Z.eqb_neq; lia). rewrite E. cbn. rewrite !orb_true_r. reflexivity.
    + apply Z.leb_le. destruct X as ((A1 & A2) & _). exact A2.
  - intros (Hv & V). rewrite obs_nV. apply andb_true_iff. split; [apply Nat.ltb_lt; exact Hv|exact V].
  - intros (He & O). rewrite obs_nH. rewrite !eorg_pfrom, !edst_pto.
    apply andb_true_iff. split; [apply Nat.ltb_lt; exact He|].
    unfold edge_overlaps, edge_under_point. rewrite !eorg_pfrom, !edst_pto.
    destruct O as [(E & SB)|(NE & ZF & ZT & LT & MM)].
    + subst b. rewrite pnt_eqb_refl, SB. cbn. rewrite ?orb_true_r. reflexivity.
    + apply pnt_eqb_neq in NE. rewrite NE. cbn [negb andb].
      apply Z.eqb_eq in ZF. apply Z.eqb_eq in ZT. rewrite ZF, ZT. cbn [andb].
      unfold L2. rewrite (Z.min_l (dot a b (pf e)) (dot a b (pt e))) by lia. rewrite (Z.max_r (dot a b (pf e)) (dot a b (pt e))) by lia.
      apply Z.ltb_lt in MM. rewrite MM. apply Z.ltb_lt in LT. rewrite LT. reflexivity.
Qed.

(* ================================================================================================ *)
(* PART 3.  get_next preserves the invariant                                                         *)
(* ================================================================================================ *)
Hypothesis W : DW d.
Hypothesis EC : EdgesCcw pts d.
Hypothesis ND : forall e, e < n -> P (e_origin d e) <> P (e_to d e).

Lemma rev_lt : forall e, e < n -> e_rev e < n.
Proof. intros e H. unfold e_rev. apply (dw_rev_lt d W e H). Qed.

(* the triangle of an inner half-edge, in positions *)
Lemma tri_pos : forall x, x < n -> inner d x ->
  pt x = pf (e_next d x) /\ pt (e_next d x) = pf (e_prev d x) /\ pt (e_prev d x) = pf x /\
  (0 < orient (pf x) (pf (e_next d x)) (pf (e_prev d x)))%Z.
Proof.
  intros x Hx Ix. destruct (tri_view pts d W EC x Hx Ix) as (T1 & T2 & T3 & T).
  unfold pto, pfrom. rewrite T1, T2, T3. auto.
Qed.

Definition edir_post (e : nat) (r : edir) : Prop :=
  match r with
  | EHull => e_face d e = 0
  | ENoInter => InClosedFace e
  | EVert v => Inv (IV v) /\ Step (IX e) (IV v)
  | EInter e' => Inv (IX e') /\ Step (IX e) (IX e')
  end.

Lemma edge_out_inv : forall e r, e < n -> XInv a b (pf e) (pt e) -> edge_out pts d a b e = Some r -> edir_post e r.
Proof.
  intros e r He X. unfold edge_out.
  destruct (eside pts d e b <? 0)%Z eqn:SB; [discriminate|]. apply Z.ltb_ge in SB.
  destruct (is_outer d e) eqn:O; [intros H; injection H as <-; exact (is_outer_true d e O)|].
  pose proof (is_outer_false d e O) as Ie.
  destruct (tri_pos e He Ie) as (T1 & T2 & T3 & T).
  destruct (dw_tri_facts d e W He Ie) as (Ln & Lp & _).
  pose proof (XInv_neq a b _ _ X) as NE.
  pose proof X as X0.
  destruct X as (_ & _ & HF & HT).
  rewrite T3, T2. rewrite <- T1 in *.
  destruct (inc (pf (e_prev d e)) (pf e) a b) as [[|]|] eqn:I1; destruct (inc (pt e) (pf (e_prev d e)) a b) as [[|]|] eqn:I2; try discriminate;
    intros H; injection H as <-; cbn [edir_post Inv Step].
  - (* both: through the apex *)
    apply inc_true in I1. apply inc_true in I2. destruct I1 as (P1 & P2). destruct I2 as (P3 & P4).
    pose proof (edge_out_tt a b _ _ _ T HF HT P1 P2 P3 P4) as V.
    split; [split; [apply (dw_org_lt d W); exact Lp|exact V]|].
    split; [exact Ie|]. split; [reflexivity|].
    apply VInv_spec in V. destruct V as [(E & _)|(_ & Zc & _)]; [contradiction|].
    unfold xnum, xden. exact (order_xv a b _ _ _ T NE Zc).
  - apply inc_true in I1. apply inc_false in I2. destruct I1 as (P1 & P2).
    unfold xnum, xden. rewrite pfrom_rev, pto_rev, T3.
    split; [split; [apply rev_lt; exact Lp|]|split; [exact Ie|split; [left; apply e_rev_rev|]]].
    + exact (edge_out_tf a b _ _ _ T HF HT P1 P2 I2).
    + exact (order_xx_tf a b _ _ _ T HF).
  - apply inc_false in I1. apply inc_true in I2. destruct I2 as (P3 & P4).
    unfold xnum, xden. rewrite pfrom_rev, pto_rev, T2, <- T1.
    split; [split; [apply rev_lt; exact Ln|]|split; [exact Ie|split; [right; apply e_rev_rev|]]].
    + exact (edge_out_ft a b _ _ _ T HF HT I1 P3 P4).
    + exact (order_xx_ft a b _ _ _ T HT).
  - apply inc_false in I1. apply inc_false in I2.
    destruct (edge_out_ff a b _ _ _ T X0 I1 I2) as (Q1 & Q2).
    split; [exact Ie|]. split; [exact SB|].
    unfold eside. rewrite <- T1, T2, T3. split; assumption.
Qed.

(* ---- trace_direction_out_of_vertex ---- *)
Definition vdir_post (v : nat) (r : vdir) : Prop :=
  match r with
  | VHull => HullAt v
  | VOverlap e => Inv (IO e) /\ e_origin d e = v
  | VInter e => e < n /\ ((0 <= eside pts d e b)%Z -> XInv a b (pf e) (pt e) /\ Step (IV v) (IX e)) /\
                ((eside pts d e b < 0)%Z -> InFaceAt v)
  end.

Lemma ccw_origin : forall e, e < n -> e_origin d (d_ccw d e) = e_origin d e.
Proof.
  intros e H. unfold d_ccw, e_rev.
  rewrite <- (dw_org_next d W (e_prev d e) (dw_prev_lt d W e H)). rewrite (dw_next_prev d W e H). reflexivity.
Qed.
Lemma cw_origin : forall e, e < n -> e_origin d (d_cw d e) = e_origin d e.
Proof.
  intros e H. unfold d_cw, e_rev.
  rewrite (dw_org_next d W (rev e) (dw_rev_lt d W e H)). rewrite rev_rev. reflexivity.
Qed.

Lemma vertex_out_loop_inv : forall v, VInv a b (P v) -> P v <> b ->
  forall k (ccw : bool) cur cq r,
  cur < n -> e_origin d cur = v -> cq = eside pts d cur b ->
  (if ccw then (0 <= cq)%Z else (cq <= 0)%Z) ->
  vertex_out_loop pts d b k ccw cur cq = Some r -> vdir_post v r.
Proof.
  intros v HV NB. induction k as [|k IH]; intros ccw cur cq r Hc Oc Eq M; [discriminate|].
  cbn [vertex_out_loop].
  assert (PFc : pf cur = P v) by (unfold pfrom; rewrite Oc; reflexivity).
  assert (NDc : P v <> pt cur) by (rewrite <- PFc; exact (ND cur Hc)).
  destruct ((cq =? 0)%Z && negb (proj_before (pf cur) (pt cur) b)) eqn:OV1.
  { intros H; injection H as <-. cbn [vdir_post Inv]. split; [|exact Oc]. split; [exact Hc|].
    apply andb_true_iff in OV1. destruct OV1 as (Z0 & B0). apply Z.eqb_eq in Z0. apply negb_true_iff in B0.
    unfold proj_before in B0. apply Z.ltb_ge in B0. rewrite PFc in *.
    apply vertex_overlap; try assumption. rewrite <- Z0, Eq. unfold eside. rewrite PFc. reflexivity. }
  set (nxt := if ccw then d_ccw d cur else d_cw d cur).
  assert (Hn : nxt < n).
  { unfold nxt. destruct ccw; [unfold d_ccw; apply rev_lt; apply (dw_prev_lt d W cur Hc)|unfold d_cw; apply (dw_next_lt d W); apply rev_lt; exact Hc]. }
  assert (On : e_origin d nxt = v).
  { unfold nxt. destruct ccw; [rewrite ccw_origin|rewrite cw_origin]; assumption. }
  assert (PFn : pf nxt = P v) by (unfold pfrom; rewrite On; reflexivity).
  assert (NDn : P v <> pt nxt) by (rewrite <- PFn; exact (ND nxt Hn)).
  destruct ((eside pts d nxt b =? 0)%Z && negb (proj_before (pf nxt) (pt nxt) b)) eqn:OV2.
  { intros H; injection H as <-. cbn [vdir_post Inv]. split; [|exact On]. split; [exact Hn|].
    apply andb_true_iff in OV2. destruct OV2 as (Z0 & B0). apply Z.eqb_eq in Z0. apply negb_true_iff in B0.
    unfold proj_before in B0. apply Z.ltb_ge in B0. rewrite PFn in *.
    apply vertex_overlap; try assumption. rewrite <- Z0. unfold eside. rewrite PFn. reflexivity. }
  destruct ((if ccw then e_face d cur else e_face d nxt) =? 0) eqn:FO.
  { intros H; injection H as <-. apply Nat.eqb_eq in FO. right. destruct ccw; [exists cur|exists nxt]; auto. }
  apply Nat.eqb_neq in FO.
  destruct (Bool.eqb ccw (eside pts d nxt b <? 0)%Z) eqn:EX.
  2:{ (* keep rotating *)
      apply IH; try assumption; try reflexivity.
      destruct ccw; cbn [Bool.eqb] in EX.
      - destruct (eside pts d nxt b <? 0)%Z eqn:L; [discriminate|]. apply Z.ltb_ge in L. exact L.
      - destruct (eside pts d nxt b <? 0)%Z eqn:L; [|discriminate]. apply Z.ltb_lt in L. lia. }
  intros H; injection H as <-. cbn [vdir_post].
  (* the facts about the two queries after the overlap tests *)
  assert (CQ : cq = orient (P v) (pt cur) b) by (rewrite Eq; unfold eside; rewrite PFc; reflexivity).
  assert (NQ : eside pts d nxt b = orient (P v) (pt nxt) b) by (unfold eside; rewrite PFn; reflexivity).
  assert (B1 : cq = 0%Z -> (dot (P v) (pt cur) b < 0)%Z).
  { intros Z0. rewrite Z0 in OV1. cbn in OV1. apply negb_false_iff in OV1. unfold proj_before in OV1. rewrite PFc in OV1. apply Z.ltb_lt. exact OV1. }
  assert (B2 : eside pts d nxt b = 0%Z -> (dot (P v) (pt nxt) b < 0)%Z).
  { intros Z0. rewrite Z0 in OV2. cbn in OV2. apply negb_false_iff in OV2. unfold proj_before in OV2. rewrite PFn in OV2. apply Z.ltb_lt. exact OV2. }
  destruct ccw; cbn [Bool.eqb] in EX; unfold nxt in *.
  - (* counter-clockwise: the triangle of cur is (v, X, Y) *)
    destruct (eside pts d (d_ccw d cur) b <? 0)%Z eqn:L; [|discriminate]. apply Z.ltb_lt in L.
    assert (Ic : inner d cur) by exact FO.
    destruct (tri_pos cur Hc Ic) as (T1 & T2 & T3 & T).
    destruct (dw_tri_facts d cur W Hc Ic) as (Ln & Lp & _).
    assert (PY : pt (d_ccw d cur) = pf (e_prev d cur)) by (unfold d_ccw; apply pto_rev).
    rewrite PFc, <- T1, <- PY in T.
    split; [apply rev_lt; exact Ln|]. rewrite NQ in L.
    assert (CP : (0 < orient (P v) (pt cur) b)%Z).
    { destruct (Z.eq_dec cq 0) as [Z0|Z0]; [|lia]. exfalso.
      apply (fan_behind_ccw (P v) (pt cur) (pt (d_ccw d cur)) b T); [rewrite <- CQ; exact Z0|exact (B1 Z0)|exact L]. }
    split.
    2:{ (* the target is strictly inside the triangle of cur *)
        intros B0. exists cur. split; [exact Hc|]. split; [exact Oc|]. split; [exact Ic|].
        unfold eside in *. rewrite pfrom_rev, pto_rev in B0. rewrite PFc, <- T1, T2, T3, PFc, <- PY.
        assert (R1 : orient (pt (e_next d cur)) (pf (e_next d cur)) b = (- orient (pf (e_next d cur)) (pt (e_next d cur)) b)%Z) by apply orient_flip.
        rewrite T2, <- T1, <- PY in R1. rewrite T2, <- PY, <- T1 in B0.
        assert (R2 : orient (pt (d_ccw d cur)) (P v) b = (- orient (P v) (pt (d_ccw d cur)) b)%Z) by apply orient_flip.
        lia. }
    rewrite pfrom_rev, pto_rev, T2, <- PY, <- T1.
    intros B0.
    split.
    + apply (vertex_inter a b (P v) (pt cur) (pt (d_ccw d cur)) HV NB T CP L).
      unfold eside in B0. rewrite pfrom_rev, pto_rev, T2, <- PY, <- T1 in B0. exact B0.
    + cbn [Step]. rewrite !e_rev_rev.
      split; [rewrite (dw_face_next d W cur Hc); exact Ic|].
      split; [unfold apex; rewrite (dw_prev_next d W cur Hc); exact Oc|].
      unfold xnum, xden. rewrite pfrom_rev, pto_rev, T2, <- PY, <- T1.
      destruct (VInv_not_target a b (P v) HV NB) as (NE & Zv & _).
      exact (order_vx a b _ _ _ T NE Zv).
  - (* clockwise: the triangle of rev cur is (X, v, Y) *)
    destruct (eside pts d (d_cw d cur) b <? 0)%Z eqn:L; [discriminate|]. apply Z.ltb_ge in L.
    set (rc := e_rev cur) in *.
    assert (Hr : rc < n) by (apply rev_lt; exact Hc).
    assert (Ir : inner d rc).
    { unfold inner. unfold d_cw in FO. fold rc in FO. rewrite (dw_face_next d W rc Hr) in FO. exact FO. }
    destruct (tri_pos rc Hr Ir) as (T1 & T2 & T3 & T).
    destruct (dw_tri_facts d rc W Hr Ir) as (Ln & Lp & _).
    assert (PX : pf rc = pt cur) by reflexivity.
    assert (PV : pf (e_next d rc) = P v) by exact PFn.
    assert (PY : pf (e_prev d rc) = pt (d_cw d cur)) by (symmetry; exact T2).
    rewrite PX, PV, PY in T.
    split; [apply rev_lt; exact Lp|].
    rewrite ?NQ in L. change (0 <= orient (P v) (pt (d_cw d cur)) b)%Z in L.
    assert (CN : (orient (P v) (pt cur) b < 0)%Z /\ (0 < orient (P v) (pt (d_cw d cur)) b)%Z).
    { destruct (Z.eq_dec cq 0) as [Z0|Z0].
      - exfalso. apply (fan_behind_cw (P v) (pt cur) (pt (d_cw d cur)) b T); [rewrite <- CQ; exact Z0|exact (B1 Z0)|exact L].
      - split; [lia|].
        destruct (Z.eq_dec (orient (P v) (pt (d_cw d cur)) b) 0) as [Z1|Z1]; [|lia]. exfalso.
        apply (fan_behind_cw' (P v) (pt cur) (pt (d_cw d cur)) b T); [lia|exact Z1|apply B2; rewrite NQ; exact Z1]. }
    destruct CN as (CP & NP).
    assert (T' : (0 < orient (P v) (pt (d_cw d cur)) (pt cur))%Z) by (rewrite orient_cyclic; exact T).
    split.
    2:{ (* the target is strictly inside the triangle of rev cur, read from its side v -> Y *)
        intros B0. exists (d_cw d cur). split; [exact Hn|]. split; [exact On|]. split; [exact FO|].
        unfold d_cw at 2 3. fold rc.
        destruct (dw_tri_facts d rc W Hr Ir) as (_ & _ & NN & _ & PN & _).
        rewrite NN, PN.
        unfold eside in *. rewrite pfrom_rev, pto_rev, T3, PX, PY in B0.
        rewrite PFn, T3, PX, PY.
        assert (R1 : orient (pt (d_cw d cur)) (pt cur) b = (- orient (pt cur) (pt (d_cw d cur)) b)%Z) by apply orient_flip.
        assert (R2 : orient (pt cur) (pt rc) b = (- orient (pt rc) (pt cur) b)%Z) by apply orient_flip.
        assert (PR : pt rc = P v) by (unfold rc; rewrite pto_rev; exact PFc).
        rewrite PR in *. lia. }
    rewrite pfrom_rev, pto_rev, T3, PX, PY.
    intros B0.
    split.
    + apply (vertex_inter a b (P v) (pt (d_cw d cur)) (pt cur) HV NB T' NP CP).
      unfold eside in B0. rewrite pfrom_rev, pto_rev, T3, PX, PY in B0. exact B0.
    + cbn [Step]. rewrite !e_rev_rev.
      split; [rewrite (dw_face_prev d W rc Hr); exact Ir|].
      split; [unfold apex; rewrite (dw_prev_prev d W rc Hr Ir); exact On|].
      unfold xnum, xden. rewrite pfrom_rev, pto_rev, T3, PX, PY.
      destruct (VInv_not_target a b (P v) HV NB) as (NE & Zv & _).
      exact (order_vx a b _ _ _ T' NE Zv).
Qed.

(* ---- the rotation terminates: the spokes visited are strictly ordered, hence pairwise different half-edges ---- *)
Lemma nodup_below : forall (l : list nat), NoDup l -> (forall x, In x l -> x < n) -> length l <= n.
Proof.
  intros l N B. rewrite <- (seq_length n 0). apply NoDup_incl_length; [exact N|].
  intros x Hx. apply in_seq. specialize (B x Hx). lia.
Qed.

Lemma vertex_out_loop_fuel : forall v, P v <> b ->
  forall k (ccw : bool) cur cq visited,
  cur < n -> e_origin d cur = v -> cq = eside pts d cur b ->
  (if ccw then (0 <= cq)%Z else (cq <= 0)%Z) ->
  (forall x, In x visited -> x < n /\ spoke_ok ccw (P v) b (pt x) /\ spoke_lt ccw (P v) (pt x) (pt cur)) ->
  NoDup visited ->
  vertex_out_loop pts d b k ccw cur cq = None -> length visited + k < n.
Proof.
  intros v NB. induction k as [|k IH]; intros ccw cur cq visited Hc Oc Eq M HV ND0.
  - intros _.
    assert (NI : ~ In cur visited).
    { intros Hin. destruct (HV cur Hin) as (_ & _ & L). exact (spoke_lt_irrefl _ _ _ L). }
    assert (LL : length (cur :: visited) <= n).
    { apply nodup_below; [constructor; assumption|]. intros x [<-|Hx]; [exact Hc|apply (HV x Hx)]. }
    cbn [length] in LL. lia.
  - cbn [vertex_out_loop].
    assert (PFc : pf cur = P v) by (unfold pfrom; rewrite Oc; reflexivity).
    destruct ((cq =? 0)%Z && negb (proj_before (pf cur) (pt cur) b)) eqn:OV1; [discriminate|].
    set (nxt := if ccw then d_ccw d cur else d_cw d cur).
    assert (Hn : nxt < n).
    { unfold nxt. destruct ccw; [unfold d_ccw; apply rev_lt; apply (dw_prev_lt d W cur Hc)|unfold d_cw; apply (dw_next_lt d W); apply rev_lt; exact Hc]. }
    assert (On : e_origin d nxt = v).
    { unfold nxt. destruct ccw; [rewrite ccw_origin|rewrite cw_origin]; assumption. }
    assert (PFn : pf nxt = P v) by (unfold pfrom; rewrite On; reflexivity).
    destruct ((eside pts d nxt b =? 0)%Z && negb (proj_before (pf nxt) (pt nxt) b)) eqn:OV2; [discriminate|].
    destruct ((if ccw then e_face d cur else e_face d nxt) =? 0) eqn:FO; [discriminate|]. apply Nat.eqb_neq in FO.
    destruct (Bool.eqb ccw (eside pts d nxt b <? 0)%Z) eqn:EX; [discriminate|].
    assert (CQ : cq = orient (P v) (pt cur) b) by (rewrite Eq; unfold eside; rewrite PFc; reflexivity).
    assert (NQ : eside pts d nxt b = orient (P v) (pt nxt) b) by (unfold eside; rewrite PFn; reflexivity).
    assert (B1 : cq = 0%Z -> (dot (P v) (pt cur) b < 0)%Z).
    { intros Z0. rewrite Z0 in OV1. cbn in OV1. apply negb_false_iff in OV1. unfold proj_before in OV1. rewrite PFc in OV1. apply Z.ltb_lt. exact OV1. }
    assert (B2 : eside pts d nxt b = 0%Z -> (dot (P v) (pt nxt) b < 0)%Z).
    { intros Z0. rewrite Z0 in OV2. cbn in OV2. apply negb_false_iff in OV2. unfold proj_before in OV2. rewrite PFn in OV2. apply Z.ltb_lt. exact OV2. }
    assert (M' : if ccw then (0 <= eside pts d nxt b)%Z else (eside pts d nxt b <= 0)%Z).
    { destruct ccw; cbn [Bool.eqb] in EX.
      - destruct (eside pts d nxt b <? 0)%Z eqn:L; [discriminate|]. apply Z.ltb_ge in L. exact L.
      - destruct (eside pts d nxt b <? 0)%Z eqn:L; [|discriminate]. apply Z.ltb_lt in L. lia. }
    assert (OKc : spoke_ok ccw (P v) b (pt cur)).
    { split; [rewrite <- CQ; exact M|rewrite <- CQ; exact B1]. }
    assert (OKn : spoke_ok ccw (P v) b (pt nxt)).
    { split; [rewrite <- NQ; exact M'|rewrite <- NQ; exact B2]. }
    assert (LT : spoke_lt ccw (P v) (pt cur) (pt nxt)).
    { unfold nxt in *. destruct ccw; cbn [spoke_lt].
      - assert (Ic : inner d cur) by exact FO.
        destruct (tri_pos cur Hc Ic) as (T1 & T2 & T3 & T).
        assert (PY : pt (d_ccw d cur) = pf (e_prev d cur)) by (unfold d_ccw; apply pto_rev).
        rewrite PFc, <- T1, <- PY in T. exact T.
      - set (rc := e_rev cur) in *.
        assert (Hr : rc < n) by (apply rev_lt; exact Hc).
        assert (Ir : inner d rc).
        { unfold inner. unfold d_cw in FO. fold rc in FO. rewrite (dw_face_next d W rc Hr) in FO. exact FO. }
        destruct (tri_pos rc Hr Ir) as (T1 & T2 & T3 & T).
        assert (PX : pf rc = pt cur) by reflexivity.
        assert (PV : pf (e_next d rc) = P v) by exact PFn.
        assert (PY : pf (e_prev d rc) = pt (d_cw d cur)) by (symmetry; exact T2).
        rewrite PX, PV, PY in T. rewrite orient_cyclic. exact T. }
    intros R.
    assert (NI : ~ In cur visited).
    { intros Hin. destruct (HV cur Hin) as (_ & _ & L). exact (spoke_lt_irrefl _ _ _ L). }
    assert (Q : length (cur :: visited) + k < n).
    { apply (IH ccw nxt (eside pts d nxt b) (cur :: visited)); try assumption; try reflexivity.
      - intros x [<-|Hx]; [split; [exact Hc|split; assumption]|].
        destruct (HV x Hx) as (Hx1 & Hx2 & Hx3). split; [exact Hx1|]. split; [exact Hx2|].
        exact (spoke_lt_trans ccw (P v) b _ _ _ NB Hx2 OKc OKn Hx3 LT).
      - constructor; assumption. }
    cbn [length] in Q. lia.
Qed.

Lemma vertex_out_some : forall fuel v, v < length (d_verts d) -> P v <> b -> n <= fuel -> vertex_out pts d b fuel v <> None.
Proof.
  intros fuel v Hv NB K. unfold vertex_out.
  destruct (v_out_edge d v) as [e0|] eqn:O; [|discriminate].
  pose proof (dw_vout_rng d W v Hv e0 O) as H0.
  pose proof (dw_vptr d W v Hv) as VP. rewrite O in VP.
  intros N.
  assert (Q : length (@nil nat) + fuel < n).
  { apply (vertex_out_loop_fuel v NB fuel (0 <? eside pts d e0 b)%Z e0 (eside pts d e0 b) []); try assumption; try reflexivity.
    - destruct (0 <? eside pts d e0 b)%Z eqn:L; [apply Z.ltb_lt in L; lia|apply Z.ltb_ge in L; exact L].
    - intros x [].
    - constructor. }
  cbn [length] in Q. lia.
Qed.

Lemma vertex_out_inv : forall fuel v r, v < length (d_verts d) -> VInv a b (P v) -> P v <> b ->
  vertex_out pts d b fuel v = Some r -> vdir_post v r.
Proof.
  intros fuel v r Hv HV NB. unfold vertex_out.
  destruct (v_out_edge d v) as [e0|] eqn:O; [|intros H; injection H as <-; left; exact O].
  pose proof (dw_vout_rng d W v Hv e0 O) as H0.
  pose proof (dw_vptr d W v Hv) as VP. rewrite O in VP.
  apply (vertex_out_loop_inv v HV NB); [exact H0|exact VP|reflexivity|].
  destruct (0 <? eside pts d e0 b)%Z eqn:L; [apply Z.ltb_lt in L; lia|apply Z.ltb_ge in L; exact L].
Qed.

(* ---- get_next ---- *)
Lemma get_next_inv : forall fuel it it', Inv it -> get_next pts d a b fuel it = Some (Some it') -> Inv it' /\ Step it it'.
Proof.
  intros fuel [e|v|e] it'; cbn [Inv get_next].
  - intros (He & X). destruct (edge_out pts d a b e) as [r|] eqn:E; [|discriminate].
    pose proof (edge_out_inv e r He X E) as Q.
    destruct r; try discriminate; intros H; injection H as <-; exact Q.
  - intros (Hv & V). destruct (pnt_eqb (P v) b) eqn:TB; [discriminate|]. apply pnt_eqb_neq in TB.
    destruct (vertex_out pts d b fuel v) as [r|] eqn:E; [|discriminate].
    pose proof (vertex_out_inv fuel v r Hv V TB E) as Q.
    destruct r as [|e'|e']; try discriminate.
    + intros H; injection H as <-. cbn [vdir_post] in Q. exact Q.
    + destruct (eside pts d e' b <? 0)%Z eqn:L; [discriminate|]. apply Z.ltb_ge in L.
      intros H; injection H as <-. destruct Q as (He' & Q & _). destruct (Q L) as (X & S). split; [split; assumption|exact S].
  - intros (He & O). destruct (pnt_eqb a b) eqn:AB; [discriminate|]. apply pnt_eqb_neq in AB.
    destruct (proj_on_edge a b (pt e)) eqn:PE; [|discriminate].
    intros H; injection H as <-. cbn [Inv Step].
    destruct O as [(E & _)|(_ & ZF & ZT & LT & MM)]; [contradiction|].
    split; [|split; [reflexivity|exact AB]]. split; [apply (dw_org_lt d W); apply rev_lt; exact He|].
    apply VInv_spec. right. split; [exact AB|]. split; [exact ZT|].
    unfold proj_on_edge, proj_before, proj_behind in PE. apply andb_true_iff in PE. destruct PE as (B1 & B2).
    apply negb_true_iff in B1. apply negb_true_iff in B2. apply Z.ltb_ge in B1. apply Z.ltb_ge in B2.
    change (P (e_to d e)) with (pt e). lia.
Qed.

(* the iteration ends only for a reason *)
Lemma get_next_end : forall fuel it, Inv it -> get_next pts d a b fuel it = Some None -> EndOK it.
Proof.
  intros fuel [e|v|e]; cbn [Inv get_next EndOK].
  - intros (He & X). destruct (edge_out pts d a b e) as [r|] eqn:E; [|discriminate].
    pose proof (edge_out_inv e r He X E) as Q.
    destruct r; try discriminate; intros _; cbn [edir_post] in Q; [left|right]; exact Q.
  - intros (Hv & V). destruct (pnt_eqb (P v) b) eqn:TB; [intros _; left; apply pnt_eqb_spec; exact TB|]. apply pnt_eqb_neq in TB.
    destruct (vertex_out pts d b fuel v) as [r|] eqn:E; [|discriminate].
    pose proof (vertex_out_inv fuel v r Hv V TB E) as Q.
    destruct r as [|e'|e']; try discriminate.
    + intros _. right; left. exact Q.
    + destruct (eside pts d e' b <? 0)%Z eqn:L; [|discriminate]. apply Z.ltb_lt in L.
      intros _. right; right. destruct Q as (_ & _ & Q). exact (Q L).
  - intros (He & O). destruct (pnt_eqb a b) eqn:AB; [intros _; left; apply pnt_eqb_spec; exact AB|]. apply pnt_eqb_neq in AB.
    destruct (proj_on_edge a b (pt e)) eqn:PE; [discriminate|]. intros _. right.
    destruct O as [(E & _)|(_ & ZF & ZT & LT & MM)]; [contradiction|].
    unfold proj_on_edge, proj_before, proj_behind in PE.
    destruct (dot a b (pt e) <? 0)%Z eqn:B1; [apply Z.ltb_lt in B1; lia|].
    destruct (dist2 a b <? dot a b (pt e))%Z eqn:B2; [apply Z.ltb_lt in B2; lia|discriminate].
Qed.

(* get_next never fails on an item that satisfies the invariant: the assertions of the code hold and the rotation terminates *)
Lemma inc_some : forall f0 t0 f1 t1, (orient f1 t1 f0 <> 0)%Z -> inc f0 t0 f1 t1 <> None.
Proof.
  intros f0 t0 f1 t1 NZ. unfold inc.
  destruct ((orient f0 t0 f1 =? 0)%Z && (orient f0 t0 t1 =? 0)%Z && (orient f1 t1 f0 =? 0)%Z && (orient f1 t1 t0 =? 0)%Z) eqn:E; [|discriminate].
  apply andb_true_iff in E. destruct E as (E & _). apply andb_true_iff in E. destruct E as (_ & E). apply Z.eqb_eq in E. contradiction.
Qed.
Lemma inc_some' : forall f0 t0 f1 t1, (orient f1 t1 t0 <> 0)%Z -> inc f0 t0 f1 t1 <> None.
Proof.
  intros f0 t0 f1 t1 NZ. unfold inc.
  destruct ((orient f0 t0 f1 =? 0)%Z && (orient f0 t0 t1 =? 0)%Z && (orient f1 t1 f0 =? 0)%Z && (orient f1 t1 t0 =? 0)%Z) eqn:E; [|discriminate].
  apply andb_true_iff in E. destruct E as (_ & E). apply Z.eqb_eq in E. contradiction.
Qed.

Lemma edge_out_some : forall e, e < n -> XInv a b (pf e) (pt e) -> edge_out pts d a b e <> None.
Proof.
  intros e He ((A1 & A2) & NB & HF & HT). unfold edge_out.
  destruct (eside pts d e b <? 0)%Z eqn:SB; [apply Z.ltb_lt in SB; unfold eside in SB; lia|].
  destruct (is_outer d e) eqn:O; [discriminate|].
  pose proof (is_outer_false d e O) as Ie.
  destruct (tri_pos e He Ie) as (T1 & T2 & T3 & T).
  rewrite T3, T2. rewrite <- T1.
  pose proof (inc_some' (pf (e_prev d e)) (pf e) a b) as S1.
  pose proof (inc_some (pt e) (pf (e_prev d e)) a b) as S2.
  destruct (inc (pf (e_prev d e)) (pf e) a b) as [[|]|]; [| |exfalso; apply S1; [lia|reflexivity]];
    (destruct (inc (pt e) (pf (e_prev d e)) a b) as [[|]|]; [discriminate|discriminate|exfalso; apply S2; [lia|reflexivity]]).
Qed.

Lemma get_next_some : forall fuel it, Inv it -> n <= fuel -> get_next pts d a b fuel it <> None.
Proof.
  intros fuel [e|v|e]; cbn [Inv get_next].
  - intros (He & X) _. pose proof (edge_out_some e He X) as S. destruct (edge_out pts d a b e) as [[| | |]|]; try discriminate. contradiction.
  - intros (Hv & V) K. destruct (pnt_eqb (P v) b) eqn:TB; [discriminate|]. apply pnt_eqb_neq in TB.
    pose proof (vertex_out_some fuel v Hv TB K) as S.
    destruct (vertex_out pts d b fuel v) as [[| |e']|]; try discriminate; [|contradiction].
    destruct (eside pts d e' b <? 0)%Z; discriminate.
  - intros _ _. destruct (pnt_eqb a b); [discriminate|]. destruct (proj_on_edge a b (pt e)); discriminate.
Qed.

(* ---- the iteration ---- *)
Fixpoint Chain (l : list litem) : Prop :=
  match l with
  | x :: ((y :: _) as t) => Step x y /\ Chain t
  | _ => True
  end.

Lemma iterate_inv : forall fuel k it l, Inv it -> iterate pts d a b fuel k (Some it) = Some l ->
  Forall Inv l /\ Chain l /\ exists t, l = it :: t.
Proof.
  intros fuel. induction k as [|k IH]; intros it l HI; [discriminate|].
  cbn [iterate].
  destruct (get_next pts d a b fuel it) as [[it'|]|] eqn:G; try discriminate.
  - destruct (iterate pts d a b fuel k (Some it')) as [r|] eqn:R; [|discriminate].
    intros H; injection H as <-.
    destruct (get_next_inv fuel it it' HI G) as (HI' & S).
    destruct (IH it' r HI' R) as (F & C & t & ->).
    split; [constructor; assumption|]. split; [cbn [Chain]; split; assumption|]. eexists; reflexivity.
  - destruct k; cbn [iterate]; intros H; injection H as <-;
      (split; [constructor; [exact HI|constructor]|]; split; [exact I|eexists; reflexivity]).
Qed.

Lemma iterate_last : forall fuel k it l, Inv it -> iterate pts d a b fuel k (Some it) = Some l -> EndOK (last l it).
Proof.
  intros fuel. induction k as [|k IH]; intros it l HI; [discriminate|].
  cbn [iterate].
  destruct (get_next pts d a b fuel it) as [[it'|]|] eqn:G; try discriminate.
  - destruct (iterate pts d a b fuel k (Some it')) as [r|] eqn:R; [|discriminate].
    intros H; injection H as <-.
    destruct (get_next_inv fuel it it' HI G) as (HI' & _).
    destruct (iterate_inv fuel k it' r HI' R) as (_ & _ & t & ->).
    pose proof (IH it' (it' :: t) HI' R) as Q.
    change (last (it :: it' :: t) it) with (last (it' :: t) it).
    rewrite (last_indep_first t it' it it'). exact Q.
  - destruct k; cbn [iterate]; intros H; injection H as <-; cbn [last]; exact (get_next_end fuel it HI G).
Qed.

(* ================================================================================================ *)
(* PART 4.  get_first_intersection establishes the invariant                                         *)
(* ================================================================================================ *)
Definition lres_of_lstart (st : lstart) : lres :=
  match st with
  | LsVertex v => ROnVertex v
  | LsEdge e => ROnEdge e
  | LsFace f => ROnFace f
  | LsOutside e => ROutside e
  | LsNoTri => RPanic
  end.
(* the start is a correct answer of point location for line_from (the conclusion of Tri/LocateProofs.v) *)
Definition StartSound (st : lstart) : Prop := Sound pts d a (lres_of_lstart st).

Lemma pto_prev : forall e, e < n -> pt (e_prev d e) = pf e.
Proof.
  intros e H. unfold pto, pfrom, e_to, e_rev.
  rewrite <- (dw_org_next d W (e_prev d e) (dw_prev_lt d W e H)). rewrite (dw_next_prev d W e H). reflexivity.
Qed.
Lemma pfrom_next : forall e, e < n -> pf (e_next d e) = pt e.
Proof. intros e H. unfold pto, pfrom, e_to, e_rev. rewrite (dw_org_next d W e H). reflexivity. Qed.

(* one edge of the face that contains line_from *)
Lemma ring_edge_inv : forall e it, e < n -> (0 < eside pts d e a)%Z ->
  inc a b (pf e) (pt e) = Some true ->
  (if (orient a b (pf e) =? 0)%Z then Some (Some (IV (e_origin d e)))
   else if (orient a b (pt e) =? 0)%Z then Some (Some (IV (e_to d e)))
   else Some (Some (IX (e_rev e)))) = Some (Some it) -> Inv it.
Proof.
  intros e it He L I1. apply inc_true in I1. destruct I1 as (P1 & P2).
  destruct (orient a b (pf e) =? 0)%Z eqn:ZF.
  { apply Z.eqb_eq in ZF. intros H; injection H as <-. cbn [Inv]. split; [apply (dw_org_lt d W e He)|].
    exact (first_face_from a b _ _ L P1 P2 ZF). }
  destruct (orient a b (pt e) =? 0)%Z eqn:ZT.
  { apply Z.eqb_eq in ZT. intros H; injection H as <-. cbn [Inv]. split; [apply (dw_org_lt d W); apply rev_lt; exact He|].
    exact (first_face_to a b _ _ L P1 P2 ZT). }
  apply Z.eqb_neq in ZF. apply Z.eqb_neq in ZT.
  intros H; injection H as <-. cbn [Inv]. split; [apply rev_lt; exact He|].
  rewrite pfrom_rev, pto_rev. exact (first_face_cross a b _ _ L P1 P2 ZF ZT).
Qed.

Lemma ring_first_inv : forall l it, (forall e, In e l -> e < n /\ (0 < eside pts d e a)%Z) ->
  ring_first pts d a b l = Some (Some it) -> Inv it.
Proof.
  induction l as [|e t IH]; intros it Hl; [discriminate|]. cbn [ring_first].
  destruct (Hl e (or_introl eq_refl)) as (He & L).
  destruct (eside pts d e a <? 0)%Z; [discriminate|].
  destruct (inc a b (pf e) (pt e)) as [[|]|] eqn:I1; [|apply IH; intros x Hx; apply Hl; right; exact Hx|discriminate].
  apply (ring_edge_inv e it He L I1).
Qed.

(* the walk along the outer face of a convex hull: at the head of every outer half-edge the boundary turns right, or goes straight on
   (collinear hull vertices) -- it never turns back *)
Definition HullTurn (e : nat) : Prop :=
  (orient (pf e) (pt e) (pt (e_next d e)) < 0)%Z \/
  (orient (pf e) (pt e) (pt (e_next d e)) = 0%Z /\ (dot (pt e) (pf e) (pt (e_next d e)) < 0)%Z).
Definition HullConvex : Prop := forall e, e < n -> e_face d e = 0 -> HullTurn e.

Lemma hull_prev_keeps : forall F' F T : pnt,
  ((orient F' F T < 0)%Z \/ (orient F' F T = 0%Z /\ (dot F F' T < 0)%Z)) ->
  (0 < orient F T a)%Z -> (orient F T b <= 0)%Z -> (0 < orient a b F)%Z ->
  (orient F' F b <= 0)%Z -> (0 < orient F' F a)%Z.
Proof.
  intros F' F T [C|(C & S)] A B HF B'.
  - assert (Pl : (orient F T a * orient F F' b - orient F T b * orient F F' a = orient F T F' * orient a b F)%Z) by apply plucker_F.
    assert (R1 : orient F F' b = (- orient F' F b)%Z) by geom_ring.
    assert (R2 : orient F F' a = (- orient F' F a)%Z) by geom_ring.
    assert (R3 : orient F T F' = orient F' F T) by geom_ring.
    rewrite R1, R2, R3 in Pl.
    assert (Q : (orient F' F T * orient a b F < 0)%Z) by (apply Z.mul_neg_pos; assumption).
    revert A B B' Pl Q. generalize (orient F' F T * orient a b F)%Z (orient F T a) (orient F T b) (orient F' F a) (orient F' F b). intros. nia.
  - assert (NE : F <> T) by (intros E; rewrite E in A; rewrite orient_aa in A; lia).
    pose proof (dist2_pos F T NE) as N.
    pose proof (cone_gen F T F' a) as G.
    assert (R1 : orient F F' a = (- orient F' F a)%Z) by geom_ring.
    assert (R2 : orient F T F' = orient F' F T) by geom_ring.
    assert (R3 : dot F T F' = dot F F' T) by geom_ring.
    rewrite R1, R2, R3, C in G.
    revert A S N G. generalize (dist2 F T) (orient F' F a) (dot F F' T) (orient F T a). intros. nia.
Qed.
Lemma hull_next_keeps : forall F T T' : pnt,
  ((orient F T T' < 0)%Z \/ (orient F T T' = 0%Z /\ (dot T F T' < 0)%Z)) ->
  (0 < orient F T a)%Z -> (orient F T b <= 0)%Z -> (orient a b T < 0)%Z ->
  (orient T T' b <= 0)%Z -> (0 < orient T T' a)%Z.
Proof.
  intros F T T' [C|(C & S)] A B HT B'.
  - assert (Pl : (orient F T a * orient T' T b - orient F T b * orient T' T a = - (orient F T T' * orient a b T))%Z) by apply plucker_T.
    assert (R1 : orient T' T b = (- orient T T' b)%Z) by geom_ring.
    assert (R2 : orient T' T a = (- orient T T' a)%Z) by geom_ring.
    rewrite R1, R2 in Pl.
    assert (Q : (0 < orient F T T' * orient a b T)%Z) by (apply Z.mul_neg_neg; assumption).
    revert A B B' Pl Q. generalize (orient F T T' * orient a b T)%Z (orient F T a) (orient F T b) (orient T T' a) (orient T T' b). intros. nia.
  - assert (NE : T <> F) by (intros E; rewrite E in A; rewrite orient_aa in A; lia).
    pose proof (dist2_pos T F NE) as N.
    pose proof (cone_gen T F T' a) as G.
    assert (R1 : orient T F a = (- orient F T a)%Z) by geom_ring.
    assert (R2 : orient T F T' = (- orient F T T')%Z) by geom_ring.
    rewrite R1, R2, C in G.
    revert A S N G. generalize (dist2 T F) (orient T T' a) (dot T F T') (orient F T a). intros. nia.
Qed.

(* the same for a degenerate triangulation (all vertices on one line): the outer face runs along the chain and turns back at its two ends *)
Definition ChainTurn (e : nat) : Prop :=
  (orient (pf e) (pt e) (pt (e_next d e)) = 0%Z /\ (dot (pt e) (pf e) (pt (e_next d e)) < 0)%Z) \/ pt (e_next d e) = pf e.
Definition HullChain : Prop := forall e, e < n -> e_face d e = 0 -> ChainTurn e.

Lemma straight_scale_prev : forall F' F T p : pnt, orient F' F T = 0%Z ->
  (dist2 F T * orient F' F p = (- dot F F' T) * orient F T p)%Z.
Proof.
  intros F' F T p C. pose proof (cone_gen F T F' p) as G.
  assert (R1 : orient F F' p = (- orient F' F p)%Z) by geom_ring.
  assert (R2 : orient F T F' = orient F' F T) by geom_ring.
  assert (R3 : dot F T F' = dot F F' T) by geom_ring.
  rewrite R1, R2, R3, C in G. lia.
Qed.
Lemma straight_scale_next : forall F T T' p : pnt, orient F T T' = 0%Z ->
  (dist2 T F * orient T T' p = (- dot T F T') * orient F T p)%Z.
Proof.
  intros F T T' p C. pose proof (cone_gen T F T' p) as G.
  assert (R1 : orient T F p = (- orient F T p)%Z) by geom_ring.
  assert (R2 : orient T F T' = (- orient F T T')%Z) by geom_ring.
  rewrite R1, R2, C in G. lia.
Qed.

(* line_from on the supporting line of a degenerate triangulation: only the first test of the walk is reached *)
Lemma hull_first_online : forall k e it, e < n -> hull_first pts d a b k 0%Z e = Some (Some it) -> Inv it.
Proof.
  intros [|k] e it He; [discriminate|]. cbn [hull_first]. cbn [Z.eqb].
  set (vx := if (dist2 (pt e) a <? dist2 (pf e) a)%Z then e_to d e else e_origin d e).
  assert (Hv : vx < length (d_verts d)).
  { unfold vx. destruct (dist2 (pt e) a <? dist2 (pf e) a)%Z; [apply (dw_org_lt d W); apply rev_lt; exact He|apply (dw_org_lt d W e He)]. }
  destruct ((orient a b (P vx) =? 0)%Z && negb (pnt_eqb a b) && proj_on_edge a b (P vx)) eqn:C; [|discriminate].
  intros H; injection H as <-. cbn [Inv]. split; [exact Hv|].
  apply andb_true_iff in C. destruct C as (C & C3). apply andb_true_iff in C. destruct C as (C1 & C2).
  apply Z.eqb_eq in C1. apply negb_true_iff in C2. apply pnt_eqb_neq in C2.
  apply VInv_spec. right. split; [exact C2|]. split; [exact C1|].
  unfold proj_on_edge, proj_before, proj_behind in C3. apply andb_true_iff in C3. destruct C3 as (B1 & B2).
  apply negb_true_iff in B1. apply negb_true_iff in B2. apply Z.ltb_ge in B1. apply Z.ltb_ge in B2. lia.
Qed.

(* the walk with an abstract invariant J of the visited outer half-edge *)
Lemma hull_first_gen : forall J : nat -> Prop,
  (forall e, e < n -> e_face d e = 0 -> J e -> (eside pts d e b <= 0)%Z ->
     (0 < orient a b (pf e))%Z -> (0 <= orient a b (pt e))%Z -> J (e_prev d e)) ->
  (forall e, e < n -> e_face d e = 0 -> J e -> (eside pts d e b <= 0)%Z ->
     (orient a b (pf e) <= 0)%Z -> (orient a b (pt e) < 0)%Z -> J (e_next d e)) ->
  (forall e, e < n -> J e -> (eside pts d e b <= 0)%Z ->
     (orient a b (pf e) <= 0)%Z -> (0 <= orient a b (pt e))%Z -> (0 < eside pts d e a)%Z) ->
  forall k lfq e it, e < n -> e_face d e = 0 -> J e ->
  hull_first pts d a b k lfq e = Some (Some it) -> Inv it.
Proof.
  intros J SP SN EX. induction k as [|k IH]; intros lfq e it He Oe HJ; [discriminate|].
  destruct (Z.eq_dec lfq 0) as [->|NZ]; [apply hull_first_online; exact He|].
  cbn [hull_first]. apply Z.eqb_neq in NZ. rewrite NZ.
  destruct (0 <? eside pts d e b)%Z eqn:LB; [discriminate|]. apply Z.ltb_ge in LB.
  destruct (0 <? orient a b (pf e))%Z eqn:FQ; [apply Z.ltb_lt in FQ|apply Z.ltb_ge in FQ];
    (destruct (0 <=? orient a b (pt e))%Z eqn:TQ; [apply Z.leb_le in TQ|apply Z.leb_gt in TQ]).
  - (* both ends on the left: step to prev *)
    apply IH; [apply (dw_prev_lt d W e He)|rewrite (dw_face_prev d W e He); exact Oe|].
    exact (SP e He Oe HJ LB FQ TQ).
  - discriminate.
  - (* the line enters here *)
    pose proof (EX e He HJ LB FQ TQ) as LA.
    intros H.
    assert (NE : a <> b).
    { intros E. rewrite <- E in LB. unfold eside in *. lia. }
    destruct (orient a b (pt e) =? 0)%Z eqn:ZT.
    { apply Z.eqb_eq in ZT. injection H as <-. cbn [Inv]. split; [apply (dw_org_lt d W); apply rev_lt; exact He|].
      apply (first_face_to a b (pf e) (pt e) LA); [apply lsi_eqb_false|apply lsi_eqb_false|exact ZT]; unfold eside in *; try lia.
      destruct (Z.eq_dec (orient a b (pf e)) 0) as [ZF|ZF]; [|lia]. exfalso.
      pose proof (side_shift a b (pf e) (pt e)). lia. }
    apply Z.eqb_neq in ZT.
    destruct (orient a b (pf e) =? 0)%Z eqn:ZF.
    { apply Z.eqb_eq in ZF. injection H as <-. cbn [Inv]. split; [apply (dw_org_lt d W e He)|].
      apply (first_face_from a b (pf e) (pt e) LA); [apply lsi_eqb_false|apply lsi_eqb_false|exact ZF]; unfold eside in *; lia. }
    apply Z.eqb_neq in ZF. injection H as <-. cbn [Inv]. split; [apply rev_lt; exact He|].
    rewrite pfrom_rev, pto_rev.
    apply (first_face_cross a b (pf e) (pt e) LA); [apply lsi_eqb_false|apply lsi_eqb_false| |]; unfold eside in *; lia.
  - (* both ends on the right: step to next *)
    apply IH; [apply (dw_next_lt d W e He)|rewrite (dw_face_next d W e He); exact Oe|].
    exact (SN e He Oe HJ LB FQ TQ).
Qed.

(* convex hull of a two-dimensional triangulation: line_from stays strictly outside of every visited edge that does not hide the target *)
Lemma hull_first_inv : HullConvex -> forall k lfq e it, e < n -> e_face d e = 0 ->
  ((eside pts d e b <= 0)%Z -> (0 < eside pts d e a)%Z) ->
  hull_first pts d a b k lfq e = Some (Some it) -> Inv it.
Proof.
  intros HS k lfq e it He Oe HA.
  apply (hull_first_gen (fun e => (eside pts d e b <= 0)%Z -> (0 < eside pts d e a)%Z)); try assumption.
  - clear e it He Oe HA. intros e He Oe HA LB FQ TQ LB'. pose proof (HA LB) as LA.
    unfold eside in *. rewrite (pto_prev e He) in *.
    pose proof (HS (e_prev d e) (dw_prev_lt d W e He)) as C. rewrite (dw_face_prev d W e He) in C. specialize (C Oe).
    unfold HullTurn in C. rewrite (dw_next_prev d W e He), (pto_prev e He) in C.
    exact (hull_prev_keeps _ _ _ C LA LB FQ LB').
  - clear e it He Oe HA. intros e He Oe HA LB FQ TQ LB'. pose proof (HA LB) as LA.
    unfold eside in *. rewrite (pfrom_next e He) in *.
    pose proof (HS e He Oe) as C. unfold HullTurn in C.
    exact (hull_next_keeps _ _ _ C LA LB TQ LB').
  - clear e it He Oe HA. intros e He HA LB _ _. exact (HA LB).
Qed.

(* degenerate triangulation: on the half-edges pointing the other way line_from is on the right, and they are only visited when the target lies
   on the supporting line -- where no half-edge of that direction can be the entry *)
Definition ChainInv (e : nat) : Prop :=
  (eside pts d e b <= 0)%Z ->
  (0 < eside pts d e a)%Z \/ (eside pts d e b = 0%Z /\ (eside pts d e a < 0)%Z).

Lemma hull_first_inv_chain : HullChain -> forall k lfq e it, e < n -> e_face d e = 0 -> ChainInv e ->
  hull_first pts d a b k lfq e = Some (Some it) -> Inv it.
Proof.
  intros HS k lfq e it He Oe HA.
  apply (hull_first_gen ChainInv); try assumption.
  - clear e it He Oe HA. intros e He Oe HA LB FQ TQ LB'. pose proof (HA LB) as D.
    unfold eside in *. rewrite (pto_prev e He) in *.
    pose proof (HS (e_prev d e) (dw_prev_lt d W e He)) as C. rewrite (dw_face_prev d W e He) in C. specialize (C Oe).
    unfold ChainTurn in C. rewrite (dw_next_prev d W e He), (pto_prev e He) in C.
    destruct C as [(C & S)|U].
    + pose proof (straight_scale_prev _ _ _ a C) as Sa. pose proof (straight_scale_prev _ _ _ b C) as Sb.
      pose proof (dist2_pos _ _ (ND e He)) as N. change (P (e_origin d e)) with (pf e) in N. change (P (e_to d e)) with (pt e) in N.
      revert D LB LB' S N Sa Sb.
      generalize (dist2 (pf e) (pt e)) (dot (pf e) (pf (e_prev d e)) (pt e)) (orient (pf (e_prev d e)) (pf e) a) (orient (pf (e_prev d e)) (pf e) b)
                 (orient (pf e) (pt e) a) (orient (pf e) (pt e) b).
      intros. nia.
    + rewrite <- U in *. rewrite (orient_flip (pf e) (pt e) a), (orient_flip (pf e) (pt e) b) in *. lia.
  - clear e it He Oe HA. intros e He Oe HA LB FQ TQ LB'. pose proof (HA LB) as D.
    unfold eside in *. rewrite (pfrom_next e He) in *.
    pose proof (HS e He Oe) as C. unfold ChainTurn in C.
    destruct C as [(C & S)|U].
    + pose proof (straight_scale_next _ _ _ a C) as Sa. pose proof (straight_scale_next _ _ _ b C) as Sb.
      assert (NE' : pt e <> pf e) by (intros E; apply (ND e He); symmetry; exact E).
      pose proof (dist2_pos _ _ NE') as N.
      revert D LB LB' S N Sa Sb.
      generalize (dist2 (pt e) (pf e)) (dot (pt e) (pf e) (pt (e_next d e))) (orient (pt e) (pt (e_next d e)) a) (orient (pt e) (pt (e_next d e)) b)
                 (orient (pf e) (pt e) a) (orient (pf e) (pt e) b).
      intros. nia.
    + rewrite U in *. rewrite (orient_flip (pf e) (pt e) a), (orient_flip (pf e) (pt e) b) in *. lia.
  - clear e it He Oe HA. intros e He HA LB FQ TQ. destruct (HA LB) as [LA|(Zb & LA)]; [exact LA|]. exfalso.
    pose proof (side_shift a b (pf e) (pt e)) as Sh. unfold eside in *. lia.
Qed.

(* the walk along a convex hull does not reach the panic (and the other starts have none) *)
Lemma hull_first_some : HullConvex -> forall k lfq e, e < n -> e_face d e = 0 ->
  ((eside pts d e b <= 0)%Z -> (0 < eside pts d e a)%Z) ->
  hull_first pts d a b k lfq e <> None.
Proof.
  intros HS. induction k as [|k IH]; intros lfq e He Oe HA; [discriminate|]. cbn [hull_first].
  destruct (lfq =? 0)%Z.
  { destruct ((orient a b (P (if (dist2 (pt e) a <? dist2 (pf e) a)%Z then e_to d e else e_origin d e)) =? 0)%Z && negb (pnt_eqb a b) &&
              proj_on_edge a b (P (if (dist2 (pt e) a <? dist2 (pf e) a)%Z then e_to d e else e_origin d e))); discriminate. }
  destruct (0 <? eside pts d e b)%Z eqn:LB; [discriminate|]. apply Z.ltb_ge in LB.
  pose proof (HA LB) as LA.
  destruct (0 <? orient a b (pf e))%Z eqn:FQ; [apply Z.ltb_lt in FQ|apply Z.ltb_ge in FQ];
    (destruct (0 <=? orient a b (pt e))%Z eqn:TQ; [apply Z.leb_le in TQ|apply Z.leb_gt in TQ]).
  - apply IH; [apply (dw_prev_lt d W e He)|rewrite (dw_face_prev d W e He); exact Oe|].
    intros LB'. unfold eside in *. rewrite (pto_prev e He) in *.
    pose proof (HS (e_prev d e) (dw_prev_lt d W e He)) as C. rewrite (dw_face_prev d W e He) in C. specialize (C Oe).
    unfold HullTurn in C. rewrite (dw_next_prev d W e He), (pto_prev e He) in C.
    exact (hull_prev_keeps _ _ _ C LA LB FQ LB').
  - (* panic!("Unexpected edge topology"): the target would be strictly left of the edge *)
    exfalso. pose proof (side_shift a b (pf e) (pt e)) as Sh. unfold eside in *. lia.
  - destruct (orient a b (pt e) =? 0)%Z; [discriminate|]. destruct (orient a b (pf e) =? 0)%Z; discriminate.
  - apply IH; [apply (dw_next_lt d W e He)|rewrite (dw_face_next d W e He); exact Oe|].
    intros LB'. unfold eside in *. rewrite (pfrom_next e He) in *.
    pose proof (HS e He Oe) as C. unfold HullTurn in C.
    exact (hull_next_keeps _ _ _ C LA LB TQ LB').
Qed.

Lemma ring_first_some : forall l, (forall e, In e l -> e < n /\ (0 < eside pts d e a)%Z) -> ring_first pts d a b l <> None.
Proof.
  induction l as [|e t IH]; intros Hl; [discriminate|]. cbn [ring_first].
  destruct (Hl e (or_introl eq_refl)) as (He & L).
  destruct (eside pts d e a <? 0)%Z eqn:A; [apply Z.ltb_lt in A; lia|].
  pose proof (inc_some a b (pf e) (pt e)) as S.
  destruct (inc a b (pf e) (pt e)) as [[|]|].
  - destruct (orient a b (pf e) =? 0)%Z; [discriminate|]. destruct (orient a b (pt e) =? 0)%Z; discriminate.
  - apply IH. intros x Hx. apply Hl. right. exact Hx.
  - exfalso. apply S; [unfold eside in L; lia|reflexivity].
Qed.

Lemma first_intersection_some : forall st, StartSound st ->
  (match st with LsOutside _ => HullConvex | _ => True end) ->
  first_intersection pts d a b st <> None.
Proof.
  intros [v|e|f|e|] SS HS; unfold StartSound in SS; cbn [lres_of_lstart Sound] in SS; cbn [first_intersection].
  - discriminate.
  - destruct ((orient a b (pf e) =? 0)%Z && (orient a b (pt e) =? 0)%Z).
    + destruct (0 <? (fst (pt e) - fst (pf e)) * (fst b - fst a) + (snd (pt e) - snd (pf e)) * (snd b - snd a))%Z; discriminate.
    + destruct (0 <? eside pts d e b)%Z; discriminate.
  - destruct SS as (Nf & e & He & Fe & L0 & L1 & L2). subst f.
    assert (Ie : inner d e) by exact Nf.
    destruct (tri_view pts d W EC e He Ie) as (T1 & T2 & T3 & _).
    assert (M0 : (0 < osd pts d a e)%Z) by exact L0.
    assert (M1 : (0 < osd pts d a (e_next d e))%Z) by (unfold osd; rewrite T2, <- T1; exact L1).
    assert (M2 : (0 < osd pts d a (e_prev d e))%Z) by (unfold osd; rewrite T3; exact L2).
    unfold face_ring.
    destruct (dw_tri d W e He Ie) as (_ & a0 & Ha0 & _).
    rewrite Ha0.
    destruct (tri_all pts d a W e a0 He Ie M0 M1 M2 Ha0) as (La & Ia & K0 & K1 & K2).
    apply ring_first_some. intros x [<-|[<-|[<-|[]]]].
    + split; [apply (dw_prev_lt d W a0 La)|exact K2].
    + split; [exact La|exact K0].
    + split; [apply (dw_next_lt d W a0 La)|exact K1].
  - destruct SS as (He & Oe & L). apply (hull_first_some HS); [exact He|exact Oe|intros _; exact L].
  - destruct (0 <? Raw.num_vertices d); [|discriminate].
    destruct (pnt_eqb a b); [destruct (pnt_eqb (P 0) a); discriminate|].
    destruct (proj_on_edge a b (P 0) && (orient a b (P 0) =? 0)%Z); discriminate.
Qed.

Lemma first_intersection_inv : forall st it, StartSound st ->
  (match st with LsOutside _ => HullConvex \/ HullChain | _ => True end) ->
  first_intersection pts d a b st = Some (Some it) -> Inv it.
Proof.
  intros [v|e|f|e|] it SS HS; unfold StartSound in SS; cbn [lres_of_lstart Sound] in SS; cbn [first_intersection].
  - (* on a vertex *)
    destruct SS as (Hv & E). intros H; injection H as <-. cbn [Inv]. split; [exact Hv|]. rewrite E. apply first_vertex.
  - (* on an edge *)
    destruct SS as (He & Z0 & N1 & N2 & SB).
    change (P (e_origin d e)) with (pf e) in *. change (P (e_to d e)) with (pt e) in *.
    pose proof (strictly_between_sym _ _ _ SB) as SB'.
    destruct ((orient a b (pf e) =? 0)%Z && (orient a b (pt e) =? 0)%Z) eqn:COL.
    + apply andb_true_iff in COL. destruct COL as (ZF & ZT). apply Z.eqb_eq in ZF. apply Z.eqb_eq in ZT.
      assert (DD : ((fst (pt e) - fst (pf e)) * (fst b - fst a) + (snd (pt e) - snd (pf e)) * (snd b - snd a) = dot a b (pt e) - dot a b (pf e))%Z) by geom_ring.
      rewrite DD.
      destruct (pnt_eqb a b) eqn:AB.
      * apply pnt_eqb_spec in AB.
        assert (D0 : (dot a b (pt e) - dot a b (pf e) = 0)%Z) by (rewrite <- AB; geom_ring).
        rewrite D0. cbn. intros H; injection H as <-. cbn [Inv]. split; [apply rev_lt; exact He|].
        rewrite pfrom_rev, pto_rev. left. split; assumption.
      * apply pnt_eqb_neq in AB.
        assert (NFT : pf e <> pt e) by (apply ND; exact He).
        pose proof (first_edge_overlap_dir a b _ _ NFT AB ZF ZT) as DN.
        destruct (0 <? dot a b (pt e) - dot a b (pf e))%Z eqn:DP; intros H; injection H as <-; cbn [Inv].
        -- apply Z.ltb_lt in DP. split; [exact He|]. apply first_edge_overlap; assumption.
        -- apply Z.ltb_ge in DP. split; [apply rev_lt; exact He|]. rewrite pfrom_rev, pto_rev.
           apply first_edge_overlap; try assumption. lia.
    + assert (NZ : ~ (orient a b (pf e) = 0%Z /\ orient a b (pt e) = 0%Z)).
      { intros (A1 & A2). rewrite A1, A2 in COL. discriminate. }
      pose proof (first_edge_side a b _ _ SB NZ) as NS.
      destruct (0 <? eside pts d e b)%Z eqn:LB; intros H; injection H as <-; cbn [Inv].
      * apply Z.ltb_lt in LB. split; [exact He|]. apply first_edge_cross; assumption.
      * apply Z.ltb_ge in LB. split; [apply rev_lt; exact He|]. rewrite pfrom_rev, pto_rev.
        apply first_edge_cross; [exact SB'|tauto|].
        unfold eside in LB. assert (R : orient (pt e) (pf e) b = (- orient (pf e) (pt e) b)%Z) by geom_ring. lia.
  - (* in a face *)
    destruct SS as (Nf & e & He & Fe & L0 & L1 & L2). subst f.
    assert (Ie : inner d e) by exact Nf.
    destruct (tri_view pts d W EC e He Ie) as (T1 & T2 & T3 & _).
    assert (M0 : (0 < osd pts d a e)%Z) by exact L0.
    assert (M1 : (0 < osd pts d a (e_next d e))%Z) by (unfold osd; rewrite T2, <- T1; exact L1).
    assert (M2 : (0 < osd pts d a (e_prev d e))%Z) by (unfold osd; rewrite T3; exact L2).
    unfold face_ring. destruct (f_adjacent d (e_face d e)) as [a1|] eqn:Ha; [|discriminate].
    destruct (tri_all pts d a W e a1 He Ie M0 M1 M2 Ha) as (La & Ia & K0 & K1 & K2).
    apply ring_first_inv. intros x [<-|[<-|[<-|[]]]].
    + split; [apply (dw_prev_lt d W a1 La)|exact K2].
    + split; [exact La|exact K0].
    + split; [apply (dw_next_lt d W a1 La)|exact K1].
  - (* outside of the convex hull *)
    destruct SS as (He & Oe & L). destruct HS as [HS|HS].
    + apply (hull_first_inv HS); [exact He|exact Oe|intros _; exact L].
    + apply (hull_first_inv_chain HS); [exact He|exact Oe|intros _; left; exact L].
  - (* fewer than two vertices *)
    destruct (0 <? Raw.num_vertices d) eqn:NV; [|discriminate]. apply Nat.ltb_lt in NV.
    destruct (pnt_eqb a b) eqn:AB.
    + destruct (pnt_eqb (P 0) a) eqn:E; [|discriminate]. apply pnt_eqb_spec in E.
      intros H; injection H as <-. cbn [Inv]. split; [exact NV|]. rewrite E. apply first_vertex.
    + apply pnt_eqb_neq in AB.
      destruct (proj_on_edge a b (P 0) && (orient a b (P 0) =? 0)%Z) eqn:C; [|discriminate].
      intros H; injection H as <-. cbn [Inv]. split; [exact NV|].
      apply andb_true_iff in C. destruct C as (C3 & C1). apply Z.eqb_eq in C1.
      apply VInv_spec. right. split; [exact AB|]. split; [exact C1|].
      unfold proj_on_edge, proj_before, proj_behind in C3. apply andb_true_iff in C3. destruct C3 as (B1 & B2).
      apply negb_true_iff in B1. apply negb_true_iff in B2. apply Z.ltb_ge in B1. apply Z.ltb_ge in B2. lia.
Qed.

(* ================================================================================================ *)
(* PART 5.  order along the segment; no item twice                                                   *)
(* ================================================================================================ *)
(* the position of an item along the segment as a fraction qn / qd *)
Definition qn (it : litem) : Z :=
  match it with IX e => xnum e | IV v => dot a b (P v) | IO e => dot a b (pf e) end.
Definition qd (it : litem) : Z :=
  match it with IX e => xden e | _ => Z.max 1 (dist2 a b) end.

Lemma qd_pos : forall it, Inv it -> (0 < qd it)%Z.
Proof.
  intros [e|v|e]; cbn [Inv qd]; try lia.
  intros (_ & (A1 & A2) & NB & _). unfold xden. lia.
Qed.

Lemma item_param_q : forall it, Inv it -> item_param s pts a b it = (qn it, qd it).
Proof.
  intros [e|v|e]; cbn [Inv item_param qn qd]; try reflexivity.
  intros (_ & (A1 & A2) & NB & _). rewrite !eorg_pfrom, !edst_pto. unfold xnum, xden.
  destruct (orient (pf e) (pt e) a - orient (pf e) (pt e) b =? 0)%Z eqn:E1; [apply Z.eqb_eq in E1; lia|].
  destruct (0 <? orient (pf e) (pt e) a - orient (pf e) (pt e) b)%Z eqn:E2; [apply Z.ltb_lt in E2; lia|].
  f_equal. lia.
Qed.

Definition is_iv (it : litem) : bool := match it with IV _ => true | _ => false end.
Definition is_io (it : litem) : bool := match it with IO _ => true | _ => false end.
(* strictly earlier on the segment, or at the same position as a vertex followed by the overlap that starts there *)
Definition Before (x y : litem) : Prop :=
  (qn x * qd y < qn y * qd x)%Z \/ ((qn x * qd y = qn y * qd x)%Z /\ is_iv x = true /\ is_io y = true).

Lemma max1_L2 : a <> b -> Z.max 1 (dist2 a b) = dist2 a b.
Proof. intros NE. pose proof (dist2_pos a b NE). lia. Qed.

Lemma Step_Before : forall x y, Inv x -> Inv y -> Step x y -> Before x y.
Proof.
  intros [e|v|e] [e'|v'|e']; cbn [Inv Step]; try tauto; unfold Before; cbn [qn qd is_iv is_io].
  - intros _ _ (_ & _ & S). left. exact S.
  - intros (_ & X) _ (_ & _ & S). left. rewrite (max1_L2 (XInv_neq a b _ _ X)). exact S.
  - intros _ (_ & X) (_ & _ & S). left. rewrite (max1_L2 (XInv_neq a b _ _ X)). exact S.
  - intros _ _ S. right. unfold pfrom. rewrite S. auto.
  - intros (_ & O) _ (S & NE). left. rewrite S. change (P (e_to d e)) with (pt e).
    destruct O as [(E & _)|(_ & _ & _ & LT & _)]; [contradiction|].
    rewrite (max1_L2 NE). pose proof (dist2_pos a b NE). nia.
Qed.

Lemma Before_frac_leb : forall x y, Inv x -> Inv y -> Before x y ->
  frac_leb (item_param s pts a b x) (item_param s pts a b y) = true.
Proof.
  intros x y Ix Iy B. rewrite (item_param_q x Ix), (item_param_q y Iy). unfold frac_leb. cbn [fst snd].
  apply Z.leb_le. destruct B as [B|(B & _)]; lia.
Qed.

Lemma Before_trans : forall x y z, Inv x -> Inv y -> Inv z -> Before x y -> Before y z -> Before x z.
Proof.
  intros x y z Ix Iy Iz B1 B2.
  pose proof (qd_pos x Ix) as Dx. pose proof (qd_pos y Iy) as Dy. pose proof (qd_pos z Iz) as Dz.
  unfold Before in *.
  destruct B1 as [B1|(B1 & K1 & K1')]; destruct B2 as [B2|(B2 & K2 & K2')].
  - left. revert Dx Dy Dz B1 B2. generalize (qn x) (qd x) (qn y) (qd y) (qn z) (qd z). intros. nia.
  - left. revert Dx Dy Dz B1 B2. generalize (qn x) (qd x) (qn y) (qd y) (qn z) (qd z). intros. nia.
  - left. revert Dx Dy Dz B1 B2. generalize (qn x) (qd x) (qn y) (qd y) (qn z) (qd z). intros. nia.
  - destruct y; discriminate.
Qed.

Lemma Before_neq : forall x y, Before x y -> x <> y.
Proof.
  intros x y [B|(_ & K1 & K2)] E; subst y; [lia|]. destruct x; discriminate.
Qed.

Lemma Chain_Before : forall l x, Forall Inv (x :: l) -> Chain (x :: l) -> Forall (Before x) l.
Proof.
  induction l as [|y t IH]; intros x F C; [constructor|].
  inversion F as [|? ? Ix F']; subst. inversion F' as [|? ? Iy F'']; subst.
  destruct C as (S & C).
  pose proof (Step_Before x y Ix Iy S) as Bxy.
  constructor; [exact Bxy|].
  pose proof (IH y F' C) as Hy.
  rewrite Forall_forall in *. intros z Hz.
  apply (Before_trans x y z); [exact Ix|exact Iy|apply F''; exact Hz|exact Bxy|apply Hy; exact Hz].
Qed.

Lemma Chain_NoDup : forall l, Forall Inv l -> Chain l -> NoDup l.
Proof.
  induction l as [|x t IH]; intros F C; [constructor|].
  constructor.
  - intros Hin. pose proof (Chain_Before t x F C) as B. rewrite Forall_forall in B.
    exact (Before_neq x x (B x Hin) eq_refl).
  - inversion F; subst. apply IH; [assumption|]. destruct t; [exact I|]. destruct C as (_ & C). exact C.
Qed.

(* ---- the outer fuel: a None of the iteration is never caused by the step counter when it exceeds the number of possible items ---- *)
Definition universe : list litem :=
  map IX (seq 0 n) ++ map IV (seq 0 (length (d_verts d))) ++ map IO (seq 0 n).
Lemma universe_length : length universe = 2 * n + length (d_verts d).
Proof. unfold universe. rewrite !app_length, !map_length, !seq_length. lia. Qed.
Lemma Inv_in_universe : forall it, Inv it -> In it universe.
Proof.
  intros [e|v|e] H; cbn [Inv] in H; destruct H as (H & _); unfold universe; rewrite !in_app_iff.
  - left. apply in_map. apply in_seq. lia.
  - right; left. apply in_map. apply in_seq. lia.
  - right; right. apply in_map. apply in_seq. lia.
Qed.
Lemma Chain_length : forall l, Forall Inv l -> Chain l -> length l <= 2 * n + length (d_verts d).
Proof.
  intros l F C. rewrite <- universe_length. apply NoDup_incl_length; [apply Chain_NoDup; assumption|].
  intros x Hx. apply Inv_in_universe. rewrite Forall_forall in F. apply F. exact Hx.
Qed.

Lemma iterate_none : forall fuel k it, Inv it -> iterate pts d a b fuel k (Some it) = None ->
  (exists it', Inv it' /\ get_next pts d a b fuel it' = None) \/
  (exists l, length l = k /\ Forall Inv (it :: l) /\ Chain (it :: l)).
Proof.
  intros fuel. induction k as [|k IH]; intros it HI.
  - intros _. right. exists []. split; [reflexivity|]. split; [constructor; [exact HI|constructor]|exact I].
  - cbn [iterate]. destruct (get_next pts d a b fuel it) as [[it'|]|] eqn:G.
    + destruct (iterate pts d a b fuel k (Some it')) as [r|] eqn:R; [discriminate|]. intros _.
      destruct (get_next_inv fuel it it' HI G) as (HI' & S).
      destruct (IH it' HI' R) as [L|(l & Ll & F & C)]; [left; exact L|].
      right. exists (it' :: l). split; [cbn [length]; rewrite Ll; reflexivity|].
      split; [constructor; assumption|]. cbn [Chain]. split; assumption.
    + destruct k; discriminate.
    + intros _. left. exists it. split; assumption.
Qed.

Lemma iterate_fuel_enough : forall fuel k it, Inv it -> 2 * n + length (d_verts d) <= k ->
  iterate pts d a b fuel k (Some it) = None ->
  exists it', Inv it' /\ get_next pts d a b fuel it' = None.
Proof.
  intros fuel k it HI K N. destruct (iterate_none fuel k it HI N) as [L|(l & Ll & F & C)]; [exact L|]. exfalso.
  pose proof (Chain_length (it :: l) F C) as B. cbn [length] in B. lia.
Qed.

Lemma iterate_some : forall fuel k it, Inv it -> n <= fuel -> 2 * n + length (d_verts d) <= k ->
  iterate pts d a b fuel k (Some it) <> None.
Proof.
  intros fuel k it HI K1 K2 N. destruct (iterate_fuel_enough fuel k it HI K2 N) as (it' & HI' & G).
  exact (get_next_some fuel it' HI' K1 G).
Qed.

Lemma Chain_ordered : forall l, Forall Inv l -> Chain l -> ordered s pts a b l = true.
Proof.
  induction l as [|x t IH]; intros F C; [reflexivity|].
  destruct t as [|y t']; [reflexivity|].
  inversion F as [|? ? Ix F']; subst. inversion F' as [|? ? Iy F'']; subst. destruct C as (S & C).
  cbn [ordered]. apply andb_true_iff. split.
  - apply Before_frac_leb; try assumption. apply Step_Before; assumption.
  - apply IH; assumption.
Qed.
End Sound.

(* ================================================================================================ *)
(* the theorems, as stated                                                                           *)
(* ================================================================================================ *)
Lemma nd_of_distinct : forall pts d, DW d -> PositionsDistinct (obs_of_dcel d) pts ->
  forall e, e < length (d_hedges d) -> vpos pts (e_origin d e) <> vpos pts (e_to d e).
Proof.
  intros pts d W PD e He E.
  pose proof (dw_org_neq d W e He) as N. apply N.
  apply PD; [unfold vertex; rewrite obs_nV; apply (dw_org_lt d W e He)| |exact E].
  unfold vertex. rewrite obs_nV. apply (dw_org_lt d W). apply (dw_rev_lt d W e He).
Qed.

Lemma Forall_Inv_valid : forall pts d a b l, Forall (Inv pts d a b) l -> forallb (item_valid (obs_of_dcel d) pts a b) l = true.
Proof.
  intros pts d a b l F. apply forallb_forall. rewrite Forall_forall in F. intros x Hx. apply Inv_valid. apply F. exact Hx.
Qed.

(* what consecutive items have in common: the next edge intersection is an edge of the face left of the current one, the vertex after an
   edge intersection is the apex of that face, an overlap starts at the vertex before it and ends at the vertex after it, and the
   position on the segment strictly increases except from a vertex to the overlap starting there *)
Definition Adjacent (pts : list pnt) (d : dcel) (a b : pnt) (l : list litem) : Prop := Chain pts d a b l.

(* (a) every item is valid, (b) consecutive items are ordered along the segment, (c) no item is reported twice --
   for every start that is a correct location of line_from; for a start outside of the convex hull the walk along the
   hull is covered for convex hulls (HullConvex: right turn or straight continuation at every hull vertex) and for
   degenerate triangulations (HullChain: straight continuation or turning back) *)
Theorem line_iter_sound : forall pts d a b fuel st l,
  DWf d -> FacesCcw (obs_of_dcel d) pts -> PositionsDistinct (obs_of_dcel d) pts ->
  StartSound pts d a st ->
  (match st with LsOutside _ => HullConvex pts d \/ HullChain pts d | _ => True end) ->
  line_iter pts fuel d a b st = Some l ->
  forallb (item_valid (obs_of_dcel d) pts a b) l = true /\
  ordered (obs_of_dcel d) pts a b l = true /\
  NoDup l /\
  Adjacent pts d a b l.
Proof.
  intros pts d a b fuel st l Wf FC PD SS HS. apply DWf_DW in Wf.
  pose proof (faces_ccw_edges pts d Wf FC) as EC. pose proof (nd_of_distinct pts d Wf PD) as ND.
  unfold line_iter.
  destruct (first_intersection pts d a b st) as [[it|]|] eqn:FI; [| |discriminate].
  - intros IT. pose proof (first_intersection_inv pts d a b Wf EC ND st it SS HS FI) as I0.
    destruct (iterate_inv pts d a b Wf EC ND fuel fuel it l I0 IT) as (F & C & _).
    split; [apply Forall_Inv_valid; exact F|]. split; [apply Chain_ordered; assumption|]. split; [apply (Chain_NoDup pts d a b); assumption|exact C].
  - destruct fuel; cbn [iterate]; intros H; injection H as <-; repeat split; try reflexivity; constructor.
Qed.

(* (d) the iteration ends only for a reason: at the target, where the segment leaves the convex hull, or with the target inside the (closed) face
   or on the overlapped edge reached last *)
Theorem line_iter_end : forall pts d a b fuel st l x,
  DWf d -> FacesCcw (obs_of_dcel d) pts -> PositionsDistinct (obs_of_dcel d) pts ->
  StartSound pts d a st ->
  (match st with LsOutside _ => HullConvex pts d \/ HullChain pts d | _ => True end) ->
  line_iter pts fuel d a b st = Some l -> l <> [] ->
  EndOK pts d a b (last l x).
Proof.
  intros pts d a b fuel st l x Wf FC PD SS HS. apply DWf_DW in Wf.
  pose proof (faces_ccw_edges pts d Wf FC) as EC. pose proof (nd_of_distinct pts d Wf PD) as ND.
  unfold line_iter.
  destruct (first_intersection pts d a b st) as [[it|]|] eqn:FI; [| |discriminate].
  - intros IT _. pose proof (first_intersection_inv pts d a b Wf EC ND st it SS HS FI) as I0.
    pose proof (iterate_last pts d a b Wf EC ND fuel fuel it l I0 IT) as Q.
    destruct (iterate_inv pts d a b Wf EC ND fuel fuel it l I0 IT) as (_ & _ & t & ->).
    rewrite (last_indep_first t it x it). exact Q.
  - destruct fuel; cbn [iterate]; intros H; injection H as <-; intros N; contradiction.
Qed.

(* (e) the step counter of the model's outer loop: with fuel >= 2 * (number of directed edges) + (number of vertices) a None of the model is
   a None of first_intersection or of get_next at a reachable item (a panic of the code, or the inner fuel of the rotation around a vertex) *)
Theorem line_iter_fuel_enough : forall pts d a b fuel st,
  DWf d -> FacesCcw (obs_of_dcel d) pts -> PositionsDistinct (obs_of_dcel d) pts ->
  StartSound pts d a st ->
  (match st with LsOutside _ => HullConvex pts d \/ HullChain pts d | _ => True end) ->
  2 * num_directed_edges d + Raw.num_vertices d <= fuel ->
  line_iter pts fuel d a b st = None ->
  first_intersection pts d a b st = None \/
  exists it, Inv pts d a b it /\ get_next pts d a b fuel it = None.
Proof.
  intros pts d a b fuel st Wf FC PD SS HS K. apply DWf_DW in Wf.
  pose proof (faces_ccw_edges pts d Wf FC) as EC. pose proof (nd_of_distinct pts d Wf PD) as ND.
  unfold line_iter.
  destruct (first_intersection pts d a b st) as [[it|]|] eqn:FI; [| |intros _; left; reflexivity].
  - intros IT. right. pose proof (first_intersection_inv pts d a b Wf EC ND st it SS HS FI) as I0.
    exact (iterate_fuel_enough pts d a b Wf EC ND fuel fuel it I0 K IT).
  - destruct fuel; discriminate.
Qed.

(* (f) no failure: on a well-formed state the model always returns a list -- none of the assertions / panics of the code is reached, the
   rotation around a vertex terminates, the counters suffice (for a start outside of the hull: convex hulls) *)
Theorem line_iter_total : forall pts d a b fuel st,
  DWf d -> FacesCcw (obs_of_dcel d) pts -> PositionsDistinct (obs_of_dcel d) pts ->
  StartSound pts d a st ->
  (match st with LsOutside _ => HullConvex pts d | _ => True end) ->
  2 * num_directed_edges d + Raw.num_vertices d <= fuel ->
  exists l, line_iter pts fuel d a b st = Some l.
Proof.
  intros pts d a b fuel st Wf FC PD SS HS K. apply DWf_DW in Wf.
  pose proof (faces_ccw_edges pts d Wf FC) as EC. pose proof (nd_of_distinct pts d Wf PD) as ND.
  unfold line_iter.
  pose proof (first_intersection_some pts d a b Wf EC st SS HS) as FS.
  destruct (first_intersection pts d a b st) as [[it|]|] eqn:FI; [| |contradiction].
  - assert (HS' : match st with LsOutside _ => HullConvex pts d \/ HullChain pts d | _ => True end) by (destruct st; auto).
    pose proof (first_intersection_inv pts d a b Wf EC ND st it SS HS' FI) as I0.
    unfold num_directed_edges, Raw.num_vertices in K.
    assert (K1 : length (d_hedges d) <= fuel) by lia.
    pose proof (iterate_some pts d a b Wf EC ND fuel fuel it I0 K1 K) as S.
    destruct (iterate pts d a b fuel fuel (Some it)) as [l|]; [exists l; reflexivity|contradiction].
  - exists []. destruct fuel; reflexivity.
Qed.

Theorem line_iter_handles_total : forall pts d fuel va vb,
  DWf d -> FacesCcw (obs_of_dcel d) pts -> PositionsDistinct (obs_of_dcel d) pts ->
  va < Raw.num_vertices d ->
  2 * num_directed_edges d + Raw.num_vertices d <= fuel ->
  exists l, line_iter_handles pts fuel d va vb = Some l.
Proof.
  intros pts d fuel va vb Wf FC PD Hv K. apply DWf_DW in Wf.
  pose proof (faces_ccw_edges pts d Wf FC) as EC. pose proof (nd_of_distinct pts d Wf PD) as ND.
  unfold line_iter_handles.
  assert (I0 : Inv pts d (vpos pts va) (vpos pts vb) (IV va)) by (split; [exact Hv|apply first_vertex]).
  unfold num_directed_edges, Raw.num_vertices in K.
  assert (K1 : length (d_hedges d) <= fuel) by lia.
  pose proof (iterate_some pts d _ _ Wf EC ND fuel fuel (IV va) I0 K1 K) as S.
  destruct (iterate pts d (vpos pts va) (vpos pts vb) fuel fuel (Some (IV va))) as [l|]; [exists l; reflexivity|contradiction].
Qed.

(* the remaining start of a degenerate triangulation: line_from on the supporting line beyond the chain (locate answers with the out edge of the
   end vertex, on whose line line_from lies) *)
Theorem line_iter_sound_online : forall pts d a b fuel e l,
  DWf d -> FacesCcw (obs_of_dcel d) pts -> PositionsDistinct (obs_of_dcel d) pts ->
  e < length (d_hedges d) -> eside pts d e a = 0%Z ->
  line_iter pts fuel d a b (LsOutside e) = Some l ->
  forallb (item_valid (obs_of_dcel d) pts a b) l = true /\
  ordered (obs_of_dcel d) pts a b l = true /\
  NoDup l /\
  Adjacent pts d a b l.
Proof.
  intros pts d a b fuel e l Wf FC PD He Z0. apply DWf_DW in Wf.
  pose proof (faces_ccw_edges pts d Wf FC) as EC. pose proof (nd_of_distinct pts d Wf PD) as ND.
  unfold line_iter. cbn [first_intersection]. rewrite Z0.
  destruct (hull_first pts d a b (num_directed_edges d) 0 e) as [[it|]|] eqn:FI; [| |discriminate].
  - intros IT. pose proof (hull_first_online pts d a b Wf _ e it He FI) as I0.
    destruct (iterate_inv pts d a b Wf EC ND fuel fuel it l I0 IT) as (F & C & _).
    split; [apply Forall_Inv_valid; exact F|]. split; [apply Chain_ordered; assumption|]. split; [apply (Chain_NoDup pts d a b); assumption|exact C].
  - destruct fuel; cbn [iterate]; intros H; injection H as <-; repeat split; try reflexivity; constructor.
Qed.

Theorem line_iter_handles_sound : forall pts d fuel va vb l,
  DWf d -> FacesCcw (obs_of_dcel d) pts -> PositionsDistinct (obs_of_dcel d) pts ->
  va < Raw.num_vertices d ->
  line_iter_handles pts fuel d va vb = Some l ->
  forallb (item_valid (obs_of_dcel d) pts (vpos pts va) (vpos pts vb)) l = true /\
  ordered (obs_of_dcel d) pts (vpos pts va) (vpos pts vb) l = true /\
  NoDup l /\
  Adjacent pts d (vpos pts va) (vpos pts vb) l /\
  exists t, l = IV va :: t.
Proof.
  intros pts d fuel va vb l Wf FC PD Hv. apply DWf_DW in Wf.
  pose proof (faces_ccw_edges pts d Wf FC) as EC. pose proof (nd_of_distinct pts d Wf PD) as ND.
  unfold line_iter_handles. intros IT.
  assert (I0 : Inv pts d (vpos pts va) (vpos pts vb) (IV va)) by (split; [exact Hv|apply first_vertex]).
  destruct (iterate_inv pts d _ _ Wf EC ND fuel fuel (IV va) l I0 IT) as (F & C & T).
  split; [apply Forall_Inv_valid; exact F|]. split; [apply Chain_ordered; assumption|].
  split; [apply (Chain_NoDup pts d (vpos pts va) (vpos pts vb)); assumption|]. split; [exact C|exact T].
Qed.

(* the start computed by the point location model is sound (Tri/LocateProofs.v), so the two models compose *)
Theorem line_iter_from_locate_sound : forall pts d a b fuel closest st l,
  DWf d -> FacesCcw (obs_of_dcel d) pts -> PositionsDistinct (obs_of_dcel d) pts ->
  lstart_of_lres (locate_from_closest pts d a closest) = Some st ->
  (match st with LsOutside _ => HullConvex pts d \/ HullChain pts d | _ => True end) ->
  line_iter pts fuel d a b st = Some l ->
  forallb (item_valid (obs_of_dcel d) pts a b) l = true /\
  ordered (obs_of_dcel d) pts a b l = true /\
  NoDup l /\
  Adjacent pts d a b l.
Proof.
  intros pts d a b fuel closest st l Wf FC PD LS HS IT.
  apply (line_iter_sound pts d a b fuel st l Wf FC PD); try assumption.
  pose proof (locate_from_closest_sound pts d a closest _ Wf FC eq_refl) as S.
  unfold StartSound. destruct (locate_from_closest pts d a closest); cbn [lstart_of_lres] in LS; try discriminate;
    injection LS as <-; exact S.
Qed.

(* the same through the declarative (Prop) form of the specification, Query/ViewProp.v *)
Corollary line_iter_sound_spec : forall pts d a b fuel st l,
  DWf d -> FacesCcw (obs_of_dcel d) pts -> PositionsDistinct (obs_of_dcel d) pts ->
  StartSound pts d a st ->
  (match st with LsOutside _ => HullConvex pts d \/ HullChain pts d | _ => True end) ->
  line_iter pts fuel d a b st = Some l ->
  (forall it, In it l -> ItemValid (obs_of_dcel d) pts a b it) /\ Ordered (obs_of_dcel d) pts a b l /\ NoDup l.
Proof.
  intros pts d a b fuel st l Wf FC PD SS HS IT.
  destruct (line_iter_sound pts d a b fuel st l Wf FC PD SS HS IT) as (V & O & N & _).
  split; [|split; [apply ordered_spec; exact O|exact N]].
  intros it Hin. apply item_valid_spec. rewrite forallb_forall in V. apply V. exact Hin.
Qed.

(* the conflict-edge queries of cdt.rs: every reported edge is a constraint edge and a valid edge intersection of the segment, none twice *)
Lemma conflicting_of_spec : forall d l e, In e (conflicting_of d l) <-> In (IX e) l /\ is_flagged d e = true.
Proof.
  intros d l e. unfold conflicting_of. rewrite in_flat_map. split.
  - intros (it & Hin & He). destruct it as [e'|v|e']; try contradiction.
    destruct (is_flagged d e') eqn:Fl; [|contradiction]. destruct He as [<-|[]]. split; assumption.
  - intros (Hin & Fl). exists (IX e). split; [exact Hin|]. rewrite Fl. left. reflexivity.
Qed.
Lemma conflicting_of_NoDup : forall d l, NoDup l -> NoDup (conflicting_of d l).
Proof.
  intros d. induction l as [|it t IH]; intros N; [constructor|].
  inversion N as [|? ? Hn N']; subst. unfold conflicting_of. cbn [flat_map]. fold (conflicting_of d t).
  destruct it as [e|v|e]; cbn [app]; try (apply IH; exact N').
  destruct (is_flagged d e); cbn [app]; [|apply IH; exact N'].
  constructor; [|apply IH; exact N'].
  intros Hin. apply conflicting_of_spec in Hin. apply Hn. apply Hin.
Qed.

Theorem conflicting_edges_points_sound : forall pts d a b fuel st l,
  DWf d -> FacesCcw (obs_of_dcel d) pts -> PositionsDistinct (obs_of_dcel d) pts ->
  StartSound pts d a st ->
  (match st with LsOutside _ => HullConvex pts d \/ HullChain pts d | _ => True end) ->
  conflicting_edges_points pts fuel d a b st = Some l ->
  NoDup l /\ forall e, In e l -> is_flagged d e = true /\ ItemValid (obs_of_dcel d) pts a b (IX e).
Proof.
  intros pts d a b fuel st l Wf FC PD SS HS. unfold conflicting_edges_points.
  destruct (line_iter pts fuel d a b st) as [its|] eqn:IT; [|discriminate]. intros H; injection H as <-.
  destruct (line_iter_sound_spec pts d a b fuel st its Wf FC PD SS HS IT) as (V & _ & N).
  split; [apply conflicting_of_NoDup; exact N|].
  intros e Hin. apply conflicting_of_spec in Hin. destruct Hin as (Hin & Fl). split; [exact Fl|apply V; exact Hin].
Qed.

Print Assumptions line_iter_sound.
Print Assumptions line_iter_sound_spec.
Print Assumptions line_iter_end.
Print Assumptions line_iter_fuel_enough.
Print Assumptions line_iter_total.
Print Assumptions line_iter_handles_total.
Print Assumptions line_iter_sound_online.
Print Assumptions line_iter_handles_sound.
Print Assumptions line_iter_from_locate_sound.
Print Assumptions conflicting_edges_points_sound.

(* HullConvex from the geometric clauses of the state specification (Obs/SpecProp.v): the hull contains all vertices, a vertex on a hull
   edge is one of its ends, positions are distinct -- and the boundary does not run back along the same edge (a two-dimensional state) *)
Lemma collinear_same_side : forall T F T' : pnt, orient F T T' = 0%Z -> (0 <= dot T F T')%Z ->
  on_segment F T T' = true \/ on_segment T T' F = true.
Proof.
  intros T F T' C D.
  assert (I1 : (dot F T T' = dist2 F T - dot T F T')%Z) by geom_ring.
  assert (I2 : (dist2 F T = dist2 T F)%Z) by geom_ring.
  assert (C2 : orient T T' F = 0%Z) by (rewrite <- C; geom_ring).
  destruct (Z_le_gt_dec (dot T F T') (dist2 T F)) as [L|G].
  - left. apply on_segment_spec. split; [exact C|]. lia.
  - right. apply on_segment_spec. split; [exact C2|].
    assert (I3 : (dot T T' F = dot T F T')%Z) by geom_ring.
    assert (I4 : (dot T F T' * dot T F T' = dist2 T F * dist2 T T' - orient T F T' * orient T F T')%Z) by geom_ring.
    assert (C3 : orient T F T' = 0%Z) by (assert (R : orient T F T' = (- orient F T T')%Z) by geom_ring; lia).
    rewrite C3 in I4. rewrite I3. split; [lia|].
    pose proof (dist2_nonneg T F). pose proof (dist2_nonneg T T').
    revert D G I4 H H0. generalize (dot T F T') (dist2 T F) (dist2 T T'). intros. nia.
Qed.

Theorem hull_convex_of_geo : forall pts d,
  DW d -> PositionsDistinct (obs_of_dcel d) pts ->
  HullContainsAll (obs_of_dcel d) pts -> HullBoundaryVertices (obs_of_dcel d) pts ->
  (forall e, e < length (d_hedges d) -> e_face d e = 0 -> e_to d (e_next d e) <> e_origin d e) ->
  HullConvex pts d.
Proof.
  intros pts d W PD HC HB NS e He Oe.
  pose proof (nd_of_distinct pts d W PD) as ND.
  pose proof (dw_next_lt d W e He) as Ln.
  assert (On : e_face d (e_next d e) = 0) by (rewrite (dw_face_next d W e He); exact Oe).
  assert (V1 : e_to d (e_next d e) < length (d_verts d)) by (apply (dw_org_lt d W); apply (dw_rev_lt d W); exact Ln).
  assert (V0 : e_origin d e < length (d_verts d)) by (apply (dw_org_lt d W e He)).
  assert (OE : outer_edge (obs_of_dcel d) e) by (split; [rewrite obs_nH; exact He|exact Oe]).
  assert (OE' : outer_edge (obs_of_dcel d) (e_next d e)) by (split; [rewrite obs_nH; exact Ln|exact On]).
  pose proof (HC e (e_to d (e_next d e)) OE) as C. unfold vertex in C. rewrite obs_nV in C. specialize (C V1).
  change (orient (pfrom pts d e) (pto pts d e) (pto pts d (e_next d e)) <= 0)%Z in C.
  unfold HullTurn.
  destruct (Z.eq_dec (orient (pfrom pts d e) (pto pts d e) (pto pts d (e_next d e))) 0) as [Z0|Z0]; [|left; lia].
  right. split; [exact Z0|].
  destruct (Z_lt_le_dec (dot (pto pts d e) (pfrom pts d e) (pto pts d (e_next d e))) 0) as [L|G]; [exact L|]. exfalso.
  assert (PN : pfrom pts d (e_next d e) = pto pts d e).
  { unfold pto, pfrom, e_to, e_rev. rewrite (dw_org_next d W e He). reflexivity. }
  destruct (collinear_same_side _ _ _ Z0 G) as [S|S].
  - (* the head of the next edge lies on this edge *)
    pose proof (HB e (e_to d (e_next d e)) OE) as B. unfold vertex in B. rewrite obs_nV in B. specialize (B V1 S).
    destruct B as [B|B].
    + apply (NS e He Oe). exact B.
    + apply (ND (e_next d e) Ln). change (pfrom pts d (e_next d e) = pto pts d (e_next d e)). rewrite PN.
      unfold pto at 2. rewrite B. reflexivity.
  - (* the tail of this edge lies on the next edge *)
    pose proof (HB (e_next d e) (e_origin d e) OE') as B. unfold vertex in B. rewrite obs_nV in B. specialize (B V0).
    assert (S' : on_segment (pfrom pts d (e_next d e)) (pto pts d (e_next d e)) (pfrom pts d e) = true) by (rewrite PN; exact S).
    specialize (B S').
    destruct B as [B|B].
    + apply (ND e He). change (pfrom pts d e = pto pts d e). rewrite <- PN. unfold pfrom at 1. rewrite B. reflexivity.
    + apply (NS e He Oe). symmetry. exact B.
Qed.
Print Assumptions hull_convex_of_geo.
