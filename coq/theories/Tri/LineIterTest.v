(* Tri/LineIterTest.v -- the example of the documentation of LineIntersectionIterator (src/intersection_iterator.rs), replayed by vm_compute:
   the DCEL is the one spade builds for `bulk_load_stable` of the five documented vertices (observed through the harness), the expected lists are
   the documented output (and what the implementation printed): two edge intersections, a vertex, an overlap, the final vertex. *)
From Coq Require Import ZArith List Bool Arith.
From SpadeV Require Import Geom.Pred Obs.State Obs.LineSpec Dcel.Raw Tri.Locate Tri.LineIter.
Import ListNotations.

Definition doc_pts : list pnt := [(-30, 20); (0, -20); (0, 20); (14, 0); (30, 0)]%Z.
Definition doc_dcel : dcel :=
  mkdcel [mkv 13852509503838224384%Z 4626322717216342016%Z 1%Z (Some 14); mkv 0%Z 13849694754071117824%Z 2%Z (Some 4); mkv 0%Z 4626322717216342016%Z 3%Z (Some 1); mkv 4624070917402656768%Z 0%Z 4%Z (Some 0); mkv 4629137466983448576%Z 0%Z 5%Z (Some 8)]
         [mkh 2 4 1 3; mkh 6 8 2 2; mkh 4 0 1 2; mkh 12 14 4 1; mkh 0 2 1 1; mkh 10 7 3 3; mkh 8 1 2 3; mkh 5 10 3 4; mkh 1 6 2 4; mkh 11 13 0 2; mkh 7 5 3 1; mkh 15 9 0 4; mkh 14 3 4 2; mkh 9 15 0 0; mkh 3 12 4 0; mkh 13 11 0 1]
         [Some 15; Some 0; Some 1; Some 10; Some 3]
         [false; false; false; false; false; false; false; false].

(* every start vertex of the point location leads to the same answer here *)
Example doc_example :
  map (fun c => match lstart_of_lres (locate_from_closest doc_pts doc_dcel (-30, 0)%Z c) with
                | Some st => line_iter doc_pts 40 doc_dcel (-30, 0)%Z (40, 0)%Z st
                | None => None end) (seq 0 5)
  = repeat (Some [IX 14; IX 2; IV 3; IO 6; IV 4]) 5.
Proof. vm_compute. reflexivity. Qed.

(* v0 -> v1 is half-edge 14, v2 -> v1 is half-edge 2, v3 -> v4 is half-edge 6 *)
Example doc_edges :
  (e_origin doc_dcel 14, e_to doc_dcel 14, e_origin doc_dcel 2, e_to doc_dcel 2, e_origin doc_dcel 6, e_to doc_dcel 6) = (0, 1, 2, 1, 3, 4).
Proof. vm_compute. reflexivity. Qed.

Example doc_example_handles : line_iter_handles doc_pts 40 doc_dcel 3 4 = Some [IV 3; IO 6; IV 4].
Proof. vm_compute. reflexivity. Qed.

(* the reversed segment: the same elements, edges reversed, in reverse order *)
Example doc_example_reversed :
  map (fun c => match lstart_of_lres (locate_from_closest doc_pts doc_dcel (40, 0)%Z c) with
                | Some st => line_iter doc_pts 40 doc_dcel (40, 0)%Z (-30, 0)%Z st
                | None => None end) (seq 0 5)
  = repeat (Some [IV 4; IO 7; IV 3; IX 3; IX 15]) 5.
Proof. vm_compute. reflexivity. Qed.
