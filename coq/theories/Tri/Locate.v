(* Tri/Locate.v -- hand-written model of point location in a two-dimensional triangulation:
   TriangulationExt::walk_to_nearest_neighbor and the rotation loop of locate_with_hint_fixed_core (triangulation_ext.rs),
   with exact predicates and the code's own loop counter as fuel.  Definitions only.
   Tie to the code (Check/RunModel.v, tag corr): for locate_with_hint on inputs whose squared distances are exactly representable the
   model's answer from the given hint must be the implementation's answer, element for element; otherwise (inexact greedy walk, or the hint
   comes from a hint generator) the answer must be the model's answer for some start vertex. *)
From Coq Require Import ZArith List Bool Arith.
From SpadeV Require Import Geom.Pred Obs.State Dcel.Raw Query.Hull Tri.Legalize Tri.Insert.
Import ListNotations.

Inductive side := SLeft | SRight | SOn.
Inductive lres := ROnVertex (v : nat) | ROnEdge (e : nat) | ROnFace (f : nat) | ROutside (e : nat) | RPanic.

Section L.
Variable pts : list pnt.
Variable d : dcel.
Variable q : pnt.

Definition side_of (e : nat) : side :=
  let o := orient (vpos pts (e_origin d e)) (vpos pts (e_to d e)) q in
  if (0 <? o)%Z then SLeft else if (o <? 0)%Z then SRight else SOn.
Definition is_on (s : side) : bool := match s with SOn => true | _ => false end.
Definition is_left (s : side) : bool := match s with SLeft => true | _ => false end.
Definition left_or_on (s : side) : bool := match s with SRight => false | _ => true end.
Definition reversed (s : side) : side := match s with SLeft => SRight | SRight => SLeft | SOn => SOn end.
Definition d_cw (e : nat) : nat := e_next d (e_rev e).

Definition out_edges_of (v : nat) : list nat :=
  match v_out_edge d v with
  | None => []
  | Some a => match circ_iter (d_ccw d) (num_directed_edges d) a a with Some l => l | None => [] end
  end.

(* walk_to_nearest_neighbor with exact squared distances: move to the first out-neighbour that is strictly closer *)
Fixpoint walk (k : nat) (cur : nat) (curdist : Z) : option nat :=
  match k with
  | O => None
  | S k' =>
    match find (fun e => (dist2 (vpos pts (e_to d e)) q <? curdist)%Z) (out_edges_of cur) with
    | Some e => walk k' (e_to d e) (dist2 (vpos pts (e_to d e)) q)
    | None => Some cur
    end
  end.
Definition walk_to_nearest (start : nat) : option nat :=
  if pnt_eqb (vpos pts start) q then Some start
  else walk (S (Raw.num_vertices d)) start (dist2 (vpos pts start) q).

(* the rotation loop; `rot` = rotate_ccw, q0 = e0_query *)
Fixpoint locate_loop (k : nat) (e0 : nat) (q0 : side) (rot : bool) : lres :=
  match k with
  | O => RPanic
  | S k' =>
    if pnt_eqb (vpos pts (e_origin d e0)) q then ROnVertex (e_origin d e0)
    else if pnt_eqb (vpos pts (e_to d e0)) q then ROnVertex (e_to d e0)
    else if is_on q0 then
      let e0a := if is_outer d e0 then e_rev e0 else e0 in
      let e0b := e_prev d e0a in
      let qb := side_of e0b in
      locate_loop k' e0b qb (left_or_on qb)
    else
      let e1 := if rot then e0 else e_rev e0 in
      if is_outer d e1 then ROutside e1
      else
        let rotated := if rot then d_ccw d e0 else d_cw e0 in
        let rq := side_of rotated in
        if is_on rq || Bool.eqb (is_left rq) rot then locate_loop k' rotated rq rot
        else
          let e2 := if rot then e_next d e1 else e_prev d e1 in
          let q2 := side_of e2 in
          if is_on q2 then ROnEdge e2
          else if is_left q2 then ROnFace (e_face d e1)
          else
            let e0r := e_rev e2 in
            if is_outer d e0r then locate_loop k' e0r (reversed q2) (left_or_on (reversed q2))
            else
              let e0p := e_prev d e0r in
              let qp := side_of e0p in
              locate_loop k' e0p qp (left_or_on qp)
  end.

(* locate_with_hint_fixed_core for a two-dimensional triangulation, from a given (already validated) start vertex *)
Definition locate_from_closest (closest : nat) : lres :=
  match v_out_edge d closest with
  | None => RPanic
  | Some e0 =>
      let q0 := side_of e0 in
      locate_loop (num_directed_edges d) e0 q0 (left_or_on q0)
  end.
Definition locate_with_hint (hint : nat) : lres :=
  let start := if hint <? Raw.num_vertices d then hint else 0 in      (* validate_vertex_handle *)
  match walk_to_nearest start with
  | Some c => locate_from_closest c
  | None => RPanic
  end.
End L.
