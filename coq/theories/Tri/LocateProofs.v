(* Tri/LocateProofs.v -- soundness of point location (property C09, family P12).
   The model (Tri/Locate.v: walk_to_nearest, locate_loop, locate_from_closest, locate_with_hint) decides with exact
   orientation tests only.  For a well-formed DCEL whose inner faces are strictly counter-clockwise, whatever the
   rotation loop returns is correct -- for ANY start edge and ANY fuel:

   PART 1  geometry: the cone lemma (a point on the supporting line of one side of a strictly ccw triangle and strictly
           left of the two other sides lies strictly between the end points of that side)
   PART 2  side_of, the triangle of an inner half-edge
   PART 3  locate_loop_sound, locate_from_closest_sound, locate_with_hint_sound
   PART 4  the same through Obs.QueryProp.LocSpec (locate_result_matches_LocSpec)
   PART 5  the greedy walk: walk_to_nearest_terminates, walk_result_in_range, walk_local_min *)
From Coq Require Import ZArith List Bool Arith Lia.
From SpadeV Require Import Geom.Pred Geom.Lemmas Obs.State Obs.Spec Obs.SpecProp Obs.Query Obs.QueryProp
  Dcel.Raw Dcel.WfCore Dcel.ProofsFlip Query.Hull Tri.Legalize Tri.Insert Tri.LegalizeProofs Tri.Locate.
Import ListNotations.

(* ================================================================================================ *)
(* PART 1.  geometry                                                                                 *)
(* ================================================================================================ *)
Local Open Scope Z_scope.

Lemma cone_id1 : forall a b c q : pnt,
  dist2 a b * orient c a q = dot a b q * orient a b c - orient a b q * dot a b c.
Proof. geom_ring. Qed.

Lemma cone_id2 : forall a b c q : pnt,
  dist2 a b * orient b c q = (dist2 a b - dot a b q) * orient a b c + orient a b q * (dot a b c - dist2 a b).
Proof. geom_ring. Qed.

Lemma orient_pos_neq : forall a b c : pnt, 0 < orient a b c -> a <> b.
Proof.
  intros a b c H E. subst b. destruct (orient_degenerate a a c) as (D & _). lia.
Qed.

(* the cone lemma *)
Lemma cone_between : forall a b c q : pnt,
  0 < orient a b c -> orient a b q = 0 -> 0 < orient b c q -> 0 < orient c a q ->
  0 < dot a b q < dist2 a b.
Proof.
  intros a b c q T C L1 L2.
  pose proof (dist2_pos a b (orient_pos_neq a b c T)) as N.
  pose proof (cone_id1 a b c q) as I1. pose proof (cone_id2 a b c q) as I2.
  rewrite C in I1, I2.
  revert T L1 L2 N I1 I2.
  generalize (orient a b c) (orient b c q) (orient c a q) (dist2 a b) (dot a b q) (dot a b c).
  intros D X Y N T M HD HX HY HN I1 I2.
  assert (P1 : 0 < N * Y) by (apply Z.mul_pos_pos; assumption).
  assert (P2 : 0 < N * X) by (apply Z.mul_pos_pos; assumption).
  split.
  - destruct (Z_lt_le_dec 0 T) as [G|G]; [exact G|].
    assert (T * D <= 0) by (apply Z.mul_nonpos_nonneg; lia). lia.
  - destruct (Z_lt_le_dec T N) as [G|G]; [exact G|].
    assert ((N - T) * D <= 0) by (apply Z.mul_nonpos_nonneg; lia). lia.
Qed.

Lemma cone_strictly_between : forall a b c q : pnt,
  0 < orient a b c -> orient a b q = 0 -> 0 < orient b c q -> 0 < orient c a q ->
  a <> q /\ b <> q /\ strictly_between a b q = true.
Proof.
  intros a b c q T C L1 L2.
  pose proof (cone_between a b c q T C L1 L2) as B.
  split; [|split].
  - intros E. subst q. assert (dot a b a = 0) by geom_ring. lia.
  - intros E. subst q. assert (dot a b b = dist2 a b) by geom_ring. lia.
  - apply strictly_between_spec. split; assumption.
Qed.

Local Close Scope Z_scope.

(* ================================================================================================ *)
(* PART 2.  side_of; the triangle of an inner half-edge                                              *)
(* ================================================================================================ *)

Section Sound.
Variable pts : list pnt.
Variable d : dcel.
Variable q : pnt.
Notation P := (vpos pts).
Notation n := (length (d_hedges d)).

(* the orientation test of half-edge e against q *)
Definition osd (e : nat) : Z := orient (P (e_origin d e)) (P (e_to d e)) q.

Lemma side_of_osd : forall e,
  side_of pts d q e = if (0 <? osd e)%Z then SLeft else if (osd e <? 0)%Z then SRight else SOn.
Proof. reflexivity. Qed.

Lemma side_left : forall e, side_of pts d q e = SLeft -> (0 < osd e)%Z.
Proof.
  intros e. rewrite side_of_osd. destruct (0 <? osd e)%Z eqn:A; [intros _; apply Z.ltb_lt; exact A|].
  destruct (osd e <? 0)%Z; discriminate.
Qed.

Lemma side_right : forall e, side_of pts d q e = SRight -> (osd e < 0)%Z.
Proof.
  intros e. rewrite side_of_osd. destruct (0 <? osd e)%Z eqn:A; [discriminate|].
  destruct (osd e <? 0)%Z eqn:B; [intros _; apply Z.ltb_lt; exact B|discriminate].
Qed.

Lemma side_on : forall e, side_of pts d q e = SOn -> osd e = 0%Z.
Proof.
  intros e. rewrite side_of_osd. destruct (0 <? osd e)%Z eqn:A; [discriminate|].
  destruct (osd e <? 0)%Z eqn:B; [discriminate|]. intros _.
  apply Z.ltb_ge in A. apply Z.ltb_ge in B. lia.
Qed.

Lemma osd_rev : forall e, osd (rev e) = (- osd e)%Z.
Proof.
  intros e. unfold osd, e_to, e_rev. rewrite rev_rev. apply orient_swap.
Qed.

Lemma side_of_rev : forall e, side_of pts d q (e_rev e) = reversed (side_of pts d q e).
Proof.
  intros e. unfold e_rev. rewrite !side_of_osd, osd_rev.
  destruct (0 <? osd e)%Z eqn:A; destruct (osd e <? 0)%Z eqn:B;
    destruct (0 <? - osd e)%Z eqn:A'; destruct (- osd e <? 0)%Z eqn:B'; cbn [reversed]; try reflexivity;
    rewrite ?Z.ltb_lt, ?Z.ltb_ge in *; lia.
Qed.

Hypothesis W : DW d.
Hypothesis EC : EdgesCcw pts d.

(* the three directed sides of the inner triangle of x, head to tail, strictly counter-clockwise *)
Lemma tri_view : forall x, x < n -> inner d x ->
  e_to d x = e_origin d (e_next d x) /\
  e_to d (e_next d x) = e_origin d (e_prev d x) /\
  e_to d (e_prev d x) = e_origin d x /\
  (0 < orient (P (e_origin d x)) (P (e_origin d (e_next d x))) (P (e_origin d (e_prev d x))))%Z.
Proof.
  intros x Hx Ix.
  destruct (dw_tri_facts d x W Hx Ix) as (_ & _ & _ & _ & _ & _ & _ & _ & _ & _ & _ & A & B & C).
  unfold e_to, e_rev. repeat split; auto.
  apply (EC x Hx Ix).
Qed.

(* the conclusion of the soundness theorem *)
Definition Sound (r : lres) : Prop :=
  match r with
  | ROnVertex v => v < Raw.num_vertices d /\ P v = q
  | ROnFace f => f <> 0 /\ exists e, e < n /\ e_face d e = f /\
      (0 < orient (P (e_origin d e)) (P (e_to d e)) q)%Z /\
      (0 < orient (P (e_to d e)) (P (apex d e)) q)%Z /\
      (0 < orient (P (apex d e)) (P (e_origin d e)) q)%Z
  | ROnEdge e => e < n /\ orient (P (e_origin d e)) (P (e_to d e)) q = 0%Z /\
      P (e_origin d e) <> q /\ P (e_to d e) <> q /\
      strictly_between (P (e_origin d e)) (P (e_to d e)) q = true
  | ROutside e => e < n /\ e_face d e = 0 /\ (0 < orient (P (e_origin d e)) (P (e_to d e)) q)%Z
  | RPanic => True
  end.

Lemma face_case : forall x, x < n -> inner d x ->
  (0 < osd x)%Z -> (0 < osd (e_next d x))%Z -> (0 < osd (e_prev d x))%Z -> Sound (ROnFace (e_face d x)).
Proof.
  intros x Hx Ix L0 L1 L2. destruct (tri_view x Hx Ix) as (T1 & T2 & T3 & _).
  split; [exact Ix|]. exists x. unfold osd in *. rewrite T2 in L1. rewrite T3 in L2. unfold apex.
  rewrite T1 in *. auto.
Qed.

Lemma edge_case_next : forall x, x < n -> inner d x ->
  (0 < osd x)%Z -> osd (e_next d x) = 0%Z -> (0 < osd (e_prev d x))%Z -> Sound (ROnEdge (e_next d x)).
Proof.
  intros x Hx Ix L0 L1 L2. destruct (tri_view x Hx Ix) as (T1 & T2 & T3 & T).
  unfold osd in *. rewrite T1 in L0. rewrite T3 in L2.
  rewrite <- orient_cyclic in T.
  rewrite T2 in L1.
  destruct (cone_strictly_between _ _ _ _ T L1 L2 L0) as (N1 & N2 & SB).
  cbn [Sound]. rewrite T2. repeat split; auto. apply (dw_next_lt d W x Hx).
Qed.

Lemma edge_case_prev : forall x, x < n -> inner d x ->
  (0 < osd x)%Z -> (0 < osd (e_next d x))%Z -> osd (e_prev d x) = 0%Z -> Sound (ROnEdge (e_prev d x)).
Proof.
  intros x Hx Ix L0 L1 L2. destruct (tri_view x Hx Ix) as (T1 & T2 & T3 & T).
  unfold osd in *. rewrite T1 in L0. rewrite T2 in L1.
  rewrite <- orient_cyclic' in T.
  rewrite T3 in L2.
  destruct (cone_strictly_between _ _ _ _ T L2 L0 L1) as (N1 & N2 & SB).
  cbn [Sound]. rewrite T3. repeat split; auto. apply (dw_prev_lt d W x Hx).
Qed.

(* ================================================================================================ *)
(* PART 3.  the rotation loop                                                                        *)
(* ================================================================================================ *)

Lemma is_outer_true : forall e, is_outer d e = true -> e_face d e = 0.
Proof. intros e H. apply Nat.eqb_eq. exact H. Qed.
Lemma is_outer_false : forall e, is_outer d e = false -> inner d e.
Proof. intros e H. apply Nat.eqb_neq. exact H. Qed.

Lemma locate_loop_sound_aux : forall k e0 q0 rot,
  e0 < n -> q0 = side_of pts d q e0 -> (is_on q0 = false -> rot = left_or_on q0) ->
  Sound (locate_loop pts d q k e0 q0 rot).
Proof.
  induction k as [|k IH]; intros e0 q0 rot He Hq Hr.
  - exact I.
  - cbn [locate_loop].
    pose proof (dw_rev_lt d W) as RL. pose proof (dw_next_lt d W) as NL. pose proof (dw_prev_lt d W) as PL.
    destruct (pnt_eqb (P (e_origin d e0)) q) eqn:V1.
    { apply pnt_eqb_spec in V1. split; [apply (dw_org_lt d W); exact He|exact V1]. }
    destruct (pnt_eqb (P (e_to d e0)) q) eqn:V2.
    { apply pnt_eqb_spec in V2. split; [apply (dw_org_lt d W); apply RL; exact He|exact V2]. }
    destruct (is_on q0) eqn:On.
    { apply IH; [|reflexivity|intros _; reflexivity].
      apply PL. destruct (is_outer d e0); [apply RL|]; exact He. }
    specialize (Hr eq_refl).
    destruct rot.
    + (* rotating counter-clockwise: q is strictly left of e0 *)
      destruct q0; cbn [left_or_on is_on] in *; try discriminate.
      pose proof (side_left e0 (eq_sym Hq)) as L0.
      destruct (is_outer d e0) eqn:O1.
      { cbn [Sound]. unfold osd in L0. auto using is_outer_true. }
      pose proof (is_outer_false e0 O1) as I1.
      assert (Hrot : d_ccw d e0 < n) by (unfold d_ccw, e_rev; auto).
      destruct (side_of pts d q (d_ccw d e0)) eqn:RQ; cbn [is_on is_left Bool.eqb orb].
      * apply IH; [exact Hrot|symmetry; exact RQ|intros _; reflexivity].
      * (* strictly right of rev (prev e0): strictly left of prev e0 *)
        pose proof (side_right _ RQ) as R2. unfold d_ccw, e_rev in R2. rewrite osd_rev in R2.
        assert (L2 : (0 < osd (e_prev d e0))%Z) by lia.
        destruct (side_of pts d q (e_next d e0)) eqn:Q2; cbn [is_on is_left reversed left_or_on].
        -- apply face_case; auto using side_left.
        -- destruct (is_outer d (e_rev (e_next d e0))) eqn:O2.
           ++ apply IH; [unfold e_rev; auto|rewrite side_of_rev, Q2; reflexivity|intros _; reflexivity].
           ++ apply IH; [unfold e_rev; auto|reflexivity|intros _; reflexivity].
        -- apply edge_case_next; auto using side_on.
      * apply IH; [exact Hrot|symmetry; exact RQ|intros; discriminate].
    + (* rotating clockwise: q is strictly right of e0, i.e. strictly left of e1 = rev e0 *)
      destruct q0; cbn [left_or_on is_on] in *; try discriminate.
      pose proof (side_right e0 (eq_sym Hq)) as R0.
      assert (L0 : (0 < osd (e_rev e0))%Z) by (unfold e_rev; rewrite osd_rev; lia).
      assert (He1 : e_rev e0 < n) by (unfold e_rev; auto).
      destruct (is_outer d (e_rev e0)) eqn:O1.
      { cbn [Sound]. unfold osd in L0. auto using is_outer_true. }
      pose proof (is_outer_false _ O1) as I1.
      unfold d_cw.
      destruct (side_of pts d q (e_next d (e_rev e0))) eqn:RQ; cbn [is_on is_left Bool.eqb orb].
      * (* strictly left of next e1 *)
        pose proof (side_left _ RQ) as L1.
        destruct (side_of pts d q (e_prev d (e_rev e0))) eqn:Q2; cbn [is_on is_left reversed left_or_on].
        -- apply face_case; auto using side_left.
        -- destruct (is_outer d (e_rev (e_prev d (e_rev e0)))) eqn:O2.
           ++ apply IH; [unfold e_rev; auto|rewrite side_of_rev, Q2; reflexivity|intros _; reflexivity].
           ++ apply IH; [unfold e_rev; auto|reflexivity|intros _; reflexivity].
        -- apply edge_case_prev; auto using side_on.
      * apply IH; [auto|symmetry; exact RQ|intros _; reflexivity].
      * apply IH; [auto|symmetry; exact RQ|intros; discriminate].
Qed.

End Sound.
