(* Tri/LocateProofs.v -- soundness of point location (property C09, family P12).
   The model (Tri/Locate.v: walk_to_nearest, locate_loop, locate_from_closest, locate_with_hint) decides with exact
   orientation tests only.  For a well-formed DCEL whose inner faces are strictly counter-clockwise, whatever the
   rotation loop returns is correct -- for ANY start edge and ANY fuel:

   PART 1  geometry: the cone lemma (a point on the supporting line of one side of a strictly ccw triangle and strictly
           left of the two other sides lies strictly between the end points of that side)
   PART 2  side_of, the triangle of an inner half-edge
   PART 3  locate_loop_sound, locate_from_closest_sound, locate_with_hint_sound
   PART 4  the same through Obs.QueryProp.LocSpec (locate_result_matches_LocSpec)
   PART 5  the greedy walk: walk_to_nearest_terminates, walk_result_in_range, walk_local_min *)
From Coq Require Import ZArith List Bool Arith Lia.
From SpadeV Require Import Geom.Pred Geom.Lemmas Obs.State Obs.Spec Obs.SpecProp Obs.Query Obs.QueryProp
  Dcel.Raw Dcel.WfCore Dcel.ProofsFlip Query.Hull Tri.Legalize Tri.Insert Tri.LegalizeProofs Tri.Locate.
Import ListNotations.

(* ================================================================================================ *)
(* PART 1.  geometry                                                                                 *)
(* ================================================================================================ *)
Local Open Scope Z_scope.

Lemma cone_id1 : forall a b c q : pnt,
  dist2 a b * orient c a q = dot a b q * orient a b c - orient a b q * dot a b c.
Proof. geom_ring. Qed.

Lemma cone_id2 : forall a b c q : pnt,
  dist2 a b * orient b c q = (dist2 a b - dot a b q) * orient a b c + orient a b q * (dot a b c - dist2 a b).
Proof. geom_ring. Qed.

Lemma orient_pos_neq : forall a b c : pnt, 0 < orient a b c -> a <> b.
Proof.
  intros a b c H E. subst b. destruct (orient_degenerate a a c) as (D & _). lia.
Qed.

(* the cone lemma *)
Lemma cone_between : forall a b c q : pnt,
  0 < orient a b c -> orient a b q = 0 -> 0 < orient b c q -> 0 < orient c a q ->
  0 < dot a b q < dist2 a b.
Proof.
  intros a b c q T C L1 L2.
  pose proof (dist2_pos a b (orient_pos_neq a b c T)) as N.
  pose proof (cone_id1 a b c q) as I1. pose proof (cone_id2 a b c q) as I2.
  rewrite C in I1, I2.
  revert T L1 L2 N I1 I2.
  generalize (orient a b c) (orient b c q) (orient c a q) (dist2 a b) (dot a b q) (dot a b c).
  intros D X Y N T M HD HX HY HN I1 I2.
  assert (P1 : 0 < N * Y) by (apply Z.mul_pos_pos; assumption).
  assert (P2 : 0 < N * X) by (apply Z.mul_pos_pos; assumption).
  split.
  - destruct (Z_lt_le_dec 0 T) as [G|G]; [exact G|].
    assert (T * D <= 0) by (apply Z.mul_nonpos_nonneg; lia). lia.
  - destruct (Z_lt_le_dec T N) as [G|G]; [exact G|].
    assert ((N - T) * D <= 0) by (apply Z.mul_nonpos_nonneg; lia). lia.
Qed.

Lemma cone_strictly_between : forall a b c q : pnt,
  0 < orient a b c -> orient a b q = 0 -> 0 < orient b c q -> 0 < orient c a q ->
  a <> q /\ b <> q /\ strictly_between a b q = true.
Proof.
  intros a b c q T C L1 L2.
  pose proof (cone_between a b c q T C L1 L2) as B.
  split; [|split].
  - intros E. subst q. assert (dot a b a = 0) by geom_ring. lia.
  - intros E. subst q. assert (dot a b b = dist2 a b) by geom_ring. lia.
  - apply strictly_between_spec. split; assumption.
Qed.

Local Close Scope Z_scope.

(* ================================================================================================ *)
(* PART 2.  side_of; the triangle of an inner half-edge                                              *)
(* ================================================================================================ *)

Section Sound.
Variable pts : list pnt.
Variable d : dcel.
Variable q : pnt.
Notation P := (vpos pts).
Notation n := (length (d_hedges d)).

(* the orientation test of half-edge e against q *)
Definition osd (e : nat) : Z := orient (P (e_origin d e)) (P (e_to d e)) q.

Lemma side_of_osd : forall e,
  side_of pts d q e = if (0 <? osd e)%Z then SLeft else if (osd e <? 0)%Z then SRight else SOn.
Proof. reflexivity. Qed.

Lemma side_left : forall e, side_of pts d q e = SLeft -> (0 < osd e)%Z.
Proof.
  intros e. rewrite side_of_osd. destruct (0 <? osd e)%Z eqn:A; [intros _; apply Z.ltb_lt; exact A|].
  destruct (osd e <? 0)%Z; discriminate.
Qed.

Lemma side_right : forall e, side_of pts d q e = SRight -> (osd e < 0)%Z.
Proof.
  intros e. rewrite side_of_osd. destruct (0 <? osd e)%Z eqn:A; [discriminate|].
  destruct (osd e <? 0)%Z eqn:B; [intros _; apply Z.ltb_lt; exact B|discriminate].
Qed.

Lemma side_on : forall e, side_of pts d q e = SOn -> osd e = 0%Z.
Proof.
  intros e. rewrite side_of_osd. destruct (0 <? osd e)%Z eqn:A; [discriminate|].
  destruct (osd e <? 0)%Z eqn:B; [discriminate|]. intros _.
  apply Z.ltb_ge in A. apply Z.ltb_ge in B. lia.
Qed.

Lemma osd_rev : forall e, osd (rev e) = (- osd e)%Z.
Proof.
  intros e. unfold osd, e_to, e_rev. rewrite rev_rev. apply orient_swap.
Qed.

Lemma side_of_rev : forall e, side_of pts d q (e_rev e) = reversed (side_of pts d q e).
Proof.
  intros e. unfold e_rev. rewrite !side_of_osd, osd_rev.
  destruct (0 <? osd e)%Z eqn:A; destruct (osd e <? 0)%Z eqn:B;
    destruct (0 <? - osd e)%Z eqn:A'; destruct (- osd e <? 0)%Z eqn:B'; cbn [reversed]; try reflexivity;
    rewrite ?Z.ltb_lt, ?Z.ltb_ge in *; lia.
Qed.

Hypothesis W : DW d.
Hypothesis EC : EdgesCcw pts d.

(* the three directed sides of the inner triangle of x, head to tail, strictly counter-clockwise *)
Lemma tri_view : forall x, x < n -> inner d x ->
  e_to d x = e_origin d (e_next d x) /\
  e_to d (e_next d x) = e_origin d (e_prev d x) /\
  e_to d (e_prev d x) = e_origin d x /\
  (0 < orient (P (e_origin d x)) (P (e_origin d (e_next d x))) (P (e_origin d (e_prev d x))))%Z.
Proof.
  intros x Hx Ix.
  destruct (dw_tri_facts d x W Hx Ix) as (_ & _ & _ & _ & _ & _ & _ & _ & _ & _ & _ & A & B & C).
  unfold e_to, e_rev. repeat split; auto.
  apply (EC x Hx Ix).
Qed.

(* the conclusion of the soundness theorem *)
Definition Sound (r : lres) : Prop :=
  match r with
  | ROnVertex v => v < Raw.num_vertices d /\ P v = q
  | ROnFace f => f <> 0 /\ exists e, e < n /\ e_face d e = f /\
      (0 < orient (P (e_origin d e)) (P (e_to d e)) q)%Z /\
      (0 < orient (P (e_to d e)) (P (apex d e)) q)%Z /\
      (0 < orient (P (apex d e)) (P (e_origin d e)) q)%Z
  | ROnEdge e => e < n /\ orient (P (e_origin d e)) (P (e_to d e)) q = 0%Z /\
      P (e_origin d e) <> q /\ P (e_to d e) <> q /\
      strictly_between (P (e_origin d e)) (P (e_to d e)) q = true
  | ROutside e => e < n /\ e_face d e = 0 /\ (0 < orient (P (e_origin d e)) (P (e_to d e)) q)%Z
  | RPanic => True
  end.

Lemma face_case : forall x, x < n -> inner d x ->
  (0 < osd x)%Z -> (0 < osd (e_next d x))%Z -> (0 < osd (e_prev d x))%Z -> Sound (ROnFace (e_face d x)).
Proof.
  intros x Hx Ix L0 L1 L2. destruct (tri_view x Hx Ix) as (T1 & T2 & T3 & _).
  split; [exact Ix|]. exists x. unfold osd in *. rewrite T2 in L1. rewrite T3 in L2. unfold apex.
  rewrite T1 in *. auto.
Qed.

Lemma edge_case_next : forall x, x < n -> inner d x ->
  (0 < osd x)%Z -> osd (e_next d x) = 0%Z -> (0 < osd (e_prev d x))%Z -> Sound (ROnEdge (e_next d x)).
Proof.
  intros x Hx Ix L0 L1 L2. destruct (tri_view x Hx Ix) as (T1 & T2 & T3 & T).
  unfold osd in *. rewrite T1 in L0. rewrite T3 in L2.
  rewrite <- orient_cyclic in T.
  rewrite T2 in L1.
  destruct (cone_strictly_between _ _ _ _ T L1 L2 L0) as (N1 & N2 & SB).
  cbn [Sound]. rewrite T2. repeat split; auto. apply (dw_next_lt d W x Hx).
Qed.

Lemma edge_case_prev : forall x, x < n -> inner d x ->
  (0 < osd x)%Z -> (0 < osd (e_next d x))%Z -> osd (e_prev d x) = 0%Z -> Sound (ROnEdge (e_prev d x)).
Proof.
  intros x Hx Ix L0 L1 L2. destruct (tri_view x Hx Ix) as (T1 & T2 & T3 & T).
  unfold osd in *. rewrite T1 in L0. rewrite T2 in L1.
  rewrite <- orient_cyclic' in T.
  rewrite T3 in L2.
  destruct (cone_strictly_between _ _ _ _ T L2 L0 L1) as (N1 & N2 & SB).
  cbn [Sound]. rewrite T3. repeat split; auto. apply (dw_prev_lt d W x Hx).
Qed.

(* ================================================================================================ *)
(* PART 3.  the rotation loop                                                                        *)
(* ================================================================================================ *)

Lemma is_outer_true : forall e, is_outer d e = true -> e_face d e = 0.
Proof. intros e H. apply Nat.eqb_eq. exact H. Qed.
Lemma is_outer_false : forall e, is_outer d e = false -> inner d e.
Proof. intros e H. apply Nat.eqb_neq. exact H. Qed.

Lemma locate_loop_sound_aux : forall k e0 q0 rot,
  e0 < n -> q0 = side_of pts d q e0 -> (is_on q0 = false -> rot = left_or_on q0) ->
  Sound (locate_loop pts d q k e0 q0 rot).
Proof.
  induction k as [|k IH]; intros e0 q0 rot He Hq Hr.
  - exact I.
  - cbn [locate_loop].
    pose proof (dw_rev_lt d W) as RL. pose proof (dw_next_lt d W) as NL. pose proof (dw_prev_lt d W) as PL.
    destruct (pnt_eqb (P (e_origin d e0)) q) eqn:V1.
    { apply pnt_eqb_spec in V1. split; [apply (dw_org_lt d W); exact He|exact V1]. }
    destruct (pnt_eqb (P (e_to d e0)) q) eqn:V2.
    { apply pnt_eqb_spec in V2. split; [apply (dw_org_lt d W); apply RL; exact He|exact V2]. }
    destruct (is_on q0) eqn:On.
    { apply IH; [|reflexivity|intros _; reflexivity].
      apply PL. destruct (is_outer d e0); [apply RL|]; exact He. }
    specialize (Hr eq_refl).
    destruct rot.
    + (* rotating counter-clockwise: q is strictly left of e0 *)
      destruct q0; cbn [left_or_on is_on] in *; try discriminate.
      pose proof (side_left e0 (eq_sym Hq)) as L0.
      destruct (is_outer d e0) eqn:O1.
      { cbn [Sound]. unfold osd in L0. auto using is_outer_true. }
      pose proof (is_outer_false e0 O1) as I1.
      assert (Hrot : d_ccw d e0 < n) by (unfold d_ccw, e_rev; auto).
      destruct (side_of pts d q (d_ccw d e0)) eqn:RQ; cbn [is_on is_left Bool.eqb orb].
      * apply IH; [exact Hrot|symmetry; exact RQ|intros _; reflexivity].
      * (* strictly right of rev (prev e0): strictly left of prev e0 *)
        pose proof (side_right _ RQ) as R2. unfold d_ccw, e_rev in R2. rewrite osd_rev in R2.
        assert (L2 : (0 < osd (e_prev d e0))%Z) by lia.
        destruct (side_of pts d q (e_next d e0)) eqn:Q2; cbn [is_on is_left reversed left_or_on].
        -- apply face_case; auto using side_left.
        -- destruct (is_outer d (e_rev (e_next d e0))) eqn:O2.
           ++ apply IH; [unfold e_rev; auto|rewrite side_of_rev, Q2; reflexivity|intros _; reflexivity].
           ++ apply IH; [unfold e_rev; auto|reflexivity|intros _; reflexivity].
        -- apply edge_case_next; auto using side_on.
      * apply IH; [exact Hrot|symmetry; exact RQ|intros; discriminate].
    + (* rotating clockwise: q is strictly right of e0, i.e. strictly left of e1 = rev e0 *)
      destruct q0; cbn [left_or_on is_on] in *; try discriminate.
      pose proof (side_right e0 (eq_sym Hq)) as R0.
      assert (L0 : (0 < osd (e_rev e0))%Z) by (unfold e_rev; rewrite osd_rev; lia).
      assert (He1 : e_rev e0 < n) by (unfold e_rev; auto).
      destruct (is_outer d (e_rev e0)) eqn:O1.
      { cbn [Sound]. unfold osd in L0. auto using is_outer_true. }
      pose proof (is_outer_false _ O1) as I1.
      unfold d_cw.
      destruct (side_of pts d q (e_next d (e_rev e0))) eqn:RQ; cbn [is_on is_left Bool.eqb orb].
      * (* strictly left of next e1 *)
        pose proof (side_left _ RQ) as L1.
        destruct (side_of pts d q (e_prev d (e_rev e0))) eqn:Q2; cbn [is_on is_left reversed left_or_on].
        -- apply face_case; auto using side_left.
        -- destruct (is_outer d (e_rev (e_prev d (e_rev e0)))) eqn:O2.
           ++ apply IH; [unfold e_rev; auto|rewrite side_of_rev, Q2; reflexivity|intros _; reflexivity].
           ++ apply IH; [unfold e_rev; auto|reflexivity|intros _; reflexivity].
        -- apply edge_case_prev; auto using side_on.
      * apply IH; [auto|symmetry; exact RQ|intros _; reflexivity].
      * apply IH; [auto|symmetry; exact RQ|intros; discriminate].
Qed.

Lemma vout_in_range : forall v a, v_out_edge d v = Some a -> a < n.
Proof.
  intros v a H. destruct (lt_dec v (length (d_verts d))) as [L|L].
  - exact (dw_vout_rng d W v L a H).
  - unfold v_out_edge in H. rewrite nth_overflow in H by lia. discriminate.
Qed.

Lemma locate_from_closest_sound_aux : forall closest, Sound (locate_from_closest pts d q closest).
Proof.
  intros closest. unfold locate_from_closest.
  destruct (v_out_edge d closest) as [e0|] eqn:V; [|exact I].
  apply locate_loop_sound_aux; [exact (vout_in_range _ _ V)|reflexivity|intros _; reflexivity].
Qed.

Lemma locate_with_hint_sound_aux : forall hint, Sound (locate_with_hint pts d q hint).
Proof.
  intros hint. unfold locate_with_hint.
  destruct (walk_to_nearest pts d q (if hint <? Raw.num_vertices d then hint else 0)) as [c|]; [|exact I].
  apply locate_from_closest_sound_aux.
Qed.

(* ================================================================================================ *)
(* PART 4.  the conclusion through Obs.QueryProp.LocSpec                                             *)
(* ================================================================================================ *)

Definition lres_to_locres (r : lres) : locres :=
  match r with
  | ROnVertex v => LVertex v
  | ROnEdge e => LEdge e
  | ROnFace f => LFace f
  | ROutside e => LOutside e
  | RPanic => LNone
  end.

(* q strictly left of the three sides of the triangle of x: the same holds read from the face's adjacent edge *)
Lemma tri_all : forall x a, x < n -> inner d x ->
  (0 < osd x)%Z -> (0 < osd (e_next d x))%Z -> (0 < osd (e_prev d x))%Z ->
  f_adjacent d (e_face d x) = Some a ->
  a < n /\ inner d a /\ (0 < osd a)%Z /\ (0 < osd (e_next d a))%Z /\ (0 < osd (e_prev d a))%Z.
Proof.
  intros x a Hx Ix L0 L1 L2 Ha.
  pose proof (dw_face_lt d W x Hx) as Lf.
  assert (La : a < n) by (apply (dw_adj_rng d W (e_face d x) Lf a Ha)).
  assert (Fa : e_face d a = e_face d x).
  { pose proof (dw_fptr d W (e_face d x) Lf) as Q. rewrite Ha in Q. exact Q. }
  assert (Ia : inner d a) by (unfold inner; rewrite Fa; exact Ix).
  split; [exact La|]. split; [exact Ia|].
  destruct (dw_tri_facts d x W Hx Ix) as (_ & _ & A1 & A2 & A3 & A4 & _).
  destruct (dw_same_face d W x a Hx La Ix Fa) as [-> | [-> | ->]].
  - auto.
  - rewrite A1, A3. auto.
  - rewrite A2, A4. auto.
Qed.

Lemma Sound_LocSpec : forall r, Sound r -> r <> RPanic -> LocSpec (obs_of_dcel d) pts q (lres_to_locres r).
Proof.
  intros [v|e|f|e|] S NP; cbn [lres_to_locres LocSpec]; cbn [Sound] in S.
  - exact S.
  - destruct S as (He & _ & _ & _ & SB). split; [exact He|].
    apply strictly_between_spec in SB. exact SB.
  - destruct S as (Nf & e & He & Fe & L0 & L1 & L2). subst f.
    assert (Ie : inner d e) by exact Nf.
    pose proof (dw_face_lt d W e He) as Lf.
    split; [unfold inner_face; rewrite obs_nF; lia|].
    pose proof (dw_fptr d W (e_face d e) Lf) as Q.
    destruct (f_adjacent d (e_face d e)) as [a|] eqn:Ha; [|lia].
    destruct (tri_view e He Ie) as (T1 & T2 & T3 & _).
    assert (M0 : (0 < osd e)%Z) by exact L0.
    assert (M1 : (0 < osd (e_next d e))%Z) by (unfold osd; rewrite T2, <- T1; exact L1).
    assert (M2 : (0 < osd (e_prev d e))%Z) by (unfold osd; rewrite T3; exact L2).
    destruct (tri_all e a He Ie M0 M1 M2 Ha) as (La & Ia & K0 & K1 & K2).
    destruct (tri_view a La Ia) as (U1 & U2 & U3 & _).
    unfold tri_a, tri_b, tri_c, face_tri. rewrite obs_adj, Ha. cbn [fst snd].
    change (eorg (obs_of_dcel d) pts a) with (P (e_origin d a)).
    change (eorg (obs_of_dcel d) pts (next (obs_of_dcel d) a)) with (P (e_origin d (e_next d a))).
    change (eorg (obs_of_dcel d) pts (next (obs_of_dcel d) (next (obs_of_dcel d) a)))
      with (P (e_origin d (e_next d (e_next d a)))).
    rewrite (dw_next_next d W a La Ia).
    unfold osd in K0, K1, K2. rewrite U1 in K0. rewrite U2 in K1. rewrite U3 in K2. auto.
  - destruct S as (He & Fe & L0). split; [split; assumption|]. split; intros _; [exact L0|left; exact L0].
  - congruence.
Qed.

End Sound.

(* ------------------------------------------------------------------ the theorems, as stated *)

Theorem locate_loop_sound : forall pts d q k e0 q0 rot r,
  DWf d -> FacesCcw (obs_of_dcel d) pts -> e0 < length (d_hedges d) ->
  q0 = side_of pts d q e0 -> (is_on q0 = false -> rot = left_or_on q0) ->
  locate_loop pts d q k e0 q0 rot = r ->
  match r with
  | ROnVertex v => v < Raw.num_vertices d /\ vpos pts v = q
  | ROnFace f => f <> 0 /\ exists e, e < length (d_hedges d) /\ e_face d e = f /\
      (0 < orient (vpos pts (e_origin d e)) (vpos pts (e_to d e)) q)%Z /\
      (0 < orient (vpos pts (e_to d e)) (vpos pts (apex d e)) q)%Z /\
      (0 < orient (vpos pts (apex d e)) (vpos pts (e_origin d e)) q)%Z
  | ROnEdge e => e < length (d_hedges d) /\
      orient (vpos pts (e_origin d e)) (vpos pts (e_to d e)) q = 0%Z /\
      vpos pts (e_origin d e) <> q /\ vpos pts (e_to d e) <> q /\
      strictly_between (vpos pts (e_origin d e)) (vpos pts (e_to d e)) q = true
  | ROutside e => e < length (d_hedges d) /\ e_face d e = 0 /\
      (0 < orient (vpos pts (e_origin d e)) (vpos pts (e_to d e)) q)%Z
  | RPanic => True
  end.
Proof.
  intros pts d q k e0 q0 rot r Wf FC He Hq Hr <-.
  apply DWf_DW in Wf.
  exact (locate_loop_sound_aux pts d q Wf (faces_ccw_edges pts d Wf FC) k e0 q0 rot He Hq Hr).
Qed.

Theorem locate_from_closest_sound : forall pts d q closest r,
  DWf d -> FacesCcw (obs_of_dcel d) pts ->
  locate_from_closest pts d q closest = r -> Sound pts d q r.
Proof.
  intros pts d q closest r Wf FC <-. apply DWf_DW in Wf.
  exact (locate_from_closest_sound_aux pts d q Wf (faces_ccw_edges pts d Wf FC) closest).
Qed.

Theorem locate_with_hint_sound : forall pts d q hint r,
  DWf d -> FacesCcw (obs_of_dcel d) pts ->
  locate_with_hint pts d q hint = r -> Sound pts d q r.
Proof.
  intros pts d q hint r Wf FC <-. apply DWf_DW in Wf.
  exact (locate_with_hint_sound_aux pts d q Wf (faces_ccw_edges pts d Wf FC) hint).
Qed.

(* Sound is, by definition, the conclusion of locate_loop_sound *)
Lemma Sound_unfold : forall pts d q r,
  Sound pts d q r =
  match r with
  | ROnVertex v => v < Raw.num_vertices d /\ vpos pts v = q
  | ROnFace f => f <> 0 /\ exists e, e < length (d_hedges d) /\ e_face d e = f /\
      (0 < orient (vpos pts (e_origin d e)) (vpos pts (e_to d e)) q)%Z /\
      (0 < orient (vpos pts (e_to d e)) (vpos pts (apex d e)) q)%Z /\
      (0 < orient (vpos pts (apex d e)) (vpos pts (e_origin d e)) q)%Z
  | ROnEdge e => e < length (d_hedges d) /\
      orient (vpos pts (e_origin d e)) (vpos pts (e_to d e)) q = 0%Z /\
      vpos pts (e_origin d e) <> q /\ vpos pts (e_to d e) <> q /\
      strictly_between (vpos pts (e_origin d e)) (vpos pts (e_to d e)) q = true
  | ROutside e => e < length (d_hedges d) /\ e_face d e = 0 /\
      (0 < orient (vpos pts (e_origin d e)) (vpos pts (e_to d e)) q)%Z
  | RPanic => True
  end.
Proof. reflexivity. Qed.

(* every non-panic answer of the model satisfies the declarative specification of point location (C09) *)
Theorem locate_result_matches_LocSpec : forall pts d q hint r,
  DWf d -> FacesCcw (obs_of_dcel d) pts ->
  locate_with_hint pts d q hint = r -> r <> RPanic ->
  LocSpec (obs_of_dcel d) pts q (lres_to_locres r).
Proof.
  intros pts d q hint r Wf FC E NP.
  pose proof (locate_with_hint_sound pts d q hint r Wf FC E) as S.
  apply DWf_DW in Wf.
  exact (Sound_LocSpec pts d q Wf (faces_ccw_edges pts d Wf FC) r S NP).
Qed.

Theorem locate_loop_matches_LocSpec : forall pts d q k e0 q0 rot r,
  DWf d -> FacesCcw (obs_of_dcel d) pts -> e0 < length (d_hedges d) ->
  q0 = side_of pts d q e0 -> (is_on q0 = false -> rot = left_or_on q0) ->
  locate_loop pts d q k e0 q0 rot = r -> r <> RPanic ->
  LocSpec (obs_of_dcel d) pts q (lres_to_locres r).
Proof.
  intros pts d q k e0 q0 rot r Wf FC He Hq Hr E NP.
  pose proof (locate_loop_sound pts d q k e0 q0 rot r Wf FC He Hq Hr E) as S.
  apply DWf_DW in Wf.
  exact (Sound_LocSpec pts d q Wf (faces_ccw_edges pts d Wf FC) r S NP).
Qed.

(* ================================================================================================ *)
(* PART 5.  the greedy walk to a local minimum of the distance to q                                  *)
(* ================================================================================================ *)

Lemma filter_length_le : forall A (f g : A -> bool) l,
  (forall y, f y = true -> g y = true) -> length (filter f l) <= length (filter g l).
Proof.
  intros A f g l H. induction l as [|h t IH]; cbn [filter]; [lia|].
  destruct (f h) eqn:F.
  - rewrite (H h F). cbn [length]. lia.
  - destruct (g h); cbn [length]; lia.
Qed.

Lemma filter_length_lt : forall A (f g : A -> bool) l x,
  (forall y, f y = true -> g y = true) -> In x l -> g x = true -> f x = false ->
  length (filter f l) < length (filter g l).
Proof.
  intros A f g l x H. induction l as [|h t IH]; intros I G F; [destruct I|].
  cbn [filter]. destruct I as [->|I].
  - rewrite F, G. cbn [length]. pose proof (filter_length_le A f g t H). lia.
  - specialize (IH I G F). destruct (f h) eqn:Fh.
    + rewrite (H h Fh). cbn [length]. lia.
    + destruct (g h); cbn [length]; lia.
Qed.

Lemma circ_iter_in_range : forall (f : nat -> nat) m, (forall e, e < m -> f e < m) ->
  forall fuel cur final l, cur < m -> circ_iter f fuel cur final = Some l -> forall e, In e l -> e < m.
Proof.
  intros f m Hf. induction fuel as [|k IH]; intros cur final l Hc E e I; cbn [circ_iter] in E; [discriminate|].
  destruct (f cur =? final).
  - injection E as <-. destruct I as [<-|[]]. exact Hc.
  - destruct (circ_iter f k (f cur) final) as [l'|] eqn:R; [|discriminate].
    injection E as <-. destruct I as [<-|I]; [exact Hc|].
    exact (IH (f cur) final l' (Hf cur Hc) R e I).
Qed.

Section Walk.
Variable pts : list pnt.
Variable d : dcel.
Variable q : pnt.
Notation P := (vpos pts).
Notation n := (length (d_hedges d)).
Notation nv := (Raw.num_vertices d).

Definition dq (v : nat) : Z := dist2 (P v) q.

(* number of vertices strictly closer to q than c *)
Definition closer_count (c : Z) : nat := length (filter (fun v => (dq v <? c)%Z) (seq 0 nv)).

Lemma closer_count_le : forall c, closer_count c <= nv.
Proof.
  intros c. unfold closer_count.
  pose proof (filter_length_le nat (fun v => (dq v <? c)%Z) (fun _ => true) (seq 0 nv) (fun _ _ => eq_refl)) as H.
  assert (E : filter (fun _ : nat => true) (seq 0 nv) = seq 0 nv).
  { generalize (seq 0 nv). induction l as [|h t IH]; cbn [filter]; [reflexivity|rewrite IH; reflexivity]. }
  rewrite E, seq_length in H. exact H.
Qed.

Lemma closer_count_lt : forall u v, u < nv -> (dq u < dq v)%Z -> closer_count (dq u) < closer_count (dq v).
Proof.
  intros u v Hu L. unfold closer_count.
  apply filter_length_lt with (x := u).
  - intros y Hy. apply Z.ltb_lt in Hy. apply Z.ltb_lt. lia.
  - apply in_seq. lia.
  - apply Z.ltb_lt. exact L.
  - apply Z.ltb_ge. lia.
Qed.

(* local minimum: no fuel or well-formedness involved *)
Lemma walk_local_min_aux : forall k cur v,
  walk pts d q k cur (dq cur) = Some v ->
  forall e, In e (Locate.out_edges_of d v) -> (dq v <= dq (e_to d e))%Z.
Proof.
  induction k as [|k IH]; intros cur v E e I; cbn [walk] in E; [discriminate|].
  destruct (find (fun e => (dist2 (P (e_to d e)) q <? dq cur)%Z) (Locate.out_edges_of d cur)) as [e'|] eqn:F.
  - exact (IH (e_to d e') v E e I).
  - injection E as <-. pose proof (find_none _ _ F e I) as X. cbv beta in X.
    apply Z.ltb_ge in X. exact X.
Qed.

Theorem walk_local_min : forall start v,
  walk_to_nearest pts d q start = Some v ->
  forall e, In e (Locate.out_edges_of d v) -> (dist2 (P v) q <= dist2 (P (e_to d e)) q)%Z.
Proof.
  intros start v E e I. unfold walk_to_nearest in E.
  destruct (pnt_eqb (P start) q) eqn:V.
  - injection E as <-. apply pnt_eqb_spec in V. rewrite V.
    assert (Z0 : dist2 q q = 0%Z) by (apply dist2_zero_iff; reflexivity).
    rewrite Z0. apply dist2_nonneg.
  - exact (walk_local_min_aux _ _ _ E e I).
Qed.

Hypothesis W : DW d.

Lemma out_edges_in_range : forall v e, In e (Locate.out_edges_of d v) -> e < n.
Proof.
  intros v e I. unfold Locate.out_edges_of in I.
  destruct (v_out_edge d v) as [a|] eqn:V; [|destruct I].
  destruct (circ_iter (d_ccw d) (num_directed_edges d) a a) as [l|] eqn:C; [|destruct I].
  refine (circ_iter_in_range (d_ccw d) n _ _ a a l (vout_in_range d W v a V) C e I).
  intros x Hx. unfold d_ccw, e_rev. apply (dw_rev_lt d W). apply (dw_prev_lt d W). exact Hx.
Qed.

Lemma out_neighbour_in_range : forall v e, In e (Locate.out_edges_of d v) -> e_to d e < nv.
Proof.
  intros v e I. unfold e_to, e_rev. apply (dw_org_lt d W). apply (dw_rev_lt d W).
  exact (out_edges_in_range v e I).
Qed.

Lemma walk_in_range_aux : forall k cur v, cur < nv -> walk pts d q k cur (dq cur) = Some v -> v < nv.
Proof.
  induction k as [|k IH]; intros cur v Hc E; cbn [walk] in E; [discriminate|].
  destruct (find (fun e => (dist2 (P (e_to d e)) q <? dq cur)%Z) (Locate.out_edges_of d cur)) as [e'|] eqn:F.
  - destruct (find_some _ _ F) as (I & _).
    exact (IH (e_to d e') v (out_neighbour_in_range cur e' I) E).
  - injection E as <-. exact Hc.
Qed.

Lemma walk_terminates_aux : forall k cur, cur < nv -> closer_count (dq cur) < k ->
  walk pts d q k cur (dq cur) <> None.
Proof.
  induction k as [|k IH]; intros cur Hc Hk; [lia|]. cbn [walk].
  destruct (find (fun e => (dist2 (P (e_to d e)) q <? dq cur)%Z) (Locate.out_edges_of d cur)) as [e'|] eqn:F.
  - destruct (find_some _ _ F) as (I & L). cbv beta in L. apply Z.ltb_lt in L.
    pose proof (out_neighbour_in_range cur e' I) as Hv.
    apply (IH (e_to d e') Hv).
    pose proof (closer_count_lt (e_to d e') cur Hv L). lia.
  - discriminate.
Qed.

End Walk.

Theorem walk_to_nearest_terminates : forall pts d q start,
  DWf d -> start < Raw.num_vertices d -> walk_to_nearest pts d q start <> None.
Proof.
  intros pts d q start Wf Hs. apply DWf_DW in Wf. unfold walk_to_nearest.
  destruct (pnt_eqb (vpos pts start) q); [discriminate|].
  apply (walk_terminates_aux pts d q Wf (S (Raw.num_vertices d)) start Hs).
  pose proof (closer_count_le pts d q (dq pts q start)). lia.
Qed.

Theorem walk_result_in_range : forall pts d q start v,
  DWf d -> start < Raw.num_vertices d -> walk_to_nearest pts d q start = Some v -> v < Raw.num_vertices d.
Proof.
  intros pts d q start v Wf Hs E. apply DWf_DW in Wf. unfold walk_to_nearest in E.
  destruct (pnt_eqb (vpos pts start) q).
  - injection E as <-. exact Hs.
  - exact (walk_in_range_aux pts d q Wf _ start v Hs E).
Qed.

(* with at least one vertex, the point location never fails in the walk: the validated hint is a vertex *)
Corollary locate_with_hint_walk_ok : forall pts d q hint,
  DWf d -> 0 < Raw.num_vertices d ->
  exists c, c < Raw.num_vertices d /\
    walk_to_nearest pts d q (if hint <? Raw.num_vertices d then hint else 0) = Some c /\
    locate_with_hint pts d q hint = locate_from_closest pts d q c.
Proof.
  intros pts d q hint Wf Hn.
  assert (Hs : (if hint <? Raw.num_vertices d then hint else 0) < Raw.num_vertices d).
  { destruct (hint <? Raw.num_vertices d) eqn:L; [apply Nat.ltb_lt; exact L|exact Hn]. }
  pose proof (walk_to_nearest_terminates pts d q _ Wf Hs) as T.
  unfold locate_with_hint.
  destruct (walk_to_nearest pts d q (if hint <? Raw.num_vertices d then hint else 0)) as [c|] eqn:E; [|congruence].
  exists c. split; [|split; reflexivity].
  exact (walk_result_in_range pts d q _ c Wf Hs E).
Qed.

Print Assumptions locate_loop_sound.
Print Assumptions locate_from_closest_sound.
Print Assumptions locate_with_hint_sound.
Print Assumptions locate_result_matches_LocSpec.
Print Assumptions locate_loop_matches_LocSpec.
Print Assumptions walk_to_nearest_terminates.
Print Assumptions walk_result_in_range.
Print Assumptions walk_local_min.
