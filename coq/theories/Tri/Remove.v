(* Tri/Remove.v -- hand-written executable model of vertex removal:
     TriangulationExt::remove_and_notify / remove_core / isolate_convex_hull_vertex / legalize_edges_after_removal
                                                                              (src/delaunay_core/triangulation_ext.rs)
     dcel_operations::{disconnect_edge_strip, isolate_vertex_and_fill_hole, remesh_edge_ring, cleanup_isolated_vertex,
       swap_remove_undirected_edge, fix_handle_swap, swap_remove_vertex, swap_remove_face, remove_when_degenerate,
       remove_when_one_vertex_left, remove_when_two_vertices_left, remove_when_all_vertices_on_line}
                                                                              (src/delaunay_core/dcel_operations.rs)
     ConstrainedDelaunayTriangulation::remove / remove_constraint_edge                             (src/cdt.rs)
   written over the raw DCEL API (Dcel/Raw.v), the GENERATED flip_cw (Gen/DcelOps.v) and the legalize_edge model
   (Tri/Legalize.v).  The statements follow the Rust code line by line: the same order of reads and writes, the same
   Vec push / pop discipline (a Vec used as a stack is a list whose HEAD is the most recently pushed element), the
   same swap_remove index bookkeeping.  Nothing here depends on anything the observed state does not determine:
   the model is a function (no location parameter as in Tri/Insert.v).

   Conventions:
     * loops carry explicit fuel; `None` = out of fuel OR a Rust panic (unwrap of None, Vec index out of range, failed
       assert!, the explicit panic!s of the removal code).  On states produced by the implementation neither happens.
     * FixedDirectedEdgeHandle::max() / FixedFaceHandle::max() (u32::MAX placeholders in remesh_edge_ring that the code
       overwrites in its next iteration) are represented by `handle_max` = 0.
     * exact predicates over the decoded integer coordinates `pts` (indexed by the vertex indices of the state BEFORE the
       removal: the vertex table is only permuted by the final swap_remove_vertex, after which no predicate is evaluated).
   Definitions only; the theorems are in Tri/RemoveProofs.v.
   Tie to the code: Check/RunModel.v runs `remove_vertex_full` / `cdt_remove_vertex` on the state the implementation was in
   before every `remove` and compares all four tables and the returned vertex index-exactly (tag corr). *)
From Coq Require Import ZArith List Bool Arith.
From SpadeV Require Import Geom.Pred Obs.State Vmap.Model Dcel.Raw Gen.DcelOps Query.Hull Tri.Legalize Tri.Insert.
Import ListNotations.

(* ------------------------------------------------------------------ Vec::swap_remove *)
(* precondition (else Vec::swap_remove panics): i < length l -- checked by the callers *)
Definition swap_remove_list {A} (dflt : A) (i : nat) (l : list A) : list A :=
  let n := length l in
  let l' := removelast l in
  if i =? n - 1 then l' else set_nth i (nth (n - 1) l dflt) l'.

Definition with_verts (d : dcel) (vs : list vrec) : dcel := mkdcel vs (d_hedges d) (d_faces d) (d_flags d).
Definition with_faces (d : dcel) (fs : list (option nat)) : dcel := mkdcel (d_verts d) (d_hedges d) fs (d_flags d).
Definition with_edges (d : dcel) (hs : list hrec) (gs : list bool) : dcel := mkdcel (d_verts d) hs (d_faces d) gs.

Definition handle_max : nat := 0.
Definition d_cw (d : dcel) (e : nat) : nat := e_next d (e_rev e).          (* DirectedEdgeHandle::cw = rev().next() *)

(* ------------------------------------------------------------------ fix_handle_swap / swap_remove_undirected_edge *)
Definition fix_handle_swap (d : dcel) (edge_handle : nat) : dcel :=
  let old_handle := num_undirected_edges d in
  let old_to_new (h : nat) : nat :=
    if as_undirected h =? old_handle then
      (if Nat.even h then normalized (as_undirected edge_handle) else not_normalized (as_undirected edge_handle))
    else h in
  let edge_next := e_next d edge_handle in
  let edge_prev := e_prev d edge_handle in
  let edge_next := old_to_new edge_next in
  let edge_prev := old_to_new edge_prev in
  let d := set_next d edge_prev edge_handle in
  let d := set_prev d edge_next edge_handle in
  let edge_origin := e_origin d edge_handle in
  let edge_face := e_face d edge_handle in
  let d := set_out_edge d edge_origin (Some edge_handle) in
  set_adjacent_edge d edge_face (Some edge_handle).

(* dcel.edges.swap_remove(k): the EdgeEntry (two half-edges + the undirected data) at the end moves to slot k *)
Definition swap_remove_edge_tables (d : dcel) (k : nat) : dcel :=
  with_edges d (swap_remove_list dflt_h (2 * k) (swap_remove_list dflt_h (2 * k + 1) (d_hedges d)))
               (swap_remove_list false k (d_flags d)).

Definition swap_remove_undirected_edge (d : dcel) (k : nat) : option dcel :=
  if num_undirected_edges d <=? k then None else
  let d := swap_remove_edge_tables d k in
  if k <? num_undirected_edges d then
    let directed := normalized k in
    Some (fix_handle_swap (fix_handle_swap d (e_rev directed)) directed)
  else Some d.

(* ------------------------------------------------------------------ swap_remove_face *)
Definition swap_remove_face (d : dcel) (f : nat) : option dcel :=
  if num_faces d <=? f then None else
  let d := with_faces d (swap_remove_list None f (d_faces d)) in
  if f <? num_faces d then
    match f_adjacent d f with
    | None => None                                              (* adjacent_edge().unwrap() *)
    | Some e1 =>
        let e0 := e_prev d e1 in
        let e2 := e_next d e1 in
        Some (set_face (set_face (set_face d e0 f) e1 f) e2 f)
    end
  else Some d.

(* sort_unstable() followed by .iter().rev(): descending order *)
Fixpoint insert_desc (x : nat) (l : list nat) : list nat :=
  match l with
  | [] => [x]
  | y :: t => if y <=? x then x :: l else y :: insert_desc x t
  end.
Definition sort_desc (l : list nat) : list nat := fold_right insert_desc [] l.

Fixpoint fold_opt {A B} (f : A -> B -> option A) (l : list B) (a : A) : option A :=
  match l with
  | [] => Some a
  | x :: t => match f a x with Some a' => fold_opt f t a' | None => None end
  end.

Record iso_result := mkiso {
  iso_new_edges : list nat;            (* Vec used as a stack by legalize_edges_after_removal: head = last pushed *)
  iso_smallest_new_edge : nat;
  iso_edges_to_remove : list nat;      (* only ever sorted: order irrelevant *)
  iso_faces_to_remove : list nat }.

Definition cleanup_isolated_vertex (d : dcel) (iso : iso_result) : option dcel :=
  match fold_opt swap_remove_undirected_edge (sort_desc (iso_edges_to_remove iso)) d with
  | None => None
  | Some d => fold_opt swap_remove_face (sort_desc (iso_faces_to_remove iso)) d
  end.

Section R.
Variable pts : list pnt.            (* exact positions by vertex index of the state before the removal *)
Variable fuel : nat.

(* VertexHandle::out_edges().collect(): counterclockwise, starting at the vertex' out_edge *)
Definition out_edges (d : dcel) (v : nat) : option (list nat) :=
  match v_out_edge d v with
  | None => Some []
  | Some a => circ_iter (d_ccw d) fuel a a
  end.

(* ------------------------------------------------------------------ swap_remove_vertex *)
Definition swap_remove_vertex (d : dcel) (v : nat) : option (dcel * vrec) :=
  if Raw.num_vertices d <=? v then None else
  let data := nth v (d_verts d) dflt_v in
  let d := with_verts d (swap_remove_list dflt_v v (d_verts d)) in
  if negb (Raw.num_vertices d =? v) then
    match out_edges d v with
    | None => None
    | Some to_update => Some (fold_left (fun d e => set_origin d e v) to_update d, data)
    end
  else Some (d, data).

(* ------------------------------------------------------------------ legalize_edges_after_removal *)
Definition push_if_not_contained (x : nat) (l : list nat) : list nat := if memb x l then l else x :: l.

(* `smallest_new` encodes the closure argument: |e| !is_new_edge(e) is e < smallest_new; |_| false is smallest_new = 0 *)
Fixpoint legalize_after_removal (k : nat) (d : dcel) (stack : list nat) (smallest_new : nat) : option dcel :=
  match k with
  | O => None
  | S k' =>
    match stack with
    | [] => Some d
    | next_edge :: rest =>
      let edge := normalized next_edge in
      if is_flagged d edge || (next_edge <? smallest_new) then legalize_after_removal k' d rest smallest_new
      else
        let r := e_rev edge in
        let e2 := e_prev d edge in
        let e4 := e_prev d r in
        let from := vpos pts (e_origin d edge) in
        let to := vpos pts (e_to d edge) in
        let left := if is_outer d edge then None else Some (vpos pts (apex d edge)) in
        let right := if is_outer d r then None else Some (vpos pts (apex d r)) in
        let should_flip :=
          match left, right with
          | Some l, Some rr => Some (0 <? incircle from to l rr)%Z      (* contained_in_circumference(from, to, left, right) *)
          | None, Some rr => Some (0 <=? orient rr from to)%Z           (* is_ordered_ccw(right, from, to) *)
          | Some l, None => Some (0 <=? orient l to from)%Z             (* is_ordered_ccw(left, to, from) *)
          | None, None => None                                          (* panic!("Unexpected geometry...") *)
          end in
        match should_flip with
        | None => None
        | Some true =>
            let e1 := e_next d edge in
            let e3 := e_next d r in
            let rest := push_if_not_contained (as_undirected e1) rest in
            let rest := push_if_not_contained (as_undirected e2) rest in
            let rest := push_if_not_contained (as_undirected e3) rest in
            let rest := push_if_not_contained (as_undirected e4) rest in
            legalize_after_removal k' (fst (flip_cw d (as_undirected edge))) rest smallest_new
        | Some false => legalize_after_removal k' d rest smallest_new
        end
    end
  end.

(* ------------------------------------------------------------------ remesh_edge_ring *)
(* `bl` is the border loop as a stack (head = last pushed = next popped) *)
Fixpoint fan_loop (d : dcel) (bl : list nat) (inner_edge fan_origin : nat) (new_edges : list nat)
  : dcel * list nat * nat * list nat :=
  match bl with
  | outer_edge :: rest =>
    if 2 <? length bl then
      let outer_edge_from := e_origin d outer_edge in
      let outer_edge_to := e_to d outer_edge in
      let new_edge_handle := normalized (num_undirected_edges d) in
      let new_face_handle := num_faces d in
      let new_norm := mkh inner_edge outer_edge new_face_handle outer_edge_to in
      let new_twin := mkh handle_max handle_max handle_max fan_origin in
      let d := set_face d outer_edge new_face_handle in
      let d := set_next d outer_edge new_edge_handle in
      let d := set_prev d outer_edge inner_edge in
      let d := set_prev d inner_edge new_edge_handle in
      let d := set_next d inner_edge outer_edge in
      let d := set_face d inner_edge new_face_handle in
      let d := set_out_edge d outer_edge_from (Some outer_edge) in
      let d := push_edge d new_norm new_twin in
      let new_edges := as_undirected new_edge_handle :: new_edges in
      let d := push_face d (Some new_edge_handle) in
      fan_loop d rest (e_rev new_edge_handle) fan_origin new_edges
    else (d, bl, inner_edge, new_edges)
  | [] => (d, bl, inner_edge, new_edges)
  end.

Definition remesh_edge_ring (d : dcel) (bl : list nat) (edges_to_remove faces_to_remove : list nat) : option (dcel * iso_result) :=
  match bl with
  | [] => None                                                   (* border_loop.pop().unwrap() *)
  | inner_edge :: bl =>
    let smallest_new_edge := num_undirected_edges d in
    let fan_origin := e_origin d inner_edge in
    let '(d, bl, inner_edge, new_edges) := fan_loop d bl inner_edge fan_origin [] in
    match bl with
    | inner_edge_next :: inner_edge_prev :: _ =>
      let new_face_handle := num_faces d in
      let d := set_face d inner_edge new_face_handle in
      let d := push_face d (Some inner_edge) in
      let d := set_face d inner_edge_prev new_face_handle in
      let d := set_face d inner_edge_next new_face_handle in
      let d := set_prev d inner_edge inner_edge_prev in
      let d := set_next d inner_edge_prev inner_edge in
      let d := set_next d inner_edge inner_edge_next in
      let d := set_prev d inner_edge_next inner_edge in
      let d := set_prev d inner_edge_prev inner_edge_next in
      let d := set_next d inner_edge_next inner_edge_prev in
      let prev_origin := e_origin d inner_edge_prev in
      let d := set_out_edge d prev_origin (Some inner_edge_prev) in
      let next_origin := e_origin d inner_edge_next in
      let d := set_out_edge d next_origin (Some inner_edge_next) in
      let d := set_out_edge d fan_origin (Some inner_edge) in
      Some (d, mkiso new_edges smallest_new_edge edges_to_remove faces_to_remove)
    | _ => None                                                  (* pop().unwrap() on an empty Vec *)
    end
  end.

Definition isolate_vertex_and_fill_hole (d : dcel) (bl : list nat) (v : nat) : option (dcel * iso_result) :=
  match out_edges d v with
  | None => None
  | Some es =>
    let edges_to_remove := map as_undirected es in
    let faces_to_remove := filter (fun f => negb (f =? 0)) (map (e_face d) es) in
    remesh_edge_ring d bl edges_to_remove faces_to_remove
  end.

(* ------------------------------------------------------------------ disconnect_edge_strip *)
(* `strip` in iteration order (first pushed first) *)
Fixpoint disconnect_edge_strip (d : dcel) (strip : list nat) (edges_to_remove faces_to_remove : list nat) : dcel * iso_result :=
  match strip with
  | [] => (d, mkiso [] 0 edges_to_remove faces_to_remove)
  | edge :: rest =>
    let edges_to_remove := edges_to_remove ++ [as_undirected (e_prev d edge)] in
    let faces_to_remove := faces_to_remove ++ (if e_face d edge =? 0 then [] else [e_face d edge]) in
    let from := e_origin d edge in
    let prev := e_prev d (d_ccw d edge) in
    let d := set_next d prev edge in
    let d := set_prev d edge prev in
    let d := set_face d edge 0 in
    let d := set_adjacent_edge d 0 (Some edge) in
    let d := set_out_edge d from (Some edge) in
    disconnect_edge_strip d rest edges_to_remove faces_to_remove
  end.

(* ------------------------------------------------------------------ isolate_convex_hull_vertex *)
(* the inner `while let [.., edge1, edge2] = convex_edges`; convex_edges and edges_to_validate as stacks *)
Fixpoint hull_fix (k : nat) (d : dcel) (convex_edges edges_to_validate : list nat) : option (dcel * list nat * list nat) :=
  match k with
  | O => None
  | S k' =>
    match convex_edges with
    | edge2 :: edge1 :: rest =>
      let target_position := vpos pts (e_to d edge2) in
      if (0 <? orient (vpos pts (e_origin d edge1)) (vpos pts (e_to d edge1)) target_position)%Z then
        let edge_to_flip := e_rev (e_prev d edge2) in
        let d := fst (flip_cw d (as_undirected edge_to_flip)) in
        hull_fix k' d (edge_to_flip :: rest) (as_undirected edge_to_flip :: edges_to_validate)
      else Some (d, convex_edges, edges_to_validate)
    | _ => Some (d, convex_edges, edges_to_validate)
    end
  end.

Fixpoint hull_loop (k : nat) (d : dcel) (current loop_end : nat) (convex_edges edges_to_validate : list nat)
  : option (dcel * list nat * list nat) :=
  match k with
  | O => None
  | S k' =>
    let current_handle := current in
    let current := d_ccw d current_handle in
    let edge := e_next d current_handle in
    match hull_fix fuel d (edge :: convex_edges) edges_to_validate with
    | None => None
    | Some (d, convex_edges, edges_to_validate) =>
      if current =? loop_end then Some (d, convex_edges, edges_to_validate)
      else hull_loop k' d current loop_end convex_edges edges_to_validate
    end
  end.

Definition isolate_convex_hull_vertex (d : dcel) (convex_hull_out_edge : nat) : option (dcel * iso_result) :=
  let loop_end := convex_hull_out_edge in
  let loop_start := d_ccw d loop_end in
  let loop_end_next := e_next d loop_end in
  match hull_loop fuel d loop_start loop_end [] [] with
  | None => None
  | Some (d, convex_edges, edges_to_validate) =>
    let convex_edges := loop_end_next :: convex_edges in
    let '(d, result) := disconnect_edge_strip d (List.rev convex_edges) [] [] in
    match legalize_after_removal fuel d edges_to_validate 0 with
    | None => None
    | Some d => Some (d, result)
    end
  end.

(* ------------------------------------------------------------------ remove_core, two-dimensional branch *)
(* `for edge in vertex.out_edges().rev()` with its `break`: clockwise, starting at cw(out_edge), the out_edge itself last.
   Result: the border loop (stack: head = last pushed) and the outer out-edge if one was met. *)
Fixpoint border_scan (k : nat) (d : dcel) (final_handle current_handle : nat) (border_loop : list nat)
  : option (list nat * option nat) :=
  match k with
  | O => None
  | S k' =>
    let edge := d_cw d final_handle in
    if is_outer d edge then Some (border_loop, Some edge)
    else
      let border_loop := e_next d edge :: border_loop in
      if edge =? current_handle then Some (border_loop, None)
      else border_scan k' d edge current_handle border_loop
  end.

Definition remove_2d (d : dcel) (v : nat) : option (dcel * vrec) :=
  match v_out_edge d v with
  | None => None                                  (* empty iterator, empty border loop: remesh_edge_ring unwraps None *)
  | Some a =>
    match border_scan fuel d a a [] with
    | None => None
    | Some (_, Some convex_hull_edge) =>
      match isolate_convex_hull_vertex d convex_hull_edge with
      | None => None
      | Some (d, iso) =>
        match cleanup_isolated_vertex d iso with
        | None => None
        | Some d => swap_remove_vertex d v
        end
      end
    | Some (border_loop, None) =>
      match isolate_vertex_and_fill_hole d border_loop v with
      | None => None
      | Some (d, iso) =>
        match legalize_after_removal fuel d (iso_new_edges iso) (iso_smallest_new_edge iso) with
        | None => None
        | Some d =>
          match cleanup_isolated_vertex d iso with
          | None => None
          | Some d => swap_remove_vertex d v
          end
        end
      end
    end
  end.

(* ------------------------------------------------------------------ remove_when_degenerate *)
Definition remove_when_one_vertex_left (d : dcel) (v : nat) : option (dcel * vrec) :=
  if negb (v =? 0) then None else                                      (* assert_eq!(vertex_to_remove.index(), 0) *)
  match d_verts d with
  | [] => None
  | _ => Some (with_verts d (removelast (d_verts d)), last (d_verts d) dflt_v)      (* vertices.pop().unwrap() *)
  end.

Definition remove_when_two_vertices_left (d : dcel) (v : nat) : option (dcel * vrec) :=
  if negb ((num_faces d =? 1) && (Raw.num_vertices d =? 2) && (num_undirected_edges d * 2 =? 2)) then None else
  if Raw.num_vertices d <=? v then None else
  let result := nth v (d_verts d) dflt_v in
  let d := with_verts d (swap_remove_list dflt_v v (d_verts d)) in
  let d := set_adjacent_edge d 0 None in
  let d := set_out_edge d 0 None in
  Some (with_edges d [] [], result).

Definition remove_when_all_vertices_on_line (d : dcel) (v : nat) : option (dcel * vrec) :=
  match out_edges d v with
  | None => None
  | Some [out_edge1] =>
      let vertex_to_update := e_to d out_edge1 in
      let o_next := e_next d out_edge1 in
      let d := set_prev d o_next (e_rev o_next) in
      let d := set_next d (e_rev o_next) o_next in
      let d := set_out_edge d vertex_to_update (Some o_next) in
      let d := set_adjacent_edge d 0 (Some o_next) in
      match swap_remove_undirected_edge d (as_undirected out_edge1) with
      | None => None
      | Some d => swap_remove_vertex d v
      end
  | Some [e1; e2] =>
      let t1 := e_rev e1 in
      let e2_next := e_next d e2 in
      let e2_to := e_to d e2 in
      let t2_prev := e_prev d (e_rev e2) in
      let d :=
        if e2_next =? e_rev e2 then
          let d := set_next d t1 (e_rev t1) in
          set_prev d (e_rev t1) t1
        else
          let d := set_prev d e2_next t1 in
          let d := set_next d t1 e2_next in
          let d := set_next d t2_prev (e_rev t1) in
          set_prev d (e_rev t1) t2_prev in
      let d := set_out_edge d e2_to (Some (e_rev t1)) in
      let d := set_origin d (e_rev t1) e2_to in
      let d := set_adjacent_edge d 0 (Some t1) in
      match swap_remove_vertex d v with
      | None => None
      | Some (d, result) =>
        match swap_remove_undirected_edge d (as_undirected e2) with
        | None => None
        | Some d => Some (d, result)
        end
      end
  | Some _ => None                                   (* panic!("Vertex with invalid out edges found. This is a bug.") *)
  end.

Definition remove_when_degenerate (d : dcel) (v : nat) : option (dcel * vrec) :=
  match Raw.num_vertices d with
  | 0 => None                                        (* panic!("Cannot remove vertex when triangulation is empty") *)
  | 1 => remove_when_one_vertex_left d v
  | 2 => remove_when_two_vertices_left d v
  | _ => remove_when_all_vertices_on_line d v
  end.

(* ------------------------------------------------------------------ remove_core / remove_and_notify *)
Definition remove_vertex_full (d : dcel) (v : nat) : option (dcel * vrec) :=
  if Raw.num_vertices d <=? v then None else          (* self.vertex(vertex_to_remove): index out of range *)
  if num_faces d <=? 1 then remove_when_degenerate d v else remove_2d d v.

(* ------------------------------------------------------------------ ConstrainedDelaunayTriangulation::remove *)
(* vertex(v).out_edges().find(|e| e.is_constraint_edge()) -- lazily, as the iterator does *)
Fixpoint find_out_edge (k : nat) (d : dcel) (cur final : nat) (p : nat -> bool) : option (option nat) :=
  match k with
  | O => None
  | S k' =>
    if p cur then Some (Some cur)
    else let nxt := d_ccw d cur in
         if nxt =? final then Some None else find_out_edge k' d nxt final p
  end.

Definition clear_flag (d : dcel) (e : nat) : dcel :=
  mkdcel (d_verts d) (d_hedges d) (d_faces d) (set_nth (as_undirected e) false (d_flags d)).

(* ConstrainedDelaunayTriangulation::remove_constraint_edge(edge: FixedUndirectedEdgeHandle) -> bool (src/cdt.rs):
     if self.is_constraint_edge(edge) { unmake_constraint_edge(); num_constraints -= 1; legalize_edge(edge.as_directed(), true); true }
     else { false }
   `u` is the undirected index; as_directed() is the normalized half-edge 2u.  The bool is the returned value and says whether
   num_constraints was decremented.  `release_constraints` below runs exactly this body for the edge it has found (which is flagged). *)
Definition remove_constraint_edge (d : dcel) (u : nat) : option (dcel * bool) :=
  if is_flagged d (normalized u) then
    let d := clear_flag d (normalized u) in
    match legalize_edge pts fuel d (normalized u) true with
    | None => None
    | Some (d, _) => Some (d, true)
    end
  else Some (d, false).

(* the `while let Some(edge) = ... { self.remove_constraint_edge(edge); }` loop *)
Fixpoint release_constraints (k : nat) (d : dcel) (v : nat) : option dcel :=
  match k with
  | O => None
  | S k' =>
    match v_out_edge d v with
    | None => Some d
    | Some a =>
      match find_out_edge fuel d a a (is_flagged d) with
      | None => None
      | Some None => Some d
      | Some (Some e) =>
        let u := as_undirected e in
        let d := clear_flag d e in                                        (* unmake_constraint_edge; num_constraints -= 1 *)
        match legalize_edge pts fuel d (normalized u) true with           (* legalize_edge(edge.as_directed(), true) *)
        | None => None
        | Some (d, _) => release_constraints k' d v
        end
      end
    end
  end.

Definition cdt_remove_vertex (d : dcel) (v : nat) : option (dcel * vrec) :=
  if Raw.num_vertices d <=? v then None else
  match release_constraints fuel d v with
  | None => None
  | Some d => remove_vertex_full d v
  end.
End R.

(* ------------------------------------------------------------------ Dcel::clear (src/delaunay_core/dcel.rs) *)
(* vertices.clear(); edges.clear(); faces.truncate(1); faces[0].adjacent_edge = None *)
Definition dcel_clear (d : dcel) : dcel :=
  set_adjacent_edge (mkdcel [] [] (firstn 1 (d_faces d)) []) 0 None.

(* the deliverable's signature *)
Definition remove_vertex (pts : list pnt) (fuel : nat) (d : dcel) (v : nat) : option dcel :=
  option_map fst (remove_vertex_full pts fuel d v).
